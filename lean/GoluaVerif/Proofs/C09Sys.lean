/-
  Proofs.C09Sys — the invariant of Model.CoSys (thread.go's data + event order together) and
  deadlock freedom: every send finds its receiver parked.
-/
import GoluaVerif.Model.CoSys
import GoluaVerif.Proofs.C09Seq
import GoluaVerif.Proofs.C09Proto
namespace GoluaVerif.Proofs.C09Sys
open GoluaVerif.Spec.Co (Id Val Op upd upd_same upd_other)
open GoluaVerif.Model.CoProto (Ev Act fire seg segStep Ph)
open GoluaVerif.Model.CoSys
open GoluaVerif.Proofs.C09Seq (R)
open GoluaVerif.Proofs.C09Proto

abbrev PSt := GoluaVerif.Model.CoProto.St
abbrev DSt := GoluaVerif.Model.CoSeq.State

def AllUnlock (l : List Ev) : Prop := ∀ e ∈ l, ∃ m, e = Ev.unlock m
def Local (l : List Ev) : Prop := ∀ e ∈ l, e = Ev.touch ∨ e = Ev.run
def NoChan (l : List Ev) : Prop := ∀ e ∈ l, (∀ c, e ≠ Ev.send c) ∧ (∀ c, e ≠ Ev.recv c)

theorem Local.noChan {l : List Ev} (h : Local l) : NoChan l := by
  intro e he
  rcases h e he with rfl | rfl <;> simp

/-! ### shapes of the two kinds of `fire` -/

theorem fire_one_shape {s s' : PSt} {g : Nat} (hf : fire s (.one g) = some s') :
    ∃ e r, s.prog g = e :: r ∧ (∀ c, e ≠ Ev.send c) ∧ (∀ c, e ≠ Ev.recv c) ∧
      s'.prog = upd s.prog g r ∧ s'.act = s.act := by
  simp only [fire] at hf
  split at hf
  · cases hf
  · rename_i m r hp
    split at hf
    · cases hf; exact ⟨_, _, hp, by simp, by simp, rfl, rfl⟩
    · cases hf
  · rename_i m r hp; cases hf; exact ⟨_, _, hp, by simp, by simp, rfl, rfl⟩
  · cases hf
  · cases hf
  · rename_i e r h1 h2 h3 h4 hp
    cases hf
    exact ⟨e, r, hp, fun c hc => h3 c hc, fun c hc => h4 c hc, rfl, rfl⟩

theorem fire_sync_shape {s s' : PSt} {g h : Nat} (hf : fire s (.sync g h) = some s') :
    g ≠ h ∧ ∃ c rg rh, s.prog g = Ev.send c :: rg ∧ s.prog h = Ev.recv c :: rh ∧
      s'.prog = upd (upd s.prog g rg) h rh ∧ s'.act = upd (upd s.act g false) h true := by
  simp only [fire] at hf
  split at hf
  · cases hf
  · rename_i hgh
    split at hf
    · rename_i c rg hpg
      split at hf
      · rename_i c' rh hph
        split at hf
        · rename_i hcc
          cases hf; subst hcc
          exact ⟨hgh, c, rg, rh, hpg, hph, rfl, rfl⟩
        · cases hf
      · cases hf
    · cases hf

/-! ### the invariant -/

structure J (s : St) : Prop where
  r : ∃ sp, R s.d sp
  pinv : ∃ fin, InvF fin s.p
  beyond : ∀ k, s.d.n ≤ k → (s.d.th k).status = .suspended
  active : ∀ g, s.p.act g = true →
    (NoChan (s.p.prog g) ∧ s.d.cur = g) ∨
    (∃ pre x post, s.p.prog g = pre ++ Ev.send x :: post ∧ NoChan pre ∧ x = s.d.cur ∧ x ≠ g ∧
      (((s.d.th g).status ≠ .dead ∧ post = [Ev.recv g]) ∨ ((s.d.th g).status = .dead ∧ AllUnlock post)))
  parked : ∀ g, s.p.act g = false → (s.d.th g).status ≠ .dead → ∃ r, s.p.prog g = Ev.recv g :: r ∧ Local r
  gone : ∀ g, s.p.act g = false → (s.d.th g).status = .dead → AllUnlock (s.p.prog g)

theorem J_init (scripts handlers : Nat → List Op) : J (initSt scripts handlers) := by
  refine ⟨⟨_, GoluaVerif.Proofs.C09Seq.R_init⟩, ⟨fun _ => true, ⟨fun _ => [], ?_, ?_, ?_⟩, ?_, ⟨0, by simp [initSt]⟩⟩, ?_, ?_, ?_, ?_⟩
  · intro g m; simp [initSt]
  · intro g; simp
  · intro g
    by_cases hg : g = 0
    · subst hg; simp [initSt, seg]
    · simp [initSt, hg, startPath, seg, segStep]
  · intro g h hg hh
    simp [initSt] at hg hh
    rw [hg, hh]
  · intro k hk
    have : k ≠ 0 := by simp [initSt, GoluaVerif.Model.CoSeq.init] at hk; omega
    simp [initSt, GoluaVerif.Model.CoSeq.init, this, GoluaVerif.Model.CoSeq.Thread.fresh]
  · intro g hg
    have : g = 0 := by simpa [initSt] using hg
    subst this
    left
    exact ⟨by intro e he; simp [initSt] at he, rfl⟩
  · intro g hg _
    have : g ≠ 0 := by simpa [initSt] using hg
    exact ⟨[.touch, .run, .touch], by simp [initSt, this, startPath], by intro e he; simp at he; rcases he with rfl | rfl | rfl <;> simp⟩
  · intro g hg hd
    have : g ≠ 0 := by simpa [initSt] using hg
    simp [initSt, GoluaVerif.Model.CoSeq.init, this, GoluaVerif.Model.CoSeq.Thread.fresh] at hd


theorem noChan_cons {e : Ev} {l : List Ev} (h : NoChan (e :: l)) : NoChan l :=
  fun x hx => h x (List.mem_cons_of_mem _ hx)

/-- a list that starts with a non-channel event and equals `pre ++ send x :: post` has a non-empty `pre` -/
theorem split_cons {e : Ev} {r pre post : List Ev} {x : Nat} (he : ∀ c, e ≠ Ev.send c)
    (h : e :: r = pre ++ Ev.send x :: post) : ∃ pre', pre = e :: pre' ∧ r = pre' ++ Ev.send x :: post := by
  cases pre with
  | nil => simp at h; exact absurd h.1 (he x)
  | cons a pre' => simp at h; exact ⟨pre', by rw [h.1], h.2⟩

theorem J_fire_one {s : St} {p' : PSt} {g : Nat} (hJ : J s) (hf : fire s.p (.one g) = some p') :
    J { s with p := p' } := by
  obtain ⟨e, r, hp, hns, hnr, hprog, hact⟩ := fire_one_shape hf
  obtain ⟨fin, hI⟩ := hJ.pinv
  refine ⟨hJ.r, ⟨fin, inv_fire hI hf⟩, hJ.beyond, ?_, ?_, ?_⟩
  · intro k hk
    simp only [hact] at hk
    simp only [hprog]
    by_cases hkg : k = g
    · subst hkg
      simp only [upd_same]
      rcases hJ.active k hk with ⟨hnc, hcur⟩ | ⟨pre, x, post, hpp, hnc, hx, hxk, hpost⟩
      · left; rw [hp] at hnc; exact ⟨noChan_cons hnc, hcur⟩
      · right
        rw [hp] at hpp
        obtain ⟨pre', hpre, hr⟩ := split_cons hns hpp
        refine ⟨pre', x, post, hr, ?_, hx, hxk, hpost⟩
        rw [hpre] at hnc; exact noChan_cons hnc
    · simp only [upd_other _ _ _ _ hkg]
      exact hJ.active k hk
  · intro k hk hd
    simp only [hact] at hk
    simp only [hprog]
    by_cases hkg : k = g
    · subst hkg
      obtain ⟨r', hr', _⟩ := hJ.parked k hk hd
      rw [hp] at hr'
      exact absurd (List.cons.inj hr').1 (hnr k)
    · simp only [upd_other _ _ _ _ hkg]
      exact hJ.parked k hk hd
  · intro k hk hd
    simp only [hact] at hk
    simp only [hprog]
    by_cases hkg : k = g
    · subst hkg
      simp only [upd_same]
      have := hJ.gone k hk hd
      rw [hp] at this
      exact fun x hx => this x (List.mem_cons_of_mem _ hx)
    · simp only [upd_other _ _ _ _ hkg]
      exact hJ.gone k hk hd

theorem J_fire_sync {s : St} {p' : PSt} {g h : Nat} (hJ : J s) (hf : fire s.p (.sync g h) = some p') :
    J { s with p := p' } := by
  obtain ⟨hgh, c, rg, rh, hpg, hph, hprog, hact⟩ := fire_sync_shape hf
  obtain ⟨fin, hI⟩ := hJ.pinv
  have hI' := inv_fire hI hf
  obtain ⟨⟨H, hH, hnd, hseg⟩, hb, hsa⟩ := hI
  have hag : s.p.act g = true := by have := hseg g; rw [hpg] at this; exact (seg_send this).1
  have hah : s.p.act h = false := by have := hseg h; rw [hph] at this; exact (seg_recv this).1
  -- the sender is in the middle of a hand-off path, at its send
  obtain ⟨hx, hxg, hpost⟩ : c = s.d.cur ∧ c ≠ g ∧
      (((s.d.th g).status ≠ .dead ∧ rg = [Ev.recv g]) ∨ ((s.d.th g).status = .dead ∧ AllUnlock rg)) := by
    rcases hJ.active g hag with ⟨hnc, _⟩ | ⟨pre, x, post, hpp, hnc, hx, hxk, hpost⟩
    · rw [hpg] at hnc; exact absurd rfl ((hnc _ (by simp)).1 c)
    · rw [hpg] at hpp
      cases pre with
      | nil => simp at hpp; obtain ⟨h1, h2⟩ := hpp; subst h1; subst h2; exact ⟨hx, hxk, hpost⟩
      | cons a pre' => simp at hpp; exact absurd hpp.1.symm ((hnc a (by simp)).1 c)
  -- the receiver is parked on its own channel
  obtain ⟨hch, hloc⟩ : c = h ∧ Local rh := by
    by_cases hd : (s.d.th h).status = .dead
    · have := hJ.gone h hah hd
      rw [hph] at this
      obtain ⟨m, hm⟩ := this (Ev.recv c) (by simp)
      cases hm
    · obtain ⟨r', hr', hl⟩ := hJ.parked h hah hd
      rw [hph] at hr'
      simp at hr'
      exact ⟨hr'.1, hr'.2 ▸ hl⟩
  subst hch
  have key : ∀ k, upd (upd s.p.act g false) c true k = true → k = c := by
    intro k hk
    by_cases h1 : k = c
    · exact h1
    · by_cases h2 : k = g
      · subst h2; simp [h1] at hk
      · simp [h1, h2] at hk
        exact absurd (hb k g hk hag) h2
  refine ⟨hJ.r, ⟨fin, hI'⟩, hJ.beyond, ?_, ?_, ?_⟩
  · intro k hk
    simp only [hact] at hk
    have := key k hk
    subst this
    left
    simp only [hprog, upd_same]
    exact ⟨hloc.noChan, hx.symm⟩
  · intro k hk hd
    simp only [hact] at hk
    simp only [hprog]
    by_cases h1 : k = c
    · subst h1; simp at hk
    · by_cases h2 : k = g
      · subst h2
        simp only [upd_other _ _ _ _ h1, upd_same]
        rcases hpost with ⟨_, hr⟩ | ⟨hdd, _⟩
        · exact ⟨[], by rw [hr], by intro e he; simp at he⟩
        · exact absurd hdd hd
      · simp only [upd_other _ _ _ _ h1, upd_other _ _ _ _ h2] at hk ⊢
        exact hJ.parked k hk hd
  · intro k hk hd
    simp only [hact] at hk
    simp only [hprog]
    by_cases h1 : k = c
    · subst h1; simp at hk
    · by_cases h2 : k = g
      · subst h2
        simp only [upd_other _ _ _ _ h1, upd_same]
        rcases hpost with ⟨hnd', _⟩ | ⟨_, hu⟩
        · exact absurd hd hnd'
        · exact hu
      · simp only [upd_other _ _ _ _ h1, upd_other _ _ _ _ h2] at hk ⊢
        exact hJ.gone k hk hd

theorem J_fire {s : St} {p' : PSt} {a : Act} (hJ : J s) (hf : fire s.p a = some p') :
    J { s with p := p' } := by
  cases a with
  | one g => exact J_fire_one hJ hf
  | sync g h => exact J_fire_sync hJ hf


/-! ### starting the next operation -/

theorem invF_load {fin : Nat → Bool} {p : PSt} {g : Nat} (hI : InvF fin p) (hag : p.act g = true)
    (hpg : p.prog g = []) {path : List Ev} {fin' : Bool} (hs : seg (true, []) path = some (fin', [])) :
    InvF (upd fin g fin') { p with prog := upd p.prog g path } := by
  obtain ⟨⟨H, hH, hnd, hseg⟩, hb, hsa⟩ := hI
  have hg := hseg g
  rw [hag, hpg] at hg
  simp [seg] at hg
  refine ⟨⟨H, hH, hnd, ?_⟩, hb, hsa⟩
  intro k
  by_cases hk : k = g
  · subst hk; simp [hag, hg.2, hs]
  · simpa [hk] using hseg k

theorem J_load {s : St} {g : Nat} (hJ : J s) (hag : s.p.act g = true) (hpg : s.p.prog g = [])
    (d' : DSt) (path : List Ev) (rest : List Op) (fin' : Bool)
    (hr : ∃ sp, R d' sp)
    (hs : seg (true, []) path = some (fin', []))
    (hby : ∀ k, d'.n ≤ k → (d'.th k).status = .suspended)
    (hdead : ∀ k, k ≠ g → ((d'.th k).status = .dead ↔ (s.d.th k).status = .dead))
    (hact : (NoChan path ∧ d'.cur = g) ∨
      (∃ pre x post, path = pre ++ Ev.send x :: post ∧ NoChan pre ∧ x = d'.cur ∧ x ≠ g ∧
        (((d'.th g).status ≠ .dead ∧ post = [Ev.recv g]) ∨ ((d'.th g).status = .dead ∧ AllUnlock post)))) :
    J (load s g d' path rest) := by
  obtain ⟨fin, hI⟩ := hJ.pinv
  have hb := hI.baton
  refine ⟨hr, ⟨_, invF_load hI hag hpg hs⟩, hby, ?_, ?_, ?_⟩
  · intro k hk
    have hk' : s.p.act k = true := hk
    have : k = g := hb k g hk' hag
    subst this
    simpa [load] using hact
  · intro k hk hd
    have hk' : s.p.act k = false := hk
    have hkg : k ≠ g := fun e => by rw [e, hag] at hk'; cases hk'
    have hd' : (s.d.th k).status ≠ .dead := fun e => hd ((hdead k hkg).2 e)
    simpa [load, hkg] using hJ.parked k hk' hd'
  · intro k hk hd
    have hk' : s.p.act k = false := hk
    have hkg : k ≠ g := fun e => by rw [e, hag] at hk'; cases hk'
    have hd' : (s.d.th k).status = .dead := (hdead k hkg).1 hd
    simpa [load, hkg] using hJ.gone k hk' hd'

/-- Close: the woken thread will run nothing of its body any more -/
theorem J_truncate {s : St} {t : Nat} (l : List Op) (hJ : J s) (hat : s.p.act t = false)
    (hd : (s.d.th t).status ≠ .dead) :
    J { s with p := { s.p with prog := upd s.p.prog t [Ev.recv t] }, script := upd s.script t l } := by
  obtain ⟨fin, ⟨H, hH, hnd, hseg⟩, hb, hsa⟩ := hJ.pinv
  obtain ⟨r, hr, _⟩ := hJ.parked t hat hd
  have ht := hseg t
  rw [hat, hr] at ht
  have hH0 := (seg_recv ht).2.1
  refine ⟨hJ.r, ⟨upd fin t true, ⟨H, hH, hnd, ?_⟩, hb, hsa⟩, hJ.beyond, ?_, ?_, ?_⟩
  · intro k
    by_cases hk : k = t
    · subst hk; simp [hat, hH0, seg, segStep]
    · simpa [hk] using hseg k
  · intro k hk
    have hkt : k ≠ t := fun e => by rw [e] at hk; rw [hat] at hk; cases hk
    simpa [hkt] using hJ.active k hk
  · intro k hk hdk
    by_cases hkt : k = t
    · subst hkt; exact ⟨[], by simp, by intro e he; simp at he⟩
    · simpa [hkt] using hJ.parked k hk hdk
  · intro k hk hdk
    by_cases hkt : k = t
    · subst hkt; exact absurd hdk hd
    · simpa [hkt] using hJ.gone k hk hdk


/-! ### what each operation does to the data (from the sequential model and its invariant) -/

section data
open GoluaVerif.Model.CoSeq (GoStatus Thread endThread)
abbrev SpState := GoluaVerif.Spec.Co.State
variable {d : DSt} {sp : SpState}

theorem data_resume (hR : R d sp) {t : Nat} (vs : List Val)
    (hc : t < d.n ∧ (d.th t).status = .suspended) :
    ∃ d' ev, GoluaVerif.Model.CoSeq.step d (.resume t vs) = some (d', ev) ∧ (∃ sp', R d' sp') ∧
      d'.cur = t ∧ t ≠ d.cur ∧ d'.n = d.n ∧ (∀ k, k ≠ t → d'.th k = d.th k) ∧ (d'.th t).status = .ok := by
  have hok := hR.cur_ok
  have hne : t ≠ d.cur := fun e => by rw [e, hok] at hc; cases hc.2
  refine ⟨{ d with th := upd d.th t { d.th t with caller := some d.cur, status := .ok }, cur := t },
    [.deliver t (.args vs)],
    by simp [GoluaVerif.Model.CoSeq.step, hc, hok], ⟨_, GoluaVerif.Proofs.C09Seq.R_push hR hc.1 hc.2⟩,
    rfl, hne, rfl, ?_, by simp⟩
  intro k hk; simp [hk]

theorem data_caller (hR : R d sp) (h0 : d.cur ≠ 0) :
    ∃ c rest, sp.stack = d.cur :: c :: rest ∧ (d.th d.cur).caller = some c ∧ c ≠ d.cur ∧
      (d.th c).status = .ok := by
  obtain ⟨rest0, hst⟩ := hR.stack_eq
  have hch := hR.chain
  rw [hst] at hch
  cases rest0 with
  | nil => exact absurd hch.1 h0
  | cons c rest =>
    refine ⟨c, rest, hst, hch.1, ?_, (hR.onstack c).1 (by rw [hst]; simp)⟩
    intro e
    have := hR.nodup; rw [hst, e] at this; simp at this

theorem data_yield (hR : R d sp) {c : Nat} (vs : List Val) (hc : (d.th d.cur).caller = some c) :
    ∃ d' ev, GoluaVerif.Model.CoSeq.step d (.yield vs) = some (d', ev) ∧ (∃ sp', R d' sp') ∧
      d'.cur = c ∧ c ≠ d.cur ∧ d'.n = d.n ∧ (∀ k, k ≠ d.cur → d'.th k = d.th k) ∧
      (d'.th d.cur).status = .suspended := by
  have hok := hR.cur_ok
  obtain ⟨rest0, hst⟩ := hR.stack_eq
  have hch := hR.chain
  rw [hst] at hch
  cases rest0 with
  | nil => have := hch.2; rw [hc] at this; cases this
  | cons c' rest =>
  have hcal : (d.th d.cur).caller = some c' := hch.1
  rw [hc] at hcal
  have hcc : c = c' := Option.some.inj hcal
  subst hcc
  have hcok : (d.th c).status = .ok := (hR.onstack c).1 (by rw [hst]; simp)
  have hne : c ≠ d.cur := fun e => by
    have := hR.nodup; rw [hst, e] at this; simp at this
  have hstep : GoluaVerif.Model.CoSeq.step d (.yield vs) =
      some ({ d with th := upd d.th d.cur { d.th d.cur with status := .suspended, caller := none }, cur := c },
            [.deliver c (.ok vs)]) := by
    simp [GoluaVerif.Model.CoSeq.step, hok, hc, hcok]
  obtain ⟨_, hR'⟩ := GoluaVerif.Proofs.C09Seq.sim hR (.yield vs) hstep
  refine ⟨_, _, hstep, ⟨_, hR'⟩, rfl, hne, rfl, ?_, by simp⟩
  intro k hk; simp [hk]

theorem data_end (hR : R d sp) (h0 : d.cur ≠ 0) (e : Option Val) (m : GoluaVerif.Spec.Co.Msg) :
    ∃ c d' ev, (d.th d.cur).caller = some c ∧ endThread d e m = some (d', ev) ∧ (∃ sp', R d' sp') ∧
      d'.cur = c ∧ c ≠ d.cur ∧ d'.n = d.n ∧ (∀ k, k ≠ d.cur → d'.th k = d.th k) ∧
      (d'.th d.cur).status = .dead := by
  have hok := hR.cur_ok
  obtain ⟨c, rest, hst, hcal, hne, hcok⟩ := data_caller hR h0
  have hstep : endThread d e m =
      some ({ d with th := upd d.th d.cur ⟨.dead, none, e, 0⟩, cur := c },
            GoluaVerif.Spec.Co.tbcEvents d.cur (d.th d.cur).tbc e ++ [.deliver c m]) := by
    simp [endThread, hcal, hok, hcok]
  obtain ⟨_, _, _, _, hR'⟩ := GoluaVerif.Proofs.C09Seq.sim_end hR e m hstep
  refine ⟨c, _, _, hcal, hstep, ⟨_, hR'⟩, rfl, hne, rfl, ?_, by simp⟩
  intro k hk; simp [hk]

end data

/-! ### the phase automaton accepts the paths of thread.go -/

theorem seg_resumePath {t g : Nat} (h : t ≠ g) : seg (true, []) (resumePath t g) = some (true, []) := by
  have h' : g ≠ t := fun e => h e.symm
  simp [resumePath, seg, segStep, h, h']
theorem seg_refusedPath (t : Nat) : seg (true, []) (refusedPath t) = some (true, []) := by
  simp [refusedPath, seg, segStep]
theorem seg_yieldPath {g c : Nat} (h : c ≠ g) : seg (true, []) (yieldPath g c) = some (true, []) := by
  have h' : g ≠ c := fun e => h e.symm
  simp [yieldPath, seg, segStep, h, h']
theorem seg_endPath {g c : Nat} (h : c ≠ g) : seg (true, []) (endPath g c) = some (false, []) := by
  have h' : g ≠ c := fun e => h e.symm
  simp [endPath, seg, segStep, h, h']
theorem seg_createPath : seg (true, []) createPath = some (true, []) := by
  simp [createPath, seg, segStep]

theorem noChan_refused (t : Nat) : NoChan (refusedPath t) := by
  intro e he; simp [refusedPath] at he; rcases he with rfl | rfl <;> simp
theorem noChan_create : NoChan createPath := by
  intro e he; simp [createPath] at he; rcases he with rfl | rfl <;> simp
theorem noChan_nil : NoChan [] := by intro e he; simp at he


/-! ### `expand` preserves the invariant -/

section expand
open GoluaVerif.Model.CoSeq (GoStatus)
variable {s : St} {g : Nat}

theorem cur_of_idle (hJ : J s) (hag : s.p.act g = true) (hpg : s.p.prog g = []) : s.d.cur = g := by
  rcases hJ.active g hag with ⟨_, h⟩ | ⟨pre, x, post, hpp, _⟩
  · exact h
  · rw [hpg] at hpp; simp at hpp

theorem J_resume (hJ : J s) (hag : s.p.act g = true) (hpg : s.p.prog g = []) {t : Nat} (vs : List Val)
    (hc : t < s.d.n ∧ (s.d.th t).status = .suspended) {d' : DSt} {ev : List GoluaVerif.Spec.Co.Event}
    (hstep : GoluaVerif.Model.CoSeq.step s.d (.resume t vs) = some (d', ev)) (rest : List Op) :
    J (load s g d' (resumePath t g) rest) := by
  have hcur := cur_of_idle hJ hag hpg
  obtain ⟨sp, hR⟩ := hJ.r
  obtain ⟨d'', ev'', hs'', hR', hc', hne, hn, hsame, hst⟩ := data_resume hR vs hc
  rw [hstep] at hs''
  obtain ⟨rfl, rfl⟩ : d' = d'' ∧ ev = ev'' := by simpa using hs''
  rw [hcur] at hne
  refine J_load hJ hag hpg d' _ rest true hR' (seg_resumePath hne) ?_ ?_ ?_
  · intro k hk
    have hkt : k ≠ t := by omega
    rw [hsame k hkt]; exact hJ.beyond k (by omega)
  · intro k _
    by_cases hkt : k = t
    · subst hkt; simp [hst, hc.2]
    · rw [hsame k hkt]
  · right
    refine ⟨[.lock t, .lock g, .set t, .unlock t, .unlock g], t, [.recv g], rfl, ?_, hc'.symm, hne, Or.inl ⟨?_, rfl⟩⟩
    · intro e he; simp at he; rcases he with rfl | rfl | rfl | rfl | rfl <;> simp
    · rw [hsame g (fun e => hne e.symm)]
      have := hR.cur_ok; rw [hcur] at this; simp [this]

theorem J_refused (hJ : J s) (hag : s.p.act g = true) (hpg : s.p.prog g = []) (t : Nat) (rest : List Op) :
    J (load s g s.d (refusedPath t) rest) :=
  J_load hJ hag hpg s.d _ rest true hJ.r (seg_refusedPath t) hJ.beyond (fun _ _ => Iff.rfl)
    (Or.inl ⟨noChan_refused t, cur_of_idle hJ hag hpg⟩)

theorem J_skip (hJ : J s) (hag : s.p.act g = true) (hpg : s.p.prog g = []) (rest : List Op) :
    J (load s g s.d [] rest) :=
  J_load hJ hag hpg s.d _ rest true hJ.r (by simp [seg]) hJ.beyond (fun _ _ => Iff.rfl)
    (Or.inl ⟨noChan_nil, cur_of_idle hJ hag hpg⟩)

theorem J_yield (hJ : J s) (hag : s.p.act g = true) (hpg : s.p.prog g = []) {c : Nat} (vs : List Val)
    (hc : (s.d.th g).caller = some c) {d' : DSt} {ev : List GoluaVerif.Spec.Co.Event}
    (hstep : GoluaVerif.Model.CoSeq.step s.d (.yield vs) = some (d', ev)) (rest : List Op) :
    J (load s g d' (yieldPath g c) rest) := by
  have hcur := cur_of_idle hJ hag hpg
  obtain ⟨sp, hR⟩ := hJ.r
  rw [← hcur] at hc
  obtain ⟨d'', ev'', hs'', hR', hc', hne, hn, hsame, hst⟩ := data_yield hR vs hc
  rw [hstep] at hs''
  obtain ⟨rfl, rfl⟩ : d' = d'' ∧ ev = ev'' := by simpa using hs''
  rw [hcur] at hne hsame hst
  refine J_load hJ hag hpg d' _ rest true hR' (seg_yieldPath hne) ?_ ?_ ?_
  · intro k hk
    have hlt : s.d.cur < s.d.n := hR.lt _ hR.cur_mem
    rw [hcur] at hlt
    rw [hn] at hk
    have hkg : k ≠ g := by
      intro e; rw [e] at hk; exact absurd hlt (Nat.not_lt.2 hk)
    rw [hsame k hkg]; exact hJ.beyond k hk
  · intro k hk; rw [hsame k hk]
  · right
    refine ⟨[.lock g, .lock c, .set g, .unlock g, .unlock c], c, [.recv g], rfl, ?_, hc'.symm, hne,
      Or.inl ⟨by simp [hst], rfl⟩⟩
    intro e he; simp at he; rcases he with rfl | rfl | rfl | rfl | rfl <;> simp

theorem J_end (hJ : J s) (hag : s.p.act g = true) (hpg : s.p.prog g = []) (h0 : g ≠ 0)
    (e : Option Val) (m : GoluaVerif.Spec.Co.Msg) {c : Nat} (hc : (s.d.th g).caller = some c)
    {d' : DSt} {ev : List GoluaVerif.Spec.Co.Event}
    (hstep : GoluaVerif.Model.CoSeq.endThread s.d e m = some (d', ev)) :
    J (load s g d' (endPath g c) []) := by
  have hcur := cur_of_idle hJ hag hpg
  obtain ⟨sp, hR⟩ := hJ.r
  obtain ⟨c'', d'', ev'', hcal, hs'', hR', hc', hne, hn, hsame, hst⟩ := data_end hR (hcur ▸ h0) e m
  rw [hstep] at hs''
  obtain ⟨rfl, rfl⟩ : d' = d'' ∧ ev = ev'' := by simpa using hs''
  rw [hcur] at hcal hne hsame hst
  rw [hc] at hcal
  obtain rfl : c = c'' := Option.some.inj hcal
  refine J_load hJ hag hpg d' _ [] false hR' (seg_endPath hne) ?_ ?_ ?_
  · intro k hk
    have hlt : s.d.cur < s.d.n := hR.lt _ hR.cur_mem
    rw [hcur] at hlt
    rw [hn] at hk
    have hkg : k ≠ g := by
      intro e; rw [e] at hk; exact absurd hlt (Nat.not_lt.2 hk)
    rw [hsame k hkg]; exact hJ.beyond k hk
  · intro k hk; rw [hsame k hk]
  · right
    refine ⟨[.run, .lock g, .lock c, .closeCh g, .set g, .touch], c, [.unlock c, .unlock g], rfl, ?_, hc'.symm, hne,
      Or.inr ⟨hst, ?_⟩⟩
    · intro e he; simp at he; rcases he with rfl | rfl | rfl | rfl | rfl | rfl <;> simp
    · intro e he; simp at he; rcases he with rfl | rfl <;> exact ⟨_, rfl⟩

theorem J_finish (hJ : J s) (hag : s.p.act g = true) (hpg : s.p.prog g = []) (h0 : g ≠ 0) {op : Op}
    (hop : op = .exc ∨ (∃ vs, op = .ret vs) ∨ (∃ v, op = .err v)) {s' : St}
    (h : finish s g op = some s') : J s' := by
  unfold finish at h
  cases hc : (s.d.th g).caller with
  | none => simp [hc] at h
  | some c =>
    cases hs : GoluaVerif.Model.CoSeq.step s.d op with
    | none => simp [hc, hs] at h
    | some r =>
      obtain ⟨d', ev⟩ := r
      simp [hc, hs] at h
      subst h
      rcases hop with rfl | ⟨vs, rfl⟩ | ⟨v, rfl⟩
      · exact J_end hJ hag hpg h0 none .exc hc (by simpa [GoluaVerif.Model.CoSeq.step] using hs)
      · exact J_end hJ hag hpg h0 none (.ok vs) hc (by simpa [GoluaVerif.Model.CoSeq.step] using hs)
      · exact J_end hJ hag hpg h0 (some v) (.fail v) hc (by simpa [GoluaVerif.Model.CoSeq.step] using hs)

theorem J_create (hJ : J s) (hag : s.p.act g = true) (hpg : s.p.prog g = []) (rest : List Op) :
    J (load s g { s.d with n := s.d.n + 1, th := upd s.d.th s.d.n GoluaVerif.Model.CoSeq.Thread.fresh }
        createPath rest) := by
  have hcur := cur_of_idle hJ hag hpg
  obtain ⟨sp, hR⟩ := hJ.r
  have hgn : g ≠ s.d.n := by
    have hlt : s.d.cur < s.d.n := hR.lt _ hR.cur_mem
    rw [hcur] at hlt
    intro e; rw [e] at hlt; exact Nat.lt_irrefl _ hlt
  refine J_load hJ hag hpg _ _ rest true ⟨_, GoluaVerif.Proofs.C09Seq.R_create hR⟩ seg_createPath ?_ ?_
    (Or.inl ⟨noChan_create, hcur⟩)
  · intro k hk
    have hk' : s.d.n + 1 ≤ k := hk
    have hkn : k ≠ s.d.n := by omega
    simp [hkn]; exact hJ.beyond k (by omega)
  · intro k _
    by_cases hkn : k = s.d.n
    · subst hkn
      simp [GoluaVerif.Model.CoSeq.Thread.fresh, hJ.beyond s.d.n (Nat.le_refl _)]
    · simp [hkn]

theorem J_settbc (hJ : J s) (hag : s.p.act g = true) (hpg : s.p.prog g = []) (n : Nat) (path : List Ev)
    (hpath : path = [] ∨ path = [Ev.run]) (rest : List Op) :
    J (load s g { s.d with th := upd s.d.th s.d.cur { s.d.th s.d.cur with tbc := n } } path rest) := by
  have hcur := cur_of_idle hJ hag hpg
  obtain ⟨sp, hR⟩ := hJ.r
  have hseg : seg (true, []) path = some (true, []) := by
    rcases hpath with rfl | rfl <;> simp [seg, segStep]
  have hnc : NoChan path := by
    rcases hpath with rfl | rfl
    · exact noChan_nil
    · intro e he; simp at he; subst he; simp
  refine J_load hJ hag hpg _ _ rest true ⟨_, GoluaVerif.Proofs.C09Seq.R_settbc hR n⟩ hseg ?_ ?_
    (Or.inl ⟨hnc, hcur⟩)
  · intro k hk
    by_cases hkc : k = s.d.cur
    · rw [hkc]; simp; rw [← hkc]; exact hJ.beyond k hk
    · simp [hkc]; exact hJ.beyond k hk
  · intro k _
    by_cases hkc : k = s.d.cur
    · rw [hkc]; simp
    · simp [hkc]

theorem J_expand (hJ : J s) {s' : St} (h : expand s g = some s') : J s' := by
  unfold expand at h
  split at h
  · rename_i hcond
    obtain ⟨hag, hpg⟩ := hcond
    have hcur := cur_of_idle hJ hag hpg
    cases hs : s.script g with
    | nil =>
      simp only [hs] at h
      split at h
      · cases h
      · rename_i h0
        exact J_finish hJ hag hpg h0 (Or.inr (Or.inl ⟨[], rfl⟩)) h
    | cons op rest =>
      simp only [hs] at h
      cases op with
      | resume t vs =>
        simp only at h
        split at h
        · rename_i hc
          cases hst : GoluaVerif.Model.CoSeq.step s.d (.resume t vs) with
          | none => simp [hst] at h
          | some r =>
            obtain ⟨d', ev⟩ := r
            simp [hst] at h; subst h
            exact J_resume hJ hag hpg vs hc hst rest
        · simp at h; subst h; exact J_refused hJ hag hpg t rest
      | close t =>
        simp only at h
        split at h
        · rename_i hc
          cases hst : GoluaVerif.Model.CoSeq.step s.d (.resume t []) with
          | none => simp [hst] at h
          | some r =>
            obtain ⟨d', ev⟩ := r
            simp [hst] at h; subst h
            have hJ1 := J_resume hJ hag hpg [] hc hst rest
            obtain ⟨sp, hR⟩ := hJ.r
            obtain ⟨d'', ev'', hs'', _, _, hne, _, hsame, hstat⟩ := data_resume hR [] hc
            rw [hst] at hs''
            obtain ⟨rfl, rfl⟩ : d' = d'' ∧ ev = ev'' := by simpa using hs''
            rw [hcur] at hne
            have hat : (load s g d' (resumePath t g) rest).p.act t = false := by
              obtain ⟨fin, hI⟩ := hJ.pinv
              show s.p.act t = false
              cases hq : s.p.act t with
              | false => rfl
              | true => exact absurd (hI.baton t g hq hag) hne
            exact J_truncate _ hJ1 hat (by show (d'.th t).status ≠ .dead; simp [hstat])
        · simp at h; subst h; exact J_refused hJ hag hpg t rest
      | yield vs =>
        simp only at h
        cases hc : (s.d.th g).caller with
        | none => simp [hc] at h; subst h; exact J_refused hJ hag hpg g rest
        | some c =>
          simp only [hc] at h
          cases hst : GoluaVerif.Model.CoSeq.step s.d (.yield vs) with
          | none => simp [hst] at h
          | some r =>
            obtain ⟨d', ev⟩ := r
            simp [hst] at h; subst h
            exact J_yield hJ hag hpg vs hc hst rest
      | ret vs =>
        simp only at h
        split at h
        · simp at h; subst h; exact J_skip hJ hag hpg rest
        · rename_i h0; exact J_finish hJ hag hpg h0 (Or.inr (Or.inl ⟨vs, rfl⟩)) h
      | err v =>
        simp only at h
        split at h
        · simp at h; subst h; exact J_skip hJ hag hpg rest
        · rename_i h0; exact J_finish hJ hag hpg h0 (Or.inr (Or.inr ⟨v, rfl⟩)) h
      | exc =>
        simp only at h
        split at h
        · simp at h; subst h; exact J_skip hJ hag hpg rest
        · rename_i h0; exact J_finish hJ hag hpg h0 (Or.inl rfl) h
      | create =>
        simp [GoluaVerif.Model.CoSeq.step] at h
        subst h
        exact J_create hJ hag hpg rest
      | mark =>
        simp [GoluaVerif.Model.CoSeq.step] at h
        subst h
        exact J_settbc hJ hag hpg _ [] (Or.inl rfl) rest
      | unmark e =>
        by_cases hz : (s.d.th s.d.cur).tbc = 0
        · simp [GoluaVerif.Model.CoSeq.step, hz] at h; subst h
          exact J_load hJ hag hpg s.d [Ev.run] rest true hJ.r (by simp [seg, segStep]) hJ.beyond
            (fun _ _ => Iff.rfl) (Or.inl ⟨by intro e he; simp at he; subst he; simp, hcur⟩)
        · simp [GoluaVerif.Model.CoSeq.step, hz] at h; subst h
          exact J_settbc hJ hag hpg _ [Ev.run] (Or.inr rfl) rest
  · cases h

end expand

theorem J_step {s s' : St} (hJ : J s) (h : Step s s') : J s' := by
  cases h with
  | fire a hf => exact J_fire hJ hf
  | expand g he => exact J_expand hJ he

theorem J_reach {scripts handlers : Nat → List Op} {s : St} (h : Reach scripts handlers s) : J s := by
  induction h with
  | init => exact J_init scripts handlers
  | step _ hs ih => exact J_step ih hs


/-! ### progress -/

theorem finish_defined {s : St} {g : Nat} (hJ : J s) (hag : s.p.act g = true) (hpg : s.p.prog g = [])
    (h0 : g ≠ 0) {op : Op} (hop : op = .exc ∨ (∃ vs, op = .ret vs) ∨ (∃ v, op = .err v)) :
    ∃ s', finish s g op = some s' := by
  have hcur := cur_of_idle hJ hag hpg
  obtain ⟨sp, hR⟩ := hJ.r
  have key : ∀ e m, GoluaVerif.Model.CoSeq.step s.d op = GoluaVerif.Model.CoSeq.endThread s.d e m →
      ∃ s', finish s g op = some s' := by
    intro e m hop'
    obtain ⟨c, d', ev, hcal, hs, _⟩ := data_end hR (hcur ▸ h0) e m
    rw [hcur] at hcal
    simp [finish, hcal, hop', hs]
  rcases hop with rfl | ⟨vs, rfl⟩ | ⟨v, rfl⟩
  · exact key none .exc rfl
  · exact key none (.ok vs) rfl
  · exact key (some v) (.fail v) rfl

theorem expand_defined {s : St} {g : Nat} (hJ : J s) (hag : s.p.act g = true) (hpg : s.p.prog g = []) :
    (∃ s', expand s g = some s') ∨ (g = 0 ∧ s.script g = []) := by
  have hcur := cur_of_idle hJ hag hpg
  obtain ⟨sp, hR⟩ := hJ.r
  unfold expand
  simp only [hag, hpg, and_self, if_true]
  cases hs : s.script g with
  | nil =>
    by_cases h0 : g = 0
    · exact Or.inr ⟨h0, rfl⟩
    · left; simp only [h0, if_false]
      exact finish_defined hJ hag hpg h0 (Or.inr (Or.inl ⟨[], rfl⟩))
  | cons op rest =>
    left
    cases op with
    | resume t vs =>
      simp only
      split
      · rename_i hc
        obtain ⟨d', ev, hst, _⟩ := data_resume hR vs hc
        simp [hst]
      · exact ⟨_, rfl⟩
    | close t =>
      simp only
      split
      · rename_i hc
        obtain ⟨d', ev, hst, _⟩ := data_resume hR [] hc
        simp [hst]
      · exact ⟨_, rfl⟩
    | yield vs =>
      simp only
      cases hc : (s.d.th g).caller with
      | none => exact ⟨_, rfl⟩
      | some c =>
        obtain ⟨d', ev, hst, _⟩ := data_yield hR vs (hcur ▸ hc)
        simp [hst]
    | ret vs =>
      simp only
      split
      · exact ⟨_, rfl⟩
      · rename_i h0; exact finish_defined hJ hag hpg h0 (Or.inr (Or.inl ⟨vs, rfl⟩))
    | err v =>
      simp only
      split
      · exact ⟨_, rfl⟩
      · rename_i h0; exact finish_defined hJ hag hpg h0 (Or.inr (Or.inr ⟨v, rfl⟩))
    | exc =>
      simp only
      split
      · exact ⟨_, rfl⟩
      · rename_i h0; exact finish_defined hJ hag hpg h0 (Or.inl rfl)
    | create => simp [GoluaVerif.Model.CoSeq.step]
    | mark => simp [GoluaVerif.Model.CoSeq.step]
    | unmark e =>
      by_cases hz : (s.d.th s.d.cur).tbc = 0 <;> simp [GoluaVerif.Model.CoSeq.step, hz]

/-- a goroutine whose next event is neither a send nor a receive can take a step, or whoever
    holds the mutex it wants can -/
theorem local_can_step {fin : Nat → Bool} {p : PSt} (hI : InvF fin p) {g : Nat} {e : Ev} {r : List Ev}
    (hp : p.prog g = e :: r) (hs : ∀ c, e ≠ Ev.send c) (hr : ∀ c, e ≠ Ev.recv c) :
    ∃ a p', fire p a = some p' := by
  cases e with
  | lock m =>
    cases hh : p.holder m with
    | none => exact ⟨.one g, by simp [fire, hp, hh]⟩
    | some g' =>
      obtain ⟨p', hp'⟩ := holder_can_step hI hp hh
      exact ⟨.one g', p', hp'⟩
  | unlock m => exact ⟨.one g, by simp [fire, hp]⟩
  | send c => exact absurd rfl (hs c)
  | recv c => exact absurd rfl (hr c)
  | closeCh _ | set _ | touch | run | spawn => exact ⟨.one g, by simp [fire, hp]⟩

/-- **progress**: in every state satisfying the invariant some step is possible, unless the main
    thread's Lua code has run to its end -/
theorem progress {s : St} (hJ : J s) : (∃ s', Step s s') ∨ MainDone s := by
  obtain ⟨fin, hI⟩ := hJ.pinv
  obtain ⟨h, hah⟩ := hI.some_active
  have fire_step : (∃ a p', fire s.p a = some p') → ∃ s', Step s s' := by
    rintro ⟨a, p', hf⟩; exact ⟨_, Step.fire a hf⟩
  rcases hJ.active h hah with ⟨hnc, hcur⟩ | ⟨pre, x, post, hpp, hnc, hx, hxh, _⟩
  · cases hp : s.p.prog h with
    | nil =>
      rcases expand_defined hJ hah hp with ⟨s', hs'⟩ | ⟨h0, hsc⟩
      · exact Or.inl ⟨s', Step.expand h hs'⟩
      · subst h0; exact Or.inr ⟨hah, hp, hsc⟩
    | cons e r =>
      rw [hp] at hnc
      have := hnc e (by simp)
      exact Or.inl (fire_step (local_can_step hI hp this.1 this.2))
  · left
    cases pre with
    | nil =>
      simp at hpp
      -- the holder is at its send: the target is the thread the data says runs next, and it is parked
      obtain ⟨sp, hR⟩ := hJ.r
      have hxa : s.p.act x = false := by
        cases hq : s.p.act x with
        | false => rfl
        | true => exact absurd (hI.baton x h hq hah) hxh
      have hxd : (s.d.th x).status ≠ .dead := by
        rw [hx, hR.cur_ok]; simp
      obtain ⟨r, hr, _⟩ := hJ.parked x hxa hxd
      have hhx : h ≠ x := fun e => hxh e.symm
      exact fire_step ⟨.sync h x, by simp [fire, hhx, hpp, hr]⟩
    | cons e pre' =>
      simp at hpp
      have := hnc e (by simp)
      exact fire_step (local_can_step hI hpp this.1 this.2)


theorem reach_of_exec {scripts handlers : Nat → List Op} : ∀ (cs : List Cmd) {s0 s : St}, Reach scripts handlers s0 →
    exec s0 cs = some s → Reach scripts handlers s := by
  intro cs
  induction cs with
  | nil => intro s0 s h0 h; simp [exec] at h; exact h ▸ h0
  | cons c cs ih =>
    intro s0 s h0 h
    cases c with
    | fire a =>
      simp only [exec] at h
      cases hf : fire s0.p a with
      | none => simp [hf] at h
      | some p' => simp [hf] at h; exact ih (Reach.step h0 (Step.fire a hf)) h
    | expand g =>
      simp only [exec] at h
      cases he : expand s0 g with
      | none => simp [he] at h
      | some s1 => simp [he] at h; exact ih (Reach.step h0 (Step.expand g he)) h

end GoluaVerif.Proofs.C09Sys
