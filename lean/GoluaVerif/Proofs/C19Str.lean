/-
  Proofs.C19Str — lemmas about Spec.StrLib and Model.StrLib used by Props/C19.
-/
import GoluaVerif.Spec.StrLib
import GoluaVerif.Model.StrLib
namespace GoluaVerif.Proofs.C19Str
open GoluaVerif GoluaVerif.Spec.StrLib

theorem posrelatI_pos (pos : Int) (len : Nat) : 1 ≤ posrelatI pos len := by
  unfold posrelatI; split <;> try split <;> try split
  all_goals omega

theorem getendpos_le (pos : Int) (len : Nat) : getendpos pos len ≤ len := by
  unfold getendpos; split <;> try split <;> try split
  all_goals omega

theorem slice_full (s : Bytes) : slice s 1 s.length = s := by
  unfold slice
  split
  · have : s.length = 0 := by omega
    exact (List.eq_nil_of_length_eq_zero this).symm
  · rename_i h
    have : s.length - 1 + 1 = s.length := by omega
    simp [this]

theorem sub_full (s : Bytes) : sub s 1 (-1) = s := by
  have h1 : posrelatI 1 s.length = 1 := by unfold posrelatI; simp
  have h2 : getendpos (-1) s.length = s.length := by
    unfold getendpos; split <;> try split <;> try split
    all_goals omega
  unfold sub; rw [h1, h2]; exact slice_full s

theorem sub_full' (s : Bytes) : sub s 1 s.length = s := by
  have h1 : posrelatI 1 s.length = 1 := by unfold posrelatI; simp
  have h2 : getendpos (s.length : Int) s.length = s.length := by
    unfold getendpos; split <;> try split <;> try split
    all_goals omega
  unfold sub; rw [h1, h2]; exact slice_full s

theorem slice_length (s : Bytes) (a b : Nat) (ha : 1 ≤ a) (hb : b ≤ s.length) :
    (slice s a b).length = b + 1 - a := by
  unfold slice; split
  · simp; omega
  · simp; omega

theorem slice_getElem? (s : Bytes) (a b i : Nat) (ha : 1 ≤ a) :
    (slice s a b)[i]? = if a + i ≤ b then s[a - 1 + i]? else none := by
  unfold slice; split
  · simp; omega
  · rw [List.getElem?_take]
    split
    · rw [List.getElem?_drop]; simp; intro h; omega
    · simp; omega

/-- a slice of a slice is a slice (positions inside the outer slice) -/
theorem slice_slice (s : Bytes) (a b c d : Nat) (ha : 1 ≤ a) (hc : 1 ≤ c) (hd : d + a ≤ b + 1) :
    slice (slice s a b) c d = slice s (a + c - 1) (a + d - 1) := by
  apply List.ext_getElem?
  intro i
  rw [slice_getElem? (slice s a b) c d i hc, slice_getElem? s (a + c - 1) (a + d - 1) i (by omega)]
  split
  · rw [slice_getElem? _ _ _ _ ha]
    have h1 : a + (c - 1 + i) ≤ b := by omega
    have h2 : a + c - 1 + i ≤ a + d - 1 := by omega
    simp only [h1, h2, if_true]
    congr 1; omega
  · have h2 : ¬ (a + c - 1 + i ≤ a + d - 1) := by omega
    simp only [h2, if_false]

theorem sub_pos (s : Bytes) (i j : Int) (hi : 1 ≤ i) (hj : 0 ≤ j) (hjl : j ≤ s.length) :
    sub s i j = slice s i.toNat j.toNat := by
  unfold sub posrelatI getendpos
  have : i > 0 := by omega
  have h2 : ¬ (j > (s.length : Int)) := by omega
  simp only [this, if_true, h2, if_false, ge_iff_le, hj]

theorem slice_empty_of_gt (s : Bytes) (a b : Nat) (h : a > b) : slice s a b = [] := by
  unfold slice; simp [h]

theorem slice_empty_of_start_past (s : Bytes) (a b : Nat) (hb : b ≤ s.length) (h : a > s.length) : slice s a b = [] :=
  slice_empty_of_gt s a b (by omega)

theorem sub_start_past_end (s : Bytes) (i j : Int) (h : i > s.length) : sub s i j = [] := by
  unfold sub
  apply slice_empty_of_start_past _ _ _ (getendpos_le _ _)
  unfold posrelatI
  have : i > 0 := by omega
  simp only [this, if_true]; omega

theorem sub_end_before_start (s : Bytes) (i j : Int) (h : j < -(s.length : Int) ∨ j = 0) : sub s i j = [] := by
  unfold sub
  apply slice_empty_of_gt
  have h1 := posrelatI_pos i s.length
  have : getendpos j s.length = 0 := by
    unfold getendpos; split <;> try split <;> try split
    all_goals omega
  omega

/-! ### rep -/

theorem length_repNat (s sep : Bytes) (n : Nat) (hn : 1 ≤ n) :
    (repNat s sep n).length = n * s.length + (n - 1) * sep.length := by
  induction n using repNat.induct with
  | case1 => omega
  | case2 => simp [repNat]
  | case3 k ih =>
    have := ih (by omega)
    simp only [repNat, List.length_append, this]
    generalize s.length = a
    generalize sep.length = b
    simp only [Nat.succ_eq_add_one, Nat.add_sub_cancel, Nat.add_mul, Nat.one_mul]
    omega

/-! ### char / byte -/

theorem byte_all (s : Bytes) : byte s 1 (some (-1)) = s.map UInt8.toNat := by
  have := sub_full s
  unfold sub at this
  unfold byte
  simp only [Option.getD_some, this]

theorem char_map_toNat (s : Bytes) : char (s.map fun b => (b.toNat : Int)) = some s := by
  unfold char
  have h : (List.map (fun b => (b.toNat : Int)) s).all (fun c => decide (0 ≤ c ∧ c ≤ 255)) = true := by
    rw [List.all_eq_true]
    intro c hc
    rw [List.mem_map] at hc
    obtain ⟨b, _, rfl⟩ := hc
    have := b.toNat_lt
    simp only [decide_eq_true_eq]
    omega
  simp only [h, if_true, List.map_map]
  congr 1
  conv => rhs; rw [← List.map_id s]
  apply List.map_congr_left
  intro b _
  simp

theorem char_length (cs : List Int) (b : Bytes) (h : char cs = some b) : b.length = cs.length := by
  unfold char at h
  split at h
  · simp only [Option.some.injEq] at h; rw [← h]; simp
  · simp at h

theorem char_toNat (cs : List Int) (b : Bytes) (h : char cs = some b) : b.map (fun x => (x.toNat : Int)) = cs := by
  unfold char at h
  split at h
  · rename_i hall
    simp only [Option.some.injEq] at h; rw [← h, List.map_map]
    conv => rhs; rw [← List.map_id cs]
    apply List.map_congr_left
    intro c hc
    rw [List.all_eq_true] at hall
    have := hall c hc
    simp only [decide_eq_true_eq] at this
    simp only [Function.comp, id]
    have h2 : c.toNat < 256 := by omega
    rw [UInt8.toNat_ofNat_of_lt' (by simpa using h2)]
    omega
  · simp at h

/-! ### upper / lower -/

set_option maxRecDepth 100000 in
theorem upByte_fin : ∀ n : Fin 256, (upByte (UInt8.ofNat n)).toNat = if 97 ≤ n.val ∧ n.val ≤ 122 then n.val - 32 else n.val := by
  decide

set_option maxRecDepth 100000 in
theorem loByte_fin : ∀ n : Fin 256, (loByte (UInt8.ofNat n)).toNat = if 65 ≤ n.val ∧ n.val ≤ 90 then n.val + 32 else n.val := by
  decide

theorem upByte_spec (b : UInt8) : (upByte b).toNat = if 97 ≤ b.toNat ∧ b.toNat ≤ 122 then b.toNat - 32 else b.toNat := by
  have := upByte_fin ⟨b.toNat, b.toNat_lt⟩
  simpa using this

theorem loByte_spec (b : UInt8) : (loByte b).toNat = if 65 ≤ b.toNat ∧ b.toNat ≤ 90 then b.toNat + 32 else b.toNat := by
  have := loByte_fin ⟨b.toNat, b.toNat_lt⟩
  simpa using this

/-! ### plain find -/

theorem search_some (p : Bytes) : ∀ (t : Bytes) (off o : Nat), search p t off = some o →
    off ≤ o ∧ o - off ≤ t.length ∧ p.isPrefixOf (t.drop (o - off)) = true ∧
    ∀ o', off ≤ o' → o' < o → p.isPrefixOf (t.drop (o' - off)) = false := by
  intro t
  induction t with
  | nil =>
    intro off o h
    unfold search at h
    split at h
    · rename_i hp
      simp only [Option.some.injEq] at h
      subst h
      have : p = [] := by simpa using hp
      subst this
      refine ⟨Nat.le_refl _, by simp, by simp, ?_⟩
      intro o' h1 h2; omega
    · simp at h
  | cons c cs ih =>
    intro off o h
    unfold search at h
    split at h
    · rename_i hp
      simp only [Option.some.injEq] at h
      subst h
      refine ⟨Nat.le_refl _, by simp, by simpa using hp, ?_⟩
      intro o' h1 h2; omega
    · rename_i hp
      obtain ⟨h1, h2, h3, h4⟩ := ih (off + 1) o h
      have e : o - off = (o - (off + 1)) + 1 := by omega
      refine ⟨by omega, by simp only [List.length_cons]; omega, ?_, ?_⟩
      · rw [e, List.drop_succ_cons]; exact h3
      · intro o' g1 g2
        by_cases g : o' = off
        · subst g
          simp only [Nat.sub_self, List.drop_zero]
          exact Bool.eq_false_iff.mpr hp
        · have e' : o' - off = (o' - (off + 1)) + 1 := by omega
          rw [e', List.drop_succ_cons]
          exact h4 o' (by omega) g2

theorem search_none (p : Bytes) : ∀ (t : Bytes) (off : Nat), search p t off = none →
    ∀ k, k ≤ t.length → p.isPrefixOf (t.drop k) = false := by
  intro t
  induction t with
  | nil =>
    intro off h k hk
    unfold search at h
    split at h
    · simp at h
    · rename_i hp
      have : k = 0 := by simpa using hk
      subst this
      cases p with
      | nil => simp at hp
      | cons a as => simp
  | cons c cs ih =>
    intro off h k hk
    unfold search at h
    split at h
    · simp at h
    · rename_i hp
      cases k with
      | zero => simp only [List.drop_zero]; exact Bool.eq_false_iff.mpr hp
      | succ k =>
        rw [List.drop_succ_cons]
        exact ih (off + 1) h k (by simpa using hk)

/-- `p` occurs in `s` at 1-based position `a` -/
def OccursAt (s p : Bytes) (a : Nat) : Prop := 1 ≤ a ∧ p.isPrefixOf (s.drop (a - 1)) = true

theorem occursAt_iff_slice (s p : Bytes) (a : Nat) (ha : 1 ≤ a) :
    OccursAt s p a ↔ slice s a (a - 1 + p.length) = p := by
  unfold OccursAt slice
  rw [List.isPrefixOf_iff_prefix, List.prefix_iff_eq_take]
  by_cases hp : p.length = 0
  · have : p = [] := List.eq_nil_of_length_eq_zero hp
    subst this
    simp; omega
  · have h1 : ¬ (a > a - 1 + p.length) := by omega
    have h2 : a - 1 + p.length - a + 1 = p.length := by omega
    simp only [h1, if_false, h2]
    constructor
    · intro ⟨_, h⟩; exact h.symm
    · intro h; exact ⟨ha, h.symm⟩

theorem findPlain_some (s p : Bytes) (init : Int) (a b : Nat) (h : findPlain s p init = some (a, b)) :
    posrelatI init s.length ≤ a ∧ a ≤ s.length + 1 ∧ b = a - 1 + p.length ∧ OccursAt s p a ∧
    ∀ a', posrelatI init s.length ≤ a' → a' < a → ¬ OccursAt s p a' := by
  unfold findPlain at h
  simp only at h
  have hpos := posrelatI_pos init s.length
  split at h
  · simp at h
  · rename_i hk
    cases hs : search p (s.drop (posrelatI init s.length - 1)) (posrelatI init s.length - 1) with
    | none => rw [hs] at h; simp at h
    | some o =>
      rw [hs] at h
      simp only [Option.map_some, Option.some.injEq, Prod.mk.injEq] at h
      obtain ⟨rfl, rfl⟩ := h
      obtain ⟨h1, h2, h3, h4⟩ := search_some p _ _ _ hs
      rw [List.drop_drop] at h3
      simp only [List.length_drop] at h2
      have e : posrelatI init s.length - 1 + (o - (posrelatI init s.length - 1)) = o := by omega
      rw [e] at h3
      refine ⟨by omega, by omega, by omega, ⟨by omega, by simpa using h3⟩, ?_⟩
      intro a' g1 g2 ⟨g3, g4⟩
      have := h4 (a' - 1) (by omega) (by omega)
      rw [List.drop_drop] at this
      have e' : posrelatI init s.length - 1 + (a' - 1 - (posrelatI init s.length - 1)) = a' - 1 := by omega
      rw [e'] at this
      rw [this] at g4
      exact Bool.noConfusion g4

theorem findPlain_none (s p : Bytes) (init : Int) (h : findPlain s p init = none) :
    ∀ a, posrelatI init s.length ≤ a → ¬ OccursAt s p a ∨ a > s.length + 1 := by
  intro a ha
  unfold findPlain at h
  simp only at h
  have hpos := posrelatI_pos init s.length
  split at h
  · right; omega
  · rename_i hk
    by_cases hal : a > s.length + 1
    · right; exact hal
    · left
      intro ⟨g3, g4⟩
      cases hs : search p (s.drop (posrelatI init s.length - 1)) (posrelatI init s.length - 1) with
      | some o => rw [hs] at h; simp at h
      | none =>
        have := search_none p _ _ hs (a - 1 - (posrelatI init s.length - 1)) (by simp only [List.length_drop]; omega)
        rw [List.drop_drop] at this
        have e' : posrelatI init s.length - 1 + (a - 1 - (posrelatI init s.length - 1)) = a - 1 := by omega
        rw [e'] at this
        rw [this] at g4
        exact Bool.noConfusion g4

theorem findPlain_init_past_end (s p : Bytes) (init : Int) (h : init > s.length + 1) : findPlain s p init = none := by
  unfold findPlain posrelatI
  have : init > 0 := by omega
  simp only [this, if_true]
  have : init.toNat - 1 > s.length := by omega
  simp [this]

theorem search_nil (t : Bytes) (off : Nat) : search [] t off = some off := by
  cases t <;> simp [search]

theorem findPlain_empty_at_end (s : Bytes) : findPlain s [] (s.length + 1) = some (s.length + 1, s.length) := by
  unfold findPlain posrelatI
  have : (s.length : Int) + 1 > 0 := by omega
  simp only [this, if_true]
  have e : ((s.length : Int) + 1).toNat - 1 = s.length := by omega
  simp [search_nil]

end GoluaVerif.Proofs.C19Str
