/-
  Proofs.C17Quote — `%q` per Lua 5.4 (`Spec.quote`) is read back by the Lua
  short-string reader (`Spec.unquote`), for every byte string.
-/
import GoluaVerif.Spec.Quote
namespace GoluaVerif.Spec.Quote
open GoluaVerif

theorem digit_toNat (n : Nat) : (digit n).toNat = 48 + n % 10 := by
  unfold digit
  rw [UInt8.toNat_ofNat']
  omega

theorem isDigit_digit (n : Nat) : isDigit (digit n) = true := by
  simp [isDigit, digit_toNat]; omega

theorem u8_ofNat_toNat (c : UInt8) : UInt8.ofNat c.toNat = c := by simp

/-- the first byte of what follows a quoted chunk: never CR, and a digit only if the next source byte is one -/
theorem khead (rest : Bytes) : ∃ h t, quoteBody rest ++ [34] = h :: t ∧ h ≠ 13 ∧
    (isDigit h = true → ∃ d r, rest = d :: r ∧ isDigit d = true) := by
  cases rest with
  | nil => exact ⟨34, [], rfl, by decide, fun h => absurd h (by decide)⟩
  | cons d r =>
    simp only [quoteBody]
    by_cases h1 : d = 34 ∨ d = 92 ∨ d = 10
    · simp only [h1, if_true]
      exact ⟨92, _, rfl, by decide, fun h => absurd h (by decide)⟩
    · simp only [h1, if_false]
      by_cases h2 : isCntrl d = true
      · simp only [h2, if_true]
        cases r with
        | nil => exact ⟨92, _, rfl, by decide, fun h => absurd h (by decide)⟩
        | cons d' r' =>
          simp only
          split <;> exact ⟨92, _, rfl, by decide, fun h => absurd h (by decide)⟩
      · simp only [h2, Bool.false_eq_true, if_false]
        refine ⟨d, _, rfl, ?_, fun hd => ⟨d, r, rfl, hd⟩⟩
        intro h13; subst h13; exact h2 (by decide)

theorem unq_plain (c : UInt8) (k : Bytes) (h1 : c ≠ 34) (h2 : c ≠ 10) (h3 : c ≠ 13) (h4 : c ≠ 92) :
    unq .normal (c :: k) = (unq .normal k).map (c :: ·) := by
  conv => lhs; unfold unq
  simp [h1, h2, h3, h4]

theorem unq_esc_quote (k : Bytes) : unq .normal (92 :: 34 :: k) = emit 34 (unq .normal k) := by
  conv => lhs; unfold unq
  simp [isDigit]

theorem unq_esc_backslash (k : Bytes) : unq .normal (92 :: 92 :: k) = emit 92 (unq .normal k) := by
  conv => lhs; unfold unq
  simp [isDigit]

theorem unq_esc_newline (h : UInt8) (t : Bytes) (h13 : h ≠ 13) :
    unq .normal (92 :: 10 :: h :: t) = emit 10 (unq .normal (h :: t)) := by
  conv => lhs; unfold unq
  simp [isDigit, h13]

theorem unq_dec3 (a b d : UInt8) (k : Bytes) (ha : isDigit a = true) (hb : isDigit b = true) (hd : isDigit d = true) :
    unq .normal (92 :: a :: b :: d :: k) =
      emit ((a.toNat - 48) * 100 + (b.toNat - 48) * 10 + (d.toNat - 48)) (unq .normal k) := by
  conv => lhs; unfold unq
  simp [ha, hb, hd]

theorem unq_dec2 (a b h : UInt8) (t : Bytes) (ha : isDigit a = true) (hb : isDigit b = true) (hh : isDigit h = false) :
    unq .normal (92 :: a :: b :: h :: t) =
      emit ((a.toNat - 48) * 10 + (b.toNat - 48)) (unq .normal (h :: t)) := by
  conv => lhs; unfold unq
  simp [ha, hb, hh]

theorem unq_dec1 (a h : UInt8) (t : Bytes) (ha : isDigit a = true) (hh : isDigit h = false) :
    unq .normal (92 :: a :: h :: t) = emit (a.toNat - 48) (unq .normal (h :: t)) := by
  conv => lhs; unfold unq
  simp [ha, hh]

theorem emit_some (c : UInt8) (v : Nat) (rest : Bytes) (hv : v = c.toNat) :
    emit v (some rest) = some (c :: rest) := by
  subst hv
  have : c.toNat ≤ 255 := by have := c.toNat_lt; omega
  simp [emit, this]

theorem dig_sub (n : Nat) : (digit n).toNat - 48 = n % 10 := by rw [digit_toNat]; omega

/-- the body of `%q` followed by the closing quote is read back as the original bytes -/
theorem unq_quoteBody (s : Bytes) : unq .normal (quoteBody s ++ [34]) = some s := by
  induction s with
  | nil =>
    conv => lhs; unfold unq
    simp [quoteBody]
  | cons c rest ih =>
    obtain ⟨h, t, hk, h13, hdig⟩ := khead rest
    simp only [quoteBody, List.append_assoc]
    by_cases h1 : c = 34 ∨ c = 92 ∨ c = 10
    · simp only [h1, if_true]
      rcases h1 with rfl | rfl | rfl
      · simp only [List.cons_append, List.nil_append]
        rw [unq_esc_quote, ih]; exact emit_some _ _ _ rfl
      · simp only [List.cons_append, List.nil_append]
        rw [unq_esc_backslash, ih]; exact emit_some _ _ _ rfl
      · simp only [List.cons_append, List.nil_append]
        rw [hk, unq_esc_newline _ _ h13, ← hk, ih]; exact emit_some _ _ _ rfl
    · simp only [h1, if_false]
      have hc34 : c ≠ 34 := fun e => h1 (.inl e)
      have hc92 : c ≠ 92 := fun e => h1 (.inr (.inl e))
      have hc10 : c ≠ 10 := fun e => h1 (.inr (.inr e))
      by_cases h2 : isCntrl c = true
      · simp only [h2, if_true]
        have hn : c.toNat < 32 ∨ c.toNat = 127 := by simpa [isCntrl] using h2
        have h3 : ∀ k, unq .normal (92 :: (dec3 c ++ k)) = emit c.toNat (unq .normal k) := by
          intro k
          simp only [dec3, List.cons_append, List.nil_append]
          rw [unq_dec3 _ _ _ _ (isDigit_digit _) (isDigit_digit _) (isDigit_digit _)]
          simp only [dig_sub]
          congr 1
          have := c.toNat_lt
          omega
        -- the unpadded form, when what follows does not start with a digit
        have h1d : isDigit h = false → unq .normal (92 :: (dec c ++ (h :: t))) = emit c.toNat (unq .normal (h :: t)) := by
          intro hh
          unfold dec
          simp only []
          by_cases c1 : c.toNat < 10
          · simp only [c1, if_true, List.cons_append, List.nil_append]
            rw [unq_dec1 _ _ _ (isDigit_digit _) hh, dig_sub]
            congr 1; omega
          · simp only [c1, if_false]
            by_cases c2 : c.toNat < 100
            · simp only [c2, if_true, List.cons_append, List.nil_append]
              rw [unq_dec2 _ _ _ _ (isDigit_digit _) (isDigit_digit _) hh]
              simp only [dig_sub]
              congr 1; omega
            · simp only [c2, if_false]
              have := h3 (h :: t)
              simp only [dec3] at this
              exact this
        cases rest with
        | nil =>
          simp only [List.cons_append] at hk ⊢
          have hh : isDigit h = false := by
            cases hd : isDigit h with
            | false => rfl
            | true => obtain ⟨d, r, he, _⟩ := hdig hd; simp at he
          rw [hk, h1d hh, ← hk, ih]; exact emit_some _ _ _ rfl
        | cons d r =>
          simp only
          by_cases hd : isDigit d = true
          · simp only [hd, if_true, List.cons_append]
            rw [h3, ih]; exact emit_some _ _ _ rfl
          · simp only [hd, Bool.false_eq_true, if_false, List.cons_append]
            have hh : isDigit h = false := by
              cases hd' : isDigit h with
              | false => rfl
              | true =>
                obtain ⟨d', r', he, hd''⟩ := hdig hd'
                injection he with e1 e2
                subst e1; exact absurd hd'' hd
            rw [hk, h1d hh, ← hk, ih]; exact emit_some _ _ _ rfl
      · simp only [h2, Bool.false_eq_true, if_false, List.cons_append, List.nil_append]
        have hc13 : c ≠ 13 := by intro e; subst e; exact h2 (by decide)
        rw [unq_plain c _ hc34 hc10 hc13 hc92, ih]
        rfl

/-- a padded decimal escape -/
theorem unq_decPad (c : UInt8) (k : Bytes) : unq .normal (92 :: (dec3 c ++ k)) = emit c.toNat (unq .normal k) := by
  simp only [dec3, List.cons_append, List.nil_append]
  rw [unq_dec3 _ _ _ _ (isDigit_digit _) (isDigit_digit _) (isDigit_digit _)]
  simp only [dig_sub]
  congr 1
  have := c.toNat_lt
  omega

/-- an unpadded decimal escape in front of something that is not a digit -/
theorem unq_decShort (c h : UInt8) (t : Bytes) (hh : isDigit h = false) :
    unq .normal (92 :: (dec c ++ (h :: t))) = emit c.toNat (unq .normal (h :: t)) := by
  have hlt := c.toNat_lt
  unfold dec
  simp only []
  by_cases c1 : c.toNat < 10
  · simp only [c1, if_true, List.cons_append, List.nil_append]
    rw [unq_dec1 _ _ _ (isDigit_digit _) hh, dig_sub]
    congr 1; omega
  · simp only [c1, if_false]
    by_cases c2 : c.toNat < 100
    · simp only [c2, if_true, List.cons_append, List.nil_append]
      rw [unq_dec2 _ _ _ _ (isDigit_digit _) (isDigit_digit _) hh]
      simp only [dig_sub]
      congr 1; omega
    · simp only [c2, if_false]
      have := unq_decPad c (h :: t)
      simp only [dec3] at this
      exact this

theorem unq_esc_letter (e : UInt8) (v : Nat) (k : Bytes)
    (h : (e = 97 ∧ v = 7) ∨ (e = 98 ∧ v = 8) ∨ (e = 102 ∧ v = 12) ∨ (e = 110 ∧ v = 10) ∨ (e = 114 ∧ v = 13) ∨
         (e = 116 ∧ v = 9) ∨ (e = 118 ∧ v = 11)) :
    unq .normal (92 :: e :: k) = emit v (unq .normal k) := by
  conv => lhs; unfold unq
  rcases h with ⟨rfl, rfl⟩ | ⟨rfl, rfl⟩ | ⟨rfl, rfl⟩ | ⟨rfl, rfl⟩ | ⟨rfl, rfl⟩ | ⟨rfl, rfl⟩ | ⟨rfl, rfl⟩ <;> simp [isDigit]

/-- **`%q` round trip for strings (Lua 5.4 definition), every byte string.** -/
theorem unquote_quote (s : Bytes) : unquote (quote s) = some s := by
  simp [unquote, quote, unq_quoteBody]

end GoluaVerif.Spec.Quote
