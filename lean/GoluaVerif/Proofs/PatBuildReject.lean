/-
  Proofs.PatBuildReject — the converse of Proofs.PatBuildRefine: a pattern string the Spec's parser rejects as
  malformed is rejected by the builder too (with one of its error values).
-/
import GoluaVerif.Proofs.PatBuildRefine
namespace GoluaVerif.Model.PatBuild
open GoluaVerif.Model GoluaVerif.Spec
open GoluaVerif.Spec.LuaPattern (SetElem Cls Item Quant PErr)

variable (ptn : Array UInt8)

/-- the builder fails -/
def Fails {α : Type} (r : B α) : Prop := ∃ e, r = .error e

theorem Fails.bind_left {α β : Type} {r : B α} (f : α → B β) (h : Fails r) : Fails (r >>= f) := by
  obtain ⟨e, rfl⟩ := h
  exact ⟨e, rfl⟩

theorem getCharRange_of_esc_err {x : UInt8} (h : LuaPattern.escClass x = .error .malformed) : False := by
  unfold LuaPattern.escClass at h
  split at h
  · cases h
  · split at h <;> cases h

/-- the set loop, failure direction -/
theorem unionLoop_rejects (neg : Bool) : ∀ (fuelS : Nat) (l : List UInt8) (acc : List SetElem),
    LuaPattern.parseSetElems fuelS l acc = .error .malformed → l.length < fuelS →
    ∀ (b : UInt8) (pb : PB) (s : ByteSet) (fuelM : Nat), l = b :: L ptn pb → pb.i ≤ ptn.size →
      ptn.size + 1 ≤ fuelM + pb.i → Fails (unionLoop ptn neg fuelM b s pb) := by
  intro fuelS
  induction fuelS with
  | zero => intro l acc h hlen; omega
  | succ f ih =>
    intro l acc h hlen b pb s fuelM hl hpi hf
    subst hl
    obtain ⟨fm, rfl⟩ : ∃ fm, fuelM = fm + 1 := ⟨fuelM - 1, by omega⟩
    simp only [List.length_cons] at hlen
    by_cases h93 : b = 93
    · subst h93; rw [LuaPattern.parseSetElems.eq_3] at h; cases h
    · have hb93 : (b == 93) = false := beq_eq_false_iff_ne.mpr h93
      by_cases h37 : b = 37
      · subst h37
        rw [unionLoop]
        simp only [show ((37 : UInt8) == 93) = false from by decide, Bool.false_eq_true, if_false,
          show ((37 : UInt8) == 37) = true from by decide, if_true]
        cases hL : L ptn pb with
        | nil => rw [next_nil ptn hL]; exact ⟨_, rfl⟩
        | cons x l1 =>
          rw [hL, LuaPattern.parseSetElems.eq_5] at h
          obtain ⟨hn1, hL1, hlt1⟩ := next_cons ptn hL
          simp only [bind, Except.bind, hn1]
          cases hesc : LuaPattern.escClass x with
          | error e =>
            rw [hesc] at h
            simp only at h
            injection h with h; subst h
            exact (getCharRange_of_esc_err hesc).elim
          | ok v =>
            rw [hesc] at h
            obtain ⟨r, hr1, _⟩ := getCharRange_of_esc hesc
            simp only [hr1]
            -- the Spec goes on with `l1`
            have key : ∃ el : SetElem, LuaPattern.parseSetElems f l1 (el :: acc) = .error .malformed := by
              cases v with
              | inl lt =>
                simp only at h
                split at h
                · rename_i y tail
                  by_cases hy2 : (y == 93) = true
                  · simp only [hy2, if_true] at h; exact ⟨_, h⟩
                  · simp [hy2] at h
                · exact ⟨_, h⟩
              | inr bx => exact ⟨_, h⟩
            obtain ⟨el, hkey⟩ := key
            rw [hL] at hlen; simp only [List.length_cons] at hlen
            cases l1 with
            | nil => rw [next_nil ptn hL1]; exact ⟨_, rfl⟩
            | cons b2 l2 =>
              obtain ⟨hn2, hL2, hlt2⟩ := next_cons ptn hL1
              simp only at hlt2
              simp only [hn2]
              exact ih _ _ hkey (by simp only [List.length_cons] at hlen ⊢; omega) b2 _ _ fm (by rw [hL2]) (by simp; omega)
                (by simp; omega)
      · have hb37 : (b == 37) = false := beq_eq_false_iff_ne.mpr h37
        rw [unionLoop]
        simp only [hb93, hb37, Bool.false_eq_true, if_false]
        cases hL : L ptn pb with
        | nil => rw [next_nil ptn hL]; exact ⟨_, rfl⟩
        | cons b1 l1 =>
          rw [hL] at h hlen
          simp only [List.length_cons] at hlen
          obtain ⟨hn1, hL1, hlt1⟩ := next_cons ptn hL
          simp only [bind, Except.bind, hn1]
          by_cases hb1 : b1 = 45
          · subst hb1
            simp only [show ((45 : UInt8) == 45) = true from by decide, if_true]
            cases l1 with
            | nil => rw [next_nil ptn hL1]; exact ⟨_, rfl⟩
            | cons y2 l3 =>
              obtain ⟨hn2, hL2, hlt2⟩ := next_cons ptn hL1
              simp only at hlt2
              simp only [hn2]
              rw [LuaPattern.parseSetElems.eq_6 _ _ _ _ _ h93 h37] at h
              simp only [List.length_cons] at hlen
              by_cases hy93 : (y2 == 93) = true
              · -- `c-]`: the Spec does two more steps and succeeds, so it cannot be malformed
                have hy : y2 = 93 := by simpa using hy93
                subst hy
                simp only [hy93, if_true] at h
                obtain ⟨f', rfl⟩ : ∃ f', f = f' + 1 := ⟨f - 1, by omega⟩
                rw [LuaPattern.parseSetElems.eq_7 _ _ _ _ (by decide) (by decide)
                  (fun y r heq => by injection heq with heq _; cases heq)] at h
                obtain ⟨f'', rfl⟩ : ∃ f'', f' = f'' + 1 := ⟨f' - 1, by omega⟩
                rw [LuaPattern.parseSetElems.eq_3] at h
                cases h
              · simp only [hy93, Bool.false_eq_true, if_false] at h ⊢
                by_cases hy37 : (y2 == 37) = true
                · simp [hy37] at h
                · simp only [hy37, Bool.false_eq_true, if_false] at h
                  cases l3 with
                  | nil => rw [next_nil ptn hL2]; exact ⟨_, rfl⟩
                  | cons b3 l4 =>
                    obtain ⟨hn3, hL3, hlt3⟩ := next_cons ptn hL2
                    simp only at hlt3
                    simp only [hn3]
                    exact ih _ _ h (by simp only [List.length_cons] at hlen ⊢; omega) b3 _ _ fm (by rw [hL3])
                      (by simp; omega) (by simp; omega)
          · simp only [beq_eq_false_iff_ne.mpr hb1, Bool.false_eq_true, if_false]
            rw [LuaPattern.parseSetElems.eq_7 _ _ _ _ h93 h37
              (fun y r heq => by injection heq with heq _; exact hb1 heq)] at h
            exact ih _ _ h (by simp only [List.length_cons]; omega) b1 _ _ fm (by rw [hL1]) (by simp; omega) (by simp; omega)

theorem map_err {α β : Type} {r : Except PErr α} {f : α → β} {e : PErr} (h : r.map f = .error e) : r = .error e := by
  cases r with
  | error e' => simp only [Except.map] at h; injection h with h; rw [h]
  | ok v => simp [Except.map] at h

theorem setBody_rejects (fuelS : Nat) (neg : Bool) (p : List UInt8)
    (h : LuaPattern.parseSetBody fuelS neg p = .error .malformed) (hlen : p.length < fuelS) (pb1 : PB)
    (hp : L ptn pb1 = p) (hpi1 : pb1.i ≤ ptn.size) : Fails (unionBody ptn neg pb1) := by
  unfold unionBody
  cases p with
  | nil => rw [next_nil ptn hp]; exact ⟨_, rfl⟩
  | cons b0 r =>
    obtain ⟨hn1, hL1, hlt1⟩ := next_cons ptn hp
    simp only [bind, Except.bind, hn1]
    simp only [List.length_cons] at hlen
    by_cases h93 : b0 = 93
    · subst h93
      simp only [show ((93 : UInt8) == 93) = true from by decide, if_true]
      have hk : LuaPattern.parseSetElems fuelS r [.ch 93] = .error .malformed := by
        simp only [LuaPattern.parseSetBody] at h
        split at h
        · rename_i y tl
          by_cases hy : (y == 93) = true
          · simp only [hy, if_true] at h; exact map_err h
          · simp [hy] at h
        · exact map_err h
      cases r with
      | nil => rw [next_nil ptn hL1]; exact ⟨_, rfl⟩
      | cons b2 r2 =>
        obtain ⟨hn2, hL2, hlt2⟩ := next_cons ptn hL1
        simp only at hlt2
        simp only [hn2, pure, Except.pure]
        exact unionLoop_rejects ptn neg fuelS _ _ hk (by omega) b2 _ _ (ptn.size + 2) (by rw [hL2]) (by simp; omega)
          (by simp; omega)
    · simp only [beq_eq_false_iff_ne.mpr h93, Bool.false_eq_true, if_false, pure, Except.pure]
      have hk : LuaPattern.parseSetElems fuelS (b0 :: r) [] = .error .malformed := by
        simp only [LuaPattern.parseSetBody] at h
        split at h
        · rename_i r' heq; injection heq with e1 _; exact absurd e1 h93
        · exact map_err h
      exact unionLoop_rejects ptn neg fuelS _ _ hk (by simp only [List.length_cons]; omega) b0 _ _ (ptn.size + 2)
        (by rw [hL1]) (by simp; omega) (by simp; omega)

theorem getUnion_rejects (fuelS : Nat) (l : List UInt8) (h : LuaPattern.parseSet fuelS l = .error .malformed)
    (hlen : l.length < fuelS) (pb : PB) (hl : L ptn pb = l) (hpi : pb.i ≤ ptn.size) : Fails (getUnion ptn pb) := by
  rw [parseSet_eq] at h
  rw [getUnion_eq]
  cases l with
  | nil => rw [next_nil ptn hl]; exact ⟨_, rfl⟩
  | cons a r =>
    obtain ⟨hn0, hL0, hlt0⟩ := next_cons ptn hl
    simp only [bind, Except.bind, hn0]
    simp only [List.length_cons] at hlen
    by_cases h94 : a = 94
    · subst h94
      simp only [show ((94 : UInt8) == 94) = true from by decide, if_true]
      exact setBody_rejects ptn fuelS true r h (by omega) _ hL0 (by simp; omega)
    · simp only [beq_eq_false_iff_ne.mpr h94, Bool.false_eq_true, if_false]
      have h' : LuaPattern.parseSetBody fuelS false (a :: r) = .error .malformed := by
        split at h
        · rename_i r' heq; injection heq with e1 _; exact absurd e1 h94
        · exact h
      exact setBody_rejects ptn fuelS false (a :: r) h' (by simp only [List.length_cons]; omega) pb hl hpi

theorem getCharClass_rejects (fuelS : Nat) (l : List UInt8) (h : LuaPattern.parseClass fuelS l = .error .malformed)
    (hlen : l.length ≤ fuelS) (pb : PB) (hl : L ptn pb = l) (hpi : pb.i ≤ ptn.size) : Fails (getCharClass ptn pb) := by
  unfold getCharClass
  cases l with
  | nil => rw [next_nil ptn hl]; exact ⟨_, rfl⟩
  | cons a r =>
    obtain ⟨hn0, hL0, hlt0⟩ := next_cons ptn hl
    simp only [bind, Except.bind, hn0]
    simp only [List.length_cons] at hlen
    by_cases h46 : a = 46
    · subst h46; rw [LuaPattern.parseClass.eq_2] at h; cases h
    · simp only [beq_eq_false_iff_ne.mpr h46, Bool.false_eq_true, if_false]
      by_cases h37 : a = 37
      · subst h37
        simp only [show ((37 : UInt8) == 37) = true from by decide, if_true]
        cases r with
        | nil => rw [next_nil ptn hL0]; exact ⟨_, rfl⟩
        | cons x r1 =>
          rw [LuaPattern.parseClass.eq_4] at h
          cases hesc : LuaPattern.escClass x with
          | error e =>
            rw [hesc] at h; simp only at h
            injection h with h; subst h
            exact (getCharRange_of_esc_err hesc).elim
          | ok v => rw [hesc] at h; cases v <;> cases h
      · simp only [beq_eq_false_iff_ne.mpr h37, Bool.false_eq_true, if_false]
        by_cases h91 : a = 91
        · subst h91
          simp only [show ((91 : UInt8) == 91) = true from by decide, if_true]
          rw [LuaPattern.parseClass.eq_5] at h
          exact getUnion_rejects ptn fuelS r h (by omega) _ hL0 (by simp; omega)
        · rw [LuaPattern.parseClass.eq_6 _ _ _ h46 h37 h91] at h; cases h

/-- what `build` makes of a loop result that ends in an error: the loop failed, or left a capture open -/
def Rejected (r : B PB) : Prop := Fails r ∨ ∃ pbf, r = .ok pbf ∧ pbf.cStack.size ≠ 0

theorem gpi_fails_loop {maxSize fm sz : Nat} {pb : PB} (hlt : pb.i < ptn.size) (h : Fails (getPatternItem ptn pb)) :
    Rejected (buildLoop ptn maxSize (fm + 1) sz pb) := by
  obtain ⟨e, he⟩ := h
  refine Or.inl ⟨e, ?_⟩
  rw [buildLoop]
  simp only [hlt, if_true, bind, Except.bind, he]

theorem getElem?_of_L_nil {pb : PB} (h : L ptn pb = []) : ptn[pb.i]? = none := by
  have := (L_nil_iff ptn).mp h
  exact Array.getElem?_eq_none this

theorem stack_size {st : LuaPattern.PState} {pb : PB} (hrel : StRel st pb) : pb.cStack.size = st.stack.length := by
  have := congrArg List.length hrel.stack
  simpa using this

/-- REJECTION, the main loop: a malformed rest of the pattern makes the builder's loop fail or end inside a capture -/
theorem buildLoop_rejects (maxSize : Nat) :
    ∀ (fuelS : Nat) (l : List UInt8) (st : LuaPattern.PState),
    LuaPattern.parseItems fuelS l st = .error .malformed → l.length < fuelS →
    ∀ (pb : PB) (fuelM sz : Nat), L ptn pb = l → (pb.i = 0 → l.head? ≠ some 94) → StRel st pb →
      ptn.size + 1 ≤ fuelM + pb.i → pb.i ≤ ptn.size →
      Rejected (buildLoop ptn maxSize fuelM sz pb) := by
  intro fuelS
  induction fuelS with
  | zero => intro l st h hlen; omega
  | succ f ih =>
    intro l st h hlen pb fuelM sz hl hcaret hrel hf hpi
    obtain ⟨fm, rfl⟩ : ∃ fm, fuelM = fm + 1 := ⟨fuelM - 1, by omega⟩
    have cont : ∀ (l' : List UInt8) (st' : LuaPattern.PState), ItemStep ptn l l' st st' →
        LuaPattern.parseItems f l' st' = .error .malformed → Rejected (buildLoop ptn maxSize (fm + 1) sz pb) := by
      intro l' st' hitem hspec
      obtain ⟨pb', g1, g2, g3, g4, g5, g6⟩ := hitem pb hl hcaret hrel
      have hlen' : l'.length < f := by
        have h1 := L_length ptn pb
        have h2 := L_length ptn pb'
        rw [hl] at h1; rw [g2] at h2; omega
      rw [buildLoop]
      have hlt : pb.i < ptn.size := by omega
      simp only [hlt, if_true, bind, Except.bind, g1]
      by_cases hsz : sz + 1 > maxSize
      · simp only [hsz, if_true]
        exact Or.inl ⟨_, rfl⟩
      · simp only [hsz, if_false]
        exact ih l' st' hspec hlen' pb' fm (sz + 1) g2 (fun h0 => by omega) g5 (by omega) g4
    cases l with
    | nil =>
      rw [LuaPattern.parseItems.eq_2] at h
      by_cases hst : st.stack.isEmpty = true
      · simp [hst] at h
      · refine Or.inr ⟨pb, ?_, ?_⟩
        · rw [buildLoop]
          have : ¬ (pb.i < ptn.size) := by have := (L_nil_iff ptn).mp hl; omega
          simp only [this, if_false]
        · rw [stack_size hrel]
          intro e; apply hst
          rw [List.isEmpty_iff]; exact List.length_eq_zero_iff.mp e
    | cons a r =>
      obtain ⟨hn0, hL0, hlt0⟩ := next_cons ptn hl
      by_cases hA : a = 36 ∧ r = []
      · obtain ⟨ha, hr⟩ := hA
        subst ha; subst hr
        rw [LuaPattern.parseItems.eq_3] at h
        by_cases hst : st.stack.isEmpty = true
        · simp [hst] at h
        · have hlen2 := L_length ptn pb
          rw [hl] at hlen2
          simp only [List.length_cons, List.length_nil] at hlen2
          obtain ⟨fm', rfl⟩ : ∃ fm', fm = fm' + 1 := ⟨fm - 1, by omega⟩
          by_cases hsz' : sz + 1 > maxSize
          · refine Or.inl ⟨.tooComplex, ?_⟩
            rw [buildLoop]
            have hgpi : getPatternItem ptn pb = .ok { pb with i := pb.i + 1, anchorRight := true } := by
              unfold getPatternItem
              have : pb.i + 1 = ptn.size := by omega
              simp [bind, Except.bind, hn0, this, pure, Except.pure]
            simp only [hlt0, if_true, bind, Except.bind, hgpi, hsz']
            rfl
          · refine Or.inr ⟨{ pb with i := pb.i + 1, anchorRight := true }, ?_, ?_⟩
            · rw [buildLoop]
              have hgpi : getPatternItem ptn pb = .ok { pb with i := pb.i + 1, anchorRight := true } := by
                unfold getPatternItem
                have : pb.i + 1 = ptn.size := by omega
                simp [bind, Except.bind, hn0, this, pure, Except.pure]
              simp only [hlt0, if_true, bind, Except.bind, hgpi, hsz', if_false]
              rw [buildLoop]
              have : ¬ (pb.i + 1 < ptn.size) := by omega
              simp only [this, if_false]
            · show pb.cStack.size ≠ 0
              rw [stack_size hrel]
              intro e; apply hst
              rw [List.isEmpty_iff]; exact List.length_eq_zero_iff.mp e
      · by_cases h40 : a = 40
        · -- `(`
          subst h40
          by_cases hmaxc : st.ncap + 1 > LuaPattern.maxCaptures
          · apply gpi_fails_loop ptn hlt0
            have hge : pb.ciMax + 1 ≥ 10 := by
              rw [hrel.ncap]; unfold LuaPattern.maxCaptures at hmaxc; omega
            unfold getPatternItem
            simp only [bind, Except.bind, hn0, show ((40 : UInt8) == 94) = false from by decide,
              show ((40 : UInt8) == 36) = false from by decide, show ((40 : UInt8) == 40) = true from by decide,
              Bool.false_eq_true, if_false, if_true, hge]
            exact ⟨_, rfl⟩
          · have hlt10 : ¬ (pb.ciMax + 1 ≥ 10) := by
              rw [hrel.ncap]; unfold LuaPattern.maxCaptures at hmaxc; omega
            cases r with
            | nil =>
              apply gpi_fails_loop ptn hlt0
              have hnx := next_nil ptn (pb := { pb with i := pb.i + 1, ciMax := pb.ciMax + 1 }) hL0
              unfold getPatternItem
              simp only [bind, Except.bind, hn0, show ((40 : UInt8) == 94) = false from by decide,
                show ((40 : UInt8) == 36) = false from by decide, show ((40 : UInt8) == 40) = true from by decide,
                Bool.false_eq_true, if_false, if_true, hlt10, hnx]
              exact ⟨_, rfl⟩
            | cons b2 r2 =>
              by_cases hb2 : b2 = 41
              · subst hb2
                rw [LuaPattern.parseItems.eq_5] at h
                simp only [hmaxc, if_false] at h
                exact cont _ _ (item_pos ptn st r2 hmaxc) h
              · rw [LuaPattern.parseItems.eq_6 _ _ _ (by intro e; cases e)
                  (by intro rest' e; injection e with e1 _; exact hb2 e1)] at h
                simp only [hmaxc, if_false] at h
                exact cont _ _ (item_open ptn st b2 r2 hb2 hmaxc) h
        · by_cases h41 : a = 41
          · -- `)`
            subst h41
            rw [LuaPattern.parseItems.eq_7] at h
            cases hstk : st.stack with
            | nil =>
              apply gpi_fails_loop ptn hlt0
              have hz : pb.cStack.size = 0 := by rw [stack_size hrel, hstk]; rfl
              unfold getPatternItem
              simp only [bind, Except.bind, hn0, show ((41 : UInt8) == 94) = false from by decide,
                show ((41 : UInt8) == 36) = false from by decide, show ((41 : UInt8) == 40) = false from by decide,
                show ((41 : UInt8) == 41) = true from by decide,
                Bool.false_eq_true, if_false, if_true, hz]
              exact ⟨_, rfl⟩
            | cons n stk =>
              rw [hstk] at h
              simp only at h
              exact cont _ _ (item_close ptn st n stk r hstk) h
          · by_cases h37 : a = 37
            · -- `%…`
              subst h37
              cases r with
              | nil =>
                apply gpi_fails_loop ptn hlt0
                have hnx := next_nil ptn hL0
                unfold getPatternItem
                simp only [bind, Except.bind, hn0, show ((37 : UInt8) == 94) = false from by decide,
                  show ((37 : UInt8) == 36) = false from by decide, show ((37 : UInt8) == 40) = false from by decide,
                  show ((37 : UInt8) == 41) = false from by decide, show ((37 : UInt8) == 37) = true from by decide,
                  Bool.false_eq_true, if_false, if_true, hnx]
                exact ⟨_, rfl⟩
              | cons d r2 =>
                obtain ⟨hn1, hL1, hlt1⟩ := next_cons ptn hL0
                simp only at hlt1
                by_cases hd98 : d = 98
                · -- `%bxy`
                  subst hd98
                  cases r2 with
                  | nil =>
                    apply gpi_fails_loop ptn hlt0
                    have hnx := next_nil ptn hL1
                    unfold getPatternItem
                    simp only [bind, Except.bind, hn0, show ((37 : UInt8) == 94) = false from by decide,
                      show ((37 : UInt8) == 36) = false from by decide, show ((37 : UInt8) == 40) = false from by decide,
                      show ((37 : UInt8) == 41) = false from by decide, show ((37 : UInt8) == 37) = true from by decide,
                      Bool.false_eq_true, if_false, if_true, hn1,
                      show ((98 : UInt8) == 102) = false from by decide, show ((98 : UInt8) == 98) = true from by decide,
                      hnx]
                    exact ⟨_, rfl⟩
                  | cons x r3 =>
                    obtain ⟨hn2, hL2, hlt2⟩ := next_cons ptn hL1
                    cases r3 with
                    | nil =>
                      apply gpi_fails_loop ptn hlt0
                      have hnx := next_nil ptn hL2
                      unfold getPatternItem
                      simp only [bind, Except.bind, hn0, show ((37 : UInt8) == 94) = false from by decide,
                        show ((37 : UInt8) == 36) = false from by decide, show ((37 : UInt8) == 40) = false from by decide,
                        show ((37 : UInt8) == 41) = false from by decide, show ((37 : UInt8) == 37) = true from by decide,
                        Bool.false_eq_true, if_false, if_true, hn1,
                        show ((98 : UInt8) == 102) = false from by decide, show ((98 : UInt8) == 98) = true from by decide,
                        hn2, hnx]
                      exact ⟨_, rfl⟩
                    | cons y r4 =>
                      rw [LuaPattern.parseItems.eq_8] at h
                      exact cont _ _ (item_bal ptn st x y r4) h
                · by_cases hd102 : d = 102
                  · -- `%f`
                    subst hd102
                    cases r2 with
                    | nil =>
                      apply gpi_fails_loop ptn hlt0
                      have hnone := getElem?_of_L_nil ptn hL1
                      simp only at hnone
                      unfold getPatternItem
                      simp only [bind, Except.bind, hn0, show ((37 : UInt8) == 94) = false from by decide,
                        show ((37 : UInt8) == 36) = false from by decide, show ((37 : UInt8) == 40) = false from by decide,
                        show ((37 : UInt8) == 41) = false from by decide, show ((37 : UInt8) == 37) = true from by decide,
                        Bool.false_eq_true, if_false, if_true, hn1,
                        show ((102 : UInt8) == 102) = true from by decide, hnone,
                        show ((none : Option UInt8) != some 91) = true from by decide]
                      exact ⟨_, rfl⟩
                    | cons x r3 =>
                      have hx := L_head ptn hL1
                      simp only at hx
                      by_cases hx91 : x = 91
                      · subst hx91
                        rw [LuaPattern.parseItems.eq_10] at h
                        cases hps : LuaPattern.parseSet f r3 with
                        | error e =>
                          rw [hps] at h
                          simp only at h
                          injection h with h; subst h
                          apply gpi_fails_loop ptn hlt0
                          have hpc : LuaPattern.parseClass f (91 :: r3) = .error .malformed := by
                            rw [LuaPattern.parseClass.eq_5]; exact hps
                          obtain ⟨e, he⟩ := getCharClass_rejects ptn f (91 :: r3) hpc
                            (by simp only [List.length_cons] at hlen ⊢; omega) { pb with i := pb.i + 1 + 1 } hL1
                            (by simp only; omega)
                          unfold getPatternItem
                          simp only [bind, Except.bind, hn0, show ((37 : UInt8) == 94) = false from by decide,
                            show ((37 : UInt8) == 36) = false from by decide, show ((37 : UInt8) == 40) = false from by decide,
                            show ((37 : UInt8) == 41) = false from by decide, show ((37 : UInt8) == 37) = true from by decide,
                            Bool.false_eq_true, if_false, if_true, hn1,
                            show ((102 : UInt8) == 102) = true from by decide, hx,
                            show ((some (91 : UInt8)) != some 91) = false from by decide, he, pure, Except.pure]
                          exact ⟨_, rfl⟩
                        | ok v =>
                          obtain ⟨c, rest''⟩ := v
                          rw [hps] at h
                          simp only at h
                          exact cont _ _ (item_frontier ptn st f r3 rest'' c hps) h
                      · apply gpi_fails_loop ptn hlt0
                        have hne : ((some x : Option UInt8) != some 91) = true := by simp [hx91]
                        unfold getPatternItem
                        simp only [bind, Except.bind, hn0, show ((37 : UInt8) == 94) = false from by decide,
                          show ((37 : UInt8) == 36) = false from by decide, show ((37 : UInt8) == 40) = false from by decide,
                          show ((37 : UInt8) == 41) = false from by decide, show ((37 : UInt8) == 37) = true from by decide,
                          Bool.false_eq_true, if_false, if_true, hn1,
                          show ((102 : UInt8) == 102) = true from by decide, hx, hne]
                        exact ⟨_, rfl⟩
                  · rw [LuaPattern.parseItems.eq_12 _ _ _ _ hd98 hd102] at h
                    by_cases hdig : LuaPattern.isDigit d = true
                    · simp only [hdig, if_true] at h
                      by_cases hbad : (d - 48).toNat = 0 ∨ (d - 48).toNat > st.ncap ∨ st.stack.contains (d - 48).toNat = true
                      · -- an invalid capture index
                        apply gpi_fails_loop ptn hlt0
                        by_cases hd48 : d = 48
                        · subst hd48
                          unfold getPatternItem
                          simp only [bind, Except.bind, hn0, show ((37 : UInt8) == 94) = false from by decide,
                            show ((37 : UInt8) == 36) = false from by decide, show ((37 : UInt8) == 40) = false from by decide,
                            show ((37 : UInt8) == 41) = false from by decide, show ((37 : UInt8) == 37) = true from by decide,
                            Bool.false_eq_true, if_false, if_true, hn1,
                            show ((48 : UInt8) == 102) = false from by decide, show ((48 : UInt8) == 98) = false from by decide,
                            show isDigit19 48 = false from by decide,
                            show getCharRange 48 = .error (.invalidCaptureIdx 0) from rfl]
                          exact ⟨_, rfl⟩
                        · have hdn : d.toNat ≠ 48 := fun e => hd48 (UInt8.toNat_inj.mp e)
                          have hdig' := hdig
                          unfold LuaPattern.isDigit at hdig'
                          simp only [Bool.and_eq_true, decide_eq_true_eq] at hdig'
                          have h48 := UInt8.le_iff_toNat_le.mp hdig'.1
                          have h57 := UInt8.le_iff_toNat_le.mp hdig'.2
                          have e48 : (48 : UInt8).toNat = 48 := rfl
                          have e57 : (57 : UInt8).toNat = 57 := rfl
                          have hsub : (d - 48).toNat = d.toNat - 48 := by
                            rw [UInt8.toNat_sub_of_le _ _ hdig'.1]; rfl
                          have hd19 : isDigit19 d = true := by
                            unfold isDigit19
                            simp only [Bool.and_eq_true, decide_eq_true_eq, ge_iff_le]
                            refine ⟨UInt8.le_iff_toNat_le.mpr ?_, hdig'.2⟩
                            have e49 : (49 : UInt8).toNat = 49 := rfl
                            omega
                          have hchk : checkCapture { pb with i := pb.i + 1 + 1 } (d - 48).toNat = false := by
                            unfold checkCapture
                            by_cases h1 : (d - 48).toNat > pb.ciMax
                            · simp only [h1, if_true]
                            · simp only [h1, if_false]
                              have h2 : st.stack.contains (d - 48).toNat = true := by
                                rcases hbad with e | e | e
                                · omega
                                · rw [hrel.ncap] at h1; exact absurd e h1
                                · exact e
                              have : pb.cStack.contains (d - 48).toNat = st.stack.contains (d - 48).toNat := by
                                rw [← Array.contains_toList, hrel.stack]
                                simp [List.contains_eq_mem, List.mem_reverse]
                              rw [this, h2]; rfl
                          unfold getPatternItem
                          simp only [bind, Except.bind, hn0, show ((37 : UInt8) == 94) = false from by decide,
                            show ((37 : UInt8) == 36) = false from by decide, show ((37 : UInt8) == 40) = false from by decide,
                            show ((37 : UInt8) == 41) = false from by decide, show ((37 : UInt8) == 37) = true from by decide,
                            Bool.false_eq_true, if_false, if_true, hn1, beq_eq_false_iff_ne.mpr hd102,
                            beq_eq_false_iff_ne.mpr hd98, hd19, hchk, Bool.not_false]
                          exact ⟨_, rfl⟩
                      · rw [if_neg hbad] at h
                        exact cont _ _ (item_backref ptn st d r2 hd98 hd102 hdig hbad) h
                    · simp only [hdig, Bool.false_eq_true, if_false] at h
                      rw [LuaPattern.parseClass.eq_4] at h
                      cases hesc : LuaPattern.escClass d with
                      | error e =>
                        rw [hesc] at h
                        simp only at h
                        injection h with h; subst h
                        exact (getCharRange_of_esc_err hesc).elim
                      | ok v =>
                        rw [hesc] at h
                        obtain ⟨rr, hr1, hr2⟩ := getCharRange_of_esc hesc
                        have key : ∃ c : Cls, (∀ x, rr.contains x = c.matches x) ∧
                            LuaPattern.parseItems f (LuaPattern.parseQuant r2).2
                              { st with items := Item.char c (LuaPattern.parseQuant r2).1 :: st.items } = .error .malformed := by
                          cases v with
                          | inl lt => exact ⟨.named lt, fun x => by rw [hr2]; rfl, h⟩
                          | inr bx => exact ⟨.lit bx, fun x => by rw [hr2]; rfl, h⟩
                        obtain ⟨c, hc, hk⟩ := key
                        exact cont _ _ (item_esc ptn st d r2 hd98 hd102 hdig rr hr1 c hc) hk
            · -- a single-character item
              have h36 : a = 36 → r ≠ [] := fun e hr => hA ⟨e, hr⟩
              rw [LuaPattern.parseItems.eq_13 _ _ _ (by intro e; cases e)
                (by intro e; injection e with e1 e2; exact hA ⟨e1, e2⟩)
                (by intro rest e; injection e with e1 _; exact h40 e1)
                (by intro rest e; injection e with e1 _; exact h41 e1)
                (by intro rest e; injection e with e1 _; exact h37 e1)
                (by intro rest e; injection e with e1 _; exact h37 e1)
                (by intro d rest e; injection e with e1 _; exact h37 e1)] at h
              cases hpc : LuaPattern.parseClass f (a :: r) with
              | error e =>
                rw [hpc] at h
                simp only at h
                injection h with h; subst h
                apply gpi_fails_loop ptn hlt0
                rw [gpi_single ptn hl (fun e h0 => by
                  have := hcaret h0; rw [e] at this; exact this rfl) h36 h40 h41 h37]
                exact Fails.bind_left _ (getCharClass_rejects ptn f (a :: r) hpc (by simp only [List.length_cons] at hlen ⊢; omega) pb hl hpi)
              | ok v =>
                obtain ⟨c, rest'⟩ := v
                rw [hpc] at h
                simp only at h
                exact cont _ _ (item_single ptn st f a r rest' c hA h40 h41 h37 hpc) h

/-- BUILD REJECTS WHAT THE SPEC REJECTS: a pattern string the Spec's parser calls malformed makes `pattern.New` return
    an error (no size bound needed: a too long pattern is rejected as well) -/
theorem build_rejects_malformed (hparse : LuaPattern.parse ptn.toList = .error .malformed) :
    ∃ e, build ptn = .error e := by
  unfold LuaPattern.parse at hparse
  have hL0 : L ptn {} = ptn.toList := by simp [L]
  have fin : Rejected (buildLoop ptn Generated.ByteSetTable.maxPatternSize (ptn.size + 1) 0 {}) →
      ∃ e, build ptn = .error e := by
    intro hr
    unfold build
    rcases hr with ⟨e, he⟩ | ⟨pbf, hb, hne⟩
    · exact ⟨e, by simp only [bind, Except.bind, he]⟩
    · exact ⟨.unfinishedCapture, by simp only [bind, Except.bind, hb]; rw [if_pos hne]; rfl⟩
  by_cases hcaret : ∃ r, ptn.toList = 94 :: r
  · obtain ⟨r, hp⟩ := hcaret
    have hsc : LuaPattern.stripCaret ptn.toList = (true, r) := by rw [hp]; rfl
    rw [hsc] at hparse
    simp only at hparse
    cases hpi : LuaPattern.parseItems (r.length + 1) r { items := [], ncap := 0, stack := [], anchorEnd := false } with
    | ok stf => rw [hpi] at hparse; cases hparse
    | error e =>
      rw [hpi] at hparse
      injection hparse with hparse; subst hparse
      have hl0 : L ptn {} = 94 :: r := by rw [hL0, hp]
      obtain ⟨hn0, hL1, hlt0⟩ := next_cons ptn hl0
      have hlen : ptn.size = r.length + 1 := by
        have := congrArg List.length hp; simpa using this
      apply fin
      rw [buildLoop]
      have hgpi : getPatternItem ptn {} = .ok { ({} : PB) with i := 1, anchorLeft := true } := by
        unfold getPatternItem
        simp [bind, Except.bind, hn0, pure, Except.pure]
      have hsz' : ¬ (0 + 1 > Generated.ByteSetTable.maxPatternSize) := by
        unfold Generated.ByteSetTable.maxPatternSize; omega
      have hlt : ({} : PB).i < ptn.size := by simp; omega
      simp only [hlt, if_true, bind, Except.bind, hgpi, hsz', if_false]
      exact buildLoop_rejects ptn _ _ _ _ hpi (by omega) { ({} : PB) with i := 1, anchorLeft := true } ptn.size 1 hL1
        (fun h0 => by simp at h0) (StRel.init _ rfl rfl rfl rfl) (by simp) (by simp; omega)
  · have hsc : LuaPattern.stripCaret ptn.toList = (false, ptn.toList) := by
      unfold LuaPattern.stripCaret
      split
      · rename_i r' hr'; exact absurd ⟨r', hr'⟩ hcaret
      · rfl
    rw [hsc] at hparse
    simp only at hparse
    cases hpi : LuaPattern.parseItems (ptn.toList.length + 1) ptn.toList
        { items := [], ncap := 0, stack := [], anchorEnd := false } with
    | ok stf => rw [hpi] at hparse; cases hparse
    | error e =>
      rw [hpi] at hparse
      injection hparse with hparse; subst hparse
      apply fin
      exact buildLoop_rejects ptn _ _ _ _ hpi (by omega) {} (ptn.size + 1) 0 hL0
        (fun _ hh => by
          cases hl : ptn.toList with
          | nil => rw [hl] at hh; simp at hh
          | cons a r =>
            rw [hl] at hh
            simp only [List.head?_cons, Option.some.injEq] at hh
            exact hcaret ⟨r, by rw [hl, hh]⟩)
        (StRel.init _ rfl rfl rfl rfl) (by simp) (by simp)

end GoluaVerif.Model.PatBuild
