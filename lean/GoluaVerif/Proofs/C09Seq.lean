/-
  Proofs.C09Seq — the simulation between Model.CoSeq (thread.go's data: status, caller)
  and Spec.Co (the Lua resume stack), and the invariant it carries.
-/
import GoluaVerif.Model.CoSeq
namespace GoluaVerif.Proofs.C09Seq
open GoluaVerif.Spec.Co (Id Val Msg Event Op upd tbcEvents upd_same upd_other)
open GoluaVerif.Model.CoSeq (Thread GoStatus endThread)
abbrev SeqState := GoluaVerif.Model.CoSeq.State
abbrev SpState := GoluaVerif.Spec.Co.State

/-- `l` is a caller chain: each element was resumed by the next one, the last is the main thread -/
def IsChain (th : Id → Thread) : List Id → Prop
  | [] => False
  | [a] => a = 0 ∧ (th a).caller = none
  | a :: b :: rest => (th a).caller = some b ∧ IsChain th (b :: rest)

theorem isChain_congr {th th' : Id → Thread} : ∀ (l : List Id),
    (∀ a ∈ l, (th' a).caller = (th a).caller) → (IsChain th' l ↔ IsChain th l)
  | [], _ => Iff.rfl
  | [a], h => by simp [IsChain, h a (by simp)]
  | a :: b :: rest, h => by
    have ih := isChain_congr (th := th) (th' := th') (b :: rest) (fun x hx => h x (by simp at hx ⊢; right; exact hx))
    simp only [IsChain, h a (by simp), ih]

theorem isChain_upd_notin {th : Id → Thread} {l : List Id} {t : Id} (x : Thread) (h : t ∉ l) :
    IsChain (upd th t x) l ↔ IsChain th l :=
  isChain_congr l (fun a ha => by
    have : a ≠ t := fun e => h (e ▸ ha)
    simp [upd_other _ _ _ _ this])

/-- the refinement relation; it contains the status/chain invariant of the Go-level data -/
structure R (s : SeqState) (sp : SpState) : Prop where
  n_eq : s.n = sp.n
  head : sp.stack.head? = some s.cur
  chain : IsChain s.th sp.stack
  nodup : sp.stack.Nodup
  onstack : ∀ t, t ∈ sp.stack ↔ (s.th t).status = .ok
  offstack : ∀ t, t ∉ sp.stack → (s.th t).caller = none
  lt : ∀ t, t ∈ sp.stack → t < s.n
  co_dead : ∀ t, (sp.co t).dead = true ↔ (s.th t).status = .dead
  co_err : ∀ t, (sp.co t).err = (s.th t).closeErr
  co_tbc : ∀ t, (sp.co t).tbc = (s.th t).tbc

theorem R_init : R GoluaVerif.Model.CoSeq.init GoluaVerif.Spec.Co.init := by
  refine ⟨rfl, rfl, ?_, by simp [GoluaVerif.Spec.Co.init], ?_, ?_, ?_, ?_, ?_, ?_⟩
  · simp [IsChain, GoluaVerif.Spec.Co.init, GoluaVerif.Model.CoSeq.init]
  · intro t
    by_cases h : t = 0
    · subst h; simp [GoluaVerif.Spec.Co.init, GoluaVerif.Model.CoSeq.init]
    · simp [GoluaVerif.Spec.Co.init, GoluaVerif.Model.CoSeq.init, h, Thread.fresh]
  · intro t h
    have : t ≠ 0 := by simpa [GoluaVerif.Spec.Co.init] using h
    simp [GoluaVerif.Model.CoSeq.init, this, Thread.fresh]
  · intro t h
    have : t = 0 := by simpa [GoluaVerif.Spec.Co.init] using h
    simp [GoluaVerif.Model.CoSeq.init, this]
  · intro t
    by_cases h : t = 0
    · subst h; simp [GoluaVerif.Spec.Co.init, GoluaVerif.Model.CoSeq.init, GoluaVerif.Spec.Co.Co.fresh]
    · simp [GoluaVerif.Spec.Co.init, GoluaVerif.Model.CoSeq.init, h, Thread.fresh, GoluaVerif.Spec.Co.Co.fresh]
  · intro t
    by_cases h : t = 0
    · subst h; simp [GoluaVerif.Spec.Co.init, GoluaVerif.Model.CoSeq.init, GoluaVerif.Spec.Co.Co.fresh]
    · simp [GoluaVerif.Spec.Co.init, GoluaVerif.Model.CoSeq.init, h, Thread.fresh, GoluaVerif.Spec.Co.Co.fresh]
  · intro t
    by_cases h : t = 0
    · subst h; simp [GoluaVerif.Spec.Co.init, GoluaVerif.Model.CoSeq.init, GoluaVerif.Spec.Co.Co.fresh]
    · simp [GoluaVerif.Spec.Co.init, GoluaVerif.Model.CoSeq.init, h, Thread.fresh, GoluaVerif.Spec.Co.Co.fresh]


section lemmas
variable {s : SeqState} {sp : SpState}

theorem R.stack_eq (h : R s sp) : ∃ rest, sp.stack = s.cur :: rest := by
  have := h.head
  cases hs : sp.stack with
  | nil => simp [hs] at this
  | cons a rest => simp [hs] at this; exact ⟨rest, by rw [this]⟩

theorem R.cur_eq (h : R s sp) : sp.cur = s.cur := by
  obtain ⟨rest, hs⟩ := h.stack_eq
  simp [GoluaVerif.Spec.Co.State.cur, hs]

theorem R.cur_mem (h : R s sp) : s.cur ∈ sp.stack := by
  obtain ⟨rest, hs⟩ := h.stack_eq
  simp [hs]

theorem R.cur_ok (h : R s sp) : (s.th s.cur).status = .ok := (h.onstack _).1 h.cur_mem

theorem R.status_susp (h : R s sp) (t : Id) :
    sp.status t = .suspended ↔ (s.th t).status = .suspended := by
  unfold GoluaVerif.Spec.Co.State.status
  have hon := h.onstack t
  have hd := h.co_dead t
  constructor
  · intro hst
    split at hst
    · cases hst
    · split at hst
      · cases hst
      · split at hst
        · cases hst
        · rename_i h1 h2 h3
          have : (s.th t).status ≠ .ok := fun e => h2 (hon.2 e)
          have : (s.th t).status ≠ .dead := fun e => h3 (hd.2 e)
          cases hq : (s.th t).status <;> simp_all
  · intro hst
    have h2 : t ∉ sp.stack := fun hm => by have := hon.1 hm; simp [hst] at this
    have h1 : sp.stack.head? ≠ some t := fun e => h2 (List.mem_of_mem_head? (by simp [e]))
    have h3 : ¬ (sp.co t).dead = true := fun e => by have := hd.1 e; simp [hst] at this
    simp [h1, h2, h3]

theorem R.status_dead (h : R s sp) (t : Id) :
    sp.status t = .dead ↔ (s.th t).status = .dead := by
  unfold GoluaVerif.Spec.Co.State.status
  have hon := h.onstack t
  have hd := h.co_dead t
  constructor
  · intro hst
    split at hst
    · cases hst
    · split at hst
      · cases hst
      · split at hst
        · rename_i h1 h2 h3; exact hd.1 h3
        · cases hst
  · intro hst
    have h2 : t ∉ sp.stack := fun hm => by have := hon.1 hm; simp [hst] at this
    have h1 : sp.stack.head? ≠ some t := fun e => h2 (List.mem_of_mem_head? (by simp [e]))
    have h3 : (sp.co t).dead = true := hd.2 hst
    simp [h1, h2, h3]

/-- the Lua-visible status computed by lib/coroutine's statusString agrees with the spec's -/
theorem R.status_eq (h : R s sp) (t : Id) :
    sp.status t = GoluaVerif.Model.CoSeq.luaStatus s t := by
  obtain ⟨rest, hs⟩ := h.stack_eq
  unfold GoluaVerif.Model.CoSeq.luaStatus
  by_cases hc : t = s.cur
  · subst hc; simp [GoluaVerif.Spec.Co.State.status, hs]
  · simp only [hc, if_false]
    cases hq : (s.th t).status with
    | dead => exact (h.status_dead t).2 hq
    | suspended => exact (h.status_susp t).2 hq
    | ok =>
      have hm : t ∈ sp.stack := (h.onstack t).2 hq
      have h1 : sp.stack.head? ≠ some t := by simp [hs]; exact fun e => hc e.symm
      simp [GoluaVerif.Spec.Co.State.status, h1, hm]

end lemmas


section sim
variable {s : SeqState} {sp : SpState}

/-- pushing a suspended thread `t` on the chain (Resume, first half of Close) -/
theorem R_push (h : R s sp) {t : Id} (ht : t < s.n) (hsus : (s.th t).status = .suspended) :
    R { s with th := upd s.th t { s.th t with caller := some s.cur, status := .ok }, cur := t }
      { sp with stack := t :: sp.stack } := by
  obtain ⟨rest, hs⟩ := h.stack_eq
  have hnot : t ∉ sp.stack := fun hm => by have := (h.onstack t).1 hm; simp [hsus] at this
  refine ⟨h.n_eq, rfl, ?_, ?_, ?_, ?_, ?_, ?_, ?_, ?_⟩
  · show IsChain _ (t :: sp.stack)
    rw [hs]
    refine ⟨by simp, ?_⟩
    rw [← hs]; exact (isChain_upd_notin _ hnot).2 h.chain
  · exact List.nodup_cons.2 ⟨hnot, h.nodup⟩
  · intro u
    by_cases hu : u = t
    · subst hu; simp
    · simp [upd_other _ _ _ _ hu, hu, h.onstack u]
  · intro u hu
    have hu' : u ≠ t := fun e => hu (by simp [e])
    have : u ∉ sp.stack := fun hm => hu (by simp [hm])
    simp [upd_other _ _ _ _ hu', h.offstack u this]
  · intro u hu
    rcases List.mem_cons.1 hu with e | hm
    · subst e; exact ht
    · exact h.lt u hm
  · intro u
    by_cases hu : u = t
    · subst hu
      have : ¬ (sp.co u).dead = true := fun e => by have := (h.co_dead u).1 e; simp [hsus] at this
      simp [this]
    · simp [upd_other _ _ _ _ hu, h.co_dead u]
  · intro u
    by_cases hu : u = t
    · subst hu; simp [h.co_err u]
    · simp [upd_other _ _ _ _ hu, h.co_err u]
  · intro u
    by_cases hu : u = t
    · subst hu; simp [h.co_tbc u]
    · simp [upd_other _ _ _ _ hu, h.co_tbc u]

/-- popping the head of the chain: it becomes `x` (suspended or dead) with no caller -/
theorem R_pop (h : R s sp) {c r : Id} {rest : List Id} (hs : sp.stack = c :: r :: rest)
    (x : Thread) (y : GoluaVerif.Spec.Co.Co) (hx : x.status ≠ .ok) (hxc : x.caller = none)
    (hd : y.dead = true ↔ x.status = .dead) (he : y.err = x.closeErr) (ht : y.tbc = x.tbc) :
    R { s with th := upd s.th c x, cur := r } { sp with stack := r :: rest, co := upd sp.co c y } := by
  have hnd := h.nodup
  rw [hs] at hnd
  have hc : c ∉ r :: rest := (List.nodup_cons.1 hnd).1
  have hch := h.chain
  rw [hs] at hch
  refine ⟨h.n_eq, rfl, ?_, (List.nodup_cons.1 hnd).2, ?_, ?_, ?_, ?_, ?_, ?_⟩
  · exact (isChain_upd_notin _ hc).2 hch.2
  · intro u
    by_cases hu : u = c
    · subst hu; simp [hc, hx]
    · have := h.onstack u
      rw [hs] at this
      simp [upd_other _ _ _ _ hu, ← this, hu]
  · intro u hu
    by_cases huc : u = c
    · subst huc; simp [hxc]
    · have : u ∉ sp.stack := by rw [hs]; simp [huc]; simpa using hu
      simp [upd_other _ _ _ _ huc, h.offstack u this]
  · intro u hu
    exact h.lt u (by rw [hs]; exact List.mem_cons_of_mem _ hu)
  · intro u
    by_cases hu : u = c
    · subst hu; simp [hd]
    · simp [upd_other _ _ _ _ hu, h.co_dead u]
  · intro u
    by_cases hu : u = c
    · subst hu; simp [he]
    · simp [upd_other _ _ _ _ hu, h.co_err u]
  · intro u
    by_cases hu : u = c
    · subst hu; simp [ht]
    · simp [upd_other _ _ _ _ hu, h.co_tbc u]

end sim


section sim2
variable {s : SeqState} {sp : SpState}
open GoluaVerif.Model.CoSeq (step)

theorem R_create (h : R s sp) :
    R { s with n := s.n + 1, th := upd s.th s.n Thread.fresh }
      { sp with n := sp.n + 1, co := upd sp.co sp.n GoluaVerif.Spec.Co.Co.fresh } := by
  have hnot : s.n ∉ sp.stack := fun hm => Nat.lt_irrefl _ (h.lt _ hm)
  have hn := h.n_eq
  refine ⟨by simp [hn], h.head, (isChain_upd_notin _ hnot).2 h.chain, h.nodup, ?_, ?_, ?_, ?_, ?_, ?_⟩
  · intro u
    by_cases hu : u = s.n
    · subst hu; simp [hnot, Thread.fresh]
    · simp [hu, h.onstack u]
  · intro u hu
    by_cases hun : u = s.n
    · subst hun; simp [Thread.fresh]
    · simp [hun, h.offstack u hu]
  · intro u hu; exact Nat.lt_succ_of_lt (h.lt u hu)
  · intro u
    by_cases hu : u = s.n
    · subst hu; simp [← hn, Thread.fresh, GoluaVerif.Spec.Co.Co.fresh]
    · simp [← hn, hu, h.co_dead u]
  · intro u
    by_cases hu : u = s.n
    · subst hu; simp [← hn, Thread.fresh, GoluaVerif.Spec.Co.Co.fresh]
    · simp [← hn, hu, h.co_err u]
  · intro u
    by_cases hu : u = s.n
    · subst hu; simp [← hn, Thread.fresh, GoluaVerif.Spec.Co.Co.fresh]
    · simp [← hn, hu, h.co_tbc u]

theorem sim_end (h : R s sp) (e : Option Val) (m : Msg) {s' : SeqState} {ev : List Event}
    (hstep : endThread s e m = some (s', ev)) :
    ∃ r rest, sp.stack = s.cur :: r :: rest ∧
      ev = tbcEvents s.cur (sp.co s.cur).tbc e ++ [.deliver r m] ∧
      R s' { sp with stack := r :: rest, co := upd sp.co s.cur ⟨true, e, 0⟩ } := by
  obtain ⟨rest0, hs⟩ := h.stack_eq
  have hch := h.chain
  rw [hs] at hch
  cases rest0 with
  | nil =>
    have hc : (s.th s.cur).caller = none := hch.2
    simp [endThread, hc] at hstep
  | cons r rest =>
    have hc : (s.th s.cur).caller = some r := hch.1
    have hok := h.cur_ok
    have hr : (s.th r).status = .ok := (h.onstack r).1 (by rw [hs]; simp)
    simp [endThread, hc, hok, hr] at hstep
    obtain ⟨h1, h2⟩ := hstep
    refine ⟨r, rest, hs, ?_, ?_⟩
    · rw [← h2, h.co_tbc]
    · rw [← h1]
      exact R_pop h hs ⟨.dead, none, e, 0⟩ ⟨true, e, 0⟩ (by simp) rfl (by simp) rfl rfl

theorem R_settbc (h : R s sp) (n : Nat) :
    R { s with th := upd s.th s.cur { s.th s.cur with tbc := n } }
      { sp with co := upd sp.co s.cur { sp.co s.cur with tbc := n } } := by
  refine ⟨h.n_eq, h.head, ?_, h.nodup, ?_, ?_, h.lt, ?_, ?_, ?_⟩
  · refine (isChain_congr _ (fun a _ => ?_)).2 h.chain
    by_cases ha : a = s.cur
    · subst ha; simp
    · simp [ha]
  · intro u
    by_cases hu : u = s.cur
    · rw [hu]; simp [h.onstack s.cur]
    · simp [hu, h.onstack u]
  · intro u hu
    by_cases huc : u = s.cur
    · rw [huc] at hu ⊢; simp [h.offstack _ hu]
    · simp [huc, h.offstack u hu]
  · intro u
    by_cases hu : u = s.cur
    · rw [hu]; simp [h.co_dead s.cur]
    · simp [hu, h.co_dead u]
  · intro u
    by_cases hu : u = s.cur
    · rw [hu]; simp [h.co_err s.cur]
    · simp [hu, h.co_err u]
  · intro u
    by_cases hu : u = s.cur
    · rw [hu]; simp
    · simp [hu, h.co_tbc u]

theorem R_mark (h : R s sp) :
    R { s with th := upd s.th s.cur { s.th s.cur with tbc := (s.th s.cur).tbc + 1 } }
      { sp with co := upd sp.co s.cur { sp.co s.cur with tbc := (sp.co s.cur).tbc + 1 } } := by
  have := R_settbc h ((s.th s.cur).tbc + 1)
  rw [h.co_tbc s.cur]
  exact this

end sim2


section main
variable {s : SeqState} {sp : SpState}

/-- one-step simulation: whatever thread.go's model does, the Lua status machine does, with the
    same events (same receivers, same values, same order) -/
theorem sim (h : R s sp) (op : Op) {s' : SeqState} {ev : List Event}
    (hstep : GoluaVerif.Model.CoSeq.step s op = some (s', ev)) :
    (GoluaVerif.Spec.Co.step sp op).2 = ev ∧ R s' (GoluaVerif.Spec.Co.step sp op).1 := by
  have hcur := h.cur_eq
  have hok := h.cur_ok
  cases op with
  | create =>
    simp [GoluaVerif.Model.CoSeq.step] at hstep
    obtain ⟨h1, h2⟩ := hstep
    subst h1; subst h2
    exact ⟨by first | rfl | trivial, R_create h⟩
  | resume t vs =>
    by_cases hc : t < s.n ∧ (s.th t).status = .suspended
    · have hc' : t < sp.n ∧ sp.status t = .suspended := ⟨h.n_eq ▸ hc.1, (h.status_susp t).2 hc.2⟩
      simp [GoluaVerif.Model.CoSeq.step, hc, hok] at hstep
      obtain ⟨h1, h2⟩ := hstep
      subst h1; subst h2
      simp only [GoluaVerif.Spec.Co.step, hc', and_self, if_true]
      exact ⟨by first | rfl | trivial, R_push h hc.1 hc.2⟩
    · have hc' : ¬ (t < sp.n ∧ sp.status t = .suspended) := fun hh =>
        hc ⟨h.n_eq ▸ hh.1, (h.status_susp t).1 hh.2⟩
      simp only [GoluaVerif.Model.CoSeq.step, hc, if_false] at hstep
      simp at hstep
      obtain ⟨h1, h2⟩ := hstep
      subst h1; subst h2
      simp only [GoluaVerif.Spec.Co.step, hc', if_false, hcur]
      exact ⟨by first | rfl | trivial, h⟩
  | yield vs =>
    obtain ⟨rest0, hs⟩ := h.stack_eq
    have hch := h.chain
    rw [hs] at hch
    cases rest0 with
    | nil =>
      have hc : (s.th s.cur).caller = none := hch.2
      simp [GoluaVerif.Model.CoSeq.step, hc, hok] at hstep
      obtain ⟨h1, h2⟩ := hstep
      subst h1; subst h2
      simp only [GoluaVerif.Spec.Co.step, hs, hcur]
      exact ⟨by first | rfl | trivial, h⟩
    | cons r rest =>
      have hc : (s.th s.cur).caller = some r := hch.1
      have hr : (s.th r).status = .ok := (h.onstack r).1 (by rw [hs]; simp)
      simp [GoluaVerif.Model.CoSeq.step, hc, hok, hr] at hstep
      obtain ⟨h1, h2⟩ := hstep
      subst h1; subst h2
      simp only [GoluaVerif.Spec.Co.step, hs]
      refine ⟨by first | rfl | trivial, ?_⟩
      have := R_pop h hs { s.th s.cur with status := .suspended, caller := none } (sp.co s.cur)
        (by simp) rfl
        (by have hnd : ¬ (sp.co s.cur).dead = true := fun e => by
              have := (h.co_dead s.cur).1 e; simp [hok] at this
            simpa using hnd)
        (h.co_err _) (h.co_tbc _)
      have hself : upd sp.co s.cur (sp.co s.cur) = sp.co := by
        funext j; by_cases hj : j = s.cur
        · subst hj; simp
        · simp [hj]
      rw [hself] at this
      exact this
  | ret vs =>
    simp only [GoluaVerif.Model.CoSeq.step] at hstep
    obtain ⟨r, rest, hs, hev, hR⟩ := sim_end h none (.ok vs) hstep
    simp only [GoluaVerif.Spec.Co.step, hs, GoluaVerif.Spec.Co.finish]
    exact ⟨hev.symm, hR⟩
  | err v =>
    simp only [GoluaVerif.Model.CoSeq.step] at hstep
    obtain ⟨r, rest, hs, hev, hR⟩ := sim_end h (some v) (.fail v) hstep
    simp only [GoluaVerif.Spec.Co.step, hs, GoluaVerif.Spec.Co.finish]
    exact ⟨hev.symm, hR⟩
  | exc =>
    simp only [GoluaVerif.Model.CoSeq.step] at hstep
    obtain ⟨r, rest, hs, hev, hR⟩ := sim_end h none .exc hstep
    simp only [GoluaVerif.Spec.Co.step, hs, GoluaVerif.Spec.Co.finish]
    exact ⟨hev.symm, hR⟩
  | close t =>
    by_cases hc : t < s.n ∧ (s.th t).status = .suspended
    · have hc' : t < sp.n ∧ sp.status t = .suspended := ⟨h.n_eq ▸ hc.1, (h.status_susp t).2 hc.2⟩
      simp only [GoluaVerif.Model.CoSeq.step, hc, and_self, if_true] at hstep
      simp [hok] at hstep
      have hp := R_push h hc.1 hc.2
      obtain ⟨r, rest, hs, hev, hR⟩ := sim_end hp none (.closed none) hstep
      simp only [GoluaVerif.Spec.Co.step, hc', and_self, if_true]
      simp only [List.cons.injEq, true_and] at hs
      obtain ⟨rest0, hs0⟩ := h.stack_eq
      rw [hs0] at hs
      simp only [List.cons.injEq] at hs
      obtain ⟨hr, hrest⟩ := hs
      subst hr; subst hrest
      simp only [hcur]
      refine ⟨hev.symm, ?_⟩
      simp only [← hs0] at hR
      exact hR
    · have hc' : ¬ (t < sp.n ∧ sp.status t = .suspended) := fun hh =>
        hc ⟨h.n_eq ▸ hh.1, (h.status_susp t).1 hh.2⟩
      by_cases hd : t < s.n ∧ (s.th t).status = .dead
      · have hd' : t < sp.n ∧ sp.status t = .dead := ⟨h.n_eq ▸ hd.1, (h.status_dead t).2 hd.2⟩
        simp only [GoluaVerif.Model.CoSeq.step, hc, hd, and_self, if_true, if_false] at hstep
        simp at hstep
        obtain ⟨h1, h2⟩ := hstep
        subst h1; subst h2
        simp only [GoluaVerif.Spec.Co.step, hc', hd', and_self, if_true, if_false, hcur, h.co_err]
        exact ⟨by first | rfl | trivial, h⟩
      · have hd' : ¬ (t < sp.n ∧ sp.status t = .dead) := fun hh =>
          hd ⟨h.n_eq ▸ hh.1, (h.status_dead t).1 hh.2⟩
        simp only [GoluaVerif.Model.CoSeq.step, hc, hd, if_false] at hstep
        simp at hstep
        obtain ⟨h1, h2⟩ := hstep
        subst h1; subst h2
        simp only [GoluaVerif.Spec.Co.step, hc', hd', if_false, hcur]
        exact ⟨by first | rfl | trivial, h⟩
  | mark =>
    simp [GoluaVerif.Model.CoSeq.step] at hstep
    obtain ⟨h1, h2⟩ := hstep
    subst h1; subst h2
    simp only [GoluaVerif.Spec.Co.step, hcur]
    exact ⟨by first | rfl | trivial, R_mark h⟩
  | unmark e =>
    have htb := h.co_tbc s.cur
    by_cases hz : (s.th s.cur).tbc = 0
    · simp [GoluaVerif.Model.CoSeq.step, hz] at hstep
      obtain ⟨h1, h2⟩ := hstep
      subst h1; subst h2
      simp only [GoluaVerif.Spec.Co.step, hcur, htb, hz, if_true]
      exact ⟨by first | rfl | trivial, h⟩
    · simp [GoluaVerif.Model.CoSeq.step, hz] at hstep
      obtain ⟨h1, h2⟩ := hstep
      subst h1; subst h2
      simp only [GoluaVerif.Spec.Co.step, hcur, htb, hz, if_false]
      exact ⟨by first | rfl | trivial, R_settbc h _⟩

/-- thread.go's protocol panics ("Caller of thread to resume is not running", "Thread to yield
    is not running", "Called Thread.end on a non-running thread", …) cannot fire; the only
    undefined step is the main thread's body "ending", which `Start` never runs. -/
theorem no_panic (h : R s sp) (op : Op)
    (hstep : GoluaVerif.Model.CoSeq.step s op = none) :
    s.cur = 0 ∧ sp.stack = [0] ∧ (op = .exc ∨ (∃ vs, op = .ret vs) ∨ (∃ v, op = .err v)) := by
  have hok := h.cur_ok
  obtain ⟨rest0, hs⟩ := h.stack_eq
  have hch := h.chain
  rw [hs] at hch
  have hend : ∀ e m, endThread s e m = none → s.cur = 0 ∧ sp.stack = [0] := by
    intro e m hn
    cases rest0 with
    | nil => exact ⟨hch.1, by rw [hs, hch.1]⟩
    | cons r rest =>
      have hc : (s.th s.cur).caller = some r := hch.1
      have hr : (s.th r).status = .ok := (h.onstack r).1 (by rw [hs]; simp)
      simp [endThread, hc, hok, hr] at hn
  cases op with
  | create => simp [GoluaVerif.Model.CoSeq.step] at hstep
  | resume t vs =>
    simp only [GoluaVerif.Model.CoSeq.step] at hstep
    split at hstep
    · simp [hok] at hstep
    · simp at hstep
  | yield vs =>
    cases rest0 with
    | nil =>
      have hc : (s.th s.cur).caller = none := hch.2
      simp [GoluaVerif.Model.CoSeq.step, hc, hok] at hstep
    | cons r rest =>
      have hc : (s.th s.cur).caller = some r := hch.1
      have hr : (s.th r).status = .ok := (h.onstack r).1 (by rw [hs]; simp)
      simp [GoluaVerif.Model.CoSeq.step, hc, hok, hr] at hstep
  | ret vs => exact ⟨(hend _ _ hstep).1, (hend _ _ hstep).2, Or.inr (Or.inl ⟨vs, rfl⟩)⟩
  | err v => exact ⟨(hend _ _ hstep).1, (hend _ _ hstep).2, Or.inr (Or.inr ⟨v, rfl⟩)⟩
  | exc => exact ⟨(hend _ _ hstep).1, (hend _ _ hstep).2, Or.inl rfl⟩
  | close t =>
    simp only [GoluaVerif.Model.CoSeq.step] at hstep
    split at hstep
    · rename_i hc
      simp [hok] at hstep
      have hp := R_push h hc.1 hc.2
      have hcur0 : s.cur ≠ t := fun e => by
        have := hc.2; rw [← e, hok] at this; cases this
      simp [endThread, hok, hcur0] at hstep
    · split at hstep <;> simp at hstep
  | mark => simp [GoluaVerif.Model.CoSeq.step] at hstep
  | unmark e =>
    simp only [GoluaVerif.Model.CoSeq.step] at hstep
    split at hstep <;> simp at hstep

end main


/-- reachable by some history of coroutine operations from the initial state -/
def SeqReach (s : SeqState) : Prop := ∃ ops ev, GoluaVerif.Model.CoSeq.run GoluaVerif.Model.CoSeq.init ops = some (s, ev)

theorem run_refines {s : SeqState} {sp : SpState} (h : R s sp) :
    ∀ (ops : List Op) {s' : SeqState} {ev : List Event}, GoluaVerif.Model.CoSeq.run s ops = some (s', ev) →
      (GoluaVerif.Spec.Co.run sp ops).2 = ev ∧ R s' (GoluaVerif.Spec.Co.run sp ops).1 := by
  intro ops
  induction ops generalizing s sp with
  | nil =>
    intro s' ev hr
    simp [GoluaVerif.Model.CoSeq.run] at hr
    obtain ⟨h1, h2⟩ := hr; subst h1; subst h2; exact ⟨rfl, h⟩
  | cons op ops ih =>
    intro s' ev hr
    simp only [GoluaVerif.Model.CoSeq.run] at hr
    cases hs : GoluaVerif.Model.CoSeq.step s op with
    | none => simp [hs] at hr
    | some r1 =>
      obtain ⟨s1, e1⟩ := r1
      simp only [hs] at hr
      cases hr2 : GoluaVerif.Model.CoSeq.run s1 ops with
      | none => simp [hr2] at hr
      | some r2 =>
        obtain ⟨s2, e2⟩ := r2
        simp [hr2] at hr
        obtain ⟨h1, h2⟩ := hr
        subst h1; subst h2
        obtain ⟨he1, hR1⟩ := sim h op hs
        obtain ⟨he2, hR2⟩ := ih hR1 hr2
        simp only [GoluaVerif.Spec.Co.run]
        exact ⟨by rw [← he1, ← he2], hR2⟩

theorem reach_R {s : SeqState} (h : SeqReach s) : ∃ sp, R s sp := by
  obtain ⟨ops, ev, hr⟩ := h
  exact ⟨_, (run_refines R_init ops hr).2⟩

end GoluaVerif.Proofs.C09Seq
