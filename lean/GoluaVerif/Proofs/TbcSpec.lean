/-
  Proofs.TbcSpec — second half of C10 `compile_correct`: `dexec` (the close stack with dynamic
  heights, Proofs.TbcDyn) against the manual's big-step semantics Spec.Tbc.exec.

  The two differ in WHEN values are closed, never in which values, in which order, or with which
  error argument:
    * a jump (break/goto) truncates the close stack down to the target BEFORE jumping, the manual's
      semantics closes block by block while the exit propagates outwards;
    * an error closes NOTHING on its way up (the values stay on the stack until the pcall that
      catches it cleans up), the manual's semantics again closes block by block.
  `Rel` states, per exit kind, how far apart the two are; `closeAll_append` is what makes the
  difference vanish when the exit reaches its target.
-/
import GoluaVerif.Proofs.TbcDyn
namespace GoluaVerif.Proofs.Tbc
open GoluaVerif.Spec.Tbc GoluaVerif.Model.Tbc

/-! ### closeAll -/

theorem closeAll_append (h : Handlers) : ∀ (a b : List TV) (e : Option Err),
    closeAll h (a ++ b) e =
      ((closeAll h b (closeAll h a e).1).1, (closeAll h a e).2 ++ (closeAll h b (closeAll h a e).1).2) := by
  intro a
  induction a with
  | nil => intro b e; simp [closeAll]
  | cons v a ih =>
    intro b e
    cases v with
    | obj id =>
      simp only [List.cons_append, closeAll]
      rw [ih]
    | nilv => simp only [List.cons_append, closeAll]; exact ih b e
    | bad => simp only [List.cons_append, closeAll]; exact ih b e

theorem closeAll_some (h : Handlers) : ∀ (a : List TV) (e : Err), ∃ e', (closeAll h a (some e)).1 = some e' := by
  intro a
  induction a with
  | nil => intro e; exact ⟨e, rfl⟩
  | cons v a ih =>
    intro e
    cases v with
    | obj id =>
      simp only [closeAll]
      cases h id (some e) with
      | some x => exact ih x
      | none => exact ih e
    | nilv => exact ih e
    | bad => exact ih e

/-- cleanupCloseStack down to the size of `b` closes exactly `a` -/
theorem cleanup_closeAll (h : Handlers) (b : List TV) : ∀ (a : List TV) (e : Option Err),
    cleanup h (a ++ b) b.length e = ((closeAll h a e).1, b, (closeAll h a e).2) := by
  intro a
  induction a with
  | nil => intro e; rw [List.nil_append, cleanup_le h b _ e (Nat.le_refl _)]; rfl
  | cons v a ih =>
    intro e
    rw [List.cons_append, cleanup_cons_gt h v (a ++ b) b.length e (by simp; omega)]
    cases v with
    | obj id => simp only [closeAll, ih]; cases h id e <;> rfl
    | nilv => simp only [closeAll]; exact ih e
    | bad => simp only [closeAll]; exact ih e

/-- the PopContexts of a block (one value at a time, stopping at the first raise) against closeAll:
    either nothing raises, or the rest of the values stays on the stack and closing it later with the
    raised error gives the same calls -/
theorem closeDown_closeAll (h : Handlers) (b : List TV) : ∀ (a : List TV),
    ((closeAll h a none).1 = none ∧ closeDown h (a ++ b) b.length = (none, b, (closeAll h a none).2)) ∨
    (∃ e1 a2 l1, closeDown h (a ++ b) b.length = (some e1, a2 ++ b, l1) ∧
      (closeAll h a none).1 = (closeAll h a2 (some e1)).1 ∧
      (closeAll h a none).2 = l1 ++ (closeAll h a2 (some e1)).2) := by
  intro a
  induction a with
  | nil =>
    left
    refine ⟨rfl, ?_⟩
    cases b with
    | nil => rfl
    | cons x b => simp only [List.nil_append, closeDown, Nat.le_refl, if_true]; rfl
  | cons v a ih =>
    have hgt : ¬ (v :: (a ++ b)).length ≤ b.length := by simp; omega
    cases v with
    | obj id =>
      simp only [List.cons_append, closeDown, hgt, if_false, closeAll]
      cases hh : h id none with
      | some e =>
        right
        exact ⟨e, a, [Ev.close id none], rfl, rfl, rfl⟩
      | none =>
        simp only
        rcases ih with ⟨h1, h2⟩ | ⟨e1, a2, l1, h2, h3, h4⟩
        · left; exact ⟨h1, by rw [h2]⟩
        · right
          exact ⟨e1, a2, Ev.close id none :: l1, by rw [h2], h3, by rw [h4]; rfl⟩
    | nilv =>
      simp only [List.cons_append, closeDown, hgt, if_false, closeAll]
      exact ih
    | bad =>
      simp only [List.cons_append, closeDown, hgt, if_false, closeAll]
      exact ih

/-! ### the frame: enclosing blocks, their pending values, the stack they make up -/

/-- `outs`: for the current block and each enclosing one, innermost first: (is this block a loop body,
    pending values of the block around it).  The values pending in the current block are kept apart. -/
abbrev Outs := List (Bool × List TV)

def restOf (outs : Outs) : List TV := (outs.map (·.2)).flatten

theorem restOf_cons (k : Bool) (p : List TV) (outs : Outs) : restOf ((k, p) :: outs) = p ++ restOf outs := by
  simp [restOf]

theorem restOf_nil : restOf [] = [] := rfl

theorem restOf_take_drop (outs : Outs) (m : Nat) : restOf (outs.take m) ++ restOf (outs.drop m) = restOf outs := by
  induction outs generalizing m with
  | nil => simp [restOf]
  | cons b outs ih =>
    cases m with
    | zero => simp [restOf]
    | succ m =>
      obtain ⟨k, p⟩ := b
      simp only [List.take_succ_cons, List.drop_succ_cons, restOf_cons, List.append_assoc]
      rw [ih]

/-- stack sizes at the entry of the current block and of the enclosing ones -/
def envOf : Outs → (below : Nat) → Env
  | [], _ => []
  | (k, p) :: r, below => (k, (p ++ restOf r).length + below) :: envOf r below

def firstLoop : Outs → Option Nat
  | [] => none
  | (true, _) :: _ => some 0
  | (false, _) :: r => (firstLoop r).map (· + 1)

theorem firstLoop_lt {outs : Outs} {m : Nat} (h : firstLoop outs = some m) : m < outs.length := by
  induction outs generalizing m with
  | nil => simp [firstLoop] at h
  | cons b outs ih =>
    obtain ⟨k, p⟩ := b
    cases k with
    | true => simp only [firstLoop, Option.some.injEq] at h; subst h; simp
    | false =>
      simp only [firstLoop, Option.map_eq_some_iff] at h
      obtain ⟨m', hm', rfl⟩ := h
      have := ih hm'
      simp; omega

theorem firstLoop_some_of_any {outs : Outs} (h : outs.any (·.1) = true) : ∃ m, firstLoop outs = some m := by
  induction outs with
  | nil => simp at h
  | cons b outs ih =>
    obtain ⟨k, p⟩ := b
    cases k with
    | true => exact ⟨0, rfl⟩
    | false =>
      simp only [List.any_cons, Bool.false_or] at h
      obtain ⟨m, hm⟩ := ih h
      exact ⟨m + 1, by simp [firstLoop, hm]⟩

theorem brkHeight_envOf (outs : Outs) (below : Nat) :
    brkHeight (envOf outs below) = (firstLoop outs).map fun m => (restOf (outs.drop m)).length + below := by
  induction outs with
  | nil => rfl
  | cons b outs ih =>
    obtain ⟨k, p⟩ := b
    cases k with
    | true => simp [envOf, brkHeight, firstLoop, restOf_cons]
    | false =>
      simp only [envOf, brkHeight, firstLoop, ih]
      cases firstLoop outs <;> simp

theorem gotoHeight_envOf (outs : Outs) (below : Nat) (g : Nat) (hg : g < outs.length) :
    gotoHeight (envOf outs below) g = some ((restOf (outs.drop g)).length + below) := by
  induction outs generalizing g with
  | nil => simp at hg
  | cons b outs ih =>
    obtain ⟨k, p⟩ := b
    cases g with
    | zero => simp [envOf, gotoHeight, restOf_cons]
    | succ g =>
      simp only [envOf, gotoHeight, List.drop_succ_cons]
      exact ih g (by simpa using hg)

/-! ### the relation between the manual's result and the close-stack result, by exit kind -/

def isAbort : Exit → Bool
  | .err _ => true
  | .kill _ => true
  | _ => false

/-- the jump has been prepared: everything up to (and excluding) the `m`-th enclosing block is closed -/
def JumpRel (h : Handlers) (outs : Outs) (below : List TV) (m : Nat) (r : Res) (v : VRes) : Prop :=
  v = ⟨r.exit.withErr (closeAll h (r.pend ++ restOf (outs.take m)) none).1,
       restOf (outs.drop m) ++ below,
       r.log ++ (closeAll h (r.pend ++ restOf (outs.take m)) none).2⟩

/-- an error / a kill is under way: the manual's semantics and the close stack are at different points of
    the same sequence of closing calls; finishing both down to the frame boundary gives the same thing -/
def AbortRel (h : Handlers) (outs : Outs) (below : List TV) (r : Res) (v : VRes) : Prop :=
  ∃ RV, v.stack = RV ++ below ∧ isAbort v.exit = true ∧
    r.exit.withErr (closeAll h (r.pend ++ restOf outs) r.exit.errArg).1 =
      v.exit.withErr (closeAll h RV v.exit.errArg).1 ∧
    r.log ++ (closeAll h (r.pend ++ restOf outs) r.exit.errArg).2 =
      v.log ++ (closeAll h RV v.exit.errArg).2

def Rel (h : Handlers) (outs : Outs) (below : List TV) (r : Res) (v : VRes) : Prop :=
  match r.exit with
  | .normal => v = ⟨.normal, r.pend ++ restOf outs ++ below, r.log⟩
  | .brk => ∃ m, firstLoop outs = some m ∧ JumpRel h outs below m r v
  | .goto g => g < outs.length ∧ JumpRel h outs below g r v
  | .ret => v = ⟨Exit.ret.withErr (closeAll h (r.pend ++ restOf outs) none).1, below,
                 r.log ++ (closeAll h (r.pend ++ restOf outs) none).2⟩
  | .err _ => AbortRel h outs below r v
  | .kill _ => AbortRel h outs below r v

/-! ### leaving a block -/

theorem withErr_some_of_not_kill {x : Exit} (hx : ∀ s, x ≠ .kill s) (e : Err) : x.withErr (some e) = .err e := by
  cases x <;> first | rfl | exact absurd rfl (hx _)

theorem withErr_none_of_not_kill {x : Exit} (hx : ∀ s, x ≠ .kill s) : x.withErr none = x := by
  cases x <;> first | rfl | exact absurd rfl (hx _)

theorem err_withErr_closeAll (h : Handlers) (vs : List TV) (e e0 e1 : Err) :
    (Exit.err e0).withErr (closeAll h vs (some e)).1 = (Exit.err e1).withErr (closeAll h vs (some e)).1 := by
  obtain ⟨e', he⟩ := closeAll_some h vs e
  rw [he]; rfl

theorem endBlock_of_not_normal (h : Handlers) (v : VRes) (L : Nat) (hx : v.exit ≠ .normal) :
    endBlock h v L = v := by
  obtain ⟨x, stk, lg⟩ := v
  cases x <;> first | rfl | exact absurd rfl hx

/-- AbortRel when both sides carry the same error, the same log, and the stack holds exactly what the
    manual still has to close -/
theorem abortRel_same (h : Handlers) (outs : Outs) (below : List TV) (x : Exit) (hx : isAbort x = true)
    (pend : List TV) (l : List Ev) :
    AbortRel h outs below ⟨x, pend, l⟩ ⟨x, pend ++ restOf outs ++ below, l⟩ :=
  ⟨pend ++ restOf outs, rfl, hx, rfl, rfl⟩

/-- the result of the enclosing construct: what `block` / `loop` make of the body's result -/
def landsHere (k : Bool) : Exit → Bool
  | .normal => true
  | .goto 0 => true
  | .brk => k
  | _ => false

theorem withErr_ne_normal {x : Exit} (hn : x ≠ .normal) (s : Option Err) : x.withErr s ≠ .normal := by
  cases x <;> cases s <;> simp [Exit.withErr] at hn ⊢

/-- a jump that lands right after the block being left (m' = 0) -/
theorem jump_lands (h : Handlers) (k : Bool) (pend : List TV) (outs : Outs) (below : List TV)
    (x : Exit) (hxk : ∀ s, x ≠ .kill s) (hxn : x ≠ .normal) (hxe : x.errArg = none)
    (hland : landsHere k x = true) (pi : List TV) (li : List Ev) (vi : VRes)
    (hj : JumpRel h ((k, pend) :: outs) below 0 ⟨x, pi, li⟩ vi) :
    (landsHere k (closeBlock h ⟨x, pi, li⟩).1 = true →
      endBlock h vi (pend ++ restOf outs ++ below).length =
        ⟨(closeBlock h ⟨x, pi, li⟩).1, pend ++ restOf outs ++ below, (closeBlock h ⟨x, pi, li⟩).2⟩) ∧
    (landsHere k (closeBlock h ⟨x, pi, li⟩).1 = false →
      Rel h outs below ⟨(closeBlock h ⟨x, pi, li⟩).1.leaveBlock, pend, (closeBlock h ⟨x, pi, li⟩).2⟩
        ⟨(endBlock h vi (pend ++ restOf outs ++ below).length).exit.leaveBlock,
         (endBlock h vi (pend ++ restOf outs ++ below).length).stack,
         (endBlock h vi (pend ++ restOf outs ++ below).length).log⟩) := by
  unfold JumpRel at hj
  simp only [List.take_zero, restOf_nil, List.append_nil, List.drop_zero, restOf_cons] at hj
  subst hj
  rw [endBlock_of_not_normal h _ _ (withErr_ne_normal hxn _)]
  simp only [closeBlock, hxe]
  cases hs : (closeAll h pi none).1 with
  | none =>
    rw [withErr_none_of_not_kill hxk]
    exact ⟨fun _ => by first | rfl | trivial, fun hl => by rw [hland] at hl; cases hl⟩
  | some e =>
    rw [withErr_some_of_not_kill hxk]
    refine ⟨fun hl => by simp [landsHere] at hl, fun _ => ?_⟩
    exact abortRel_same h outs below (.err e) rfl pend _

/-- a jump that goes further out (m' = m + 1) -/
theorem jump_passes (h : Handlers) (k : Bool) (pend : List TV) (outs : Outs) (below : List TV)
    (x : Exit) (hxk : ∀ s, x ≠ .kill s) (hxn : x ≠ .normal) (hxe : x.errArg = none)
    (hxl : ∀ s, x.leaveBlock ≠ .kill s) (hxle : x.leaveBlock.errArg = none)
    (m : Nat) (pi : List TV) (li : List Ev) (vi : VRes)
    (hj : JumpRel h ((k, pend) :: outs) below (m + 1) ⟨x, pi, li⟩ vi) :
    ((closeAll h pi none).1 = none →
      JumpRel h outs below m ⟨x.leaveBlock, pend, li ++ (closeAll h pi none).2⟩
        ⟨vi.exit.leaveBlock, vi.stack, vi.log⟩) ∧
    (∀ e, (closeAll h pi none).1 = some e →
      AbortRel h outs below ⟨.err e, pend, li ++ (closeAll h pi none).2⟩
        ⟨vi.exit.leaveBlock, vi.stack, vi.log⟩) := by
  unfold JumpRel at hj
  simp only [List.take_succ_cons, List.drop_succ_cons, restOf_cons] at hj
  rw [closeAll_append h pi (pend ++ restOf (outs.take m)) none] at hj
  subst hj
  constructor
  · intro hs
    unfold JumpRel
    simp only [hs]
    cases hs1 : (closeAll h (pend ++ restOf (List.take m outs)) none).1 with
    | none =>
      rw [withErr_none_of_not_kill hxk, withErr_none_of_not_kill hxl]
      simp
    | some e1 =>
      rw [withErr_some_of_not_kill hxk, withErr_some_of_not_kill hxl]
      simp [Exit.leaveBlock]
  · intro e hs
    simp only [hs]
    obtain ⟨e1, he1⟩ := closeAll_some h (pend ++ restOf (List.take m outs)) e
    rw [he1, withErr_some_of_not_kill hxk]
    refine ⟨restOf (outs.drop m), rfl, rfl, ?_, ?_⟩
    · simp only [Exit.errArg, Exit.leaveBlock]
      have : pend ++ restOf outs = (pend ++ restOf (outs.take m)) ++ restOf (outs.drop m) := by
        rw [List.append_assoc, restOf_take_drop]
      rw [this, closeAll_append, he1]
      exact err_withErr_closeAll h _ e1 e e1
    · simp only [Exit.errArg, Exit.leaveBlock]
      have : pend ++ restOf outs = (pend ++ restOf (outs.take m)) ++ restOf (outs.drop m) := by
        rw [List.append_assoc, restOf_take_drop]
      rw [this, closeAll_append, he1]
      simp

theorem abort_withErr (h : Handlers) (x : Exit) (hx : isAbort x = true) (vs ws : List TV) :
    (x.withErr (closeAll h vs x.errArg).1).errArg = (closeAll h vs x.errArg).1 ∧
    (x.withErr (closeAll h vs x.errArg).1).withErr (closeAll h ws (closeAll h vs x.errArg).1).1 =
      x.withErr (closeAll h ws (closeAll h vs x.errArg).1).1 ∧
    isAbort (x.withErr (closeAll h vs x.errArg).1) = true ∧
    (x.withErr (closeAll h vs x.errArg).1).leaveBlock = x.withErr (closeAll h vs x.errArg).1 := by
  cases x with
  | err e0 =>
    simp only [Exit.errArg]
    obtain ⟨e1, he1⟩ := closeAll_some h vs e0
    rw [he1]
    obtain ⟨e2, he2⟩ := closeAll_some h ws e1
    rw [he2]
    exact ⟨rfl, rfl, rfl, rfl⟩
  | kill s => exact ⟨rfl, rfl, rfl, rfl⟩
  | normal => simp [isAbort] at hx
  | brk => simp [isAbort] at hx
  | goto g => simp [isAbort] at hx
  | ret => simp [isAbort] at hx

theorem abort_step (h : Handlers) (k : Bool) (pend : List TV) (outs : Outs) (below : List TV)
    (x : Exit) (hx : isAbort x = true) (pi : List TV) (li : List Ev) (vi : VRes)
    (hrel : AbortRel h ((k, pend) :: outs) below ⟨x, pi, li⟩ vi) :
    AbortRel h outs below ⟨(closeBlock h ⟨x, pi, li⟩).1, pend, (closeBlock h ⟨x, pi, li⟩).2⟩ vi := by
  obtain ⟨RV, hst, hab, e1, e2⟩ := hrel
  simp only [restOf_cons] at e1 e2
  rw [closeAll_append h pi (pend ++ restOf outs)] at e1 e2
  obtain ⟨a1, a2, a3, _⟩ := abort_withErr h x hx pi (pend ++ restOf outs)
  refine ⟨RV, hst, hab, ?_, ?_⟩
  · simp only [closeBlock]
    rw [a1, a2]
    exact e1
  · simp only [closeBlock]
    rw [a1, ← e2]
    simp

theorem leaveBlock_of_abort {x : Exit} (hx : isAbort x = true) : x.leaveBlock = x := by
  cases x <;> first | rfl | simp [isAbort] at hx

theorem ne_normal_of_abort {x : Exit} (hx : isAbort x = true) : x ≠ .normal := by
  cases x <;> simp [isAbort] at hx ⊢

theorem block_step (h : Handlers) (k : Bool) (pend : List TV) (outs : Outs) (below : List TV)
    (ri : Res) (vi : VRes) (hrel : Rel h ((k, pend) :: outs) below ri vi) :
    (landsHere k (closeBlock h ri).1 = true →
      endBlock h vi (pend ++ restOf outs ++ below).length =
        ⟨(closeBlock h ri).1, pend ++ restOf outs ++ below, (closeBlock h ri).2⟩) ∧
    (landsHere k (closeBlock h ri).1 = false →
      Rel h outs below ⟨(closeBlock h ri).1.leaveBlock, pend, (closeBlock h ri).2⟩
        ⟨(endBlock h vi (pend ++ restOf outs ++ below).length).exit.leaveBlock,
         (endBlock h vi (pend ++ restOf outs ++ below).length).stack,
         (endBlock h vi (pend ++ restOf outs ++ below).length).log⟩) := by
  obtain ⟨xi, pi, li⟩ := ri
  have hb : restOf ((k, pend) :: outs) ++ below = pend ++ restOf outs ++ below := by rw [restOf_cons]
  cases xi with
  | normal =>
    simp only [Rel] at hrel
    subst hrel
    have hvs : pi ++ restOf ((k, pend) :: outs) ++ below = pi ++ (pend ++ restOf outs ++ below) := by
      rw [List.append_assoc, hb]
    simp only [closeBlock, Exit.errArg, endBlock, hvs]
    rcases closeDown_closeAll h (pend ++ restOf outs ++ below) pi with ⟨h1, h2⟩ | ⟨e1, a2, l1, h2, h3, h4⟩
    · rw [h2, h1]
      exact ⟨fun _ => rfl, fun hl => by simp [landsHere, Exit.withErr] at hl⟩
    · obtain ⟨e, he⟩ := closeAll_some h a2 e1
      rw [h2, h3, he, h4]
      refine ⟨fun hl => by simp [landsHere, Exit.withErr] at hl, fun _ => ?_⟩
      simp only [normal_withErr_some, Exit.leaveBlock, Rel]
      refine ⟨a2 ++ (pend ++ restOf outs), by simp, rfl, ?_, ?_⟩
      · simp only [Exit.errArg]
        rw [closeAll_append h a2 (pend ++ restOf outs) (some e1), he]
        exact err_withErr_closeAll h _ e e e1
      · simp only [Exit.errArg]
        rw [closeAll_append h a2 (pend ++ restOf outs) (some e1), he]
        simp
  | brk =>
    simp only [Rel] at hrel
    obtain ⟨m', hfl, hj⟩ := hrel
    cases k with
    | true =>
      simp only [firstLoop, Option.some.injEq] at hfl
      subst hfl
      exact jump_lands h true pend outs below .brk (fun s => by intro hh; cases hh) (by intro hh; cases hh) rfl rfl
        pi li vi hj
    | false =>
      simp only [firstLoop, Option.map_eq_some_iff] at hfl
      obtain ⟨m, hm, rfl⟩ := hfl
      have hne : vi.exit ≠ .normal := by
        unfold JumpRel at hj; rw [hj]; exact withErr_ne_normal (by intro hh; cases hh) _
      obtain ⟨j1, j2⟩ := jump_passes h false pend outs below .brk (fun s => by intro hh; cases hh)
        (by intro hh; cases hh) rfl (fun s => by intro hh; cases hh) rfl m pi li vi hj
      rw [endBlock_of_not_normal h vi _ hne]
      simp only [closeBlock, Exit.errArg]
      cases hs : (closeAll h pi none).1 with
      | none =>
        refine ⟨fun hl => by simp [landsHere, Exit.withErr] at hl, fun _ => ?_⟩
        simp only [Exit.withErr, Exit.leaveBlock, Rel]
        exact ⟨m, hm, j1 hs⟩
      | some e =>
        refine ⟨fun hl => by simp [landsHere, Exit.withErr] at hl, fun _ => ?_⟩
        simp only [Exit.withErr, Exit.leaveBlock, Rel]
        exact j2 e hs
  | goto g' =>
    simp only [Rel] at hrel
    obtain ⟨hlt, hj⟩ := hrel
    cases g' with
    | zero =>
      exact jump_lands h k pend outs below (.goto 0) (fun s => by intro hh; cases hh) (by intro hh; cases hh) rfl rfl
        pi li vi hj
    | succ g =>
      have hne : vi.exit ≠ .normal := by
        unfold JumpRel at hj; rw [hj]; exact withErr_ne_normal (by intro hh; cases hh) _
      obtain ⟨j1, j2⟩ := jump_passes h k pend outs below (.goto (g + 1)) (fun s => by intro hh; cases hh)
        (by intro hh; cases hh) rfl (fun s => by intro hh; cases hh) rfl g pi li vi hj
      rw [endBlock_of_not_normal h vi _ hne]
      simp only [closeBlock, Exit.errArg]
      cases hs : (closeAll h pi none).1 with
      | none =>
        refine ⟨fun hl => by simp [landsHere, Exit.withErr] at hl, fun _ => ?_⟩
        simp only [Exit.withErr, Exit.leaveBlock, Rel]
        exact ⟨by simpa using hlt, j1 hs⟩
      | some e =>
        refine ⟨fun hl => by simp [landsHere, Exit.withErr] at hl, fun _ => ?_⟩
        simp only [Exit.withErr, Exit.leaveBlock, Rel]
        exact j2 e hs
  | ret =>
    simp only [Rel] at hrel
    subst hrel
    simp only [restOf_cons]
    rw [closeAll_append h pi (pend ++ restOf outs) none]
    rw [endBlock_of_not_normal h _ _ (withErr_ne_normal (by intro hh; cases hh) _)]
    simp only [closeBlock, Exit.errArg]
    cases hs : (closeAll h pi none).1 with
    | none =>
      refine ⟨fun hl => by simp [landsHere, Exit.withErr] at hl, fun _ => ?_⟩
      simp only [Exit.withErr, Exit.leaveBlock, Rel]
      cases (closeAll h (pend ++ restOf outs) none).1 <;> simp [Exit.leaveBlock]
    | some e =>
      refine ⟨fun hl => by simp [landsHere, Exit.withErr] at hl, fun _ => ?_⟩
      obtain ⟨e1, he1⟩ := closeAll_some h (pend ++ restOf outs) e
      simp only [Exit.withErr, Exit.leaveBlock, Rel, he1]
      refine ⟨[], rfl, rfl, ?_, ?_⟩
      · simp [Exit.errArg, closeAll, he1, Exit.withErr]
      · simp [Exit.errArg, closeAll]
  | err e =>
    simp only [Rel] at hrel
    have hx : isAbort (Exit.err e) = true := rfl
    have h1 := abort_step h k pend outs below (.err e) hx pi li vi hrel
    obtain ⟨RV, hst, hab, _, _⟩ := hrel
    obtain ⟨_, _, a3, a4⟩ := abort_withErr h (.err e) hx pi []
    rw [endBlock_of_not_normal h vi _ (ne_normal_of_abort hab)]
    have hc : (closeBlock h ⟨.err e, pi, li⟩).1 = (Exit.err e).withErr (closeAll h pi (Exit.err e).errArg).1 := rfl
    refine ⟨fun hl => ?_, fun _ => ?_⟩
    · rw [hc] at hl
      generalize (Exit.err e).withErr (closeAll h pi (Exit.err e).errArg).1 = y at a3 hl
      cases y <;> simp [isAbort, landsHere] at a3 hl
    · rw [leaveBlock_of_abort hab]
      rw [hc, a4]
      rw [hc] at h1
      generalize (Exit.err e).withErr (closeAll h pi (Exit.err e).errArg).1 = y at a3 h1 ⊢
      cases y <;> first | exact h1 | simp [isAbort] at a3
  | kill e =>
    simp only [Rel] at hrel
    have hx : isAbort (Exit.kill e) = true := rfl
    have h1 := abort_step h k pend outs below (.kill e) hx pi li vi hrel
    obtain ⟨RV, hst, hab, _, _⟩ := hrel
    obtain ⟨_, _, a3, a4⟩ := abort_withErr h (.kill e) hx pi []
    rw [endBlock_of_not_normal h vi _ (ne_normal_of_abort hab)]
    have hc : (closeBlock h ⟨.kill e, pi, li⟩).1 = (Exit.kill e).withErr (closeAll h pi (Exit.kill e).errArg).1 := rfl
    refine ⟨fun hl => ?_, fun _ => ?_⟩
    · rw [hc] at hl
      generalize (Exit.kill e).withErr (closeAll h pi (Exit.kill e).errArg).1 = y at a3 hl
      cases y <;> simp [isAbort, landsHere] at a3 hl
    · rw [leaveBlock_of_abort hab]
      rw [hc, a4]
      rw [hc] at h1
      generalize (Exit.kill e).withErr (closeAll h pi (Exit.kill e).errArg).1 = y at a3 h1 ⊢
      cases y <;> first | exact h1 | simp [isAbort] at a3

/-! ### exits of the manual's semantics stay in range / are never a kill without a yield -/

theorem loopIter_exitOK (body : Exit × List Ev) (d : Nat) (l : Bool) (hb : ExitOK body.1 (d + 1) true) :
    ∀ n, ExitOK (loopIter body n).1 d l := by
  intro n
  induction n with
  | zero => trivial
  | succ n ih =>
    obtain ⟨x, lg⟩ := body
    cases x with
    | normal => exact ih
    | brk => trivial
    | goto k =>
      cases k with
      | zero => trivial
      | succ k => simp only [loopIter, Exit.leaveBlock, ExitOK] at hb ⊢; omega
    | ret => trivial
    | err e => trivial
    | kill e => trivial

theorem withErr_exitOK (x : Exit) (s : Option Err) (d : Nat) (l : Bool) (hx : ExitOK x d l) :
    ExitOK (x.withErr s) d l := by
  cases x <;> cases s <;> first | exact hx | trivial

theorem exec_exitOK (h : Handlers) (kill : Bool) : ∀ (p : Prog) (d : Nat) (l : Bool) (pend : List TV),
    wf p d l = true → ExitOK (exec h kill p pend).exit d l := by
  intro p
  induction p with
  | skip => intros; trivial
  | mark n => intros; trivial
  | err e => intros; trivial
  | ret => intros; trivial
  | yield => intro d l pend _; simp only [exec]; cases kill <;> trivial
  | tbc v => intro d l pend _; cases v <;> trivial
  | brk => intro d l pend hw; simpa [wf, exec, ExitOK] using hw
  | gotoOut g => intro d l pend hw; simpa [wf, exec, ExitOK] using hw
  | seq a b iha ihb =>
    intro d l pend hw
    simp only [wf, Bool.and_eq_true] at hw
    have ha := iha d l pend hw.1
    simp only [exec]
    cases hx : (exec h kill a pend).exit with
    | normal => exact ihb d l _ hw.2
    | brk => simp only; rw [hx]; rw [hx] at ha; exact ha
    | goto k => simp only; rw [hx]; rw [hx] at ha; exact ha
    | ret => simp only; rw [hx]; trivial
    | err e => simp only; rw [hx]; trivial
    | kill e => simp only; rw [hx]; trivial
  | block p ih =>
    intro d l pend hw
    simp only [wf] at hw
    have h1 := withErr_exitOK _ (closeAll h (exec h kill p []).pend (exec h kill p []).exit.errArg).1 _ _
      (ih (d + 1) l [] hw)
    simp only [exec, closeBlock]
    generalize (exec h kill p []).exit.withErr _ = y at h1 ⊢
    cases y with
    | goto k =>
      cases k with
      | zero => trivial
      | succ k => simp only [Exit.leaveBlock, ExitOK] at h1 ⊢; omega
    | brk => exact h1
    | normal => trivial
    | ret => trivial
    | err e => trivial
    | kill e => trivial
  | loop n p ih =>
    intro d l pend hw
    simp only [wf] at hw
    simp only [exec]
    apply loopIter_exitOK
    exact withErr_exitOK _ _ _ _ (ih (d + 1) true [] hw)
  | pcall p ih =>
    intro d l pend _
    simp only [exec]
    generalize (closeBlock h (exec h kill p [])).1 = y
    cases y <;> trivial
  | call p ih =>
    intro d l pend _
    simp only [exec]
    generalize (closeBlock h (exec h kill p [])).1 = y
    cases y <;> trivial
  | retCall p ih =>
    intro d l pend _
    simp only [exec]
    generalize (closeBlock h (exec h kill p [])).1 = y
    cases y <;> trivial

def notKill (x : Exit) : Prop := ∀ s, x ≠ .kill s

theorem withErr_notKill {x : Exit} (hx : notKill x) (s : Option Err) : notKill (x.withErr s) := by
  intro s'
  cases x with
  | kill e => exact absurd rfl (hx e)
  | normal => cases s <;> (intro hh; cases hh)
  | brk => cases s <;> (intro hh; cases hh)
  | goto g => cases s <;> (intro hh; cases hh)
  | ret => cases s <;> (intro hh; cases hh)
  | err e => cases s <;> (intro hh; cases hh)

theorem loopIter_notKill (body : Exit × List Ev) (hb : notKill body.1) : ∀ n, notKill (loopIter body n).1 := by
  intro n
  induction n with
  | zero => intro s hh; cases hh
  | succ n ih =>
    obtain ⟨x, lg⟩ := body
    cases x with
    | normal => exact ih
    | brk => intro s hh; cases hh
    | goto k => intro s hh; cases k <;> cases hh
    | ret => intro s hh; cases hh
    | err e => intro s hh; cases hh
    | kill e => exact absurd rfl (hb e)

theorem exec_notKill (h : Handlers) (kill : Bool) : ∀ (p : Prog) (pend : List TV),
    (kill = false ∨ noYield p = true) → notKill (exec h kill p pend).exit := by
  intro p
  induction p with
  | skip => intro _ _ s hh; cases hh
  | mark n => intro _ _ s hh; cases hh
  | err e => intro _ _ s hh; cases hh
  | ret => intro _ _ s hh; cases hh
  | brk => intro _ _ s hh; cases hh
  | gotoOut g => intro _ _ s hh; cases hh
  | tbc v => intro _ _ s hh; cases v <;> cases hh
  | yield =>
    intro pend hk s hh
    rcases hk with hk | hk
    · subst hk; cases hh
    · simp [noYield] at hk
  | seq a b iha ihb =>
    intro pend hk
    have hka : kill = false ∨ noYield a = true := by
      rcases hk with hk | hk
      · exact Or.inl hk
      · simp only [noYield, Bool.and_eq_true] at hk; exact Or.inr hk.1
    have hkb : kill = false ∨ noYield b = true := by
      rcases hk with hk | hk
      · exact Or.inl hk
      · simp only [noYield, Bool.and_eq_true] at hk; exact Or.inr hk.2
    have ha := iha pend hka
    simp only [exec]
    cases hx : (exec h kill a pend).exit with
    | normal => exact ihb _ hkb
    | brk => simp only; rw [hx]; intro s hh; cases hh
    | goto k => simp only; rw [hx]; intro s hh; cases hh
    | ret => simp only; rw [hx]; intro s hh; cases hh
    | err e => simp only; rw [hx]; intro s hh; cases hh
    | kill e => exact absurd hx (ha e)
  | block p ih =>
    intro pend hk
    have h1 := withErr_notKill (ih [] (by simpa [noYield] using hk))
      (closeAll h (exec h kill p []).pend (exec h kill p []).exit.errArg).1
    simp only [exec, closeBlock]
    generalize (exec h kill p []).exit.withErr _ = y at h1 ⊢
    cases y with
    | kill e => exact absurd rfl (h1 e)
    | goto k => intro s hh; cases k <;> cases hh
    | normal => intro s hh; cases hh
    | brk => intro s hh; cases hh
    | ret => intro s hh; cases hh
    | err e => intro s hh; cases hh
  | loop n p ih =>
    intro pend hk
    simp only [exec]
    apply loopIter_notKill
    exact withErr_notKill (ih [] (by simpa [noYield] using hk)) _
  | pcall p ih =>
    intro pend hk
    have h1 := withErr_notKill (ih [] (by simpa [noYield] using hk))
      (closeAll h (exec h kill p []).pend (exec h kill p []).exit.errArg).1
    simp only [exec, closeBlock]
    generalize (exec h kill p []).exit.withErr _ = y at h1 ⊢
    cases y with
    | kill e => exact absurd rfl (h1 e)
    | normal => intro s hh; cases hh
    | brk => intro s hh; cases hh
    | goto k => intro s hh; cases hh
    | ret => intro s hh; cases hh
    | err e => intro s hh; cases hh
  | call p ih =>
    intro pend hk
    have h1 := withErr_notKill (ih [] (by simpa [noYield] using hk))
      (closeAll h (exec h kill p []).pend (exec h kill p []).exit.errArg).1
    simp only [exec, closeBlock]
    generalize (exec h kill p []).exit.withErr _ = y at h1 ⊢
    cases y with
    | kill e => exact absurd rfl (h1 e)
    | normal => intro s hh; cases hh
    | brk => intro s hh; cases hh
    | goto k => intro s hh; cases hh
    | ret => intro s hh; cases hh
    | err e => intro s hh; cases hh
  | retCall p ih =>
    intro pend hk
    have h1 := withErr_notKill (ih [] (by simpa [noYield] using hk))
      (closeAll h (exec h kill p []).pend (exec h kill p []).exit.errArg).1
    simp only [exec, closeBlock]
    generalize (exec h kill p []).exit.withErr _ = y at h1 ⊢
    cases y with
    | kill e => exact absurd rfl (h1 e)
    | normal => intro s hh; cases hh
    | brk => intro s hh; cases hh
    | goto k => intro s hh; cases hh
    | ret => intro s hh; cases hh
    | err e => intro s hh; cases hh

/-! ### sequencing, loops, function boundaries -/

theorem rel_prefix (h : Handlers) (outs : Outs) (below : List TV) (la : List Ev) (x : Exit) (pend : List TV)
    (lb : List Ev) (xv : Exit) (sv : List TV) (lvb : List Ev)
    (hr : Rel h outs below ⟨x, pend, lb⟩ ⟨xv, sv, lvb⟩) :
    Rel h outs below ⟨x, pend, la ++ lb⟩ ⟨xv, sv, la ++ lvb⟩ := by
  have habort : AbortRel h outs below ⟨x, pend, lb⟩ ⟨xv, sv, lvb⟩ →
      AbortRel h outs below ⟨x, pend, la ++ lb⟩ ⟨xv, sv, la ++ lvb⟩ := by
    intro ⟨RV, h1, h2, h3, h4⟩
    refine ⟨RV, h1, h2, h3, ?_⟩
    simp only at h4 ⊢
    rw [List.append_assoc, h4, List.append_assoc]
  have hjump : ∀ m, JumpRel h outs below m ⟨x, pend, lb⟩ ⟨xv, sv, lvb⟩ →
      JumpRel h outs below m ⟨x, pend, la ++ lb⟩ ⟨xv, sv, la ++ lvb⟩ := by
    intro m hj
    unfold JumpRel at hj ⊢
    simp only [VRes.mk.injEq] at hj ⊢
    obtain ⟨h1, h2, h3⟩ := hj
    exact ⟨h1, h2, by rw [h3, List.append_assoc]⟩
  cases x with
  | normal =>
    simp only [Rel, VRes.mk.injEq] at hr ⊢
    exact ⟨hr.1, hr.2.1, by rw [hr.2.2]⟩
  | brk =>
    simp only [Rel] at hr ⊢
    obtain ⟨m, h1, h2⟩ := hr
    exact ⟨m, h1, hjump m h2⟩
  | goto g =>
    simp only [Rel] at hr ⊢
    exact ⟨hr.1, hjump g hr.2⟩
  | ret =>
    simp only [Rel, VRes.mk.injEq] at hr ⊢
    exact ⟨hr.1, hr.2.1, by rw [hr.2.2, List.append_assoc]⟩
  | err e => exact habort hr
  | kill e => exact habort hr

theorem rel_exit_ne (h : Handlers) (outs : Outs) (below : List TV) (r : Res) (v : VRes)
    (hr : Rel h outs below r v) (hn : r.exit ≠ .normal) :
    v.exit ≠ .normal ∧ (r.exit ≠ .brk → v.exit ≠ .brk) := by
  obtain ⟨x, pend, l⟩ := r
  cases x with
  | normal => exact absurd rfl hn
  | brk =>
    simp only [Rel, JumpRel] at hr
    obtain ⟨m, _, hv⟩ := hr
    rw [hv]
    exact ⟨withErr_ne_normal (by intro hh; cases hh) _, fun hh => absurd rfl hh⟩
  | goto g =>
    simp only [Rel, JumpRel] at hr
    rw [hr.2]
    refine ⟨withErr_ne_normal (by intro hh; cases hh) _, fun _ => ?_⟩
    simp only
    cases (closeAll h (pend ++ restOf (List.take g outs)) none).1 <;> (intro hh; cases hh)
  | ret =>
    simp only [Rel] at hr
    rw [hr]
    refine ⟨withErr_ne_normal (by intro hh; cases hh) _, fun _ => ?_⟩
    simp only
    cases (closeAll h (pend ++ restOf outs) none).1 <;> (intro hh; cases hh)
  | err e =>
    simp only [Rel] at hr
    obtain ⟨RV, _, hab, _, _⟩ := hr
    generalize v.exit = y at hab
    cases y <;> simp [isAbort] at hab ⊢
  | kill e =>
    simp only [Rel] at hr
    obtain ⟨RV, _, hab, _, _⟩ := hr
    generalize v.exit = y at hab
    cases y <;> simp [isAbort] at hab ⊢

theorem landsHere_false_cases {x : Exit} (hl : landsHere true x = false) :
    x ≠ .normal ∧ x ≠ .brk ∧ x ≠ .goto 0 := by
  cases x with
  | goto g => cases g <;> simp [landsHere] at hl ⊢
  | normal => simp [landsHere] at hl
  | brk => simp [landsHere] at hl
  | ret => simp
  | err e => simp
  | kill e => simp

theorem vloop_succ_other (g : List TV → VRes) (n : Nat) (st : List TV)
    (h1 : (g st).exit ≠ .normal) (h2 : (g st).exit ≠ .brk) :
    vloop g (n + 1) st = ⟨(g st).exit.leaveBlock, (g st).stack, (g st).log⟩ := by
  generalize hgv : g st = gv at h1 h2
  obtain ⟨y, sy, ly⟩ := gv
  cases y with
  | normal => exact absurd rfl h1
  | brk => exact absurd rfl h2
  | goto k => simp only [vloop, hgv]
  | ret => simp only [vloop, hgv]
  | err e => simp only [vloop, hgv]
  | kill e => simp only [vloop, hgv]

/-- iterating a loop body whose every iteration starts from the same stack -/
theorem loop_rel (h : Handlers) (pend : List TV) (outs : Outs) (below : List TV)
    (c : Exit × List Ev) (g : List TV → VRes)
    (H1 : landsHere true c.1 = true →
      g (pend ++ restOf outs ++ below) = ⟨c.1, pend ++ restOf outs ++ below, c.2⟩)
    (H2 : landsHere true c.1 = false →
      Rel h outs below ⟨c.1.leaveBlock, pend, c.2⟩
        ⟨(g (pend ++ restOf outs ++ below)).exit.leaveBlock, (g (pend ++ restOf outs ++ below)).stack,
         (g (pend ++ restOf outs ++ below)).log⟩) :
    ∀ n, Rel h outs below ⟨(loopIter c n).1, pend, (loopIter c n).2⟩ (vloop g n (pend ++ restOf outs ++ below)) := by
  intro n
  induction n with
  | zero => simp only [loopIter, vloop, Rel]
  | succ n ih =>
    obtain ⟨x, lg⟩ := c
    cases hl : landsHere true x with
    | true =>
      have hg := H1 hl
      simp only at hg
      cases x with
      | normal =>
        simp only [loopIter, vloop, hg]
        exact rel_prefix h outs below lg _ pend _ _ _ _ ih
      | brk => simp only [loopIter, vloop, hg, Rel]
      | goto k =>
        cases k with
        | zero => simp only [loopIter, vloop, hg, Rel, Exit.leaveBlock]
        | succ k => simp [landsHere] at hl
      | ret => simp [landsHere] at hl
      | err e => simp [landsHere] at hl
      | kill e => simp [landsHere] at hl
    | false =>
      have hr := H2 hl
      simp only at hr
      obtain ⟨hx1, hx2, hx3⟩ := landsHere_false_cases hl
      have hlb : x.leaveBlock ≠ .normal := by
        cases x with
        | goto k => cases k <;> simp [Exit.leaveBlock] at hx3 ⊢
        | normal => exact absurd rfl hx1
        | brk => exact absurd rfl hx2
        | ret => simp [Exit.leaveBlock]
        | err e => simp [Exit.leaveBlock]
        | kill e => simp [Exit.leaveBlock]
      have hlb2 : x.leaveBlock ≠ .brk := by
        cases x with
        | goto k => cases k <;> simp [Exit.leaveBlock]
        | normal => exact absurd rfl hx1
        | brk => exact absurd rfl hx2
        | ret => simp [Exit.leaveBlock]
        | err e => simp [Exit.leaveBlock]
        | kill e => simp [Exit.leaveBlock]
      obtain ⟨hv1, hv2⟩ := rel_exit_ne h outs below _ _ hr hlb
      have hv2 := hv2 hlb2
      simp only at hv1 hv2
      have hit : loopIter (x, lg) (n + 1) = (x.leaveBlock, lg) := by
        cases x with
        | normal => exact absurd rfl hx1
        | brk => exact absurd rfl hx2
        | goto k => rfl
        | ret => rfl
        | err e => rfl
        | kill e => rfl
      rw [hit]
      have hg1 : (g (pend ++ restOf outs ++ below)).exit ≠ .normal := by
        intro hh; rw [hh] at hv1; exact hv1 rfl
      have hg2 : (g (pend ++ restOf outs ++ below)).exit ≠ .brk := by
        intro hh; rw [hh] at hv2; exact hv2 rfl
      rw [vloop_succ_other g n _ hg1 hg2]
      exact hr

theorem endFn_of_not_normal (h : Handlers) (v : VRes) (L : Nat) (hx : v.exit ≠ .normal) :
    endFn h v L = v := by
  obtain ⟨x, stk, lg⟩ := v
  cases x <;> first | rfl | exact absurd rfl hx

/-- the end of a function body (forced return) against the function-level closeBlock of the manual -/
theorem fn_step (h : Handlers) (st : List TV) (ri : Res) (vi : VRes)
    (hrel : Rel h [] st ri vi) (hok : ExitOK ri.exit 0 false) :
    (isAbort ri.exit = false →
      ∃ y, endFn h vi st.length = ⟨y, st, (closeBlock h ri).2⟩ ∧
        ((y = .ret ∧ ((closeBlock h ri).1 = .normal ∨ (closeBlock h ri).1 = .ret)) ∨
         (∃ e, y = .err e ∧ (closeBlock h ri).1 = .err e))) ∧
    (isAbort ri.exit = true → endFn h vi st.length = vi ∧ AbortRel h [] st ri vi) := by
  obtain ⟨x, pi, li⟩ := ri
  cases x with
  | normal =>
    simp only [Rel, restOf_nil, List.append_nil] at hrel
    subst hrel
    refine ⟨fun _ => ?_, fun hh => by simp [isAbort] at hh⟩
    simp only [endFn, closeBlock, Exit.errArg]
    rw [cleanup_closeAll h st pi none]
    cases hs : (closeAll h pi none).1 with
    | none => exact ⟨.ret, rfl, Or.inl ⟨rfl, Or.inl rfl⟩⟩
    | some e => exact ⟨.err e, rfl, Or.inr ⟨e, rfl, rfl⟩⟩
  | brk => simp [ExitOK] at hok
  | goto g => simp [ExitOK] at hok
  | ret =>
    simp only [Rel, restOf_nil, List.append_nil] at hrel
    subst hrel
    refine ⟨fun _ => ?_, fun hh => by simp [isAbort] at hh⟩
    rw [endFn_of_not_normal h _ _ (withErr_ne_normal (by intro hh; cases hh) _)]
    simp only [closeBlock, Exit.errArg]
    cases hs : (closeAll h pi none).1 with
    | none => exact ⟨.ret, rfl, Or.inl ⟨rfl, Or.inr rfl⟩⟩
    | some e => exact ⟨.err e, rfl, Or.inr ⟨e, rfl, rfl⟩⟩
  | err e =>
    simp only [Rel] at hrel
    refine ⟨fun hh => by simp [isAbort] at hh, fun _ => ⟨?_, hrel⟩⟩
    obtain ⟨RV, _, hab, _, _⟩ := hrel
    exact endFn_of_not_normal h vi _ (ne_normal_of_abort hab)
  | kill e =>
    simp only [Rel] at hrel
    refine ⟨fun hh => by simp [isAbort] at hh, fun _ => ⟨?_, hrel⟩⟩
    obtain ⟨RV, _, hab, _, _⟩ := hrel
    exact endFn_of_not_normal h vi _ (ne_normal_of_abort hab)

/-! ### MAIN LEMMA (timing differences vanish) -/

theorem envOf_cons_len (k : Bool) (pend : List TV) (outs : Outs) (below : List TV) :
    envOf ((k, pend) :: outs) below.length = (k, (pend ++ restOf outs ++ below).length) :: envOf outs below.length := by
  simp [envOf, Nat.add_assoc]

theorem jumpTo_closeAll (h : Handlers) (pend : List TV) (outs : Outs) (below : List TV) (m : Nat) (x : Exit) :
    jumpTo h (pend ++ restOf outs ++ below) ((restOf (outs.drop m)).length + below.length) x =
      ⟨x.withErr (closeAll h (pend ++ restOf (outs.take m)) none).1, restOf (outs.drop m) ++ below,
       (closeAll h (pend ++ restOf (outs.take m)) none).2⟩ := by
  have hs : pend ++ restOf outs ++ below = (pend ++ restOf (outs.take m)) ++ (restOf (outs.drop m) ++ below) := by
    rw [← restOf_take_drop outs m]; simp [List.append_assoc]
  have hl : (restOf (outs.drop m)).length + below.length = (restOf (outs.drop m) ++ below).length := by simp
  unfold jumpTo
  rw [hs, hl, cleanup_closeAll]

theorem rel_of_abort (h : Handlers) (outs : Outs) (below : List TV) (r : Res) (v : VRes)
    (hx : isAbort r.exit = true) (ha : AbortRel h outs below r v) : Rel h outs below r v := by
  obtain ⟨x, pend, l⟩ := r
  cases x <;> first | exact ha | simp [isAbort] at hx

theorem exec_block_eq (h : Handlers) (kill : Bool) (p : Prog) (pend : List TV) :
    exec h kill (.block p) pend =
      ⟨(closeBlock h (exec h kill p [])).1.leaveBlock, pend, (closeBlock h (exec h kill p [])).2⟩ := rfl

theorem exec_loop_eq (h : Handlers) (kill : Bool) (n : Nat) (p : Prog) (pend : List TV) :
    exec h kill (.loop n p) pend =
      ⟨(loopIter (closeBlock h (exec h kill p [])) n).1, pend, (loopIter (closeBlock h (exec h kill p [])) n).2⟩ := rfl

theorem exec_call_eq (h : Handlers) (kill : Bool) (p : Prog) (pend : List TV) :
    exec h kill (.call p) pend =
      ⟨(closeBlock h (exec h kill p [])).1.leaveFunction, pend, (closeBlock h (exec h kill p [])).2⟩ := rfl

theorem exec_pcall_eq (h : Handlers) (kill : Bool) (p : Prog) (pend : List TV) :
    exec h kill (.pcall p) pend =
      (match (closeBlock h (exec h kill p [])).1 with
       | .kill e => ⟨.kill e, pend, (closeBlock h (exec h kill p [])).2⟩
       | x => ⟨.normal, pend, (closeBlock h (exec h kill p [])).2 ++ [.caught x.errArg]⟩) := rfl

/-- a called function, given the statement for its body -/
theorem call_step (h : Handlers) (kill : Bool) (p : Prog)
    (ih : ∀ (pend : List TV) (outs : Outs) (below : List TV),
      wf p outs.length (outs.any (·.1)) = true →
      Rel h outs below (exec h kill p pend)
        (dexec h kill p (envOf outs below.length) below.length (pend ++ restOf outs ++ below)))
    (pend : List TV) (outs : Outs) (below : List TV) (hw : wf (.call p) outs.length (outs.any (·.1)) = true) :
    Rel h outs below (exec h kill (.call p) pend)
      (dexec h kill (.call p) (envOf outs below.length) below.length (pend ++ restOf outs ++ below)) := by
  have hwf : wf p 0 false = true := by simpa [wf] using hw
  have hi := ih [] [] (pend ++ restOf outs ++ below) (by simpa using hwf)
  simp only [envOf, restOf_nil, List.nil_append] at hi
  obtain ⟨f1, f2⟩ := fn_step h (pend ++ restOf outs ++ below) _ _ hi (exec_exitOK h kill p 0 false [] hwf)
  rw [exec_call_eq, dexec_call]
  cases hab : isAbort (exec h kill p []).exit with
  | false =>
    obtain ⟨y, hy, hc⟩ := f1 hab
    rw [hy]
    rcases hc with ⟨rfl, hc⟩ | ⟨e, rfl, hc⟩
    · rcases hc with hc | hc <;> (rw [hc]; simp only [Exit.leaveFunction, Rel])
    · rw [hc]
      simp only [Exit.leaveFunction, Rel]
      exact abortRel_same h outs below (.err e) rfl pend _
  | true =>
    obtain ⟨hv, RV, hst, habv, e1, e2⟩ := f2 hab
    rw [hv]
    simp only [restOf_nil, List.append_nil] at e1 e2
    have hc1 : (closeBlock h (exec h kill p [])).1 =
        (exec h kill p []).exit.withErr (closeAll h (exec h kill p []).pend (exec h kill p []).exit.errArg).1 := rfl
    have hc2 : (closeBlock h (exec h kill p [])).2 =
        (exec h kill p []).log ++ (closeAll h (exec h kill p []).pend (exec h kill p []).exit.errArg).2 := rfl
    rw [hc1, hc2, e1, e2]
    generalize dexec h kill p [] (pend ++ restOf outs ++ below).length (pend ++ restOf outs ++ below) = vi
      at hst habv ⊢
    obtain ⟨a1, a2, a3, _⟩ := abort_withErr h vi.exit habv RV (pend ++ restOf outs)
    have hlf : (vi.exit.withErr (closeAll h RV vi.exit.errArg).1).leaveFunction =
        vi.exit.withErr (closeAll h RV vi.exit.errArg).1 := by
      generalize vi.exit.withErr (closeAll h RV vi.exit.errArg).1 = z at a3
      cases z <;> first | rfl | simp [isAbort] at a3
    have hlf2 : vi.exit.leaveFunction = vi.exit := by
      generalize vi.exit = z at habv
      cases z <;> first | rfl | simp [isAbort] at habv
    rw [hlf, hlf2]
    apply rel_of_abort h outs below _ _ a3
    refine ⟨RV ++ (pend ++ restOf outs), by rw [hst]; simp [List.append_assoc], habv, ?_, ?_⟩
    · simp only
      rw [a1, a2, closeAll_append h RV (pend ++ restOf outs)]
    · simp only
      rw [a1, closeAll_append h RV (pend ++ restOf outs)]
      simp [List.append_assoc]


theorem dexec_spec (h : Handlers) (kill : Bool) : ∀ (p : Prog) (pend : List TV) (outs : Outs) (below : List TV),
    wf p outs.length (outs.any (·.1)) = true →
    Rel h outs below (exec h kill p pend)
      (dexec h kill p (envOf outs below.length) below.length (pend ++ restOf outs ++ below)) := by
  intro p
  induction p with
  | skip => intro pend outs below _; simp only [exec, dexec, Rel]
  | mark n => intro pend outs below _; simp only [exec, dexec, Rel]
  | err e =>
    intro pend outs below _
    simp only [exec, dexec, Rel]
    exact abortRel_same h outs below (.err (.user e)) rfl pend []
  | yield =>
    intro pend outs below _
    cases kill with
    | false => simp only [exec, dexec, Rel]; rfl
    | true =>
      simp only [exec, dexec, Rel, if_true]
      exact abortRel_same h outs below (.kill none) rfl pend []
  | tbc v =>
    intro pend outs below _
    cases v with
    | bad =>
      simp only [exec, dexec, Rel]
      exact abortRel_same h outs below (.err .notClosable) rfl pend []
    | obj id => simp only [exec, dexec, Rel, List.cons_append]
    | nilv => simp only [exec, dexec, Rel, List.cons_append]
  | ret =>
    intro pend outs below _
    simp only [exec, dexec, Rel]
    have hs : pend ++ restOf outs ++ below = (pend ++ restOf outs) ++ below := rfl
    unfold jumpTo
    rw [hs, cleanup_closeAll]
    simp
  | brk =>
    intro pend outs below hw
    simp only [wf] at hw
    obtain ⟨m, hm⟩ := firstLoop_some_of_any hw
    simp only [exec, dexec, Rel, brkHeight_envOf, hm, Option.map_some]
    refine ⟨m, rfl, ?_⟩
    unfold JumpRel
    rw [jumpTo_closeAll]
    simp
  | gotoOut g =>
    intro pend outs below hw
    simp only [wf, decide_eq_true_eq] at hw
    simp only [exec, dexec, Rel, gotoHeight_envOf outs below.length g hw]
    refine ⟨hw, ?_⟩
    unfold JumpRel
    rw [jumpTo_closeAll]
    simp
  | seq a b iha ihb =>
    intro pend outs below hw
    simp only [wf, Bool.and_eq_true] at hw
    have ha := iha pend outs below hw.1
    simp only [exec, dexec]
    generalize hra : exec h kill a pend = ra at ha
    generalize hva : dexec h kill a (envOf outs below.length) below.length (pend ++ restOf outs ++ below) = va at ha
    obtain ⟨xa, pa, la⟩ := ra
    cases xa with
    | normal =>
      simp only [Rel] at ha
      subst ha
      simp only
      have hb := ihb pa outs below hw.2
      generalize exec h kill b pa = rb at hb
      generalize dexec h kill b (envOf outs below.length) below.length (pa ++ restOf outs ++ below) = vb at hb
      obtain ⟨xb, pb, lb⟩ := rb
      obtain ⟨yb, sb, lvb⟩ := vb
      exact rel_prefix h outs below la xb pb lb yb sb lvb hb
    | brk =>
      have := (rel_exit_ne h outs below _ _ ha (by intro hh; cases hh)).1
      obtain ⟨y, sy, ly⟩ := va
      cases y <;> first | exact ha | exact absurd rfl this
    | goto g =>
      have := (rel_exit_ne h outs below _ _ ha (by intro hh; cases hh)).1
      obtain ⟨y, sy, ly⟩ := va
      cases y <;> first | exact ha | exact absurd rfl this
    | ret =>
      have := (rel_exit_ne h outs below _ _ ha (by intro hh; cases hh)).1
      obtain ⟨y, sy, ly⟩ := va
      cases y <;> first | exact ha | exact absurd rfl this
    | err e =>
      have := (rel_exit_ne h outs below _ _ ha (by intro hh; cases hh)).1
      obtain ⟨y, sy, ly⟩ := va
      cases y <;> first | exact ha | exact absurd rfl this
    | kill e =>
      have := (rel_exit_ne h outs below _ _ ha (by intro hh; cases hh)).1
      obtain ⟨y, sy, ly⟩ := va
      cases y <;> first | exact ha | exact absurd rfl this
  | block p ih =>
    intro pend outs below hw
    have hi := ih [] ((false, pend) :: outs) below (by simpa [wf] using hw)
    rw [envOf_cons_len, restOf_cons] at hi
    simp only [List.nil_append] at hi
    obtain ⟨b1, b2⟩ := block_step h false pend outs below _ _ hi
    rw [exec_block_eq, dexec_block]
    cases hl : landsHere false (closeBlock h (exec h kill p [])).1 with
    | true =>
      rw [b1 hl]
      generalize (closeBlock h (exec h kill p [])).1 = y at hl
      generalize (closeBlock h (exec h kill p [])).2 = ly
      cases y with
      | normal => simp only [Exit.leaveBlock, Rel]
      | goto g =>
        cases g with
        | zero => simp only [Exit.leaveBlock, Rel]
        | succ g => simp [landsHere] at hl
      | brk => simp [landsHere] at hl
      | ret => simp [landsHere] at hl
      | err e => simp [landsHere] at hl
      | kill e => simp [landsHere] at hl
    | false => exact b2 hl
  | loop n p ih =>
    intro pend outs below hw
    have hi := ih [] ((true, pend) :: outs) below (by simpa [wf] using hw)
    rw [envOf_cons_len, restOf_cons] at hi
    simp only [List.nil_append] at hi
    obtain ⟨b1, b2⟩ := block_step h true pend outs below _ _ hi
    rw [exec_loop_eq, dexec_loop]
    exact loop_rel h pend outs below (closeBlock h (exec h kill p []))
      (fun st => endBlock h (dexec h kill p ((true, st.length) :: envOf outs below.length) below.length st) st.length)
      b1 b2 n
  | pcall p ih =>
    intro pend outs below hw
    have hwf : wf p 0 false = true := by simpa [wf] using hw
    have hi := ih [] [] (pend ++ restOf outs ++ below) (by simpa using hwf)
    simp only [envOf, restOf_nil, List.nil_append] at hi
    obtain ⟨f1, f2⟩ := fn_step h (pend ++ restOf outs ++ below) _ _ hi (exec_exitOK h kill p 0 false [] hwf)
    rw [exec_pcall_eq, dexec_pcall]
    cases hab : isAbort (exec h kill p []).exit with
    | false =>
      obtain ⟨y, hy, hc⟩ := f1 hab
      rw [hy]
      rcases hc with ⟨rfl, hc⟩ | ⟨e, rfl, hc⟩
      · have hcl := cleanup_le h (pend ++ restOf outs ++ below) (pend ++ restOf outs ++ below).length
          none (Nat.le_refl _)
        rcases hc with hc | hc <;> (rw [hc]; simp only [pcallEnd, Exit.errArg, hcl, Rel, List.append_nil])
      · have hcl := cleanup_le h (pend ++ restOf outs ++ below) (pend ++ restOf outs ++ below).length
          (some e) (Nat.le_refl _)
        rw [hc]; simp only [pcallEnd, Exit.errArg, hcl, Rel, List.append_nil]
    | true =>
      obtain ⟨hv, RV, hst, habv, e1, e2⟩ := f2 hab
      rw [hv]
      simp only [restOf_nil, List.append_nil] at e1 e2
      have hc1 : (closeBlock h (exec h kill p [])).1 =
          (exec h kill p []).exit.withErr (closeAll h (exec h kill p []).pend (exec h kill p []).exit.errArg).1 := rfl
      have hc2 : (closeBlock h (exec h kill p [])).2 =
          (exec h kill p []).log ++ (closeAll h (exec h kill p []).pend (exec h kill p []).exit.errArg).2 := rfl
      rw [hc1, hc2, e1, e2]
      generalize dexec h kill p [] (pend ++ restOf outs ++ below).length (pend ++ restOf outs ++ below) = vi
        at hst habv ⊢
      obtain ⟨y, sy, ly⟩ := vi
      simp only at hst habv ⊢
      subst hst
      cases y with
      | normal => simp [isAbort] at habv
      | brk => simp [isAbort] at habv
      | goto g => simp [isAbort] at habv
      | ret => simp [isAbort] at habv
      | err ey =>
        -- an error reaches the protected call: CallContext cleans the close stack up and pcall returns false, e
        obtain ⟨e'', he''⟩ := closeAll_some h RV ey
        simp only [Exit.errArg, he'', Exit.withErr, pcallEnd, cleanup_closeAll, Rel]
      | kill sy =>
        -- the coroutine is being closed: nothing is caught, nothing is closed here
        obtain ⟨a1, a2, a3, _⟩ := abort_withErr h (.kill sy) rfl RV (pend ++ restOf outs)
        simp only [Exit.errArg, Exit.withErr, pcallEnd, Rel]
        refine ⟨RV ++ (pend ++ restOf outs), by simp [List.append_assoc], rfl, ?_, ?_⟩
        · simp only [Exit.errArg, Exit.withErr]
          rw [closeAll_append h RV (pend ++ restOf outs)]
        · simp only [Exit.errArg]
          rw [closeAll_append h RV (pend ++ restOf outs)]
          simp [List.append_assoc]
  | call p ih =>
    intro pend outs below hw
    exact call_step h kill p ih pend outs below hw
  | retCall p ih =>
    intro pend outs below hw
    have hc := call_step h kill p ih pend outs below (by simpa [wf] using hw)
    have hcx : (exec h kill (.call p) pend).exit = .normal ∨ isAbort (exec h kill (.call p) pend).exit = true := by
      rw [exec_call_eq]
      simp only
      generalize (closeBlock h (exec h kill p [])).1 = y
      cases y <;> simp [Exit.leaveFunction, isAbort]
    -- `return f()` = the call, then (if it came back normally) the return
    have hs : exec h kill (.retCall p) pend =
        ⟨(exec h kill (.call p) pend).exit.thenReturn, pend, (exec h kill (.call p) pend).log⟩ := rfl
    have hd : dexec h kill (.retCall p) (envOf outs below.length) below.length (pend ++ restOf outs ++ below) =
        (let vc := dexec h kill (.call p) (envOf outs below.length) below.length (pend ++ restOf outs ++ below)
         match vc.exit with
         | .normal =>
           let j := jumpTo h vc.stack below.length .ret
           ⟨j.exit, j.stack, vc.log ++ j.log⟩
         | x => ⟨x, vc.stack, vc.log⟩) := rfl
    rw [hs, hd]
    have hpe : (exec h kill (.call p) pend).pend = pend := rfl
    generalize exec h kill (.call p) pend = rc at hc hpe hcx
    generalize dexec h kill (.call p) (envOf outs below.length) below.length (pend ++ restOf outs ++ below) = vc at hc
    obtain ⟨x, pc, lc⟩ := rc
    simp only at hpe
    subst hpe
    -- the exit of a call is normal or an abort
    cases x with
    | normal =>
      simp only [Rel] at hc
      subst hc
      simp only [Exit.thenReturn, Rel]
      have hst : pc ++ restOf outs ++ below = (pc ++ restOf outs) ++ below := rfl
      unfold jumpTo
      rw [hst, cleanup_closeAll]
    | err e =>
      have hab : AbortRel h outs below ⟨.err e, pc, lc⟩ vc := hc
      obtain ⟨RV, h1, h2, h3, h4⟩ := hab
      have hvx : vc = ⟨vc.exit, vc.stack, vc.log⟩ := rfl
      have hne := ne_normal_of_abort h2
      simp only [Exit.thenReturn]
      obtain ⟨y, sy, ly⟩ := vc
      cases y with
      | normal => exact absurd rfl hne
      | err ey => exact ⟨RV, h1, h2, h3, h4⟩
      | kill sk => exact ⟨RV, h1, h2, h3, h4⟩
      | brk => simp [isAbort] at h2
      | goto g => simp [isAbort] at h2
      | ret => simp [isAbort] at h2
    | kill s =>
      have hab : AbortRel h outs below ⟨.kill s, pc, lc⟩ vc := hc
      obtain ⟨RV, h1, h2, h3, h4⟩ := hab
      have hne := ne_normal_of_abort h2
      simp only [Exit.thenReturn]
      obtain ⟨y, sy, ly⟩ := vc
      cases y with
      | normal => exact absurd rfl hne
      | err ey => exact ⟨RV, h1, h2, h3, h4⟩
      | kill sk => exact ⟨RV, h1, h2, h3, h4⟩
      | brk => simp [isAbort] at h2
      | goto g => simp [isAbort] at h2
      | ret => simp [isAbort] at h2
    | brk => simp [isAbort] at hcx
    | goto g => simp [isAbort] at hcx
    | ret => simp [isAbort] at hcx

end GoluaVerif.Proofs.Tbc
