/-
  Proofs.Literal — lemmas for Props.C12: long brackets and short-string escapes.
-/
import GoluaVerif.Spec.Literal
namespace GoluaVerif.Proofs.Literal
open GoluaVerif.Spec.Numeral (Bytes isSpace isDigit isXDigit hexVal)
open GoluaVerif.Model.Literal GoluaVerif.Spec.Literal

/-! ### long brackets -/

theorem openLevel_replicate (lvl : Nat) (body : Bytes) :
    openLevel (List.replicate lvl 61 ++ 91 :: body) = some (lvl, body) := by
  induction lvl with
  | zero => simp [openLevel]
  | succ k ih => simp [List.replicate_succ, openLevel, ih]

theorem closer_length (lvl : Nat) : (closer lvl).length = lvl + 2 := by simp [closer]

theorem closerAt_self (lvl : Nat) : closerAt lvl (closer lvl) = true := by
  simp [closerAt, List.isPrefixOf_iff_prefix]

theorem findCloser_wrap (lvl : Nat) (s : Bytes) (h : noCloserBefore lvl s (closer lvl) = true) :
    findCloser lvl (s ++ closer lvl) = some (s, []) := by
  induction s with
  | nil =>
    have hc : closer lvl = 93 :: (List.replicate lvl 61 ++ [93]) := rfl
    have hself := closerAt_self lvl
    rw [hc] at hself
    simp only [List.nil_append, hc, findCloser, hself, if_true]
    have hd : (closer lvl).drop (lvl + 2) = [] :=
      List.drop_eq_nil_of_le (by rw [closer_length]; omega)
    rw [hc] at hd
    rw [hd]
  | cons c r ih =>
    simp only [noCloserBefore, Bool.and_eq_true, Bool.not_eq_true', List.cons_append] at h
    simp only [List.cons_append, findCloser, h.1]
    simp [ih h.2]

/-- long brackets: contents up to the closing bracket, first newline dropped, newlines normalised -/
theorem long_bracket (lvl : Nat) (s : Bytes) (h : noCloserBefore lvl s (closer lvl) = true) :
    decodeLong (wrapLong lvl s) = some (normaliseNL (dropFirstNL s)) := by
  simp [decodeLong, wrapLong, openLevel_replicate, findCloser_wrap lvl s h]

theorem noCloser_of_no_rbracket (lvl : Nat) (s tail : Bytes) (h : ∀ c ∈ s, c ≠ 93) :
    noCloserBefore lvl s tail = true := by
  induction s with
  | nil => rfl
  | cons c r ih =>
    have hc : c ≠ 93 := h c (List.mem_cons_self ..)
    have : closerAt lvl (c :: (r ++ tail)) = false := by
      simp only [closerAt, closer, List.isPrefixOf, Bool.and_eq_false_iff, beq_eq_false_iff_ne]
      exact Or.inl (fun h' => hc h'.symm)
    simp [noCloserBefore, this, ih (fun x hx => h x (List.mem_cons_of_mem _ hx))]

/-! ### short strings: the machine never looks at its output -/

/-- put `o0` in front of the output -/
def pre (o0 : Bytes) (m : MS) : MS := (m.1, o0 ++ m.2)

theorem stepNorm_out (q : UInt8) (o0 o : Bytes) (c : UInt8) :
    stepNorm q (o0 ++ o) c = pre o0 (stepNorm q o c) := by
  unfold stepNorm
  simp only [apply_ite (pre o0)]
  simp only [pre, List.append_assoc]

theorem step_out (q : UInt8) (st : St) (o0 o : Bytes) (c : UInt8) :
    step q (st, o0 ++ o) c = pre o0 (step q (st, o) c) := by
  cases st <;> simp only [step, stepNorm_out, apply_ite (pre o0)] <;> simp only [pre, List.append_assoc]

theorem run_out (q : UInt8) (s : Bytes) : ∀ (st : St) (o0 o : Bytes),
    run q s (st, o0 ++ o) = pre o0 (run q s (st, o)) := by
  induction s with
  | nil => intro st o0 o; rfl
  | cons c r ih =>
    intro st o0 o
    simp only [run, List.foldl_cons] at ih ⊢
    rw [step_out]
    exact ih _ _ _

/-- running from an arbitrary output is running from the empty output, prefixed -/
theorem run_from (q : UInt8) (s : Bytes) (st : St) (o : Bytes) :
    run q s (st, o) = pre o (run q s (st, [])) := by
  have := run_out q s st o []
  simpa using this

theorem run_append (q : UInt8) (a b : Bytes) (m : MS) : run q (a ++ b) m = run q b (run q a m) := by
  simp [run, List.foldl_append]

/-! ### the state after the spelling of one byte -/

/-- machine states that, whatever byte follows (described by `nd`: digit, `nn`: line break),
    continue exactly like `(norm, [b])` -/
def endOK (b : UInt8) (nd nn : Bool) : MS → Bool
  | (.norm, o) => o == [b]
  | (.dec _ v, o) => o == [] && UInt8.ofNat v == b && !nd
  | (.nlpair _, o) => o == [b] && !nn
  | _ => false

def finiteForms : List Form :=
  [.raw, .named, .dec3, .decMin, .hex false, .hex true, .nl .lf, .nl .cr, .nl .crlf, .nl .lfcr]

/-- every byte × every form without a numeric parameter × both contexts × both quotes: by evaluation -/
theorem endstate_finite : ∀ n, n < 256 → ∀ f ∈ finiteForms, ∀ nd ∈ [true, false], ∀ nn ∈ [true, false],
    ∀ q ∈ [(34 : UInt8), 39],
      endOK (UInt8.ofNat n) nd nn (run q (spellB q (UInt8.ofNat n) f nd nn) (.norm, [])) = true := by
  decide +kernel

theorem endOK_next (q b : UInt8) (m : MS) (next : UInt8)
    (h : endOK b (isDigit next) (next == 10 || next == 13) m = true) :
    step q m next = step q (.norm, [b]) next := by
  obtain ⟨st, o⟩ := m
  cases st <;> simp only [endOK, Bool.and_eq_true, beq_iff_eq, Bool.not_eq_true'] at h <;> try (exact absurd h (by decide))
  · rw [h]
  · obtain ⟨⟨h1, h2⟩, h3⟩ := h
    subst h1
    simp [step, h3, h2]
  · obtain ⟨h1, h2⟩ := h
    subst h1
    simp only [step, h2, Bool.false_and]
    rfl

/-! ### `\u{…}` with any number of leading zeros -/

theorem run_zeros (q : UInt8) (z : Nat) : ∀ (n : Nat) (o : Bytes),
    run q (List.replicate z 48) (.udig n 0, o) = (.udig (n + z) 0, o) := by
  induction z with
  | zero => intro n o; rfl
  | succ k ih =>
    intro n o
    simp only [List.replicate_succ, run, List.foldl_cons] at ih ⊢
    have : step q (.udig n 0, o) 48 = (.udig (n + 1) 0, o) := by
      simp [step, isXDigit, isDigit, hexVal]
    rw [this, ih]
    congr 2
    omega

theorem hexChar_spec : ∀ d, d < 16 → isXDigit (hexChar false d) = true ∧ hexVal (hexChar false d) = d ∧
    hexChar false d ≠ 125 := by decide

theorem step_udig (q : UInt8) (n v : Nat) (o : Bytes) (d : Nat) (hd : d < 16) (hv : 16 * v + d < 2 ^ 31) :
    step q (.udig n v, o) (hexChar false d) = (.udig (n + 1) (16 * v + d), o) := by
  obtain ⟨h1, h2, _⟩ := hexChar_spec d hd
  simp [step, h1, h2, hv]

theorem utf8_ascii (b : UInt8) (h : b.toNat < 128) : utf8enc b.toNat = [b] := by
  have : b.toNat < 0x80 := h
  simp [utf8enc, this]

theorem uni_end (q b : UInt8) (z : Nat) (nd nn : Bool) (hq : q = 34 ∨ q = 39) (h : b.toNat < 128) :
    run q (spellB q b (.uni z) nd nn) (.norm, []) = (.norm, [b]) := by
  simp only [spellB, h, if_true]
  rw [run_append, run_append]
  have h0 : run q [92, 117, 123] (.norm, []) = (.udig 0 0, []) := by
    rcases hq with rfl | rfl <;> rfl
  rw [h0, run_zeros, Nat.zero_add]
  by_cases h16 : b.toNat < 16
  · simp only [h16, if_true, List.singleton_append, run, List.foldl_cons, List.foldl_nil]
    rw [step_udig q z 0 [] b.toNat h16 (by omega)]
    simp only [Nat.mul_zero, Nat.zero_add]
    have : step q (.udig (z + 1) b.toNat, []) 125 = (.norm, [] ++ utf8enc b.toNat) := by
      simp [step, isXDigit, isDigit, Spec.Numeral.isHexLetter]
    rw [this, utf8_ascii b h]
    rfl
  · simp only [h16, if_false, List.cons_append, List.nil_append, run, List.foldl_cons, List.foldl_nil]
    have hd1 : b.toNat / 16 < 16 := by omega
    have hd2 : b.toNat % 16 < 16 := by omega
    have hc : hexChar false b.toNat = hexChar false (b.toNat % 16) := by simp [hexChar]
    rw [step_udig q z 0 [] (b.toNat / 16) hd1 (by omega), hc,
      step_udig q (z + 1) _ [] (b.toNat % 16) hd2 (by omega)]
    have hv : 16 * (16 * 0 + b.toNat / 16) + b.toNat % 16 = b.toNat := by omega
    rw [hv]
    have : step q (.udig (z + 1 + 1) b.toNat, []) 125 = (.norm, [] ++ utf8enc b.toNat) := by
      simp [step, isXDigit, isDigit, Spec.Numeral.isHexLetter]
    rw [this, utf8_ascii b h]
    rfl

/-! ### every form -/

theorem form_cases (f : Form) : f ∈ finiteForms ∨ ∃ z, f = .uni z := by
  cases f with
  | hex up => cases up <;> simp [finiteForms]
  | uni z => exact Or.inr ⟨z, rfl⟩
  | nl k => cases k <;> simp [finiteForms]
  | _ => simp [finiteForms]

theorem spell_end (q b : UInt8) (f : Form) (nd nn : Bool) (hq : q = 34 ∨ q = 39) :
    endOK b nd nn (run q (spellB q b f nd nn) (.norm, [])) = true := by
  have hb : b = UInt8.ofNat b.toNat := (UInt8.ofNat_toNat).symm
  have hfin : ∀ f ∈ finiteForms, endOK b nd nn (run q (spellB q b f nd nn) (.norm, [])) = true := by
    intro f hf
    rw [hb]
    exact endstate_finite b.toNat b.toNat_lt f hf nd (by cases nd <;> simp) nn (by cases nn <;> simp) q
      (by rcases hq with rfl | rfl <;> simp)
  rcases form_cases f with hf | ⟨z, rfl⟩
  · exact hfin f hf
  · by_cases h : b.toNat < 128
    · rw [uni_end q b z nd nn hq h]; simp [endOK]
    · have : spellB q b (.uni z) nd nn = spellB q b .dec3 nd nn := by simp [spellB, h]
      rw [this]
      exact hfin .dec3 (by simp [finiteForms])

/-! ### `\z` -/

theorem run_ws_zskip (q : UInt8) (ws : Bytes) (o : Bytes) (h : ws.all isSpace = true) :
    run q ws (.zskip, o) = (.zskip, o) := by
  induction ws with
  | nil => rfl
  | cons c r ih =>
    simp only [List.all_cons, Bool.and_eq_true] at h
    simp only [run, List.foldl_cons] at ih ⊢
    have : step q (.zskip, o) c = (.zskip, o) := by simp [step, h.1]
    rw [this]
    exact ih h.2

theorem run_withZ (q : UInt8) (z : Option Bytes) (sp tail : Bytes) (o : Bytes) (hq : q = 34 ∨ q = 39) :
    run q (withZ z sp ++ tail) (.norm, o) = run q (sp ++ tail) (.norm, o) := by
  unfold withZ
  split
  · rename_i ws c rest
    split
    · rename_i hc
      simp only [Bool.and_eq_true, Bool.not_eq_true'] at hc
      have h0 : run q [92, 122] (.norm, o) = (.zskip, o) := by
        rcases hq with rfl | rfl <;> rfl
      rw [List.append_assoc, List.append_assoc, run_append, h0, run_append, run_ws_zskip q ws o hc.1]
      simp only [List.cons_append, run, List.foldl_cons]
      have : step q (.zskip, o) c = step q (.norm, o) c := by simp [step, hc.2]
      rw [this]
    · rfl
  · rfl

/-! ### the whole literal -/

theorem escapeBody_ne_nil (q : UInt8) (bs : Bytes) : ∀ ch, escapeBody q bs ch ≠ [] := by
  induction bs with
  | nil => intro ch; simp [escapeBody]
  | cons b r ih =>
    intro ch h
    simp only [escapeBody] at h
    exact ih _ (List.append_eq_nil_iff.mp h).2

theorem body_run (q : UInt8) (hq : q = 34 ∨ q = 39) (bs : Bytes) : ∀ (ch : Nat → Choice) (o : Bytes),
    run q (escapeBody q bs ch) (.norm, o) = (.done, o ++ bs) := by
  induction bs with
  | nil =>
    intro ch o
    simp [escapeBody, run, step, stepNorm]
  | cons b r ih =>
    intro ch o
    simp only [escapeBody]
    generalize htail : escapeBody q r (fun i => ch (i + 1)) = tail
    have hne : tail ≠ [] := htail ▸ escapeBody_ne_nil q r _
    obtain ⟨next, t, rfl⟩ := List.exists_cons_of_ne_nil hne
    simp only [List.headD_cons]
    rw [run_withZ q _ _ _ o hq, run_append]
    have hinner : run q (spell q b (ch 0).form next) (.norm, o)
        = pre o (run q (spell q b (ch 0).form next) (.norm, [])) := run_from q _ .norm o
    rw [hinner]
    have hend : endOK b (isDigit next) (next == 10 || next == 13)
        (run q (spell q b (ch 0).form next) (.norm, [])) = true :=
      spell_end q b (ch 0).form (isDigit next) (next == 10 || next == 13) hq
    generalize run q (spell q b (ch 0).form next) (.norm, []) = m at hend
    have hstep := endOK_next q b m next hend
    obtain ⟨st, o'⟩ := m
    show run q (next :: t) (st, o ++ o') = _
    simp only [run, List.foldl_cons]
    rw [step_out q st o o' next, hstep, ← step_out q .norm o [b] next]
    have := ih (fun i => ch (i + 1)) (o ++ [b])
    rw [htail] at this
    simp only [run, List.foldl_cons] at this
    rw [this]
    simp

/-- decoding inverts every spelling -/
theorem decode_escape (q : UInt8) (hq : q = 34 ∨ q = 39) (bs : Bytes) (ch : Nat → Choice) :
    decodeShort (escape q bs ch) = some bs := by
  have hq' : (q == 34 || q == 39) = true := by rcases hq with rfl | rfl <;> rfl
  simp only [decodeShort, escape, hq', if_true]
  rw [body_run q hq bs ch []]
  simp

end GoluaVerif.Proofs.Literal
