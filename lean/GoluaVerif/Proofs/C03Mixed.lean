/-
  Proofs.C03Mixed — get / remove / reset on the whole table.
-/
import GoluaVerif.Proofs.C03Ops
namespace GoluaVerif.Model.Table
open GoluaVerif.Spec (Key Val Map)

section
variable (hash : Key → Nat)

theorem get_refines (t : Mixed) (inv : Inv hash t) (k : Key) : get hash t k = some (abs t k.norm) := by
  unfold get
  cases hti : toInt k with
  | none =>
    obtain ⟨hn, hni⟩ := norm_of_toInt_none k hti
    simp only [hFind_eq hash t.hash _ inv.hash k, hn, abs_nonint t k hni]
  | some i =>
    rw [norm_of_toInt_some k i hti]
    simp only [arrGet_eq, Option.bind_eq_bind, Option.bind_some]
    by_cases h : inArr t.arr i
    · simp [h, abs_int_in t i h]
    · simp [h, abs_int_out t i h, hFind_eq hash t.hash _ inv.hash]

theorem int_idx_eq (a : Option Arr) (z i : Int) (hz : inArr a z) (hi : inArr a i) :
    (z.toNat - 1 = i.toNat - 1) ↔ z = i := by
  simp only [inArr] at hz hi; omega

/-- frame lemma: only the hash part changed, at a key outside the array range -/
theorem abs_hash_update (t : Mixed) (h' : Option HashTable) (kk : Key) (v : Option Val)
    (hout : ∀ z, kk = .int z → ¬ inArr t.arr z)
    (habs : ∀ k', hashAbs h' k' = if k' = kk then v else hashAbs t.hash k') :
    ∀ k', abs { t with hash := h' } k' = if k' = kk then v else abs t k' := by
  intro k'
  cases k' with
  | int z =>
    by_cases hz : inArr t.arr z
    · have e1 : abs { t with hash := h' } (.int z) = arrAt t.arr z := abs_int_in { t with hash := h' } z hz
      have e2 := abs_int_in t z hz
      have : Key.int z ≠ kk := fun e => hout z e.symm hz
      rw [e1, e2]; simp [this]
    · have e1 : abs { t with hash := h' } (.int z) = hashAbs h' (.int z) := abs_int_out { t with hash := h' } z hz
      have e2 := abs_int_out t z hz
      rw [e1, e2]; exact habs _
  | flt f =>
    have e1 : abs { t with hash := h' } (.flt f) = hashAbs h' (.flt f) := abs_nonint _ _ (fun z => by simp)
    have e2 : abs t (.flt f) = hashAbs t.hash (.flt f) := abs_nonint _ _ (fun z => by simp)
    rw [e1, e2]; exact habs _
  | str f =>
    have e1 : abs { t with hash := h' } (.str f) = hashAbs h' (.str f) := abs_nonint _ _ (fun z => by simp)
    have e2 : abs t (.str f) = hashAbs t.hash (.str f) := abs_nonint _ _ (fun z => by simp)
    rw [e1, e2]; exact habs _
  | bool f =>
    have e1 : abs { t with hash := h' } (.bool f) = hashAbs h' (.bool f) := abs_nonint _ _ (fun z => by simp)
    have e2 : abs t (.bool f) = hashAbs t.hash (.bool f) := abs_nonint _ _ (fun z => by simp)
    rw [e1, e2]; exact habs _
  | ref f =>
    have e1 : abs { t with hash := h' } (.ref f) = hashAbs h' (.ref f) := abs_nonint _ _ (fun z => by simp)
    have e2 : abs t (.ref f) = hashAbs t.hash (.ref f) := abs_nonint _ _ (fun z => by simp)
    rw [e1, e2]; exact habs _

/-- frame lemma: only the array part changed, at an index inside the array range -/
theorem abs_arr_update (t : Mixed) (a a' : Arr) (ha : t.arr = some a) (hlen : a'.values.length = a.values.length)
    (i : Int) (hi : inArr (some a) i) (v : Option Val)
    (hat : ∀ j : Int, arrAt (some a') j = if j.toNat - 1 = i.toNat - 1 then v else arrAt (some a) j) :
    ∀ k', abs { t with arr := some a' } k' = if k' = .int i then v else abs t k' := by
  have hsz : arrSize (some a') = arrSize t.arr := by simp [arrSize, hlen, ha]
  intro k'
  cases k' with
  | int z =>
    by_cases hz : inArr t.arr z
    · have hz' : inArr (some a') z := by simpa [inArr, hsz] using hz
      have e1 : abs { t with arr := some a' } (.int z) = arrAt (some a') z := abs_int_in { t with arr := some a' } z hz'
      have e2 := abs_int_in t z hz
      rw [e1, e2, ha, hat z]
      have := int_idx_eq (some a) z i (ha ▸ hz) hi
      simp only [this, Key.int.injEq]
    · have hz' : ¬ inArr (some a') z := by simpa [inArr, hsz] using hz
      have e1 : abs { t with arr := some a' } (.int z) = hashAbs t.hash (.int z) := abs_int_out { t with arr := some a' } z hz'
      have e2 := abs_int_out t z hz
      have : ¬ z = i := fun e => hz (e ▸ (ha ▸ hi))
      rw [e1, e2]; simp [this]
  | flt f =>
    have e1 : abs { t with arr := some a' } (.flt f) = hashAbs t.hash (.flt f) := abs_nonint _ _ (fun z => by simp)
    have e2 : abs t (.flt f) = hashAbs t.hash (.flt f) := abs_nonint _ _ (fun z => by simp)
    rw [e1, e2]; simp
  | str f =>
    have e1 : abs { t with arr := some a' } (.str f) = hashAbs t.hash (.str f) := abs_nonint _ _ (fun z => by simp)
    have e2 : abs t (.str f) = hashAbs t.hash (.str f) := abs_nonint _ _ (fun z => by simp)
    rw [e1, e2]; simp
  | bool f =>
    have e1 : abs { t with arr := some a' } (.bool f) = hashAbs t.hash (.bool f) := abs_nonint _ _ (fun z => by simp)
    have e2 : abs t (.bool f) = hashAbs t.hash (.bool f) := abs_nonint _ _ (fun z => by simp)
    rw [e1, e2]; simp
  | ref f =>
    have e1 : abs { t with arr := some a' } (.ref f) = hashAbs t.hash (.ref f) := abs_nonint _ _ (fun z => by simp)
    have e2 : abs t (.ref f) = hashAbs t.hash (.ref f) := abs_nonint _ _ (fun z => by simp)
    rw [e1, e2]; simp

theorem inv_arr_update (t : Mixed) (inv : Inv hash t) (a a' : Arr) (ha : t.arr = some a)
    (hlen : a'.values.length = a.values.length) (ainv' : ArrInv a') : Inv hash { t with arr := some a' } := by
  have hsz : arrSize (some a') = arrSize t.arr := by simp [arrSize, hlen, ha]
  refine ⟨?_, ?_, ?_⟩
  · intro b hb; cases hb; exact ainv'
  · intro hh hhe
    show HashInv hash hh (arrSize (some a'))
    rw [hsz]; exact inv.hash hh hhe
  · intro b hb; cases hb
    rw [hlen]; exact inv.pow2 a ha

/-- what `remove` and `reset` leave unchanged: the positions of the keys -/
def SamePositions (t t' : Mixed) : Prop :=
  arrSize t'.arr = arrSize t.arr ∧ hashKeys t'.hash = hashKeys t.hash ∧
    t'.arr.isSome = t.arr.isSome ∧ t'.hash.isSome = t.hash.isSome

theorem remove_spec (t : Mixed) (inv : Inv hash t) (k : Key) :
    ∃ t', remove hash t k = some (t', (abs t k.norm).isSome) ∧ Inv hash t' ∧
      (∀ k', abs t' k' = if k' = k.norm then none else abs t k') ∧ SamePositions t t' := by
  unfold remove
  cases hti : toInt k with
  | none =>
    obtain ⟨hn, hni⟩ := norm_of_toInt_none k hti
    obtain ⟨h', e, hinv, habs, hkeys, hsome⟩ := hRemoveKey_spec hash t.hash _ inv.hash k
    refine ⟨{ t with hash := h' }, ?_, ⟨inv.arr, hinv, inv.pow2⟩, ?_, ⟨rfl, hkeys, rfl, hsome⟩⟩
    · simp [e, hn, abs_nonint t k hni]
    · rw [hn]
      exact abs_hash_update t h' k none (fun z e _ => hni z e) habs
  | some i =>
    rw [norm_of_toInt_some k i hti]
    by_cases h : inArr t.arr i
    · cases ha : t.arr with
      | none => rw [ha] at h; exact absurd h (not_inArr_none i)
      | some a =>
        rw [ha] at h
        have ainv := inv.arr a ha
        have habs0 : abs t (.int i) = arrAt (some a) i := by rw [abs_int_in t i (ha ▸ h), ha]
        cases hv : arrAt (some a) i with
        | none =>
          refine ⟨t, ?_, inv, ?_, ⟨rfl, rfl, rfl, rfl⟩⟩
          · obtain ⟨th, ta⟩ := t
            simp only at ha; subst ha
            simp [arrRemove_absent a i h hv, habs0, hv]
          · intro k'
            by_cases e : k' = .int i
            · subst e; simp [habs0, hv]
            · simp [e]
        | some x =>
          obtain ⟨a', e, ainv', hlen, hat⟩ := arrRemove_present a i h ainv (by simp [hv])
          have hsz : arrSize (some a') = arrSize t.arr := by simp [arrSize, hlen, ha]
          refine ⟨{ t with arr := some a' }, ?_, inv_arr_update hash t inv a a' ha hlen ainv', ?_,
            ⟨hsz, rfl, by simp [ha], rfl⟩⟩
          · simp [e, habs0, hv]
          · exact abs_arr_update t a a' ha hlen i h none hat
    · obtain ⟨h', e, hinv, habs, hkeys, hsome⟩ := hRemoveKey_spec hash t.hash _ inv.hash (.int i)
      refine ⟨{ t with hash := h' }, ?_, ⟨inv.arr, hinv, inv.pow2⟩, ?_, ⟨rfl, hkeys, rfl, hsome⟩⟩
      · simp [arrRemove_out t.arr i h, e, abs_int_out t i h]
      · exact abs_hash_update t h' (.int i) none (fun z e => by cases e; exact h) habs

/-- a key in normal form: an integer-valued float has been replaced by the integer -/
def Key.Normal (k : Key) : Prop := k.norm = k

theorem normal_toInt (k : Key) (hk : k.norm = k) (i : Int) (h : toInt k = some i) : k = .int i := by
  rw [← hk]; exact norm_of_toInt_some k i h

/-- `reset` refines `Map.reset` at the normalised key -/
theorem reset_spec (t : Mixed) (inv : Inv hash t) (k : Key) (v : Val) :
    ∃ t', reset hash t k v = some (t', (abs t k.norm).isSome) ∧ Inv hash t' ∧
      (∀ k', abs t' k' = if k' = k.norm ∧ (abs t k.norm).isSome then some v else abs t k') ∧ SamePositions t t' := by
  -- the hash part is searched with the key `kk` (already normal, outside the array range)
  have viaHash : ∀ kk : Key, (∀ z, kk = .int z → ¬ inArr t.arr z) →
      ∃ h', hReset hash t.hash kk v = some (h', (abs t kk).isSome) ∧ Inv hash { t with hash := h' } ∧
        (∀ k', abs { t with hash := h' } k' = if k' = kk ∧ (abs t kk).isSome then some v else abs t k') ∧
        SamePositions t { t with hash := h' } := by
    intro kk hout
    obtain ⟨h', e, hinv, habs, hkeys, hsome⟩ := hReset_spec hash t.hash _ inv.hash kk v
    have e0 : abs t kk = hashAbs t.hash kk := by
      cases kk with
      | int z => exact abs_int_out t z (hout z rfl)
      | _ => exact abs_nonint t _ (fun z => by simp)
    refine ⟨h', by rw [e0]; exact e, ⟨inv.arr, hinv, inv.pow2⟩, ?_, ⟨rfl, hkeys, rfl, hsome⟩⟩
    rw [e0]
    by_cases hs : (hashAbs t.hash kk).isSome = true
    · simp only [hs, and_true] at habs ⊢
      exact abs_hash_update t h' kk (some v) hout habs
    · simp only [hs, and_false, if_false, Bool.false_eq_true] at habs ⊢
      have := abs_hash_update t h' kk (hashAbs t.hash kk) hout
        (fun k' => by rw [habs]; split <;> simp_all)
      intro k'
      rw [this k']
      split
      · rename_i e'; subst e'; exact e0.symm
      · rfl
  unfold reset
  cases hti : toInt k with
  | none =>
    obtain ⟨hn, hni⟩ := norm_of_toInt_none k hti
    rw [hn]
    obtain ⟨h', e, i', a', sp⟩ := viaHash k (fun z ez _ => hni z ez)
    exact ⟨{ t with hash := h' }, by simp [e], i', a', sp⟩
  | some i =>
    rw [norm_of_toInt_some k i hti]
    by_cases h : inArr t.arr i
    · cases ha : t.arr with
      | none => rw [ha] at h; exact absurd h (not_inArr_none i)
      | some a =>
        rw [ha] at h
        have ainv := inv.arr a ha
        have habs0 : abs t (.int i) = arrAt (some a) i := by rw [abs_int_in t i (ha ▸ h), ha]
        cases hv : arrAt (some a) i with
        | none =>
          refine ⟨t, ?_, inv, ?_, ⟨rfl, rfl, rfl, rfl⟩⟩
          · obtain ⟨th, ta⟩ := t
            simp only at ha; subst ha
            simp [arrResetValue_absent a i (some v) h hv, habs0, hv]
          · intro k'; simp [habs0, hv]
        | some x =>
          obtain ⟨a', e, ainv', hlen, hat⟩ := arrResetValue_present a i v h ainv (by simp [hv])
          have hsz : arrSize (some a') = arrSize t.arr := by simp [arrSize, hlen, ha]
          refine ⟨{ t with arr := some a' }, ?_, inv_arr_update hash t inv a a' ha hlen ainv', ?_,
            ⟨hsz, rfl, by simp [ha], rfl⟩⟩
          · simp [e, habs0, hv]
          · have := abs_arr_update t a a' ha hlen i h (some v) hat
            intro k'; rw [this k']; simp [habs0, hv]
    · obtain ⟨h', e, i', a', sp⟩ := viaHash (.int i) (fun z ez => by cases ez; exact h)
      exact ⟨{ t with hash := h' }, by simp [arrResetValue_out t.arr i (some v) h, e], i', a', sp⟩

/-- `reset` preserves the invariant and the positions -/
theorem reset_inv (t : Mixed) (inv : Inv hash t) (k : Key) (v : Val) :
    ∃ t' w, reset hash t k v = some (t', w) ∧ Inv hash t' ∧ SamePositions t t' := by
  obtain ⟨t', e, i, _, sp⟩ := reset_spec hash t inv k v
  exact ⟨t', _, e, i, sp⟩

end
end GoluaVerif.Model.Table
