/-
  Base.F64Add — exact IEEE-754 binary64 addition (round to nearest, ties to even)
  on the `F64` value model: the exact sum of two finite doubles is an integer
  number of units 2^-1074; it is rounded to 53 significant bits by `roundNat` and
  overflows to ±∞ at 2^1024.  Used by the numeric-for model/spec (C16).
  Validated against the hardware `+` by `oracle c16` lines `fadd x y`.
  Core Lean only.
-/
import GoluaVerif.Base.F64
namespace GoluaVerif
namespace F64

/-- first magnitude (in units) that is no longer finite: 2^1024 -/
def overflowMag : Nat := 2 ^ (1024 + 1074)

/-- round the exact value `k` (in units of 2^-1074) to a double; `negZero` is the sign of an exact zero -/
def ofExact (negZero : Bool) (k : Int) : F64 :=
  if k = 0 then fin negZero 0
  else
    let m := roundNat k.natAbs
    if m < overflowMag then fin (decide (k < 0)) m else inf (decide (k < 0))

/-- IEEE `a + b` -/
def fadd : F64 → F64 → F64
  | nan, _ => nan
  | _, nan => nan
  | inf a, inf b => if a = b then inf a else nan
  | inf a, fin _ _ => inf a
  | fin _ _, inf b => inf b
  | fin na ma, fin nb mb => ofExact (na && nb) ((fin na ma).key + (fin nb mb).key)

def zero : F64 := fin false 0

/-- Go `x > 0` -/
def isPos (x : F64) : Bool := blt zero x
/-- Go `x == 0` -/
def isZero (x : F64) : Bool := beq x zero

end F64
end GoluaVerif
