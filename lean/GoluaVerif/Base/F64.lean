/-
  Base.F64 — an exact, kernel-transparent model of IEEE-754 binary64 *values*.

  Lean's `Float` is opaque to the kernel, so theorems are stated over this type:
  NaN, ±∞, or a finite value ±mag·2^-1074 (every finite double is an integer
  multiple of 2^-1074).  `decode`/`encode` relate it to the 64-bit pattern that
  the Go side prints; `ofInt`, `toI64`, and the IEEE comparisons model what Go's
  `float64(n)`, `int64(f)` (amd64 CVTTSD2SI: 0x8000000000000000 for NaN / out
  of range) and `<  <=  ==` on float64 do.  Core Lean only.
-/
import GoluaVerif.Base.I64
namespace GoluaVerif

inductive F64 where
  | nan
  | inf (neg : Bool)
  | fin (neg : Bool) (mag : Nat)
  deriving DecidableEq, Repr, Inhabited

namespace F64

/-- the unit: every finite double is `mag * 2^-1074`; an integer `n` is `n * scale` units -/
def scale : Nat := 2 ^ 1074
/-- strictly above every finite magnitude (largest finite is < 2^1024 · 2^1074) -/
def huge : Nat := 2 ^ 2100

/-- Round a natural number to 53 significant bits, ties to even. -/
def roundNat (a : Nat) : Nat :=
  if a < 2 ^ 53 then a else
    let k := Nat.log2 a - 52
    let q := a / 2 ^ k
    let r := a % 2 ^ k
    let half := 2 ^ (k - 1)
    let q' := if half < r ∨ (r = half ∧ q % 2 = 1) then q + 1 else q
    q' * 2 ^ k

/-- a finite magnitude is representable: at most 53 significant bits and below 2^1024 (in units) -/
def magOK (m : Nat) : Bool := roundNat m == m && m < 2 ^ (1024 + 1074)

def WF : F64 → Bool
  | nan => true
  | inf _ => true
  | fin _ m => magOK m

def isNaN : F64 → Bool
  | nan => true
  | _ => false

/-- order-embedding of the non-NaN values into ℤ (−0 and +0 both map to 0) -/
def key : F64 → Int
  | nan => 0
  | inf false => (huge : Int)
  | inf true => -(huge : Int)
  | fin false m => (m : Int)
  | fin true m => -(m : Int)

/-- IEEE `<` -/
def blt (a b : F64) : Bool := !a.isNaN && !b.isNaN && decide (a.key < b.key)
/-- IEEE `<=` -/
def ble (a b : F64) : Bool := !a.isNaN && !b.isNaN && decide (a.key ≤ b.key)
/-- IEEE `==` -/
def beq (a b : F64) : Bool := !a.isNaN && !b.isNaN && decide (a.key = b.key)

/-- Go `float64(n)` for an integer `n` with |n| ≤ 2^64 (round to nearest even; never overflows) -/
def ofInt (n : Int) : F64 := fin (decide (n < 0)) (roundNat n.natAbs * scale)

def ofI64 (n : I64) : F64 := ofInt n.toInt

/-- Go `int64(f)` on amd64: truncate toward zero; `minInt` for NaN, ±∞ and out-of-range. -/
def toI64 : F64 → I64
  | fin neg m =>
    let t : Int := (m / scale : Nat)
    let v : Int := if neg then -t else t
    if -(2 ^ 63 : Int) ≤ v ∧ v < (2 ^ 63 : Int) then BitVec.ofInt 64 v else I64.minInt
  | _ => I64.minInt

/-- the exact value of an integer in units, for comparison against `key` -/
def intKey (n : Int) : Int := n * (scale : Int)

/-! ### bit patterns -/

def decode (b : BitVec 64) : F64 :=
  let neg := b.msb
  let e := (b.toNat / 2 ^ 52) % 2048
  let m := b.toNat % 2 ^ 52
  if e = 2047 then (if m = 0 then inf neg else nan)
  else if e = 0 then fin neg m
  else fin neg ((2 ^ 52 + m) * 2 ^ (e - 1))

/-- inverse of `decode` on well-formed values (NaN ↦ the canonical quiet NaN) -/
def encode : F64 → BitVec 64
  | nan => 0x7FF8000000000001#64
  | inf neg => BitVec.ofNat 64 ((if neg then 2 ^ 63 else 0) + 2047 * 2 ^ 52)
  | fin neg m =>
    let s := if neg then 2 ^ 63 else 0
    if m < 2 ^ 52 then BitVec.ofNat 64 (s + m)
    else
      let k := Nat.log2 m - 52
      BitVec.ofNat 64 (s + (k + 1) * 2 ^ 52 + (m / 2 ^ k - 2 ^ 52))

/-- exact `math.Mod` (C fmod) on finite operands: sign of the dividend, always representable -/
def fmod (a b : F64) : F64 :=
  match a, b with
  | nan, _ => nan
  | _, nan => nan
  | inf _, _ => nan
  | fin _ _, fin _ 0 => nan
  | fin n m, inf _ => fin n m
  | fin n m, fin _ d => fin n (m % d)

def neg : F64 → F64
  | nan => nan
  | inf s => inf (!s)
  | fin s m => fin (!s) m

end F64
end GoluaVerif
