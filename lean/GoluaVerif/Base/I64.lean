/-
  Base.I64 — Go's int64 / uint64 as `BitVec 64`, with the operations the
  translated Go code uses.  Core Lean only.
-/
namespace GoluaVerif

abbrev I64 := BitVec 64

namespace I64

def minInt : I64 := BitVec.intMin 64
def maxInt : I64 := BitVec.intMax 64

/-- Go `x / y` on int64 (truncating; `minint / -1 = minint`; y ≠ 0 is the caller's duty). -/
@[inline] def div (x y : I64) : I64 := BitVec.sdiv x y
/-- Go `x % y` on int64 (sign of dividend). -/
@[inline] def rem (x y : I64) : I64 := BitVec.srem x y
/-- Go `x < y` on int64. -/
@[inline] def lt (x y : I64) : Bool := BitVec.slt x y
@[inline] def le (x y : I64) : Bool := BitVec.sle x y
/-- Go `uint64(x) << uint64(n)`: zero when the count is ≥ 64. -/
@[inline] def shlU (x n : I64) : I64 := if n.toNat < 64 then x <<< n.toNat else 0#64
/-- Go `uint64(x) >> uint64(n)`: zero when the count is ≥ 64. -/
@[inline] def shrU (x n : I64) : I64 := if n.toNat < 64 then x >>> n.toNat else 0#64

end I64
end GoluaVerif
