/-
  Props.C07 — nested execution contexts conserve budgets and report status truthfully.

  Every statement is about `Model.Ctx` (the mirror of runtime/runtimecontextmanager.go that the
  oracle runs against the real *Runtime on every check) built on the leaf functions REGENERATED
  from runtime/runtimecontext.go (`Generated.Resources`), so a change to Remove / Merge / atLimit /
  smallerLimit / Dominates or to the flag constants re-opens these obligations.

  "legal" history = how CallContext uses the API: once a context is no longer live, nothing but
  its PopContext (and read-only queries) happens in it.  `Inv` is the invariant of DESIGN §6.
-/
import GoluaVerif.Proofs.Ctx
import GoluaVerif.Proofs.Propagate
namespace GoluaVerif.Props.C07
open GoluaVerif.Generated.Resources GoluaVerif.Model.Ctx GoluaVerif.Spec.Quota GoluaVerif.Proofs.Ctx
open GoluaVerif.Model.CallCtx GoluaVerif.Proofs.CallCtx GoluaVerif.Proofs.Propagate

/-! ## PushContext -/

/-- the code's saturating `Remove` is the spec's "what is left" -/
theorem remove_is_remaining (h u : RuntimeResources) :
    (h.Remove u).Cpu = remaining h.Cpu u.Cpu ∧ (h.Remove u).Memory = remaining h.Memory u.Memory ∧
    (h.Remove u).Millis = remaining h.Millis u.Millis := by
  have key : ∀ (x : BitVec 64) (a b : BitVec 64), x.toNat = a.toNat - b.toNat → x = remaining a b := by
    intro x a b hx
    apply BitVec.eq_of_toNat_eq
    unfold remaining
    split
    · rename_i h0; subst h0; simpa using hx
    · rw [hx, BitVec.toNat_ofNat]; symm; apply Nat.mod_eq_of_lt; have := a.isLt; omega
  exact ⟨key _ _ _ (Remove_Cpu h u), key _ _ _ (Remove_Memory h u), key _ _ _ (Remove_Millis h u)⟩

/-- A child never gets more hard CPU, memory or time than its parent has left (0 = unlimited), nor
more than it asked for. -/
theorem push_hard_le_remaining (s : St) (d : CtxDef) :
    limLe (push s d).cur.hard.Cpu (remaining s.cur.hard.Cpu s.cur.used.Cpu) ∧
    limLe (push s d).cur.hard.Memory (remaining s.cur.hard.Memory s.cur.used.Memory) ∧
    limLe (push s d).cur.hard.Millis (remaining s.cur.hard.Millis s.cur.used.Millis) ∧
    resLe (push s d).cur.hard d.hard := by
  have h := child_hard_le_remaining s.cur d
  have r := remove_is_remaining s.cur.hard s.cur.used
  unfold resLe at h
  rw [r.1, r.2.1, r.2.2] at h
  exact ⟨h.1, h.2.1, h.2.2, child_hard_le_def s.cur d⟩

/-- in a reachable state "what is left" is a genuine finite positive amount whenever the parent is
limited, so the bound above is not the vacuous `⊑ ∞` -/
theorem remaining_pos_of_inv {s : St} (h : Inv s) (hL : s.cur.hard.Cpu ≠ 0#64) :
    0 < (remaining s.cur.hard.Cpu s.cur.used.Cpu).toNat ∧
    (remaining s.cur.hard.Cpu s.cur.used.Cpu).toNat = s.cur.hard.Cpu.toNat - s.cur.used.Cpu.toNat := by
  have hr := (remove_is_remaining s.cur.hard s.cur.used).1
  have hn := Remove_Cpu s.cur.hard s.cur.used
  rw [hr] at hn
  rcases h.1.cpu with h0 | hlt
  · exact absurd h0 hL
  · exact ⟨by omega, hn⟩

theorem push_soft_le_hard (s : St) (d : CtxDef) :
    resLe (push s d).cur.soft (push s d).cur.hard ∧ resLe (push s d).cur.soft d.soft ∧
    resLe (push s d).cur.soft s.cur.soft :=
  ⟨child_soft_le_hard s.cur d, child_soft_le_def s.cur d, child_soft_le_parent_soft s.cur d⟩

theorem push_flags_superset (s : St) (d : CtxDef) :
    flagsSuperset (push s d).cur.flags s.cur.flags ∧ flagsSuperset (push s d).cur.flags d.flags :=
  ⟨child_flags_superset s.cur d, child_flags_def s.cur d⟩

/-- a hard limit in the definition forces the matching compliance flag -/
theorem push_implied_flags (s : St) (d : CtxDef) :
    (d.hard.Cpu ≠ 0#64 → flagsSuperset (push s d).cur.flags ComplyCpuSafe) ∧
    (d.hard.Memory ≠ 0#64 → flagsSuperset (push s d).cur.flags ComplyMemSafe) ∧
    (d.hard.Millis ≠ 0#64 → flagsSuperset (push s d).cur.flags ComplyTimeSafe) := by
  have key : ∀ (x a b c : BitVec 16), x &&& (a ||| (x ||| b ||| c)) = x := by
    intro x a b c; ext i; simp; intro h; exact Or.inr (Or.inl (Or.inl h))
  have key2 : ∀ (x a b c : BitVec 16), x &&& (a ||| (b ||| x ||| c)) = x := by
    intro x a b c; ext i; simp; intro h; exact Or.inr (Or.inl (Or.inr h))
  have key3 : ∀ (x a b c : BitVec 16), x &&& (a ||| (b ||| c ||| x)) = x := by
    intro x a b c; ext i; simp; intro h; exact Or.inr (Or.inr h)
  refine ⟨fun h => ?_, fun h => ?_, fun h => ?_⟩
  · show ComplyCpuSafe &&& (s.cur.flags ||| d.flags ||| impliedFlags d.hard) = ComplyCpuSafe
    unfold impliedFlags; rw [(ult_zero_iff _).mpr h, if_pos rfl]; exact key _ _ _ _
  · show ComplyMemSafe &&& (s.cur.flags ||| d.flags ||| impliedFlags d.hard) = ComplyMemSafe
    unfold impliedFlags; rw [(ult_zero_iff _).mpr h, if_pos rfl]; exact key2 _ _ _ _
  · show ComplyTimeSafe &&& (s.cur.flags ||| d.flags ||| impliedFlags d.hard) = ComplyTimeSafe
    unfold impliedFlags; rw [(ult_zero_iff _).mpr h, if_pos rfl]; exact key3 _ _ _ _

/-- a new context starts live with nothing used -/
theorem push_fresh (s : St) (d : CtxDef) :
    (push s d).cur.used = Res.zero ∧ (push s d).cur.status = StatusLive ∧ (push s d).parents = s.cur :: s.parents :=
  ⟨rfl, rfl, rfl⟩

/-! ## the invariant, over all histories -/

theorem inv_initial : Inv St.init := inv_init

/-- every legal operation preserves the invariant — no hypothesis on amounts: uint64 wrap-around in
`used + n` cannot break it because the limit test is made on the wrapped value -/
theorem inv_preserved {s : St} (op : Op) (h : Inv s) (hl : legalOp s op = true) : Inv (step s op).1 :=
  inv_step op h hl

/-- the invariant holds in every state reachable from a fresh runtime by a legal history of any length -/
theorem inv_reachable {s : St} (hr : Reachable St.init s) : Inv s :=
  Proofs.Ctx.inv_reachable inv_init hr

/-- `used` never reaches `kill` (a fortiori never exceeds it), in the active context and all parents -/
theorem used_lt_hard {s : St} (hr : Reachable St.init s) :
    ∀ f ∈ s.frames, below f.used.Cpu f.hard.Cpu ∧ below f.used.Memory f.hard.Memory := by
  have h := inv_reachable hr
  obtain ⟨c, ps⟩ := s
  obtain ⟨hc, hch⟩ := h
  have aux : ∀ (c : Frame) (ps : List Frame), ChainInv c ps →
      ∀ f ∈ ps, below f.used.Cpu f.hard.Cpu ∧ below f.used.Memory f.hard.Memory := by
    intro c ps
    induction ps generalizing c with
    | nil => intro _ f hf; cases hf
    | cons p ps ih =>
      intro h f hf
      rcases List.mem_cons.mp hf with rfl | hf
      · exact ⟨h.2.1.cpu, h.2.1.mem⟩
      · exact ih p h.2.2.2 f hf
  intro f hf
  rcases List.mem_cons.mp hf with rfl | hf
  · exact ⟨hc.cpu, hc.mem⟩
  · exact aux c ps hch f hf

/-- soft limits stay within hard limits in every reachable state -/
theorem soft_le_hard_reachable {s : St} (hr : Reachable St.init s) : resLe s.cur.soft s.cur.hard :=
  (inv_reachable hr).1.soft

/-- every context's hard budget is within what its parent has left, and it carries its parent's flags -/
theorem child_within_parent {s : St} (hr : Reachable St.init s) {p : Frame} {ps : List Frame}
    (hp : s.parents = p :: ps) :
    resLe s.cur.hard (p.hard.Remove p.used) ∧ flagsSuperset s.cur.flags p.flags := by
  have h := (inv_reachable hr).2
  rw [hp] at h
  exact ⟨h.1.hard, h.1.flags⟩

/-! ## PopContext -/

/-- Under the invariant PopContext never terminates the parent (so the deferred pop of CallContext
cannot panic and misalign the stack) and charges it with exactly what the child used: CPU and
memory are added, without wrap-around, whenever the parent is limited. -/
theorem pop_charges_parent {s : St} (h : Inv s) {p : Frame} {ps : List Frame} (hp : s.parents = p :: ps) :
    (step s .pop).2 = .ok ∧ (step s .pop).1.parents = ps ∧
    (step s .pop).1.cur = charged p s.cur ∧
    (p.hard.Cpu ≠ 0#64 → (step s .pop).1.cur.used.Cpu.toNat = p.used.Cpu.toNat + s.cur.used.Cpu.toNat) ∧
    (p.hard.Memory ≠ 0#64 →
      (step s .pop).1.cur.used.Memory.toNat = p.used.Memory.toNat + s.cur.used.Memory.toNat) ∧
    (step s .pop).1.cur.hard = p.hard ∧ (step s .pop).1.cur.soft = p.soft ∧
    (step s .pop).1.cur.status = p.status := by
  obtain ⟨c, ps'⟩ := s
  simp only at hp; subst hp
  obtain ⟨hc, hcp, hpo, hpl, _⟩ := h
  have hpop := pop_ok (ps := ps) hc hpo hpl hcp
  have hs := charged_same p c
  have hcs := chargeCpu_same p c.used.Cpu
  have hms := chargeMem_same (chargeCpu p c.used.Cpu) c.used.Memory
  have e : step ⟨c, p :: ps⟩ .pop = (⟨charged p c, ps⟩, .ok) := hpop
  simp only [e]
  refine ⟨trivial, trivial, trivial, ?_, ?_, hs.1, hs.2.1, hs.2.2.2.1⟩
  · intro h0
    show (charged p c).used.Cpu.toNat = _
    unfold charged; rw [hms.2.2.2.2.2.1]; unfold chargeCpu; rw [hpo.tcpu h0]
    exact (charge_cpu_below hc hpo hcp).2 h0
  · intro h0
    show (charged p c).used.Memory.toNat = _
    unfold charged chargeMem; rw [hcs.2.2.2.2.2.2.2.2, hpo.tmem h0, if_pos rfl]
    show (((chargeCpu p c.used.Cpu).used.Memory) + c.used.Memory).toNat = _
    rw [hcs.2.2.2.2.2.1]
    exact (charge_mem_below hc hpo hcp).2 h0

/-- what PopContext hands back reports `done` exactly for a context that was still live -/
theorem pop_status (f : Frame) :
    (f.status = StatusLive → f.popped.status = StatusDone) ∧ (f.status ≠ StatusLive → f.popped.status = f.status) := by
  unfold Frame.popped Frame.live
  constructor
  · intro h; simp [h]
  · intro h; simp [h]

/-! ## conservation -/

/-- No arrangement of nested contexts does more work than the outermost limit allows: in any legal
history of any length run inside a context with hard CPU limit `L > 0`, whose request amounts
cannot wrap a 64-bit counter (`n + L ≤ 2^64`; from Lua `L < 2^63` and amounts are lengths `< 2^63`),
what the context had used plus everything granted to it and to all its descendants is `< L`. -/
theorem conservation (f : Frame) (ops : List Op) (hf : FrameOk f) (hL : f.hard.Cpu ≠ 0#64)
    (hl : Legal ⟨f, []⟩ ops) (hno : NoOverflow f.hard.Cpu ops) :
    f.used.Cpu.toNat + granted ⟨f, []⟩ ops < f.hard.Cpu.toNat := by
  have hinv : Inv ⟨f, []⟩ := ⟨hf, trivial⟩
  have hsum := sum_run (s := ⟨f, []⟩) hinv hL hl hno
  have hroot := rootHard_run (s := ⟨f, []⟩) hinv hL hl hno
  have hlt := sum_lt_root (inv_run hinv hl) (by rw [hroot]; exact hL)
  rw [hroot, hsum] at hlt
  simpa [St.frames, sumCpu, rootHard] using hlt

/-- the same anywhere in a stack: CPU recorded on the stack plus work granted stays below the
outermost limit, and the accounting is exact (nothing is lost or counted twice by push/pop) -/
theorem conservation_nested {s : St} (ops : List Op) (h : Inv s) (hL : rootHard s.cur s.parents ≠ 0#64)
    (hl : Legal s ops) (hno : NoOverflow (rootHard s.cur s.parents) ops) :
    sumCpu (run s ops).frames = sumCpu s.frames + granted s ops ∧
    sumCpu s.frames + granted s ops < (rootHard s.cur s.parents).toNat := by
  have hsum := sum_run h hL hl hno
  have hroot := rootHard_run h hL hl hno
  have hlt := sum_lt_root (inv_run h hl) (by rw [hroot]; exact hL)
  rw [hroot, hsum] at hlt
  exact ⟨hsum, hlt⟩

def cexFrame : Frame := Frame.root.child ⟨⟨10#64, 0#64, 0#64⟩, Res.zero, 0#16⟩
def cexOps : List Op := [.reqCpu 1#64, .reqCpu 18446744073709551615#64, .reqCpu 1#64, .reqCpu 18446744073709551615#64]

/-- Without the no-overflow hypothesis conservation is FALSE of the current code: `used + n` wraps,
so a request of 2^64 − 1 after one tick is granted and resets the counter; the pair can be repeated
for ever under a limit of 10. -/
theorem conservation_counterexample :
    FrameOk cexFrame ∧ cexFrame.hard.Cpu = 10#64 ∧ Legal ⟨cexFrame, []⟩ cexOps ∧
    outcomes ⟨cexFrame, []⟩ cexOps = [.ok, .ok, .ok, .ok] ∧
    ¬ (cexFrame.used.Cpu.toNat + granted ⟨cexFrame, []⟩ cexOps < cexFrame.hard.Cpu.toNat) ∧
    (run ⟨cexFrame, []⟩ cexOps).cur.used.Cpu = 0#64 := by
  refine ⟨child_frameOk _ frameOk_root rfl, by decide, by decide, by decide, by decide, by decide⟩

def abuseOps : List Op :=
  [.push ⟨⟨5#64, 0#64, 0#64⟩, Res.zero, 0#16⟩, .reqCpu 5#64, .reqCpu 7#64, .push CtxDef.none]

/-- Why histories must be legal: the raw API lets a caller keep using a killed context, whose
counter then passes its limit, and a context pushed on top of it is unlimited. (CallContext never
does this; recorded as a property of the exported API.) -/
theorem illegal_history_escapes_counterexample :
    ¬ Legal St.init abuseOps ∧ outcomes St.init abuseOps = [.ok, .terminated, .ok, .ok] ∧
    (run St.init abuseOps).cur.hard.Cpu = 0#64 ∧ ¬ Inv (run St.init (abuseOps.take 3)) := by
  refine ⟨by decide, by decide, by decide, ?_⟩
  intro h
  have := h.1.cpu
  revert this
  decide

/-! ## due -/

/-- `due` is true exactly when a soft stop was requested or a soft limit is reached -/
theorem due_iff (f : Frame) :
    f.due = true ↔ (f.stop &&& SoftStop ≠ 0#8 ∨ ¬ resBelow f.used f.soft) := by
  unfold Frame.due
  rw [Bool.or_eq_true, bne_iff_ne, Bool.not_eq_true', ← Bool.not_eq_true, Dominates_iff]

/-- reaching a soft limit never kills: a CPU request that stays under the hard limit succeeds -/
theorem soft_limit_does_not_kill (f : Frame) (n : BitVec 64) (hl : f.live = true)
    (hs : f.hardStopped = false) (hb : below (f.used.Cpu + n) f.hard.Cpu) : (f.requireCPU n).2 = .ok := by
  rw [requireCPU_charge f n hl hs ((atLimit_false_iff _ _).mpr hb)]

/-! ## CallContext: status and stack discipline -/

/-- **status is truthful**: every context handed back by a (nested) CallContext reports `done`
exactly when its body ran to the end, `error` when the body returned a Lua error, `killed` when it
was terminated — for every well-formed body of any size, from every state satisfying the
invariant. -/
theorem status_truthful (s : St) (it : Item) (hw : it.wf = true) (hi : Inv s) (hl : s.cur.live = true) :
    ∀ r ∈ (exec s it).1.results, Truthful r :=
  (good_item (Acc.start s) it hw hi hl).truthful (fun _ h => nomatch h)

/-- **the stack stays aligned**: whatever happens inside (kills at any depth, errors, foreign
panics), after a bracketed call the parents are those before (`LowerL`: the same frames, possibly
with lower memory counters if the call released memory they had required — commit 8007e69), the invariant holds again,
and unless the active context itself was terminated it is still live. -/
theorem call_keeps_stack_aligned (s : St) (it : Item) (hw : it.wf = true) (hi : Inv s) (hl : s.cur.live = true) :
    LowerL (exec s it).1.st.parents s.parents ∧ Inv (exec s it).1.st ∧
    ((∀ res, (exec s it).2 ≠ .killed res) → (exec s it).1.st.cur.live = true) ∧
    (∀ res, (exec s it).2 = .killed res → (exec s it).1.st.cur.status = StatusKilled) := by
  have g := good_item (Acc.start s) it hw hi hl
  exact ⟨g.parents, g.inv, g.live, g.killed⟩

/-- a whole program under `rt.New` + one CallContext leaves the runtime's root context as it found it -/
theorem call_from_root_returns_to_root (d : CtxDef) (body hs : List Item) (hw : wfBody body = true)
    (hwh : wfBody hs = true) :
    (exec St.init (.call d body hs)).1.st.parents = [] ∧ Inv (exec St.init (.call d body hs)).1.st :=
  let g := call_keeps_stack_aligned St.init (.call d body hs) (by unfold Item.wf; rw [hw, hwh]; rfl) inv_init rfl
  ⟨by have h := g.1; generalize (exec St.init (.call d body hs)).1.st.parents = l at h; cases h; rfl, g.2.1⟩

/-- **a foreign panic is popped for before it is re-raised** (the threadClose of coroutine.close, a Go
runtime error, "Too much mem released": everything that is not a ContextTerminationError): when the
body or a handler of a call unwinds with such a panic, the call re-raises it (`crashed`) only AFTER
PopContext — the state it leaves is the parent charged with what the child had used, on top of the
frames that were below; no result is handed back and no event is added. -/
theorem foreign_panic_pops_before_repanic (a : Acc) (d : CtxDef) (body hs : List Item) (hwb : wfBody body = true)
    (hwh : wfBody hs = true) (hi : Inv a.st) (hl : a.st.cur.live = true)
    (hc : (runCall a d body hs).2 = .crashed) :
    ∃ p' ps', (runCall a d body hs).1.st.parents = p' :: ps' ∧ Lower p' a.st.cur ∧ LowerL ps' a.st.parents ∧
      runItem a (.call d body hs) =
        ({ (runCall a d body hs).1 with st := ⟨charged p' (runCall a d body hs).1.st.cur, ps'⟩ }, .crashed) := by
  have gb := good_call a d body hs hwb hwh hi hl
  cases hr : runCall a d body hs with
  | mk a1 ex =>
    rw [hr] at gb hc
    simp only at hc; subst hc
    obtain ⟨p', ps', hpe, hlp, hlps, _, _, _, _, _, hrun⟩ := call_unfold a d body hs a1 _ hr gb hl
    have hab : afterBody Exit.crashed a1.st = a1.st := (afterBody_same Exit.crashed a1.st).2.2.2.2 (fun c => nomatch c)
    rw [hab] at hrun
    exact ⟨p', ps', hpe, hlp, hlps, by rw [hrun]; rfl⟩

/-! ## pending to-be-closed handlers run in the context being left, before its status is set -/

/-- **order**: `CallContext` runs the pending close handlers (`cleanupCloseStack(c, h, f())`) in the
pushed context after its body has ended normally or with an error — never after a termination or a
foreign panic — and only then sets the status and pops: the call is "pop after (body; handlers)". -/
theorem close_handlers_then_status (a : Acc) (d : CtxDef) (body hs : List Item) :
    runCall a d body hs =
      (match runBody { a with st := push a.st d } body with
       | (a1, .done) => runHandlers a1 .done hs
       | (a1, .error) => runHandlers a1 .error hs
       | (a1, e) => (a1, e)) ∧
    (∀ a1 res, runBody { a with st := push a.st d } body = (a1, .killed res) → runCall a d body hs = (a1, .killed res)) := by
  refine ⟨rfl, fun a1 res h => ?_⟩
  unfold runCall; rw [h]

/-- **handlers run under the limits of the context being left**: the body and its handlers run in
the same frame — the invariant holds throughout, the frame's hard limits and inherited flags are
those set at push, it is live when each handler starts, and if a handler is terminated the frame
is `killed` — so the context handed back reports `killed`, not `error`, whenever a handler ran
into the limit (`status_truthful` covers the status, this theorem the frame). -/
theorem close_handlers_run_under_limits (a : Acc) (d : CtxDef) (body hs : List Item) (hwb : wfBody body = true)
    (hwh : wfBody hs = true) (hi : Inv a.st) (hl : a.st.cur.live = true) :
    Inv (runCall a d body hs).1.st ∧
    (runCall a d body hs).1.st.cur.hard = (a.st.cur.child d).hard ∧
    ((∀ res, (runCall a d body hs).2 ≠ .killed res) → (runCall a d body hs).1.st.cur.live = true) ∧
    (∀ res, (runCall a d body hs).2 = .killed res → (runCall a d body hs).1.st.cur.status = StatusKilled) := by
  have g := good_call a d body hs hwb hwh hi hl
  exact ⟨g.inv, g.hard, g.live, g.killed⟩

/-- **a handler that needs more than the context has left ends it `killed`**: after a body that ran
to its end or raised an error in a CPU-metered context, if the pending handlers (requests and
limit-less brackets) ask for at least what is left, the call's body+handlers exit is a CPU
termination with the frame `killed` and the refused request as the last operation — the error the
body had raised does not survive as status `error`. -/
theorem close_handler_past_limit_kills (a1 : Acc) (e : Exit) (hs : List Item) (he : e = .done ∨ e = .error)
    (hw : bodyPcallCpu hs = true) (hi : Inv a1.st) (hm : Metered a1.st.cur)
    (hf : bodyFits a1.st.cur.hard.Cpu.toNat hs)
    (hge : a1.st.cur.hard.Cpu.toNat ≤ a1.st.cur.used.Cpu.toNat + bodyCost hs) :
    (runHandlers a1 e hs).2 = .killed .cpu ∧ (runHandlers a1 e hs).1.st.cur.status = StatusKilled := by
  -- handlers made of requests and brackets never raise, so they run like a body
  have key : ∀ (hs : List Item) (a : Acc) (e : Exit), bodyPcallCpu hs = true → (e = .done ∨ e = .error) →
      ((runBody a hs).2 = .done → runHandlers a e hs = ((runBody a hs).1, e)) ∧
      (∀ r, (runBody a hs).2 = .killed r → runHandlers a e hs = runBody a hs) := by
    intro hs
    induction hs with
    | nil => intro a e _ _; exact ⟨fun _ => rfl, fun r h => by simp [runBody] at h⟩
    | cons h rest ih =>
      intro a e hw he
      have hw' : h.pcallCpu = true ∧ bodyPcallCpu rest = true := by
        have := hw; unfold bodyPcallCpu at this; simpa using this
      unfold runHandlers runBody
      cases hr : runItem a h with
      | mk a2 e2 =>
        cases e2 with
        | done => simp only; exact ih a2 e hw'.2 he
        | error => simp only; exact ⟨(fun c => nomatch c), (fun r c => nomatch c)⟩
        | killed r => simp only; exact ⟨(fun c => nomatch c), (fun _ _ => trivial)⟩
        | crashed => simp only; exact ⟨(fun c => nomatch c), (fun r c => nomatch c)⟩
  have ex := (exact_body a1 hs hw hi hm hf).die hge
  rw [(key hs a1 e hw he).2 .cpu ex.1]
  exact ⟨ex.1, ex.2.1⟩

/-! ## non-vacuity -/

def exDef : CtxDef := ⟨⟨100#64, 1000#64, 0#64⟩, ⟨50#64, 0#64, 0#64⟩, 4#16⟩
def exOps : List Op :=
  [.push exDef, .reqCpu 30#64, .push ⟨⟨50#64, 0#64, 0#64⟩, Res.zero, 0#16⟩, .reqCpu 20#64, .reqMem 100#64,
   .push CtxDef.none, .reqCpu 29#64, .reqCpu 1#64, .pop, .pop, .reqCpu 10#64]

/-- a three-deep legal history in which a grandchild is killed by the budget inherited from its
grandparent, everything used is charged back, and the hypotheses of `conservation` hold -/
example : Legal St.init exOps ∧ (run St.init exOps).cur.used.Cpu = 89#64 ∧
    outcomes St.init exOps = [.ok, .ok, .ok, .ok, .ok, .ok, .ok, .terminated, .ok, .ok, .ok] := by decide

example : let f := (run St.init (exOps.take 1)).cur
    FrameOk f ∧ f.hard.Cpu = 100#64 ∧ Legal ⟨f, []⟩ (exOps.drop 1) ∧ NoOverflow f.hard.Cpu (exOps.drop 1) ∧
    granted ⟨f, []⟩ (exOps.drop 1) = 89 := by
  refine ⟨child_frameOk _ frameOk_root rfl, by decide, by decide, by decide, by decide⟩

example : Reachable St.init (run St.init (exOps.take 3)) :=
  .step _ (.step _ (.step _ .refl rfl) rfl) rfl

/-- `due` flips exactly at the soft limit (50) while the context stays live -/
example : (run St.init [.push exDef, .reqCpu 49#64]).cur.due = false ∧
    (run St.init [.push exDef, .reqCpu 50#64]).cur.due = true ∧
    (run St.init [.push exDef, .reqCpu 50#64]).cur.status = StatusLive := by decide

def exTree : Item :=
  .call exDef [.op (.reqCpu 30#64),
    .call ⟨⟨50#64, 0#64, 0#64⟩, Res.zero, 0#16⟩ [.op (.reqCpu 20#64), .call CtxDef.none [.op (.reqCpu 29#64), .op (.reqCpu 1#64)] [], .err] [],
    .call CtxDef.none [.op (.reqCpu 5#64), .err] [], .call CtxDef.none [.op (.reqCpu 1#64)] []] []

/-- one tree exhibiting all three statuses: the pcall grandchild is refused a tick by the budget it
inherited from the child (limit 50), which is therefore killed too and dies alone (its own limit is
tighter than what the top has left); a sibling ends in error, another completes, and the top context
is done with everything charged -/
example : exTree.wf = true ∧
    (exec St.init exTree).1.results.reverse.map (fun r => (r.depth, r.status, r.exit, r.used.Cpu)) =
      [(2, StatusKilled, .killed .cpu, 49#64), (2, StatusError, .error, 5#64), (2, StatusDone, .done, 1#64),
       (1, StatusDone, .done, 85#64)] ∧ (exec St.init exTree).1.st = St.init := by decide +kernel

/-- body raises an error with a pending handler that asks for more than is left: the context is
handed back `killed` (not `error`), having used 9 < 10; with a cheap handler it is `error` -/
example :
    (exec St.init (.call ⟨⟨10#64, 0#64, 0#64⟩, Res.zero, 0#16⟩ [.op (.reqCpu 4#64), .err] [.op (.reqCpu 5#64), .op (.reqCpu 7#64)])).1.results.map
      (fun r => (r.status, r.used.Cpu)) = [(StatusKilled, 9#64)] ∧
    (exec St.init (.call ⟨⟨10#64, 0#64, 0#64⟩, Res.zero, 0#16⟩ [.op (.reqCpu 4#64), .err] [.op (.reqCpu 5#64)])).1.results.map
      (fun r => (r.status, r.used.Cpu)) = [(StatusError, 9#64)] ∧
    (exec St.init (.call ⟨⟨10#64, 0#64, 0#64⟩, Res.zero, 0#16⟩ [.op (.reqCpu 4#64)] [.err, .op (.reqCpu 5#64)])).1.results.map
      (fun r => (r.status, r.used.Cpu)) = [(StatusError, 9#64)] := by decide +kernel

/-! ## the limit merge is a lattice meet (laws over the regenerated `Merge` / `Dominates`) -/

/-- `Merge` is the greatest lower bound of two limit vectors (0 = unlimited is the top): the child
of `PushContext` gets *exactly* the tighter of what is left and what was asked — never less. -/
theorem merge_greatest_lower_bound (r r1 x : RuntimeResources) (h : resLe x r) (h1 : resLe x r1) :
    resLe x (r.Merge r1) := by
  unfold resLe at *; rw [Merge_Cpu, Merge_Memory, Merge_Millis]
  exact ⟨pick_glb _ _ _ h.1 h1.1, pick_glb _ _ _ h.2.1 h1.2.1, pick_glb _ _ _ h.2.2 h1.2.2⟩

theorem merge_comm (r r1 : RuntimeResources) : r.Merge r1 = r1.Merge r := by
  apply res_ext <;> simp only [Merge_Cpu, Merge_Memory, Merge_Millis] <;> exact pick_comm _ _

theorem merge_idem (r : RuntimeResources) : r.Merge r = r := by
  apply res_ext <;> simp only [Merge_Cpu, Merge_Memory, Merge_Millis] <;> exact pick_idem _

theorem merge_assoc (a b c : RuntimeResources) : (a.Merge b).Merge c = a.Merge (b.Merge c) := by
  apply res_ext <;> simp only [Merge_Cpu, Merge_Memory, Merge_Millis] <;> exact pick_assoc _ _ _

/-- a counter vector is within the merged limits iff it is within both: nesting contexts can only
add constraints, and adds no constraint that neither level asked for -/
theorem dominates_merge_iff (r r1 v : RuntimeResources) :
    (r.Merge r1).Dominates v = true ↔ (r.Dominates v = true ∧ r1.Dominates v = true) := by
  simp only [Dominates_iff, resBelow, Merge_Cpu, Merge_Memory, Merge_Millis, below_pick_iff]
  constructor
  · rintro ⟨⟨a, b⟩, ⟨c, d⟩, ⟨e, f⟩⟩; exact ⟨⟨a, c, e⟩, ⟨b, d, f⟩⟩
  · rintro ⟨⟨a, c, e⟩, ⟨b, d, f⟩⟩; exact ⟨⟨a, b⟩, ⟨c, d⟩, ⟨e, f⟩⟩

/-- the child of `PushContext` has *exactly* the tighter of "what the parent has left" and "what
was asked", component by component: nothing that is below both is stricter than the child's limit -/
theorem push_hard_is_exact_meet (f : Frame) (d : CtxDef) (x : RuntimeResources)
    (h1 : resLe x (f.hard.Remove f.used)) (h2 : resLe x d.hard) : resLe x (f.child d).hard :=
  merge_greatest_lower_bound _ _ _ h1 h2

-- non-vacuity: a concrete pair of limit vectors where each side is the tighter one in some component
example : let r : RuntimeResources := { Cpu := 100#64, Memory := 0#64, Millis := 7#64 }
          let r1 : RuntimeResources := { Cpu := 0#64, Memory := 50#64, Millis := 9#64 }
          r.Merge r1 = { Cpu := 100#64, Memory := 50#64, Millis := 7#64 } ∧
          (r.Merge r1).Dominates { Cpu := 99#64, Memory := 49#64, Millis := 6#64 } = true ∧
          (r.Merge r1).Dominates { Cpu := 99#64, Memory := 50#64, Millis := 6#64 } = false := by decide

/-! ## laws of the regenerated saturating `Remove` -/

/-- `Remove` never hands back more than there was -/
theorem remove_le_self (h u : RuntimeResources) : cntLe (h.Remove u) h := by
  unfold cntLe; rw [Remove_Cpu, Remove_Memory, Remove_Millis]; omega

/-- nothing consumed, nothing removed -/
theorem remove_zero (h : RuntimeResources) :
    h.Remove { Cpu := 0#64, Memory := 0#64, Millis := 0#64 } = h := by
  apply res_ext <;> apply BitVec.eq_of_toNat_eq <;>
    simp only [Remove_Cpu, Remove_Memory, Remove_Millis, BitVec.toNat_ofNat, Nat.zero_mod, Nat.sub_zero]

/-- the more was consumed, the less is left: what a child can be given is antitone in the parent's
consumption at the moment of creation -/
theorem remove_antitone (h u u' : RuntimeResources) (hu : cntLe u u') : cntLe (h.Remove u') (h.Remove u) := by
  unfold cntLe at *; simp only [Remove_Cpu, Remove_Memory, Remove_Millis]; omega

/-- removing in two steps is removing the (unbounded) sum: saturation at 0 cannot be used to get
budget back by splitting a charge -/
theorem remove_remove (h a b : RuntimeResources) :
    ((h.Remove a).Remove b).Cpu.toNat = h.Cpu.toNat - (a.Cpu.toNat + b.Cpu.toNat) ∧
    ((h.Remove a).Remove b).Memory.toNat = h.Memory.toNat - (a.Memory.toNat + b.Memory.toNat) ∧
    ((h.Remove a).Remove b).Millis.toNat = h.Millis.toNat - (a.Millis.toNat + b.Millis.toNat) := by
  simp only [Remove_Cpu, Remove_Memory, Remove_Millis]; omega

example : let h : RuntimeResources := { Cpu := 100#64, Memory := 5#64, Millis := 0#64 }
          (h.Remove { Cpu := 30#64, Memory := 9#64, Millis := 1#64 }) = { Cpu := 70#64, Memory := 0#64, Millis := 0#64 } := by decide

/-! ## `smallerLimit` is a strict order with 0 on top -/

/-- the regenerated `smallerLimit` is a strict order on limits with 0 (= unlimited) as the greatest
element: irreflexive, asymmetric, transitive — so "the tighter limit" is well defined however many
contexts are nested -/
theorem smallerLimit_irrefl (n : BitVec 64) : smallerLimit n n = false := by
  cases h : smallerLimit n n
  · rfl
  · have := (sl_nat n n).mp h; omega

theorem smallerLimit_asymm (n m : BitVec 64) (h : smallerLimit n m = true) : smallerLimit m n = false := by
  cases h' : smallerLimit m n
  · rfl
  · have a := (sl_nat n m).mp h; have b := (sl_nat m n).mp h'; omega

theorem smallerLimit_trans (a b c : BitVec 64) (h1 : smallerLimit a b = true) (h2 : smallerLimit b c = true) :
    smallerLimit a c = true := by
  have x := (sl_nat a b).mp h1; have y := (sl_nat b c).mp h2
  exact (sl_nat a c).mpr (by omega)

theorem unlimited_is_top (n : BitVec 64) (h : n ≠ 0#64) : smallerLimit n 0#64 = true ∧ smallerLimit 0#64 n = false := by
  have hn : n.toNat ≠ 0 := fun c => h (BitVec.eq_of_toNat_eq (by simpa using c))
  constructor
  · exact (sl_nat n 0#64).mpr ⟨hn, Or.inl rfl⟩
  · cases h' : smallerLimit 0#64 n
    · rfl
    · have := (sl_nat 0#64 n).mp h'; simp at this

end GoluaVerif.Props.C07
