/-
  Props.C03_Examples — regression examples on the concrete reachable states on which the
  code used to be wrong (the same witnesses are replayed on the implementation by the
  correspondence: corpus/C03/witnesses.txt), and non-vacuity examples for the hypotheses used in
  Props/C03.lean.
-/
import GoluaVerif.Props.C03
namespace GoluaVerif.Props.C03
open GoluaVerif GoluaVerif.Spec GoluaVerif.Model.Table

/-- any hash will do for the witnesses: they live in linear mode -/
def h0 : Key → Nat := fun _ => 0

/-- the float 4.0 -/
def f4 : F64 := .fin false (4 * F64.scale)

/-- a table holding `4 ↦ 7` in its hash part (what `t = {}; t[4] = 7` builds) -/
def tHash4 : Mixed := ⟨some ⟨[⟨some (.int 4), some 7, 0, false, false⟩], none, 0⟩, none⟩

/-- a table with array part `{1 ↦ 5}` (size 1) and an empty one-slot hash part -/
def tArr1 : Mixed := ⟨some ⟨[Slot.zero], some 0, 0⟩, some ⟨[some 5], 1⟩⟩

/-- array part `{1 ↦ 5}` and hash part `{0 ↦ 6}` -/
def tArr1Zero : Mixed := ⟨some ⟨[⟨some (.int 0), some 6, 0, false, false⟩], none, 0⟩, some ⟨[some 5], 1⟩⟩

/-- hash part with one slot, full: `{"a" ↦ 1}` -/
def tFull : Mixed := ⟨some ⟨[⟨some (.str [97]), some 1, 0, false, false⟩], none, 0⟩, none⟩

example : Inv h0 tHash4 := by decide
example : Inv h0 tArr1 := by decide
example : Inv h0 tArr1Zero := by decide
example : Inv h0 tFull := by decide

/-- the witnesses are reachable: `tHash4` is what `t[4] = 7` builds from the empty table -/
example : run h0 Mixed.init [.set (.int 4) (some 7)] = some tHash4 := by decide

/-! ### regression examples: the states on which the code used to be wrong (fixed in /repo by
    aa81754, f302ac0, 2457de2, 7ad6bca; the model mirrors the fixed code) -/

/-- `Table.Reset(4.0, v)` finds the key 4 of the hash part -/
example : reset h0 tHash4 (.flt f4) 9 =
    some (⟨some ⟨[⟨some (.int 4), some 9, 0, false, false⟩], none, 0⟩, none⟩, true) := by
  decide +kernel

/-- `t[4.0] = v` does not consult `__newindex` when the raw key 4 is present -/
example : Model.Index.setIndexStep h0 tHash4 (.flt f4) (some 9) =
    some (.done ⟨some ⟨[⟨some (.int 4), some 9, 0, false, false⟩], none, 0⟩, none⟩) := by
  decide +kernel

/-- clearing the array-part field the traversal stands on: `next` goes on to the hash part -/
example : next h0 tArr1 none = some (.item (.int 1) 5) ∧
    remove h0 tArr1 (.int 1) = some (⟨some ⟨[Slot.zero], some 0, 0⟩, some ⟨[none], 0⟩⟩, true) ∧
    next h0 ⟨some ⟨[Slot.zero], some 0, 0⟩, some ⟨[none], 0⟩⟩ (some (.int 1)) = some .done := by
  decide

/-- the key 0 in a table with an array part: the traversal visits 1, then 0, then ends -/
example : next h0 tArr1Zero none = some (.item (.int 1) 5) ∧
    next h0 tArr1Zero (some (.int 1)) = some (.item (.int 0) 6) ∧
    next h0 tArr1Zero (some (.int 0)) = some .done := by
  decide

/-- `Table.Set` on an existing key of a full hash part assigns in place -/
example : insert h0 tFull (.str [97]) 2 =
    some ⟨some ⟨[⟨some (.str [97]), some 2, 0, false, false⟩], none, 0⟩, none⟩ := by
  decide

/-- non-vacuity of `Trav`: a complete traversal of `tHash4` during which the existing field is
    re-assigned through `Table.Set` while the (one-slot) hash part is full -/
example : Trav h0 tHash4 none [tHash4, ⟨some ⟨[⟨some (.int 4), some 8, 0, false, false⟩], none, 0⟩, none⟩] [(.int 4, 7)] :=
  Trav.step tHash4 _ none (.int 4) 7 _ [] (by decide)
    (Evolves.set tHash4 _ _ (.int 4) 8 (by decide) (by decide) (Evolves.refl _))
    (Trav.done _ (some (.int 4)) (by decide))

/-- non-vacuity of `NewKeyOK` / `insert_linear_mode`: inserting `"a"` into the empty one-slot table -/
example : InsertNewResult h0 ⟨[Slot.zero], some 0, 0⟩ 0 (.str [97]) 1 :=
  insert_linear_mode h0 ⟨[Slot.zero], some 0, 0⟩ 0 (.str [97]) 1 (by decide) (by decide)
    ⟨by decide, by decide, by intro z h; cases h⟩ (by decide)

end GoluaVerif.Props.C03
