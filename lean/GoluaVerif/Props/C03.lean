/-
  Props.C03 — property theorems for C03 (tables): `Model.Table` (the mirror of
  runtime/hashtable.go, for an ARBITRARY key hash) keeps the invariant `Inv` and refines
  `Spec.Map`.  Lemmas are in GoluaVerif/Proofs/C03*.lean.
-/
import GoluaVerif.Proofs.C03Len
import GoluaVerif.Proofs.C03Run
import GoluaVerif.Proofs.C03TravModel
import GoluaVerif.Proofs.C03Key
import GoluaVerif.Proofs.C03Reloc
import GoluaVerif.Proofs.C03Migrate
import GoluaVerif.Model.Index
namespace GoluaVerif.Props.C03
open GoluaVerif GoluaVerif.Spec GoluaVerif.Model.Table

/-- the empty table satisfies the invariant, for every hash function -/
theorem inv_init (hash : Key → Nat) : Inv hash Mixed.init :=
  ⟨fun _ h => by simp [Mixed.init] at h, fun _ h => by simp [Mixed.init] at h,
   fun _ h => by simp [Mixed.init] at h⟩

/-- the empty table denotes the empty map -/
theorem abs_init : ∀ k, abs Mixed.init k = Map.empty k := by
  intro k
  cases k with
  | int z => rw [abs_int_out Mixed.init z (not_inArr_none z)]; rfl
  | _ => rfl

/-- `findSlot` (linear mode and chain walk) neither panics nor diverges, and finds exactly the slot
    that holds the key -/
theorem findSlot_correct (hash : Key → Nat) (t : HashTable) (asize : Nat) (inv : HashInv hash t asize) (k : Key) :
    ∃ r, findSlot hash t.slots t.mask k = some r ∧
      (∀ i, r = some i → ∃ (h : i < t.slots.length), t.slots[i].key = some k) ∧
      (r = none → ∀ i (h : i < t.slots.length), t.slots[i].key ≠ some k) :=
  findSlot_spec hash t asize inv k

/-- `t[k]` returns what the abstract map holds for the normalised key: the value most recently
    assigned to any equal key (`1.0` ≡ `1`, `2^53` float ≡ int, `-0.0` ≡ `0`), else nil -/
theorem get_refines_map (hash : Key → Nat) (t : Mixed) (inv : Inv hash t) (k : Key) :
    get hash t k = some (abs t k.norm) :=
  get_refines hash t inv k

/-- `t[k] = nil`: no panic, `Inv` is kept, the abstract map is updated at the normalised key, the
    reported `wasSet` is "the key was present", and no key changes its position (tombstones) -/
theorem remove_refines_map (hash : Key → Nat) (t : Mixed) (inv : Inv hash t) (k : Key) :
    ∃ t', remove hash t k = some (t', (abs t k.norm).isSome) ∧ Inv hash t' ∧
      (∀ k', abs t' k' = (abs t).update k.norm none k') ∧ SamePositions t t' := by
  obtain ⟨t', e, i, a, p⟩ := remove_spec hash t inv k
  exact ⟨t', e, i, fun k' => by rw [a k']; rfl, p⟩

/-- `Table.Reset`: assigns iff the (normalised) key is present — this is what `SetIndex` relies on
    before consulting `__newindex` — and keeps every position -/
theorem reset_refines_map (hash : Key → Nat) (t : Mixed) (inv : Inv hash t) (k : Key) (v : Val) :
    ∃ t', reset hash t k v = some (t', (abs t k.norm).isSome) ∧ Inv hash t' ∧
      (∀ k', abs t' k' = ((abs t).reset k.norm (some v)).1 k') ∧ SamePositions t t' := by
  obtain ⟨t', e, i, a, p⟩ := reset_spec hash t inv k v
  refine ⟨t', e, i, ?_, p⟩
  intro k'
  rw [a k']
  unfold Map.reset
  by_cases hs : (abs t k.norm).isSome = true
  · simp [hs, Map.update]
  · simp [hs]

/-- `Table.Reset` keeps `Inv` and all positions for every key -/
theorem reset_keeps_inv (hash : Key → Nat) (t : Mixed) (inv : Inv hash t) (k : Key) (v : Val) :
    ∃ t' w, reset hash t k v = some (t', w) ∧ Inv hash t' ∧ SamePositions t t' :=
  reset_inv hash t inv k v

/-- `#t` stops and returns a border of the abstract map -/
theorem len_is_border (hash : Key → Nat) (t : Mixed) (inv : Inv hash t) :
    ∃ n, len hash t = some n ∧ Map.isBorder (abs t) n :=
  len_spec hash t inv

/-! ### insertion, growth, histories

  Everything here is proved outright, for an arbitrary hash function: the linear mode, the three
  hashed-mode cases of `insertNewKeyValue` with chain relocation, `hashTable.grow`/`cleanup` as
  repeated insertion into an empty table, and the array-migration branch of `mixedTable.grow`
  (including: `calculateArraySize` only ever asks for a power of two that makes at least one key
  leave the hash part, so `cleanup` always leaves a free slot). -/

/-- `insertNewKeyValue` in linear mode: the new key goes to `nextFree`, `updateNextFree` finds the
    next highest empty slot, `HashInv` is kept and exactly the new binding is added -/
theorem insert_linear_mode (hash : Key → Nat) (t : HashTable) (asize : Nat) (kk : Key) (v : Val)
    (inv : HashInv hash t asize) (hsm : t.mask < smallHashTableSize) (nk : NewKeyOK t.slots asize kk)
    (hnf : t.nextFree ≠ none) : InsertNewResult hash t asize kk v :=
  insertNew_small hash t asize kk v inv hsm nk hnf

/-- `insertNewKeyValue` in hashed mode, all three cases — empty primary slot; occupant chained (walk to
    its predecessor, move it to `nextFree`, relink); occupant in its primary slot (move it to
    `nextFree` flagged chained, new item becomes the head): no panic, the predecessor walk ends,
    `HashInv` (chains I1–I3, `nextFree`, no duplicates) is kept and exactly the new binding is added -/
theorem insert_chain_relocation (hash : Key → Nat) (t : HashTable) (asize : Nat) (kk : Key) (v : Val)
    (inv : HashInv hash t asize) (hm : smallHashTableSize ≤ t.mask) (nk : NewKeyOK t.slots asize kk)
    (hnf : t.nextFree ≠ none) : InsertNewResult hash t asize kk v :=
  hashedInsertOK hash t asize kk v inv hm nk hnf

/-- `hashTable.grow`: the rebuilt table has twice the slots, satisfies `HashInv`, holds the same
    bindings and has a free slot -/
theorem hash_grow (hash : Key → Nat) (h : Option HashTable) (asize : Nat) (inv : HashInvO hash h asize) :
    ∃ h', hGrow hash h = some h' ∧ HashInv hash h' asize ∧ (∀ k, hashLookup h'.slots k = hashAbs h k) ∧
      h'.nextFree ≠ none :=
  hGrow_spec hash (hashedInsertOK hash) h asize inv

/-- the array-migration branch of `mixedTable.grow` (`array.grow`, moving integer keys into the array,
    `cleanup`): no panic, `Inv` kept, same abstract map, a free slot afterwards -/
theorem grow_array_migration (hash : Key → Nat) (t : Mixed) (inv : Inv hash t) (hc : growCase t = GrowCase.array) :
    ∃ t', grow hash t = some t' ∧ Inv hash t' ∧ (∀ k, abs t' k = abs t k) ∧ hFull t'.hash = false :=
  let ⟨t', e, i, a, f, _⟩ := arrayMigrationOK hash t inv hc
  ⟨t', e, i, a, f⟩

/-- `mixedTable.grow`, every branch -/
theorem grow_keeps_map (hash : Key → Nat) (t : Mixed) (inv : Inv hash t) :
    ∃ t', grow hash t = some t' ∧ Inv hash t' ∧ (∀ k, abs t' k = abs t k) ∧ hFull t'.hash = false :=
  let ⟨t', e, i, a, f, _⟩ := grow_spec hash (hashedInsertOK hash) (arrayMigrationOK hash) t inv
  ⟨t', e, i, a, f⟩

/-- `inv_step` for `t[k] = v`, v not nil: no panic, `Inv` kept, map updated at the normalised key;
    and when the field exists already no key changes its position (no growth, also when the hash part
    is full) -/
theorem insert_refines_map (hash : Key → Nat) (t : Mixed) (inv : Inv hash t) (k : Key) (v : Val) :
    ∃ t', insert hash t k v = some t' ∧ Inv hash t' ∧ (∀ k', abs t' k' = (abs t).update k.norm (some v) k') ∧
      ((abs t k.norm).isSome = true → SamePositions t t') := by
  obtain ⟨t', e, i, a, sp⟩ := insert_spec hash (hashedInsertOK hash) (arrayMigrationOK hash) t inv k v
  exact ⟨t', e, i, fun k' => by rw [a k']; rfl, sp⟩

/-- `inv_step`: every mutating operation of `runtime.Table` (Set / Reset, any key, nil or not) keeps
    the invariant and does not panic or loop -/
theorem inv_step (hash : Key → Nat) (t : Mixed) (inv : Inv hash t) (op : Op) :
    ∃ t', step hash t op = some t' ∧ Inv hash t' :=
  step_inv hash (hashedInsertOK hash) (arrayMigrationOK hash) t inv op

/-- `inv_reachable`: after ANY history of Set/Reset operations (induction over the list, no bound on
    its length, any keys, any hash function) the table satisfies the invariant -/
theorem inv_reachable (hash : Key → Nat) (ops : List Op) : ∃ t, run hash Mixed.init ops = some t ∧ Inv hash t :=
  run_inv hash (hashedInsertOK hash) (arrayMigrationOK hash) ops Mixed.init (inv_init hash)

/-- `refines_map`: after any history of Set/Reset operations (any keys, nil or not) the table denotes
    what the manual says — `t[k]` is the value most recently assigned to a key equal to `k` after
    normalisation (`1.0` ≡ `1`, `2^53` float ≡ int, `-0.0` ≡ `0`), else nil -/
theorem refines_map (hash : Key → Nat) (ops : List Op) :
    ∃ t, run hash Mixed.init ops = some t ∧ Inv hash t ∧
      ∀ k, get hash t k = some (specRun Map.empty ops k.norm) := by
  obtain ⟨t, e, i, a⟩ := run_refines hash (hashedInsertOK hash) (arrayMigrationOK hash) ops Mixed.init (inv_init hash)
  refine ⟨t, e, i, fun k => ?_⟩
  rw [get_refines hash t i k, a k.norm]
  have : abs Mixed.init = Map.empty := funext abs_init
  rw [this]

/-! ### traversal -/

/-- `mixedTable.next` returns the first live position after the position of the key, on the flat
    view (array cells, then hash slots); "invalid key" exactly when the key has no position -/
theorem next_is_first_live_after (hash : Key → Nat) (t : Mixed) (inv : Inv hash t) (k : Option Key) :
    next hash t k = some (flatNext (flat t) (k.map Key.norm)) :=
  next_refines hash t inv k

/-- `traversal_exactly_once`: a `next` traversal from nil during which existing fields are cleared
    (`t[k] = nil`) or assigned — through `Table.Reset` or through `Table.Set` / `rawset`, also while the
    hash part is full — returns pairwise different keys, returns every key that is present at every
    call, and returns only bindings present at the time of the call -/
theorem traversal_exactly_once (hash : Key → Nat) (t : Mixed) (inv : Inv hash t) (states : List Mixed)
    (visited : List (Key × Val)) (tr : Trav hash t none states visited) :
    (visited.map (·.1)).Nodup ∧
    (∀ kk, (∀ st ∈ states, (abs st kk).isSome = true) → kk ∈ visited.map (·.1)) ∧
    (∀ i (hi : i < visited.length) (hs : i < states.length), abs states[i] visited[i].1 = some visited[i].2) := by
  obtain ⟨a, b⟩ := trav_complete_nodup hash t inv states visited tr
  exact ⟨a, b, (trav_visited_present hash t none states visited tr inv).2⟩

/-- `next k` stays defined for a key returned earlier, also after it has been cleared (tombstones in
    the hash part; positions above `array.len` in the array part) -/
theorem next_defined_after_clear (hash : Key → Nat) (t t' : Mixed) (inv : Inv hash t) (k : Option Key)
    (k' : Key) (v : Val) (hn : next hash t k = some (.item k' v)) (ev : Evolves hash t t') :
    ∃ r, next hash t' (some k') = some r ∧ r ≠ .invalid :=
  next_defined_after_update hash t t' inv k k' v hn ev

/-! ### `__newindex` / `__index` -/

/-- `newindex_only_when_absent`: `SetIndex` consults `__newindex` iff the raw key is absent -/
theorem newindex_only_when_absent (hash : Key → Nat) (t : Mixed) (inv : Inv hash t) (k : Key) (v : Val) :
    ∃ r, Model.Index.setIndexStep hash t k (some v) = some r ∧ (r = .consult ↔ abs t k.norm = none) := by
  obtain ⟨t', e, _, _, _⟩ := reset_spec hash t inv k v
  cases hv : abs t k.norm with
  | none => exact ⟨.consult, by simp [Model.Index.setIndexStep, treset, e, hv], by simp⟩
  | some x => exact ⟨.done t', by simp [Model.Index.setIndexStep, treset, e, hv], by simp⟩

/-- assigning nil: `__newindex` is consulted iff the raw key is absent, for every key -/
theorem newindex_nil_only_when_absent (hash : Key → Nat) (t : Mixed) (inv : Inv hash t) (k : Key) :
    ∃ r, Model.Index.setIndexStep hash t k none = some r ∧ (r = .consult ↔ abs t k.norm = none) := by
  obtain ⟨t', e, _, _, _⟩ := remove_spec hash t inv k
  cases hv : abs t k.norm with
  | none => exact ⟨.consult, by simp [Model.Index.setIndexStep, treset, e, hv], by simp⟩
  | some x => exact ⟨.done t', by simp [Model.Index.setIndexStep, treset, e, hv], by simp⟩

/-- `Index` consults `__index` iff the raw key is absent, for every key -/
theorem index_only_when_absent (hash : Key → Nat) (t : Mixed) (inv : Inv hash t) (k : Key) :
    Model.Index.indexStep hash t k = some (match abs t k.norm with | some v => .done v | none => .consult) := by
  simp only [Model.Index.indexStep, get_refines hash t inv k, Option.bind_eq_bind, Option.bind_some]
  cases abs t k.norm <;> rfl

/-! ### value equality and key equality -/

/-- `key_eq_iff` on numbers: `a == b` (exact comparison of `Spec.Num`, int/float mixed) holds exactly
    when the normalised keys coincide — `1.0`/`1`, `2^53` float/int, `-0.0`/`0`/`0.0`; `2^63` (float)
    is no integer key.  (`Bounded`: finite magnitude below 2^1026, true of every decoded double.) -/
theorem key_eq_iff (a b : Num) (ha : a.isNaN = false) (hb : b.isNaN = false) (ba : a.Bounded) (bb : b.Bounded) :
    Num.eq a b = true ↔ Key.ofNum a = Key.ofNum b :=
  num_eq_iff_key_eq a b ha hb ba bb

/-- `key_eq_iff` on all values that can be keys -/
theorem key_eq_iff_all_values (a b : RawKey) (ka kb : Key) (ha : a.norm = some ka) (hb : b.norm = some kb)
    (ba : ∀ x, a = .num x → x.Bounded) (bb : ∀ x, b = .num x → x.Bounded) :
    RawKey.eq a b = true ↔ ka = kb :=
  rawKey_eq_iff a b ka kb ha hb ba bb

/-- every float that comes out of 64 bits satisfies the side condition of `key_eq_iff` -/
theorem decoded_floats_bounded (bits : BitVec 64) : Num.Bounded (.flt (F64.decode bits)) :=
  decode_bounded bits

/-- `hash_respects_eq`: in the model the hash is a function of the stored key and stored keys are in
    normal form, so equal keys hash equally by construction; that Go's `Value.Hash` is a function of
    the normalised key is the ASSUMPTION checked on every line of the correspondence (it fails for
    closures: known finding C03-closure-hash) -/
theorem hash_respects_eq (hash : Key → Nat) (mask : Nat) (a b : RawKey) (ka kb : Key)
    (ha : a.norm = some ka) (hb : b.norm = some kb)
    (ba : ∀ x, a = .num x → x.Bounded) (bb : ∀ x, b = .num x → x.Bounded)
    (heq : RawKey.eq a b = true) : prim hash mask ka = prim hash mask kb := by
  rw [(key_eq_iff_all_values a b ka kb ha hb ba bb).1 heq]

end GoluaVerif.Props.C03
