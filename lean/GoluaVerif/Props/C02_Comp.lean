/-
  Props.C02_Comp — the mixed integer/float comparisons and the float→integer
  conversion of golua are mathematically exact.  Stated over the definitions
  REGENERATED from /repo/runtime/comp.go and numconv.go (Generated.Comp) and the
  exact comparison of Spec.Num (comparison of the real values, in units of 2^-1074).
  Every theorem holds for every int64 `n` and every well-formed double `f`,
  including NaN, ±∞, ±0, subnormals, ±2^63 and values beyond the int64 range.
-/
import GoluaVerif.Generated.Comp
import GoluaVerif.Spec.Num
import GoluaVerif.Proofs.F64Lemmas
namespace GoluaVerif.Props.C02
open GoluaVerif GoluaVerif.Spec GoluaVerif.Proofs
open GoluaVerif.Generated.Comp

/-- `n < f` (int64 `n`, float64 `f`) as computed by golua is the exact comparison of the values -/
theorem lt_int_float_exact (n : I64) (f : F64) (hf : f.WF = true) :
    ltIntAndFloat n f = Spec.Num.lt (.int n) (.flt f) := by
  unfold ltIntAndFloat
  simp only [Id.run, pure]
  have hb := int_key_bounds n
  have hS := scale_pos_int
  rcases classify f hf with ⟨z, _, htz, hnan, hkey, hbeq⟩ | ⟨_, hbeq, hrest⟩
  · rw [if_pos hbeq, htz, num_lt_int_flt n hnan, hkey, BitVec.slt_eq_decide]
    exact decide_eq_decide.mpr mul_scale_lt.symm
  · rw [if_neg (by rw [hbeq]; exact Bool.false_ne_true)]
    rcases hrest with hn | ⟨hnan, hbig | hsmall | hmid⟩
    · have := isNaN_eq_true hn; subst this
      simp [ble_nan_right, blt_nan_left, blt_nan_right, Spec.Num.lt, Spec.Num.isNaN, F64.isNaN]
    · rw [ble_two63 hnan, num_lt_int_flt n hnan, if_pos (decide_eq_true hbig)]
      exact (decide_eq_true (by omega)).symm
    · rw [ble_two63 hnan, blt_neg_two63 hnan, num_lt_int_flt n hnan,
        if_neg (by rw [decide_eq_true_iff]; omega), if_pos (decide_eq_true hsmall)]
      exact (decide_eq_false (by omega)).symm
    · rw [ble_two63 hnan, blt_neg_two63 hnan, num_lt_int_flt n hnan,
        if_neg (by rw [decide_eq_true_iff]; omega), if_neg (by rw [decide_eq_true_iff]; omega),
        blt_key (ofI64_isNaN _) hnan]
      exact decide_eq_decide.mpr (ofInt_key_cmp n.toInt f.key (by omega) (by omega)).1

/-- `f < n` as computed by golua is the exact comparison of the values -/
theorem lt_float_int_exact (n : I64) (f : F64) (hf : f.WF = true) :
    ltFloatAndInt f n = Spec.Num.lt (.flt f) (.int n) := by
  unfold ltFloatAndInt
  simp only [Id.run, pure]
  have hb := int_key_bounds n
  have hS := scale_pos_int
  rcases classify f hf with ⟨z, _, htz, hnan, hkey, hbeq⟩ | ⟨_, hbeq, hrest⟩
  · rw [if_pos hbeq, htz, num_lt_flt_int n hnan, hkey, BitVec.slt_eq_decide]
    exact decide_eq_decide.mpr mul_scale_lt.symm
  · rw [if_neg (by rw [hbeq]; exact Bool.false_ne_true)]
    rcases hrest with hn | ⟨hnan, hbig | hsmall | hmid⟩
    · have := isNaN_eq_true hn; subst this
      simp [ble_nan_right, blt_nan_left, Spec.Num.lt, Spec.Num.isNaN, F64.isNaN]
    · rw [ble_two63 hnan, num_lt_flt_int n hnan, if_pos (decide_eq_true hbig)]
      exact (decide_eq_false (by omega)).symm
    · rw [ble_two63 hnan, blt_neg_two63 hnan, num_lt_flt_int n hnan,
        if_neg (by rw [decide_eq_true_iff]; omega), if_pos (decide_eq_true hsmall)]
      exact (decide_eq_true (by omega)).symm
    · rw [ble_two63 hnan, blt_neg_two63 hnan, num_lt_flt_int n hnan,
        if_neg (by rw [decide_eq_true_iff]; omega), if_neg (by rw [decide_eq_true_iff]; omega),
        blt_key hnan (ofI64_isNaN _)]
      exact decide_eq_decide.mpr (ofInt_key_cmp n.toInt f.key (by omega) (by omega)).2.2.1

/-- `n <= f` as computed by golua is the exact comparison of the values -/
theorem le_int_float_exact (n : I64) (f : F64) (hf : f.WF = true) :
    leIntAndFloat n f = Spec.Num.le (.int n) (.flt f) := by
  unfold leIntAndFloat
  simp only [Id.run, pure]
  have hb := int_key_bounds n
  have hS := scale_pos_int
  rcases classify f hf with ⟨z, _, htz, hnan, hkey, hbeq⟩ | ⟨_, hbeq, hrest⟩
  · rw [if_pos hbeq, htz, num_le_int_flt n hnan, hkey, BitVec.sle_eq_decide]
    exact decide_eq_decide.mpr mul_scale_le.symm
  · rw [if_neg (by rw [hbeq]; exact Bool.false_ne_true)]
    rcases hrest with hn | ⟨hnan, hbig | hsmall | hmid⟩
    · have := isNaN_eq_true hn; subst this
      simp [ble_nan_right, blt_nan_left, Spec.Num.le,
        Spec.Num.isNaN, F64.isNaN]
    · rw [ble_two63 hnan, num_le_int_flt n hnan, if_pos (decide_eq_true hbig)]
      exact (decide_eq_true (by omega)).symm
    · rw [ble_two63 hnan, blt_neg_two63 hnan, num_le_int_flt n hnan,
        if_neg (by rw [decide_eq_true_iff]; omega), if_pos (decide_eq_true hsmall)]
      exact (decide_eq_false (by omega)).symm
    · rw [ble_two63 hnan, blt_neg_two63 hnan, num_le_int_flt n hnan,
        if_neg (by rw [decide_eq_true_iff]; omega), if_neg (by rw [decide_eq_true_iff]; omega),
        ble_key (ofI64_isNaN _) hnan]
      exact decide_eq_decide.mpr (ofInt_key_cmp n.toInt f.key (by omega) (by omega)).2.1

/-- `f <= n` as computed by golua is the exact comparison of the values -/
theorem le_float_int_exact (n : I64) (f : F64) (hf : f.WF = true) :
    leFloatAndInt f n = Spec.Num.le (.flt f) (.int n) := by
  unfold leFloatAndInt
  simp only [Id.run, pure]
  have hb := int_key_bounds n
  have hS := scale_pos_int
  rcases classify f hf with ⟨z, _, htz, hnan, hkey, hbeq⟩ | ⟨_, hbeq, hrest⟩
  · rw [if_pos hbeq, htz, num_le_flt_int n hnan, hkey, BitVec.sle_eq_decide]
    exact decide_eq_decide.mpr mul_scale_le.symm
  · rw [if_neg (by rw [hbeq]; exact Bool.false_ne_true)]
    rcases hrest with hn | ⟨hnan, hbig | hsmall | hmid⟩
    · have := isNaN_eq_true hn; subst this
      simp [ble_nan_right, ble_nan_left, blt_nan_left, Spec.Num.le,
        Spec.Num.isNaN, F64.isNaN]
    · rw [ble_two63 hnan, num_le_flt_int n hnan, if_pos (decide_eq_true hbig)]
      exact (decide_eq_false (by omega)).symm
    · rw [ble_two63 hnan, blt_neg_two63 hnan, num_le_flt_int n hnan,
        if_neg (by rw [decide_eq_true_iff]; omega), if_pos (decide_eq_true hsmall)]
      exact (decide_eq_true (by omega)).symm
    · rw [ble_two63 hnan, blt_neg_two63 hnan, num_le_flt_int n hnan,
        if_neg (by rw [decide_eq_true_iff]; omega), if_neg (by rw [decide_eq_true_iff]; omega),
        ble_key hnan (ofI64_isNaN _)]
      exact decide_eq_decide.mpr (ofInt_key_cmp n.toInt f.key (by omega) (by omega)).2.2.2.1

/-- `n == f` as computed by golua is the exact comparison of the values -/
theorem eq_int_float_exact (n : I64) (f : F64) (hf : f.WF = true) :
    equalIntAndFloat n f = Spec.Num.eq (.int n) (.flt f) := by
  unfold equalIntAndFloat
  simp only [Id.run, pure]
  have hb := int_key_bounds n
  have hS := scale_pos_int
  rcases classify f hf with ⟨z, _, htz, hnan, hkey, hbeq⟩ | ⟨_, hbeq, hrest⟩
  · rw [hbeq, htz, num_eq_int_flt n hnan, hkey, Bool.true_and]
    by_cases hzn : z = n
    · subst hzn; simp
    · rw [beq_eq_false_iff_ne.mpr hzn]
      refine (decide_eq_false ?_).symm
      intro he
      exact hzn (BitVec.eq_of_toInt_eq (mul_scale_eq.mp he)).symm
  · rw [hbeq, Bool.false_and]
    rcases hrest with hn | ⟨hnan, hbig | hsmall | ⟨_, _, hnd⟩⟩
    · have := isNaN_eq_true hn; subst this
      simp [Spec.Num.eq, Spec.Num.isNaN, F64.isNaN]
    · rw [num_eq_int_flt n hnan]; exact (decide_eq_false (by omega)).symm
    · rw [num_eq_int_flt n hnan]; exact (decide_eq_false (by omega)).symm
    · rw [num_eq_int_flt n hnan]
      refine (decide_eq_false ?_).symm
      intro he
      exact hnd (he ▸ Int.dvd_mul_left _ _)

/-- `FloatToInt f` succeeds exactly when `f` has an exact integer value in the int64 range,
and then returns that integer; otherwise it returns `(0, NaI)`. -/
theorem floatToInt_exact (f : F64) (hf : f.WF = true) :
    FloatToInt f = match Spec.Num.floatToInt? f with
      | some n => (n, IsInt)
      | none => (0#64, NaI) := by
  unfold FloatToInt
  simp only [Id.run, pure]
  rcases classify f hf with ⟨z, hsome, htz, _, _, hbeq⟩ | ⟨hnone, hbeq, _⟩
  · rw [if_pos hbeq, hsome, htz]; rfl
  · rw [if_neg (by rw [hbeq]; exact Bool.false_ne_true), hnone]; rfl

/-- the test `float64(int64(f)) == f` used by all six functions is exactly
"`f` has an exact int64 value" -/
theorem exact_int_test (f : F64) (hf : f.WF = true) :
    F64.beq (F64.ofI64 (F64.toI64 f)) f = true ↔ Spec.Num.floatToInt? f = some (F64.toI64 f) := by
  rcases classify f hf with ⟨z, hsome, htz, _, _, hbeq⟩ | ⟨hnone, hbeq, _⟩
  · rw [hbeq, hsome, htz]; simp
  · rw [hbeq, hnone]; simp

/-! ### order corollaries (all numbers, mixed int/float) -/

/-- exactly one of `a < b`, `a == b`, `b < a` holds for non-NaN numbers -/
theorem lt_trichotomy (a b : Spec.Num) (ha : a.isNaN = false) (hb : b.isNaN = false) :
    (Num.lt a b = true ∧ Num.eq a b = false ∧ Num.lt b a = false) ∨
    (Num.lt a b = false ∧ Num.eq a b = true ∧ Num.lt b a = false) ∨
    (Num.lt a b = false ∧ Num.eq a b = false ∧ Num.lt b a = true) := by
  simp only [Num.lt, Num.eq, ha, hb, Bool.not_false, Bool.true_and, decide_eq_true_eq,
    decide_eq_false_iff_not]
  omega

/-- `a <= b` iff `a < b` or `a == b` (also when NaN is involved: all three are false) -/
theorem le_iff_lt_or_eq (a b : Spec.Num) : Num.le a b = (Num.lt a b || Num.eq a b) := by
  simp only [Num.le, Num.lt, Num.eq]
  cases a.isNaN <;> cases b.isNaN <;> simp only [Bool.not_false, Bool.not_true, Bool.true_and,
    Bool.false_and, Bool.and_false, Bool.or_false]
  rw [Bool.eq_iff_iff]
  simp only [decide_eq_true_eq, Bool.or_eq_true]
  omega

/-- the same trichotomy for what golua computes on an int64 and a non-NaN float64 -/
theorem lt_trichotomy_impl (n : I64) (f : F64) (hf : f.WF = true) (hn : f.isNaN = false) :
    (ltIntAndFloat n f = true ∧ equalIntAndFloat n f = false ∧ ltFloatAndInt f n = false) ∨
    (ltIntAndFloat n f = false ∧ equalIntAndFloat n f = true ∧ ltFloatAndInt f n = false) ∨
    (ltIntAndFloat n f = false ∧ equalIntAndFloat n f = false ∧ ltFloatAndInt f n = true) := by
  rw [lt_int_float_exact n f hf, eq_int_float_exact n f hf, lt_float_int_exact n f hf]
  exact lt_trichotomy (.int n) (.flt f) rfl hn

/-- `n <= f` computed by golua is `n < f or n == f` computed by golua -/
theorem le_iff_lt_or_eq_impl (n : I64) (f : F64) (hf : f.WF = true) :
    leIntAndFloat n f = (ltIntAndFloat n f || equalIntAndFloat n f) := by
  rw [le_int_float_exact n f hf, lt_int_float_exact n f hf, eq_int_float_exact n f hf]
  exact le_iff_lt_or_eq _ _

/-! ### non-vacuity: concrete values, evaluated by the kernel on the generated code -/

-- the hypotheses are satisfiable by the interesting values
example : (F64.ofInt (2 ^ 63)).WF = true := by decide +kernel
example : (F64.fin false (2 ^ 1073)).WF = true := by decide +kernel        -- 0.5
example : (F64.fin true 1).WF = true := by decide +kernel                  -- -(smallest subnormal)
example : (F64.fin false (3 * 2 ^ 1073)).WF = true := by decide +kernel    -- 1.5
example : F64.nan.WF = true ∧ (F64.inf true).WF = true := by decide
example : (Num.flt (F64.inf false)).isNaN = false ∧ (Num.int 5#64).isNaN = false := by decide

-- maxint < 2^63 (float64(maxint) rounds to 2^63: a naive float comparison says "not less")
example : ltIntAndFloat I64.maxInt (F64.ofInt (2 ^ 63)) = true := by decide +kernel
example : leFloatAndInt (F64.ofInt (2 ^ 63)) I64.maxInt = false := by decide +kernel
example : equalIntAndFloat I64.maxInt (F64.ofInt (2 ^ 63)) = false := by decide +kernel
example : F64.beq (F64.ofI64 I64.maxInt) (F64.ofInt (2 ^ 63)) = true := by decide +kernel
-- 2^53 + 1 is not representable; float64(2^53+1) = 2^53
example : equalIntAndFloat 9007199254740993#64 (F64.ofInt (2 ^ 53)) = false := by decide +kernel
example : ltFloatAndInt (F64.ofInt (2 ^ 53)) 9007199254740993#64 = true := by decide +kernel
-- minint == -2^63, and -2^63 converts to minint
example : equalIntAndFloat I64.minInt (F64.ofInt (-2 ^ 63)) = true := by decide +kernel
example : FloatToInt (F64.ofInt (-2 ^ 63)) = (I64.minInt, IsInt) := by decide +kernel
example : FloatToInt (F64.ofInt (2 ^ 63)) = (0#64, NaI) := by decide +kernel
-- a fractional float: 0 < 0.5 < 1, -1 < -(tiny) < 0
example : ltIntAndFloat 0#64 (F64.fin false (2 ^ 1073)) = true := by decide +kernel
example : ltFloatAndInt (F64.fin false (2 ^ 1073)) 1#64 = true := by decide +kernel
example : equalIntAndFloat 0#64 (F64.fin false (2 ^ 1073)) = false := by decide +kernel
example : leFloatAndInt (F64.fin true 1) 0#64 = true := by decide +kernel
example : ltIntAndFloat (BitVec.ofInt 64 (-1)) (F64.fin true 1) = true := by decide +kernel
example : FloatToInt (F64.fin false (3 * 2 ^ 1073)) = (0#64, NaI) := by decide +kernel
example : FloatToInt (F64.fin true 0) = (0#64, IsInt) := by decide +kernel   -- -0.0 ↦ 0
-- NaN compares false with everything
example : ltIntAndFloat 0#64 F64.nan = false ∧ ltFloatAndInt F64.nan 0#64 = false ∧
    leIntAndFloat 0#64 F64.nan = false ∧ leFloatAndInt F64.nan 0#64 = false ∧
    equalIntAndFloat 0#64 F64.nan = false ∧ FloatToInt F64.nan = (0#64, NaI) := by decide +kernel
-- ±inf
example : ltFloatAndInt (F64.inf true) I64.minInt = true := by decide +kernel
example : leIntAndFloat I64.minInt (F64.inf true) = false := by decide +kernel
example : ltIntAndFloat I64.maxInt (F64.inf false) = true := by decide +kernel
example : FloatToInt (F64.inf true) = (0#64, NaI) := by decide +kernel

end GoluaVerif.Props.C02
