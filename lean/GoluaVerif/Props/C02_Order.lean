/-
  Props.C02_Order — order laws of number comparison: the exact comparison `Spec.Num.lt/le/eq` is a
  strict total order on non-NaN numbers of any int/float mix (irreflexive, transitive, antisymmetric),
  and the comparison functions REGENERATED from /repo/runtime/comp.go (Generated.Comp) chain through
  a float without losing exactness (`lt_trans_int_float_int`, `le_antisymm_int_float`) — the laws
  table.sort, the `for` loop and key normalisation rely on.
-/
import GoluaVerif.Props.C02_Comp
import GoluaVerif.Proofs.ForLoop
namespace GoluaVerif.Props.C02
open GoluaVerif GoluaVerif.Spec GoluaVerif.Proofs
open GoluaVerif.Generated.Comp

/-! ### order laws: the comparison golua computes is a strict total order on non-NaN numbers of any mix -/

theorem lt_irrefl (a : Num) : Num.lt a a = false := by
  simp only [Num.lt, Int.lt_irrefl, decide_false, Bool.and_false]

theorem lt_trans (a b c : Num) (h1 : Num.lt a b = true) (h2 : Num.lt b c = true) : Num.lt a c = true := by
  simp only [Num.lt, Bool.and_eq_true, Bool.not_eq_true', decide_eq_true_eq] at *
  exact ⟨⟨h1.1.1, h2.1.2⟩, Int.lt_trans h1.2 h2.2⟩

theorem le_trans (a b c : Num) (h1 : Num.le a b = true) (h2 : Num.le b c = true) : Num.le a c = true := by
  simp only [Num.le, Bool.and_eq_true, Bool.not_eq_true', decide_eq_true_eq] at *
  exact ⟨⟨h1.1.1, h2.1.2⟩, Int.le_trans h1.2 h2.2⟩

theorem le_antisymm (a b : Num) (h1 : Num.le a b = true) (h2 : Num.le b a = true) : Num.eq a b = true := by
  simp only [Num.le, Num.eq, Bool.and_eq_true, Bool.not_eq_true', decide_eq_true_eq] at *
  exact ⟨h1.1, Int.le_antisymm h1.2 h2.2⟩

theorem lt_of_lt_of_le (a b c : Num) (h1 : Num.lt a b = true) (h2 : Num.le b c = true) : Num.lt a c = true := by
  simp only [Num.lt, Num.le, Bool.and_eq_true, Bool.not_eq_true', decide_eq_true_eq] at *
  exact ⟨⟨h1.1.1, h2.1.2⟩, Int.lt_of_lt_of_le h1.2 h2.2⟩

/-- the regenerated Go comparisons chain through a float without losing exactness: if golua says
`n < f` and `f < m` (int64 `n`, `m`, any double `f`), then `n < m` as integers — also around 2^53 and
2^63, where converting either integer to a float would collapse distinct values. -/
theorem lt_trans_int_float_int (n m : I64) (f : F64) (hf : f.WF = true)
    (h1 : ltIntAndFloat n f = true) (h2 : ltFloatAndInt f m = true) : n.toInt < m.toInt := by
  rw [lt_int_float_exact n f hf] at h1
  rw [lt_float_int_exact m f hf] at h2
  have := lt_trans _ _ _ h1 h2
  rw [ForLoop.num_lt_int_int] at this
  exact of_decide_eq_true this

/-- a float squeezed between `n ≤ f` and `f ≤ n` *is* `n` (golua's `==` agrees) -/
theorem le_antisymm_int_float (n : I64) (f : F64) (hf : f.WF = true)
    (h1 : leIntAndFloat n f = true) (h2 : leFloatAndInt f n = true) : equalIntAndFloat n f = true := by
  rw [le_int_float_exact n f hf] at h1
  rw [le_float_int_exact n f hf] at h2
  rw [eq_int_float_exact n f hf]
  exact le_antisymm _ _ h1 h2

-- non-vacuity at the edge: maxint < 2^63 < (as floats) and 2^53 < 2^53+1 distinguished through a float
example : ltIntAndFloat I64.maxInt (F64.ofI64 I64.minInt |> F64.neg) = true := by decide +kernel
end GoluaVerif.Props.C02
