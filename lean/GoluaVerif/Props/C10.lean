/-
  Props.C10 — to-be-closed variables.

  Spec.Tbc         the manual §3.3.8 as a big-step semantics on a block-structured mini-language
                   (every block closes its own pending values, whatever the exit);
  Model.TbcCompile the static close-stack heights of ir/builder.go (`clpush`, `cltrunc h`);
  Model.TbcVM      the run-time close stack (OpClStack, return, CallContext, Thread.end).

  `compile_correct`: for EVERY well-formed program and EVERY behaviour of the __close handlers
  (including handlers that raise), the close-stack machine running the compiled program produces
  exactly the events the manual prescribes: the same handler calls, in the same order, with the same
  error argument, interleaved in the same way with the program's other statements.
  Proof: Proofs.TbcDyn (static heights = dynamic heights, by induction on the program, exact equality
  of machine states) and Proofs.TbcSpec (eager truncation before a jump / late cleanup after an error
  against block-by-block closing, a relation per exit kind that collapses through `closeAll_append`).
-/
import GoluaVerif.Spec.Tbc
import GoluaVerif.Model.TbcVM
import GoluaVerif.Proofs.TbcSpec
namespace GoluaVerif.Props.C10
open GoluaVerif.Spec.Tbc GoluaVerif.Model.Tbc GoluaVerif.Proofs.Tbc

/-- every well-formed program (break only in loops, goto only to labels of enclosing blocks of the same
    function) compiles, and the compiled chunk, run under pcall on the close-stack machine, logs exactly
    what the manual's semantics logs — for every behaviour `h` of the handlers -/
theorem compile_correct (h : Handlers) (p : Prog) (hwf : wf p 0 false = true) :
    ∃ c, compileChunk p = some c ∧ runVM h c = run h p := by
  obtain ⟨c, L, hc, _, _, hx⟩ := vexec_compile h false (.pcall p) [⟨.root, 0⟩] ⟨rfl, rfl⟩
    (by simpa [wf, ctxBlocks] using hwf)
  -- the compiled pcall statement is `pcall` of the compiled chunk
  have hcc : ∃ c', compileChunk p = some c' ∧ c = .pcall c' := by
    simp only [compile] at hc
    unfold compileChunk
    cases hcp : compile p [⟨.root, 0⟩] with
    | none => rw [hcp] at hc; cases hc
    | some r =>
      obtain ⟨cp, ctx1⟩ := r
      rw [hcp] at hc
      simp only [Option.some.injEq, Prod.mk.injEq] at hc
      exact ⟨_, rfl, hc.1.symm⟩
  obtain ⟨c', hc', rfl⟩ := hcc
  refine ⟨c', hc', ?_⟩
  have hv := (hx 0 [] rfl).1
  have hs := dexec_spec h false (.pcall p) [] [] [] (by simpa [wf] using hwf)
  simp only [envOf, restOf_nil, List.append_nil, List.length_nil] at hs
  have hv' : vexec h false (.pcall c') 0 [] = dexec h false (.pcall p) [] 0 [] := hv
  unfold runVM run
  rw [hv']
  -- under pcall the manual's result is a normal exit (a kill needs a yield and `kill = true`)
  have hnk := exec_notKill h false (.pcall p) [] (Or.inl rfl)
  generalize hr : exec h false (.pcall p) [] = r at hs hnk
  have hrx : r.exit = .normal := by
    rw [← hr, exec_pcall_eq]
    have hnk' : notKill (exec h false (.pcall p) []).exit := by rw [hr]; exact hnk
    rw [exec_pcall_eq] at hnk'
    generalize (closeBlock h (exec h false p [])).1 = y at hnk' ⊢
    cases y <;> first | rfl | exact absurd rfl (hnk' _)
  obtain ⟨x, pend, l⟩ := r
  simp only at hrx
  subst hrx
  simp only [Rel] at hs
  rw [hs]

example : wf (.seq (.tbc (.obj 1)) (.loop 2 (.seq (.tbc (.obj 2)) (.block (.seq (.tbc (.obj 3)) .brk))))) 0 false = true := by
  decide

/-- closing a suspended coroutine runs every pending handler, wherever the coroutine is suspended — also
    inside (nested) protected calls, which do not catch the close (as of /repo 3e9e50b): the machine
    (Thread.end → cleanupCloseStack) and the manual agree on the calls and on the result of coroutine.close -/
theorem coroutine_close_runs_pending (h : Handlers) (p : Prog) (hwf : wf p 0 false = true) :
    ∃ c, compileChunk p = some c ∧ runVMCo h c = runCo h p := by
  obtain ⟨cp, L, hc, _, _, hx⟩ := vexec_compile h true p [⟨.root, 0⟩] ⟨rfl, rfl⟩
    (by simpa [ctxBlocks] using hwf)
  refine ⟨fnCode cp (L ++ [⟨.root, 0⟩]), by simp only [compileChunk, hc], ?_⟩
  have hv : vexec h true cp 0 [] = dexec h true p [] 0 [] := (hx 0 [] rfl).1
  have hs := dexec_spec h true p [] [] [] (by simpa using hwf)
  simp only [envOf, restOf_nil, List.append_nil, List.length_nil] at hs
  obtain ⟨f1, f2⟩ := fn_step h [] _ _ hs (exec_exitOK h true p 0 false [] hwf)
  unfold runVMCo runCo
  rw [fn_exec, hv]
  simp only [List.length_nil] at f1 f2 ⊢
  cases hab : isAbort (exec h true p []).exit with
  | false =>
    obtain ⟨y, hy, hc⟩ := f1 hab
    rw [hy]
    rcases hc with ⟨rfl, hc⟩ | ⟨e, rfl, hc⟩
    · rcases hc with hc | hc <;> (rw [hc]; simp [cleanup, Exit.errArg])
    · rw [hc]; simp [cleanup, Exit.errArg]
  | true =>
    obtain ⟨hv2, RV, hst, habv, e1, e2⟩ := f2 hab
    rw [hv2]
    simp only [restOf_nil, List.append_nil] at e1 e2 hst
    have hc1 : (closeBlock h (exec h true p [])).1 =
        (exec h true p []).exit.withErr (closeAll h (exec h true p []).pend (exec h true p []).exit.errArg).1 := rfl
    have hc2 : (closeBlock h (exec h true p [])).2 =
        (exec h true p []).log ++ (closeAll h (exec h true p []).pend (exec h true p []).exit.errArg).2 := rfl
    rw [hc1, hc2, e1, e2, hst]
    have hcl := cleanup_closeAll h [] RV (dexec h true p [] 0 []).exit.errArg
    simp only [List.append_nil, List.length_nil] at hcl
    rw [hcl]
    generalize (dexec h true p [] 0 []).exit = y at habv ⊢
    cases y with
    | kill s => simp [Exit.withErr, Exit.errArg]
    | err e =>
      obtain ⟨e', he'⟩ := closeAll_some h RV e
      simp [Exit.withErr, Exit.errArg, he']
    | normal => simp [isAbort] at habv
    | brk => simp [isAbort] at habv
    | goto g => simp [isAbort] at habv
    | ret => simp [isAbort] at habv

example : wf (.seq (.tbc (.obj 1)) (.pcall (.seq (.tbc (.obj 2)) .yield))) 0 false = true := by decide

/-- regression (fixed in /repo 3e9e50b): a coroutine closed while suspended inside pcall closes the value
    declared inside the protected call, then the outer one; before the fix the inner one was discarded -/
example :
    (compileChunk (.seq (.tbc (.obj 2)) (.pcall (.seq (.tbc (.obj 1)) .yield)))).map (runVMCo (fun _ _ => none)) =
      some [.close 1 none, .close 2 none, .closed none] ∧
    runCo (fun _ _ => none) (.seq (.tbc (.obj 2)) (.pcall (.seq (.tbc (.obj 1)) .yield))) =
      [.close 1 none, .close 2 none, .closed none] := by
  decide

/-- NO TAIL CALL WITH A PENDING CLOSE (astcomp getTailCall / HasPendingCloseActions): in a context with at least
    one pending to-be-closed variable `return f()` is compiled as an ordinary call followed by a return, never
    as a tail call; with none pending it is a tail call.  Together with `compile_correct` (which covers
    `retCall`) this gives the property's clause "the handler runs after the called function returns". -/
theorem no_tail_call_with_pending (p : Prog) (ctx : Ctx) (cp : Code) (ctx1 : Ctx)
    (hc : compile p [⟨.root, 0⟩] = some (cp, ctx1)) :
    (0 < topHeight ctx → compile (.retCall p) ctx = some (.seq (.call (fnCode cp ctx1)) .ret, ctx)) ∧
    (topHeight ctx = 0 → compile (.retCall p) ctx = some (.tailcall (fnCode cp ctx1), ctx)) := by
  constructor
  · intro h; simp only [compile, hc, h, if_true]
  · intro h; simp only [compile, hc, h, Nat.lt_irrefl, if_false]

example : compile (.mark 7) [⟨.root, 0⟩] = some (.mark 7, [⟨.root, 0⟩]) ∧
    (0 : Nat) < topHeight [⟨.loc, 1⟩, ⟨.root, 0⟩] := by decide

/-- what the manual prescribes for `local x <close> = v; return f()`: f runs first, then x is closed — and
    why the refusal matters: had the compiler emitted a tail call here, the machine would close x BEFORE
    running f (OpCall with isTail cleans the close stack up first) -/
theorem tail_call_order (h : Handlers) :
    run h (.seq (.tbc (.obj 1)) (.retCall (.mark 7))) = [.mark 7, .close 1 none, .caught (h 1 none)] ∧
    (compileChunk (.seq (.tbc (.obj 1)) (.retCall (.mark 7)))).map (runVM h) =
      some [.mark 7, .close 1 none, .caught (h 1 none)] ∧
    runVM h (.seq (.push (.obj 1)) (.tailcall (.seq (.mark 7) .ret))) =
      [.close 1 none] ++ (match h 1 none with
        | some e => [.caught (some e)]
        | none => [.mark 7, .caught none]) := by
  have h1 : run h (.seq (.tbc (.obj 1)) (.retCall (.mark 7))) = [.mark 7, .close 1 none, .caught (h 1 none)] := by
    simp only [run, exec, closeBlock, closeAll, Exit.errArg, Exit.withErr, Exit.leaveFunction, Exit.thenReturn,
      List.append_nil, List.nil_append]
    cases h 1 none <;> rfl
  refine ⟨h1, ?_, ?_⟩
  · obtain ⟨c, hc, hr⟩ := compile_correct h (.seq (.tbc (.obj 1)) (.retCall (.mark 7))) (by decide)
    rw [hc, Option.map_some, hr, h1]
  · simp only [runVM, vexec, cleanup, Exit.errArg, Exit.withErr, Exit.leaveFunction, Exit.thenReturn]
    cases h 1 none <;> rfl

/-- GENERIC FOR, CLOSING VALUE: the fourth value of a generic for is closed when the loop ends — here by
    `break` in the first iteration, after the body's own to-be-closed variable; by `compile_correct` the
    machine does the same on the compiled code.  (`Prog.forin` is the block the manual describes; that golua's
    ProcessForInStat emits the same clpush/cltrunc skeleton as this block is part of the correspondence.) -/
theorem forin_closing_value (h : Handlers) (n : Nat) :
    run h (Prog.forin (.obj 9) (n + 1) (.seq (.tbc (.obj 1)) (.seq (.mark 1) .brk))) =
      [.mark 1, .close 1 none] ++
        (closeAll h [.obj 9] (h 1 none)).2 ++ [.caught (closeAll h [.obj 9] (h 1 none)).1] ∧
    ∃ c, compileChunk (Prog.forin (.obj 9) (n + 1) (.seq (.tbc (.obj 1)) (.seq (.mark 1) .brk))) = some c ∧
      runVM h c = run h (Prog.forin (.obj 9) (n + 1) (.seq (.tbc (.obj 1)) (.seq (.mark 1) .brk))) := by
  refine ⟨?_, compile_correct h _ (by simp [Prog.forin, wf])⟩
  simp only [run, Prog.forin, exec, closeBlock, loopIter, closeAll, Exit.errArg, Exit.withErr, Exit.leaveBlock,
    List.append_nil, List.nil_append]
  cases h 1 none <;> cases h 9 _ <;> rfl

/-- the id of the value a closing call is about -/
def closeId : Ev → Option Nat
  | .close id _ => some id
  | _ => none

def objId : TV → Option Nat
  | .obj id => some id
  | _ => none

/-- EXACTLY ONCE, IN ORDER: closing a pending list calls the handler of every closable value of the list
    exactly once, in list order (= reverse order of declaration, `exec` prepends), whatever the handlers do
    — in particular the remaining handlers still run after one of them raised; nil/false are skipped -/
theorem exactly_once (h : Handlers) (vs : List TV) (e : Option Err) :
    (closeAll h vs e).2.filterMap closeId = vs.filterMap objId ∧
    (closeAll h vs e).2.length = (vs.filterMap objId).length := by
  induction vs generalizing e with
  | nil => exact ⟨rfl, rfl⟩
  | cons v vs ih =>
    cases v with
    | obj id =>
      simp only [closeAll, List.filterMap_cons, closeId, objId, List.length_cons]
      exact ⟨by rw [(ih _).1], by rw [(ih _).2]⟩
    | nilv => simp only [closeAll, List.filterMap_cons, objId]; exact ih e
    | bad => simp only [closeAll, List.filterMap_cons, objId]; exact ih e

/-- REVERSE ORDER of declaration, with the error threaded: two variables declared a then b are closed
    b first (with the error in flight), then a with whatever is in flight after b's handler -/
theorem reverse_order (h : Handlers) (kill : Bool) (a b : Nat) (e : Option Err) :
    let r := exec h kill (.seq (.tbc (.obj a)) (.tbc (.obj b))) []
    r.pend = [.obj b, .obj a] ∧
    (closeAll h r.pend e).2 =
      [.close b e, .close a (match h b e with | some x => some x | none => e)] := by
  exact ⟨rfl, rfl⟩

/-- A HANDLER THAT RAISES REPLACES THE ERROR: the handlers called after it receive its error, and the error
    in flight at the end is the last one raised -/
theorem handler_error_replaces (h : Handlers) (id : Nat) (vs : List TV) (e : Option Err) (e' : Err)
    (hr : h id e = some e') :
    closeAll h (.obj id :: vs) e =
      ((closeAll h vs (some e')).1, Ev.close id e :: (closeAll h vs (some e')).2) ∧
    ∃ e'', (closeAll h (.obj id :: vs) e).1 = some e'' := by
  have h1 : closeAll h (.obj id :: vs) e =
      ((closeAll h vs (some e')).1, Ev.close id e :: (closeAll h vs (some e')).2) := by
    simp only [closeAll, hr]
  refine ⟨h1, ?_⟩
  rw [h1]
  exact closeAll_some h vs e'

example : (fun (id : Nat) (_ : Option Err) => if id = 2 then some (Err.user 7) else none) 2 none = some (Err.user 7) := rfl

/-- a value without __close (other than nil/false) is rejected at the declaration, by the manual and by
    the machine alike; nil and false are accepted and never called -/
theorem non_closable_rejected (h : Handlers) (kill : Bool) (pend st : List TV) (base : Nat) :
    (exec h kill (.tbc .bad) pend).exit = .err .notClosable ∧
    (vexec h kill (.push .bad) base st).exit = .err .notClosable ∧
    (exec h kill (.tbc .nilv) pend).exit = .normal ∧
    (closeAll h [.nilv] none).2 = [] := ⟨rfl, rfl, rfl, rfl⟩

end GoluaVerif.Props.C10
