/-
  Props.C18 — finalisers and release (property C18), over
    Model.ClonePool  (mirror of runtime/internal/luagc/clonepool.go, Go finaliser table explicit) and
    Model.GcRuntime  (mirror of the call sites in runtime.go / thread.go / runtimecontextmanager.go).
  Every theorem quantifies over ALL event histories (`ClonePool.run us` for pool operations in any
  order, `GcRuntime.run es` for runtime events: marks, re-marks, Go finalisers firing, continuation
  steps, nested contexts ending done/error/killed, Close) — they are proved by invariants
  (Proofs/C18*.lean).  A *marking epoch* is a markOrder of one pool; `p.tr` is that pool's trace.
  The conclusions are the Bool predicates of Spec.Gc, the same ones the oracle runs on what the real
  code does (./check C18, level A); the models are tied to the Go code by the level-B correspondence.
-/
import GoluaVerif.Proofs.C18NoThrow
namespace GoluaVerif.Props.C18
open GoluaVerif.Spec.Gc GoluaVerif.Model.ClonePool GoluaVerif.Model.GcRuntime GoluaVerif.Model GoluaVerif.Proofs.C18

def a : Obj := { key := 1, id := 0, clone := false }
def b : Obj := { key := 2, id := 0, clone := false }
/-- the clone of `a` made by the first `Mark` of pool 0 -/
def a1 : Obj := { key := 1, id := 1, clone := true }

/-! ### finalize_at_most_once -/

/-- After ANY history of pool operations (raw `Extract*` calls in any order, Go finalisers firing
at any time, even for values still referenced), no marking epoch has been handed out for
finalisation twice. -/
theorem finalize_at_most_once_pool (us : List Use) : finOnce (ClonePool.run us).tr = true :=
  (nodupB_iff _).mpr (Inv.run us).finNodup

/-- The same for every pool of every reachable runtime state: between two markings of a value
(an epoch = one markOrder of one pool) its `__gc` is run at most once, whatever the interleaving. -/
theorem finalize_at_most_once (es : List REv) : ∀ p ∈ (GcRuntime.run es).pools, finOnce p.tr = true :=
  fun p hp => (nodupB_iff _).mpr (rt_inv es p hp).finNodup

/-- a non-trivial history: finalised while running, re-marked through the clone, finalised again at close -/
example : finOrders (GcRuntime.run [.prim (.mark a true true), .prim (.fire a), .prim .step,
    .prim (.mark a1 true true), .close]).log = [1, 2] := by decide

/-! ### finalize_exactly_once_by_close -/

/-- In every pool of every reachable runtime state, every current marking (register entry) whose epoch
asked for finalisation has, once the close-time `finAll` (`runFinalizers(ExtractAllMarkedFinalize())`:
Runtime.Close, end of an isolating CallContext) has run, been handed to its finaliser EXACTLY once —
whether its Go finaliser had already fired (it then sits in `pendingFinalize`, which
`ExtractAllMarkedFinalize` starts from) or not, and whatever happened before. -/
theorem finalize_exactly_once_by_close (es : List REv) :
    ∀ p ∈ (GcRuntime.run es).pools, p.fatal = false → ∀ e ∈ regL p, wantsFin p.tr e.order = true →
      (finOrders (ClonePool.use p .finAll).tr).count e.order = 1 := by
  intro p hp hf e he hw
  have hall := rt_invAll es p hp
  have hnodup : (finOrders (ClonePool.use p .finAll).tr).Nodup := ((rt_inv es p hp).use .finAll).finNodup
  refine count_one_of_nodup_mem hnodup ?_
  by_cases hfin : e.fin = false
  · exact finAll_covers hf he hfin
  · have hft : e.fin = true := by simpa using hfin
    rcases hall.owed.owed e he hft hw with h | h
    · rw [finAll_tr hf, finOrders_append]; exact List.mem_append_left _ h
    · exact finAll_covers_pending hf h

/-- the witness of the defect repaired by 5fae9c3 (Go finaliser fired, then Close with no continuation
step in between) now finalises: -/
example : finOrders (GcRuntime.run [.prim (.mark a true false), .prim (.fire a), .close]).log = [1] := by decide

example : ∃ p ∈ (GcRuntime.run [.prim (.mark a true false), .prim (.mark b true true), .prim (.fire a)]).pools,
    p.fatal = false ∧ p.pf ≠ [] ∧ regL p ≠ [] ∧ wantsFin p.tr 1 = true ∧ wantsFin p.tr 2 = true := by
  refine ⟨_, List.mem_cons_self, ?_⟩; decide

/-- The same at the end of an isolating CallContext that returns or raises a Lua error, stated on the
runtime's log: in any reachable state with current pool `p`, `callDone` appends to the finalisations
exactly what `ExtractAllMarkedFinalize` hands out, and every current marking of `p` that asked for
finalisation is then in the log's finalisations of that pool exactly once (it was finalised before, or
it is among what is handed out now). -/
theorem finalize_exactly_once_by_context_end (es : List REv) (p : Pool) (rest : List Pool)
    (hs : (GcRuntime.run es).live = p :: rest) (hf : (GcRuntime.run es).fatal = false) (hpf : p.fatal = false) :
    finOrders (rstep (GcRuntime.run es) .callDone).log = finOrders (GcRuntime.run es).log ++ ords (afOut p) ∧
    ∀ e ∈ regL p, wantsFin p.tr e.order = true →
      (finOrders p.tr ++ ords (afOut p)).count e.order = 1 := by
  refine ⟨callDone_log _ p rest hs hf hpf, ?_⟩
  intro e he hw
  have hp : p ∈ (GcRuntime.run es).pools := by unfold Rt.pools; rw [hs]; simp
  have := finalize_exactly_once_by_close es p hp hpf e he hw
  rwa [finAll_tr hpf, finOrders_append, finOrders_finEvs] at this

example : finOrders (GcRuntime.run [.prim .push, .prim (.mark a true false), .prim (.fire a), .callDone, .close]).log = [1] := by
  decide

/-! ### release_exactly_once_after_finalize -/

/-- In every pool of every reachable runtime state: no epoch is released twice, and no epoch is handed
to a finaliser after it has been released (release comes after finalisation). -/
theorem release_exactly_once_after_finalize (es : List REv) :
    ∀ p ∈ (GcRuntime.run es).pools, relOnce p.tr = true ∧ noFinAfterRel p.tr = true :=
  fun p hp => ⟨(nodupB_iff _).mpr (rt_inv es p hp).relNodup, (rt_invR es p hp).nfar⟩

/-- … and by the time a pool is closed (`popRel`: PopContext, last step of Close) every current marking
that asked for release, and everything already queued for release, HAS been released — exactly once. -/
theorem release_exactly_once_by_close (es : List REv) :
    ∀ p ∈ (GcRuntime.run es).pools, p.fatal = false →
      (∀ e ∈ regL p, e.rel = false → (relOrders (ClonePool.use p .popRel).tr).count e.order = 1) ∧
      (∀ e ∈ p.pr, (relOrders (ClonePool.use p .popRel).tr).count e.order = 1) := by
  intro p hp hf
  have hnodup : (relOrders (ClonePool.use p .popRel).tr).Nodup := ((rt_inv es p hp).use .popRel).relNodup
  exact ⟨fun e he hr => count_one_of_nodup_mem hnodup (popRel_covers hf (Or.inl ⟨e, he, hr, rfl⟩)),
    fun e he => count_one_of_nodup_mem hnodup (popRel_covers hf (Or.inr (mem_ords.mpr ⟨e, he, rfl⟩)))⟩

/-- FALSE at the level of the raw pool API (not reachable through runtime.go, which always extracts
pending finalisations before pending releases): with two objects sharing a key, `ExtractPendingRelease`
before `ExtractPendingFinalize` releases an epoch that is finalised afterwards. -/
theorem release_after_finalize_raw_pool_counterexample :
    noFinAfterRel (ClonePool.run [.mark a true true, .mark ⟨1, 7, false, 0⟩ false false, .mark ⟨1, 7, false, 0⟩ true true,
      .fire a, .fire ⟨1, 7, false, 0⟩, .xPR, .xPF]).tr = false := by decide

example : relOrders (GcRuntime.run [.prim (.mark a true true), .prim (.mark b false true), .close]).log = [2, 1] := by decide

/-! ### close_order_reverse_mark -/

/-- What `ExtractAllMarkedFinalize`, `ExtractAllMarkedRelease`, `ExtractPendingFinalize`,
`ExtractPendingRelease` hand out after ANY history is in strictly descending markOrder — and markOrders
are handed to markings in strictly ascending order, so this is the reverse order of marking. -/
theorem close_order_reverse_mark (us : List Use) :
    descB (ords (afOut (ClonePool.run us))) = true ∧ descB (ords (arOut (ClonePool.run us))) = true ∧
    descB (ords (sortDesc (ClonePool.run us).pf)) = true ∧ descB (ords (sortDesc (ClonePool.run us).pr)) = true ∧
    (markOrders (ClonePool.run us).tr).Pairwise (fun m n => m < n) := by
  have hi := Inv.run us
  refine ⟨?_, ?_, ?_, ?_, (InvAll.run us).owed.markAsc⟩ <;> rw [descB_iff]
  · rw [afOut_eq]
    refine sortDesc_strict _ ?_
    have := afOut_nodup hi
    rwa [afOut_eq, nodup_ords_sortDesc] at this
  · rw [arOut_eq]
    refine sortDesc_strict _ ?_
    unfold ords; rw [List.map_append]
    refine nodup_append_of hi.prNodup (filter_ords_nodup hi.regAsc _) ?_
    intro n hn hn'
    obtain ⟨e, he, heo⟩ := mem_ords.mp hn
    exact (hi.regRel e (List.mem_filter.mp he).1).2 (heo ▸ hn')
  · exact sortDesc_strict _ hi.pfNodup
  · exact sortDesc_strict _ hi.prNodup

example : ords (afOut (ClonePool.run [.mark a true false, .mark b true true, .mark a true false])) = [3, 2] := by decide

/-! ### remark_resets_order -/

/-- Re-marking a value (any object with its key) gives it the newest markOrder: the register then holds
no other entry for that key, the new entry is among what close would finalise, and everything else that
close would finalise has a strictly smaller markOrder — so (by `close_order_reverse_mark`) the re-marked
value is finalised FIRST. -/
theorem remark_resets_order (us : List Use) (o : Obj) (r : Bool)
    (hf : (ClonePool.run us).fatal = false) (hreg : (ClonePool.run us).reg ≠ none) :
    (∃ e ∈ afOut (ClonePool.use (ClonePool.run us) (.mark o true r)), e.val.key = o.key ∧ e.order = (ClonePool.run us).last + 1 ∧
      ∀ x ∈ afOut (ClonePool.use (ClonePool.run us) (.mark o true r)), x = e ∨ x.order < (ClonePool.run us).last + 1) ∧
    (∀ x ∈ regL (ClonePool.use (ClonePool.run us) (.mark o true r)), x.val.key = o.key → x.order = (ClonePool.run us).last + 1) := by
  have hi := Inv.run us
  generalize ClonePool.run us = p at *
  generalize hp' : ClonePool.use p (.mark o true r) = p'
  obtain ⟨rg, hrg⟩ : ∃ rg, p.reg = some rg := by
    cases h : p.reg with
    | none => exact absurd h hreg
    | some rg => exact ⟨rg, rfl⟩
  have hr : regL p = rg := regL_of_some hrg
  have hregL : regL p' = regErase rg o.key ++
      [{ val := { key := o.key, id := p.last + 1, clone := true, pool := p.pid }, order := p.last + 1, fin := false, rel := !r }] := by
    rw [← hp', use_of_not_fatal hf]
    unfold ClonePool.mark regL
    simp [hrg]
  have hpf : p'.pf = p.pf := by
    rw [← hp', use_of_not_fatal hf]; exact (mark_ext p o true r).choose_spec.2.2.2
  have hmem : ∀ x, x ∈ afOut p' ↔ x ∈ p.pf ∨ (x ∈ regErase rg o.key ∧ x.fin = false) ∨
      x = { val := { key := o.key, id := p.last + 1, clone := true, pool := p.pid }, order := p.last + 1, fin := false, rel := !r } := by
    intro x
    rw [afOut_eq, mem_sortDesc, hregL, hpf, List.filter_append, List.mem_append, List.mem_append, List.mem_filter]
    simp
  refine ⟨⟨_, (hmem _).mpr (Or.inr (Or.inr rfl)), rfl, rfl, ?_⟩, ?_⟩
  · intro x hx
    rcases (hmem x).mp hx with h1 | ⟨h1, _⟩ | h1
    · right; have := hi.pfLe x h1; omega
    · right
      have := hi.regLe x (hr ▸ (mem_regErase h1).1)
      omega
    · left; exact h1
  · intro x hx hk
    rw [hregL] at hx
    rcases List.mem_append.mp hx with h1 | h1
    · exact absurd hk (mem_regErase h1).2
    · rw [List.mem_singleton.mp h1]

example : (ClonePool.run [.mark a true false, .mark b true false]).fatal = false ∧
    (ClonePool.run [.mark a true false, .mark b true false]).reg ≠ none ∧
    ords (afOut (ClonePool.use (ClonePool.run [.mark a true false, .mark b true false]) (.mark a true false))) = [3, 2] := by
  decide

/-! ### killed_context_releases_without_finalizing -/

/-- A CallContext that is killed (in ANY reachable state with a non-root current pool `p`): no finaliser
runs, every current marking of `p` that asked for release and everything queued for release is released
exactly once (`release_exactly_once_by_close`), the log grows by exactly those releases in descending
markOrder, and the popped pool never hands anything to a finaliser afterwards, whatever happens to it. -/
theorem killed_context_releases_without_finalizing (es : List REv) (p : Pool) (rest : List Pool)
    (hs : (GcRuntime.run es).live = p :: rest) (hf : (GcRuntime.run es).fatal = false) (hpf : p.fatal = false) :
    finOrders (rstep (GcRuntime.run es) .callKilled).log = finOrders (GcRuntime.run es).log ∧
    relOrders (rstep (GcRuntime.run es) .callKilled).log = relOrders (GcRuntime.run es).log ++ ords (arOut (skipAF p)) ∧
    (∀ e ∈ regL p, e.rel = false → e.order ∈ ords (arOut (skipAF p))) ∧
    (∀ us : List Use, finOrders (us.foldl ClonePool.use (ClonePool.use p .popRel)).tr = finOrders p.tr) := by
  obtain ⟨h1, h2⟩ := callKilled_log (GcRuntime.run es) p rest hs hf hpf
  refine ⟨h1, h2, ?_, ?_⟩
  · intro e he hr
    rw [arOut_eq, regL_skipAF]
    apply mem_ords_sortDesc.mpr
    unfold ords; rw [List.map_append, List.mem_append]
    right
    refine List.mem_map.mpr ⟨{ e with fin := true }, List.mem_filter.mpr ⟨?_, by simpa using hr⟩, rfl⟩
    unfold setFinAll; exact List.mem_map.mpr ⟨e, he, rfl⟩
  · intro us
    rw [(popRel_dead p hpf).foldl us, popRel_no_fin]

example : (GcRuntime.run [.prim .push, .prim (.mark a true true), .prim (.mark b true false), .callKilled]).log
    = [.rel .ar ⟨1, 1, true, 1⟩ 1] := by
  decide

/-! ### never_finalized_while_reachable -/

/-- Relative to the environment assumption `Disciplined` (Go runs a finaliser only for an object the
program no longer references; the program marks only objects it holds or brand-new values, distinct
values having distinct keys; the close-time ExtractAllMarkedFinalize has not been used yet): after ANY
such history, no object sharing a key with a value queued for finalisation is referenced by the
program — and `ExtractPendingFinalize` hands out exactly the queued values (`xPF`), so a value is never
finalised by the pending path while the program can still reach it.
MISSING for the full property: histories in which `ExtractAllMarkedFinalize` has already handed out
clones (a finaliser run at the end of a context that itself runs coroutines): see the counterexample. -/
theorem never_finalized_while_reachable_partial (es : List WEv) (hd : Disciplined es = true) :
    ∀ e ∈ (World.run es).pool.pf, ∀ x ∈ (World.run es).refs, x.key ≠ e.val.key :=
  (J.run es hd).pfRefs

/-- a non-trivial disciplined history: two values, one dropped and collected, the other still held -/
example : Disciplined [.use (.mark a true false), .use (.mark b true true), .drop a, .use (.fire a)] = true ∧
    (World.run [.use (.mark a true false), .use (.mark b true true), .drop a, .use (.fire a)]).pool.pf.length = 1 ∧
    (World.run [.use (.mark a true false), .use (.mark b true true), .drop a, .use (.fire a)]).refs = [b] := by
  decide

/-- FALSE without the "close-time extraction not used yet" assumption: `a` is finalised by
`ExtractAllMarkedFinalize` while referenced (as Lua does at close), the finaliser re-marks the clone it
was given and keeps it; later `a` itself is dropped and collected: the queued finalisation is for a value
the program still reaches through the kept clone.  (Every Go finaliser fires for an unreferenced object.) -/
theorem never_finalized_while_reachable_counterexample :
    EnvOK [.use (.mark a true false), .use .xAF, .use (.mark a1 true false), .drop a, .use (.fire a)] = true ∧
    (World.run [.use (.mark a true false), .use .xAF, .use (.mark a1 true false), .drop a, .use (.fire a)]).pool.pf.any
      (fun e => (World.run [.use (.mark a true false), .use .xAF, .use (.mark a1 true false), .drop a, .use (.fire a)]).refs.any
        (fun x => x.key == e.val.key)) = true := by
  decide

/-! ### which context owns a value; where its finaliser runs; what is marked; raising finalisers -/

/-- The model's `isolates` (mirror of the condition in `PushContext`): a context gets its own pool iff
the policy asks for it, or ANY hard limit — cpu, memory or time — is set, or it requires compliance flags. -/
theorem isolates_iff (d : CtxDef) :
    isolates d = true ↔ (d.policy = .isolate ∨ d.millis = true ∨ d.cpu = true ∨ d.mem = true ∨ d.flags = true) := by
  unfold isolates
  simp [Bool.or_eq_true, or_assoc]

/-- A context that isolates OWNS a fresh pool (every value marked inside goes to that pool, the outer pools
are untouched by the push); one that does not isolate changes no pool at all. -/
theorem isolating_context_owns_pool (s : Rt) (d : CtxDef) (hf : s.fatal = false) :
    (isolates d = true → (rstep s (.pushCtx d)).live = { pid := s.live.length + s.dead.length } :: s.live ∧
        (rstep s (.pushCtx d)).frames = true :: s.frames) ∧
    (isolates d = false → (rstep s (.pushCtx d)).live = s.live ∧ (rstep s (.pushCtx d)).frames = false :: s.frames) := by
  constructor <;> intro hi <;> simp [rstep, hi, GcRuntime.prim, hf]

example : isolates { mem := true } = true ∧ isolates { millis := true, policy := .share } = true ∧
    isolates { flags := true } = true ∧ isolates { flags := true, policy := .share } = true ∧
    isolates { policy := .share } = false ∧ isolates {} = false := by decide

/-- Finalisers of values owned by a context run INSIDE it: whatever `finAll` (end of an isolating
CallContext, Close) finalises is recorded as having run while exactly the current contexts were open. -/
theorem finalizers_run_inside_current_context (s : Rt) (p : Pool) (rest : List Pool) (hs : s.live = p :: rest)
    (hf : s.fatal = false) :
    (GcRuntime.prim s .finAll).ran =
      s.ran ++ List.replicate ((GcRuntime.prim s .finAll).log.length - s.log.length) s.frames.length := by
  unfold GcRuntime.prim
  simp only [hf, Bool.false_eq_true, if_false]
  unfold onCurrent
  rw [hs]
  simp [List.map_const']

/-- mirror of `(*UserData).MarkFlags`: a releasable userdata is marked for release WHATEVER its metatable
(none, one without `__gc`, one with `__gc`) -/
theorem releasable_always_marked_release (hasMeta hasGc : Bool) :
    (userDataMarkFlags true hasMeta hasGc).2 = true ∧
    (userDataMarkFlags true hasMeta hasGc).1 = (hasMeta && hasGc) := ⟨rfl, rfl⟩

/-- … and is therefore released by the close of its pool: in any reachable pool, after marking `o` with
those flags, `popRel` releases the new epoch (exactly once, by `release_exactly_once_by_close`). -/
theorem releasable_userdata_released_by_close (us : List Use) (o : Obj) (hasMeta hasGc : Bool)
    (hreg : (ClonePool.run us).reg ≠ none)
    (hf : (ClonePool.use (ClonePool.run us) (.mark o (hasMeta && hasGc) true)).fatal = false) :
    (ClonePool.run us).last + 1 ∈
      relOrders (ClonePool.use (ClonePool.use (ClonePool.run us) (.mark o (hasMeta && hasGc) true)) .popRel).tr := by
  generalize ClonePool.run us = p at *
  have hpf : p.fatal = false := by
    by_cases h : p.fatal = true
    · rw [use_fatal h] at hf; rw [hf] at h; cases h
    · simpa using h
  obtain ⟨rg, hrg⟩ : ∃ rg, p.reg = some rg := by
    cases h : p.reg with
    | none => exact absurd h hreg
    | some rg => exact ⟨rg, rfl⟩
  refine popRel_covers hf (Or.inl ⟨Entry.mk (Obj.mk o.key (p.last + 1) true p.pid) (p.last + 1) (!(hasMeta && hasGc)) false, ?_, rfl, rfl⟩)
  rw [use_of_not_fatal hpf]
  unfold ClonePool.mark regL
  simp [hrg]

example : (ClonePool.run [.mark a true false]).reg ≠ none ∧
    (ClonePool.use (ClonePool.run [.mark a true false]) (.mark b false true)).fatal = false := by decide

/-- mirror of the loop of `runFinalizers`: the WHOLE batch is run whichever finalisers raise; exactly the
raising ones are reported -/
theorem finalizer_error_does_not_skip (raises : Nat → Bool) (batch : List TEv) :
    (runFinalizers raises batch).1 = batch ∧
    (runFinalizers raises batch).2 =
      batch.filterMap (fun e => match e with | .fin _ v n => if raises n then some v.key else none | _ => none) := by
  refine ⟨runFinalizers_fst raises batch, ?_⟩
  induction batch with
  | nil => rfl
  | cons e t ih =>
    cases e with
    | fin k v n => by_cases h : raises n <;> simp [runFinalizers, ih, h]
    | mark _ _ _ _ => simpa [runFinalizers] using ih
    | unmark _ => simpa [runFinalizers] using ih
    | fired _ => simpa [runFinalizers] using ih
    | rel _ _ _ => simpa [runFinalizers] using ih
    | skip _ _ => simpa [runFinalizers] using ih

/-- … hence what a runtime step adds to the log does not depend on which finalisers raise: it is exactly what
the pool handed out. -/
theorem log_independent_of_raising (s : Rt) (p : Pool) (rest : List Pool) (hs : s.live = p :: rest) (u : Use) (d : Nat) :
    (onCurrent s u d).log = s.log ++ (delta p (ClonePool.use p u)).filter isLogEv :=
  (onCurrent_facts s p rest hs u d).1

example : (GcRuntime.run [.prim (.mark a true false), .prim (.setRaise 1), .prim (.mark b true false), .close]).log =
      [.fin .af ⟨2, 2, true, 0⟩ 2, .fin .af a1 1] ∧
    (GcRuntime.run [.prim (.mark a true false), .prim (.setRaise 1), .prim (.mark b true false), .close]).warned = [1] := by
  decide

/-! ### defects of the current code beyond the property's wording -/

/-! ### one owner per value: `markingPool`, `Marked`, clear-then-set -/

/-- After ANY history, a value (key) is in the register of AT MOST ONE live pool: a value belongs to the
context in which it was first marked (`markingPool` re-marks it there), so it can never be looked after,
hence finalised or released, by two pools at once. -/
theorem marked_in_at_most_one_pool (es : List REv) (a b : Nat) (p q : Pool) (hab : a ≠ b)
    (hp : (GcRuntime.run es).live[a]? = some p) (hq : (GcRuntime.run es).live[b]? = some q) (k : Nat) :
    marked p k = true → marked q k = false :=
  run_disj es a b p q hab hp hq k

/-- In ANY state whose live pools are disjoint (every reachable one is): if an enclosing pool already looks
after the value, the mark goes THERE — the current pool's register and trace do not change, no pool other than
the one `markingPool` designates gets a marking epoch, and the pools stay disjoint. -/
theorem remark_goes_to_owner (s : Rt) (p : Pool) (rest : List Pool) (hs : s.live = p :: rest)
    (hd : Disj s.live) (o : Obj) (f r : Bool) :
    Disj (markRt s o f r).live ∧
    (∀ j q, j ≠ markingIdx rest o.key → s.live[j]? = some q → marked q o.key = false) ∧
    (∀ j, j ≠ markingIdx rest o.key →
      ((markRt s o f r).live[j]?).map (fun q => (q.reg, q.tr, q.last)) = (s.live[j]?).map (fun q => (q.reg, q.tr, q.last))) := by
  refine ⟨markRt_disj hd o f r, ?_, ?_⟩
  · intro j q hj hget
    rw [hs] at hget hd
    exact markingIdx_fresh p rest o.key hd j q hj hget
  · intro j hj
    unfold GcRuntime.markRt
    rw [hs]
    simp only
    generalize wouldRegister ((p :: rest)[markingIdx rest o.key]?.getD p) o = c
    generalize (c && (List.map (fun q => if c = true then clearFinalizer q o else q) (p :: rest) ++
      List.map (fun q => if c = true then clearFinalizer q o else q) s.dead).any fun q => q.goReg.contains o) = cond
    cases cond
    case true => simp only [if_true]
    case false =>
      simp only [Bool.false_eq_true, if_false]
      rw [getElem?_applyAt, if_neg hj, List.getElem?_map]
      cases (p :: rest)[j]? with
      | none => rfl
      | some q => cases c <;> rfl

/-- a re-mark from inside a nested context of a value the root pool looks after: epoch 2 is in the ROOT pool -/
example : ((GcRuntime.run [.prim (.mark a true false), .prim .push, .prim (.mark a true false)]).live.map (fun q => q.last)) = [0, 2] := by
  decide

/-- UNCONDITIONALLY (any state, any object, any context): marking never makes runtime.SetFinalizer throw —
`Mark` clears whatever Go finaliser another pool (ended or not) left on the object before it sets its own. -/
theorem mark_never_throws (s : Rt) (o : Obj) (f r : Bool) (hs : s.fatal = false) (hp : ∀ q ∈ s.live, q.fatal = false) :
    (GcRuntime.prim s (.mark o f r)).fatal = false := by
  unfold GcRuntime.prim
  simp only [hs, Bool.false_eq_true, if_false]
  split
  · exact hs
  · rw [markRt_fatal, hs, Bool.false_or, List.any_eq_false]
    intro q hq; simp [hp q hq]

/-- runtime.SetFinalizer NEVER throws: no reachable runtime state is `fatal`, and no pool is — for every
history in which the program marks a pool's own clone (in that pool) only after the pool has handed it out
(`OkRun`; the only plain SetFinalizer left is the one ExtractPendingFinalize does on the clones it hands out,
and a program cannot name a clone before it has been given it).  Both former witnesses (re-mark in a nested
context; re-mark of a value that escaped an ended context) satisfy the assumption. -/
theorem setfinalizer_never_throws (es : List REv) (hok : OkRun {} es) :
    (GcRuntime.run es).fatal = false ∧ ∀ p ∈ (GcRuntime.run es).pools, p.fatal = false := by
  have h := NFall.init.run_from es hok
  exact ⟨h.nofatal, fun p hp => (h.pools p hp).nofatal⟩

/-- the two former crash witnesses satisfy the assumption (only originals are marked) … -/
example : OkRun {} [.prim (.mark a true false), .prim .push, .prim (.mark a true false), .callDone,
    .prim (.mark a true false), .close] :=
  ⟨okEv_of_original _ _ _ _ rfl, trivial, okEv_of_original _ _ _ _ rfl, trivial, okEv_of_original _ _ _ _ rfl, trivial, trivial⟩

/-- … and they no longer end in `fatal`; the value is finalised once per marking epoch -/
example : (GcRuntime.run [.prim (.mark a true false), .prim .push, .prim (.mark a true false), .callDone,
    .prim (.mark a true false), .close]).fatal = false ∧
    finOrders (GcRuntime.run [.prim (.mark a true false), .prim .push, .prim (.mark a true false), .callDone,
    .prim (.mark a true false), .close]).log = [3] := by decide

/-- `Mark` panics (`assignment to entry in nil map`) exactly when the pool's register has been released
(`ExtractAllMarkedRelease`) and the flags are not 0: a pool must not be marked in after its context was popped /
the runtime closed.  (At runtime level a released pool that is not the root's leaves `live` in the same step,
so this can only be reached by using a Runtime after `Close`.) -/
theorem mark_panics_iff_pool_released (p : Pool) (o : Obj) (f r : Bool) :
    (ClonePool.mark p o f r).panics = p.panics + 1 ↔ (p.reg = none ∧ ¬(f = false ∧ r = false)) := by
  unfold ClonePool.mark
  split
  · rename_i h0
    constructor
    · intro h; split at h
      · omega
      · split at h <;> simp at h
    · intro h; exact absurd h0 h.2
  · rename_i h0
    split
    · rename_i hreg
      simp [hreg, h0]
    · rename_i rg hreg
      constructor
      · intro h
        have : (if (regLookup rg o.key).isNone = true then registerNew p o else p).panics = p.panics := by split <;> simp
        simp only at h
        omega
      · intro h; rw [hreg] at h; cases h.1

example : (ClonePool.run [.mark a true false, .popRel, .mark b true false]).panics = 1 := by decide

end GoluaVerif.Props.C18
