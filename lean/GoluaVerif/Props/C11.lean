/-
  Props.C11 — errors reach exactly the nearest protected call, with their value intact.

  Part 1: theorems about the error part of the reference semantics `Spec.Lua` (all programs, stores, fuel).
  Part 2: theorems about `Model.ErrRoute`, the mirror of runtime/error.go `AddContext`, lib/base/error.go and
          the routing in runtime/thread.go `RunContinuation`, and its agreement with the reference semantics.
  (`Evals x s r s'` = started in store `s`, `x` finishes with result `r` in store `s'`.)
-/
import GoluaVerif.Proofs.LuaEvals
import GoluaVerif.Model.ErrRoute
namespace GoluaVerif.Props.C11
open GoluaVerif GoluaVerif.Spec GoluaVerif.Spec.Lua GoluaVerif.Model

/-! ## Part 1 — the reference semantics -/

/-- raising with no message handler installed throws exactly the given value, unhandled, store untouched -/
theorem raise_without_handler {α} (r : Rec) (stack : List Nat) (v : Val) (s : Store) :
    Evals (raise r ⟨stack, none⟩ v : M α) s (.error (.lua v false)) s :=
  evals_throw _ _

/-- `error_value_identity` (raise site): `error(v)` with any non-string value raises `v` itself —
    for a table the very same reference — whatever the level -/
theorem error_raises_value_unchanged (r : Rec) (stack : List Nat) (v : Val) (rest : List Val) (s : Store)
    (hv : ∀ b, v ≠ .str b) (hlevel : rest = [] ∨ ∃ n, rest = [.int n]) :
    Evals (builtinCall r ⟨stack, none⟩ .error (v :: rest)) s (.error (.lua v false)) s := by
  unfold builtinCall
  rcases hlevel with rfl | ⟨n, rfl⟩
  · simp only [List.headD_cons, List.length_cons, List.length_nil]
    cases v <;> first | exact raise_without_handler _ _ _ _ | exact absurd rfl (hv _)
  · simp only [List.headD_cons, List.length_cons, List.length_nil, List.tail_cons, toIntArg]
    cases v <;> first | exact raise_without_handler _ _ _ _ | exact absurd rfl (hv _)

/-- `error_value_identity` (end to end through `pcall`): `pcall(error, v)` returns `false, v` — the same
    value, by reference for tables — and leaves the store exactly as it was -/
theorem error_value_identity (fo : FloatOps) (n : Nat) (dyn : Dyn) (v : Val) (s : Store) (hv : ∀ b, v ≠ .str b) :
    Evals ((evalN fo (n + 2)).call dyn (.builtin .pcall) [.builtin .error, v]) s (.ok [.bool false, v]) s := by
  show Evals (builtinCall (evalN fo (n + 1)) dyn .pcall [.builtin .error, v]) s _ s
  unfold builtinCall
  simp only [List.isEmpty_cons, Bool.false_eq_true, ↓reduceIte, List.headD_cons, List.tail_cons]
  refine evals_bind_ok (evals_tryLua_lua (v := v) (hd := false) ?_) (evals_pure _ _)
  show Evals (builtinCall (evalN fo n) ⟨0 :: dyn.stack, none⟩ .error [v]) s _ s
  exact error_raises_value_unchanged _ _ v [] s hv (.inl rfl)

/-- an error raised inside a Lua function leaves that function's activation unchanged: same value, same
    `handled` mark, same store (frames between the raise and the catch do not touch the error) -/
theorem call_propagates_error (r : Rec) (dyn : Dyn) (a : Nat) (args : List Val) {s c s1 env s2 e s3}
    (hc : Evals (getClosure a) s (.ok c) s1)
    (hb : Evals (bindNames c.body.params (adjust c.body.params.length args) c.env) s1 (.ok env) s2)
    (hbody : Evals (r.stmts { env := env, varargs := if c.body.isVararg then args.drop c.body.params.length else [],
                              line := 0, dyn := dyn } c.body.body none env.length 0 0) s2 (.error e) s3) :
    Evals (stepCall r dyn (.func a) args) s (.error e) s3 := by
  unfold stepCall
  exact evals_bind_ok hc (evals_bind_ok hb (evals_bind_err hbody))

/-- `nearest_handler_only` (pcall): a `pcall` hides every message handler installed further out -/
theorem nearest_handler_only_pcall (r : Rec) (stack : List Nat) (h h' : Option Val) (f : Val) (args : List Val) :
    builtinCall r ⟨stack, h⟩ .pcall (f :: args) = builtinCall r ⟨stack, h'⟩ .pcall (f :: args) := by
  unfold builtinCall
  simp only [List.isEmpty_cons, Bool.false_eq_true, ↓reduceIte, List.headD_cons, List.tail_cons]

/-- `nearest_handler_only` (xpcall): an `xpcall` replaces the handler: the outer one is not consulted
    for errors raised under it -/
theorem nearest_handler_only_xpcall (r : Rec) (stack : List Nat) (h h' : Option Val) (f hd : Val) (args : List Val) :
    builtinCall r ⟨stack, h⟩ .xpcall (f :: hd :: args) = builtinCall r ⟨stack, h'⟩ .xpcall (f :: hd :: args) := by
  unfold builtinCall
  have : ¬ (args.length + 1 + 1 < 2) := by omega
  simp [this]

/-- `xpcall_handler_once`: at a raise under `xpcall` the handler is called exactly once, at the point of
    the error (in the store of that moment), itself running with no handler installed; its first result
    (nil if none) replaces the error value, and the error is marked as handled -/
theorem xpcall_handler_once {α} (r : Rec) (stack : List Nat) (hd v : Val) {s rs s'}
    (hcall : Evals (r.call ⟨0 :: stack, none⟩ hd [v]) s (.ok rs) s') :
    Evals (raise r ⟨stack, some hd⟩ v : M α) s (.error (.lua (rs.headD .nil) true)) s' := by
  unfold raise
  exact evals_bind_ok hcall (evals_throw _ _)

/-- … and `xpcall` hands that replaced value to its caller: `false, v'`, in the store in which the
    protected call ended -/
theorem xpcall_returns_handler_result (r : Rec) (dyn : Dyn) (f hd : Val) (args : List Val) {s v' flag s'}
    (h : Evals (r.call ⟨0 :: dyn.stack, some hd⟩ f args) s (.error (.lua v' flag)) s') :
    Evals (builtinCall r dyn .xpcall (f :: hd :: args)) s (.ok [.bool false, v']) s' := by
  unfold builtinCall
  simp only [List.length_cons, List.headD_cons, List.tail_cons]
  have : ¬ (args.length + 1 + 1 < 2) := by omega
  simp only [this, ↓reduceIte]
  exact evals_bind_ok (evals_tryLua_lua h) (evals_pure _ _)

/-- `state_consistent_after_catch` (1): the store `pcall` returns with is exactly the store in which the
    protected call ended — nothing is rolled back, nothing else happens — -/
theorem state_after_catch_is_state_at_error (r : Rec) (dyn : Dyn) (f : Val) (args : List Val) {s v hd s'}
    (h : Evals (r.call ⟨0 :: dyn.stack, none⟩ f args) s (.error (.lua v hd)) s') :
    Evals (builtinCall r dyn .pcall (f :: args)) s (.ok [.bool false, v]) s' := by
  unfold builtinCall
  simp only [List.isEmpty_cons, Bool.false_eq_true, ↓reduceIte, List.headD_cons, List.tail_cons]
  exact evals_bind_ok (evals_tryLua_lua h) (evals_pure _ _)

/-- whatever the protected function had already computed (e.g. the values of a `return` interrupted by a raising
    `__close` handler), a failed `pcall` has exactly two results -/
theorem pcall_error_has_two_results (r : Rec) (dyn : Dyn) (f : Val) (args : List Val) {s v hd s' res s''}
    (h : Evals (r.call ⟨0 :: dyn.stack, none⟩ f args) s (.error (.lua v hd)) s')
    (hp : Evals (builtinCall r dyn .pcall (f :: args)) s (.ok res) s'') : res.length = 2 := by
  have := (Evals.det hp (state_after_catch_is_state_at_error r dyn f args h)).1
  cases this; rfl

/-- `state_consistent_after_catch` (2): … and that store extends the one before the call: every cell (local
    variable, upvalue), table and closure that existed is still there, the input is unchanged and the
    events emitted before the error are all still in the trace (with any fuel, any function, any error) -/
theorem state_consistent_after_catch (fo : FloatOps) (n : Nat) (dyn : Dyn) (args : List Val) {s r s'}
    (h : Evals (builtinCall (evalN fo n) dyn .pcall args) s r s') : Store.Le s s' :=
  h.grows (grows_builtinCall (evalN_grows fo n) dyn .pcall args)

/-- the position prefix of `error(msg, level)` in the reference semantics: the current line of the
    level-th active function, nothing for level 0 or when that function is not a Lua function -/
theorem error_position_prefix (r : Rec) (stack : List Nat) (msg : Bytes) (lv : I64) (s : Store)
    (hpos : 0 < lv.toInt) :
    Evals (builtinCall r ⟨stack, none⟩ .error [.str msg, .int lv]) s
      (.error (.lua (.str ((posPrefix (Dyn.lineAt ⟨stack, none⟩ lv.toInt.toNat)).toUTF8 ++ msg)) false)) s := by
  unfold builtinCall
  simp only [List.headD_cons, List.length_cons, List.length_nil, List.tail_cons, toIntArg]
  simp only [show ¬ (0 + 1 + 1 < 2) by omega, ↓reduceIte, hpos]
  exact raise_without_handler _ _ _ _

theorem error_level0_no_prefix (r : Rec) (stack : List Nat) (msg : Bytes) (s : Store) :
    Evals (builtinCall r ⟨stack, none⟩ .error [.str msg, .int 0#64]) s (.error (.lua (.str msg) false)) s := by
  unfold builtinCall
  simp only [List.headD_cons, List.length_cons, List.length_nil, List.tail_cons, toIntArg]
  have hz : ¬ ((0#64 : I64).toInt > 0) := by decide
  simp only [show ¬ (0 + 1 + 1 < 2) by omega, ↓reduceIte, hz]
  exact raise_without_handler r stack (.str msg) s

/-! ### the `coroutine.resume` boundary -/

/-- a `yield` is not an error: `pcall` lets it pass (a coroutine may yield across a protected call) -/
theorem yield_passes_pcall (r : Rec) (dyn : Dyn) (f : Val) (args : List Val) {s vs s'}
    (h : Evals (r.call ⟨0 :: dyn.stack, none⟩ f args) s (.error (.yield vs)) s') :
    Evals (builtinCall r dyn .pcall (f :: args)) s (.error (.yield vs)) s' := by
  unfold builtinCall
  simp only [List.isEmpty_cons, Bool.false_eq_true, ↓reduceIte, List.headD_cons, List.tail_cons]
  exact evals_bind_err (evals_tryLua_other h (by intro v hd hh; cases hh))

/-- … and a to-be-closed scope stays open while its coroutine is suspended: the scope reacts to Lua errors and to
    `coroutine.close` only -/
theorem yield_leaves_tbc_open {α} (x : M α) {s vs s'} (h : Evals x s (.error (.yield vs)) s') :
    Evals (tryTbc x) s (.error (.yield vs)) s' := evals_tryTbc_yield h

/-- in a running coroutine, live, `coroutine.yield(vs)` suspends with exactly those values and leaves the store as it is -/
theorem yield_suspends (r : Rec) (dyn : Dyn) (vs : List Val) (s : Store)
    (hco : s.costack.isEmpty = false) (hlive : s.replay = []) :
    Evals (yieldCo r dyn vs) s (.error (.yield vs)) s := by
  unfold yieldCo
  refine evals_bind_ok (evals_getS s) ?_
  simp only [hco, Bool.false_eq_true, ↓reduceIte]
  exact evals_bind_ok (evals_nextLog_live s hlive) (evals_throw _ _)

/-- yielding from the main thread is a runtime error -/
theorem yield_outside_coroutine (r : Rec) (stack : List Nat) (vs : List Val) (s : Store) (hmain : s.costack = []) :
    Evals (yieldCo r ⟨stack, none⟩ vs) s
      (.error (.lua (.ofString (posPrefix (stack.headD 0) ++ "!" ++ "yieldmain")) false)) s := by
  unfold yieldCo
  refine evals_bind_ok (evals_getS s) ?_
  simp only [hmain, List.isEmpty_nil, ↓reduceIte]
  unfold rtError
  exact raise_without_handler r stack _ s

/-- `error_value_identity` at the resume boundary: when the body of a coroutine ends with the Lua error value `v`,
    running it reports `false, v` — the value itself — and the coroutine is dead, died with `v` -/
theorem resume_catches_error (r : Rec) (co : Nat) (c : CoState) (first : List Val) (log : List LogEntry) {s v hd s1}
    (hbody : Evals (r.call ⟨[0], none⟩ c.fn first)
      { s with cos := s.cos.setIfInBounds co { c with started := true, args := first },
               costack := co :: s.costack, recs := log.reverse :: s.recs, replay := log } (.error (.lua v hd)) s1)
    (hdone : s1.replay = []) :
    Evals (coRun r co c first log) s (.ok (false, [v]))
      { s1 with costack := s1.costack.tail, recs := s1.recs.tail, replay := [],
                cos := s1.cos.setIfInBounds co
                  { (s1.cos.getD co default) with dead := true, err := some v, log := (s1.recs.headD []).reverse } } := by
  unfold coRun
  refine evals_bind_ok (evals_modify _ s) (evals_bind_ok (evals_tryCo_err hbody) (evals_bind_ok (evals_getS s1) ?_))
  simp only [hdone, List.isEmpty_nil, Bool.not_true, Bool.false_eq_true, ↓reduceIte]
  exact evals_bind_ok (evals_modify _ s1) (evals_pure _ _)

/-- when the body yields `vs`, running it reports `true, vs` and the coroutine stays alive with its log extended -/
theorem resume_returns_yielded (r : Rec) (co : Nat) (c : CoState) (first : List Val) (log : List LogEntry) {s vs s1}
    (hbody : Evals (r.call ⟨[0], none⟩ c.fn first)
      { s with cos := s.cos.setIfInBounds co { c with started := true, args := first },
               costack := co :: s.costack, recs := log.reverse :: s.recs, replay := log } (.error (.yield vs)) s1)
    (hdone : s1.replay = []) :
    Evals (coRun r co c first log) s (.ok (true, vs))
      { s1 with costack := s1.costack.tail, recs := s1.recs.tail, replay := [],
                cos := s1.cos.setIfInBounds co { (s1.cos.getD co default) with log := (s1.recs.headD []).reverse } } := by
  unfold coRun
  refine evals_bind_ok (evals_modify _ s) (evals_bind_ok (evals_tryCo_yield hbody) (evals_bind_ok (evals_getS s1) ?_))
  simp only [hdone, List.isEmpty_nil, Bool.not_true, Bool.false_eq_true, ↓reduceIte]
  exact evals_bind_ok (evals_modify _ s1) (evals_pure _ _)

/-! ## Part 2 — the model of golua's error routing -/

open ErrRoute

/-- handled errors are never touched -/
theorem addContext_handled_untouched {V} (e : Error V) (ch : List Frame) (d : Int) (h : e.handled = true) :
    addContext e ch d = e := by
  unfold addContext; simp [h]

theorem ln_ne (a : Int) : (if a ≠ 0 then a else -1) ≠ 0 := by split <;> omega

/-- after `AddContext` an error is marked: its line is non-zero (a line or -1) or it is handled -/
theorem addContext_marks {V} (e : Error V) (ch : List Frame) (d : Int) :
    (addContext e ch d).lineno ≠ 0 ∨ (addContext e ch d).handled = true := by
  unfold addContext
  split
  · assumption
  · dsimp only
    split
    · simp
    · split
      · simp
      · split
        · simp
        · split
          · split
            · rename_i hne
              split <;> simp [hne]
            · split <;> simp
          · simp only []
            split <;> simp_all

/-- `addContext_idempotent`: context is attached at most once -/
theorem addContext_idempotent {V} (e : Error V) (ch ch' : List Frame) (d d' : Int) :
    addContext (addContext e ch d) ch' d' = addContext e ch d := by
  have key : ∀ x : Error V, x.lineno ≠ 0 ∨ x.handled = true → addContext x ch' d' = x := by
    intro x hx; unfold addContext; simp only [hx, ↓reduceIte]
  exact key _ (addContext_marks e ch d)

/-- only string messages are ever prefixed: any other value travels unchanged -/
theorem addContext_value_intact {V} (e : Error V) (ch : List Frame) (d : Int) (v : V) (h : e.message = .other v) :
    (addContext e ch d).message = .other v := by
  unfold addContext
  by_cases h0 : e.lineno ≠ 0 ∨ e.handled = true
  · simp only [h0, ↓reduceIte] <;> exact h
  · simp only [h0, ↓reduceIte]
    by_cases hd : d = 0
    · simp [hd, h]
    · simp only [hd, ↓reduceIte]
      split
      · exact h
      · split
        · exact h
        · simp only [h]

/-- the first value pushed to the handler continuation is the error value; later pushes are ignored -/
theorem handler_first_push_wins {V} (c : HandlerCont V) (v w : V) :
    ((c.push v).push w).err = (c.push v).err := by
  unfold HandlerCont.push
  cases h : c.err <;> simp [h]


/-- `position_prefix_levels` (level k ≥ 1): a fresh string error raised with level `k` is prefixed with
    `source:line:` of the k-th frame of the chain when that frame has a positive current line … -/
theorem position_prefix_levels {V} (s : String) (ch : List Frame) (k : Nat) (f : Frame) (rest : List Frame)
    (info : DebugInfo) (hk : walkUp ch k = f :: rest) (hi : f.info = some info) (hline : 0 < info.currentLine) :
    (addContext ({ message := .str s } : Error V) ch (k + 1)).message =
      .str (info.source ++ ":" ++ toString info.currentLine ++ ": " ++ s) := by
  unfold addContext
  have h1 : ¬ ((k : Int) + 1 = 0) := by omega
  have h2 : (k : Int) + 1 > 0 := by omega
  have h3 : ((k : Int) + 1).toNat - 1 = k := by omega
  have h4 : info.currentLine ≠ 0 := by omega
  simp [h1, h2, h3, hk, hi, h4, hline]

/-- … and is left alone at level 0 -/
theorem position_prefix_level0 {V} (s : String) (ch : List Frame) :
    (addContext ({ message := .str s } : Error V) ch 0).message = .str s := by
  unfold addContext; simp

/-- a frame without a positive line (a Go function, or unknown line) gives no prefix -/
theorem no_prefix_without_line {V} (s : String) (ch : List Frame) (k : Nat) (f : Frame) (rest : List Frame)
    (hk : walkUp ch k = f :: rest) (hi : ∀ info, f.info = some info → info.currentLine ≤ 0) :
    (addContext ({ message := .str s } : Error V) ch (k + 1)).message = .str s := by
  unfold addContext
  have h1 : ¬ ((k : Int) + 1 = 0) := by omega
  have h2 : (k : Int) + 1 > 0 := by omega
  have h3 : ((k : Int) + 1).toNat - 1 = k := by omega
  simp [h1, h2, h3, hk]
  cases hfi : f.info with
  | none => simp
  | some info =>
    have := hi info hfi
    by_cases hz : info.currentLine = 0
    · simp [hz]
    · have h5 : ¬ (0 < info.currentLine) := by omega
      simp [hz, h5]

/-- `error(msg)` (level 1) is not decorated by `errorF` itself; the routing in `RunContinuation`
    (AddContext(c, -1) from the `error` continuation) finds the nearest Lua continuation — the caller — and
    produces the same message as an explicit level 1 -/
theorem error_default_level_same_as_level1 {V} (s : String) (goFrame caller : Frame) (rest : List Frame)
    (hgo : goFrame.isLua = false) (hlua : caller.isLua = true) :
    (route (errorF (V := V) (.str s) 1 (caller :: rest)) (goFrame :: caller :: rest)).message =
    (addContext ({ message := .str s } : Error V) (caller :: rest) 1).message := by
  unfold route errorF addContext
  simp [nearestLua, hgo, hlua, walkUp]

/-- the continuation chain whose k-th frame is a Lua function at line `stack[k]` (host frames, marked 0, have no debug info) -/
def chainOf (stack : List Nat) : List Frame :=
  stack.map fun (l : Nat) => if l = 0 then ⟨false, none⟩ else ⟨true, some ⟨chunkName, (l : Int)⟩⟩

theorem walkUp_chainOf (stack : List Nat) (k : Nat) : walkUp (chainOf stack) k = chainOf (stack.drop k) := by
  induction k generalizing stack with
  | zero => simp [walkUp]
  | succ k ih =>
    cases stack with
    | nil => simp [walkUp, chainOf]
    | cons a t =>
      simp only [chainOf, List.map_cons, walkUp, List.drop_succ_cons]; exact ih t

/-- agreement of the model with the reference semantics on position prefixes: golua's `AddContext(…, level)` on
    that chain and `Spec.Lua`'s `error(msg, level)` build the same message -/
theorem model_prefix_agrees_with_spec (s : String) (stack : List Nat) (k : Nat) :
    (addContext ({ message := .str s } : Error Unit) (chainOf stack) (k + 1)).message =
      .str (posPrefix (Dyn.lineAt ⟨stack, none⟩ (k + 1)) ++ s) := by
  have h1 : ¬ ((k : Int) + 1 = 0) := by omega
  have h2 : (k : Int) + 1 > 0 := by omega
  have h3 : ((k : Int) + 1).toNat - 1 = k := by omega
  unfold addContext
  simp only [h1, h2, h3, walkUp_chainOf]
  simp only [Dyn.lineAt, Nat.add_one_ne_zero, ↓reduceIte, Nat.add_sub_cancel]
  cases hd : stack.drop k with
  | nil =>
    have hl : stack.length ≤ k := by simpa using hd
    have h0 : stack[k]?.getD 0 = 0 := by simp [List.getElem?_eq_none hl]
    simp [chainOf, h0, posPrefix]
  | cons l rest =>
    have hl : stack[k]?.getD 0 = l := by
      have h0 : (stack.drop k)[0]? = some l := by simp [hd]
      rw [List.getElem?_drop] at h0
      simp at h0
      simp [h0]
    by_cases h0 : l = 0
    · simp [chainOf, hl, h0, posPrefix]
    · have hp : 0 < l := by omega
      have hr : (l : Int).repr = l.repr := rfl
      simp [chainOf, hl, h0, posPrefix, hp, natToDec, String.append_assoc, hr]

/-! ### non-vacuity -/

example : (addContext ({ message := .str "boom" } : Error Unit) [⟨true, some ⟨"chunk", 7⟩⟩] 1).message
    = .str "chunk:7: boom" := by decide

example : (addContext ({ message := .other () } : Error Unit) [⟨true, some ⟨"chunk", 7⟩⟩] 1).message
    = .other () := by decide

section examples
variable (fo : FloatOps)

def exStore : Store := { initStore [] with tables := (initStore []).tables.push Table.empty }

theorem evals_type_call (n : Nat) (dyn : Dyn) (v : Val) (s : Store) :
    Evals ((evalN fo (n + 1)).call dyn (.builtin .type) [v]) s (.ok [.ofString v.typeName]) s := by
  show Evals (builtinCall (evalN fo n) dyn .type [v]) s _ s
  unfold builtinCall
  exact evals_pure _ _

/-- a raise under `xpcall(…, type)`: the handler `type` runs once on the error value, its result replaces it -/
example : Evals (raise (evalN fo 1) ⟨[5], some (.builtin .type)⟩ (.table 4) : M Unit) exStore
    (.error (.lua (.ofString "table") true)) exStore :=
  xpcall_handler_once (evalN fo 1) [5] (.builtin .type) (.table 4) (evals_type_call fo 0 _ _ _)

/-- `xpcall(error, type, t)` returns `false, "table"` -/
example : Evals (builtinCall (evalN fo 2) ⟨[5], none⟩ .xpcall [.builtin .error, .builtin .type, .table 4]) exStore
    (.ok [.bool false, .ofString "table"]) exStore :=
  xpcall_returns_handler_result (evalN fo 2) ⟨[5], none⟩ (.builtin .error) (.builtin .type) [.table 4] (flag := true) (by
    show Evals (builtinCall (evalN fo 1) ⟨0 :: [5], some (.builtin .type)⟩ .error [.table 4]) exStore _ exStore
    unfold builtinCall
    exact xpcall_handler_once (evalN fo 1) (0 :: [5]) (.builtin .type) (.table 4) (evals_type_call fo 0 _ _ _))

/-- `pcall(error, t)`: the table comes back by reference, the store is untouched -/
example : Evals ((evalN fo 2).call ⟨[5], none⟩ (.builtin .pcall) [.builtin .error, .table 4]) exStore
    (.ok [.bool false, .table 4]) exStore :=
  error_value_identity fo 0 ⟨[5], none⟩ (.table 4) exStore (by intro b h; cases h)

/-- `error("boom", 2)` called from line 9 of a function that was called from line 5 -/
example : Evals (builtinCall (evalN fo 1) ⟨[9, 5], none⟩ .error [.str "boom".toUTF8, .int 2#64]) exStore
    (.error (.lua (.str ("chunk:5: ".toUTF8 ++ "boom".toUTF8)) false)) exStore :=
  error_position_prefix (evalN fo 1) [9, 5] "boom".toUTF8 2#64 exStore (by decide)

end examples

/-- a frame chain satisfying the hypotheses of `position_prefix_levels` / `no_prefix_without_line` -/
example : (addContext ({ message := .str "m" } : Error Unit) [⟨true, some ⟨"chunk", 9⟩⟩, ⟨true, some ⟨"chunk", 5⟩⟩] 2).message
    = .str "chunk:5: m" :=
  position_prefix_levels "m" _ 1 ⟨true, some ⟨"chunk", 5⟩⟩ [] ⟨"chunk", 5⟩ rfl rfl (by decide)

example : (addContext ({ message := .str "m" } : Error Unit) [⟨true, some ⟨"chunk", 9⟩⟩, ⟨false, none⟩] 2).message = .str "m" :=
  no_prefix_without_line "m" _ 1 ⟨false, none⟩ [] rfl (by intro info h; cases h)

/-- whole programs evaluated by the kernel:
    `local t = {}; local ok, e = pcall(function() error(t) end); return ok, e == t` -/
example : (match run default 16 [.local_ 1 [("t", .none)] [.table []],
             .local_ 2 [("ok", .none), ("e", .none)]
               [.call (.var "pcall") [.func (.mk [] false [.callS 2 (.call (.var "error") [.var "t"])])]],
             .return_ 3 [.var "ok", .bin .eq (.var "e") (.var "t")]] [] with
           | .done rets _ => rets
           | _ => []) = [.bool false, .bool true] := by decide +kernel

/-- `return pcall(function()` / `  error("x")` / `end)` gives `false, "chunk:2: x"` -/
example : (match run default 16 [.return_ 1 [.call (.var "pcall")
               [.func (.mk [] false [.callS 2 (.call (.var "error") [.str "x".toUTF8])])]]] [] with
           | .done rets _ => rets
           | _ => []) = [.bool false, .ofString "chunk:2: x"] := by decide +kernel

/-- `local t = {}; local co = coroutine.create(function() coroutine.yield(1); error(t) end); coroutine.resume(co);
    local ok, e = coroutine.resume(co); return ok, e == t, coroutine.status(co), coroutine.resume(co)` -/
example : (match run default 40 [.local_ 1 [("t", .none)] [.table []],
             .local_ 2 [("co", .none)] [.call (.index (.var "coroutine") (.str "create".toUTF8))
               [.func (.mk [] false [.callS 2 (.call (.index (.var "coroutine") (.str "yield".toUTF8)) [.int 1#64]),
                                     .callS 2 (.call (.var "error") [.var "t"])])]],
             .callS 3 (.call (.index (.var "coroutine") (.str "resume".toUTF8)) [.var "co"]),
             .local_ 4 [("ok", .none), ("e", .none)] [.call (.index (.var "coroutine") (.str "resume".toUTF8)) [.var "co"]],
             .return_ 5 [.var "ok", .bin .eq (.var "e") (.var "t"),
                         .paren (.call (.index (.var "coroutine") (.str "status".toUTF8)) [.var "co"]),
                         .paren (.call (.index (.var "coroutine") (.str "resume".toUTF8)) [.var "co"])]] [] with
           | .done rets _ => rets
           | _ => []) = [.bool false, .bool true, .ofString "dead", .bool false] := by decide +kernel

def strE (s : String) : Expr := .str s.toUTF8
def setmt (t m : Expr) : Expr := .call (.var "setmetatable") [t, m]

/-- a `__close` handler raising during `return 10, 20` under pcall: exactly two results, `false` and the error value -/
example : (match run default 40 [
      .local_ 1 [("f", .none)] [.func (.mk [] false [
        .local_ 2 [("c", .close)] [setmt (.table []) (.table [.named (strE "__close") (.func (.mk ["o", "e"] false [.callS 2 (.call (.var "error") [strE "boom", .int 0#64])]))])],
        .return_ 3 [.int 10#64, .int 20#64]])],
      .return_ 5 [.call (.var "select") [strE "#", .call (.var "pcall") [.var "f"]], .call (.var "pcall") [.var "f"]]] [] with
    | .done rets _ => rets
    | _ => []) = [.int 2#64, .bool false, .ofString "boom"] := by decide +kernel

end GoluaVerif.Props.C11
