/-
  Props.C02 — property theorems for C02 (numbers), stated over the definitions
  REGENERATED from /repo (Generated.Arith, Generated.Comp) and over Spec.Num.
-/
import GoluaVerif.Generated.Arith
import GoluaVerif.Generated.Comp
import GoluaVerif.Spec.Num
namespace GoluaVerif.Props.C02
open GoluaVerif GoluaVerif.Spec

/-- integer addition wraps modulo 2^64 (two's complement) -/
theorem add_wraps (x y : I64) : (x + y).toInt = Int.bmod (x.toInt + y.toInt) (2 ^ 64) :=
  BitVec.toInt_add x y

theorem sub_wraps (x y : I64) : (x - y).toInt = Int.bmod (x.toInt - y.toInt) (2 ^ 64) :=
  BitVec.toInt_sub

theorem mul_wraps (x y : I64) : (x * y).toInt = Int.bmod (x.toInt * y.toInt) (2 ^ 64) :=
  BitVec.toInt_mul x y

theorem unm_wraps (x : I64) : (-x).toInt = Int.bmod (-x.toInt) (2 ^ 64) :=
  BitVec.toInt_neg

end GoluaVerif.Props.C02
