/-
  Props.C02 — property theorems for C02 (numbers), stated over the definitions
  REGENERATED from /repo (Generated.Arith, Generated.Comp) and over Spec.Num.
-/
import GoluaVerif.Generated.Arith
import GoluaVerif.Generated.Comp
import GoluaVerif.Spec.Num
import GoluaVerif.Proofs.IntDiv
namespace GoluaVerif.Props.C02
open GoluaVerif GoluaVerif.Spec GoluaVerif.Proofs
open GoluaVerif.Generated.Arith

/-- integer addition wraps modulo 2^64 (two's complement) -/
theorem add_wraps (x y : I64) : (x + y).toInt = Int.bmod (x.toInt + y.toInt) (2 ^ 64) :=
  BitVec.toInt_add x y

theorem sub_wraps (x y : I64) : (x - y).toInt = Int.bmod (x.toInt - y.toInt) (2 ^ 64) :=
  BitVec.toInt_sub

theorem mul_wraps (x y : I64) : (x * y).toInt = Int.bmod (x.toInt * y.toInt) (2 ^ 64) :=
  BitVec.toInt_mul x y

theorem unm_wraps (x : I64) : (-x).toInt = Int.bmod (-x.toInt) (2 ^ 64) :=
  BitVec.toInt_neg

/-- `x % y` as computed by the REGENERATED `modInt` (runtime/arith.go) is the manual's modulo
`x − ⌊x/y⌋·y` for every pair of int64 values with y ≠ 0 (no overflow case is excluded). -/
theorem modInt_spec (x y : BitVec 64) (hy : y ≠ 0#64) :
    (modInt x y).toInt = Int.fmod x.toInt y.toInt := by
  have hy' : y.toInt ≠ 0 := by
    intro h; apply hy; exact BitVec.eq_of_toInt_eq (by simpa using h)
  have hyl := @BitVec.toInt_lt 64 y
  have hyl' := @BitVec.le_toInt 64 y
  have hr : (x.srem y).toInt = x.toInt.tmod y.toInt := BitVec.toInt_srem x y
  have hb := tmod_bounds x.toInt y.toInt hy'
  unfold modInt
  simp only [Id.run, pure]
  rw [fmod_of_tmod _ _ hy']
  have hz : (x.srem y != 0#64) = true ↔ x.toInt.tmod y.toInt ≠ 0 := by rw [ne_zero_iff_toInt, hr]
  have hs : (x.srem y).slt 0#64 = decide (x.toInt.tmod y.toInt < 0) := by
    rw [BitVec.slt_eq_decide, hr]; simp
  have hys : y.slt 0#64 = decide (y.toInt < 0) := by rw [BitVec.slt_eq_decide]; simp
  rw [hs, hys]
  by_cases hc : x.toInt.tmod y.toInt ≠ 0 ∧ (decide (x.toInt.tmod y.toInt < 0) != decide (y.toInt < 0)) = true
  · rw [if_pos hc, if_pos (by rw [Bool.and_eq_true]; exact ⟨hz.mpr hc.1, hc.2⟩)]
    rw [BitVec.toInt_add, hr]
    have h2 := hc.2
    simp only [bne_iff_ne, ne_eq, decide_eq_decide] at h2
    apply Int.bmod_eq_of_le <;> omega
  · rw [if_neg hc, if_neg (by rw [Bool.and_eq_true]; intro h; exact hc ⟨hz.mp h.1, h.2⟩)]
    exact hr

/-- `x // y` as computed by the regenerated `floordivInt` is ⌊x/y⌋ wrapped to 64 bits
(the only wrapping case is minint // -1). -/
theorem floordivInt_spec (x y : BitVec 64) (hy : y ≠ 0#64) :
    (floordivInt x y).toInt = Int.bmod (Int.fdiv x.toInt y.toInt) (2 ^ 64) := by
  have hy' : y.toInt ≠ 0 := by
    intro h; apply hy; exact BitVec.eq_of_toInt_eq (by simpa using h)
  have hr : (x.srem y).toInt = x.toInt.tmod y.toInt := BitVec.toInt_srem x y
  have hq : (x.sdiv y).toInt = (x.toInt.tdiv y.toInt).bmod (2 ^ 64) := BitVec.toInt_sdiv x y
  unfold floordivInt
  simp only [Id.run, pure]
  rw [fdiv_of_tdiv _ _ hy']
  have hz : (x.srem y != 0#64) = true ↔ x.toInt.tmod y.toInt ≠ 0 := by rw [ne_zero_iff_toInt, hr]
  have hs : (x.srem y).slt 0#64 = decide (x.toInt.tmod y.toInt < 0) := by
    rw [BitVec.slt_eq_decide, hr]; simp
  have hys : y.slt 0#64 = decide (y.toInt < 0) := by rw [BitVec.slt_eq_decide]; simp
  rw [hs, hys]
  by_cases hc : x.toInt.tmod y.toInt ≠ 0 ∧ (decide (x.toInt.tmod y.toInt < 0) != decide (y.toInt < 0)) = true
  · rw [if_pos hc, if_pos (by rw [Bool.and_eq_true]; exact ⟨hz.mpr hc.1, hc.2⟩)]
    rw [BitVec.toInt_sub, hq]
    simp only [Int.bmod_def]
    simp
    omega
  · rw [if_neg hc, if_neg (by rw [Bool.and_eq_true]; intro h; exact hc ⟨hz.mp h.1, h.2⟩)]
    exact hq

/-- the result of `%` has the sign of the divisor (or is zero) and is smaller in magnitude -/
theorem mod_sign (x y : BitVec 64) (hy : y ≠ 0#64) :
    (0 < y.toInt → 0 ≤ (modInt x y).toInt ∧ (modInt x y).toInt < y.toInt) ∧
    (y.toInt < 0 → y.toInt < (modInt x y).toInt ∧ (modInt x y).toInt ≤ 0) := by
  rw [modInt_spec x y hy]
  constructor
  · intro h; exact ⟨Int.fmod_nonneg_of_pos _ h, Int.fmod_lt_of_pos _ h⟩
  · intro h
    have hy' : y.toInt ≠ 0 := by omega
    rw [Int.fmod_eq_emod]
    have h0 := Int.emod_nonneg x.toInt hy'
    have h1 := Int.emod_lt x.toInt hy'
    have hd : y.toInt ∣ x.toInt ↔ x.toInt % y.toInt = 0 := Int.dvd_iff_emod_eq_zero
    by_cases hdv : y.toInt ∣ x.toInt
    · have := hd.mp hdv
      simp [hdv, this]; omega
    · have : x.toInt % y.toInt ≠ 0 := fun hh => hdv (hd.mpr hh)
      have hnn : ¬ (0 ≤ y.toInt) := by omega
      simp [hdv, hnn]; omega

/-- `x == (x // y) * y + x % y` in 64-bit arithmetic, for every x and every y ≠ 0 -/
theorem idiv_mod_identity (x y : BitVec 64) (hy : y ≠ 0#64) :
    floordivInt x y * y + modInt x y = x := by
  apply BitVec.eq_of_toInt_eq
  rw [BitVec.toInt_add, BitVec.toInt_mul, modInt_spec x y hy, floordivInt_spec x y hy]
  have h := Int.fmod_add_mul_fdiv x.toInt y.toInt
  have hx := @BitVec.toInt_lt 64 x
  have hx' := @BitVec.le_toInt 64 x
  rw [Int.bmod_mul_bmod, Int.bmod_add_bmod]
  rw [Int.mul_comm, Int.add_comm, h]
  apply Int.bmod_eq_of_le <;> omega

example : modInt (BitVec.ofInt 64 (-7)) 3#64 = 2#64 := by decide
example : floordivInt (BitVec.ofInt 64 (-7)) 3#64 = BitVec.ofInt 64 (-3) := by decide
example : floordivInt I64.minInt (BitVec.ofInt 64 (-1)) = I64.minInt := by decide

/-! ### edge laws of the regenerated `floordivInt` / `modInt` -/

/-- `x // -1` is the wrapped negation for every int64, `minint` included (no trap, no special value) -/
theorem floordiv_minus_one (x : BitVec 64) : floordivInt x (BitVec.ofInt 64 (-1)) = -x := by
  apply BitVec.eq_of_toInt_eq
  rw [floordivInt_spec x _ (by decide), unm_wraps]
  have : (BitVec.ofInt 64 (-1)).toInt = -1 := by decide
  rw [this, Int.fdiv_eq_ediv]
  simp

/-- `x % -1 = 0` for every int64 (the case C's `%` traps on for `minint`) -/
theorem mod_minus_one (x : BitVec 64) : modInt x (BitVec.ofInt 64 (-1)) = 0#64 := by
  apply BitVec.eq_of_toInt_eq
  rw [modInt_spec x _ (by decide)]
  have : (BitVec.ofInt 64 (-1)).toInt = -1 := by decide
  rw [this, Int.fmod_eq_emod]
  simp

theorem floordiv_one (x : BitVec 64) : floordivInt x 1#64 = x := by
  apply BitVec.eq_of_toInt_eq
  rw [floordivInt_spec x _ (by decide)]
  have : (1#64 : BitVec 64).toInt = 1 := by decide
  rw [this]
  have hx := @BitVec.toInt_lt 64 x
  have hx' := @BitVec.le_toInt 64 x
  simp
  apply Int.bmod_eq_of_le <;> omega

/-- `%` is idempotent: reducing a residue again changes nothing -/
theorem mod_idempotent (x y : BitVec 64) (hy : y ≠ 0#64) : modInt (modInt x y) y = modInt x y := by
  apply BitVec.eq_of_toInt_eq
  rw [modInt_spec _ y hy, modInt_spec x y hy]
  simp

end GoluaVerif.Props.C02
