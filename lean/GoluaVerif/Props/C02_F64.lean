/-
  Props.C02_F64 — closing the loop between the 64-bit patterns the Go side prints
  and the exact value model `Base.F64` the comparison theorems are about:
  every bit pattern decodes to a well-formed value, `encode`/`decode` are mutually
  inverse away from NaN, `float64(n)` and `fmod` stay well-formed, and the IEEE
  comparisons form a strict total order on the non-NaN values (with -0 = +0).
-/
import GoluaVerif.Base.F64
import GoluaVerif.Proofs.F64Bits
namespace GoluaVerif.Props.C02
open GoluaVerif GoluaVerif.Proofs

/-- every 64-bit pattern decodes to a well-formed value: the `WF` hypothesis of the
comparison theorems is met by anything the oracle reads -/
theorem decode_wf (b : BitVec 64) : (F64.decode b).WF = true := by
  rw [decode_eq_ofFields]
  exact ofFields_wf (fields_lt b).1 (fields_lt b).2

/-- Go's `float64(n)` is a well-formed double for every |n| ≤ 2^64 (covers int64 and uint64) -/
theorem ofInt_wf (n : Int) (h : n.natAbs ≤ 2 ^ 64) : (F64.ofInt n).WF = true :=
  ofInt_magOK h

theorem ofI64_wf (n : I64) : (F64.ofI64 n).WF = true := by
  apply ofInt_wf
  have h1 := @BitVec.le_toInt 64 n
  have h2 := @BitVec.toInt_lt 64 n
  omega

/-- re-encoding a decoded non-NaN pattern gives the pattern back -/
theorem encode_decode (b : BitVec 64) (h : (F64.decode b).isNaN = false) :
    F64.encode (F64.decode b) = b := by
  rw [decode_eq_ofFields] at h ⊢
  rw [encode_ofFields (fields_lt b).1 (fields_lt b).2 h]
  exact (bits_decomp b).symm

/-- decoding the encoding of a well-formed non-NaN value gives the value back -/
theorem decode_encode (f : F64) (hf : f.WF = true) (h : f.isNaN = false) :
    F64.decode (F64.encode f) = f := by
  obtain ⟨neg, e, m, he, hm, rfl⟩ := exists_fields f hf h
  rw [encode_ofFields he hm h, decode_bitsOf he hm]

/-- NaN: every NaN pattern decodes to `nan`, which encodes to one canonical quiet NaN that
decodes to `nan` again (payloads are not preserved — nor observable through the model). -/
theorem decode_encode_nan : F64.decode (F64.encode .nan) = .nan := by decide

/-- `math.Mod` / C `fmod` never rounds: the result of the model's `fmod` is well-formed -/
theorem fmod_wf (a b : F64) (ha : a.WF = true) (hb : b.WF = true) : (F64.fmod a b).WF = true := by
  cases a with
  | nan => rfl
  | inf s => cases b <;> rfl
  | fin n m =>
    cases b with
    | nan => rfl
    | inf s => exact ha
    | fin s d =>
      cases d with
      | zero => rfl
      | succ d => exact magOK_mod (m := m) (d := d + 1) ha hb

/-! ### the IEEE comparisons are a strict total order on non-NaN values -/

theorem beq_refl_of_not_nan (a : F64) (h : a.isNaN = false) : F64.beq a a = true := by
  rw [beq_key h h]; exact decide_eq_true rfl

theorem beq_nan_false (a : F64) : F64.beq .nan a = false ∧ F64.beq a .nan = false := by
  constructor <;> simp [F64.beq, F64.isNaN]

theorem blt_irrefl (a : F64) : F64.blt a a = false := by
  unfold F64.blt
  cases a.isNaN
  · simp
  · rfl

theorem blt_trans (a b c : F64) (h1 : F64.blt a b = true) (h2 : F64.blt b c = true) :
    F64.blt a c = true := by
  unfold F64.blt at *
  simp only [Bool.and_eq_true, Bool.not_eq_true', decide_eq_true_eq] at *
  exact ⟨⟨h1.1.1, h2.1.2⟩, by omega⟩

theorem blt_asymm (a b : F64) (h : F64.blt a b = true) : F64.blt b a = false := by
  unfold F64.blt at *
  simp only [Bool.and_eq_true, Bool.not_eq_true', decide_eq_true_eq, Bool.and_eq_false_imp] at *
  intro _
  exact decide_eq_false (by omega)

theorem ble_iff_blt_or_beq (a b : F64) : F64.ble a b = (F64.blt a b || F64.beq a b) := by
  unfold F64.ble F64.blt F64.beq
  cases a.isNaN <;> cases b.isNaN <;> simp only [Bool.not_false, Bool.not_true, Bool.true_and,
    Bool.false_and, Bool.and_false, Bool.or_false]
  rw [Bool.eq_iff_iff]
  simp only [decide_eq_true_eq, Bool.or_eq_true]
  omega

/-- totality: two non-NaN values are `<`, `==` or `>` — exactly one of the three -/
theorem blt_trichotomy (a b : F64) (ha : a.isNaN = false) (hb : b.isNaN = false) :
    (F64.blt a b = true ∧ F64.beq a b = false ∧ F64.blt b a = false) ∨
    (F64.blt a b = false ∧ F64.beq a b = true ∧ F64.blt b a = false) ∨
    (F64.blt a b = false ∧ F64.beq a b = false ∧ F64.blt b a = true) := by
  rw [blt_key ha hb, beq_key ha hb, blt_key hb ha]
  simp only [decide_eq_true_eq, decide_eq_false_iff_not]
  omega

/-- `==` on decoded bit patterns identifies exactly: identical patterns, and +0 with -0 -/
theorem key_decode_injective (a b : BitVec 64)
    (ha : (F64.decode a).isNaN = false) (hb : (F64.decode b).isNaN = false)
    (hk : (F64.decode a).key = (F64.decode b).key) :
    a = b ∨ (a = 0x0000000000000000#64 ∧ b = 0x8000000000000000#64) ∨
      (a = 0x8000000000000000#64 ∧ b = 0x0000000000000000#64) := by
  have ea := encode_decode a ha
  have eb := encode_decode b hb
  rcases key_inj (decode_wf a) (decode_wf b) ha hb hk with h | ⟨s, s', h1, h2⟩
  · left; rw [← ea, ← eb, h]
  · rw [h1] at ea; rw [h2] at eb
    cases s <;> cases s'
    · left; rw [← ea, ← eb]
    · right; left; exact ⟨ea.symm, eb.symm⟩
    · right; right; exact ⟨ea.symm, eb.symm⟩
    · left; rw [← ea, ← eb]

/-- consequently `beq` on decoded patterns is bit equality, except for the two zeros and NaN -/
theorem beq_decode_iff (a b : BitVec 64)
    (ha : (F64.decode a).isNaN = false) (hb : (F64.decode b).isNaN = false) :
    F64.beq (F64.decode a) (F64.decode b) = true ↔
      (a = b ∨ (a = 0x0000000000000000#64 ∧ b = 0x8000000000000000#64) ∨
        (a = 0x8000000000000000#64 ∧ b = 0x0000000000000000#64)) := by
  rw [beq_key ha hb, decide_eq_true_iff]
  constructor
  · exact key_decode_injective a b ha hb
  · rintro (h | ⟨h1, h2⟩ | ⟨h1, h2⟩)
    · rw [h]
    · subst h1; subst h2; decide
    · subst h1; subst h2; decide

/-! ### non-vacuity -/

-- 1.0, -2.5, smallest subnormal, largest finite, ±inf, a NaN with payload
example : F64.decode 0x3FF0000000000000#64 = .fin false (2 ^ 1074) := by decide +kernel
example : F64.decode 0xC004000000000000#64 = .fin true (5 * 2 ^ 1073) := by decide +kernel
example : F64.decode 0x0000000000000001#64 = .fin false 1 := by decide +kernel
example : F64.decode 0x7FEFFFFFFFFFFFFF#64 = .fin false ((2 ^ 53 - 1) * 2 ^ 2045) := by decide +kernel
example : F64.decode 0xFFF0000000000000#64 = .inf true := by decide +kernel
example : F64.decode 0x7FF0000000000123#64 = .nan := by decide +kernel
example : (F64.decode 0x7FEFFFFFFFFFFFFF#64).WF = true := by decide +kernel
-- the hypotheses of encode_decode / decode_encode hold for these
example : (F64.decode 0xC004000000000000#64).isNaN = false := by decide +kernel
example : F64.encode (F64.decode 0xC004000000000000#64) = 0xC004000000000000#64 := by decide +kernel
example : F64.encode (F64.decode 0x7FEFFFFFFFFFFFFF#64) = 0x7FEFFFFFFFFFFFFF#64 := by decide +kernel
example : F64.encode (F64.decode 0x800FFFFFFFFFFFFF#64) = 0x800FFFFFFFFFFFFF#64 := by decide +kernel
example : F64.encode (F64.decode 0x8000000000000000#64) = 0x8000000000000000#64 := by decide +kernel
-- NaN payloads are the only patterns not recovered
example : F64.encode (F64.decode 0x7FF0000000000123#64) ≠ 0x7FF0000000000123#64 := by decide +kernel
-- float64 of integers: 2^53+1 rounds to 2^53 (0x4340000000000000); maxint rounds to 2^63
example : F64.encode (F64.ofInt (2 ^ 53 + 1)) = 0x4340000000000000#64 := by decide +kernel
example : F64.encode (F64.ofI64 I64.maxInt) = 0x43E0000000000000#64 := by decide +kernel
example : F64.encode (F64.ofInt (2 ^ 64)) = 0x43F0000000000000#64 := by decide +kernel
example : (F64.ofInt (-(2 ^ 64))).WF = true := by decide +kernel
-- fmod 5.5 2 = 1.5; fmod -5.5 2 = -1.5 ; fmod x 0 = nan
example : F64.encode (F64.fmod (F64.decode 0x4016000000000000#64) (F64.decode 0x4000000000000000#64))
    = 0x3FF8000000000000#64 := by decide +kernel
example : F64.encode (F64.fmod (F64.decode 0xC016000000000000#64) (F64.decode 0x4000000000000000#64))
    = 0xBFF8000000000000#64 := by decide +kernel
example : F64.fmod (F64.decode 0x4016000000000000#64) (F64.decode 0x8000000000000000#64) = .nan := by
  decide +kernel
-- order: -inf < -2.5 < -0 == +0 < tiny < 1 < max < +inf; NaN is unordered
example : F64.blt (F64.decode 0xFFF0000000000000#64) (F64.decode 0xC004000000000000#64) = true := by
  decide +kernel
example : F64.beq (F64.decode 0x8000000000000000#64) (F64.decode 0x0000000000000000#64) = true := by
  decide +kernel
example : F64.blt (F64.decode 0x8000000000000000#64) (F64.decode 0x0000000000000001#64) = true := by
  decide +kernel
example : F64.blt (F64.decode 0x7FEFFFFFFFFFFFFF#64) (F64.decode 0x7FF0000000000000#64) = true := by
  decide +kernel
example : F64.ble (F64.decode 0x7FF8000000000000#64) (F64.decode 0x7FF8000000000000#64) = false := by
  decide +kernel

end GoluaVerif.Props.C02
