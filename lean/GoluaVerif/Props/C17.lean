/-
  Props.C17 — value serialisation round trips (string.pack / unpack / packsize,
  string.format %q, tostring / tonumber).  Models: Model.PackFmt / Pack / Unpack
  (mirrors of lib/stringlib/pack*.go, unpacker.go, tied by correspondence level B),
  Model.Quote (golua's %q), Spec.Quote (Lua 5.4's %q and the Lua reader).
-/
import GoluaVerif.Proofs.C17Loop
import GoluaVerif.Proofs.C17Num
import GoluaVerif.Proofs.C17Size
import GoluaVerif.Proofs.C17Malformed
import GoluaVerif.Proofs.C17QuoteGo
import GoluaVerif.Proofs.C17HexFloat
import GoluaVerif.Model.Quote
import GoluaVerif.Spec.Printf
namespace GoluaVerif.Props.C17
open GoluaVerif GoluaVerif.Model.Pack

/-! ## pack / unpack -/

/-- **Round trip, for every format string and every tuple of values.**
    If `string.pack(fmt, vs…)` succeeds, every `X` in `fmt` is directly followed by a sized option, and every value is
    of the kind its option stores and is stored without loss (`exact`: a `c<n>` string has exactly `n` bytes, an `f`
    float is a float32 value, all values are consumed), then `string.unpack(fmt, packed)` returns exactly `vs…`
    followed by `#packed + 1` (0-based `bs.length` here).  No bound on the number of options, sizes 1..16, both byte
    orders, any `!` alignment. -/
theorem unpack_pack (fmt : Bytes) (vs : List Val) (bs : Bytes)
    (hX : noDanglingX fmt = true) (hx : exact fmt vs = true) (hp : pack fmt vs = .ok bs) :
    unpack fmt bs 0 = .ok (vs, bs.length) := by
  unfold pack at hp
  split at hp
  · exact absurd hp (by simp)
  · rename_i bs' vs' hl
    injection hp with hp; subst hp
    have hi : Inv ({} : Rd).alignOnly fmt := ⟨hX, by intro h; simp at h⟩
    have := loop_rt (fmt.length + 1) {} fmt 0 vs bs' vs' hi hx hl []
    simp only [List.append_nil, Nat.zero_add] at this
    simp [unpack, this]

/-- the format `>!4 i2 Xi4 s1 z` -/
def exFmt : Bytes := [62, 33, 52, 32, 105, 50, 32, 88, 105, 52, 32, 115, 49, 32, 122]
def exVals : List Val := [.int (-2#64), .str [97, 0, 98], .str [99]]

/-- the hypotheses of `unpack_pack` are satisfiable by a format with endianness, alignment, an
    align-only item, a length-prefixed and a zero-terminated string -/
example : noDanglingX exFmt = true ∧ exact exFmt exVals = true ∧
    pack exFmt exVals = .ok [255, 254, 0, 0, 3, 97, 0, 98, 99, 0] :=
  ⟨by decide, by decide, by rfl⟩

/-- out-of-range integers are rejected by every integer option narrower than 8 bytes -/
theorem pack_rejects_overflow (e : Endian) (signed : Bool) (n : Nat) (v : I64)
    (h : intInBounds signed n v.toInt = false) : packInt e signed n v = .error .outOfBounds := by
  simp [packInt, h]

/-- …and the test is the two's-complement range of the width -/
theorem pack_rejects_overflow_signed (e : Endian) (n : Nat) (v : I64) (hn : n < 8)
    (h : v.toInt < -(2 ^ (8 * n - 1) : Int) ∨ (2 ^ (8 * n - 1) : Int) ≤ v.toInt) :
    packInt e true n v = .error .outOfBounds := by
  apply pack_rejects_overflow
  have : ¬ n ≥ 8 := by omega
  simp only [intInBounds, if_true, this, if_false, decide_eq_false_iff_not]
  omega

/-- sign extension: a negative integer packed in more than 8 bytes has all its extra bytes 0xff and reads back -/
theorem sign_extension (e : Endian) (n : Nat) (v : I64) (post : Bytes) (hn : 8 < n) :
    unpackInt e true n (intBytes e true n v ++ post) = .ok (v, post) :=
  unpackInt_packInt e true n v _ post (by omega) (by simp [packInt, intInBounds, show n ≥ 8 by omega])

/-- **packsize agrees with the packed length** for every format on which `string.packsize` succeeds (so: no `s`, `z`),
    given values that the format stores without loss (`exact`; this excludes `c0` with a non-empty string, for which
    golua's pack writes the whole string — see `packsize_c0_counterexample`). -/
theorem packsize_eq_length (fmt : Bytes) (vs : List Val) (bs : Bytes) (n : Nat)
    (hx : exact fmt vs = true) (hp : pack fmt vs = .ok bs) (hs : packsize fmt = .ok n) (hlen : bs.length < 2 ^ 64) :
    n = bs.length := by
  unfold pack at hp
  split at hp
  · exact absurd hp (by simp)
  · rename_i bs' vs' hl
    injection hp with hp; subst hp
    have := loop_size (fmt.length + 1) {} fmt 0 vs bs' vs' n hx hl hs (by omega)
    omega

/-- the format `!4 i1 Xi4 i2` with values 1, 2 -/
example : exact [33, 52, 32, 105, 49, 32, 88, 105, 52, 32, 105, 50] [.int 1#64, .int 2#64] = true ∧
    pack [33, 52, 32, 105, 49, 32, 88, 105, 52, 32, 105, 50] [.int 1#64, .int 2#64] = .ok [1, 0, 0, 0, 2, 0] ∧
    packsize [33, 52, 32, 105, 49, 32, 88, 105, 52, 32, 105, 50] = .ok 6 := ⟨by decide, by rfl, by rfl⟩

/-- `c0` with a non-empty string: pack writes 3 bytes, packsize says 0 (known finding C17-pack-c0) -/
theorem packsize_c0_counterexample :
    pack [99, 48] [.str [97, 98, 99]] = .ok [97, 98, 99] ∧ packsize [99, 48] = .ok 0 := ⟨by rfl, by rfl⟩

/-- **malformed formats raise errors** in string.pack: an unknown option character, a size outside [1,16] after
    `i I s !`, `c` without a size, a stray digit — whatever the values (and whatever error a value might raise first).
    (`noDanglingX`: every `X` is followed by a sized option; `Xc`, `Xx`, `X<` … are the subject of the known finding
    C17-pack-X-asymmetry and of `malformed_Xc_counterexample`.) -/
theorem malformed_format_error (fmt : Bytes) (vs : List Val)
    (hX : noDanglingX fmt = true) (hm : malformed fmt = true) : ∃ e, pack fmt vs = .error e := by
  have hi : Inv ({} : Rd).alignOnly fmt := ⟨hX, by intro h; simp at h⟩
  obtain ⟨e, he⟩ := packLoop_malformed (fmt.length + 1) {} fmt 0 vs (by omega) hi hm
  exact ⟨e, by simp [pack, he]⟩

/-- …and in string.unpack, whatever the data and the start index -/
theorem malformed_format_error_unpack (fmt data : Bytes) (i : Nat)
    (hX : noDanglingX fmt = true) (hm : malformed fmt = true) : ∃ e, unpack fmt data i = .error e := by
  have hi : Inv ({} : Rd).alignOnly fmt := ⟨hX, by intro h; simp at h⟩
  unfold unpack
  split
  · exact ⟨_, rfl⟩
  · obtain ⟨e, he⟩ := unpackLoop_malformed (fmt.length + 1) {} fmt i (data.drop i) (by omega) hi hm
    exact ⟨e, by simp [he]⟩

/-- `i17`, `!0`, `c`, `y`, `b1` are malformed and satisfy the hypotheses -/
example : (noDanglingX [105, 49, 55] && malformed [105, 49, 55]) = true ∧
    (noDanglingX [33, 48] && malformed [33, 48]) = true ∧ (noDanglingX [99] && malformed [99]) = true ∧
    (noDanglingX [121] && malformed [121]) = true ∧ (noDanglingX [98, 49] && malformed [98, 49]) = true := by decide

/-- after `X` the option `c` is accepted without its size: `string.pack("Xc")` succeeds (the reference
    implementation raises "invalid next option for option 'X'") -/
theorem malformed_Xc_counterexample : malformed [88, 99] = true ∧ pack [88, 99] [] = .ok [] := ⟨by decide, by rfl⟩

/-- `string.packsize` does not reject a trailing `X` (pack and unpack do) -/
theorem packsize_trailing_X_counterexample : malformed [88] = true ∧ packsize [88] = .ok 0 := ⟨by decide, by rfl⟩

/-! ## `%q` -/

open GoluaVerif.Spec.Quote in
/-- **`%q` round trip for strings, every byte string**, for the text Lua 5.4 prescribes (`Spec.quote` = `addquoted`)
    and the Lua short-string reader (`Spec.unquote`): control bytes, NUL, `"`, `\`, newline, CR, bytes ≥ 0x80 in any
    (valid or invalid UTF-8) combination, including the `\ddd` padding rule before a digit. -/
theorem q_roundtrip_string (s : Spec.Quote.Bytes) : unquote (quote s) = some s := unquote_quote s

/-- the text golua writes today (`strconv.Quote`, `Model.Quote.quoteGo`) is NOT read back when the string contains
    a valid UTF-8 rune that `unicode.IsPrint` rejects: U+00A0 (bytes c2 a0) becomes `"\u00a0"`, which the Lua
    reader refuses (`\u` must be followed by `{`).  Witness replayed on the implementation by ./check. -/
theorem q_roundtrip_string_golua_counterexample :
    Spec.Quote.unquote (Model.Quote.quoteGo (fun r => r != 0xA0) [0xC2, 0xA0]) = none := by decide

/-- what does hold of golua's text: every ASCII string (all bytes < 0x80: control bytes, NUL, quotes, backslashes,
    DEL included) reads back, whatever `unicode.IsPrint` says about the other code points.
    Missing for the full statement: strings with bytes ≥ 0x80 — false for non-printable runes (counterexample above);
    for printable runes and for invalid UTF-8 (written `\xNN`) it is checked by correspondence only. -/
theorem q_roundtrip_string_golua_partial (isPrint : Nat → Bool) (s : Spec.Quote.Bytes) (h : ∀ b ∈ s, b.toNat < 128) :
    Spec.Quote.unquote (Model.Quote.quoteGo isPrint s) = some s :=
  Model.Quote.unquote_quoteGo_ascii isPrint s h

example : ∀ b ∈ ([0, 10, 13, 34, 92, 127, 49] : List UInt8), b.toNat < 128 := by decide

/-- …and the same rune through Lua 5.4's definition is fine -/
example : Spec.Quote.unquote (Spec.Quote.quote [0xC2, 0xA0]) = some [0xC2, 0xA0] := by decide

/-- **`%q` round trip for integers, every integer** (Lua 5.4 text: decimal, `0x8000000000000000` for mininteger):
    the constant reads back as the same *integer*. -/
theorem q_roundtrip_int (v : I64) : Spec.Quote.evalNumLit (Spec.Quote.quoteInt v) = some (.int v) :=
  Spec.Quote.evalNumLit_quoteInt v

/-- golua writes `strconv.Itoa`; that reads back as the same integer for every integer except mininteger … -/
theorem q_roundtrip_int_golua_partial (v : I64) (h : v ≠ I64.minInt) :
    Spec.Quote.evalNumLit (Model.Quote.quoteInt v) = some (.int v) :=
  Spec.Quote.evalNumLit_showInt v h

/-- … for which a conforming Lua reader yields the *float* -2^63 (equal under `==`, but `math.type` differs).
    golua's own reader currently reads `9223372036854775808` as an integer (a C12 defect), which hides this. -/
theorem q_roundtrip_int_golua_minint_counterexample :
    Spec.Quote.evalNumLit (Model.Quote.quoteInt I64.minInt) = some (.flt (.fin true (2 ^ 63 * F64.scale))) := by
  decide +kernel

/-- infinities and NaN: `1e9999`, `-1e9999`, `(0/0)` (the same text in golua and in Lua 5.4) read back as themselves -/
theorem q_roundtrip_float_special :
    Spec.Quote.evalNumLit (Model.Quote.quoteFloat (fun _ => []) (.inf false)) = some (.flt (.inf false)) ∧
    Spec.Quote.evalNumLit (Model.Quote.quoteFloat (fun _ => []) (.inf true)) = some (.flt (.inf true)) ∧
    Spec.Quote.evalNumLit (Model.Quote.quoteFloat (fun _ => []) .nan) = some (.flt .nan) := by
  refine ⟨by decide +kernel, by decide +kernel, by decide⟩

/-- **`%q` round trip for floats, every double** (Lua 5.4 text: `1e9999`, `-1e9999`, `(0/0)`, otherwise a hexadecimal
    float `[-]0x1.<13 hex digits>p<exp>`): the constant reads back as exactly the same double — normal, subnormal,
    both zeros with their sign.  (golua writes `strconv.FormatFloat(x,'g',-1,64)` instead: a decimal text that reads back
    `==` but as an *integer* whenever it has no `.`/exponent, e.g. `1.0 → 1`, `-0.0 → -0`; Go's shortest-decimal
    algorithm is trusted and that leg is checked by correspondence only.) -/
theorem q_roundtrip_float (f : F64) (h : F64.WF f = true) :
    Spec.Quote.evalNumLit (Spec.Quote.quoteFloat f) = some (.flt f) := by
  cases f with
  | nan => decide
  | inf neg => cases neg <;> decide +kernel
  | fin neg mag => exact Spec.Quote.evalNumLit_quoteFloat_fin neg mag h

/-- 1.5, the smallest subnormal and the largest finite double satisfy the hypothesis -/
example : F64.WF (F64.decode 0x3ff8000000000000#64) = true ∧ F64.WF (F64.decode 0x0000000000000001#64) = true ∧
    F64.WF (F64.decode 0xffefffffffffffff#64) = true := by decide +kernel

/-! ## tostring / tonumber -/

/-- `tonumber(tostring(n)) = n` for every integer (decimal text; `l_str2int` semantics, subtype preserved) -/
theorem tonumber_tostring_int (v : I64) : Spec.Quote.strToNumber (Spec.Quote.showInt v) = some (.int v) :=
  Spec.Quote.strToNumber_showInt v

end GoluaVerif.Props.C17
