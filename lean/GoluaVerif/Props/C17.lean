/-
  Props.C17 — value serialisation round trips (string.pack / unpack / packsize,
  string.format %q, tostring / tonumber).  Models: Model.PackFmt / Pack / Unpack
  (mirrors of lib/stringlib/pack*.go, unpacker.go) and Model.Quote (golua's %q:
  `quote()` / `quoteString()` of format.go), tied to the code by correspondence
  level B; Spec.Quote is Lua 5.4's %q and the Lua reader.
-/
import GoluaVerif.Proofs.C17Loop
import GoluaVerif.Proofs.C17Num
import GoluaVerif.Proofs.C17Size
import GoluaVerif.Proofs.C17Malformed
import GoluaVerif.Proofs.C17QuoteGolua
import GoluaVerif.Proofs.C17HexFloat
import GoluaVerif.Spec.Printf
namespace GoluaVerif.Props.C17
open GoluaVerif GoluaVerif.Model.Pack

/-! ## pack / unpack -/

/-- **Round trip, for every format string and every tuple of values.**
    If `string.pack(fmt, vs…)` succeeds and every value is of the kind its option stores and is stored without loss
    (`exact`: a `c<n>` string has exactly `n` bytes, an `f` float is a float32 value, all values are consumed), then
    `string.unpack(fmt, packed)` returns exactly `vs…` followed by `#packed + 1` (0-based `bs.length` here).
    No bound on the number of options, sizes 1..16, both byte orders, any `!` alignment, any use of `X`. -/
theorem unpack_pack (fmt : Bytes) (vs : List Val) (bs : Bytes)
    (hx : exact fmt vs = true) (hp : pack fmt vs = .ok bs) :
    unpack fmt bs 0 = .ok (vs, bs.length) := by
  unfold pack at hp
  split at hp
  · exact absurd hp (by simp)
  · rename_i bs' vs' hl
    injection hp with hp; subst hp
    have := loop_rt (fmt.length + 1) {} fmt 0 vs bs' vs' hx hl []
    simp only [List.append_nil, Nat.zero_add] at this
    simp [unpack, this]

/-- the format `>!4 i2 Xi4 s1 z` -/
def exFmt : Bytes := [62, 33, 52, 32, 105, 50, 32, 88, 105, 52, 32, 115, 49, 32, 122]
def exVals : List Val := [.int (-2#64), .str [97, 0, 98], .str [99]]

/-- the hypotheses of `unpack_pack` are satisfiable by a format with endianness, alignment, an
    align-only item, a length-prefixed and a zero-terminated string -/
example : exact exFmt exVals = true ∧ pack exFmt exVals = .ok [255, 254, 0, 0, 3, 97, 0, 98, 99, 0] :=
  ⟨by decide, by rfl⟩

/-- regression (was a defect): `Xx` is an alignment-only item for the packer and the unpacker alike -/
example : pack [88, 120, 105, 52] [.int 5#64] = .ok [5, 0, 0, 0] ∧
    unpack [88, 120, 105, 52] [5, 0, 0, 0] 0 = .ok ([.int 5#64], 4) := ⟨by rfl, by rfl⟩

/-- out-of-range integers are rejected by every integer option narrower than 8 bytes -/
theorem pack_rejects_overflow (e : Endian) (signed : Bool) (n : Nat) (v : I64)
    (h : intInBounds signed n v.toInt = false) : packInt e signed n v = .error .outOfBounds := by
  simp [packInt, h]

/-- …and the test is the two's-complement range of the width -/
theorem pack_rejects_overflow_signed (e : Endian) (n : Nat) (v : I64) (hn : n < 8)
    (h : v.toInt < -(2 ^ (8 * n - 1) : Int) ∨ (2 ^ (8 * n - 1) : Int) ≤ v.toInt) :
    packInt e true n v = .error .outOfBounds := by
  apply pack_rejects_overflow
  have : ¬ n ≥ 8 := by omega
  simp only [intInBounds, if_true, this, if_false, decide_eq_false_iff_not]
  omega

/-- a string longer than the `c<n>` field is rejected, for every n (0 included) -/
theorem pack_rejects_long_string (e : Endian) (n : Nat) (s : Bytes) (vs : List Val) (h : s.length > n) :
    packBody e (.fixstr n) (.str s :: vs) = .error .strLonger := by
  simp [packBody, nextStr, h]

/-- regression (was a defect): `string.pack("c0", "abc")` is an error -/
example : pack [99, 48] [.str [97, 98, 99]] = .error .strLonger := by rfl

/-- sign extension: a negative integer packed in more than 8 bytes has all its extra bytes 0xff and reads back -/
theorem sign_extension (e : Endian) (n : Nat) (v : I64) (post : Bytes) (hn : 8 < n) :
    unpackInt e true n (intBytes e true n v ++ post) = .ok (v, post) :=
  unpackInt_packInt e true n v _ post (by omega) (by simp [packInt, intInBounds, show n ≥ 8 by omega])

/-- **packsize agrees with the packed length** for every format on which `string.packsize` succeeds (so: no `s`, `z`),
    given values that the format stores without loss -/
theorem packsize_eq_length (fmt : Bytes) (vs : List Val) (bs : Bytes) (n : Nat)
    (hx : exact fmt vs = true) (hp : pack fmt vs = .ok bs) (hs : packsize fmt = .ok n) :
    n = bs.length := by
  unfold pack at hp
  split at hp
  · exact absurd hp (by simp)
  · rename_i bs' vs' hl
    injection hp with hp; subst hp
    have := loop_size (fmt.length + 1) {} fmt 0 vs bs' vs' n hx hl hs
    omega

/-- the format `!4 i1 Xi4 i2` with values 1, 2 -/
example : exact [33, 52, 32, 105, 49, 32, 88, 105, 52, 32, 105, 50] [.int 1#64, .int 2#64] = true ∧
    pack [33, 52, 32, 105, 49, 32, 88, 105, 52, 32, 105, 50] [.int 1#64, .int 2#64] = .ok [1, 0, 0, 0, 2, 0] ∧
    packsize [33, 52, 32, 105, 49, 32, 88, 105, 52, 32, 105, 50] = .ok 6 := ⟨by decide, by rfl, by rfl⟩

/-- a size is never negative: the running total stays below 2^63 or packsize raises "format result too large" -/
theorem packsize_fits (size n m : Nat) (h : sizeInc size n = .ok m) : m < 2 ^ 63 := by
  unfold sizeInc at h
  split at h
  · simp at h
  · simp at h; omega

/-- **malformed formats raise errors** in string.pack: an unknown option character, a size outside [1,16] after
    `i I s !`, `c` without a size, a stray digit, `X` not followed by an option that has a size — whatever the
    values (and whatever error a value might raise first) -/
theorem malformed_format_error (fmt : Bytes) (vs : List Val) (hm : malformed fmt = true) :
    ∃ e, pack fmt vs = .error e := by
  have hi : Inv ({} : Rd).alignOnly fmt := by intro h; simp at h
  obtain ⟨e, he⟩ := packLoop_malformed (fmt.length + 1) {} fmt 0 vs (by omega) hi hm
  exact ⟨e, by simp [pack, he]⟩

/-- …and in string.unpack, whatever the data and the start index -/
theorem malformed_format_error_unpack (fmt data : Bytes) (i : Nat) (hm : malformed fmt = true) :
    ∃ e, unpack fmt data i = .error e := by
  have hi : Inv ({} : Rd).alignOnly fmt := by intro h; simp at h
  unfold unpack
  split
  · exact ⟨_, rfl⟩
  · obtain ⟨e, he⟩ := unpackLoop_malformed (fmt.length + 1) {} fmt i (data.drop i) (by omega) hi hm
    exact ⟨e, by simp [he]⟩

/-- `i17`, `!0`, `c`, `y`, `b1`, `X`, `Xc`, `Xz`, `X<` are malformed -/
example : malformed [105, 49, 55] = true ∧ malformed [33, 48] = true ∧ malformed [99] = true ∧
    malformed [121] = true ∧ malformed [98, 49] = true ∧ malformed [88] = true ∧ malformed [88, 99] = true ∧
    malformed [88, 122] = true ∧ malformed [88, 60] = true := by decide

/-- regressions (were defects): `Xc` and a trailing `X` are rejected by pack and by packsize -/
example : pack [88, 99] [] = .error .expectedOption ∧ packsize [88] = .error .expectedOption ∧
    packsize [88, 99] = .error .expectedOption := ⟨by rfl, by rfl, by rfl⟩

/-! ## `%q` -/

open GoluaVerif.Spec.Quote in
/-- `%q` round trip for strings, every byte string, for the text Lua 5.4 prescribes (`Spec.quote` = `addquoted`)
    and the Lua short-string reader (`Spec.unquote`) -/
theorem q_roundtrip_string (s : Spec.Quote.Bytes) : unquote (quote s) = some s := unquote_quote s

/-- **golua's own `%q` text of a string reads back as the same bytes, for every byte string**: control bytes, NUL,
    `"`, `\\`, newline, CR, DEL, bytes ≥ 0x80 in any (valid or invalid UTF-8) combination, including the padding of a
    decimal escape in front of a digit -/
theorem q_roundtrip_string_golua (s : Spec.Quote.Bytes) :
    Spec.Quote.unquote (Model.Quote.quoteStr s) = some s := Model.Quote.unquote_quoteStr s

/-- regression (was a defect): U+00A0 is copied, not written as a `\\u` escape -/
example : Model.Quote.quoteStr [0xC2, 0xA0] = [34, 0xC2, 0xA0, 34] := by decide

/-- `%q` round trip for integers in the text Lua 5.4 prescribes -/
theorem q_roundtrip_int (v : I64) : Spec.Quote.evalNumLit (Spec.Quote.quoteInt v) = some (.int v) :=
  Spec.Quote.evalNumLit_quoteInt v

/-- **golua's own `%q` text of an integer reads back as the same integer (subtype included), for every integer**,
    mininteger through `0x8000000000000000` -/
theorem q_roundtrip_int_golua (v : I64) : Spec.Quote.evalNumLit (Model.Quote.quoteInt v) = some (.int v) :=
  Spec.Quote.evalNumLit_quoteInt v

/-- infinities and NaN: `1e9999`, `-1e9999`, `(0/0)` read back as themselves -/
theorem q_roundtrip_float_special (fmtG : F64 → Spec.Quote.Bytes) :
    Spec.Quote.evalNumLit (Model.Quote.quoteFloat fmtG (.inf false)) = some (.flt (.inf false)) ∧
    Spec.Quote.evalNumLit (Model.Quote.quoteFloat fmtG (.inf true)) = some (.flt (.inf true)) ∧
    Spec.Quote.evalNumLit (Model.Quote.quoteFloat fmtG .nan) = some (.flt .nan) := by
  simp only [Model.Quote.quoteFloat]
  refine ⟨by decide +kernel, by decide +kernel, by decide⟩

/-- golua's `%q` text of a finite float always carries a `.` or an exponent, whatever decimal text Go's
    `strconv.FormatFloat` returns: it cannot be read as an integer, so the float subtype (and the sign of -0.0)
    survives.  That the decimal text denotes exactly the same double rests on the shortest-round-trip property of
    `FormatFloat` (trusted) and is checked by correspondence only — hence `_partial`. -/
theorem q_roundtrip_float_golua_partial (fmtG : F64 → Spec.Quote.Bytes) (neg : Bool) (mag : Nat) :
    (Model.Quote.quoteFloat fmtG (.fin neg mag)).any (fun c => c = 46 || c = 101) = true := by
  simp only [Model.Quote.quoteFloat, Model.Quote.floatMark]
  split
  · assumption
  · simp

/-- `%q` round trip for floats, every double, in the text Lua 5.4 prescribes (hexadecimal): exact -/
theorem q_roundtrip_float (f : F64) (h : F64.WF f = true) :
    Spec.Quote.evalNumLit (Spec.Quote.quoteFloat f) = some (.flt f) := by
  cases f with
  | nan => decide
  | inf neg => cases neg <;> decide +kernel
  | fin neg mag => exact Spec.Quote.evalNumLit_quoteFloat_fin neg mag h

/-- 1.5, the smallest subnormal and the largest finite double satisfy the hypothesis -/
example : F64.WF (F64.decode 0x3ff8000000000000#64) = true ∧ F64.WF (F64.decode 0x0000000000000001#64) = true ∧
    F64.WF (F64.decode 0xffefffffffffffff#64) = true := by decide +kernel

/-! ## tostring / tonumber -/

/-- `tonumber(tostring(n)) = n` for every integer (decimal text; `l_str2int` semantics, subtype preserved) -/
theorem tonumber_tostring_int (v : I64) : Spec.Quote.strToNumber (Spec.Quote.showInt v) = some (.int v) :=
  Spec.Quote.strToNumber_showInt v

end GoluaVerif.Props.C17
