/-
  Props.C04 — "no crash", the part that is a theorem.

  (1) Bytecode field encoders / decoders of code/opcodes.go, REGENERATED as Generated.Opcode:
      every field written by a constructor is read back by its getter when the argument is in
      range, fields do not overlap (each getter returns exactly its own argument whatever the others
      are), SetOffset / SetKIndex change only their field, the type-prefix tests identify the
      constructor, KIndexFromInt / Index8FromInt succeed iff the index is in range.
  (2) What happens beyond the limits (Model.Limits + the regenerated panic-site table
      Generated.PanicSites): exceeding the register, constant, fill-index or function-length limit is a
      designated compile error for every size; the remaining raw panic sites of the compile back end are
      unreachable behind those guards or size-independent invariants; with the function-length guard no
      stored jump offset is ever truncated and the int16 program counter never wraps.
  Proofs: kernel only (simp with BitVec lemmas, omega, decide on ≤ 8-bit quantifiers).
-/
import GoluaVerif.Generated.Opcode
import GoluaVerif.Generated.PanicSites
import GoluaVerif.Model.Limits
import GoluaVerif.Proofs.OpcodeFields
import GoluaVerif.Proofs.LimitsLemmas
namespace GoluaVerif.Props.C04
open GoluaVerif.Generated GoluaVerif.Generated.Opcode GoluaVerif.Proofs.OpcodeBits GoluaVerif.Proofs.OpcodeFields
open GoluaVerif.Model

/-- a register as the compiler produces them: the type is one bit (ValueRegType / CellRegType) -/
abbrev RegOk (r : Reg) : Prop := r.tp.toNat ≤ 1

/-- rewrites every regenerated constructor into an OR of placed fields and every getter into an extract -/
macro "opcode_algebra" : tactic => `(tactic|
  simp only [mkType1, mkType2, mkType3, mkType4a, mkType4b, mkType5, mkType6, mkType7, mkType0, Id.run, pure,
    getA_eq, getB_eq, getC_eq, getX_eq, getF_eq, getY_eq, getJ_eq, getN_eq, getKIndex_eq, getOffset_eq,
    getClStackOffset_eq, getM_eq, getL_eq, getUnOp_eq, getUnOpK_eq, hasType1_eq, hasType4a_eq, hasType0_eq, typePfx_eq,
    toA_eq, toB_eq, toC_eq, encodeX_eq, encodeF_eq, encodeY_eq, encodeJ_eq, encodeN_eq, kencodeN_eq, encodeD_eq,
    clencodeD_eq, encodeZ_eq, kencodeZ_eq, encodeL_eq, encodeM_eq, setOffset_eq, setKIndex_eq,
    pfx1, pfx2, pfx3, pfx4, pfx4a, pfx5, pfx6, pfx7,
    Type1Pfx, Type2Pfx, Type3Pfx, Type4Pfx, Type5Pfx, Type6Pfx, Type7Pfx, Type0Pfx])

/-- pushes extracts through ORs and resolves every (extract, place) pair by position arithmetic -/
macro "field_calc" : tactic => `(tactic|
  simp (disch := omega) only [extract_or, extract_place_same, extract_place_disjoint, extract_zero,
    BitVec.or_zero, BitVec.zero_or, place_inj])

/-! ## Type 1: binary operations -/

/-- every field of a Type1 opcode is read back, whatever the other fields are (no overlap) -/
theorem encode_decode_roundtrip_type1 (op : BitVec 8) (rA rB rC : Reg) (hop : op.toNat < 16)
    (hA : RegOk rA) (hB : RegOk rB) (hC : RegOk rC) :
    Opcode.GetA (mkType1 op rA rB rC) = rA ∧ Opcode.GetB (mkType1 op rA rB rC) = rB
    ∧ Opcode.GetC (mkType1 op rA rB rC) = rC ∧ Opcode.GetX (mkType1 op rA rB rC) = op
    ∧ Opcode.HasType1 (mkType1 op rA rB rC) = true := by
  opcode_algebra
  rw [place_narrow 8 1 26 rA.tp (by omega) (lt_two_of_le_one hA),
      place_narrow 8 1 25 rB.tp (by omega) (lt_two_of_le_one hB),
      place_narrow 8 1 24 rC.tp (by omega) (lt_two_of_le_one hC),
      place_narrow 8 4 27 op (by omega) (by simpa using hop)]
  simp (disch := omega) only [extract_or, extract_place_same, extract_place_disjoint, BitVec.or_zero, BitVec.zero_or,
    narrow1_roundtrip _ hA, narrow1_roundtrip _ hB, narrow1_roundtrip _ hC, narrow4_roundtrip _ hop]
  decide

example : RegOk (CellReg 255#8) ∧ RegOk (ValueReg 0#8) ∧ (OpConcat).toNat < 16 := by decide

/-! ## Type 2 (table lookup / set), Type 7 (for loop), Type 0 (receive) -/

theorem encode_decode_roundtrip_type2 (f : BitVec 8) (rA rB rC : Reg) (hf : f.toNat ≤ 1)
    (hA : RegOk rA) (hB : RegOk rB) (hC : RegOk rC) :
    Opcode.GetA (mkType2 f rA rB rC) = rA ∧ Opcode.GetB (mkType2 f rA rB rC) = rB
    ∧ Opcode.GetC (mkType2 f rA rB rC) = rC ∧ Opcode.GetF (mkType2 f rA rB rC) = (f == 1#8)
    ∧ Opcode.TypePfx (mkType2 f rA rB rC) = Type2Pfx ∧ Opcode.HasType1 (mkType2 f rA rB rC) = false := by
  opcode_algebra
  rw [place_narrow 8 1 26 rA.tp (by omega) (lt_two_of_le_one hA),
      place_narrow 8 1 25 rB.tp (by omega) (lt_two_of_le_one hB),
      place_narrow 8 1 24 rC.tp (by omega) (lt_two_of_le_one hC),
      place_narrow 8 1 27 f (by omega) (lt_two_of_le_one hf)]
  simp (disch := omega) only [extract_or, extract_place_same, extract_place_disjoint, BitVec.or_zero, BitVec.zero_or,
    narrow1_roundtrip _ hA, narrow1_roundtrip _ hB, narrow1_roundtrip _ hC, narrow1_flag _ hf]
  decide

theorem encode_decode_roundtrip_type7 (f : BitVec 8) (rA rB rC : Reg) (hf : f.toNat ≤ 1)
    (hA : RegOk rA) (hB : RegOk rB) (hC : RegOk rC) :
    Opcode.GetA (mkType7 f rA rB rC) = rA ∧ Opcode.GetB (mkType7 f rA rB rC) = rB
    ∧ Opcode.GetC (mkType7 f rA rB rC) = rC ∧ Opcode.GetF (mkType7 f rA rB rC) = (f == 1#8)
    ∧ Opcode.TypePfx (mkType7 f rA rB rC) = Type7Pfx ∧ Opcode.HasType1 (mkType7 f rA rB rC) = false := by
  opcode_algebra
  rw [place_narrow 8 1 26 rA.tp (by omega) (lt_two_of_le_one hA),
      place_narrow 8 1 25 rB.tp (by omega) (lt_two_of_le_one hB),
      place_narrow 8 1 24 rC.tp (by omega) (lt_two_of_le_one hC),
      place_narrow 8 1 27 f (by omega) (lt_two_of_le_one hf)]
  simp (disch := omega) only [extract_or, extract_place_same, extract_place_disjoint, BitVec.or_zero, BitVec.zero_or,
    narrow1_roundtrip _ hA, narrow1_roundtrip _ hB, narrow1_roundtrip _ hC, narrow1_flag _ hf]
  decide

theorem encode_decode_roundtrip_type0 (f : BitVec 8) (rA : Reg) (hf : f.toNat ≤ 1) (hA : RegOk rA) :
    Opcode.GetA (mkType0 f rA) = rA ∧ Opcode.GetF (mkType0 f rA) = (f == 1#8)
    ∧ Opcode.HasType0 (mkType0 f rA) = true ∧ Opcode.HasType1 (mkType0 f rA) = false := by
  opcode_algebra
  rw [place_narrow 8 1 26 rA.tp (by omega) (lt_two_of_le_one hA),
      place_narrow 8 1 27 f (by omega) (lt_two_of_le_one hf)]
  simp (disch := omega) only [extract_or, extract_place_same, extract_place_disjoint, BitVec.or_zero, BitVec.zero_or,
    narrow1_roundtrip _ hA, narrow1_flag _ hf]
  decide

/-! ## Type 3: register from a 16-bit literal / constant index -/

theorem encode_decode_roundtrip_type3 (f op : BitVec 8) (rA : Reg) (n : BitVec 16) (hf : f.toNat ≤ 1)
    (hop : op.toNat < 4) (hA : RegOk rA) :
    Opcode.GetA (mkType3 f op rA (Lit16.encodeN n)) = rA ∧ Opcode.GetN (mkType3 f op rA (Lit16.encodeN n)) = n
    ∧ Opcode.GetKIndex (mkType3 f op rA (KIndex.encodeN n)) = n
    ∧ Opcode.GetY (mkType3 f op rA (Lit16.encodeN n)) = op ∧ Opcode.GetF (mkType3 f op rA (Lit16.encodeN n)) = (f == 1#8)
    ∧ Opcode.TypePfx (mkType3 f op rA (Lit16.encodeN n)) = Type3Pfx
    ∧ Opcode.HasType1 (mkType3 f op rA (Lit16.encodeN n)) = false := by
  opcode_algebra
  rw [place_narrow 8 1 26 rA.tp (by omega) (lt_two_of_le_one hA),
      place_narrow 8 1 27 f (by omega) (lt_two_of_le_one hf),
      place_narrow 8 2 24 op (by omega) (by simpa using hop)]
  simp (disch := omega) only [extract_or, extract_place_same, extract_place_disjoint, BitVec.or_zero, BitVec.zero_or,
    narrow1_roundtrip _ hA, narrow1_flag _ hf, narrow2_roundtrip _ hop]
  decide

/-! ## Type 4a (unary ops, upvalues) and 4b (register from an 8-bit literal) -/

theorem encode_decode_roundtrip_type4a (f op : BitVec 8) (rA rB : Reg) (hf : f.toNat ≤ 1)
    (hA : RegOk rA) (hB : RegOk rB) :
    Opcode.GetA (mkType4a f op rA rB) = rA ∧ Opcode.GetB (mkType4a f op rA rB) = rB
    ∧ Opcode.GetUnOp (mkType4a f op rA rB) = op ∧ Opcode.GetF (mkType4a f op rA rB) = (f == 1#8)
    ∧ Opcode.TypePfx (mkType4a f op rA rB) = Type4Pfx ∧ Opcode.HasType4a (mkType4a f op rA rB) = true
    ∧ Opcode.HasType1 (mkType4a f op rA rB) = false := by
  opcode_algebra
  rw [place_narrow 8 1 26 rA.tp (by omega) (lt_two_of_le_one hA),
      place_narrow 8 1 25 rB.tp (by omega) (lt_two_of_le_one hB),
      place_narrow 8 1 27 f (by omega) (lt_two_of_le_one hf)]
  simp (disch := omega) only [extract_or, extract_place_same, extract_place_disjoint, BitVec.or_zero, BitVec.zero_or,
    narrow1_roundtrip _ hA, narrow1_roundtrip _ hB, narrow1_flag _ hf]
  decide

theorem encode_decode_roundtrip_type4b (f op : BitVec 8) (rA : Reg) (k : BitVec 8) (hf : f.toNat ≤ 1) (hA : RegOk rA) :
    Opcode.GetA (mkType4b f op rA k) = rA ∧ Opcode.GetL (mkType4b f op rA k) = k
    ∧ Opcode.GetUnOpK (mkType4b f op rA k) = op ∧ Opcode.GetF (mkType4b f op rA k) = (f == 1#8)
    ∧ Opcode.TypePfx (mkType4b f op rA k) = Type4Pfx ∧ Opcode.HasType4a (mkType4b f op rA k) = false
    ∧ Opcode.HasType1 (mkType4b f op rA k) = false := by
  opcode_algebra
  rw [place_narrow 8 1 26 rA.tp (by omega) (lt_two_of_le_one hA),
      place_narrow 8 1 27 f (by omega) (lt_two_of_le_one hf)]
  simp (disch := omega) only [extract_or, extract_place_same, extract_place_disjoint, BitVec.or_zero, BitVec.zero_or,
    narrow1_roundtrip _ hA, narrow1_flag _ hf]
  decide

/-! ## Type 5: jumps, calls, close stack -/

theorem encode_decode_roundtrip_type5 (f op : BitVec 8) (rA : Reg) (d : BitVec 16) (hf : f.toNat ≤ 1)
    (hop : op.toNat < 4) (hA : RegOk rA) :
    Opcode.GetA (mkType5 f op rA (Offset.encodeD d)) = rA ∧ Opcode.GetOffset (mkType5 f op rA (Offset.encodeD d)) = d
    ∧ Opcode.GetClStackOffset (mkType5 f op rA (ClStackOffset.encodeD d)) = d
    ∧ Opcode.GetJ (mkType5 f op rA (Offset.encodeD d)) = op ∧ Opcode.GetF (mkType5 f op rA (Offset.encodeD d)) = (f == 1#8)
    ∧ Opcode.TypePfx (mkType5 f op rA (Offset.encodeD d)) = Type5Pfx
    ∧ Opcode.HasType1 (mkType5 f op rA (Offset.encodeD d)) = false := by
  opcode_algebra
  rw [place_narrow 8 1 26 rA.tp (by omega) (lt_two_of_le_one hA),
      place_narrow 8 1 27 f (by omega) (lt_two_of_le_one hf),
      place_narrow 8 2 24 op (by omega) (by simpa using hop)]
  simp (disch := omega) only [extract_or, extract_place_same, extract_place_disjoint, BitVec.or_zero, BitVec.zero_or,
    narrow1_roundtrip _ hA, narrow1_flag _ hf, narrow2_roundtrip _ hop]
  decide

/-! ## Type 6: etc lookup / fill table -/

theorem encode_decode_roundtrip_type6 (f : BitVec 8) (rA rB : Reg) (i : BitVec 8) (hf : f.toNat ≤ 1)
    (hA : RegOk rA) (hB : RegOk rB) :
    Opcode.GetA (mkType6 f rA rB i) = rA ∧ Opcode.GetB (mkType6 f rA rB i) = rB
    ∧ Opcode.GetM (mkType6 f rA rB i) = i ∧ Opcode.GetF (mkType6 f rA rB i) = (f == 1#8)
    ∧ Opcode.TypePfx (mkType6 f rA rB i) = Type6Pfx ∧ Opcode.HasType1 (mkType6 f rA rB i) = false := by
  opcode_algebra
  rw [place_narrow 8 1 26 rA.tp (by omega) (lt_two_of_le_one hA),
      place_narrow 8 1 25 rB.tp (by omega) (lt_two_of_le_one hB),
      place_narrow 8 1 27 f (by omega) (lt_two_of_le_one hf)]
  simp (disch := omega) only [extract_or, extract_place_same, extract_place_disjoint, BitVec.or_zero, BitVec.zero_or,
    narrow1_roundtrip _ hA, narrow1_roundtrip _ hB, narrow1_flag _ hf]
  decide

/-! ## A field that is out of range corrupts its neighbour (why the range hypotheses are needed) -/

/-- a binary operator number ≥ 16 spills into the type bit: the opcode is no longer recognisable.
(The compiler only passes the 16 declared operators; the constructors themselves do not check.) -/
theorem field_overflow_counterexample :
    Opcode.GetX (mkType2 0#8 (ValueReg 0#8) (ValueReg 0#8) (ValueReg 0#8)) = 14#8 ∧
    Opcode.HasType1 (mkType1 16#8 (ValueReg 0#8) (ValueReg 0#8) (ValueReg 0#8)) = true ∧
    Opcode.GetX (mkType1 16#8 (ValueReg 0#8) (ValueReg 0#8) (ValueReg 0#8)) = 0#8 := by decide

/-! ## Type prefixes identify the constructor -/

/-- the seven 4-bit prefixes are the pairwise different numbers 7,6,5,4,3,2,0, none has the Type1 bit, and
every constructor produces its own prefix (the `TypePfx … = TypeNPfx` / `HasType…` conjuncts of the round-trip
theorems above): the prefix test identifies the constructor -/
theorem type_prefixes_distinct :
    [Type2Pfx, Type3Pfx, Type4Pfx, Type5Pfx, Type6Pfx, Type7Pfx, Type0Pfx].map (fun (p : BitVec 32) => (p >>> 28).toNat) = [7, 6, 5, 4, 3, 2, 0] ∧
    [Type2Pfx, Type3Pfx, Type4Pfx, Type5Pfx, Type6Pfx, Type7Pfx, Type0Pfx].map Opcode.HasType1 = [false, false, false, false, false, false, false] ∧
    [Type2Pfx, Type3Pfx, Type4Pfx, Type5Pfx, Type6Pfx, Type7Pfx, Type0Pfx].map (fun (p : BitVec 32) => Opcode.TypePfx p == p) = [true, true, true, true, true, true, true] ∧
    Opcode.HasType1 Type1Pfx = true := by decide

/-! ## SetOffset / SetKIndex change only their field -/

theorem setOffset_roundtrip (c : BitVec 32) (n : BitVec 16) : Opcode.GetOffset (Opcode.SetOffset c n) = n := by
  opcode_algebra
  field_calc

theorem setKIndex_roundtrip (c : BitVec 32) (k : BitVec 16) : Opcode.GetKIndex (Opcode.SetKIndex c k) = k := by
  opcode_algebra
  field_calc

/-- bit by bit: the low 16 bits become the offset, bits 16..31 are untouched -/
theorem setOffset_changes_only_its_field (c : BitVec 32) (n : BitVec 16) (i : Nat) :
    (Opcode.SetOffset c n).getLsbD i = if i < 16 then n.getLsbD i else c.getLsbD i := by
  rw [setOffset_eq]; exact set_low16_bits c n i

theorem setKIndex_changes_only_its_field (c : BitVec 32) (k : BitVec 16) (i : Nat) :
    (Opcode.SetKIndex c k).getLsbD i = if i < 16 then k.getLsbD i else c.getLsbD i := by
  rw [setKIndex_eq]; exact set_low16_bits c k i

/-- hence every other getter of a jump opcode is unaffected by filling in the offset later (EmitLabel) -/
theorem setOffset_preserves_other_fields (c : BitVec 32) (n : BitVec 16) :
    Opcode.GetA (Opcode.SetOffset c n) = Opcode.GetA c ∧ Opcode.GetF (Opcode.SetOffset c n) = Opcode.GetF c
    ∧ Opcode.GetJ (Opcode.SetOffset c n) = Opcode.GetJ c ∧ Opcode.TypePfx (Opcode.SetOffset c n) = Opcode.TypePfx c
    ∧ Opcode.HasType1 (Opcode.SetOffset c n) = Opcode.HasType1 c := by
  have h : ∀ (w s : Nat), 16 ≤ s → extract w s (Opcode.SetOffset c n) = extract w s c := by
    intro w s hs
    apply extract_eq_of_bits
    intro i hi
    rw [setOffset_changes_only_its_field]
    have : ¬ i < 16 := by omega
    simp [this]
  simp only [getA_eq, getF_eq, getJ_eq, typePfx_eq, hasType1_eq, h _ _ (by omega : 16 ≤ 16), h _ _ (by omega : 16 ≤ 24),
    h _ _ (by omega : 16 ≤ 26), h _ _ (by omega : 16 ≤ 27), h _ _ (by omega : 16 ≤ 28), h _ _ (by omega : 16 ≤ 31)]
  exact ⟨trivial, trivial, trivial, trivial, trivial⟩

/-! ## Range-checked conversions -/

/-- KIndexFromInt succeeds iff 0 ≤ i ≤ 65535, and then denotes i; otherwise it PANICS (raw string) -/
theorem kindex_in_range_or_panic (i : BitVec 64) :
    (0 ≤ i.toInt ∧ i.toInt ≤ 65535 → ∃ k, KIndexFromInt i = .ok k ∧ k.toNat = i.toInt) ∧
    (¬ (0 ≤ i.toInt ∧ i.toInt ≤ 65535) → KIndexFromInt i = .error "constant index out of range") := by
  have hs0 : BitVec.slt i 0#64 = decide (i.toInt < 0) := by rw [BitVec.slt_eq_decide]; simp
  have hs1 : BitVec.slt 65535#64 i = decide (65535 < i.toInt) := by
    rw [BitVec.slt_eq_decide]
    have : (65535#64 : BitVec 64).toInt = 65535 := by decide
    rw [this]
  constructor
  · intro ⟨h0, h1⟩
    refine ⟨BitVec.truncate 16 i, ?_, ?_⟩
    · unfold KIndexFromInt
      have c0 : ¬ i.toInt < 0 := by omega
      have c1 : ¬ 65535 < i.toInt := by omega
      simp [hs0, hs1, c0, c1, pure, Except.pure]
    · have hn : i.toInt = i.toNat := by
        rw [BitVec.toInt_eq_toNat_cond] at h0 h1 ⊢
        split <;> omega
      rw [hn]
      simp only [BitVec.truncate_eq_setWidth, BitVec.toNat_setWidth]
      have : i.toNat ≤ 65535 := by omega
      have : i.toNat % 2 ^ 16 = i.toNat := Nat.mod_eq_of_lt (by omega)
      omega
  · intro h
    unfold KIndexFromInt
    by_cases c0 : i.toInt < 0
    · simp [hs0, c0, throw, throwThe, MonadExceptOf.throw]
      rfl
    · have c1 : 65535 < i.toInt := by omega
      simp [hs0, hs1, c0, c1, throw, throwThe, MonadExceptOf.throw]
      rfl

example : (0 ≤ (65535#64 : BitVec 64).toInt ∧ (65535#64 : BitVec 64).toInt ≤ 65535) ∧
    ¬ (0 ≤ (65536#64 : BitVec 64).toInt ∧ (65536#64 : BitVec 64).toInt ≤ 65535) := by decide

/-- Index8FromInt (used by FillTable / LoadEtcLookup) succeeds iff 0 ≤ n ≤ 255 -/
theorem index8_in_range_or_panic (n : BitVec 64) :
    (0 ≤ n.toInt ∧ n.toInt ≤ 255 → ∃ k, Index8FromInt n = .ok k ∧ k.toNat = n.toInt) ∧
    (¬ (0 ≤ n.toInt ∧ n.toInt ≤ 255) → Index8FromInt n = .error "n out of range") := by
  have hs0 : BitVec.slt n 0#64 = decide (n.toInt < 0) := by rw [BitVec.slt_eq_decide]; simp
  have hs1 : BitVec.slt 255#64 n = decide (255 < n.toInt) := by
    rw [BitVec.slt_eq_decide]
    have : (255#64 : BitVec 64).toInt = 255 := by decide
    rw [this]
  constructor
  · intro ⟨h0, h1⟩
    refine ⟨BitVec.truncate 8 n, ?_, ?_⟩
    · unfold Index8FromInt
      have c0 : ¬ n.toInt < 0 := by omega
      have c1 : ¬ 255 < n.toInt := by omega
      simp [hs0, hs1, c0, c1, pure, Except.pure]
    · have hn : n.toInt = n.toNat := by
        rw [BitVec.toInt_eq_toNat_cond] at h0 h1 ⊢
        split <;> omega
      rw [hn]
      simp only [BitVec.truncate_eq_setWidth, BitVec.toNat_setWidth]
      have : n.toNat ≤ 255 := by omega
      have : n.toNat % 2 ^ 8 = n.toNat := Nat.mod_eq_of_lt (by omega)
      omega
  · intro h
    unfold Index8FromInt
    by_cases c0 : n.toInt < 0
    · simp [hs0, c0, throw, throwThe, MonadExceptOf.throw]
      rfl
    · have c1 : 255 < n.toInt := by omega
      simp [hs0, hs1, c0, c1, throw, throwThe, MonadExceptOf.throw]
      rfl

/-- LoadSmallInt is the one conversion that CHECKS: it reports `false` exactly when n does not fit int16,
and otherwise the literal read back (sign-extended, as the VM does) is n -/
theorem loadSmallInt_checks_range (r : Reg) (n : BitVec 64) :
    ((LoadSmallInt r n).2 = true ↔ BitVec.signExtend 64 (BitVec.truncate 16 n) = n) ∧
    ((LoadSmallInt r n).2 = true → Opcode.GetN (LoadSmallInt r n).1 = BitVec.truncate 16 n) := by
  unfold LoadSmallInt
  simp only [Id.run, pure]
  by_cases h : BitVec.signExtend 64 (BitVec.truncate 16 n) = n
  · simp only [h, bne_self_eq_false, Bool.false_eq_true, if_false, true_and]
    intro _
    simp only [LoadInt16, Id.run, pure]
    opcode_algebra
    field_calc
  · have hb : (BitVec.signExtend 64 (BitVec.truncate 16 n) != n) = true := bne_iff_ne.mpr h
    simp [hb, h]

/-! ## Jump offsets: the int → int16 conversion -/

/-- Builder.EmitJump / EmitLabel store `Offset(to - from)`: faithful iff the distance fits int16 -/
theorem jump_offset_faithful_iff (d : Int) :
    (BitVec.ofInt 16 d).toInt = d ↔ (-32768 ≤ d ∧ d ≤ 32767) := by
  constructor
  · intro h
    have h1 := @BitVec.toInt_lt 16 (BitVec.ofInt 16 d)
    have h2 := @BitVec.le_toInt 16 (BitVec.ofInt 16 d)
    rw [h] at h1 h2
    omega
  · intro ⟨h1, h2⟩
    rw [BitVec.toInt_ofInt]
    apply Int.bmod_eq_of_le <;> omega

/-- when a function has at most 32 767 opcodes every jump distance inside it fits the int16 offset -/
theorem jump_in_short_function_faithful (len fromAddr toAddr : Nat) (hlen : Limits.fnLenOk len = true)
    (hf : fromAddr < len) (ht : toAddr ≤ len) :
    (BitVec.ofInt 16 ((toAddr : Int) - fromAddr)).toInt = (toAddr : Int) - fromAddr := by
  rw [jump_offset_faithful_iff]
  simp only [Limits.fnLenOk, decide_eq_true_eq] at hlen
  omega

example : Limits.fnLenOk 32767 = true ∧ (100 : Nat) < 32767 ∧ (32767 : Nat) ≤ 32767 := by decide

/-- the program counter is an int16; below 32 767 `pc++` is exact, and ProcessCode's guard keeps every
opcode index of a compiled function below 32 767 (see `pc_never_wraps_in_compiled_function`) -/
theorem pc_no_overflow_in_short_function (pc : BitVec 16) (h0 : 0 ≤ pc.toInt) (h : pc.toInt < 32767) :
    (Limits.pcNext pc).toInt = pc.toInt + 1 := by
  unfold Limits.pcNext
  rw [BitVec.toInt_add]
  have : (1#16 : BitVec 16).toInt = 1 := by decide
  rw [this]
  apply Int.bmod_eq_of_le <;> omega

/-! ## Which limit excesses are compile errors (Model.Limits over the regenerated panic-site table) -/

/-- only *CompilationPanic values become error values; CompileQueue re-panics everything else
(regenerated from ircomp/ircomp.go) -/
theorem compileQueue_recovers_only_designated :
    PanicSites.compileQueueRepanicsOthers = true ∧
    (∀ m, Limits.compileQueueRecover (.compilationPanic m) = .compileError m) ∧
    (∀ m, Limits.compileQueueRecover (.other m) = .goPanic m) := by
  refine ⟨by decide, fun m => rfl, fun m => ?_⟩
  simp [Limits.compileQueueRecover, show PanicSites.compileQueueRepanicsOthers = true by decide]

/-- allocReg never hands out an index that does not fit the 8-bit register field, and keeps at most
255 registers -/
theorem allocReg_index_fits (regs regs' : List Nat) (i : Nat) (hlen : regs.length ≤ 255)
    (h : Limits.allocReg regs = .ok (regs', i)) : i < 255 ∧ regs'.length ≤ 255 := by
  unfold Limits.allocReg at h
  have hff : ∀ (l : List Nat) (j : Nat), Limits.firstFree l = some j → j < l.length := by
    intro l
    induction l with
    | nil => intro j hj; simp [Limits.firstFree] at hj
    | cons c rest ih =>
      intro j hj
      simp only [Limits.firstFree] at hj
      split at hj
      · simp at hj; subst hj; simp
      · cases hr : Limits.firstFree rest with
        | none => simp [hr] at hj
        | some k =>
          simp [hr] at hj
          have := ih k hr
          subst hj
          simp; omega
  split at h
  · rename_i j hj
    simp at h
    obtain ⟨h1, h2⟩ := h
    subst h1; subst h2
    have := hff regs j hj
    omega
  · split at h
    · simp at h
    · rename_i hne
      simp at h
      obtain ⟨h1, h2⟩ := h
      subst h1; subst h2
      simp
      omega

example : Limits.allocReg [1, 1, 0, 1] = .ok ([1, 1, 0, 1], 2) ∧ [1, 1, 0, 1].length ≤ 255 := ⟨rfl, by decide⟩

/-- exceeding the register limit is the DESIGNATED compile error "not enough registers", for every
number of simultaneously live registers (the table entry for allocReg is regenerated from ircomp) -/
theorem limit_exceeded_is_error_registers (n : Nat) :
    Limits.designated "ircomp" "allocReg" = some true ∧
    (n ≤ 255 → Limits.liveRegsOutcome n = .ok) ∧
    (255 < n → Limits.liveRegsOutcome n = .compileError "not enough registers") := by
  refine ⟨by decide, ?_, ?_⟩
  · intro h; rw [Proofs.LimitsLemmas.liveRegsOutcome_eq]; simp [h]
  · intro h
    rw [Proofs.LimitsLemmas.liveRegsOutcome_eq]
    have : ¬ n ≤ 255 := by omega
    simp only [this, if_false]
    decide

example : (255 : Nat) ≤ 255 ∧ (255 : Nat) < 256 := by decide

/-- the guards on the etc-lookup index and on the close-stack height are raw panics, but they cannot
fire: both quantities are bounded by the number of simultaneously live registers (each assignment
target / to-be-closed variable occupies one), and more than 255 of those is already the compile error -/
theorem etc_lookup_guard_unreachable (targets : Nat)
    (hok : Limits.liveRegsOutcome targets = .ok) (i : Nat) (hi : i < targets) :
    ∃ op, Limits.etcLookup i = .ok op := by
  have ht : targets ≤ 255 := by
    by_cases h : targets ≤ 255
    · exact h
    · have := (limit_exceeded_is_error_registers targets).2.2 (by omega)
      rw [this] at hok; cases hok
  have hi' : (i : Int) < 256 := by omega
  unfold Limits.etcLookup
  have hc : ¬ ((i : Int) < 0 ∨ (i : Int) ≥ 256) := by omega
  rw [if_neg hc]
  obtain ⟨k, hk, _⟩ := (index8_in_range_or_panic (BitVec.ofInt 64 i)).1 (by
    have : (BitVec.ofInt 64 (i : Int)).toInt = i := by
      rw [BitVec.toInt_ofInt]; apply Int.bmod_eq_of_le <;> omega
    omega)
  simp only [LoadEtcLookup, hk, bind, Except.bind, pure, Except.pure]
  exact ⟨_, rfl⟩

example : Limits.liveRegsOutcome 3 = .ok := by decide +kernel

/-- the close-stack height guard is a raw panic too, and equally unreachable: every to-be-closed variable
in scope occupies a live register -/
theorem closestack_guard_unreachable (tbc : Nat) (hok : Limits.liveRegsOutcome tbc = .ok) (h : Nat) (hh : h ≤ tbc) :
    ∃ op, Limits.truncateCloseStack h = .ok op := by
  have ht : tbc ≤ 255 := by
    by_cases h' : tbc ≤ 255
    · exact h'
    · have := (limit_exceeded_is_error_registers tbc).2.2 (by omega)
      rw [this] at hok; cases hok
  unfold Limits.truncateCloseStack
  have hc : ¬ ((h : Int) < 0 ∨ (h : Int) ≥ 65536) := by omega
  rw [if_neg hc]
  exact ⟨_, rfl⟩

example : Limits.liveRegsOutcome 2 = .ok ∧ (1 : Nat) ≤ 2 := ⟨by decide +kernel, by decide⟩

/-- more than 65 536 constants in a unit is the designated compile error, for every size; below, the
regenerated KIndexFromInt never panics (its own raw panic is unreachable behind instrCompiler.kindex) -/
theorem limit_exceeded_is_error_constants (total : Nat) :
    Limits.designated "ircomp" "instrCompiler.kindex" = some true ∧
    (total ≤ 65536 → Limits.constantsOutcome total = .ok) ∧
    (65536 < total → ∃ m, Limits.constantsOutcome total = .compileError m) := by
  refine ⟨by decide, ?_, ?_⟩
  · intro h
    unfold Limits.constantsOutcome
    by_cases h0 : total = 0
    · simp [h0]
    · simp only [h0, if_false]
      have hc : ¬ ((total : Int) - 1 > 65535) := by omega
      have e : (total : Int) - 1 = ((total - 1 : Nat) : Int) := by omega
      obtain ⟨k, hk', _⟩ := (kindex_in_range_or_panic (BitVec.ofInt 64 ((total : Int) - 1))).1 (by
        rw [e, Proofs.LimitsLemmas.toInt_ofInt_small _ (by omega)]; omega)
      simp only [Limits.loadConst, Limits.kindex, if_neg hc, hk', Limits.outcomeOf]
  · intro h
    refine ⟨Limits.siteMsg "ircomp" "instrCompiler.kindex", ?_⟩
    unfold Limits.constantsOutcome
    have h0 : total ≠ 0 := by omega
    have hc : (total : Int) - 1 > 65535 := by omega
    simp only [h0, if_false, Limits.loadConst, Limits.kindex, if_pos hc, Limits.outcomeOf]
    decide

example : (65536 : Nat) ≤ 65536 ∧ (65536 : Nat) < 65537 := by decide

/-- a table constructor with `n` positional items followed by a call / `...`: ok up to 254 items, the
designated compile error from 255 on, for every n (Index8FromInt's raw panic is unreachable behind the guard) -/
theorem limit_exceeded_is_error_fill_table (n : Nat) :
    Limits.designated "ircomp" "instrCompiler.ProcessFillTableInstr" = some true ∧
    (n ≤ 254 → Limits.tableCtorWithTail n = .ok) ∧
    (254 < n → ∃ m, Limits.tableCtorWithTail n = .compileError m) := by
  refine ⟨by decide, ?_, ?_⟩
  · intro h
    unfold Limits.tableCtorWithTail Limits.fillTable
    have hc : ¬ (((n : Int) + 1) < 0 ∨ ((n : Int) + 1) ≥ 256) := by omega
    rw [if_neg hc]
    have e : ((n : Int) + 1) = ((n + 1 : Nat) : Int) := by omega
    obtain ⟨k, hk, _⟩ := (index8_in_range_or_panic (BitVec.ofInt 64 ((n : Int) + 1))).1 (by
      rw [e, Proofs.LimitsLemmas.toInt_ofInt_small _ (by omega)]; omega)
    simp only [FillTable, hk, bind, Except.bind, pure, Except.pure, Limits.outcomeOf]
  · intro h
    refine ⟨Limits.siteMsg "ircomp" "instrCompiler.ProcessFillTableInstr", ?_⟩
    unfold Limits.tableCtorWithTail Limits.fillTable
    have hc : (((n : Int) + 1) < 0 ∨ ((n : Int) + 1) ≥ 256) := by omega
    rw [if_pos hc]
    decide

example : (254 : Nat) ≤ 254 ∧ (254 : Nat) < 255 := by decide

/-- a function with more than 32 767 opcodes is the designated compile error, for every length -/
theorem limit_exceeded_is_error_function_length (len : Nat) :
    Limits.designated "ircomp" "ConstantCompiler.ProcessCode" = some true ∧
    (len ≤ 32767 → Limits.fnLenOutcome len = .ok) ∧
    (32767 < len → ∃ m, Limits.fnLenOutcome len = .compileError m) := by
  refine ⟨by decide, ?_, ?_⟩
  · intro h
    have hc : ¬ len > 32767 := by omega
    simp only [Limits.fnLenOutcome, Limits.processCode, if_neg hc, Limits.outcomeOf]
  · intro h
    refine ⟨Limits.siteMsg "ircomp" "ConstantCompiler.ProcessCode", ?_⟩
    have hc : len > 32767 := by omega
    simp only [Limits.fnLenOutcome, Limits.processCode, if_pos hc, Limits.outcomeOf]
    decide

example : (32767 : Nat) ≤ 32767 ∧ (32767 : Nat) < 32768 := by decide

/-- in a function that passed ProcessCode's guard, the offset stored by EmitJump / EmitLabel for a jump
from `fromAddr` to a label at `toAddr` makes the VM (`pc += int16(GetOffset)`) land exactly on the label:
the unchecked `Offset(int)` conversion never truncates -/
theorem jump_offset_never_truncated (op : BitVec 32) (len fromAddr toAddr : Nat)
    (hc : Limits.fnLenOutcome len = .ok) (hf : fromAddr < len) (ht : toAddr ≤ len) :
    Limits.jumpTarget (Limits.emitJump op fromAddr toAddr) fromAddr = toAddr := by
  have hlen : len ≤ 32767 := by
    by_cases h : len ≤ 32767
    · exact h
    · obtain ⟨m, hm⟩ := (limit_exceeded_is_error_function_length len).2.2 (by omega)
      rw [hm] at hc; cases hc
  unfold Limits.jumpTarget Limits.emitJump
  rw [setOffset_roundtrip, ← BitVec.ofInt_add]
  have e : (fromAddr : Int) + ((toAddr : Int) - fromAddr) = toAddr := by omega
  rw [e, BitVec.toInt_ofInt]
  apply Int.bmod_eq_of_le <;> omega

example : Limits.fnLenOutcome 1000 = .ok ∧ (10 : Nat) < 1000 ∧ (1000 : Nat) ≤ 1000 := by decide

/-- and the int16 program counter of a compiled function never wraps: every opcode index is below
32 767, so `pc++` is exact -/
theorem pc_never_wraps_in_compiled_function (len idx : Nat) (hc : Limits.fnLenOutcome len = .ok) (hi : idx < len) :
    (Limits.pcNext (BitVec.ofInt 16 idx)).toInt = idx + 1 := by
  have hlen : len ≤ 32767 := by
    by_cases h : len ≤ 32767
    · exact h
    · obtain ⟨m, hm⟩ := (limit_exceeded_is_error_function_length len).2.2 (by omega)
      rw [hm] at hc; cases hc
  have hidx : (BitVec.ofInt 16 (idx : Int)).toInt = idx := by
    rw [BitVec.toInt_ofInt]; apply Int.bmod_eq_of_le <;> omega
  rw [pc_no_overflow_in_short_function _ (by omega) (by omega), hidx]

example : Limits.fnLenOutcome 5 = .ok ∧ (4 : Nat) < 5 := by decide

/-- the per-run obligation over the regenerated table: every `panic(...)` of ircomp/ and code/ is either
a designated *CompilationPanic, or a raw panic proved unreachable behind a designated guard / the register
bound (`etc_lookup_guard_unreachable`, `closestack_guard_unreachable`, and the ok-branches of the
`limit_exceeded_is_error_*` theorems for Index8FromInt / KIndexFromInt), or one of five size-independent
internal invariants of the compiler that are not modelled.  A new raw panic site fails this theorem. -/
theorem panic_sites_accounted : Limits.sitesAccounted = true := by decide

/-- "exceeding an implementation limit (registers, constants, jump distance, nesting) is a compile
error": proved for registers, constants, fill index and function length / jump distance.  `_partial`:
(a) the NESTING limit is not in the model — the parser and astcomp recurse without a depth limit and very
deep nesting exhausts the Go stack (finding C04-NESTING-STACK-OVERFLOW, found by the crash search);
(b) the model takes register demand, constant count and code length of a program as inputs; that the real
compiler computes them as assumed is tied by the `limits` correspondence, not proved. -/
theorem limit_exceeded_is_error_partial :
    (∀ n, 255 < n → ∃ m, Limits.liveRegsOutcome n = .compileError m) ∧
    (∀ n, 65536 < n → ∃ m, Limits.constantsOutcome n = .compileError m) ∧
    (∀ n, 254 < n → ∃ m, Limits.tableCtorWithTail n = .compileError m) ∧
    (∀ n, 32767 < n → ∃ m, Limits.fnLenOutcome n = .compileError m) :=
  ⟨fun n h => ⟨_, (limit_exceeded_is_error_registers n).2.2 h⟩,
   fun n h => (limit_exceeded_is_error_constants n).2.2 h,
   fun n h => (limit_exceeded_is_error_fill_table n).2.2 h,
   fun n h => (limit_exceeded_is_error_function_length n).2.2 h⟩

end GoluaVerif.Props.C04
