/-
  Props.C08 — compliance flags gate every Go function; iosafe means no access to the outside.

  Part 1 (the gate): theorems about `Model.Flags.run`, the model of `GoCont.RunInThread`
  (tied to the code by the correspondence of checks/c08.py, oracle mode c08, and by the
  regenerated fact `Generated.CallGraph.gateFacts`).

  Part 2 (no path to the outside): `closed_set_sound` and friends are proved once for every graph;
  the per-run obligations are the `decide` instances over `Generated.CallGraph`, which
  extract/gofacts rewrites from /repo on every run.
-/
import GoluaVerif.Model.Flags
import GoluaVerif.Proofs.C08
import GoluaVerif.Model.Graph
import GoluaVerif.Generated.Compliance
import GoluaVerif.Generated.CallGraph
namespace GoluaVerif.Props.C08
open GoluaVerif.Model.Flags GoluaVerif.Model.Graph
open GoluaVerif.Generated GoluaVerif.Proofs.C08

/-! ## Part 1 — the gate -/

/-- A missing flag yields an error, BEFORE any effect: whatever the body would do, the world is
    unchanged, the error names exactly the missing flags, and the context is untouched (in
    particular it stays live and keeps its required flags). -/
theorem gate_before_effect {σ ρ : Type} (f : GoFn σ ρ) (c : Ctx) (s : σ)
    (h : missing c.required f.declared ≠ 0) :
    run f c s = (.err (missing c.required f.declared), s, c) := by
  simp [run, h]

/-- …so after the refused call a live context is still live -/
theorem gate_keeps_context_live {σ ρ : Type} (f : GoFn σ ρ) (c : Ctx) (s : σ)
    (h : missing c.required f.declared ≠ 0) (hl : c.status = .live) :
    (run f c s).2.2.status = .live ∧ (run f c s).2.1 = s := by
  rw [gate_before_effect f c s h]; exact ⟨hl, rfl⟩

/-- the body runs iff nothing is missing -/
theorem gate_passes {σ ρ : Type} (f : GoFn σ ρ) (c : Ctx) (s : σ)
    (h : missing c.required f.declared = 0) : run f c s = f.body c s := by
  simp [run, h]

/-- non-vacuity: a body that WOULD change the world (increments a counter) declared cpusafe+memsafe, called in a
    context requiring iosafe: refused with mask {iosafe}, counter untouched, context still live -/
example : run (⟨cpuSafe ||| memSafe, fun c s => (.ok (), s + 1, c)⟩ : GoFn Nat Unit) ⟨ioSafe, .live⟩ 7
    = (.err ioSafe, 7, ⟨ioSafe, .live⟩) :=
  gate_before_effect _ _ _ (by decide)
example : missing (ioSafe ||| cpuSafe) (cpuSafe ||| memSafe) = ioSafe := by decide
example : missing ioSafe allFlags = 0 := by decide

/-- nothing is missing exactly when every required bit (of the 16-bit word) is declared -/
theorem missing_eq_zero_iff (required declared : Flags) (hr : required < 2 ^ 16) :
    missing required declared = 0 ↔ ∀ i, required.testBit i = true → declared.testBit i = true := by
  unfold missing
  constructor
  · intro h i hi
    have h16 := ffff_testBit i (testBit_lt16 required hr i hi)
    have := congrArg (fun n => n.testBit i) h
    simp only [Nat.testBit_and, Nat.testBit_xor, Nat.zero_testBit, hi, Bool.true_and, h16] at this
    cases hd : declared.testBit i <;> simp_all
  · intro h
    apply Nat.eq_of_testBit_eq; intro i
    simp only [Nat.testBit_and, Nat.testBit_xor, Nat.zero_testBit]
    cases hi : required.testBit i with
    | false => simp
    | true =>
      have h16 := ffff_testBit i (testBit_lt16 required hr i hi)
      simp [h i hi, h16]

/-- nesting only adds requirements: every flag required by the parent is required by the child -/
theorem required_flags_monotone (parent : Ctx) (d : CtxDef) (i : Nat)
    (h : parent.required.testBit i = true) : (push parent d).required.testBit i = true := by
  simp [push, Nat.testBit_or, h]

/-- …along any chain of nested contexts -/
theorem required_flags_monotone_chain (c : Ctx) (ds : List CtxDef) (i : Nat)
    (h : c.required.testBit i = true) : (pushAll c ds).required.testBit i = true := by
  induction ds generalizing c with
  | nil => exact h
  | cons d ds ih => exact ih (push c d) (required_flags_monotone c d i h)

/-- the flags a context asks for explicitly are required inside it -/
theorem pushed_flags_required (parent : Ctx) (d : CtxDef) (i : Nat)
    (h : d.flags.testBit i = true) : (push parent d).required.testBit i = true := by
  simp [push, Nat.testBit_or, h]

/-- a function refused by a context is refused by every context nested inside it -/
theorem refused_in_parent_refused_in_child (parent : Ctx) (d : CtxDef) (declared : Flags)
    (h : missing parent.required declared ≠ 0) : missing (push parent d).required declared ≠ 0 := by
  intro h0
  apply h
  apply Nat.eq_of_testBit_eq; intro i
  have := congrArg (fun n => n.testBit i) h0
  simp only [missing, push, Nat.testBit_and, Nat.testBit_or, Nat.testBit_xor, Nat.zero_testBit] at this ⊢
  cases hp : parent.required.testBit i <;> simp_all

example : (push root { flags := ioSafe, cpuLimit := true }).required = ioSafe ||| cpuSafe := by decide
example : missing (pushAll root [{ flags := ioSafe }, { flags := memSafe }]).required (cpuSafe ||| memSafe) = ioSafe := by decide

/-! ## Part 2 — no call path from an iosafe-declared function to the outside -/

/-- **Generic, for every graph.**  A set `S` that contains the sources, is closed under non-gate
    successors and contains no sink is a proof that no source reaches a sink while avoiding gates. -/
theorem closed_set_sound {α : Type} (gate : α → Prop) (E : α → α → Prop) (src S sink : α → Prop)
    (hsrc : ∀ a, src a → S a)
    (hclosed : ∀ u v, E u v → S u → ¬ gate v → S v)
    (hdisj : ∀ a, S a → ¬ sink a) :
    ∀ f s, src f → sink s → ¬ ReachableAvoiding gate E f s := by
  intro f s hf hs hreach
  have inv : ∀ b, ReachableAvoiding gate E f b → S b := by
    intro b hb
    induction hb with
    | refl => exact hsrc f hf
    | step _ hE hg ih => exact hclosed _ _ hE ih hg
  exact hdisj s (inv s hreach) hs

example : ∀ f s, f = 0 → s = 2 → ¬ ReachableAvoiding (· = 1) (fun u v => v = u + 1) f s :=
  closed_set_sound (· = 1) (fun u v => v = u + 1) (· = 0) (· = 0) (· = 2)
    (fun _ h => h) (fun u v hE hS hg => by subst hS; subst hE; exact absurd rfl hg) (fun a h h2 => by omega)

/-- **Generic, through the gates.**  If moreover an edge out of a gate is only ever taken towards
    `open_` nodes, all of which are sources, and no sink is itself a gate, then no source reaches a
    sink by feasible steps at all — also not by passing through gates. -/
theorem gated_closed_set_sound {α : Type} (gate open_ : α → Prop) (E : α → α → Prop) (src S sink : α → Prop)
    (hsrc : ∀ a, src a → S a)
    (hopen : ∀ a, open_ a → src a)
    (hclosed : ∀ u v, E u v → S u → ¬ gate v → S v)
    (hdisj : ∀ a, S a → ¬ sink a)
    (hsg : ∀ a, sink a → ¬ gate a) :
    ∀ f s, src f → sink s → ¬ Reach (Feasible gate open_ E) f s := by
  intro f s hf hs hreach
  have inv : ∀ b, Reach (Feasible gate open_ E) f b → S b ∨ gate b := by
    intro b hb
    induction hb with
    | refl => exact Or.inl (hsrc f hf)
    | @step b c _ hstep ih =>
      obtain ⟨hE, hgo⟩ := hstep
      by_cases hgc : gate c
      · exact Or.inr hgc
      · cases ih with
        | inl hSb =>
          by_cases hgb : gate b
          · exact Or.inl (hsrc c (hopen c (hgo hgb)))
          · exact Or.inl (hclosed b c hE hSb hgc)
        | inr hgb => exact Or.inl (hsrc c (hopen c (hgo hgb)))
  cases inv s hreach with
  | inl h => exact hdisj s h hs
  | inr h => exact hsg s hs h

/-- non-vacuity of `gated_closed_set_sound`: 0 → 1(gate) → {2 (open, a source), 3 (sink, guarded)}; the gate only lets
    control through to 2, so the sink 3 is unreachable by feasible steps although the graph has the edge 1 → 3 -/
example : ∀ f s, (f = 0 ∨ f = 2) → s = 3 →
    ¬ Reach (Feasible (· = 1) (· = 2) (fun u v => (u = 0 ∧ v = 1) ∨ (u = 1 ∧ v = 2) ∨ (u = 1 ∧ v = 3))) f s :=
  gated_closed_set_sound (· = 1) (· = 2) _ (fun a => a = 0 ∨ a = 2) (fun a => a = 0 ∨ a = 2) (· = 3)
    (fun _ h => h) (fun _ h => Or.inr h)
    (fun u v hE hS hg => by rcases hE with ⟨_, h⟩ | ⟨h, _⟩ | ⟨h, _⟩ <;> rcases hS with h' | h' <;> omega)
    (fun a h h3 => by omega) (fun a h h1 => by omega)

/-- **Generic, for every finite graph given as data.**  The decidable check implies the
    mathematical statement about reachability. -/
theorem checkCert_sound (g : EdgeList) (srcs : List Nat) (S sinks gates : Nat)
    (h : checkCert g srcs S sinks gates = true) :
    ∀ f s, f ∈ srcs → inSet sinks s → ¬ ReachableAvoiding (inSet gates) (edgeRel g) f s := by
  simp only [checkCert, Bool.and_eq_true, List.all_eq_true, beq_iff_eq] at h
  obtain ⟨⟨hsrc, hedges⟩, hdisj⟩ := h
  apply closed_set_sound (inSet gates) (edgeRel g) (· ∈ srcs) (inSet S) (inSet sinks)
  · intro a ha; exact hsrc a ha
  · intro u v hE hS hg
    obtain ⟨c, hc, huv⟩ := hE
    have := hedges c hc (u, v) huv
    simp only [edgeOk, Bool.or_eq_true, Bool.not_eq_true'] at this
    unfold inSet at *
    rcases this with (h1 | h2) | h3
    · rw [hS] at h1; exact Bool.noConfusion h1
    · exact absurd h2 hg
    · exact h3
  · intro a hS hk
    unfold inSet at *
    have := and_eq_zero_disjoint S sinks a hdisj hS
    rw [hk] at this; exact Bool.noConfusion this

example : checkCert [[(0, 1), (1, 2)], [(2, 3)]] [0] 0b0011 0b1000 0b0100 = true := by decide

/-- a path accepted by `validPath` is a path in the sense of `ReachableAvoiding` -/
theorem validPath_reachable (g : EdgeList) (gates : Nat) :
    ∀ (p : List Nat) (idx : List (Nat × Nat)) (a b : Nat), validPath g gates p idx = true →
      p.head? = some a → p.getLast? = some b → ReachableAvoiding (inSet gates) (edgeRel g) a b := by
  suffices H : ∀ (p : List Nat) (idx : List (Nat × Nat)) (x a b : Nat),
      ReachableAvoiding (inSet gates) (edgeRel g) x a →
      validPath g gates p idx = true → p.head? = some a → p.getLast? = some b →
      ReachableAvoiding (inSet gates) (edgeRel g) x b by
    intro p idx a b hv hh hl; exact H p idx a a b (.refl a) hv hh hl
  intro p
  induction p with
  | nil => intro idx x a b _ hv; simp [validPath] at hv
  | cons y rest ih =>
    intro idx x a b hxa hv hh hl
    simp only [List.head?_cons, Option.some.injEq] at hh
    subst hh
    cases rest with
    | nil =>
      simp only [List.getLast?_singleton, Option.some.injEq] at hl
      subst hl; exact hxa
    | cons z rest' =>
      cases idx with
      | nil => simp [validPath] at hv
      | cons ik idx' =>
        obtain ⟨ci, k⟩ := ik
        simp only [validPath, Bool.and_eq_true, Bool.not_eq_true'] at hv
        obtain ⟨⟨hedge, hgz⟩, hrest⟩ := hv
        have hE : edgeRel g y z := by
          cases hc : g[ci]? with
          | none => rw [hc] at hedge; exact Bool.noConfusion hedge
          | some c =>
            rw [hc] at hedge
            cases he : c[k]? with
            | none => simp only [he] at hedge; exact Bool.noConfusion hedge
            | some e =>
              simp only [he, beq_iff_eq] at hedge
              subst hedge
              exact ⟨c, List.mem_of_getElem? hc, List.mem_of_getElem? he⟩
        have hstep : ReachableAvoiding (inSet gates) (edgeRel g) x z :=
          .step hxa hE (by unfold inSet; rw [hgz]; exact Bool.noConfusion)
        apply ih idx' x z b hstep hrest rfl
        rw [List.getLast?_cons_cons] at hl; exact hl

/-! ### Per-run instances over the regenerated tables -/

/-- every registration / declaration site was resolved by the extractor -/
theorem compliance_table_resolved : Compliance.unresolved = [] := by decide

/-- the regenerated structural fact: in `GoCont.RunInThread` the call through `c.f` is dominated by
    the passed branch of `CheckRequiredFlags(c.safetyFlags)`, and in every `safeio` function the
    calls that leave the module are dominated by the passed branch of the `RequiredFlags()` test -/
theorem gates_guard : CallGraph.gateFacts.all (fun p => p.2) = true ∧ CallGraph.gateFacts.length ≥ 2 := by
  decide

/-- the packed edge chunks decode completely (no edge is dropped for lack of fuel) -/
theorem graph_complete : CallGraph.chunks.all (chunkExhausted 256) = true := by
  decide +kernel

/-- **Per-run obligation.**  The certificate computed by the extractor from the current tree checks. -/
theorem iosafe_no_sink :
    checkCert CallGraph.graph CallGraph.cleanSrcs CallGraph.S CallGraph.sinks CallGraph.gates = true := by
  decide +kernel

/-- every iosafe-declared function (and everything the gates run themselves) is either covered by
    the certificate or reported as a hole -/
theorem srcs_accounted :
    (CallGraph.iosafeSrcs ++ CallGraph.gateSrcs).all
      (fun s => CallGraph.cleanSrcs.contains s || CallGraph.holeSrcs.contains s) = true := by
  decide +kernel

/-- hence: from no clean iosafe-declared function is an operating-system sink reachable without
    passing a gate, in the call graph of the current tree -/
theorem iosafe_clean_sources_reach_no_sink :
    ∀ f s, f ∈ CallGraph.cleanSrcs → inSet CallGraph.sinks s →
      ¬ ReachableAvoiding (inSet CallGraph.gates) (edgeRel CallGraph.graph) f s :=
  checkCert_sound _ _ _ _ _ iosafe_no_sink

/-- no sink is a gate (needed to go through the gates) -/
theorem sinks_not_gates : CallGraph.sinks &&& CallGraph.gates = 0 := by decide +kernel

/-- the current tree has no hole: every iosafe-declared function (and everything the gates run
    themselves) is a clean source.  A new hole makes this instance fail, and checks/c08.py reports
    the offending path as a violation keyed by that path. -/
theorem holes_empty : CallGraph.holeSrcs = [] := by decide

/-- **Through the gates.**  In a context requiring iosafe — where an edge out of a gate is only taken
    towards what the gate runs itself or towards iosafe-declared functions (`gates_guard`, and the
    correspondence of checks/c08.py for `GoCont.RunInThread`) — no iosafe-declared function reaches
    an operating-system sink by any feasible path, gates included. -/
theorem iosafe_no_sink_through_gates :
    ∀ f s, f ∈ CallGraph.iosafeSrcs ++ CallGraph.gateSrcs → inSet CallGraph.sinks s →
      ¬ Reach (Feasible (inSet CallGraph.gates) (· ∈ CallGraph.iosafeSrcs ++ CallGraph.gateSrcs)
          (edgeRel CallGraph.graph)) f s := by
  have hno := holes_empty
  have hcert := iosafe_no_sink
  simp only [checkCert, Bool.and_eq_true, List.all_eq_true, beq_iff_eq] at hcert
  obtain ⟨⟨hsrc, hedges⟩, hdisj⟩ := hcert
  have hacc := srcs_accounted
  simp only [List.all_eq_true, Bool.or_eq_true, List.contains_iff_mem, hno, List.not_mem_nil, or_false] at hacc
  apply gated_closed_set_sound (inSet CallGraph.gates) _ (edgeRel CallGraph.graph)
    (· ∈ CallGraph.iosafeSrcs ++ CallGraph.gateSrcs) (inSet CallGraph.S) (inSet CallGraph.sinks)
  · intro a ha; exact hsrc a (hacc a ha)
  · intro a ha; exact ha
  · intro u v hE hS hg
    obtain ⟨c, hc, huv⟩ := hE
    have := hedges c hc (u, v) huv
    simp only [edgeOk, Bool.or_eq_true, Bool.not_eq_true'] at this
    unfold inSet at *
    rcases this with (h1 | h2) | h3
    · rw [hS] at h1; exact Bool.noConfusion h1
    · exact absurd h2 hg
    · exact h3
  · intro a hS hk
    unfold inSet at *
    have := and_eq_zero_disjoint _ _ a hdisj hS
    rw [hk] at this; exact Bool.noConfusion this
  · intro a hk hg
    unfold inSet at *
    have := and_eq_zero_disjoint _ _ a sinks_not_gates hk
    rw [hg] at this; exact Bool.noConfusion this

/-- Whenever the extractor lists an offending path (none on the current tree, see `holes_empty`; before
    bcd51aa: `io.popen → os/exec.Cmd.Start`), that path really is a call path from an iosafe-declared
    function to a sink that avoids all gates — so a reported hole is a fact about the graph, not about
    the extractor's search. -/
theorem hole_paths_counterexample :
    ∀ p ∈ CallGraph.holePaths, ∃ a b, a ∈ CallGraph.iosafeSrcs ++ CallGraph.gateSrcs ∧ inSet CallGraph.sinks b ∧
      ReachableAvoiding (inSet CallGraph.gates) (edgeRel CallGraph.graph) a b := by
  have hall : CallGraph.holePaths.all
      (pathOk CallGraph.graph CallGraph.gates CallGraph.sinks (CallGraph.iosafeSrcs ++ CallGraph.gateSrcs)) = true := by
    decide +kernel
  intro p hp
  have hp' := List.all_eq_true.mp hall p hp
  simp only [pathOk, Bool.and_eq_true] at hp'
  obtain ⟨⟨hv, hh⟩, hl⟩ := hp'
  obtain ⟨p, idx⟩ := p
  simp only at hv hh hl
  cases hhd : p.head? with
  | none => rw [hhd] at hh; exact Bool.noConfusion hh
  | some a =>
    cases hls : p.getLast? with
    | none => rw [hls] at hl; exact Bool.noConfusion hl
    | some b =>
      rw [hhd] at hh; rw [hls] at hl
      exact ⟨a, b, List.contains_iff_mem.mp hh, hl, validPath_reachable _ _ p idx a b hv hhd hls⟩

end GoluaVerif.Props.C08
