/-
  Props.C15 — property theorems for C15 (Lua patterns).

  Spec  = GoluaVerif.Spec.LuaPattern   (the manual's semantics, recursive search in the shape of lstrlib.c)
  Model = GoluaVerif.Model.ByteSet / PatBuild / PatMatch / Gsub  (mirrors of lib/stringlib/pattern/*.go, matching.go)
  Generated.ByteSetTable = the named byte sets, regenerated from byteset.go on every run.

  (The theorems about the regenerated table of named sets are in Props/C15_Table.lean.)
  Lemmas live in GoluaVerif/Proofs/{ByteSet,ByteSetTable,Gsub,PatMatchBasic,PatRefine,PatRefineTop,PatMono,PatBudget,
  PatBuild,PatBuildRefine,PatRefineSpec,ParseWF,LuaFind}.lean.
-/
import GoluaVerif.Proofs.Gsub
import GoluaVerif.Proofs.PatMono
import GoluaVerif.Proofs.ParseWF
import GoluaVerif.Proofs.LuaFind
import GoluaVerif.Proofs.PatBudget
namespace GoluaVerif.Props.C15
open GoluaVerif GoluaVerif.Spec GoluaVerif.Model GoluaVerif.Model.PatMatch

deriving instance DecidableEq for Except

/-! ## byte sets (`[4]uint64`) -/

/-- `complement` is set complement -/
theorem byteset_complement (s : ByteSet) (b : UInt8) : s.complement.contains b = !s.contains b :=
  ByteSet.contains_complement s b

/-- `merge` is union -/
theorem byteset_union (s t : ByteSet) (b : UInt8) : (s.merge t).contains b = (s.contains b || t.contains b) :=
  ByteSet.contains_merge s t b

/-- `add` is insertion -/
theorem byteset_add (s : ByteSet) (b c : UInt8) : (s.add b).contains c = (s.contains c || c == b) :=
  ByteSet.contains_add s b c

/-- what `byteRange a b` contains, for ALL `a b`: `[a, b)` plus `b` -/
theorem byteset_range (a b c : UInt8) :
    (ByteSet.byteRange a b).contains c = ((decide (a ≤ c) && decide (c < b)) || c == b) :=
  ByteSet.contains_byteRange a b c

/-- for an ascending range that is the manual's closed interval … -/
theorem byteset_range_ascending (a b c : UInt8) (h : a ≤ b) :
    (ByteSet.byteRange a b).contains c = (decide (a ≤ c) && decide (c ≤ b)) :=
  ByteSet.contains_byteRange_ascending a b c h

example : (97 : UInt8) ≤ 122 := by decide

/-- … for a descending one (`[z-a]`) it is `{b}` instead of the empty set: the `[z-a]` defect, for every such range -/
theorem byteset_range_descending_counterexample (a b : UInt8) (h : b < a) :
    (ByteSet.byteRange a b).contains b = true ∧ (LuaPattern.SetElem.range a b).matches b = false := by
  constructor
  · rw [ByteSet.contains_byteRange_descending a b b h]; simp
  · unfold LuaPattern.SetElem.matches
    have : ¬ (a ≤ b) := by
      rw [UInt8.le_iff_toNat_le]; have := UInt8.lt_iff_toNat_lt.mp h; omega
    simp [this]

example : (97 : UInt8) < 122 := by decide

/-! ## the builder -/

/-- BUILD TOTAL.  For EVERY pattern string, `pattern.New` (mirror: `PatBuild.build`) returns items or one of the
    builder's own error values: never an index-out-of-range (`goPanic`), never an exhausted loop bound (`fuel`). -/
theorem build_total (ptn : Array UInt8) (e : BErr) (h : PatBuild.build ptn = .error e) : PatBuild.benign e = true :=
  PatBuild.build_total ptn e h

example : PatBuild.build #[37] = .error .malformed := by decide +kernel

/-- BUILD ⊑ PARSE.  Whenever the Spec's parser accepts a pattern string (of at most `maxPatternSize` = 10000 bytes)
    and none of its sets contains a descending range, the builder accepts it too and emits, item for item, the
    machine item corresponding (`ItemRel`: same kind, same quantifier, byte set = character class on all 256 bytes,
    same capture index / `%b` delimiters) to each parsed item, with the same anchors and capture count. -/
theorem build_refines_parse (ptn : Array UInt8) (pat : LuaPattern.Pat) (hparse : LuaPattern.parse ptn.toList = .ok pat)
    (hasc : NoDescendingRange pat) (hsize : ptn.size ≤ Generated.ByteSetTable.maxPatternSize) :
    ∃ P, PatBuild.build ptn = .ok P ∧ RelL pat.items P.items.toList ∧ P.captureCount = pat.ncap ∧
      P.startAnchor = pat.anchorStart ∧ P.endAnchor = pat.anchorEnd ∧ pat.ncap ≤ 9 :=
  PatBuild.build_refines_parse ptn pat hparse hasc hsize

/-- the converse direction is FALSE for one family: a pattern outside the manual's grammar that the builder accepts
    (`%fa`: `%f` not followed by `[`) — "a malformed pattern raises an error" fails for it -/
theorem build_rejects_malformed_counterexample :
    LuaPattern.parse [37, 102, 97] = .error .malformed ∧
    ((PatBuild.build #[37, 102, 97]).map fun P => P.items.size) = .ok 1 := by
  constructor <;> decide +kernel

/-- what the Spec's parser guarantees about captures (indices 1..9, opened once, closed only when open, `%n` only to a
    closed capture, all closed at the end), provided no `%n` refers to a position capture -/
theorem parse_captures_wf (p : List UInt8) (pat : LuaPattern.Pat) (hparse : LuaPattern.parse p = .ok pat)
    (hnp : NoPosBackref pat.items) : CapturesWF pat :=
  parse_wf p pat hparse hnp

/-! ## the matcher -/

/-- MACHINE ⊑ SPEC (`machine_refines_spec`), on pattern STRINGS, for all patterns, subjects and start positions.
    If the Spec parses `p` (so `p` is in the manual's grammar and not one of the forms the manual leaves open), no set
    of `p` contains a descending range, no `%n` refers to a position capture `()`, and `p` has at most 10000 bytes,
    then: the builder accepts `p`, and `MatchFromStart` on the built pattern (unlimited budget) returns exactly the
    Spec's result — the leftmost match found by the recursive search with greedy/lazy/optional priorities, with all
    captures, position captures and the whole-match bounds — for every machine fuel above some bound (termination),
    recovering no index panic.

    PARTIAL only in its hypotheses, each of which excludes a family where the statement is FALSE or not stated:
    descending ranges (`inverted_range_counterexample`), `%n` to a position capture (the machine panics and the panic
    is swallowed: `match_panics_counterexample`), patterns the Spec rejects but the builder accepts
    (`build_rejects_malformed_counterexample`) or that the manual leaves open. -/
theorem machine_refines_spec_partial (p : Array UInt8) (s : Subject) (init : Nat) (hinit : init ≤ s.size)
    (pat : LuaPattern.Pat) (hparse : LuaPattern.parse p.toList = .ok pat) (hasc : NoDescendingRange pat)
    (hnp : NoPosBackref pat.items) (hsize : p.size ≤ Generated.ByteSetTable.maxPatternSize) :
    ∃ P, PatBuild.build p = .ok P ∧ ∃ N, ∀ fuel, N ≤ fuel →
      (matchFromStart P s fuel init 0).captures = (LuaPattern.findParsed pat s init).map toCaptures ∧
      (matchFromStart P s fuel init 0).swallowedPanic = none ∧
      (matchFromStart P s fuel init 0).outOfFuel = false :=
  machine_refines_spec_str p s init hinit pat hparse hasc (parse_wf p.toList pat hparse hnp) hsize

/-- the hypotheses of `machine_refines_spec_partial` are satisfiable: the pattern `a*(b)%1` -/
example : ∃ pat, LuaPattern.parse (#[97, 42, 40, 98, 41, 37, 49] : Array UInt8).toList = .ok pat ∧
    NoDescendingRange pat ∧ NoPosBackref pat.items := by
  refine ⟨⟨false, false, [.char (.lit 97) .star, .open 1, .char (.lit 98) .one, .close 1, .backref 1], 1⟩,
    by decide +kernel, ?_, ?_⟩
  · intro it hit
    simp only [List.mem_cons, List.not_mem_nil, or_false] at hit
    rcases hit with rfl | rfl | rfl | rfl | rfl <;> trivial
  · intro n hb hp
    simp at hp

/-- `string.find(s, p, init)` (pattern mode) at the LUA level: the mirror of matching.go's `find` returns exactly the
    values the Spec prescribes — indices, captured strings, positions — for every subject and EVERY `init` (negative,
    0, beyond the end), under the hypotheses of `machine_refines_spec_partial` (and `p` not empty: the empty pattern
    takes golua's plain-search path, see `find_plain_offset_example`) -/
theorem lua_find_refines_spec_partial (p : Array UInt8) (s : Subject) (init : Int) (pat : LuaPattern.Pat)
    (hparse : LuaPattern.parse p.toList = .ok pat) (hasc : NoDescendingRange pat) (hnp : NoPosBackref pat.items)
    (hsize : p.size ≤ Generated.ByteSetTable.maxPatternSize) (hne : p.size ≠ 0) :
    ∃ vs, LuaPattern.strFind s p.toList init false = .vals vs ∧
      ∃ N, ∀ fuel, N ≤ fuel → Gsub.luaFind fuel s p init false = .vals vs :=
  luaFind_refines p s init pat hparse hasc hnp hsize hne

/-- `string.match(s, p, init)` at the LUA level, for `init` not beyond `#s + 1` (beyond it golua slices out of range:
    `match_init_beyond_end_counterexample`) -/
theorem lua_match_refines_spec_partial (p : Array UInt8) (s : Subject) (init : Int) (pat : LuaPattern.Pat)
    (hparse : LuaPattern.parse p.toList = .ok pat) (hasc : NoDescendingRange pat) (hnp : NoPosBackref pat.items)
    (hsize : p.size ≤ Generated.ByteSetTable.maxPatternSize) (hin : LuaPattern.normInit s.size init ≤ s.size) :
    ∃ vs, LuaPattern.strMatch s p.toList init = .vals vs ∧
      ∃ N, ∀ fuel, N ≤ fuel → Gsub.luaMatch fuel s p init = .vals vs :=
  luaMatch_refines p s init pat hparse hasc hnp hsize hin

example : LuaPattern.normInit 3 (-1) ≤ 3 := by decide

/-- MATCH TOTAL (partial): under the same hypotheses, whatever the machine fuel, `MatchFromStart` never recovers an
    index-out-of-range / slice-bounds panic.  It is FALSE without the position-capture hypothesis (next theorem);
    for patterns the Spec does not parse it is not proved. -/
theorem match_total_partial (p : Array UInt8) (s : Subject) (init : Nat) (hinit : init ≤ s.size)
    (pat : LuaPattern.Pat) (hparse : LuaPattern.parse p.toList = .ok pat) (hasc : NoDescendingRange pat)
    (hnp : NoPosBackref pat.items) (hsize : p.size ≤ Generated.ByteSetTable.maxPatternSize) :
    ∃ P, PatBuild.build p = .ok P ∧ ∀ fuel, (matchFromStart P s fuel init 0).swallowedPanic = none :=
  match_total_str p s init hinit pat hparse hasc (parse_wf p.toList pat hparse hnp) hsize

/-- MACHINE ⊑ SPEC (items level, all item kinds).  For a built `Pattern` `P` whose items correspond to the parsed
    items of `pat` (`PatRel`: single-character items with `* + - ?`, `%b`, `%f`, captures, position captures,
    back-references to closed captures, anchors), every subject and every start position: `MatchFromStart` with an
    unlimited budget returns exactly the Spec's leftmost match with the Spec's captures, no index panic is
    recovered, for every machine fuel above some bound (i.e. the machine terminates). -/
theorem machine_refines_spec_items (P : Pattern) (s : Subject) (pat : LuaPattern.Pat) (hp : PatRel P pat)
    (init : Nat) (hinit : init ≤ s.size) :
    ∃ N, ∀ fuel, N ≤ fuel →
      (matchFromStart P s fuel init 0).captures = (LuaPattern.findParsed pat s init).map toCaptures ∧
      (matchFromStart P s fuel init 0).swallowedPanic = none ∧
      (matchFromStart P s fuel init 0).outOfFuel = false :=
  matchFromStart_refines P s pat hp init hinit

/-- the same for `Match` (the search that ignores `^`, used by gmatch and gsub) against the unanchored scan -/
theorem machine_search_refines_spec_items (P : Pattern) (s : Subject) (pat : LuaPattern.Pat) (hp : PatRel P pat)
    (init : Nat) (hinit : init ≤ s.size) :
    ∃ N, ∀ fuel, N ≤ fuel →
      (matchGo P s fuel init 0).captures = (LuaPattern.scan pat s init (s.size - init)).map toCaptures ∧
      (matchGo P s fuel init 0).swallowedPanic = none ∧
      (matchGo P s fuel init 0).outOfFuel = false :=
  matchGo_refines P s pat hp init hinit

/-- the pattern `a*(b)%1` as built and as parsed: the hypotheses `PatRel` are satisfiable -/
def exP : Pattern :=
  { items := #[⟨ByteSet.empty.add 97, .greedyRepeat⟩, ⟨PatBuild.wordsSet 1 0, .startCapture⟩,
               ⟨ByteSet.empty.add 98, .once⟩, ⟨PatBuild.wordsSet 1 0, .endCapture⟩, ⟨PatBuild.wordsSet 1 0, .capture⟩],
    captureCount := 1, startAnchor := false, endAnchor := false }
def exPat : LuaPattern.Pat :=
  { anchorStart := false, anchorEnd := false, ncap := 1,
    items := [.char (.lit 97) .star, .open 1, .char (.lit 98) .one, .close 1, .backref 1] }

example : PatRel exP exPat := by
  have hlit : ∀ x b : UInt8, (ByteSet.empty.add x).contains b = (LuaPattern.Cls.lit x).matches b := by
    intro x b
    rw [ByteSet.contains_add, ByteSet.contains_empty]
    simp only [LuaPattern.Cls.matches, Bool.false_or]
    by_cases hbx : b = x
    · subst hbx; simp
    · have : ¬ (x = b) := fun e => hbx e.symm
      rw [beq_eq_false_iff_ne.mpr hbx, beq_eq_false_iff_ne.mpr this]
  refine ⟨⟨by decide, ?_⟩, ?_, ?_, rfl, by decide, rfl, rfl⟩
  · exact .cons (.char _ .star _ (hlit 97)) (.cons (.open_ 1) (.cons (.char _ .one _ (hlit 98))
      (.cons (.close 1) (.cons (.backref 1) .nil))))
  · simp [exPat, WFfrom, Shapes.set]
  · intro n h1 h2
    have : n = 1 := by simp [exPat] at h2; omega
    subst this
    left; simp [exPat, shapeAfter, Shapes.set]

/-- NO GO PANIC, items level: under `PatRel`, whatever the machine fuel, `MatchFromStart` never recovers an
    index-out-of-range / slice-bounds panic -/
theorem match_total_items (P : Pattern) (s : Subject) (pat : LuaPattern.Pat) (hp : PatRel P pat)
    (init : Nat) (hinit : init ≤ s.size) (fuel : Nat) :
    (matchFromStart P s fuel init 0).swallowedPanic = none :=
  matchFromStart_no_panic P s pat hp init hinit fuel

/-- `()%1` on the subject `a`: the machine slices `s[0:-1]`; the panic is swallowed by the `recover()` of
    `MatchFromStart`, which then reports "no match, 0 budget used" -/
theorem match_panics_counterexample :
    ((PatBuild.build #[40, 41, 37, 49]).map fun P => (matchFromStart P #[97] 100 0 0).swallowedPanic)
      = .ok (some .subjSlice) := by decide +kernel

/-- BUDGET CHARGED = BYTES CONSUMED, for every pattern, subject, start, budget and fuel -/
theorem budget_charged (P : Pattern) (s : Subject) (fuel : Nat) (init : Int) (B : Nat) (hB : 0 < B) :
    let r := matchFromStart P s fuel init B
    (r.used = r.consumed ∧ r.used < B) ∨ (r.used = B + 1 ∧ r.captures = none) ∨ r.swallowedPanic.isSome ∨
      r.outOfFuel = true :=
  matchFromStart_charged P s fuel init B hB

example : (0 : Nat) < 1000 := by decide

/-- WORK ≤ BUDGET is FALSE: machine steps that consume no byte are not charged.  `a?a?a?c` on `bbbb` takes 25
    steps and charges 0 (family `("a?"):rep(k).."c"` on `("b"):rep(n)`: about `(k+2)·(n+1)` steps, 0 charged). -/
theorem work_le_budget_counterexample :
    ((PatBuild.build #[97, 63, 97, 63, 97, 63, 99]).map fun P =>
      let r := matchFromStart P #[98, 98, 98, 98] 1000 0 1000
      (r.captures, r.used, decide (r.steps ≥ 20))) = .ok (none, 0, true) := by decide +kernel

/-! ## gsub / gmatch stepping -/

/-- GSUB PROGRESS, for EVERY matcher that returns matches at or after the requested start, not reversed, inside the
    subject: the loop of `gsub` terminates within its fuel, never slices out of range, the positions it visits
    strictly increase, and the accepted matches are disjoint and ordered, an empty match is never accepted where
    the previous accepted match ended, and no two matches are accepted at the same position
    (`After later earlier := earlier.stop ≤ later.start ∧ (later empty ∨ earlier empty → earlier.stop < later.start)`). -/
theorem gsub_progress (s : Gsub.Subject) (matcher : Gsub.Matcher) (repl : List Capture → Gsub.ReplOut)
    (n : Option Nat) (hm : Gsub.MatcherOK s.size matcher) :
    (∃ st', Gsub.gsubLoop s matcher repl n (s.size + 3) {} = .done st' ∧
        st'.visited.Pairwise (· > ·) ∧ st'.accepted.Pairwise Gsub.After) ∨
    Gsub.gsubLoop s matcher repl n (s.size + 3) {} = .replErr ∨
    (∃ w, Gsub.gsubLoop s matcher repl n (s.size + 3) {} = .panic w ∧ ∃ caps, repl caps = .panic w) :=
  Gsub.gsubLoop_inv s matcher repl n hm (s.size + 3) {} (Gsub.inv_init s.size) (by simp)

example : Gsub.MatcherOK 3 (fun si => if si ≤ 1 then some [⟨1, 2⟩] else none) := by
  intro si gc rest h
  by_cases h1 : si ≤ 1
  · simp [h1] at h; obtain ⟨rfl, _⟩ := h; simp; omega
  · simp [h1] at h

/-- `string.gsub("aa", "a*", "x")`: the manual says `x 1`; the mirror of golua says `x 2`
    (a rejected empty match is still counted) -/
theorem gsub_count_counterexample :
    LuaPattern.strGsub #[97, 97] [97, 42] [120] none = .vals [.str [120], .int 1] ∧
    Gsub.luaGsub 1000 #[97, 97] #[97, 42] [120] none = .vals [.str [120], .int 2] := by
  constructor <;> decide +kernel

/-- `string.gsub("aa", "^a", "x")`: the manual says `xa 1`; the mirror of golua says `xx 2` (`^` ignored) -/
theorem gsub_anchor_counterexample :
    LuaPattern.strGsub #[97, 97] [94, 97] [120] none = .vals [.str [120, 97], .int 1] ∧
    Gsub.luaGsub 1000 #[97, 97] #[94, 97] [120] none = .vals [.str [120, 120], .int 2] := by
  constructor <;> decide +kernel

/-- `string.gsub("ab", "a", "")`: the manual says `b 1`; the mirror of golua says `ab 1` (empty output so far
    is taken for "nothing substituted") -/
theorem gsub_empty_output_counterexample :
    LuaPattern.strGsub #[97, 98] [97] [] none = .vals [.str [98], .int 1] ∧
    Gsub.luaGsub 1000 #[97, 98] #[97] [] none = .vals [.str [97, 98], .int 1] := by
  constructor <;> decide +kernel

/-- plain `string.find` with an offset (`string.find("abab", "b", 3, true)` = `4 4`): Spec and mirror agree
    (the mirror follows the fix `5774084` of /repo; before it the indices were relative to `init`) -/
theorem find_plain_offset_example :
    LuaPattern.strFind #[97, 98, 97, 98] [98] 3 true = .vals [.int 4, .int 4] ∧
    Gsub.luaFind 1000 #[97, 98, 97, 98] #[98] 3 true = .vals [.int 4, .int 4] := by
  constructor <;> decide +kernel

/-- `string.match("a", "^", 3)`: the manual says `nil`; in the mirror of golua the slice `s[2:2]` of a 1-byte
    string is out of range — a Go panic that is NOT inside the `recover()` of the pattern package -/
theorem match_init_beyond_end_counterexample :
    LuaPattern.strMatch #[97] [94] 3 = .vals [.nil] ∧
    Gsub.luaMatch 1000 #[97] #[94] 3 = .panic .subjSlice := by
  constructor <;> decide +kernel

/-- `[z-a]` against `a` at the Lua level: Spec no match, mirror matches -/
theorem inverted_range_counterexample :
    LuaPattern.find [91, 122, 45, 97, 93] #[97] 0 = .noMatch ∧
    ((PatBuild.build #[91, 122, 45, 97, 93]).map fun P => (matchFromStart P #[97] 100 0 0).captures)
      = .ok (some [⟨0, 1⟩]) := by
  constructor <;> decide +kernel

end GoluaVerif.Props.C15
