/-
  Props.C15 — property theorems for C15 (Lua patterns).

  Spec  = GoluaVerif.Spec.LuaPattern   (the manual's semantics, recursive search in the shape of lstrlib.c)
  Model = GoluaVerif.Model.ByteSet / PatBuild / PatMatch / Gsub  (mirrors of lib/stringlib/pattern/*.go, matching.go)
  Generated.ByteSetTable = the named byte sets, regenerated from byteset.go on every run.

  (The theorems about the regenerated table of named sets are in Props/C15_Table.lean.)
  Lemmas live in GoluaVerif/Proofs/{ByteSet,ByteSetTable,Gsub,PatMatchBasic,PatRefine,PatRefineTop,PatMono,PatBudget,
  PatBuild,PatBuildRefine,PatRefineSpec,ParseWF,LuaFind,GmatchRefine,GsubRefine,GsubRefineTop}.lean.
-/
import GoluaVerif.Proofs.Gsub
import GoluaVerif.Proofs.PatMono
import GoluaVerif.Proofs.ParseWF
import GoluaVerif.Proofs.LuaFind
import GoluaVerif.Proofs.GsubRefineTop
import GoluaVerif.Proofs.PatBudget
import GoluaVerif.Proofs.PatBuildReject
namespace GoluaVerif.Props.C15
open GoluaVerif GoluaVerif.Spec GoluaVerif.Model GoluaVerif.Model.PatMatch

deriving instance DecidableEq for Except

/-! ## byte sets (`[4]uint64`) -/

/-- `complement` is set complement -/
theorem byteset_complement (s : ByteSet) (b : UInt8) : s.complement.contains b = !s.contains b :=
  ByteSet.contains_complement s b

/-- `merge` is union -/
theorem byteset_union (s t : ByteSet) (b : UInt8) : (s.merge t).contains b = (s.contains b || t.contains b) :=
  ByteSet.contains_merge s t b

/-- `add` is insertion -/
theorem byteset_add (s : ByteSet) (b c : UInt8) : (s.add b).contains c = (s.contains c || c == b) :=
  ByteSet.contains_add s b c

/-- `byteRange a b` is the manual's closed interval for ALL `a b` — in particular empty for a descending range -/
theorem byteset_range (a b c : UInt8) :
    (ByteSet.byteRange a b).contains c = (decide (a ≤ c) && decide (c ≤ b)) :=
  ByteSet.contains_byteRange a b c

/-- `byteRange` agrees with the Spec's range element on every byte -/
theorem byteset_range_spec (a b c : UInt8) :
    (ByteSet.byteRange a b).contains c = (LuaPattern.SetElem.range a b).matches c :=
  ByteSet.contains_byteRange a b c

/-- regression (was `byteset_range_descending_counterexample`): `[z-a]` does not contain `a` -/
example : (ByteSet.byteRange 122 97).contains 97 = false := by
  rw [ByteSet.contains_byteRange]; decide

/-! ## the builder -/

/-- BUILD TOTAL.  For EVERY pattern string, `pattern.New` (mirror: `PatBuild.build`) returns items or one of the
    builder's own error values: never an index-out-of-range (`goPanic`), never an exhausted loop bound (`fuel`). -/
theorem build_total (ptn : Array UInt8) (e : BErr) (h : PatBuild.build ptn = .error e) : PatBuild.benign e = true :=
  PatBuild.build_total ptn e h

example : PatBuild.build #[37] = .error .malformed := by decide +kernel

/-- BUILD ⊑ PARSE.  Whenever the Spec's parser accepts a pattern string (of at most `maxPatternSize` = 10000 bytes),
    the builder accepts it too and emits, item for item, the
    machine item corresponding (`ItemRel`: same kind, same quantifier, byte set = character class on all 256 bytes,
    same capture index / `%b` delimiters) to each parsed item, with the same anchors and capture count. -/
theorem build_refines_parse (ptn : Array UInt8) (pat : LuaPattern.Pat) (hparse : LuaPattern.parse ptn.toList = .ok pat)
    (hsize : ptn.size ≤ Generated.ByteSetTable.maxPatternSize) :
    ∃ P, PatBuild.build ptn = .ok P ∧ RelL pat.items P.items.toList ∧ P.captureCount = pat.ncap ∧
      P.startAnchor = pat.anchorStart ∧ P.endAnchor = pat.anchorEnd ∧ pat.ncap ≤ 9 :=
  PatBuild.build_refines_parse ptn pat hparse hsize

/-- BUILD REJECTS MALFORMED.  Every pattern string the Spec's parser rejects as malformed — pattern ends after `%`,
    missing `]`, unclosed `(` , `)` without `(`, more than 9 captures, `%b` without its two characters, `%f` not followed
    by `[`, `%0`, `%n` to a capture that does not exist or is still open — makes `pattern.New` return an error, whatever
    its length.  With `build_total` the error is one of the builder's own error values (a Lua error, not a panic); with
    `build_refines_parse` the builder's accept/reject decision is the Spec's on everything the manual gives a meaning
    to (strings the Spec calls `unspecified`, e.g. `%z` or `[a-%d]`, are outside both theorems). -/
theorem build_rejects_malformed (ptn : Array UInt8) (hparse : LuaPattern.parse ptn.toList = .error .malformed) :
    ∃ e, PatBuild.build ptn = .error e :=
  PatBuild.build_rejects_malformed ptn hparse

/-- the hypothesis is satisfiable; regression for the repaired defect (was `build_rejects_malformed_counterexample`):
    `%fa` (`%f` not followed by `[`) is rejected by both -/
example : LuaPattern.parse [37, 102, 97] = .error .malformed ∧ PatBuild.build #[37, 102, 97] = .error .malformed := by
  constructor <;> decide +kernel

/-- what the Spec's parser guarantees about captures: indices 1..9, opened once, closed only when open, `%n` only to a
    closed capture or a position capture, all closed at the end -/
theorem parse_captures_wf (p : List UInt8) (pat : LuaPattern.Pat) (hparse : LuaPattern.parse p = .ok pat) :
    CapturesWF pat :=
  parse_wf p pat hparse

/-! ## the matcher -/

/-- MACHINE ⊑ SPEC (`machine_refines_spec`), on pattern STRINGS, for all patterns, subjects and start positions.
    If the Spec parses `p` (i.e. `p` is in the manual's grammar and not one of the forms the manual leaves open) and `p`
    has at most 10000 bytes (golua's `maxPatternSize`), then: the builder accepts `p`, and `MatchFromStart` on the built
    pattern (unlimited budget) returns exactly the Spec's result — the leftmost match found by the recursive search
    with greedy/lazy/optional priorities, with all captures, position captures and the whole-match bounds — for every
    machine fuel above some bound (termination), raising no index panic.  This includes descending ranges (empty) and
    back-references to position captures (never match). -/
theorem machine_refines_spec (p : Array UInt8) (s : Subject) (init : Nat) (hinit : init ≤ s.size)
    (pat : LuaPattern.Pat) (hparse : LuaPattern.parse p.toList = .ok pat)
    (hsize : p.size ≤ Generated.ByteSetTable.maxPatternSize) :
    ∃ P, PatBuild.build p = .ok P ∧ ∃ N, ∀ fuel, N ≤ fuel →
      (matchFromStart P s fuel init 0).captures = (LuaPattern.findParsed pat s init).map toCaptures ∧
      (matchFromStart P s fuel init 0).escapedPanic = none ∧
      (matchFromStart P s fuel init 0).outOfFuel = false :=
  machine_refines_spec_str p s init hinit pat hparse (parse_wf p.toList pat hparse) hsize

/-- the hypotheses are satisfiable, e.g. by `[z-a]()%1` (a descending range and a back-reference to a position capture) -/
example : LuaPattern.parse (#[91, 122, 45, 97, 93, 40, 41, 37, 49] : Array UInt8).toList =
    .ok ⟨false, false, [.char (.set false [.range 122 97]) .one, .pos 1, .backref 1], 1⟩ := by decide +kernel

/-- `string.find(s, p, init)` (pattern mode) at the LUA level: the mirror of matching.go's `find` returns exactly the
    values the Spec prescribes — indices, captured strings, positions — for every subject and EVERY `init` (negative,
    0, beyond the end), for every non-empty `p` the Spec parses (the empty pattern takes golua's plain-search path,
    see `find_plain_offset_example`) -/
theorem lua_find_refines_spec (p : Array UInt8) (s : Subject) (init : Int) (pat : LuaPattern.Pat)
    (hparse : LuaPattern.parse p.toList = .ok pat)
    (hsize : p.size ≤ Generated.ByteSetTable.maxPatternSize) (hne : p.size ≠ 0) :
    ∃ vs, LuaPattern.strFind s p.toList init false = .vals vs ∧
      ∃ N, ∀ fuel, N ≤ fuel → Gsub.luaFind fuel s p init false = .vals vs :=
  luaFind_refines p s init pat hparse hsize hne

/-- `string.match(s, p, init)` at the LUA level, for EVERY `init` (beyond `#s + 1`: nil, never a slice out of range) -/
theorem lua_match_refines_spec (p : Array UInt8) (s : Subject) (init : Int) (pat : LuaPattern.Pat)
    (hparse : LuaPattern.parse p.toList = .ok pat)
    (hsize : p.size ≤ Generated.ByteSetTable.maxPatternSize) :
    ∃ vs, LuaPattern.strMatch s p.toList init = .vals vs ∧
      ∃ N, ∀ fuel, N ≤ fuel → Gsub.luaMatch fuel s p init = .vals vs :=
  luaMatch_refines p s init pat hparse hsize

/-- MATCH TOTAL (partial): for every pattern the Spec parses, whatever the machine fuel, `MatchFromStart` raises no
    index-out-of-range / slice-bounds panic.  Missing for the full statement: pattern strings that the builder accepts
    although the Spec does not parse them (forms the manual leaves open, such as `[%a-z]`); for those the tie is the
    correspondence only. -/
theorem match_total_partial (p : Array UInt8) (s : Subject) (init : Nat) (hinit : init ≤ s.size)
    (pat : LuaPattern.Pat) (hparse : LuaPattern.parse p.toList = .ok pat)
    (hsize : p.size ≤ Generated.ByteSetTable.maxPatternSize) :
    ∃ P, PatBuild.build p = .ok P ∧ ∀ fuel, (matchFromStart P s fuel init 0).escapedPanic = none :=
  match_total_str p s init hinit pat hparse (parse_wf p.toList pat hparse) hsize

/-- MACHINE ⊑ SPEC (items level, all item kinds).  For a built `Pattern` `P` whose items correspond to the parsed
    items of `pat` (`PatRel`: single-character items with `* + - ?`, `%b`, `%f`, captures, position captures,
    back-references to closed captures, anchors), every subject and every start position: `MatchFromStart` with an
    unlimited budget returns exactly the Spec's leftmost match with the Spec's captures, no index panic is
    recovered, for every machine fuel above some bound (i.e. the machine terminates). -/
theorem machine_refines_spec_items (P : Pattern) (s : Subject) (pat : LuaPattern.Pat) (hp : PatRel P pat)
    (init : Nat) (hinit : init ≤ s.size) :
    ∃ N, ∀ fuel, N ≤ fuel →
      (matchFromStart P s fuel init 0).captures = (LuaPattern.findParsed pat s init).map toCaptures ∧
      (matchFromStart P s fuel init 0).escapedPanic = none ∧
      (matchFromStart P s fuel init 0).outOfFuel = false :=
  matchFromStart_refines P s pat hp init hinit

/-- the same for `Match` (the search that ignores `^`, used by gmatch and gsub) against the unanchored scan -/
theorem machine_search_refines_spec_items (P : Pattern) (s : Subject) (pat : LuaPattern.Pat) (hp : PatRel P pat)
    (init : Nat) (hinit : init ≤ s.size) :
    ∃ N, ∀ fuel, N ≤ fuel →
      (matchGo P s fuel init 0).captures = (LuaPattern.scan pat s init (s.size - init)).map toCaptures ∧
      (matchGo P s fuel init 0).escapedPanic = none ∧
      (matchGo P s fuel init 0).outOfFuel = false :=
  matchGo_refines P s pat hp init hinit

/-- the pattern `a*(b)%1` as built and as parsed: the hypotheses `PatRel` are satisfiable -/
def exP : Pattern :=
  { items := #[⟨ByteSet.empty.add 97, .greedyRepeat⟩, ⟨PatBuild.wordsSet 1 0, .startCapture⟩,
               ⟨ByteSet.empty.add 98, .once⟩, ⟨PatBuild.wordsSet 1 0, .endCapture⟩, ⟨PatBuild.wordsSet 1 0, .capture⟩],
    captureCount := 1, startAnchor := false, endAnchor := false }
def exPat : LuaPattern.Pat :=
  { anchorStart := false, anchorEnd := false, ncap := 1,
    items := [.char (.lit 97) .star, .open 1, .char (.lit 98) .one, .close 1, .backref 1] }

example : PatRel exP exPat := by
  have hlit : ∀ x b : UInt8, (ByteSet.empty.add x).contains b = (LuaPattern.Cls.lit x).matches b := by
    intro x b
    rw [ByteSet.contains_add, ByteSet.contains_empty]
    simp only [LuaPattern.Cls.matches, Bool.false_or]
    by_cases hbx : b = x
    · subst hbx; simp
    · have : ¬ (x = b) := fun e => hbx e.symm
      rw [beq_eq_false_iff_ne.mpr hbx, beq_eq_false_iff_ne.mpr this]
  refine ⟨⟨by decide, ?_⟩, ?_, ?_, rfl, by decide, rfl, rfl⟩
  · exact .cons (.char _ .star _ (hlit 97)) (.cons (.open_ 1) (.cons (.char _ .one _ (hlit 98))
      (.cons (.close 1) (.cons (.backref 1) .nil))))
  · simp [exPat, WFfrom, Shapes.set]
  · intro n h1 h2
    have : n = 1 := by simp [exPat] at h2; omega
    subst this
    left; simp [exPat, shapeAfter, Shapes.set]

/-- NO GO PANIC, items level: under `PatRel`, whatever the machine fuel, `MatchFromStart` raises no
    index-out-of-range / slice-bounds panic -/
theorem match_total_items (P : Pattern) (s : Subject) (pat : LuaPattern.Pat) (hp : PatRel P pat)
    (init : Nat) (hinit : init ≤ s.size) (fuel : Nat) :
    (matchFromStart P s fuel init 0).escapedPanic = none :=
  matchFromStart_no_panic P s pat hp init hinit fuel

/-- regression (was `match_panics_counterexample`): `()%1` on the subject `a` — no match, no panic -/
example : ((PatBuild.build #[40, 41, 37, 49]).map fun P =>
      let r := matchFromStart P #[97] 100 0 0
      (r.captures, r.escapedPanic, r.outOfFuel)) = .ok (none, none, false) := by decide +kernel

/-! ## CPU budget -/

/-- BUDGET = WORK (`work_le_budget` at full strength, as an equality).  For every pattern, subject, start position,
    budget `B > 0` and fuel: when `MatchFromStart` returns normally, the amount it reports as used is EXACTLY
    `steps + bytes consumed + bytes compared by back-references` (`steps` = iterations of the `match()` loop and of
    the `matchToEnd` loop, i.e. every piece of work the matcher does), and it is below `B`; otherwise the budget
    sentinel was raised (reported as `B + 1`, which kills the context), an index panic was re-raised, or the model's
    fuel ran out. -/
theorem budget_charged (P : Pattern) (s : Subject) (fuel : Nat) (init : Int) (B : Nat) (hB : 0 < B) :
    let r := matchFromStart P s fuel init B
    (r.used = r.steps + r.consumed + r.compared ∧ r.used < B) ∨ (r.used = B + 1 ∧ r.captures = none) ∨
      r.escapedPanic.isSome ∨ r.outOfFuel = true :=
  matchFromStart_charged P s fuel init B hB

example : (0 : Nat) < 1000 := by decide

/-- WORK ≤ BUDGET: the number of matcher steps never exceeds what is charged -/
theorem work_le_budget (P : Pattern) (s : Subject) (fuel : Nat) (init : Int) (B : Nat) (hB : 0 < B) :
    let r := matchFromStart P s fuel init B
    r.steps ≤ r.used ∨ r.escapedPanic.isSome ∨ r.outOfFuel = true := by
  have h := matchFromStart_charged P s fuel init B hB
  simp only at h ⊢
  rcases h with h | h | h | h
  · left; omega
  · left
    -- after a budget panic the ghost counters of the result are 0
    unfold matchFromStart at h ⊢
    cases hr : findFromStart P s fuel (initM init B) with
    | ok v => rw [hr] at h; simp [recoverWrap] at h ⊢; omega
    | error e => cases e <;> simp [recoverWrap]
  · right; left; exact h
  · right; right; exact h

/-- regression (was `work_le_budget_counterexample`): `a?a?a?c` on `bbbb` under a budget of 1000 — the steps are now
    charged: `used = steps + consumed` -/
example : ((PatBuild.build #[97, 63, 97, 63, 97, 63, 99]).map fun P =>
      let r := matchFromStart P #[98, 98, 98, 98] 1000 0 1000
      (r.captures, decide (r.used = r.steps + r.consumed), decide (r.steps ≥ 20))) = .ok (none, true, true) := by
  decide +kernel

/-! ## gsub / gmatch stepping -/

/-- GSUB PROGRESS, for EVERY matcher that returns matches at or after the requested start, not reversed, inside the
    subject, anchored or not: the loop of `gsub` terminates within its fuel, never slices out of range, the positions
    it visits strictly increase, and the accepted matches are disjoint and ordered, an empty match is never accepted
    where the previous accepted match ended, and no two matches are accepted at the same position
    (`After later earlier := earlier.stop ≤ later.start ∧ (later empty ∨ earlier empty → earlier.stop < later.start)`). -/
theorem gsub_progress (s : Gsub.Subject) (matcher : Gsub.Matcher) (repl : List Capture → Gsub.ReplOut)
    (n : Option Nat) (anchored : Bool) (hm : Gsub.MatcherOK s.size matcher) :
    (∃ st', Gsub.gsubLoop s matcher repl n anchored (s.size + 3) {} = .done st' ∧
        st'.visited.Pairwise (· > ·) ∧ st'.accepted.Pairwise Gsub.After) ∨
    Gsub.gsubLoop s matcher repl n anchored (s.size + 3) {} = .replErr ∨
    (∃ w, Gsub.gsubLoop s matcher repl n anchored (s.size + 3) {} = .panic w ∧ ∃ caps, repl caps = .panic w) :=
  Gsub.gsubLoop_inv s matcher repl n anchored hm (s.size + 3) {} (Gsub.inv_init s.size) (by simp)

example : Gsub.MatcherOK 3 (fun si => if si ≤ 1 then some [⟨1, 2⟩] else none) := by
  intro si gc rest h
  by_cases h1 : si ≤ 1
  · simp [h1] at h; obtain ⟨rfl, _⟩ := h; simp; omega
  · simp [h1] at h

/-- GMATCH ⊑ SPEC.  `string.gmatch(s, p, init)` iterated to exhaustion, as mirrored from matching.go (search from `si`
    with `pat.Match`, `allowEmpty` flag), yields exactly the values of the Lua 5.4 iteration (anchored attempt at `src`,
    a match ending at `lastmatch` is rejected, otherwise advance one byte) — for every subject, every `init`, every
    pattern the Spec parses that does not start with `^` (for those the manual leaves gmatch open). -/
theorem gmatch_refines_spec (p : Array UInt8) (s : Subject) (init : Int) (pat : LuaPattern.Pat)
    (hparse : LuaPattern.parse p.toList = .ok pat) (hsize : p.size ≤ Generated.ByteSetTable.maxPatternSize)
    (hanch : pat.anchorStart = false) :
    ∃ vs, LuaPattern.strGmatch s p.toList init = .vals vs ∧
      ∃ N, ∀ fuel, N ≤ fuel → Gsub.luaGmatch fuel s p init = .vals vs :=
  luaGmatch_refines p s init pat hparse hsize hanch

/-- GSUB ⊑ SPEC (partial).  `string.gsub(s, p, repl)` with a string `repl` and no limit, unanchored pattern: the
    resulting STRING is exactly the Spec's (same matches, same expansions of `%0`–`%9`/`%%`, same copying of the
    unmatched parts), a replacement the Spec rejects (`%d` beyond the captures) is an error in golua too.
    PARTIAL: golua's COUNT is only shown to be ≥ the Spec's — it also counts the empty matches it rejects
    (`gsub_count_counterexample`; not repaired because golua's own test suite pins that count), and for the same
    reason nothing is stated for a limit `n`.  Where the manual leaves the replacement open (`%` + other) nothing is
    claimed. -/
theorem gsub_refines_spec_partial (p : Array UInt8) (s : Subject) (repl : List UInt8) (pat : LuaPattern.Pat)
    (hparse : LuaPattern.parse p.toList = .ok pat) (hsize : p.size ≤ Generated.ByteSetTable.maxPatternSize)
    (hanch : pat.anchorStart = false) :
    match LuaPattern.strGsub s p.toList repl none with
    | .vals [.str out, .int cnt] => ∃ N, ∀ fuel, N ≤ fuel → ∃ cnt' : Nat,
        Gsub.luaGsub fuel s p repl none = .vals [.str out, .int cnt'] ∧ cnt ≤ (cnt' : Int)
    | .error => ∃ N, ∀ fuel, N ≤ fuel → Gsub.luaGsub fuel s p repl none = .replError
    | _ => True :=
  luaGsub_refines p s repl pat hparse hsize hanch

/-- GSUB ⊑ SPEC for a pattern anchored with `^`: exactly the Spec's result, count included (one attempt at the start
    of the subject) -/
theorem gsub_anchored_refines_spec (p : Array UInt8) (s : Subject) (repl : List UInt8) (pat : LuaPattern.Pat)
    (hparse : LuaPattern.parse p.toList = .ok pat) (hsize : p.size ≤ Generated.ByteSetTable.maxPatternSize)
    (hanch : pat.anchorStart = true) :
    match LuaPattern.strGsub s p.toList repl none with
    | .vals vs => ∃ N, ∀ fuel, N ≤ fuel → Gsub.luaGsub fuel s p repl none = .vals vs
    | .error => ∃ N, ∀ fuel, N ≤ fuel → Gsub.luaGsub fuel s p repl none = .replError
    | .unspecified => True :=
  luaGsub_anchored_refines p s repl pat hparse hsize hanch

example : (LuaPattern.parse [94, 97]).map (·.anchorStart) = .ok true := by decide +kernel
example : (LuaPattern.parse [97, 42]).map (·.anchorStart) = .ok false := by decide +kernel

/-- `string.gsub("aa", "a*", "x")`: the manual says `x 1`; the mirror of golua says `x 2` (a rejected empty match is
    still counted, and consumes the limit `n`).  NOT repaired: golua's own test suite pins this count
    (lib/stringlib/lua/matching.lua: `string.gsub("abc", "b*", "Z")` → `ZaZcZ 4`). -/
theorem gsub_count_counterexample :
    LuaPattern.strGsub #[97, 97] [97, 42] [120] none = .vals [.str [120], .int 1] ∧
    Gsub.luaGsub 1000 #[97, 97] #[97, 42] [120] none = .vals [.str [120], .int 2] := by
  constructor <;> decide +kernel

/-- regressions of repaired defects: Spec and mirror agree on the former counterexamples -/
example :  -- `string.gsub("aa", "^a", "x")` = `xa 1`
    LuaPattern.strGsub #[97, 97] [94, 97] [120] none = .vals [.str [120, 97], .int 1] ∧
    Gsub.luaGsub 1000 #[97, 97] #[94, 97] [120] none = .vals [.str [120, 97], .int 1] := by
  constructor <;> decide +kernel

example :  -- `string.gsub("ab", "a", "")` = `b 1`
    LuaPattern.strGsub #[97, 98] [97] [] none = .vals [.str [98], .int 1] ∧
    Gsub.luaGsub 1000 #[97, 98] #[97] [] none = .vals [.str [98], .int 1] := by
  constructor <;> decide +kernel

example :  -- `string.match("a", "^", 3)` = nil
    LuaPattern.strMatch #[97] [94] 3 = .vals [.nil] ∧ Gsub.luaMatch 1000 #[97] #[94] 3 = .vals [.nil] := by
  constructor <;> decide +kernel

example :  -- `[z-a]` against `a`: no match
    LuaPattern.find [91, 122, 45, 97, 93] #[97] 0 = .noMatch ∧
    ((PatBuild.build #[91, 122, 45, 97, 93]).map fun P => (matchFromStart P #[97] 100 0 0).captures) = .ok none := by
  constructor <;> decide +kernel

/-- plain `string.find` with an offset (`string.find("abab", "b", 3, true)` = `4 4`): Spec and mirror agree -/
theorem find_plain_offset_example :
    LuaPattern.strFind #[97, 98, 97, 98] [98] 3 true = .vals [.int 4, .int 4] ∧
    Gsub.luaFind 1000 #[97, 98, 97, 98] #[98] 3 true = .vals [.int 4, .int 4] := by
  constructor <;> decide +kernel

end GoluaVerif.Props.C15
