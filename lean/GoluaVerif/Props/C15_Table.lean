/-
  Props.C15_Table — theorems about the constants REGENERATED from /repo/lib/stringlib/pattern/byteset.go on every
  run (Generated.ByteSetTable): a change of any named byte set changes the table and these stop elaborating.
-/
import GoluaVerif.Proofs.ByteSetTable
namespace GoluaVerif.Props.C15_Table
open GoluaVerif GoluaVerif.Spec GoluaVerif.Model

/-- the named sets `%a %c %d %g %l %p %s %u %w %x %z` and their complements, as regenerated from byteset.go,
    are exactly the manual's classes, and no other letter is a class -/
theorem named_sets_correct (l c : UInt8) :
    (ByteSet.named? l).map (·.contains c) = (LuaPattern.classFn? l).map (· c) :=
  ByteSet.named_sets_correct l c

/-- `.` matches every byte -/
theorem full_set_correct (c : UInt8) : ByteSet.fullSet.contains c = true := ByteSet.contains_fullSet c

end GoluaVerif.Props.C15_Table
