/-
  Props.C02_Bits — the shift operators: the mirror of runtime/bitwise.go (Model.NumOps) equals
  the manual's definition (Spec.Num.shl/shr) for every pair of int64 values: logical shifts, zero
  for |n| ≥ 64 including n = minint, negative counts shift the other way.
-/
import GoluaVerif.Model.NumOps
import GoluaVerif.Spec.Num
namespace GoluaVerif.Props.C02
open GoluaVerif GoluaVerif.Spec GoluaVerif.Model

theorem neg_toNat_of_neg (y : BitVec 64) (h : y.toInt < 0) :
    (-y).toNat = if y.toInt = -(2^63) then 2^63 else (-y.toInt).toNat := by
  have h1 := BitVec.toInt_eq_toNat_cond y
  have h2 := y.isLt
  rw [BitVec.toNat_neg]
  split at h1
  · omega
  · split <;> omega

theorem shl_spec (x y : I64) : NumOps.shl x y = Num.shl x y := by
  unfold NumOps.shl Num.shl I64.shrU I64.shlU
  rw [BitVec.slt_eq_decide]
  have hlt := @BitVec.toInt_lt 64 y
  have hle := @BitVec.le_toInt 64 y
  have h1 := BitVec.toInt_eq_toNat_cond y
  have h2 := y.isLt
  simp only [BitVec.toInt_zero, decide_eq_true_eq]
  by_cases hneg : y.toInt < 0
  · rw [if_pos hneg, neg_toNat_of_neg y hneg]
    by_cases hmin : y.toInt = -(2^63)
    · simp [hmin]
    · simp only [hmin, if_false]
      by_cases hk : y.toInt ≤ -64
      · have : ¬ ((-y.toInt).toNat < 64) := by omega
        simp [this, hk]
      · have : (-y.toInt).toNat < 64 := by omega
        have h3 : ¬ (y.toInt ≤ -64 ∨ 64 ≤ y.toInt) := by omega
        have h4 : ¬ (0 ≤ y.toInt) := by omega
        simp [this, h3, h4]
  · rw [if_neg hneg]
    have hnat : y.toNat = y.toInt.toNat := by split at h1 <;> omega
    by_cases hk : 64 ≤ y.toInt
    · have : ¬ (y.toNat < 64) := by omega
      simp [this, hk]
    · have : y.toNat < 64 := by omega
      have h3 : ¬ (y.toInt ≤ -64 ∨ 64 ≤ y.toInt) := by omega
      have h4 : 0 ≤ y.toInt := by omega
      rw [hnat] at this ⊢
      simp only [this, if_true, if_neg h3, if_pos h4]

theorem shr_spec (x y : I64) : NumOps.shr x y = Num.shr x y := by
  unfold NumOps.shr Num.shr I64.shrU I64.shlU
  rw [BitVec.slt_eq_decide]
  have hlt := @BitVec.toInt_lt 64 y
  have hle := @BitVec.le_toInt 64 y
  have h1 := BitVec.toInt_eq_toNat_cond y
  have h2 := y.isLt
  simp only [BitVec.toInt_zero, decide_eq_true_eq]
  by_cases hneg : y.toInt < 0
  · rw [if_pos hneg, neg_toNat_of_neg y hneg]
    by_cases hmin : y.toInt = -(2^63)
    · simp [hmin]
    · simp only [hmin, if_false]
      by_cases hk : y.toInt ≤ -64
      · have : ¬ ((-y.toInt).toNat < 64) := by omega
        simp [this, hk]
      · have : (-y.toInt).toNat < 64 := by omega
        have h3 : ¬ (y.toInt ≤ -64 ∨ 64 ≤ y.toInt) := by omega
        have h4 : ¬ (0 ≤ y.toInt) := by omega
        simp [this, h3, h4]
  · rw [if_neg hneg]
    have hnat : y.toNat = y.toInt.toNat := by split at h1 <;> omega
    by_cases hk : 64 ≤ y.toInt
    · have : ¬ (y.toNat < 64) := by omega
      simp [this, hk]
    · have : y.toNat < 64 := by omega
      have h3 : ¬ (y.toInt ≤ -64 ∨ 64 ≤ y.toInt) := by omega
      have h4 : 0 ≤ y.toInt := by omega
      rw [hnat] at this ⊢
      simp only [this, if_true, if_neg h3, if_pos h4]

/-- shifting right by n is shifting left by −n, for every n including minint -/
theorem shr_eq_shl_neg (x n : I64) : Num.shr x n = Num.shl x (-n) := by
  unfold Num.shr Num.shl
  have hlt := @BitVec.toInt_lt 64 n
  have hle := @BitVec.le_toInt 64 n
  by_cases hmin : n.toInt = -(2^63)
  · have hn : (-n).toInt = -(2^63) := by
      have : n = I64.minInt := BitVec.eq_of_toInt_eq (by rw [hmin]; decide)
      subst this; decide
    simp only [hmin, hn]
    rw [if_pos (by omega), if_pos (by omega)]
  · have hn : (-n).toInt = -n.toInt := by
      rw [BitVec.toInt_neg]; apply Int.bmod_eq_of_le <;> omega
    simp only [hn]
    by_cases h1 : n.toInt ≤ -64 ∨ 64 ≤ n.toInt
    · have h2 : -n.toInt ≤ -64 ∨ 64 ≤ -n.toInt := by omega
      rw [if_pos h1, if_pos h2]
    · have h2 : ¬ (-n.toInt ≤ -64 ∨ 64 ≤ -n.toInt) := by omega
      rw [if_neg h1, if_neg h2]
      by_cases h3 : n.toInt = 0
      · simp [h3]
      · by_cases h4 : 0 ≤ n.toInt
        · have h5 : ¬ (0 ≤ -n.toInt) := by omega
          rw [if_pos h4, if_neg h5, Int.neg_neg]
        · have h5 : 0 ≤ -n.toInt := by omega
          rw [if_neg h4, if_pos h5]

example : Num.shl 1#64 63#64 = I64.minInt := by decide
example : Num.shl 1#64 64#64 = 0#64 := by decide
example : Num.shr (BitVec.ofInt 64 (-1)) 63#64 = 1#64 := by decide
example : NumOps.shl (BitVec.ofInt 64 (-1)) I64.minInt = 0#64 := by decide

end GoluaVerif.Props.C02
