/-
  Props.C12 — property theorems for C12 (front end): operator precedence / associativity of
  the expression parser, and the denotation of string literals.

  * `Spec.Grammar.render` is the manual's precedence table as a printer (minimal parentheses +
    arbitrary redundant ones); `Model.ParseExp.parse` mirrors parser.go Exp/ShortExp.
  * `Spec.Literal.escape` / `wrapLong` spell byte strings; `Model.Literal.decodeShort` /
    `decodeLong` are llex.c's reading of them.
  The tie to /repo is the correspondence run by checks/c12.py (golua's AST / decoded values against
  these very definitions through lean/Oracle/C12.lean).
-/
import GoluaVerif.Proofs.ParseExp
import GoluaVerif.Proofs.Literal
import GoluaVerif.Model.FrontNames
import GoluaVerif.Generated.FrontTables
namespace GoluaVerif.Props.C12
open GoluaVerif.Spec.Grammar GoluaVerif.Model.ParseExp GoluaVerif.Model.Literal GoluaVerif.Spec.Literal
open GoluaVerif.Spec.Numeral (Bytes)

/-! ## precedence and associativity -/

/-- Parsing inverts printing, for EVERY expression tree over the 21 binary and 4 unary operators
    and EVERY choice of redundant parentheses: the stack algorithm of `Parser.Exp` (as mirrored
    by the model) gives each operator exactly the operands the manual's precedence table gives
    it — left associativity, right-associative `..` and `^`, unary operators binding tighter than
    every binary operator except `^`. -/
theorem parse_render (e : Exp) (ps : Parens) : parse (render e ps) = some e :=
  Proofs.ParseExp.parse_render e ps

/-- the printer really is minimal where the table says no parentheses are needed, e.g.
    `a - b - c`, `a .. b .. c`, `a ^ b ^ c`, `-a ^ b`, `a + b * c`, `2 ^ - 3`: together with
    `parse_render` these are statements about how plain token sequences parse -/
theorem render_left_assoc (o : BinOp) (h : o ≠ .concat ∧ o ≠ .pow) (a b c : Nat) :
    render (.bin o (.bin o (.atom a) (.atom b)) (.atom c)) noParens
      = [.atom a, .sym o.sym, .atom b, .sym o.sym, .atom c] := by
  cases o <;> simp at h <;> rfl

theorem render_right_assoc (o : BinOp) (h : o = .concat ∨ o = .pow) (a b c : Nat) :
    render (.bin o (.atom a) (.bin o (.atom b) (.atom c))) noParens
      = [.atom a, .sym o.sym, .atom b, .sym o.sym, .atom c] := by
  rcases h with rfl | rfl <;> rfl

/-- a tighter operator on either side needs no parentheses, a looser one does -/
theorem render_precedence (o1 o2 : BinOp) (h : o1.prec < o2.prec) (a b c : Nat) :
    render (.bin o1 (.atom a) (.bin o2 (.atom b) (.atom c))) noParens
      = [.atom a, .sym o1.sym, .atom b, .sym o2.sym, .atom c] ∧
    render (.bin o2 (.atom a) (.bin o1 (.atom b) (.atom c))) noParens
      = [.atom a, .sym o2.sym, .lp, .atom b, .sym o1.sym, .atom c, .rp] := by
  cases o1 <;> cases o2 <;> simp [BinOp.prec] at h <;> exact ⟨rfl, rfl⟩

/-- unary operators bind tighter than binary ones except `^` -/
theorem render_unary (u : UnOp) (o : BinOp) (a b : Nat) :
    render (.bin o (.un u (.atom a)) (.atom b)) noParens
      = (if o = .pow then [.lp, .sym u.sym, .atom a, .rp, .sym o.sym, .atom b]
         else [.sym u.sym, .atom a, .sym o.sym, .atom b]) ∧
    render (.un u (.bin o (.atom a) (.atom b))) noParens
      = (if o = .pow then [.sym u.sym, .atom a, .sym o.sym, .atom b]
         else [.sym u.sym, .lp, .atom a, .sym o.sym, .atom b, .rp]) := by
  cases o <;> exact ⟨rfl, rfl⟩

/-- `-a ^ b` is `-(a ^ b)`; `a ^ -b ^ c` is `a ^ (-(b ^ c))`; `a - b - c .. d .. e` … -/
example : parse [.sym .minus, .atom 0, .sym .hat, .atom 1] = some (.un .neg (.bin .pow (.atom 0) (.atom 1))) :=
  parse_render (.un .neg (.bin .pow (.atom 0) (.atom 1))) noParens
example : parse [.atom 0, .sym .hat, .sym .minus, .atom 1, .sym .hat, .atom 2]
    = some (.bin .pow (.atom 0) (.un .neg (.bin .pow (.atom 1) (.atom 2)))) :=
  parse_render (.bin .pow (.atom 0) (.un .neg (.bin .pow (.atom 1) (.atom 2)))) noParens
example : parse [.atom 0, .sym .concat, .atom 1, .sym .plus, .atom 2, .sym .concat, .atom 3]
    = some (.bin .concat (.atom 0) (.bin .concat (.bin .add (.atom 1) (.atom 2)) (.atom 3))) :=
  parse_render (.bin .concat (.atom 0) (.bin .concat (.bin .add (.atom 1) (.atom 2)) (.atom 3))) noParens

/-- the model never indexes an empty stack and never runs out of fuel on a rendering: `parse` is a
    total function (every Lean function is), `reduce`/`finish` recurse on the stack itself, and on
    renderings the answer is `some _` (`parse_render`); on arbitrary token lists it is a value too -/
theorem parse_total (ts : List Token) : parse ts = none ∨ ∃ e, parse ts = some e := by
  cases parse ts with
  | none => exact Or.inl rfl
  | some e => exact Or.inr ⟨e, rfl⟩

/-- REGENERATED TIE: the operator tables the model and the printer use — `BinOp.prec` (the manual's
    table), `binop?` (which token is which binary operator), `unop?` — are exactly ops/ops.go's
    `Precedence()`, parser.go's `binopMap` / `unopMap` as extracted from /repo on this run, and
    `Type.IsBinOp()` holds exactly for the keys of `binopMap`. -/
theorem tables_agree_with_repo :
    Model.FrontNames.tablesAgree Generated.FrontTables.opPrec Generated.FrontTables.binopMap
      Generated.FrontTables.unopMap Generated.FrontTables.isBinOpTokens = true := by
  decide +kernel

/-! ## error position: the first token that no expression continues with

`Spec.Grammar.firstBad` runs the viable-prefix automaton of the expression grammar.  The
correspondence feeds corrupted renderings (one token per line) to golua and requires the reported
line to be the line of token `firstBad`. -/

/-- the automaton accepts every rendering … -/
theorem firstBad_render (e : Exp) (ps : Parens) : firstBad (render e ps) = none :=
  Proofs.ParseExp.firstBad_render e ps

/-- … any prefix it has not rejected can be completed to an accepted sequence … -/
theorem accepted_prefix_viable (p : List Token) (st : PState) (h : scan .start p 0 = .ok st) :
    firstBad (p ++ Proofs.ParseExp.completion st) = none :=
  Proofs.ParseExp.accepted_prefix_viable p st h

/-- … and once it rejects token `i`, no continuation whatsoever repairs that: `i` is the position a
    syntax error has to be reported at -/
theorem rejected_prefix_dead (p suffix : List Token) (i : Nat) (h : scan .start p 0 = .error i) :
    firstBad (p ++ suffix) = some i :=
  Proofs.ParseExp.rejected_prefix_dead p suffix i h

/-- the automaton's operator classes are the parser's tables (hence, by `tables_agree_with_repo`, golua's) -/
theorem operator_classes_agree (s : Sym) :
    s.isUnary = (unop? s).isSome ∧ s.isBinary = (binop? s).isSome := by
  cases s <;> exact ⟨rfl, rfl⟩

/-- PARTIAL: that the language of the automaton is exactly the set of renderings' token sequences, i.e.
    that `parse ts` succeeds iff `firstBad ts = none` for ARBITRARY `ts`, is not proved (it needs the
    parser's behaviour on non-renderings); one direction on renderings is `parse_render` + `firstBad_render`,
    the rest is the `badexp` correspondence (golua's error line vs `firstBad` on corrupted renderings). -/
theorem error_position_partial (e : Exp) (ps : Parens) :
    parse (render e ps) = some e ∧ firstBad (render e ps) = none :=
  ⟨parse_render e ps, firstBad_render e ps⟩

example : firstBad [.atom 0, .sym .plus, .rp, .atom 1] = some 2 := by decide
example : firstBad [.lp, .atom 0, .sym .plus, .atom 1] = some 4 := by decide

/-! ## multi-valued expressions (§3.4.12): what `explistCount` — the function the correspondence
    compares golua's value counts with — says -/

/-- every expression before the last contributes exactly one value, whatever it is -/
theorem explist_nonlast_one (x y : ListItem) (r : List ListItem) :
    explistCount (x :: y :: r) = 1 + explistCount (y :: r) := by
  cases x <;> rfl

/-- an unparenthesised call / `...` in LAST position delivers all its values … -/
theorem explist_last_expands (pre : List ListItem) (m : Nat) :
    explistCount (pre ++ [.multi m false]) = pre.length + m := by
  induction pre with
  | nil => simp [explistCount]
  | cons x t ih =>
    cases t with
    | nil => cases x <;> simp [explistCount]; all_goals omega
    | cons y t' =>
      rw [List.cons_append, List.cons_append, explist_nonlast_one, ← List.cons_append, ih]
      simp; omega

/-- … and a parenthesised one, like any single-valued expression, exactly one:
    `(f())`, `(...)` (golua before 1fa8626: `return (...)` returned every extra argument) -/
theorem explist_last_paren (pre : List ListItem) (m : Nat) :
    explistCount (pre ++ [.multi m true]) = pre.length + 1 ∧ explistCount (pre ++ [.single]) = pre.length + 1 := by
  induction pre with
  | nil => simp [explistCount]
  | cons x t ih =>
    cases t with
    | nil => cases x <;> simp [explistCount]
    | cons y t' =>
      simp only [List.cons_append] at ih ⊢
      rw [explist_nonlast_one, explist_nonlast_one, ih.1, ih.2]
      simp; omega

/-! ## string literals -/

/-- every byte string, spelled with ANY choice among the escape forms (raw, `\n`-style, `\ddd`,
    shortest `\d`, `\xHH` in either case, `\u{0…0XX}`, backslash-newline in its four spellings,
    each optionally after `\z` + white space) and either quote, decodes to itself -/
theorem decode_escape (q : UInt8) (hq : q = 34 ∨ q = 39) (bs : Bytes) (ch : Nat → Choice) :
    decodeShort (escape q bs ch) = some bs :=
  Proofs.Literal.decode_escape q hq bs ch

example : decodeShort (escape 34 [10, 34, 0, 255] (fun i => { form := if i = 0 then .nl .crlf else .decMin }))
    = some [10, 34, 0, 255] := by decide

/-- long brackets of any level: the contents up to the first closing bracket of that level, with
    a leading line break dropped and every line-break sequence turned into LF -/
theorem long_bracket (lvl : Nat) (s : Bytes) (h : noCloserBefore lvl s (closer lvl) = true) :
    decodeLong (wrapLong lvl s) = some (normaliseNL (dropFirstNL s)) :=
  Proofs.Literal.long_bracket lvl s h

/-- … in particular the EMPTY long string of every level is the empty string
    (golua: `[[]]` → index out of range) -/
theorem long_bracket_empty (lvl : Nat) : decodeLong (wrapLong lvl []) = some [] := by
  have := long_bracket lvl [] rfl
  simpa [normaliseNL, dropFirstNL] using this

/-- a body without `]` never closes early -/
theorem long_bracket_no_rbracket (lvl : Nat) (s : Bytes) (h : ∀ c ∈ s, c ≠ 93) :
    decodeLong (wrapLong lvl s) = some (normaliseNL (dropFirstNL s)) :=
  long_bracket lvl s (Proofs.Literal.noCloser_of_no_rbracket lvl s _ h)

example : decodeLong (wrapLong 2 [13, 10, 97, 13, 98, 10, 13, 93, 61, 93]) = some [97, 10, 98, 10, 93, 61, 93] := by
  decide

/-- decoding is total: malformed literals are `none`, never a crash -/
theorem decode_total (lit : Bytes) :
    (decodeShort lit = none ∨ ∃ v, decodeShort lit = some v) ∧ (decodeLong lit = none ∨ ∃ v, decodeLong lit = some v) := by
  constructor
  · cases decodeShort lit with
    | none => exact Or.inl rfl
    | some v => exact Or.inr ⟨v, rfl⟩
  · cases decodeLong lit with
    | none => exact Or.inl rfl
    | some v => exact Or.inr ⟨v, rfl⟩

end GoluaVerif.Props.C12
