/-
  Props.C03_Counterexamples — statements of C03 that are FALSE of the current code, each proved on
  a concrete reachable state of the model (the same witnesses are replayed on the implementation by
  the correspondence: corpus/C03/witnesses.txt), and non-vacuity examples for the hypotheses used in
  Props/C03.lean.
-/
import GoluaVerif.Props.C03
namespace GoluaVerif.Props.C03
open GoluaVerif GoluaVerif.Spec GoluaVerif.Model.Table

/-- any hash will do for the witnesses: they live in linear mode -/
def h0 : Key → Nat := fun _ => 0

/-- the float 4.0 -/
def f4 : F64 := .fin false (4 * F64.scale)

/-- a table holding `4 ↦ 7` in its hash part (what `t = {}; t[4] = 7` builds) -/
def tHash4 : Mixed := ⟨some ⟨[⟨some (.int 4), some 7, 0, false, false⟩], none, 0⟩, none⟩

/-- a table with array part `{1 ↦ 5}` (size 1) and an empty one-slot hash part -/
def tArr1 : Mixed := ⟨some ⟨[Slot.zero], some 0, 0⟩, some ⟨[some 5], 1⟩⟩

/-- array part `{1 ↦ 5}` and hash part `{0 ↦ 6}` -/
def tArr1Zero : Mixed := ⟨some ⟨[⟨some (.int 0), some 6, 0, false, false⟩], none, 0⟩, some ⟨[some 5], 1⟩⟩

/-- hash part with one slot, full: `{"a" ↦ 1}` -/
def tFull : Mixed := ⟨some ⟨[⟨some (.str [97]), some 1, 0, false, false⟩], none, 0⟩, none⟩

example : Inv h0 tHash4 := by decide
example : Inv h0 tArr1 := by decide
example : Inv h0 tArr1Zero := by decide
example : Inv h0 tFull := by decide

/-- the witnesses are reachable: `tHash4` is what `t[4] = 7` builds from the empty table -/
example : run h0 Mixed.init [.set (.int 4) (some 7)] = some tHash4 := by decide

/-- `Table.Reset(4.0, v)` does not find the key 4 of the hash part (the `ok` of `ToIntNoString` is
    overwritten by the `ok` of `array.resetValue`, so the key is not normalised) … -/
theorem reset_float_key_counterexample :
    (abs tHash4 (Key.norm (.flt f4))).isSome = true ∧ reset h0 tHash4 (.flt f4) 9 = some (tHash4, false) := by
  decide +kernel

/-- … hence `t[4.0] = v` consults `__newindex` although the raw key 4 is present -/
theorem newindex_float_key_counterexample :
    abs tHash4 (Key.norm (.flt f4)) = some 7 ∧
    Model.Index.setIndexStep h0 tHash4 (.flt f4) (some 9) = some .consult := by
  decide +kernel

/-- clearing the array-part field the traversal stands on makes `next` answer "invalid key":
    `array.len` shrinks below the cursor -/
theorem traversal_array_clear_counterexample :
    next h0 tArr1 none = some (.item (.int 1) 5) ∧
    (∃ t', remove h0 tArr1 (.int 1) = some (t', true) ∧ next h0 t' (some (.int 1)) = some .invalid) := by
  refine ⟨by decide, ⟨⟨some ⟨[Slot.zero], some 0, 0⟩, some ⟨[none], 0⟩⟩, by decide, by decide⟩⟩

/-- `next(t, 0)` restarts the traversal when the table has an array part: with the key 0 present a
    traversal without any update returns the key 1 twice (and never ends) -/
theorem traversal_zero_restarts_counterexample :
    next h0 tArr1Zero none = some (.item (.int 1) 5) ∧
    next h0 tArr1Zero (some (.int 1)) = some (.item (.int 0) 6) ∧
    next h0 tArr1Zero (some (.int 0)) = some (.item (.int 1) 5) := by
  decide

/-- `Table.Set` on an EXISTING key of a full hash part grows the table (`insert` tests `full()` before
    it looks for the key): positions are not kept, unlike `Table.Reset` (`reset_keeps_inv`) -/
theorem set_existing_rehashes_counterexample :
    ∃ t', insert h0 tFull (.str [97]) 2 = some t' ∧ ¬ SamePositions tFull t' := by
  refine ⟨⟨some ⟨[Slot.zero, ⟨some (.str [97]), some 2, 0, false, false⟩], some 0, 1⟩, none⟩, by decide, ?_⟩
  intro h
  have := h.2.1
  revert this
  decide

/-- non-vacuity of `Safe` and `Trav`: a complete traversal of `tHash4` -/
example : Trav h0 tHash4 none [tHash4, tHash4] [(.int 4, 7)] :=
  Trav.step tHash4 tHash4 none (.int 4) 7 [tHash4] [] (by intro key i h; cases h) (by decide)
    (Evolves.refl _)
    (Trav.done tHash4 (some (.int 4))
      (by intro key i h hi
          cases h
          simp only [toInt, Key.toInt?, Option.some.injEq] at hi
          subst hi
          exact ⟨by decide, fun hin => absurd hin (by simp [inArr, tHash4, arrSize])⟩)
      (by decide))

/-- non-vacuity of `NewKeyOK` / `insert_linear_mode`: inserting `"a"` into the empty one-slot table -/
example : InsertNewResult h0 ⟨[Slot.zero], some 0, 0⟩ 0 (.str [97]) 1 :=
  insert_linear_mode h0 ⟨[Slot.zero], some 0, 0⟩ 0 (.str [97]) 1 (by decide) (by decide)
    ⟨by decide, by decide, by intro z h; cases h⟩ (by decide)

end GoluaVerif.Props.C03
