/-
  Props.C13 — string.dump / load: the byte format of runtime/marshal.go (Model.Marshal, tied to the code by
  correspondence: Model.marshal of the exported prototype tree = the bytes string.dump returns, byte for byte).
-/
import GoluaVerif.Proofs.C13Marshal
import GoluaVerif.Proofs.C13Total
namespace GoluaVerif.Props.C13
open GoluaVerif GoluaVerif.Model.Marshal

/-- **load(string.dump(f)) reproduces the prototype**: for every well-formed constant tree (nested prototypes to any
    depth, constants of every kind, any opcode / line / upvalue-name vectors) the reader applied to the writer's
    output returns the tree itself and consumes exactly the bytes written.  `wf` only says that every length fits
    Go's allocator (≤ 2^48 bytes per vector). -/
theorem unmarshal_marshal (c : Const) (h : wf c) : unmarshal (marshal c) = .ok (c, []) := by
  have := unmarshal_marshal_append c [] h
  simpa using this

/-- …also when other bytes follow the dump -/
theorem unmarshal_marshal_append (c : Const) (post : Bytes) (h : wf c) :
    unmarshal (marshal c ++ post) = .ok (c, post) :=
  Model.Marshal.unmarshal_marshal_append c post h

/-- a dumped function prototype is accepted by `load` -/
theorem load_marshal (src name : Bytes) (ops lines : List (BitVec 32)) (ks : List Const) (uv rc cc : BitVec 16)
    (ups : List Bytes) (h : wf (.code src name ops lines ks uv rc cc ups)) :
    load (marshal (.code src name ops lines ks uv rc cc ups)) = .ok (.code src name ops lines ks uv rc cc ups) := by
  simp [load, unmarshal_marshal _ h]

/-- a non-trivial tree satisfying `wf`: a prototype with an integer, a float, a string with a NUL, and a nested
    prototype that has an upvalue name -/
def exTree : Const :=
  .code [61, 120] [102] [0x01020304#32, 0xffffffff#32] [1#32, 2#32]
    [.int (-1#64), .float 0x7ff8000000000001#64, .str [97, 0, 98],
     .code [61, 120] [] [7#32] [3#32] [.str []] 1#16 2#16 0#16 [[95, 69, 78, 86]]]
    1#16 3#16 1#16 [[95, 69, 78, 86]]

example : wf exTree := by
  simp [exTree, wf, wfs, okLen]

/-- the writer is injective on well-formed trees: two functions with the same dump have the same prototype
    (the writer is a function, so dumping is deterministic; this is the converse) -/
theorem marshal_deterministic (c1 c2 : Const) (h1 : wf c1) (h2 : wf c2) (h : marshal c1 = marshal c2) : c1 = c2 := by
  have e1 := unmarshal_marshal c1 h1
  have e2 := unmarshal_marshal c2 h2
  rw [h, e2] at e1
  injection e1 with e1
  injection e1 with e1 _
  exact e1.symm

/-- **dumping the reloaded function yields the same bytes again** -/
theorem marshal_unmarshal_image (c : Const) (h : wf c) :
    ∃ c', unmarshal (marshal c) = .ok (c', []) ∧ marshal c' = marshal c :=
  ⟨c, unmarshal_marshal c h, rfl⟩

/-- the reader accepts byte strings the writer never produces: a string cut short is padded with zeros
    (`readString` ignores the count returned by `Read`), so re-dumping gives different bytes.
    Witness replayed on the implementation (load of a dump with its last byte missing succeeds). -/
theorem unmarshal_noncanonical_counterexample :
    (match unmarshal [6, 0, 4, 4, 3, 0, 0, 0, 0, 0, 0, 0, 97] with
     | .ok (c, _) => marshal c
     | .error _ => []) = [6, 0, 4, 4, 3, 0, 0, 0, 0, 0, 0, 0, 97, 0, 0] := by decide

/-- **`UnmarshalConst` is total**: for ANY byte string the reader (every read of which is length-checked, every
    `make` of which is guarded: a Go panic is the value `recoveredPanic`) returns either a constant together with a
    strictly shorter unread rest, or one of the errors eof / badType / badPrefix / recoveredPanic / hugeAlloc.
    In particular the nesting fuel `2·|input|+2` that `unmarshal` supplies is never exhausted. -/
theorem unmarshal_total (bs : Bytes) :
    unmarshal bs ≠ .error .fuel ∧ ∀ c r, unmarshal bs = .ok (c, r) → r.length < bs.length :=
  ⟨unmarshal_nofuel bs, unmarshal_consumes bs⟩

/-- `make([]code.Opcode, sz)` is requested with `sz` read from the input before anything else is checked: a 31-byte
    chunk asks for 2^40 opcodes (4 TiB).  So "allocation requests are bounded by the input length" is FALSE of the
    current code.  Witness replayed on the implementation (it kills the process). -/
theorem unmarshal_alloc_unbounded_counterexample :
    firstCodeAlloc ([6, 0, 4, 5] ++ [2, 0, 0, 0, 0, 0, 0, 0, 61, 120] ++ [1, 0, 0, 0, 0, 0, 0, 0, 102] ++
      [0, 0, 0, 0, 0, 1, 0, 0]) = some (2 ^ 40) := by decide

end GoluaVerif.Props.C13
