/-
  Props.C13 — string.dump / load: the byte format of runtime/marshal.go (Model.Marshal, tied to the code by
  correspondence: Model.marshal of the exported prototype tree = the bytes string.dump returns, byte for byte).
-/
import GoluaVerif.Proofs.C13Marshal
import GoluaVerif.Proofs.C13Total
import GoluaVerif.Proofs.C13Canon
import GoluaVerif.Proofs.C13Refactor
namespace GoluaVerif.Props.C13
open GoluaVerif GoluaVerif.Model.Marshal

/-- **load(string.dump(f)) reproduces the prototype**: for every well-formed constant tree (nested prototypes to any
    depth, constants of every kind, any opcode / line / upvalue-name vectors) the reader applied to the writer's
    output returns the tree itself and consumes exactly the bytes written.  `wf` only says that every length is
    below 2^63 and that the upvalue / register / cell counts are not negative. -/
theorem unmarshal_marshal (c : Const) (h : wf c) : unmarshal (marshal c) = .ok (c, []) := by
  have := unmarshal_marshal_append c [] h
  simpa using this

/-- …also when other bytes follow the dump -/
theorem unmarshal_marshal_append (c : Const) (post : Bytes) (h : wf c) :
    unmarshal (marshal c ++ post) = .ok (c, post) :=
  Model.Marshal.unmarshal_marshal_append c post h

/-- a dumped function prototype is accepted by `load` -/
theorem load_marshal (src name : Bytes) (ops lines : List (BitVec 32)) (ks : List Const) (uv rc cc : BitVec 16)
    (ups : List Bytes) (h : wf (.code src name ops lines ks uv rc cc ups)) :
    load (marshal (.code src name ops lines ks uv rc cc ups)) = .ok (.code src name ops lines ks uv rc cc ups) := by
  simp [load, unmarshal_marshal _ h]

/-- a non-trivial tree satisfying `wf`: a prototype with an integer, a float, a string with a NUL, and a nested
    prototype that has an upvalue name -/
def exTree : Const :=
  .code [61, 120] [102] [0x01020304#32, 0xffffffff#32] [1#32, 2#32]
    [.int (-1#64), .float 0x7ff8000000000001#64, .str [97, 0, 98],
     .code [61, 120] [] [7#32] [3#32] [.str []] 1#16 2#16 0#16 [[95, 69, 78, 86]]]
    1#16 3#16 1#16 [[95, 69, 78, 86]]

example : wf exTree := by
  simp [exTree, wf, wfs, okLen]

/-- the writer is injective on well-formed trees: two functions with the same dump have the same prototype
    (the writer is a function, so dumping is deterministic; this is the converse) -/
theorem marshal_deterministic (c1 c2 : Const) (h1 : wf c1) (h2 : wf c2) (h : marshal c1 = marshal c2) : c1 = c2 := by
  have e1 := unmarshal_marshal c1 h1
  have e2 := unmarshal_marshal c2 h2
  rw [h, e2] at e1
  injection e1 with e1
  injection e1 with e1 _
  exact e1.symm

/-- **the reader accepts nothing but dumps**: whatever `unmarshal` accepts is byte for byte the writer's encoding of
    what it returns, followed by the unread rest (so dumping the reloaded function yields the same bytes again),
    and what it returns is well formed -/
theorem marshal_unmarshal_image (bs : Bytes) (c : Const) (r : Bytes) (h : unmarshal bs = .ok (c, r)) :
    marshal c ++ r = bs ∧ wf c := by
  obtain ⟨e1, e2⟩ := unmarshal_canonical bs c r h
  exact ⟨e1.symm, e2⟩

/-- **every allocation request is bounded by the input**: a count read from a dump is handed to `make` only after
    `checkCount` (`getSize` here, the only source of the counts used by `getWords`, `getConsts`, `getStrs` and of the
    length used by `getStr`), and then `count × (bytes each item takes on the wire) ≤ bytes left` -/
theorem unmarshal_alloc_bounded (item : Nat) (bs : Bytes) (n : Nat) (r : Bytes)
    (h : getSize item bs = .ok (n, r)) : n * item ≤ r.length ∧ r.length ≤ bs.length := by
  obtain ⟨_, _, h3⟩ := getSize_inv h
  refine ⟨?_, getSize_len h⟩
  cases item with
  | zero => simp
  | succ k => exact (Nat.le_div_iff_mul_le (by omega)).mp h3

/-- regression (was a defect): the 31-byte chunk that announced 2^40 opcodes is refused -/
example : ∃ e, load ([6, 0, 4, 5] ++ [2, 0, 0, 0, 0, 0, 0, 0, 61, 120] ++ [1, 0, 0, 0, 0, 0, 0, 0, 102] ++
    [0, 0, 0, 0, 0, 1, 0, 0]) = .error e := ⟨.eof, by rfl⟩

/-- **a truncated dump is rejected**: every strict prefix of a dump is an error -/
theorem unmarshal_rejects_truncated (c : Const) (h : wf c) (k : Nat) (hk : k < (marshal c).length) :
    ∃ e, unmarshal ((marshal c).take k) = .error e := by
  cases hu : unmarshal ((marshal c).take k) with
  | error e => exact ⟨e, rfl⟩
  | ok p =>
    obtain ⟨c', r'⟩ := p
    obtain ⟨e1, e2⟩ := unmarshal_canonical _ _ _ hu
    have hsplit : marshal c = marshal c' ++ (r' ++ (marshal c).drop k) := by
      rw [← List.append_assoc, ← e1, List.take_append_drop]
    have h1 := unmarshal_marshal c h
    rw [hsplit, unmarshal_marshal_append c' _ e2] at h1
    injection h1 with h1
    injection h1 with _ h1
    have hd : (marshal c).drop k = [] := by
      cases hr : r' with
      | nil => rw [hr] at h1; simpa using h1
      | cons a t => rw [hr] at h1; simp at h1
    have : (marshal c).length ≤ k := by
      have := congrArg List.length hd
      simp at this
      omega
    omega

/-- regression (was a defect): a string cut short is an error, not a zero-padded string -/
example : unmarshal [6, 0, 4, 4, 3, 0, 0, 0, 0, 0, 0, 0, 97] = .error .eof := by rfl

/-- **`UnmarshalConst` is total**: for ANY byte string the reader returns either a constant together with a
    strictly shorter unread rest, or one of the errors eof / badType / badPrefix / badSize.
    In particular the nesting fuel `2·|input|+2` that `unmarshal` supplies is never exhausted. -/
theorem unmarshal_total (bs : Bytes) :
    unmarshal bs ≠ .error .fuel ∧ ∀ c r, unmarshal bs = .ok (c, r) → r.length < bs.length :=
  ⟨unmarshal_nofuel bs, unmarshal_consumes bs⟩

/-! ## RefactorCodeConsts (what string.dump does to a function before marshalling it) -/

open GoluaVerif.Model.Refactor GoluaVerif.Generated.Opcode in
/-- **refactoring preserves what every opcode loads**: `RefactorCodeConsts` (Model.Refactor, over the REGENERATED
    `TypePfx`, `GetY`, `LoadsK`, `GetKIndex`, `SetKIndex` of code/opcodes.go) keeps the opcode vector position by
    position; an opcode that does not load a constant is unchanged; an opcode that loads constant `n` of the chunk's
    shared vector keeps all its bits above the K-operand and its new K-operand designates, in the slimmed-down vector,
    the same constant — refactored recursively (`conv`) when it is a closure prototype.  For every prototype, every
    shared vector of any size (indices ≥ 256 included) and every nesting depth. -/
theorem refactor_preserves_consts (fuel : Nat) (unit : List UConst) (p : Proto) (c : Const)
    (h : refactor (fuel + 1) unit p = .ok c) :
    ∃ (ops' : List (BitVec 32)) (ks : List Const), c = .code p.source p.name ops' p.lines ks p.uv p.rc p.cc p.ups ∧ ops'.length = p.ops.length ∧
      ∀ (i : Nat) (op : BitVec 32), p.ops[i]? = some op →
        ∃ op', ops'[i]? = some op' ∧ OpOK (refactor fuel unit) unit ks op op' := by
  unfold refactor at h
  split at h
  · exact absurd h (by simp)
  · rename_i ops' ks hr
    injection h with h
    have hm : MapOK (refactor fuel unit) unit [] [] := by intro n m hnm; simp at hnm
    obtain ⟨_, hlen, hall⟩ := refactorOps_spec _ unit p.ops [] [] ops' ks hr hm
    exact ⟨ops', ks, h.symm, hlen, hall⟩

open GoluaVerif.Model.Refactor GoluaVerif.Generated.Opcode in
/-- a non-trivial instance: a prototype that loads constant 300 (a float) and constant 2 (an integer of the same
    value) of a 301-entry vector keeps both, as constants 0 and 1 -/
example :
    let unit : List UConst := (List.replicate 2 (.str [120])) ++ [.int 100000#64] ++ (List.replicate 297 (.str [121])) ++
      [.float 0x40f86a0000000000#64]
    let p : Proto := { source := [61], name := [], ops := [LoadConst ⟨0, 0⟩ 300, LoadConst ⟨0, 1⟩ 2], lines := [1, 1],
                       uv := 0, rc := 2, cc := 0, ups := [] }
    (match refactor 2 unit p with
     | .ok (.code _ _ ops _ ks _ _ _ _) => (ops.map Opcode.GetKIndex, ks.length)
     | _ => ([], 0)) = ([0#16, 1#16], 2) := by decide

end GoluaVerif.Props.C13
