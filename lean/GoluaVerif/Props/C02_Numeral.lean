/-
  Props.C02_Numeral — property theorems for the numeral part of C02: `tonumber(s)`, string→number
  coercion and numeric literals, stated over Spec.Numeral (lobject.c `luaO_str2num`, llex.c
  `read_numeral`).  golua's `runtime.StringToNumber` / `ast.NewNumber` are tied to these
  definitions by correspondence (oracle ops `tonumberS`, `strarithS`, `literal` in Oracle/C02.lean).
-/
import GoluaVerif.Spec.Num
import GoluaVerif.Proofs.Numeral
namespace GoluaVerif.Props.C02_Numeral
open GoluaVerif GoluaVerif.Spec

/-! ## Numerals (Spec.Numeral: `tonumber(s)`, string coercion, numeric literals)

These theorems are about the *specification* `Spec.Numeral.str2number / literal` (lobject.c
`luaO_str2num`, llex.c `read_numeral`); golua's `runtime.StringToNumber` and `ast.NewNumber` are tied
to it by correspondence (oracle ops `tonumberS`, `strarithS`, `literal`), which is where golua's
deviations (double sign, underscores, Unicode spaces, hex garbage, uint64 literals) show up. -/
section Numerals
open GoluaVerif.Spec.Numeral GoluaVerif.Proofs.Numeral

/-- acceptance and value are invariant under surrounding white space -/
theorem str2number_ws_invariant (ws1 s ws2 : Bytes)
    (h1 : ws1.all isSpace = true) (h2 : ws2.all isSpace = true) :
    str2number (ws1 ++ s ++ ws2) = str2number s := by
  unfold str2number
  rw [trim_surround ws1 s ws2 h1 h2]

example : str2number /- " \\t0x10\\n" -/ [32, 9, 48, 120, 49, 48, 10] = str2number /- "0x10" -/ [48, 120, 49, 48] := by decide

/-- every byte of an accepted string is white space, a hex digit or one of `x X p P . + -` -/
theorem str2number_alphabet (s : Bytes) (v : Num) (h : str2number s = some v) :
    ∀ c ∈ s, isSpace c = true ∨ allowed c = true :=
  Proofs.Numeral.str2number_alphabet h

example : str2number /- "-0X1.8p+1 " -/ [45, 48, 88, 49, 46, 56, 112, 43, 49, 32] = some (.flt (.fin true (3 * F64.scale))) := by decide +kernel

/-- no string containing an underscore is a number (golua: `tonumber("1_0.5") == 10.5`) -/
theorem str2number_rejects_underscore (s : Bytes) (h : 95 ∈ s) : str2number s = none := by
  cases hv : str2number s with
  | none => rfl
  | some v =>
    rcases Proofs.Numeral.str2number_alphabet hv 95 h with h | h <;> exact absurd h (by decide)

/-- no string containing `n` or `N` is a number: `inf`, `nan`, `infinity` are rejected -/
theorem str2number_rejects_inf_nan (s : Bytes) (h : 110 ∈ s ∨ 78 ∈ s) : str2number s = none := by
  cases hv : str2number s with
  | none => rfl
  | some v =>
    rcases h with h | h
    · rcases Proofs.Numeral.str2number_alphabet hv 110 h with h | h <;> exact absurd h (by decide)
    · rcases Proofs.Numeral.str2number_alphabet hv 78 h with h | h <;> exact absurd h (by decide)

example : str2number /- "inf" -/ [105, 110, 102] = none ∧ str2number /- "-NaN" -/ [45, 78, 97, 78] = none := by decide

/-- no string containing a byte ≥ 0x80 is a number: Unicode spaces (NBSP = C2 A0 …) are not trimmed -/
theorem str2number_rejects_non_ascii (s : Bytes) (c : UInt8) (hc : c ∈ s) (h : 128 ≤ c) :
    str2number s = none := by
  cases hv : str2number s with
  | none => rfl
  | some v =>
    have hcl : isSpace c = false ∧ allowed c = false := by
      have h' : 128 ≤ c.toNat := h
      have hlt := c.toNat_lt
      simp only [isSpace, allowed, isXDigit, isDigit, isHexLetter, isX, isP, Bool.or_eq_false_iff,
        Bool.and_eq_false_iff, beq_eq_false_iff_ne, decide_eq_false_iff_not, UInt8.le_iff_toNat_le,
        ne_eq, ← UInt8.toNat_inj]
      simp only [UInt8.toNat_ofNat]
      omega
    rcases Proofs.Numeral.str2number_alphabet hv c hc with h1 | h1
    · rw [hcl.1] at h1; cases h1
    · rw [hcl.2] at h1; cases h1

example : str2number [0xC2, 0xA0, 53] = none := by decide

/-- a numeral has at most one sign (golua: `tonumber("+-5") == -5`) -/
theorem str2number_rejects_double_sign (s r : Bytes) (a b : UInt8)
    (ha : a = 43 ∨ a = 45) (hb : b = 43 ∨ b = 45) (h : trim s = a :: b :: r) :
    str2number s = none := by
  unfold str2number
  rw [h]
  rcases ha with rfl | rfl <;> rcases hb with rfl | rfl <;>
    simp [str2numberCore, str2int, str2d, splitSign, hexBody, mantissa, fracPart, isDigit]

example : trim /- "\\t+-5 " -/ [9, 43, 45, 53, 32] = 43 :: 45 :: [53] := by decide
example : str2number /- "+-5" -/ [43, 45, 53] = none := by decide

/-- hexadecimal integers wrap modulo 2^64 (any number of digits) -/
theorem hex_wraps (x : UInt8) (h : Bytes) (hx : isX x = true) (hne : h ≠ []) (hd : h.all isXDigit = true) :
    str2numberCore (48 :: x :: h) = some (.int (BitVec.ofNat 64 (digitsVal 16 h))) ∧
    (BitVec.ofNat 64 (digitsVal 16 h)).toNat = digitsVal 16 h % 2 ^ 64 := by
  refine ⟨?_, BitVec.toNat_ofNat _ _⟩
  have hne' : h.isEmpty = false := by cases h <;> simp_all
  simp [str2numberCore, str2int, splitSign, hexBody, hx, hd, hne', applySign]

example : str2numberCore /- "0xffffffffffffffffff" -/ [48, 120, 102, 102, 102, 102, 102, 102, 102, 102, 102, 102, 102, 102, 102, 102, 102, 102, 102, 102] = some (.int (-1)) := by decide

/-- a decimal integer numeral that fits is that integer -/
theorem decimal_fits_is_int (ds : Bytes) (hne : ds ≠ []) (hd : ds.all isDigit = true)
    (hv : digitsVal 10 ds ≤ 2 ^ 63 - 1) :
    str2numberCore ds = some (.int (BitVec.ofNat 64 (digitsVal 10 ds))) := by
  have hne' : ds.isEmpty = false := by cases ds <;> simp_all
  obtain ⟨h1, h2⟩ := digits_shape ds hd
  simp [str2numberCore, str2int, h1, h2, hd, hne', applySign, hv]

/-- a decimal integer numeral that does not fit int64 is a FLOAT: the correctly rounded value of
    its digits (golua literal `9223372036854775808` is the integer mininteger) -/
theorem decimal_overflows_to_float (ds : Bytes) (hne : ds ≠ []) (hd : ds.all isDigit = true)
    (hv : 2 ^ 63 ≤ digitsVal 10 ds) :
    str2numberCore ds = some (.flt (decToF64 false (digitsVal 10 ds) ds.length 0)) := by
  have hne' : ds.isEmpty = false := by cases ds <;> simp_all
  obtain ⟨h1, h2⟩ := digits_shape ds hd
  have hv' : ¬ digitsVal 10 ds ≤ 2 ^ 63 - 1 := by omega
  have hm : mantissa isDigit ds = some (ds, [], []) := by
    simp [mantissa, takeWhile_all ds hd, dropWhile_all ds hd, fracPart, hne']
  simp [str2numberCore, str2int, str2d, h1, h2, hd, hne', hv', hm, exponent]

example : str2numberCore /- "9223372036854775808" -/ [57, 50, 50, 51, 51, 55, 50, 48, 51, 54, 56, 53, 52, 55, 55, 53, 56, 48, 56] = some (.flt (.fin false (2 ^ 63 * F64.scale))) := by
  decide +kernel

/-- a numeral with a point is never an integer -/
theorem point_means_float (s : Bytes) (v : Num) (hp : 46 ∈ s) (h : str2number s = some v) :
    ∃ f, v = .flt f := by
  unfold str2number str2numberCore at h
  have hp' : 46 ∈ trim s := mem_trim_of_not_space s hp (by decide)
  split at h
  · rename_i n hn
    exfalso
    unfold str2int at hn
    simp only at hn
    rcases splitSign_mem _ hp' with h46 | h46 | h46
    · cases h46
    · cases h46
    · split at hn
      · rename_i hb heq
        obtain ⟨x, hx, hr⟩ := hexBody_some heq
        split at hn
        · rename_i hall
          simp only [Bool.and_eq_true] at hall
          rw [hr] at h46
          rcases List.mem_cons.mp h46 with h0 | h46
          · cases h0
          · rcases List.mem_cons.mp h46 with h0 | h46
            · rw [← h0] at hx; revert hx; decide
            · have := List.all_eq_true.mp hall.2 46 h46; revert this; decide
        · cases hn
      · split at hn
        · rename_i hall
          simp only [Bool.and_eq_true] at hall
          have := List.all_eq_true.mp hall.2 46 h46; revert this; decide
        · cases hn
  · cases hd : str2d (trim s) with
    | none => simp [hd] at h
    | some f => simp [hd] at h; exact ⟨f, h.symm⟩

example : str2number /- "10." -/ [49, 48, 46] = some (.flt (.fin false (10 * F64.scale))) := by decide +kernel

/-- numeric LITERALS (llex.c read_numeral): a run of decimal digits is one token; it is the integer
    when it fits and otherwise a float — never a wrapped integer (golua: `9223372036854775808` is
    mininteger, `18446744073709551615` is -1) -/
theorem literal_decimal (ds : Bytes) (hne : ds ≠ []) (hd : ds.all isDigit = true) :
    literal ds = .value (if digitsVal 10 ds ≤ 2 ^ 63 - 1 then .int (BitVec.ofNat 64 (digitsVal 10 ds))
                         else .flt (decToF64 false (digitsVal 10 ds) ds.length 0)) := by
  have hcore : str2number ds = str2numberCore ds := by unfold str2number; rw [trim_digits ds hd]
  unfold literal lexNumeral
  rw [lexExtent_digits ds hne hd]
  simp only [Option.map_some, List.take_length, hcore]
  by_cases hv : digitsVal 10 ds ≤ 2 ^ 63 - 1
  · rw [decimal_fits_is_int ds hne hd hv]; simp [hv]
  · rw [decimal_overflows_to_float ds hne hd (by omega)]; simp [hv]

example : literal /- "9223372036854775808" -/ [57, 50, 50, 51, 51, 55, 50, 48, 51, 54, 56, 53, 52, 55, 55, 53, 56, 48, 56]
    = .value (.flt (.fin false (2 ^ 63 * F64.scale))) := by decide +kernel

end Numerals

end GoluaVerif.Props.C02_Numeral
