/-
  Props.C01 — theorems about the executable reference semantics `Spec.Lua` ("what the manual
  prescribes" as a function).  All statements are for ALL programs / contexts / stores / fuel and
  for every choice of the float-arithmetic parameters `fo`.

  Reading:  `Evals x s r s'`  =  started in store `s`, the computation `x` finishes (does not run
  out of fuel) with result `r` — `.ok v` or `.error e` — in store `s'`.
  `(evalN fo n).J`  =  judgement `J` of the evaluator with `n` levels of fuel.
-/
import GoluaVerif.Proofs.LuaEvals
namespace GoluaVerif.Props.C01
open GoluaVerif GoluaVerif.Spec GoluaVerif.Spec.Lua Lean.Order

/-! ### the semantics is a function: fuel monotonicity and determinism -/

/-- `eval_fuel_mono`: with more fuel every judgement is at least as defined and, where it was
    defined, unchanged (`Rec.Le` = pointwise "out of fuel, or equal" for all eleven judgements) -/
theorem eval_fuel_mono (fo : FloatOps) {n m : Nat} (h : n ≤ m) : Rec.Le (evalN fo n) (evalN fo m) :=
  Rec.le_of_rel (evalN_le fo h)

/-- the same for one judgement, in big-step form: a statement list that finishes with fuel `n`
    finishes with the same result and store with any fuel `m ≥ n` -/
theorem eval_fuel_mono_stmts (fo : FloatOps) {n m : Nat} (h : n ≤ m) (ctx : Ctx) (b : Block) (t) (base lo i : Nat)
    {s r s'} (hx : Evals ((evalN fo n).stmts ctx b t base lo i) s r s') :
    Evals ((evalN fo m).stmts ctx b t base lo i) s r s' :=
  hx.mono ((eval_fuel_mono fo h).stmts ctx b t base lo i)

theorem eval_fuel_mono_call (fo : FloatOps) {n m : Nat} (h : n ≤ m) (d : Dyn) (f : Val) (args : List Val)
    {s r s'} (hx : Evals ((evalN fo n).call d f args) s r s') : Evals ((evalN fo m).call d f args) s r s' :=
  hx.mono ((eval_fuel_mono fo h).call d f args)

/-- a whole run that does not run out of fuel is unchanged by more fuel -/
theorem run_fuel_mono (fo : FloatOps) {n m : Nat} (h : n ≤ m) (prog : Block) (input : List Val) :
    (((evalN fo n).stmts topCtx prog none 0 0 0).run.run (initStore input)).isSome →
    run fo m prog input = run fo n prog input := by
  intro hs
  cases hn : ((evalN fo n).stmts topCtx prog none 0 0 0).run.run (initStore input) with
  | none => simp [hn] at hs
  | some p =>
    obtain ⟨r, s'⟩ := p
    have hm : ((evalN fo m).stmts topCtx prog none 0 0 0).run.run (initStore input) = some (r, s') :=
      eval_fuel_mono_stmts fo h topCtx prog none 0 0 0 hn
    unfold run
    simp only [ExceptT.run, StateT.run] at hn hm
    simp only [ExceptT.run, hn, hm]

/-- determinism: any two amounts of fuel that both suffice give the same outcome -/
theorem run_deterministic (fo : FloatOps) (n m : Nat) (prog : Block) (input : List Val)
    (hn : (((evalN fo n).stmts topCtx prog none 0 0 0).run.run (initStore input)).isSome)
    (hm : (((evalN fo m).stmts topCtx prog none 0 0 0).run.run (initStore input)).isSome) :
    run fo n prog input = run fo m prog input := by
  rcases Nat.le_total n m with h | h
  · exact (run_fuel_mono fo h prog input hn).symm
  · exact run_fuel_mono fo h prog input hm

/-- nothing is ever lost: whatever a judgement does — finish normally, raise, be caught — the cells,
    tables and closures of the store it started in are all still there, the input is unchanged and
    the event trace has only been extended -/
theorem store_only_grows (fo : FloatOps) (n : Nat) : RecGrows (evalN fo n) := evalN_grows fo n

/-! ### multiple values: truncation and expansion -/

/-- `call_in_middle_truncated`: an expression that is not the last of an expression list contributes
    exactly one value — the first of its values, or nil when it has none -/
theorem call_in_middle_truncated (fo : FloatOps) (n : Nat) (ctx : Ctx) (e e' : Expr) (rest : List Expr)
    {s vs s1 ws s2}
    (h1 : Evals ((evalN fo n).exprM ctx e) s (.ok vs) s1)
    (h2 : Evals ((evalN fo n).exprs ctx (e' :: rest)) s1 (.ok ws) s2) :
    Evals ((evalN fo (n + 1)).exprs ctx (e :: e' :: rest)) s (.ok (vs.headD .nil :: ws)) s2 := by
  show Evals (stepExprs (evalN fo n) ctx (e :: e' :: rest)) s _ s2
  unfold stepExprs eval1
  exact evals_bind_ok (evals_bind_ok h1 (evals_pure _ _)) (evals_bind_ok h2 (evals_pure _ _))

/-- `vararg_expansion_last_only` (1): the last expression of a list contributes all its values -/
theorem last_expression_expanded (fo : FloatOps) (n : Nat) (ctx : Ctx) (e : Expr) :
    (evalN fo (n + 1)).exprs ctx [e] = (evalN fo n).exprM ctx e := rfl

/-- `vararg_expansion_last_only` (2): `...` denotes all the extra arguments of the enclosing function -/
theorem vararg_denotes_all (fo : FloatOps) (n : Nat) (ctx : Ctx) (s : Store) :
    Evals ((evalN fo (n + 1)).exprM ctx .vararg) s (.ok ctx.varargs) s :=
  evals_pure _ _

/-- `vararg_expansion_last_only` (3): so `f(..., x)` passes one value for `...`, `f(x, ...)` all of them -/
theorem vararg_expansion_last_only (fo : FloatOps) (n : Nat) (ctx : Ctx) (x : Expr) {s v s1}
    (hx : Evals ((evalN fo (n + 1)).exprM ctx x) s (.ok [v]) s1)
    (hx' : Evals ((evalN fo (n + 1)).exprM ctx x) s1 (.ok [v]) s1) :
    Evals ((evalN fo (n + 3)).exprs ctx [.vararg, x]) s (.ok [ctx.varargs.headD .nil, v]) s1 ∧
    Evals ((evalN fo (n + 3)).exprs ctx [x, .vararg]) s (.ok (v :: ctx.varargs)) s1 := by
  constructor
  · apply call_in_middle_truncated fo (n + 2) ctx .vararg x [] (vs := ctx.varargs) (s1 := s)
    · exact vararg_denotes_all fo (n + 1) ctx s
    · show Evals ((evalN fo (n + 1)).exprM ctx x) s _ s1
      exact hx
  · have := call_in_middle_truncated fo (n + 2) ctx x .vararg [] (vs := [v]) (s := s) (s1 := s1)
      (ws := ctx.varargs) (s2 := s1)
      (hx.mono ((eval_fuel_mono fo (Nat.le_succ _)).exprM ctx x))
      (by show Evals ((evalN fo (n + 1)).exprM ctx .vararg) s1 _ s1; exact vararg_denotes_all fo n ctx s1)
    exact this

/-- a parenthesised expression always yields exactly one value (§3.4.12) -/
theorem paren_yields_one_value (fo : FloatOps) (n : Nat) (ctx : Ctx) (e : Expr) {s vs s1}
    (h : Evals ((evalN fo n).exprM ctx e) s (.ok vs) s1) :
    Evals ((evalN fo (n + 1)).exprM ctx (.paren e)) s (.ok [vs.headD .nil]) s1 := by
  show Evals (stepExprM fo (evalN fo n) ctx (.paren e)) s _ s1
  unfold stepExprM eval1
  exact evals_bind_ok (evals_bind_ok h (evals_pure _ _)) (evals_pure _ _)

/-! ### method calls -/

/-- `method_call_passes_self`: `obj:name(args)` evaluates `obj` once, looks `name` up in it, and calls
    the result with the object itself as an extra first argument -/
theorem method_call_passes_self (fo : FloatOps) (n : Nat) (ctx : Ctx) (obj : Expr) (name : Bytes) (args : List Expr)
    {s ov s1 fv s2 as s3 r s4}
    (hobj : Evals ((evalN fo n).exprM ctx obj) s (.ok [ov]) s1)
    (hidx : Evals ((evalN fo n).index ctx.here ov (.str name)) s1 (.ok fv) s2)
    (hargs : Evals ((evalN fo n).exprs ctx args) s2 (.ok as) s3)
    (hcall : Evals ((evalN fo n).call ctx.here fv (ov :: as)) s3 r s4) :
    Evals ((evalN fo (n + 1)).exprM ctx (.method obj name args)) s r s4 := by
  show Evals (stepExprM fo (evalN fo n) ctx (.method obj name args)) s _ s4
  unfold stepExprM eval1
  exact evals_bind_ok (evals_bind_ok hobj (evals_pure _ _)) (evals_bind_ok hidx (evals_bind_ok hargs hcall))

/-! ### assignment -/

/-- `assignment_evaluates_before_assigning` (general form): an assignment statement first evaluates the
    sub-expressions of all its targets, then all right-hand sides, and only then assigns -/
theorem assignment_order (fo : FloatOps) (n : Nat) (ctx : Ctx) (line : Nat) (targets es : List Expr) :
    (evalN fo (n + 1)).stmt ctx (.assign line targets es) =
      (do
        let ctx' : Ctx := { ctx with line := line }
        let lvs ← targets.mapM (evalTarget (evalN fo n) ctx')
        let vs ← (evalN fo n).exprs ctx' es
        (lvs.zip (adjust lvs.length vs)).forM (assignTo (evalN fo n) ctx'.here)
        pure Sig.normal) := rfl

theorem evals_var (fo : FloatOps) (n : Nat) (ctx : Ctx) (x : String) (c : Nat) (s : Store) (hm : s.Main)
    (hx : lookupVar ctx.env x = some c) :
    Evals ((evalN fo (n + 1)).exprM ctx (.var x)) s (.ok [s.cells.getD c .nil]) s := by
  show Evals (stepExprM fo (evalN fo n) ctx (.var x)) s _ s
  unfold stepExprM
  simp only [hx]
  exact evals_bind_ok (evals_readCell c s hm) (evals_pure _ _)

/-- `assignment_evaluates_before_assigning` (the swap): for two different local variables,
    `x, y = y, x` exchanges their values — both reads happen before either write -/
theorem assignment_evaluates_before_assigning (fo : FloatOps) (n : Nat) (ctx : Ctx) (line : Nat) (x y : String)
    (cx cy : Nat) (s : Store) (hm : s.Main)
    (hx : lookupVar ctx.env x = some cx) (hy : lookupVar ctx.env y = some cy) :
    Evals ((evalN fo (n + 4)).stmt ctx (.assign line [.var x, .var y] [.var y, .var x])) s (.ok .normal)
      { s with cells := (s.cells.setIfInBounds cx (s.cells.getD cy .nil)).setIfInBounds cy (s.cells.getD cx .nil) } := by
  rw [assignment_order]
  let ctx' : Ctx := { ctx with line := line }
  have hx' : lookupVar ctx'.env x = some cx := hx
  have hy' : lookupVar ctx'.env y = some cy := hy
  -- targets
  have ht : Evals ([Expr.var x, Expr.var y].mapM (evalTarget (evalN fo (n + 3)) ctx')) s (.ok [LVal.cell cx, LVal.cell cy]) s := by
    simp only [List.mapM_cons, List.mapM_nil, evalTarget, hx', hy']
    exact evals_bind_ok (evals_pure _ _) (evals_bind_ok (evals_bind_ok (evals_pure _ _) (evals_bind_ok (evals_pure _ _) (evals_pure _ _))) (evals_pure _ _))
  -- right-hand sides: both reads, in the unchanged store
  have hv : Evals ((evalN fo (n + 3)).exprs ctx' [.var y, .var x]) s
      (.ok [s.cells.getD cy .nil, s.cells.getD cx .nil]) s := by
    have := call_in_middle_truncated fo (n + 2) ctx' (.var y) (.var x) [] (s := s) (s1 := s) (s2 := s)
      (evals_var fo (n + 1) ctx' y cy s hm hy') (by
        show Evals ((evalN fo (n + 1)).exprM ctx' (.var x)) s _ s
        exact evals_var fo n ctx' x cx s hm hx')
    exact this
  refine evals_bind_ok ht (evals_bind_ok hv ?_)
  -- the two writes
  show Evals (do ([(LVal.cell cx, s.cells.getD cy .nil), (LVal.cell cy, s.cells.getD cx .nil)].forM (assignTo (evalN fo (n + 3)) ctx'.here)); pure Sig.normal) s _ _
  refine evals_bind_ok (a := ()) ?_ (evals_pure _ _)
  show Evals (do assignTo (evalN fo (n + 3)) ctx'.here (LVal.cell cx, s.cells.getD cy .nil); (do assignTo (evalN fo (n + 3)) ctx'.here (LVal.cell cy, s.cells.getD cx .nil); pure PUnit.unit)) s _ _
  have w1 : Evals (assignTo (evalN fo (n + 3)) ctx'.here (LVal.cell cx, s.cells.getD cy .nil)) s (.ok ())
      { s with cells := s.cells.setIfInBounds cx (s.cells.getD cy .nil) } := evals_writeCell cx _ s hm
  have w2 : Evals (assignTo (evalN fo (n + 3)) ctx'.here (LVal.cell cy, s.cells.getD cx .nil))
      { s with cells := s.cells.setIfInBounds cx (s.cells.getD cy .nil) } (.ok ())
      { s with cells := (s.cells.setIfInBounds cx (s.cells.getD cy .nil)).setIfInBounds cy (s.cells.getD cx .nil) } :=
    evals_writeCell cy _ _ ⟨hm.1, hm.2⟩
  exact evals_bind_ok w1 (evals_bind_ok w2 (evals_pure _ _))

/-! ### surplus expressions -/

/-- a `local` declaration evaluates its WHOLE expression list — however many expressions it has, so also those in
    excess of the names — before it binds anything; the extra values are then thrown away (`adjust`) -/
theorem local_evaluates_all_expressions (fo : FloatOps) (n : Nat) (ctx : Ctx) (whole : Block) (tail) (base lo i : Nat)
    (line : Nat) (x : String) (es : List Expr) {s vs s1 res s3} (hm : s1.Main)
    (hi : whole[i]? = some (.local_ line [(x, .none)] es))
    (hexprs : Evals ((evalN fo n).exprs { ctx with line := line } es) s (.ok vs) s1)
    (hrest : Evals ((evalN fo n).stmts { ctx with env := (x, s1.cells.size) :: ctx.env } whole tail base lo (i + 1))
               { s1 with cells := s1.cells.push (vs.headD .nil) } res s3) :
    Evals ((evalN fo (n + 1)).stmts ctx whole tail base lo i) s res s3 := by
  show Evals (stepStmts (evalN fo n) ctx whole tail base lo i) s res s3
  unfold stepStmts
  simp only [hi]
  refine evals_bind_ok hexprs ?_
  have hb : Evals (bindNames [x] (adjust 1 vs) ctx.env) s1 (.ok ((x, s1.cells.size) :: ctx.env))
      { s1 with cells := s1.cells.push (vs.headD .nil) } := by
    unfold bindNames
    have hv : (adjust 1 vs).headD .nil = vs.headD .nil := by cases vs <;> rfl
    rw [hv]
    refine evals_bind_ok (evals_allocCell _ s1 hm) ?_
    unfold bindNames
    exact evals_pure _ _
  refine evals_bind_ok (by simpa using hb) ?_
  simp only [List.length_cons, List.length_nil, tbcOf]
  simpa using hrest

/-- an error raised by any expression of the list — a surplus one included — ends the declaration with that
    error, in the store of that moment; nothing is bound -/
theorem local_expression_error_propagates (fo : FloatOps) (n : Nat) (ctx : Ctx) (whole : Block) (tail) (base lo i : Nat)
    (line : Nat) (names : List (String × Attrib)) (es : List Expr) {s e s1}
    (hi : whole[i]? = some (.local_ line names es))
    (hexprs : Evals ((evalN fo n).exprs { ctx with line := line } es) s (.error e) s1) :
    Evals ((evalN fo (n + 1)).stmts ctx whole tail base lo i) s (.error e) s1 := by
  show Evals (stepStmts (evalN fo n) ctx whole tail base lo i) s _ s1
  unfold stepStmts
  simp only [hi]
  exact evals_bind_err hexprs

/-- the same for an assignment: the right-hand sides are all evaluated (`assignment_order`), so an error in a
    surplus one prevents every assignment -/
theorem assign_expression_error_propagates (fo : FloatOps) (n : Nat) (ctx : Ctx) (line : Nat) (x : String) (c : Nat)
    (es : List Expr) {s e s1} (hx : lookupVar ctx.env x = some c)
    (hexprs : Evals ((evalN fo n).exprs { ctx with line := line } es) s (.error e) s1) :
    Evals ((evalN fo (n + 1)).stmt ctx (.assign line [.var x] es)) s (.error e) s1 := by
  show Evals (stepStmt (evalN fo n) ctx (.assign line [.var x] es)) s _ s1
  unfold stepStmt
  have hx' : lookupVar ({ ctx with line := line } : Ctx).env x = some c := hx
  have ht : Evals ([Expr.var x].mapM (evalTarget (evalN fo n) { ctx with line := line })) s (.ok [LVal.cell c]) s := by
    simp only [List.mapM_cons, List.mapM_nil, evalTarget, hx']
    exact evals_bind_ok (evals_pure _ _) (evals_bind_ok (evals_pure _ _) (evals_pure _ _))
  exact evals_bind_ok ht (evals_bind_err hexprs)
/-! ### fresh variables per loop iteration, closures -/

/-- a function expression creates a new closure over exactly the cells the current scope binds
    (not copies of their values) -/
theorem closure_captures_cells (fo : FloatOps) (n : Nat) (ctx : Ctx) (fb : FuncBody) (s : Store) (hm : s.Main) :
    Evals ((evalN fo (n + 1)).exprM ctx (.func fb)) s (.ok [.func s.closures.size])
      { s with closures := s.closures.push ⟨fb, ctx.env⟩ } := by
  show Evals (stepExprM fo (evalN fo n) ctx (.func fb)) s _ _
  unfold stepExprM
  exact evals_bind_ok (evals_allocClosure _ s hm) (evals_pure _ _)

/-- `fresh_loop_variable` (numeric for): an iteration runs the body with the loop variable bound to the
    cell `s.cells.size` — a cell that did not exist before the iteration; after a normal end of the
    body the next iteration binds it to the then-next cell, which is a different one.  Hence closures
    created in different iterations capture different cells (`closure_captures_cells`). -/
theorem fresh_loop_variable (fo : FloatOps) (n : Nat) (ctx : Ctx) (v : String) (cur step : I64) (count : Nat)
    (body : Block) (s s2 : Store) (hm : s.Main) {r s3}
    (hbody : Evals ((evalN fo n).stmts { ctx with env := (v, s.cells.size) :: ctx.env } body none
                (ctx.env.length + 1) 0 0) { s with cells := s.cells.push (.int cur) } (.ok .normal) s2)
    (hnext : Evals ((evalN fo n).fornumI ctx v (cur + step) step count body) s2 r s3) :
    -- the whole loop from `s` is: this iteration, then the rest of the loop from `s2`
    Evals ((evalN fo (n + 1)).fornumI ctx v cur step (count + 1) body) s r s3
    -- and the cell of the next iteration differs from (comes after) the cell of this one
    ∧ s.cells.size < s2.cells.size := by
  constructor
  · show Evals (stepFornumI (evalN fo n) ctx v cur step (count + 1) body) s r s3
    unfold stepFornumI
    refine evals_bind_ok (evals_allocCell _ s hm) (evals_bind_ok (a := Sig.normal) (s1 := s2) ?_ ?_)
    · simpa using hbody
    · simpa using hnext
  · have := (hbody.grows ((evalN_grows fo n).stmts _ _ _ _ _ _)).cells
    simp at this
    omega

/-- the same for the statements of a `while`/`repeat` body or any block: every execution of a `local`
    declaration allocates new cells (`bindNames` only ever pushes) -/
theorem local_declares_fresh_cell (v : Val) (s : Store) (hm : s.Main) :
    Evals (allocCell v) s (.ok s.cells.size) { s with cells := s.cells.push v } := evals_allocCell v s hm

/-! ### `__index` / `__newindex` chains -/

/-- one stage of an `__index` chain ending in a function: the handler is called with the table being indexed AT THIS
    STAGE (the one whose raw lookup failed) and the key -/
theorem index_function_receives_indexed_table (fo : FloatOps) (n : Nat) (dyn : Dyn) (a fa : Nat) (k : Val)
    {s t s1 s2 r s3}
    (hraw : Evals (getTable a) s (.ok t) s1) (hmiss : t.get k.normKey = .nil)
    (hmeta : Evals (metaOf (.table a) "__index") s1 (.ok (.func fa)) s2)
    (hcall : Evals ((evalN fo n).call dyn (.func fa) [.table a, k]) s2 (.ok r) s3) :
    Evals ((evalN fo (n + 1)).index dyn (.table a) k) s (.ok (r.headD .nil)) s3 := by
  show Evals (stepIndex (evalN fo n) dyn (.table a) k) s _ s3
  unfold stepIndex call1
  refine evals_bind_ok hraw ?_
  simp only [hmiss, ne_eq, not_true_eq_false, ↓reduceIte]
  exact evals_bind_ok hmeta (evals_bind_ok hcall (evals_pure _ _))

/-- one stage of an `__index` chain through a table: indexing continues as a regular indexing of that table, which
    from then on is the table "being indexed" (the original object is forgotten) -/
theorem index_table_step_restarts (fo : FloatOps) (n : Nat) (dyn : Dyn) (a b : Nat) (k : Val)
    {s t s1 s2 r s3}
    (hraw : Evals (getTable a) s (.ok t) s1) (hmiss : t.get k.normKey = .nil)
    (hmeta : Evals (metaOf (.table a) "__index") s1 (.ok (.table b)) s2)
    (hnext : Evals ((evalN fo n).index dyn (.table b) k) s2 r s3) :
    Evals ((evalN fo (n + 1)).index dyn (.table a) k) s r s3 := by
  show Evals (stepIndex (evalN fo n) dyn (.table a) k) s _ s3
  unfold stepIndex
  refine evals_bind_ok hraw ?_
  simp only [hmiss, ne_eq, not_true_eq_false, ↓reduceIte]
  exact evals_bind_ok hmeta hnext

/-- the same for assignment: a `__newindex` function is called with the table reached at this stage -/
theorem newindex_function_receives_indexed_table (fo : FloatOps) (n : Nat) (dyn : Dyn) (a fa : Nat) (k v : Val)
    {s t s1 s2 r s3}
    (hraw : Evals (getTable a) s (.ok t) s1) (hmiss : t.get k.normKey = .nil)
    (hmeta : Evals (metaOf (.table a) "__newindex") s1 (.ok (.func fa)) s2)
    (hcall : Evals ((evalN fo n).call dyn (.func fa) [.table a, k, v]) s2 (.ok r) s3) :
    Evals ((evalN fo (n + 1)).setindex dyn (.table a) k v) s (.ok ()) s3 := by
  show Evals (stepSetIndex (evalN fo n) dyn (.table a) k v) s _ s3
  unfold stepSetIndex
  refine evals_bind_ok hraw ?_
  simp only [hmiss, ne_eq, not_true_eq_false, ↓reduceIte]
  exact evals_bind_ok hmeta (evals_bind_ok hcall (evals_pure _ _))
/-! ### goto and tail calls -/

/-- `goto_continue_fresh_local`: a `goto l` to a label of the enclosing block (index `k`, with `d` locals of the
    block declared before it) continues right after the label with the scope cut back to those `d` locals:
    every local declared after the label in the previous pass is gone, and its `local` statement, when executed
    again, allocates a new cell (`local_declares_fresh_cell`) — so closures from different passes of a
    continue-style loop hold different variables -/
theorem goto_continue_fresh_local (fo : FloatOps) (n : Nat) (ctx : Ctx) (whole : Block) (tail) (base lo i k d : Nat)
    (l : String) {s res s2}
    (hi : whole[i]? = some (.goto_ l)) (hl : findLabel l whole 0 0 = some (k, d)) (hk : lo ≤ k)
    (hrest : Evals ((evalN fo (n + 1)).stmts { ctx with env := ctx.env.drop (ctx.env.length - (base + d)) }
                whole tail base lo (k + 1)) s res s2) :
    Evals ((evalN fo (n + 2)).stmts ctx whole tail base lo i) s res s2 := by
  show Evals (stepStmts (evalN fo (n + 1)) ctx whole tail base lo i) s res s2
  unfold stepStmts
  simp only [hi]
  have hg : Evals ((evalN fo (n + 1)).stmt ctx (.goto_ l)) s (.ok (.goto_ l)) s := evals_pure _ _
  refine evals_bind_ok hg ?_
  simp only [hl, ge_iff_le, hk, ↓reduceIte]
  exact hrest

/-- the scope after the jump binds exactly the block's enclosing scope plus the `d` locals declared before the label -/
theorem goto_scope_length (env : List (String × Nat)) (base d : Nat) (h : base + d ≤ env.length) :
    (env.drop (env.length - (base + d))).length = base + d := by
  simp only [List.length_drop]; omega

/-- a tail call `return f(args)` (outside to-be-closed scopes) is the call `f(args)` made with the caller's own
    activation removed from the stack of active functions (so that `error(…, 2)` in `f` names the caller's caller),
    and its results are returned unchanged -/
theorem tailcall_replaces_activation (fo : FloatOps) (n : Nat) (ctx : Ctx) (line : Nat) (f : Expr) (args : List Expr)
    (htbc : ctx.inTbc = false) {s fvs s1 as s2 vs s3}
    (hf : Evals ((evalN fo n).exprM { ctx with line := line } f) s (.ok fvs) s1)
    (hargs : Evals ((evalN fo n).exprs { ctx with line := line } args) s1 (.ok as) s2)
    (hcall : Evals ((evalN fo n).call (tailDyn { ctx with line := line } (fvs.headD .nil)) (fvs.headD .nil) as) s2 (.ok vs) s3) :
    Evals ((evalN fo (n + 1)).stmt ctx (.return_ line [.call f args])) s (.ok (.ret vs)) s3 := by
  show Evals (stepStmt (evalN fo n) ctx (.return_ line [.call f args])) s _ s3
  unfold stepStmt
  simp only [htbc] at hf hargs hcall ⊢
  unfold eval1
  exact evals_bind_ok (evals_bind_ok hf (evals_pure _ _)) (evals_bind_ok hargs (evals_bind_ok hcall (evals_pure _ _)))

/-- `tailcall_same_result`: whenever the callee's outcome does not depend on the caller's line (it raises no
    level-2 positioned error; always the case for host functions and callable tables), `return f(args)` returns
    exactly the values the expression `f(args)` evaluates to, in the same store -/
theorem tailcall_same_result (fo : FloatOps) (n : Nat) (ctx : Ctx) (line : Nat) (f : Expr) (args : List Expr)
    (htbc : ctx.inTbc = false) {s fvs s1 as s2 vs s3}
    (hf : Evals ((evalN fo n).exprM { ctx with line := line } f) s (.ok fvs) s1)
    (hargs : Evals ((evalN fo n).exprs { ctx with line := line } args) s1 (.ok as) s2)
    (hcall : Evals ((evalN fo n).call (tailDyn { ctx with line := line } (fvs.headD .nil)) (fvs.headD .nil) as) s2 (.ok vs) s3)
    (hsame : Evals ((evalN fo n).call ({ ctx with line := line } : Ctx).here (fvs.headD .nil) as) s2 (.ok vs) s3) :
    Evals ((evalN fo (n + 1)).stmt ctx (.return_ line [.call f args])) s (.ok (.ret vs)) s3 ∧
    Evals ((evalN fo (n + 1)).exprM { ctx with line := line } (.call f args)) s (.ok vs) s3 := by
  refine ⟨tailcall_replaces_activation fo n ctx line f args htbc hf hargs hcall, ?_⟩
  show Evals (stepExprM fo (evalN fo n) { ctx with line := line } (.call f args)) s _ s3
  unfold stepExprM eval1
  exact evals_bind_ok (evals_bind_ok hf (evals_pure _ _)) (evals_bind_ok hargs hsame)

/-- for a callee that is not a Lua function the two dynamic contexts coincide, so `hsame` is `hcall` -/
theorem tailDyn_host (ctx : Ctx) (b : Builtin) : tailDyn ctx (.builtin b) = ctx.here := rfl

/-! ### protected calls -/

/-- `pcall_catches_exactly_inner` (error case): if the protected call ends with the Lua error value `v`
    in store `s'`, `pcall` returns `false, v` in exactly that store -/
theorem pcall_catches_error (r : Rec) (dyn : Dyn) (f : Val) (args : List Val) {s v hd s'}
    (h : Evals (r.call ⟨0 :: dyn.stack, none⟩ f args) s (.error (.lua v hd)) s') :
    Evals (builtinCall r dyn .pcall (f :: args)) s (.ok [.bool false, v]) s' := by
  unfold builtinCall
  simp only [List.isEmpty_cons, Bool.false_eq_true, ↓reduceIte, List.headD_cons, List.tail_cons]
  exact evals_bind_ok (evals_tryLua_lua h) (evals_pure _ _)

/-- (success case) `pcall` returns `true` followed by all results -/
theorem pcall_passes_results (r : Rec) (dyn : Dyn) (f : Val) (args : List Val) {s vs s'}
    (h : Evals (r.call ⟨0 :: dyn.stack, none⟩ f args) s (.ok vs) s') :
    Evals (builtinCall r dyn .pcall (f :: args)) s (.ok (.bool true :: vs)) s' := by
  unfold builtinCall
  simp only [List.isEmpty_cons, Bool.false_eq_true, ↓reduceIte, List.headD_cons, List.tail_cons]
  exact evals_bind_ok (evals_tryLua_ok h) (evals_pure _ _)

/-- (what it does not catch) leaving the modelled fragment is not a Lua error and passes through `pcall` -/
theorem pcall_does_not_catch_unsupported (r : Rec) (dyn : Dyn) (f : Val) (args : List Val) {s w s'}
    (h : Evals (r.call ⟨0 :: dyn.stack, none⟩ f args) s (.error (.unsupported w)) s') :
    Evals (builtinCall r dyn .pcall (f :: args)) s (.error (.unsupported w)) s' := by
  unfold builtinCall
  simp only [List.isEmpty_cons, Bool.false_eq_true, ↓reduceIte, List.headD_cons, List.tail_cons]
  exact evals_bind_err (evals_tryLua_unsup h)

/-- `pcall_catches_exactly_inner`: what `pcall` does is independent of any message handler installed
    further out — the function runs with no handler, so an enclosing `xpcall`'s handler never sees
    errors raised under this `pcall` -/
theorem pcall_catches_exactly_inner (r : Rec) (stack : List Nat) (h h' : Option Val) (f : Val) (args : List Val) :
    builtinCall r ⟨stack, h⟩ .pcall (f :: args) = builtinCall r ⟨stack, h'⟩ .pcall (f :: args) := by
  unfold builtinCall
  simp only [List.isEmpty_cons, Bool.false_eq_true, ↓reduceIte, List.headD_cons, List.tail_cons]

/-! ### non-vacuity: states satisfying the hypotheses of the theorems above -/

section examples
variable (fo : FloatOps)

def exCtx : Ctx := { env := [("x", 0), ("y", 1)], varargs := [.int 1#64, .int 2#64], line := 1, dyn := ⟨[], none⟩ }
def exStore : Store := { initStore [] with cells := #[.int 10#64, .int 20#64] }
theorem exStore_main : exStore.Main := ⟨rfl, rfl⟩

theorem evals_int (n : Nat) (ctx : Ctx) (k : I64) (s : Store) :
    Evals ((evalN fo (n + 1)).exprM ctx (.int k)) s (.ok [.int k]) s := evals_pure _ _

/-- `f(..., 5)`-style list: `...` (two values) in the middle contributes one value -/
example : Evals ((evalN fo 3).exprs exCtx [.vararg, .int 5#64]) exStore (.ok [.int 1#64, .int 5#64]) exStore :=
  call_in_middle_truncated fo 2 exCtx .vararg (.int 5#64) [] (vs := exCtx.varargs)
    (vararg_denotes_all fo 1 exCtx exStore) (evals_int fo 0 exCtx _ exStore)

/-- both orders, hypotheses of `vararg_expansion_last_only` discharged for `x := 5` -/
example : Evals ((evalN fo 3).exprs exCtx [.vararg, .int 5#64]) exStore (.ok [.int 1#64, .int 5#64]) exStore ∧
    Evals ((evalN fo 3).exprs exCtx [.int 5#64, .vararg]) exStore (.ok [.int 5#64, .int 1#64, .int 2#64]) exStore :=
  vararg_expansion_last_only fo 0 exCtx (.int 5#64) (evals_int fo 0 exCtx _ exStore) (evals_int fo 0 exCtx _ exStore)

/-- `(...)` is one value -/
example : Evals ((evalN fo 2).exprM exCtx (.paren .vararg)) exStore (.ok [.int 1#64]) exStore :=
  paren_yields_one_value fo 1 exCtx .vararg (vararg_denotes_all fo 0 exCtx exStore)

/-- the swap, in a store where x = 10 and y = 20 -/
example : Evals ((evalN fo 4).stmt exCtx (.assign 1 [.var "x", .var "y"] [.var "y", .var "x"])) exStore (.ok .normal)
    { exStore with cells := #[.int 20#64, .int 10#64] } :=
  assignment_evaluates_before_assigning fo 0 exCtx 1 "x" "y" 0 1 exStore exStore_main rfl rfl

theorem evals_empty_block (n : Nat) (ctx : Ctx) (base : Nat) (s : Store) :
    Evals ((evalN fo (n + 1)).stmts ctx [] none base 0 0) s (.ok .normal) s := evals_pure _ _

theorem evals_last_iteration (n : Nat) (ctx : Ctx) (v : String) (cur step : I64) (s : Store) (hm : s.Main) :
    Evals ((evalN fo (n + 2)).fornumI ctx v cur step 0 []) s (.ok .normal) { s with cells := s.cells.push (.int cur) } := by
  show Evals (stepFornumI (evalN fo (n + 1)) ctx v cur step 0 []) s _ _
  unfold stepFornumI
  exact evals_bind_ok (evals_allocCell _ s hm) (evals_bind_ok (evals_empty_block fo n _ _ _) (evals_pure _ _))

/-- two iterations of `for i = 7, 8 do end`: cell 2 for the first, cell 3 for the second -/
example : Evals ((evalN fo 3).fornumI exCtx "i" 7#64 1#64 1 []) exStore (.ok .normal)
      { exStore with cells := #[.int 10#64, .int 20#64, .int 7#64, .int 8#64] }
    ∧ exStore.cells.size < ({ exStore with cells := exStore.cells.push (.int 7#64) } : Store).cells.size :=
  fresh_loop_variable fo 2 exCtx "i" 7#64 1#64 0 [] exStore { exStore with cells := exStore.cells.push (.int 7#64) } exStore_main
    (evals_empty_block fo 1 _ _ _) (evals_last_iteration fo 0 exCtx "i" (7#64 + 1#64) 1#64 _ ⟨rfl, rfl⟩)

/-- pcall of the builtin `error` with a table value: caught, value intact (hypothesis of `pcall_catches_error`) -/
example : Evals (builtinCall (evalN fo 2) ⟨[3], none⟩ .pcall [.builtin .error, .table 7]) exStore
    (.ok [.bool false, .table 7]) exStore :=
  pcall_catches_error (evalN fo 2) ⟨[3], none⟩ (.builtin .error) [.table 7] (hd := false) (by
    show Evals (builtinCall (evalN fo 1) ⟨0 :: [3], none⟩ .error [.table 7]) exStore _ exStore
    unfold builtinCall
    exact evals_throw _ _)

/-- pcall of `type`: results passed through (hypothesis of `pcall_passes_results`) -/
example : Evals (builtinCall (evalN fo 2) ⟨[3], none⟩ .pcall [.builtin .type, .int 1#64]) exStore
    (.ok [.bool true, .ofString "number"]) exStore :=
  pcall_passes_results (evalN fo 2) ⟨[3], none⟩ (.builtin .type) [.int 1#64] (by
    show Evals (builtinCall (evalN fo 1) ⟨0 :: [3], none⟩ .type [.int 1#64]) exStore _ exStore
    unfold builtinCall
    exact evals_pure _ _)

end examples

/-! ### a whole concrete program, evaluated by the kernel -/



/-- `local x, y = 1, 2; x, y = y, x; return x, y` returns `2, 1` -/
example : (match run default 10 [.local_ 1 [("x", .none), ("y", .none)] [.int 1#64, .int 2#64],
                                  .assign 2 [.var "x", .var "y"] [.var "y", .var "x"],
                                  .return_ 3 [.var "x", .var "y"]] [] with
           | .done rets _ => rets
           | _ => []) = [.int 2#64, .int 1#64] := by decide +kernel

/-- `return ("abc"):len()` returns 3: the method receives the string itself -/
example : (match run default 12 [.return_ 1 [.method (.str "abc".toUTF8) "len".toUTF8 []]] [] with
           | .done rets _ => rets
           | _ => []) = [.int 3#64] := by decide +kernel

/-- `local fs = {}; for i = 1, 2 do fs[i] = function() return i end end; return fs[1](), fs[2]()` returns `1, 2`:
    the two closures captured different variables -/
example : (match run default 16 [.local_ 1 [("fs", .none)] [.table []],
             .fornum 2 "i" (.int 1#64) (.int 2#64) none
               [.assign 3 [.index (.var "fs") (.var "i")] [.func (.mk [] false [.return_ 3 [.var "i"]])]],
             .return_ 5 [.call (.index (.var "fs") (.int 1#64)) [], .call (.index (.var "fs") (.int 2#64)) []]] [] with
           | .done rets _ => rets
           | _ => []) = [.int 1#64, .int 2#64] := by decide +kernel

/-- `local ok, e = pcall(function() error({}) end); return ok, type(e)` -/
example : (match run default 16 [.local_ 1 [("ok", .none), ("e", .none)]
               [.call (.var "pcall") [.func (.mk [] false [.callS 1 (.call (.var "error") [.table []])])]],
             .return_ 2 [.var "ok", .call (.var "type") [.var "e"]]] [] with
           | .done rets _ => rets
           | _ => []) = [.bool false, .ofString "table"] := by decide +kernel

set_option maxRecDepth 8000 in
/-- continue-style backward jump over a local: `do local i = 0 ::top:: i = i + 1 local j = i * 10 fs[i] = function() return j end
    if i < 2 then goto top end end return fs[1](), fs[2]()` returns `10, 20` (a fresh `j` per pass) -/
example : (match run default 24 [.local_ 1 [("fs", .none)] [.table []],
             .do_ [.local_ 2 [("i", .none)] [.int 0#64], .label "top",
                   .assign 3 [.var "i"] [.bin .add (.var "i") (.int 1#64)],
                   .local_ 4 [("j", .none)] [.bin .mul (.var "i") (.int 10#64)],
                   .assign 5 [.index (.var "fs") (.var "i")] [.func (.mk [] false [.return_ 5 [.var "j"]])],
                   .if_ 6 (.bin .lt (.var "i") (.int 2#64)) [.goto_ "top"] []],
             .return_ 8 [.call (.index (.var "fs") (.int 1#64)) [], .call (.index (.var "fs") (.int 2#64)) []]] [] with
           | .done rets _ => rets
           | _ => []) = [.int 10#64, .int 20#64] := by decide +kernel

set_option maxRecDepth 8000 in
/-- tail call: `local function f(n) if n == 0 then return "done" end return f(n - 1) end return f(3)` -/
example : (match run default 40 [.localfn 1 "f" (.mk ["n"] false
               [.if_ 2 (.bin .eq (.var "n") (.int 0#64)) [.return_ 2 [.str "done".toUTF8]] [],
                .return_ 3 [.call (.var "f") [.bin .sub (.var "n") (.int 1#64)]]]),
             .return_ 5 [.call (.var "f") [.int 3#64]]] [] with
           | .done rets _ => rets
           | _ => []) = [.ofString "done"] := by decide +kernel

/-- a generator driving a generic for:
    `local acc = 0; for v in coroutine.wrap(function() for i = 1, 3 do coroutine.yield(i) end end) do acc = acc * 10 + v end; return acc` -/
example : (match run default 60 [.local_ 1 [("acc", .none)] [.int 0#64],
             .forin 2 ["v"] [.call (.index (.var "coroutine") (.str "wrap".toUTF8))
                 [.func (.mk [] false [.fornum 2 "i" (.int 1#64) (.int 3#64) none
                    [.callS 2 (.call (.index (.var "coroutine") (.str "yield".toUTF8)) [.var "i"])]])]]
               [.assign 3 [.var "acc"] [.bin .add (.bin .mul (.var "acc") (.int 10#64)) (.var "v")]],
             .return_ 5 [.var "acc"]] [] with
           | .done rets _ => rets
           | _ => []) = [.int 123#64] := by decide +kernel

def strE (s : String) : Expr := .str s.toUTF8
def setmt (t m : Expr) : Expr := .call (.var "setmetatable") [t, m]

/-- `local proto = setmetatable({}, {__index = function(t, k) return t end}); local obj = setmetatable({}, {__index = proto});
    return obj.x == proto, obj.x == obj` gives `true, false`: the handler receives the table reached in the chain -/
example : (match run default 40 [
      .local_ 1 [("proto", .none)] [setmt (.table []) (.table [.named (strE "__index") (.func (.mk ["t", "k"] false [.return_ 1 [.var "t"]]))])],
      .local_ 2 [("obj", .none)] [setmt (.table []) (.table [.named (strE "__index") (.var "proto")])],
      .return_ 3 [.bin .eq (.index (.var "obj") (strE "x")) (.var "proto"), .bin .eq (.index (.var "obj") (strE "x")) (.var "obj")]] [] with
    | .done rets _ => rets
    | _ => []) = [.bool true, .bool false] := by decide +kernel


/-- `local a = 1, emit("x"); x, y = 1, 2, emit("y"); return a` : both surplus calls happen -/
example : (match run default 30 [.local_ 1 [("a", .none)] [.int 1#64, .call (.var "emit") [.str "x".toUTF8]],
             .assign 2 [.var "gx", .var "gy"] [.int 1#64, .int 2#64, .call (.var "emit") [.str "y".toUTF8]],
             .return_ 3 [.var "a"]] [] with
           | .done rets s => (rets, s.trace.toList)
           | _ => ([], [])) = ([.int 1#64], [[.ofString "x"], [.ofString "y"]]) := by decide +kernel

end GoluaVerif.Props.C01
