/-
  Props.C14 — the register pool is a pure optimisation: theorems about Model.Pools
  (mirror of runtime/regpool.go; tied to the code by the c14 pool correspondence).
-/
import GoluaVerif.Model.Pools
import GoluaVerif.Proofs.Pools
namespace GoluaVerif.Props.C14
open GoluaVerif.Model.Pools GoluaVerif.Proofs.Pools

/-- the invariant "every register set held by the pool is zeroed" holds initially … -/
theorem pool_zeroed_init (size maxAge : Nat) : PoolZeroed (VPool.new size maxAge) :=
  new_zeroed size maxAge

/-- … is preserved by `release` of ANY set, whatever the client wrote into it … -/
theorem pool_zeroed_release (p : VPool) (c : RegSet) (hp : PoolZeroed p) : PoolZeroed (p.release c) :=
  release_zeroed p c hp

/-- … and under it `get sz` hands out a set of exactly `sz` zero values (pooled or fresh),
leaving the invariant intact. -/
theorem pool_get_zeroed_exact_size (p : VPool) (sz : Nat) (hp : PoolZeroed p) :
    (p.get sz).2.vals = List.replicate sz 0 ∧ PoolZeroed (p.get sz).1 :=
  get_zeroed p sz hp

/-- Transparency: ANY client program (sequence of get / write / read / release over handles, of any
length; accesses through a handle that is not held are no-ops in both machines — the VM discipline)
reads exactly the same values with the pool (any size, any max age) as with plain allocation
(the `noregpool` build). -/
theorem pool_transparent (size maxAge : Nat) (ops : List Op) :
    ((Sys.init size maxAge).run ops).2 = (({ held := [] } : Ref).run ops).2 :=
  run_sim ops _ _ ⟨rfl, new_zeroed size maxAge⟩

-- non-vacuity: a program that reuses a dirty set through the pool and reads it back
example :
    ((Sys.init 10 10).run [.get 2, .write 0 1 7, .read 0 1, .release 0, .get 2, .read 1 1]).2
      = [none, none, some 7, none, none, some 0] := by decide

-- … and the second `get` really was served from the pool (same identity)
example :
    (((Sys.init 10 10).run [.get 2, .write 0 1 7, .release 0, .get 2]).1.held.map (fun bc => bc.2.id))
      = [1, 1] := by decide

/-- No aliasing: after ANY client program, every non-empty register set (identity ≥ 1) has at most
one owner among the live handles and the pool slots — so `get` never hands out a set that some
frame still holds, and no set sits in the pool twice. -/
theorem pool_no_alias (size maxAge : Nat) (ops : List Op) (i : Nat) (hi : 1 ≤ i) :
    let s := ((Sys.init size maxAge).run ops).1
    heldCount s i + poolCount s.pool i ≤ 1 :=
  (noalias_run ops _ (noalias_init size maxAge) i hi).1

/-- Continuation pools (luaContPool / goContPool): after ANY history of get/release operations
(releases of continuations that are not live — double releases — excluded, as the VM's discipline),
no continuation is both live and pooled, none is pooled twice, so `get` never hands out a
continuation that is still in use. -/
theorem contpool_no_alias (cap : Nat) (ops : List COp) :
    let s := CSys.run (CSys.init cap) ops
    (s.live ++ s.pool.conts).Nodup ∧ (s.pool.get).2 ∉ s.live := by
  have h := cinv_run ops _ (cinv_init cap)
  refine ⟨h.1, ?_⟩
  have h2 := cinv_step _ COp.get h
  simp only [CSys.step] at h2
  have := h2.1
  simp only [List.cons_append, List.nodup_cons, List.mem_append, not_or] at this
  exact this.1.1

-- non-vacuity: a history in which a released continuation is handed out again
example : (CSys.run (CSys.init 100) [.get, .get, .release 1, .get]).live = [1, 2] := by decide

end GoluaVerif.Props.C14
