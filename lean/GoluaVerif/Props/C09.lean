/-
  Props.C09 — coroutines.

  Part 1 (sequential): Model.CoSeq mirrors the data manipulated by runtime/thread.go's
  Resume / Yield / Close / end (status, caller, closeErr, close stack); Spec.Co is the Lua 5.4
  status machine.  Theorems hold for ALL histories of operations from the initial state.

  Part 2 (interleaving): Model.CoProto; theorems hold for EVERY family of event programs obeying
  the discipline `Disc`, any number of goroutines, any schedule.  The order of events in
  thread.go is regenerated into Generated.ThreadEvents on every run; the per-run obligations
  are the `threadEvents_*` theorems (closed by `decide`): the regenerated table obeys the
  discipline, hence the generic theorems apply to every program assembled from it.  Two labelled
  `example`s keep the schedules that the pre-repair order of `Thread.end` allowed (a race and a
  self-deadlock), to show what the discipline rules out.
-/
import GoluaVerif.Proofs.C09Seq
import GoluaVerif.Proofs.C09Proto
import GoluaVerif.Proofs.C09Table
import GoluaVerif.Proofs.C09Sys
import GoluaVerif.Generated.ThreadEvents
namespace GoluaVerif.Props.C09
open GoluaVerif.Spec.Co (Id Val Msg Event Op Status tbcEvents)
open GoluaVerif.Model.CoSeq (GoStatus Thread luaStatus)
open GoluaVerif.Proofs.C09Seq (IsChain R SeqReach run_refines)
open GoluaVerif.Model GoluaVerif.Spec
open GoluaVerif.Model.CoProto
open GoluaVerif.Proofs.C09Proto

/-! ## Part 1: all histories of the sequential model -/

/-- **values_transferred_exactly** (refinement CoSeq ⊑ Spec.Co): along every history, thread.go's
    model delivers exactly the events the Lua status machine prescribes — same receiving thread,
    same values in the same order, same `ok/fail/illegal/closed` outcome, same to-be-closed
    variables closed with the same error value — and every thread's Lua-visible status
    (lib/coroutine's `statusString`) is the spec's. -/
theorem values_transferred_exactly (ops : List Op) (s : CoSeq.State) (ev : List Event)
    (h : CoSeq.run CoSeq.init ops = some (s, ev)) :
    (Co.run Co.init ops).2 = ev ∧ ∀ t, (Co.run Co.init ops).1.status t = luaStatus s t := by
  obtain ⟨he, hR⟩ := run_refines GoluaVerif.Proofs.C09Seq.R_init ops h
  exact ⟨he, fun t => hR.status_eq t⟩

example : (Co.run Co.init [.create, .resume 1 [7, 8], .yield [9], .resume 1 [], .err 5, .close 1]).2
    = [.deliver 1 (.args [7, 8]), .deliver 0 (.ok [9]), .deliver 1 (.args []),
       .deliver 0 (.fail 5), .deliver 0 (.closed (some 5))] := by decide

/-- **status_chain_inv**: after ANY history, the threads whose Go status is ThreadOK (i.e. the
    non-suspended, non-dead ones) form exactly one resume chain `cur = c₀ → c₁ → … → main`
    along the `caller` pointers, without repetition, starting at the unique running thread and
    ending at the main thread; every other thread has no caller. -/
theorem status_chain_inv (s : CoSeq.State) (h : SeqReach s) :
    ∃ chain : List Id, chain.head? = some s.cur ∧ chain.getLast? = some 0 ∧ chain.Nodup ∧
      IsChain s.th chain ∧ (∀ t, t ∈ chain ↔ (s.th t).status = .ok) ∧
      (∀ t, t ∉ chain → (s.th t).caller = none) ∧
      (∀ t, luaStatus s t = .running ↔ t = s.cur) := by
  obtain ⟨ops, ev, hr⟩ := h
  obtain ⟨_, hR⟩ := run_refines GoluaVerif.Proofs.C09Seq.R_init ops hr
  refine ⟨_, hR.head, ?_, hR.nodup, hR.chain, hR.onstack, hR.offstack, ?_⟩
  · have hc := hR.chain
    generalize (Co.run Co.init ops).1.stack = l at hc
    induction l with
    | nil => exact absurd hc (by simp [IsChain])
    | cons a r ih =>
      cases r with
      | nil => simp [IsChain] at hc; simp [hc.1]
      | cons b r' => simp only [List.getLast?_cons_cons]; exact ih hc.2
  · intro t
    unfold luaStatus
    by_cases ht : t = s.cur
    · simp [ht]
    · simp only [ht, if_false, iff_false]
      cases (s.th t).status <;> simp

example : SeqReach CoSeq.init := ⟨[], [], rfl⟩

/-- none of thread.go's protocol panics can fire, along any history: "Caller of thread to resume
    is not running", "Caller of thread to close is not running", "Thread to yield is not
    running", "Caller of thread to yield is not OK", "Called Thread.end on a non-running
    thread", "Caller thread of ending thread is not OK".  (The model's only undefined step is the
    main thread "ending", which golua never does: `Start` is not used for the main thread.) -/
theorem no_protocol_panic (s : CoSeq.State) (h : SeqReach s) (op : Op) (hn : CoSeq.step s op = none) :
    s.cur = 0 ∧ (op = .exc ∨ (∃ vs, op = .ret vs) ∨ (∃ v, op = .err v)) := by
  obtain ⟨ops, ev, hr⟩ := h
  obtain ⟨_, hR⟩ := run_refines GoluaVerif.Proofs.C09Seq.R_init ops hr
  have := GoluaVerif.Proofs.C09Seq.no_panic hR op hn
  exact ⟨this.1, this.2.2⟩

/-- **resume_only_suspended**: `Resume` hands control over iff the target is suspended; then the
    target becomes the running thread, its resumer becomes normal and the arguments are what the
    target receives.  In every other status (running — including resuming oneself —, normal,
    dead, or not a coroutine of this runtime) nothing changes and the resumer gets the error. -/
theorem resume_only_suspended (s : CoSeq.State) (h : SeqReach s) (t : Id) (vs : List Val) :
    (t < s.n ∧ luaStatus s t = .suspended →
      ∃ s', CoSeq.step s (.resume t vs) = some (s', [.deliver t (.args vs)]) ∧ s'.cur = t ∧
        luaStatus s' t = .running ∧ luaStatus s' s.cur = .normal ∧ (s'.th t).caller = some s.cur) ∧
    (¬ (t < s.n ∧ luaStatus s t = .suspended) →
      CoSeq.step s (.resume t vs) = some (s, [.deliver s.cur .illegal])) := by
  obtain ⟨ops, ev, hr⟩ := h
  obtain ⟨_, hR⟩ := run_refines GoluaVerif.Proofs.C09Seq.R_init ops hr
  have hok := hR.cur_ok
  have hiff : luaStatus s t = .suspended ↔ (s.th t).status = .suspended := by
    rw [← hR.status_eq t]; exact hR.status_susp t
  constructor
  · intro ⟨hlt, hst⟩
    have hsus := hiff.1 hst
    have hne : s.cur ≠ t := fun e => by rw [← e, hok] at hsus; cases hsus
    refine ⟨{ s with th := Co.upd s.th t { s.th t with caller := some s.cur, status := .ok }, cur := t },
      by simp [CoSeq.step, hlt, hsus, hok], rfl, by simp [luaStatus], ?_, by simp⟩
    simp [luaStatus, hne, hok]
  · intro hn
    have : ¬ (t < s.n ∧ (s.th t).status = .suspended) := fun hh => hn ⟨hh.1, hiff.2 hh.2⟩
    simp [CoSeq.step, this]

example : ∃ s, SeqReach s ∧ 1 < s.n ∧ luaStatus s 1 = .suspended :=
  ⟨(CoSeq.step CoSeq.init .create).get (by decide) |>.1, ⟨[.create], [], by rfl⟩, by decide, by decide⟩

/-- **close_only_suspended_or_dead**: `Close` succeeds exactly on suspended threads (which become
    dead after their pending to-be-closed variables have been run with a nil error, control
    staying with the closer) and on dead ones (reporting the error the thread died with, if any);
    closing a running or normal thread changes nothing and is refused. -/
theorem close_only_suspended_or_dead (s : CoSeq.State) (h : SeqReach s) (t : Id) (ht : t < s.n) :
    (luaStatus s t = .suspended →
      ∃ s', CoSeq.step s (.close t) =
          some (s', tbcEvents t (s.th t).tbc none ++ [.deliver s.cur (.closed none)]) ∧
        s'.cur = s.cur ∧ luaStatus s' t = .dead ∧ (s'.th t).tbc = 0) ∧
    (luaStatus s t = .dead →
      CoSeq.step s (.close t) = some (s, [.deliver s.cur (.closed (s.th t).closeErr)])) ∧
    (luaStatus s t = .running ∨ luaStatus s t = .normal →
      CoSeq.step s (.close t) = some (s, [.deliver s.cur .illegal])) := by
  obtain ⟨ops, ev, hr⟩ := h
  obtain ⟨_, hR⟩ := run_refines GoluaVerif.Proofs.C09Seq.R_init ops hr
  have hok := hR.cur_ok
  have hsus : luaStatus s t = .suspended ↔ (s.th t).status = .suspended := by
    rw [← hR.status_eq t]; exact hR.status_susp t
  have hdead : luaStatus s t = .dead ↔ (s.th t).status = .dead := by
    rw [← hR.status_eq t]; exact hR.status_dead t
  refine ⟨?_, ?_, ?_⟩
  · intro hst
    have h1 := hsus.1 hst
    have hne : s.cur ≠ t := fun e => by rw [← e, hok] at h1; cases h1
    have hne' : t ≠ s.cur := fun e => hne e.symm
    let th1 := Co.upd s.th t { s.th t with caller := some s.cur, status := .ok }
    refine ⟨{ s with th := Co.upd th1 t (Thread.mk .dead none none 0), cur := s.cur },
      by simp [CoSeq.step, ht, h1, hok, CoSeq.endThread, hne]; rfl, rfl, ?_, by simp⟩
    simp [luaStatus, hne']
  · intro hst
    have h1 := hdead.1 hst
    simp [CoSeq.step, ht, h1]
  · intro hst
    have h1 : (s.th t).status ≠ .suspended := fun e => by
      have := hsus.2 e; rcases hst with h | h <;> rw [h] at this <;> cases this
    have h2 : (s.th t).status ≠ .dead := fun e => by
      have := hdead.2 e; rcases hst with h | h <;> rw [h] at this <;> cases this
    simp [CoSeq.step, h1, h2]

/-- **error_kills_and_delivers**: an error raised in a coroutine's body kills it (status dead, no
    caller, close stack emptied with that error as argument), hands control back to its resumer
    and delivers the very error value to it as `false, v`; a later `close` reports `false, v`. -/
theorem error_kills_and_delivers (s : CoSeq.State) (h : SeqReach s) (hc : s.cur ≠ 0) (v : Val) :
    ∃ c s', (s.th s.cur).caller = some c ∧
      CoSeq.step s (.err v) = some (s', tbcEvents s.cur (s.th s.cur).tbc (some v) ++ [.deliver c (.fail v)]) ∧
      s'.cur = c ∧ luaStatus s' s.cur = .dead ∧ luaStatus s' c = .running ∧
      (s'.th s.cur).caller = none ∧
      CoSeq.step s' (.close s.cur) = some (s', [.deliver c (.closed (some v))]) := by
  have hreach := h
  obtain ⟨ops, ev, hr⟩ := h
  obtain ⟨_, hR⟩ := run_refines GoluaVerif.Proofs.C09Seq.R_init ops hr
  cases hs : CoSeq.step s (.err v) with
  | none => exact absurd (no_protocol_panic s hreach _ hs).1 hc
  | some r =>
    obtain ⟨s', ev'⟩ := r
    have hs0 := hs
    simp only [CoSeq.step] at hs
    obtain ⟨r, rest, hst, hev, hR'⟩ := GoluaVerif.Proofs.C09Seq.sim_end hR (some v) (.fail v) hs
    have hch := hR.chain
    rw [hst] at hch
    have hcaller : (s.th s.cur).caller = some r := hch.1
    have hrok : (s.th r).status = .ok := (hR.onstack r).1 (by rw [hst]; simp)
    have hok := hR.cur_ok
    have hne : r ≠ s.cur := fun e => by
      have := hR.nodup; rw [hst, e] at this; simp at this
    simp [CoSeq.endThread, hcaller, hok, hrok] at hs
    obtain ⟨h1, h2⟩ := hs
    refine ⟨r, s', hcaller, ?_, ?_, ?_, ?_, ?_, ?_⟩
    · rw [← h2]
    · rw [← h1]
    · rw [← h1]; simp [luaStatus, hne.symm]
    · rw [← h1]; simp [luaStatus]
    · rw [← h1]; simp
    · have hlt : s.cur < s.n := hR.lt _ hR.cur_mem
      rw [← h1]; simp [CoSeq.step, hlt]

example : ∃ s ev, CoSeq.run CoSeq.init [.create, .resume 1 []] = some (s, ev) ∧ s.cur ≠ 0 :=
  ⟨_, _, rfl, by decide⟩

/-- **control_returns_to_resumer**: whenever a coroutine yields, control goes to the thread that
    resumed it (and to no other), which receives exactly the yielded values; the coroutine is
    suspended again, with no caller, and can be resumed again. -/
theorem control_returns_to_resumer (s : CoSeq.State) (h : SeqReach s) (hc : s.cur ≠ 0) (vs : List Val) :
    ∃ c s', (s.th s.cur).caller = some c ∧
      CoSeq.step s (.yield vs) = some (s', [.deliver c (.ok vs)]) ∧
      s'.cur = c ∧ luaStatus s' c = .running ∧ luaStatus s' s.cur = .suspended ∧
      (s'.th s.cur).caller = none := by
  have hreach := h
  obtain ⟨ops, ev, hr⟩ := h
  obtain ⟨_, hR⟩ := run_refines GoluaVerif.Proofs.C09Seq.R_init ops hr
  obtain ⟨rest0, hst⟩ := hR.stack_eq
  have hch := hR.chain
  rw [hst] at hch
  have hok := hR.cur_ok
  cases rest0 with
  | nil => exact absurd hch.1 hc
  | cons r rest =>
    have hcaller : (s.th s.cur).caller = some r := hch.1
    have hrok : (s.th r).status = .ok := (hR.onstack r).1 (by rw [hst]; simp)
    have hne : r ≠ s.cur := fun e => by
      have := hR.nodup; rw [hst, e] at this; simp at this
    refine ⟨r, { s with th := Co.upd s.th s.cur { s.th s.cur with status := .suspended, caller := none }, cur := r },
      hcaller, by simp [CoSeq.step, hok, hcaller, hrok], rfl, by simp [luaStatus], ?_, by simp⟩
    simp [luaStatus, hne.symm]

/-! ## Part 2: the interleaving model, for every family of event programs obeying `Disc` -/

/-- **baton_unique**: for EVERY family of event programs obeying the discipline, any number of
    goroutines and any schedule: at most one goroutine is "in the runtime" — between its last
    receive and its next send (the main goroutine: from the start), or about to execute an event
    that accesses shared runtime state (`touch`, `run`).  In particular no two goroutines access
    the runtime concurrently. -/
theorem baton_unique (fam : Nat → List Ev) (hd : Disc fam) (s : St) (hr : Reach fam s)
    (g h : Nat) (hg : busy s g = true) (hh : busy s h = true) : g = h :=
  let hI := inv_reach hd hr
  hI.baton g h (busy_act hI hg) (busy_act hI hh)

theorem famOK_disc : Disc famOK := by
  intro g
  match g with
  | 0 => decide
  | 1 => decide
  | 2 => decide
  | n + 3 => simp [famOK, famOfList, disc, seg]

/-- every mutex wait ends: whenever a goroutine waits for a mutex, the goroutine holding it can
    take a step (it is on its way to unlock it; it is never itself blocked) -/
theorem no_lock_deadlock (fam : Nat → List Ev) (hd : Disc fam) (s : St) (hr : Reach fam s)
    (g g' m : Nat) (r : List Ev) (hp : s.prog g = .lock m :: r) (hh : s.holder m = some g') :
    ∃ s', fire s (.one g') = some s' :=
  holder_can_step (inv_reach hd hr) hp hh

/-- **no_deadlock** (partial: see below): for every family obeying the discipline in which every
    goroutine receives on its own channel only, and every schedule: if no goroutine can take a
    step then either the main goroutine has finished, or the unique baton holder is blocked in a
    `send` to a goroutine that has already TERMINATED (or to itself).  In particular mutexes never
    cause a deadlock, no goroutine other than the baton holder is ever blocked in anything but its
    receive, and a send to a live goroutine always gets through.

    Missing for the full statement: that thread.go never sends to the channel of a thread whose
    goroutine has ended.  That depends on data, not on the event order: `Resume`/`Close` send to
    `t.resumeCh` only after seeing `t.status == ThreadSuspended` under `t.mux`
    (`resume_only_suspended`: a dead thread is refused), `Yield`/`end` send to the caller, which
    is ThreadOK (`status_chain_inv`), and `end` marks the thread dead before its goroutine ends.
    The two models (data: CoSeq, event order: CoProto) are not linked formally; that link is
    covered by the correspondence (every script under a watchdog) only. -/
theorem no_deadlock_partial (fam : Nat → List Ev) (hd : Disc fam) (ho : OwnRecv fam) (s : St)
    (hr : Reach fam s) (hst : Stuck s) :
    s.prog 0 = [] ∨ ∃ g c r, s.act g = true ∧ s.prog g = .send c :: r ∧ (c = g ∨ s.prog c = []) :=
  stuck_main_done_or_dead_target ho hr (inv_reach hd hr) hst

theorem famOK_ownRecv : OwnRecv famOK := by
  intro g
  match g with
  | 0 => decide
  | 1 => decide
  | 2 => decide
  | n + 3 => simp [famOK, famOfList, ownRecvProg]

/-- **dead_thread_goroutine_terminates**: a goroutine that has handed the baton over and has no
    receive left in its program (a finished, failed or closed coroutine after `end`'s send) is never
    blocked: whatever the others do, it can take its next step, until its program is empty. -/
theorem dead_thread_goroutine_terminates (fam : Nat → List Ev) (hd : Disc fam) (s : St) (hr : Reach fam s)
    (g : Nat) (hg : s.act g = false) (e : Ev) (r : List Ev) (hp : s.prog g = e :: r)
    (hne : ∀ c, e ≠ .recv c) : ∃ s', fire s (.one g) = some s' := by
  obtain ⟨⟨H, _, _, hseg⟩, _, _⟩ := inv_reach hd hr
  have hs := hseg g
  rw [hp, hg] at hs
  cases e with
  | lock m => exact absurd (seg_lock hs).1 (by simp)
  | unlock m => exact ⟨{ s with prog := Co.upd s.prog g r, holder := Co.upd s.holder m none }, by simp [fire, hp]⟩
  | send c => exact absurd (seg_send hs).1 (by simp)
  | recv c => exact absurd rfl (hne c)
  | closeCh _ | set _ | touch | run | spawn =>
    exact absurd (seg_local (by intros; simp) (by intros; simp) (by intros; simp) (by intros; simp) hs).1 (by simp)

/-- in a state where nothing moves, every goroutine but the baton holder has terminated or is
    parked in a receive (an abandoned suspended coroutine keeps its goroutine) -/
theorem stuck_goroutines_parked (fam : Nat → List Ev) (hd : Disc fam) (s : St) (hr : Reach fam s)
    (hst : Stuck s) (g : Nat) (hg : s.act g = false) :
    s.prog g = [] ∨ ∃ c r, s.prog g = .recv c :: r := by
  rcases stuck_shape (inv_reach hd hr) hst g with h | h | ⟨c, r, _, ha, _⟩
  · exact Or.inl h
  · exact Or.inr h
  · rw [hg] at ha; cases ha

/-- a family assembled from an event table: the main goroutine executes any sequence of items (calls
    of Resume/Close/Yield/Start along any of their paths with any two distinct threads as `t` and
    `caller`, Lua code, runtime accesses); every other goroutine is either absent or is some
    coroutine's `Start` goroutine: Start.go, any sequence of items, `end` -/
theorem table_programs_obey_disc (tbl : List Proc) (h : discTable tbl = true) (fam : Nat → List Ev)
    (h0 : ∃ items, (∀ it ∈ items, it.wf tbl) ∧ fam 0 = mainProg tbl items)
    (hg : ∀ g, g ≠ 0 → fam g = [] ∨ ∃ t c iGo iEnd items, t ≠ c ∧
      iGo < (findProc tbl "Start.go").paths.length ∧ iEnd < (findProc tbl "end").paths.length ∧
      (∀ it ∈ items, it.wf tbl) ∧ fam g = coProg tbl t c iGo iEnd items) :
    Disc fam := by
  intro g
  by_cases hg0 : g = 0
  · subst hg0
    obtain ⟨items, hw, he⟩ := h0
    rw [he]; exact GoluaVerif.Proofs.C09Table.table_main_disc h items hw
  · have hb : (g == 0) = false := by simp [hg0]
    rw [hb]
    rcases hg g hg0 with he | ⟨t, c, iGo, iEnd, items, htc, h1, h2, hw, he⟩
    · rw [he]; decide
    · rw [he]; exact GoluaVerif.Proofs.C09Table.table_co_disc h htc h1 h2 items hw

/-- **soundness of the per-run instance**: if the regenerated table passes the decidable check
    `discTable`, then `baton_unique` holds for every system of goroutines assembled from its
    procedures — any number of coroutines, any sequence of operations in each, any schedule. -/
theorem baton_unique_of_table (tbl : List Proc) (h : discTable tbl = true) (fam : Nat → List Ev)
    (h0 : ∃ items, (∀ it ∈ items, it.wf tbl) ∧ fam 0 = mainProg tbl items)
    (hg : ∀ g, g ≠ 0 → fam g = [] ∨ ∃ t c iGo iEnd items, t ≠ c ∧
      iGo < (findProc tbl "Start.go").paths.length ∧ iEnd < (findProc tbl "end").paths.length ∧
      (∀ it ∈ items, it.wf tbl) ∧ fam g = coProg tbl t c iGo iEnd items)
    (s : St) (hr : Reach fam s) (g k : Nat) (hbg : busy s g = true) (hbk : busy s k = true) : g = k :=
  baton_unique fam (table_programs_obey_disc tbl h fam h0 hg) s hr g k hbg hbk

/-! ### per-run obligations over the regenerated event table -/

/-- **per-run instance**: the event order regenerated from thread.go (every path through Resume,
    Close, Yield, end, Start, Start's goroutine, getResumeValues, sendResumeValues) obeys the
    discipline `Disc` -/
theorem threadEvents_disc : discTable Generated.ThreadEvents.table = true := by decide

/-- **per-run instance**: in the regenerated table every receive is on the executing thread's own
    channel (Resume/Close run on the caller's goroutine and receive on `caller`; Yield, Start's
    goroutine and getResumeValues receive on `t`) -/
theorem threadEvents_own_recv : ownRecvTable Generated.ThreadEvents.table = true := by decide

/-- the extractor classified every construct of the protocol functions -/
theorem threadEvents_no_unclassified : Generated.ThreadEvents.problems = [] := by decide

/-- **baton_unique for thread.go as it is in the tree**: every system of goroutines assembled from
    the regenerated procedures — the main goroutine executing any sequence of Resume/Close/Yield/
    Start calls (any path, any two distinct threads), Lua code and runtime accesses; any number of
    coroutine goroutines, each Start.go + any such sequence + end — has, under every schedule, at
    most one goroutine in the runtime. -/
theorem threadEvents_baton_unique (fam : Nat → List Ev)
    (h0 : ∃ items, (∀ it ∈ items, it.wf Generated.ThreadEvents.table) ∧
      fam 0 = mainProg Generated.ThreadEvents.table items)
    (hg : ∀ g, g ≠ 0 → fam g = [] ∨ ∃ t c iGo iEnd items, t ≠ c ∧
      iGo < (findProc Generated.ThreadEvents.table "Start.go").paths.length ∧
      iEnd < (findProc Generated.ThreadEvents.table "end").paths.length ∧
      (∀ it ∈ items, it.wf Generated.ThreadEvents.table) ∧
      fam g = coProg Generated.ThreadEvents.table t c iGo iEnd items)
    (s : St) (hr : Reach fam s) (g k : Nat) (hbg : busy s g = true) (hbk : busy s k = true) : g = k :=
  baton_unique_of_table _ threadEvents_disc fam h0 hg s hr g k hbg hbk

/-- the hypotheses of `threadEvents_baton_unique` are satisfiable: main resumes coroutine 1 and
    touches the runtime; coroutine 1 runs and ends -/
example : ∃ fam : Nat → List Ev,
    (∃ items, (∀ it ∈ items, it.wf Generated.ThreadEvents.table) ∧
      fam 0 = mainProg Generated.ThreadEvents.table items) ∧
    fam 1 = coProg Generated.ThreadEvents.table 1 0 0 0 [.run] :=
  ⟨fun g => if g = 0 then mainProg Generated.ThreadEvents.table [.call "Resume" 1 1 0, .touch]
            else coProg Generated.ThreadEvents.table 1 0 0 0 [.run],
   ⟨[.call "Resume" 1 1 0, .touch], by
      intro it hit
      simp at hit
      rcases hit with e | e <;> subst e
      · exact ⟨by decide, by simp, by decide⟩
      · trivial, by simp⟩, by simp⟩

/-! ## Part 3: data and event order together (Model.CoSys) -/

/-- **no_deadlock** (full): thread.go's data (Model.CoSeq: status, caller) and event order
    (Model.CoProto: mutexes, rendezvous on the per-thread channel, one goroutine per thread) run
    together, for ANY number of threads, ANY script of operations in each thread's Lua code
    (resume/close of any thread incl. itself, its resumer, dead ones; yield; return/error/kill;
    create), ANY operations in the `__close` handlers run when a thread is closed, and ANY schedule: in every reachable state some goroutine can take a step, unless the
    main thread's code has run to its end.  In particular every `send` of Resume/Close/Yield/end
    finds the target thread's goroutine parked in its receive (the status checks guarantee it),
    no goroutine ever waits for a mutex that will not be released, and control always comes back
    to the resumer.  (Scheduler fairness is assumed for "comes back"; what is proved is that the
    system is never stuck.) -/
theorem no_deadlock (scripts handlers : Nat → List Op) (s : CoSys.St) (hr : CoSys.Reach scripts handlers s) :
    (∃ s', CoSys.Step s s') ∨ CoSys.MainDone s :=
  GoluaVerif.Proofs.C09Sys.progress (GoluaVerif.Proofs.C09Sys.J_reach hr)

/-- in Model.CoSys, too, at most one goroutine holds the baton, a goroutine without it that is not
    dead is parked in the receive on its own channel, and a dead thread's goroutine only unlocks -/
theorem sys_parked_or_unlocking (scripts handlers : Nat → List Op) (s : CoSys.St)
    (hr : CoSys.Reach scripts handlers s) :
    (∀ g h, s.p.act g = true → s.p.act h = true → g = h) ∧
    (∀ g, s.p.act g = false → (s.d.th g).status ≠ .dead → ∃ r, s.p.prog g = .recv g :: r) ∧
    (∀ g, s.p.act g = false → (s.d.th g).status = .dead → ∀ e ∈ s.p.prog g, ∃ m, e = .unlock m) := by
  have hJ := GoluaVerif.Proofs.C09Sys.J_reach hr
  obtain ⟨fin, hI⟩ := hJ.pinv
  exact ⟨hI.baton, fun g ha hd => (hJ.parked g ha hd).imp (fun r h => h.1), hJ.gone⟩

/-- a non-trivial reachable state of Model.CoSys: main creates and resumes thread 1 and is parked
    in Resume's receive while thread 1's goroutine holds the baton -/
example : ∃ s, CoSys.Reach (fun g => if g = 0 then [.create, .resume 1 [7]] else [.yield [8]]) (fun _ => []) s ∧
    s.p.act 1 = true ∧ s.p.act 0 = false ∧ s.d.cur = 1 := by
  have h : ∃ s, CoSys.exec (CoSys.initSt (fun g => if g = 0 then [.create, .resume 1 [7]] else [.yield [8]]) (fun _ => []))
      [.expand 0, .fire (.one 0), .fire (.one 0), .expand 0, .fire (.one 0), .fire (.one 0), .fire (.one 0),
       .fire (.one 0), .fire (.one 0), .fire (.sync 0 1)] = some s ∧
      s.p.act 1 = true ∧ s.p.act 0 = false ∧ s.d.cur = 1 := by
    simp only [CoSys.exec]
    exact ⟨_, rfl, by decide, by decide, by decide⟩
  obtain ⟨s, hs, h1, h2, h3⟩ := h
  exact ⟨s, GoluaVerif.Proofs.C09Sys.reach_of_exec _ CoSys.Reach.init hs, h1, h2, h3⟩

/-- **per-run instance**: the event lists Model.CoSys executes are the paths of the regenerated
    table (Resume and Close: early return and hand-off path; Yield: early return and hand-off
    path; end; Start's goroutine; Start) -/
theorem threadEvents_paths :
    (findProc Generated.ThreadEvents.table "Resume").paths = [[.lock .self, .unlock .self], exResume] ∧
    (findProc Generated.ThreadEvents.table "Close").paths = [[.lock .self, .unlock .self], exResume] ∧
    (findProc Generated.ThreadEvents.table "Yield").paths = [[.lock .self, .unlock .self], exYield] ∧
    (findProc Generated.ThreadEvents.table "end").paths = [fixedEnd] ∧
    (findProc Generated.ThreadEvents.table "Start.go").paths = [exStartGo] ∧
    (findProc Generated.ThreadEvents.table "Start").paths = [[.touch, .spawn]] := by decide

/-- … and those lists, instantiated with the receiver thread and its caller, are literally
    Model.CoSys's paths -/
theorem sys_paths_are_table_paths (t g c : Nat) :
    CoSys.resumePath t g = instPath t g exResume ∧ CoSys.refusedPath t = instPath t g [.lock .self, .unlock .self] ∧
    CoSys.yieldPath g c = instPath g c exYield ∧ CoSys.endPath g c = instPath g c fixedEnd ∧
    CoSys.startPath g = instPath g c exStartGo ∧ CoSys.createPath = instPath t g [.touch, .spawn] :=
  ⟨rfl, rfl, rfl, rfl, rfl, rfl⟩

/-! ### what the discipline rules out (HISTORICAL: the order of `Thread.end` before its repair) -/

/-- the pre-repair order of `end` is refused by the discipline in exactly two places: Lua code run
    with both mutexes held, and a runtime access after the send -/
example : (discViolations (replaceEnd Generated.ThreadEvents.table preFixEnd)).map Violation.kind =
    [("end", "run", "with-mutex-held"), ("end", "touch", "without-baton")] := by decide

/-- HISTORICAL (pre-repair `end`, a family that does NOT obey `Disc`): main resumes coroutine 1,
    whose body returns; after `end`'s send the main goroutine continues and is about to access the
    runtime while coroutine 1's goroutine is about to execute `ReleaseBytes` — two goroutines at a
    `touch` event in the same reachable state: the data race the Go race detector reported. -/
example :
    ∃ s, Reach famRace s ∧ atTouch s 0 = true ∧ atTouch s 1 = true ∧ s.act 0 = true := by
  have h : ∃ s, runSched (initSt famRace) raceSched = some s ∧
      atTouch s 0 = true ∧ atTouch s 1 = true ∧ s.act 0 = true := by
    simp only [raceSched, runSched]
    exact ⟨_, rfl, by decide, by decide, by decide⟩
  obtain ⟨s, hs, h1, h2, h3⟩ := h
  exact ⟨s, reach_of_runSched Reach.init _ hs, h1, h2, h3⟩

/-- HISTORICAL (pre-repair `end`, a family that does NOT obey `Disc`): coroutine 1 ends with a pending
    to-be-closed variable whose `__close` handler resumes coroutine 2.  The handler runs inside
    `end` with t.mux held; `Resume(t = 2, caller = 1)` locks mutex 1 again: the goroutine waits for a
    mutex it holds itself, the resumer is parked in its receive, nothing can ever move, and the
    main goroutine has not finished. -/
example :
    ∃ s, Reach famCloseResumes s ∧ Stuck s ∧ s.prog 0 ≠ [] ∧
      (∃ r, s.prog 1 = .lock 1 :: r) ∧ s.holder 1 = some 1 := by
  have h : ∃ s, runSched (initSt famCloseResumes) deadlockSched = some s ∧ stuckBelow 3 s = true ∧
      s.prog 0 ≠ [] ∧ (∃ r, s.prog 1 = .lock 1 :: r) ∧ s.holder 1 = some 1 := by
    simp only [deadlockSched, runSched]
    exact ⟨_, rfl, by decide, by decide, ⟨_, by rfl⟩, by decide⟩
  obtain ⟨s, hs, h1, h2, h3, h4⟩ := h
  have hr : Reach famCloseResumes s := reach_of_runSched Reach.init _ hs
  exact ⟨s, hr, stuck_of_stuckBelow (l := _) hr h1, h2, h3, h4⟩

end GoluaVerif.Props.C09
