/-
  Props.C20 — independent runtimes are isolated.

  Generic part: if neither of two machines writes the shared component (or writes it only in ways
  invisible through an observation both machines are confined to), every interleaving of the two
  projects onto the solo runs.  Proved once, for all machines, by induction over the schedule.

  Per-run part: `Generated.Globals.sharedWriters` (rewritten from /repo by extract/gofacts on every
  run) lists every (package-level variable or process-wide state, function writing it after init and
  reachable from runtime.New / a library loader / a registered Go function).  Each entry must be
  allow-listed with a justification; a new entry breaks `no_shared_writes` and is reported by
  checks/c20.py as a violation.
-/
import GoluaVerif.Model.Product
import GoluaVerif.Spec.Isolation
import GoluaVerif.Generated.Globals
namespace GoluaVerif.Props.C20
open GoluaVerif.Model.Product GoluaVerif.Generated GoluaVerif.Spec.Isolation

/-- **Generic.**  If no step of either machine writes the shared component, then for every schedule
    the interleaved run leaves the shared component untouched and each machine ends exactly where
    its solo run of as many steps as it was scheduled ends. -/
theorem frame_noninterference {G P1 P2 : Type} (m1 : Machine G P1) (m2 : Machine G P2)
    (h1 : Frame m1) (h2 : Frame m2) (s : List Bool) (g : G) (p1 : P1) (p2 : P2) :
    (runBoth m1 m2 s g p1 p2).1 = g ∧
    (runBoth m1 m2 s g p1 p2).2.1 = (runSolo m1 (count true s) g p1).2 ∧
    (runBoth m1 m2 s g p1 p2).2.2 = (runSolo m2 (count false s) g p2).2 := by
  induction s generalizing g p1 p2 with
  | nil => simp [runBoth, runSolo, count]
  | cons b s ih =>
    cases b with
    | true =>
      have hg := h1 g p1
      have := ih (m1.step g p1).1 (m1.step g p1).2 p2
      simp only [runBoth, count, List.filter_cons, beq_self_eq_true, ite_true, List.length_cons, runSolo] at this ⊢
      rw [hg] at this ⊢
      simpa [count] using this
    | false =>
      have hg := h2 g p2
      have := ih (m2.step g p2).1 p1 (m2.step g p2).2
      simp only [runBoth, count, List.filter_cons, beq_self_eq_true, ite_true, List.length_cons, runSolo] at this ⊢
      rw [hg] at this ⊢
      simpa [count] using this

/-- solo runs of a machine confined to `obs` agree on the private state from `obs`-equal shared states -/
theorem runSolo_obs {G P O : Type} (obs : G → O) (m : Machine G P) (h : FrameUpTo obs m) :
    ∀ (n : Nat) (g g' : G) (p : P), obs g = obs g' →
      (runSolo m n g p).2 = (runSolo m n g' p).2 ∧ obs (runSolo m n g p).1 = obs g := by
  intro n
  induction n with
  | zero => intro g g' p hgg; exact ⟨rfl, rfl⟩
  | succ n ih =>
    intro g g' p hgg
    simp only [runSolo]
    have hp := h.reads_only_obs g g' p hgg
    have ho : obs (m.step g p).1 = obs (m.step g' p).1 := by rw [h.preserves, h.preserves, hgg]
    have := ih (m.step g p).1 (m.step g' p).1 (m.step g p).2 ho
    refine ⟨?_, ?_⟩
    · rw [← hp]; exact this.1
    · rw [this.2]; exact h.preserves g p

/-- **Generic, with benign writes.**  If the writes of both machines to the shared component are
    invisible through `obs` and both read the shared component only through `obs`, every
    interleaving still projects onto the solo runs (this is what justifies allow-listing
    write-once-same-value initialisations and caches). -/
theorem frame_noninterference_upto {G P1 P2 O : Type} (obs : G → O) (m1 : Machine G P1) (m2 : Machine G P2)
    (h1 : FrameUpTo obs m1) (h2 : FrameUpTo obs m2) (s : List Bool) (g : G) (p1 : P1) (p2 : P2) :
    obs (runBoth m1 m2 s g p1 p2).1 = obs g ∧
    (runBoth m1 m2 s g p1 p2).2.1 = (runSolo m1 (count true s) g p1).2 ∧
    (runBoth m1 m2 s g p1 p2).2.2 = (runSolo m2 (count false s) g p2).2 := by
  induction s generalizing g p1 p2 with
  | nil => simp [runBoth, runSolo, count]
  | cons b s ih =>
    cases b with
    | true =>
      have := ih (m1.step g p1).1 (m1.step g p1).2 p2
      obtain ⟨ho, hp1, hp2⟩ := this
      have hpres := h1.preserves g p1
      refine ⟨by simp only [runBoth]; rw [ho, hpres], ?_, ?_⟩
      · simp only [runBoth]
        rw [hp1]
        simp [count, runSolo]
      · simp only [runBoth]
        rw [hp2]
        have := (runSolo_obs obs m2 h2 (count false s) (m1.step g p1).1 g p2 hpres).1
        simpa [count] using this
    | false =>
      have := ih (m2.step g p2).1 p1 (m2.step g p2).2
      obtain ⟨ho, hp1, hp2⟩ := this
      have hpres := h2.preserves g p2
      refine ⟨by simp only [runBoth]; rw [ho, hpres], ?_, ?_⟩
      · simp only [runBoth]
        rw [hp1]
        have := (runSolo_obs obs m1 h1 (count true s) (m2.step g p2).1 g p1 hpres).1
        simpa [count] using this
      · simp only [runBoth]
        rw [hp2]
        simp [count, runSolo]

/-- non-vacuity: two counters that read a shared configuration value and never write it -/
example : Frame (⟨fun g p => (g, p + g)⟩ : Machine Nat Nat) := fun _ _ => rfl
/-- non-vacuity: a machine that sets an "initialised" bit (idempotent OR, like SolemnlyDeclareCompliance)
    and another that only looks at the rest of the word -/
example : FrameUpTo (fun g : Nat => g / 2) (⟨fun g p => (g ||| 1, p + g / 2)⟩ : Machine Nat Nat) where
  preserves := by
    intro g p
    show (g ||| 1) / 2 = g / 2
    have h1 : (g ||| 1) / 2 = (g ||| 1) >>> 1 := (Nat.shiftRight_eq_div_pow _ 1).symm ▸ rfl
    have h2 : g / 2 = g >>> 1 := (Nat.shiftRight_eq_div_pow _ 1).symm ▸ rfl
    rw [h1, h2, Nat.shiftRight_or_distrib]; simp
  reads_only_obs := by intro g g' p h; simp only at h ⊢; rw [h]

/-- **What a shared write does** (the shape of `math.randomseed` in one runtime and `math.random`
    in the other over a process-wide math/rand source, as golua had it before 0304cbf): machine 1 seeds the shared generator,
    machine 2 draws from it; interleaved, machine 2 does NOT end where its solo run ends. -/
theorem shared_write_interferes_counterexample :
    let seeder : Machine Nat Unit := ⟨fun _ p => (42, p)⟩
    let drawer : Machine Nat (List Nat) := ⟨fun g p => (g * 5 + 1, p ++ [g])⟩
    (runBoth seeder drawer [false, true, false] 7 () []).2.2 ≠ (runSolo drawer 2 7 []).2 := by
  decide

/-! ### Per-run instance -/

/-- **Per-run obligation.**  Every (shared variable or process-wide state, post-init writer reachable from
    runtime.New / a library loader / a registered Go function) pair of the current tree is on the allow-list
    of Spec.Isolation (today: the process's standard streams).  A new pair makes this instance fail and is
    reported by checks/c20.py as a violation `shared:<variable>:<writer>`. -/
theorem no_shared_writes :
    Globals.sharedWriters.all (fun w => allowlist.contains w) = true := by
  decide

/-- the same, as a statement about membership -/
theorem shared_writers_allowed : ∀ w ∈ Globals.sharedWriters, w ∈ allowlist := by
  intro w hw
  exact List.contains_iff_mem.mp (List.all_eq_true.mp no_shared_writes w hw)

end GoluaVerif.Props.C20
