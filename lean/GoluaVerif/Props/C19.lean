/-
  Props.C19 — property theorems for C19 (string and table library functions).

  * `Spec.StrLib` / `Spec.TabLib` are the manual's definitions (with lstrlib.c / ltablib.c position
    arithmetic); the laws below tie them down for ALL inputs (every integer position, hence
    mininteger / maxinteger; every byte string; every store that behaves like a table).
  * `Generated.StrNorm.StringNormPos`, `Generated.StrPos.maxpos/minpos` are REGENERATED from
    luastrings/misc.go and lib/stringlib/stringlib.go on every run; `Model.StrLib` composes them the
    way `sub`, `bytef` and `find` do, and `gosub_eq_spec` / `gobyte_eq_spec` / `gofind_start_eq_spec`
    prove that composition equal to the manual's positions for every int64 argument.
  * `find_plain_model_eq_spec` does the same for the plain branch of matching.go's `find`.
  Lemmas live in Proofs/C19Str, C19Pos, C19Tab, C19Sort.
-/
import GoluaVerif.Spec.StrLib
import GoluaVerif.Spec.TabLib
import GoluaVerif.Model.StrLib
import GoluaVerif.Proofs.C19Str
import GoluaVerif.Proofs.C19Pos
import GoluaVerif.Proofs.C19Tab
import GoluaVerif.Proofs.C19Sort
namespace GoluaVerif.Props.C19
open GoluaVerif GoluaVerif.Spec GoluaVerif.Spec.StrLib GoluaVerif.Spec.TabLib
open GoluaVerif.Proofs
open GoluaVerif.Proofs.C19Tab (viewRange joinSep)

/-! ## strings: sub / byte -/

/-- `s:sub(1, -1)` and `s:sub(1, #s)` are `s` -/
theorem sub_full (s : Bytes) : sub s 1 (-1) = s ∧ sub s 1 s.length = s :=
  ⟨C19Str.sub_full s, C19Str.sub_full' s⟩

/-- a substring of a substring is a substring: positions compose additively (in-range positions) -/
theorem sub_sub (s : Bytes) (i j k l : Int) (hi : 1 ≤ i) (hj : i ≤ j + 1) (hjl : j ≤ s.length)
    (hk : 1 ≤ k) (hl0 : 0 ≤ l) (hl : l ≤ j - i + 1) :
    sub (sub s i j) k l = sub s (i + k - 1) (i + l - 1) := by
  have hlen : (sub s i j).length = (j - i + 1).toNat := by
    rw [C19Str.sub_pos s i j hi (by omega) hjl, C19Str.slice_length _ _ _ (by omega) (by omega)]
    omega
  rw [C19Str.sub_pos (sub s i j) k l hk hl0 (by rw [hlen]; omega)]
  rw [C19Str.sub_pos s i j hi (by omega) hjl]
  rw [C19Str.slice_slice s i.toNat j.toNat k.toNat l.toNat (by omega) (by omega) (by omega)]
  rw [C19Str.sub_pos s (i + k - 1) (i + l - 1) (by omega) (by omega) (by omega)]
  congr 1 <;> omega

example : sub (sub [1, 2, 3, 4, 5] 2 4) 2 3 = sub [1, 2, 3, 4, 5] 3 4 := by decide

/-- a start beyond the end, or an end before the start of the string (`j < -#s` or `j = 0`), gives "" —
    for every other argument, however extreme -/
theorem sub_out_of_range_empty (s : Bytes) (i j : Int) :
    (i > s.length → sub s i j = []) ∧ ((j < -(s.length : Int) ∨ j = 0) → sub s i j = []) :=
  ⟨C19Str.sub_start_past_end s i j, C19Str.sub_end_before_start s i j⟩

/-- the result of sub never has more bytes than the string, and the positions used are within `[1, #s]` -/
theorem sub_positions_in_range (i j : Int) (len : Nat) :
    1 ≤ posrelatI i len ∧ getendpos j len ≤ len :=
  ⟨C19Str.posrelatI_pos i len, C19Str.getendpos_le j len⟩

/-- golua's StringNormPos (regenerated) never wraps around: for every int64 position, mininteger and
    maxinteger included, and every real string length, it is `len + 1 + p` for negative `p` and `p` otherwise,
    as mathematical integers -/
theorem normpos_no_overflow (len p : I64) (hl : 0 ≤ len.toInt) :
    (Generated.StrNorm.StringNormPos len p).toInt
      = if p.toInt < 0 then len.toInt + 1 + p.toInt else p.toInt :=
  C19Pos.normpos_toInt len p hl

example : (Generated.StrNorm.StringNormPos 3#64 I64.minInt).toInt = 3 + 1 + (-9223372036854775808) := by decide
example : (Generated.StrNorm.StringNormPos 3#64 I64.maxInt).toInt = 9223372036854775807 := by decide
example : (0 : Int) ≤ (3#64 : I64).toInt := by decide

/-- TIE: `sub` as stringlib.go computes it (StringNormPos, then maxpos(1,·) / minpos(len,·), then the test
    `i <= len && i <= j`) is the manual's `sub` for every pair of int64 positions -/
theorem gosub_eq_spec (s : Bytes) (hs : s.length < 2 ^ 63) (i j : I64) :
    Model.StrLib.goSub s i j = sub s i.toInt j.toInt :=
  C19Pos.goSub_eq_spec s hs i j

/-- TIE: the same for `string.byte` (including the default `j = i`) -/
theorem gobyte_eq_spec (s : Bytes) (hs : s.length < 2 ^ 63) (i : I64) (j : Option I64) :
    Model.StrLib.goByte s i j = byte s i.toInt (j.map BitVec.toInt) :=
  C19Pos.goByte_eq_spec s hs i j

example : ([97, 98, 99] : Bytes).length < 2 ^ 63 := by decide
example : Model.StrLib.goSub [97, 98, 99] I64.minInt I64.maxInt = [97, 98, 99] := by decide

/-! ## strings: rep, reverse, char/byte, upper/lower -/

theorem len_rep (s sep : Bytes) (n : Int) (hn : 0 < n) :
    (rep s n sep).length = n.toNat * s.length + (n.toNat - 1) * sep.length := by
  unfold rep
  have : ¬ (n ≤ 0) := by omega
  simp only [this, if_false]
  exact C19Str.length_repNat s sep n.toNat (by omega)

theorem rep_nonpositive_empty (s sep : Bytes) (n : Int) (hn : n ≤ 0) : rep s n sep = [] := by
  unfold rep; simp [hn]

theorem reverse_involutive (s : Bytes) : reverse (reverse s) = s := by
  simp [reverse]

theorem reverse_length (s : Bytes) : len (reverse s) = len s := by
  simp [reverse, len]

/-- `string.char(s:byte(1, -1))` is `s` -/
theorem char_byte (s : Bytes) : char ((byte s 1 (some (-1))).map Int.ofNat) = some s := by
  rw [C19Str.byte_all, List.map_map]
  exact C19Str.char_map_toNat s

/-- `string.char(...)`, when defined, has one byte per argument and `byte` gives the arguments back;
    it is defined exactly when every argument is in 0..255 -/
theorem byte_char (cs : List Int) :
    (∀ b, char cs = some b → b.length = cs.length ∧ (byte b 1 (some (-1))).map Int.ofNat = cs) ∧
    (char cs = none ↔ ∃ c ∈ cs, c < 0 ∨ 255 < c) := by
  constructor
  · intro b h
    refine ⟨C19Str.char_length cs b h, ?_⟩
    rw [C19Str.byte_all, List.map_map]
    exact C19Str.char_toNat cs b h
  · unfold char
    cases hall : cs.all (fun c => decide (0 ≤ c ∧ c ≤ 255)) with
    | true =>
      simp only [if_true]
      constructor
      · intro h; simp at h
      · intro ⟨c, hc, hbad⟩
        rw [List.all_eq_true] at hall
        have := hall c hc
        simp only [decide_eq_true_eq] at this
        omega
    | false =>
      simp only [Bool.false_eq_true, if_false, true_iff]
      rw [List.all_eq_false] at hall
      obtain ⟨c, hc, hbad⟩ := hall
      simp only [decide_eq_true_eq] at hbad
      exact ⟨c, hc, by omega⟩

/-- upper is byte-wise: the length is preserved and only `a`–`z` change (by −32); in particular bytes ≥ 0x80 never change -/
theorem upper_bytewise (s : Bytes) :
    (upper s).length = s.length ∧
    ∀ i (h : i < s.length), ((upper s)[i]'(by simpa [upper] using h)).toNat =
      if 97 ≤ s[i].toNat ∧ s[i].toNat ≤ 122 then s[i].toNat - 32 else s[i].toNat := by
  refine ⟨by simp [upper], ?_⟩
  intro i h
  simp only [upper, List.getElem_map]
  exact C19Str.upByte_spec s[i]

theorem lower_bytewise (s : Bytes) :
    (lower s).length = s.length ∧
    ∀ i (h : i < s.length), ((lower s)[i]'(by simpa [lower] using h)).toNat =
      if 65 ≤ s[i].toNat ∧ s[i].toNat ≤ 90 then s[i].toNat + 32 else s[i].toNat := by
  refine ⟨by simp [lower], ?_⟩
  intro i h
  simp only [lower, List.getElem_map]
  exact C19Str.loByte_spec s[i]

example : upper [0xff, 0xc3, 0xa9, 97] = [0xff, 0xc3, 0xa9, 65] := by decide

/-! ## strings: plain find -/

/-- a successful plain find returns the position of the FIRST occurrence at or after `init`, as a position
    in the WHOLE string (`slice s a b = p`), with `b = a + #p − 1` -/
theorem find_plain_offset (s p : Bytes) (init : Int) (a b : Nat) (h : findPlain s p init = some (a, b)) :
    posrelatI init s.length ≤ a ∧ b = a - 1 + p.length ∧ slice s a b = p ∧
    ∀ a', posrelatI init s.length ≤ a' → a' < a → slice s a' (a' - 1 + p.length) ≠ p := by
  obtain ⟨h1, h2, h3, h4, h5⟩ := C19Str.findPlain_some s p init a b h
  have hp := C19Str.posrelatI_pos init s.length
  refine ⟨h1, h3, ?_, ?_⟩
  · rw [h3]; exact (C19Str.occursAt_iff_slice s p a (by omega)).mp h4
  · intro a' g1 g2 g3
    exact h5 a' g1 g2 ((C19Str.occursAt_iff_slice s p a' (by omega)).mpr g3)

/-- a failing plain find means there is no occurrence at or after `init` -/
theorem find_plain_none (s p : Bytes) (init : Int) (h : findPlain s p init = none) (a : Nat)
    (ha : posrelatI init s.length ≤ a) (hal : a ≤ s.length + 1) : slice s a (a - 1 + p.length) ≠ p := by
  intro g
  have hp := C19Str.posrelatI_pos init s.length
  rcases C19Str.findPlain_none s p init h a ha with h1 | h1
  · exact h1 ((C19Str.occursAt_iff_slice s p a (by omega)).mpr g)
  · omega

/-- `init` past the end ⇒ nil, whatever the pattern; and `find(s, "", #s + 1)` is `#s + 1, #s` -/
theorem find_plain_init_past_end (s p : Bytes) (init : Int) :
    (init > s.length + 1 → findPlain s p init = none) ∧
    findPlain s [] (s.length + 1) = some (s.length + 1, s.length) :=
  ⟨C19Str.findPlain_init_past_end s p init, C19Str.findPlain_empty_at_end s⟩

example : findPlain [97, 98, 99, 97, 98, 99] [98] 3 = some (5, 5) := by decide

/-- TIE: the start index computed by matching.go's `find` is `posrelatI(init) − 1`, nil exactly when that
    exceeds the length -/
theorem gofind_start_eq_spec (s : Bytes) (hs : s.length < 2 ^ 63) (init : I64) :
    Model.StrLib.goFindStart (Model.StrLib.lenOf s) init =
      if posrelatI init.toInt s.length - 1 > s.length then none
      else some (BitVec.ofNat 64 (posrelatI init.toInt s.length - 1)) :=
  C19Pos.goFindStart_eq s.length _ init (C19Pos.lenOf_toInt s hs)

/-- TIE: matching.go's plain branch (`strings.Index(s[si:], ptn)`, results `si+i+1`, `si+i+len(ptn)` in Go
    `int` arithmetic) returns exactly what the manual prescribes, for every subject, pattern and int64 `init` -/
theorem find_plain_model_eq_spec (s p : Bytes) (hs : s.length + 1 < 2 ^ 63) (init : I64) :
    Model.StrLib.goFindPlain s p init = (findPlain s p init.toInt).map fun (a, b) => ((a : Int), (b : Int)) :=
  C19Pos.goFindPlain_eq s p hs init

example : ([97, 98, 99, 97, 98, 99] : Bytes).length + 1 < 2 ^ 63 := by decide
example : Model.StrLib.goFindPlain [97, 98, 99, 97, 98, 99] [98] 3#64 = some (5, 5) := by decide

/-! ## tables: insert / remove / move on any store that behaves like a table -/

/-- insert at `pos` shifts `pos..n` up by one and stores `v` at `pos`; nothing else changes -/
theorem insert_shifts {σ : Type} {S : Store σ} {view : σ → Int → Val} (hL : LawfulView S view)
    (st : σ) (n pos : Int) (v : Val) (hn : 0 ≤ n) (hn' : n < maxInt) (hp : 1 ≤ pos) (hp' : pos ≤ n + 1) :
    ∃ st', TabLib.insert S st n (some pos) v = .ok st' ∧
      ∀ k, view st' k = if k = pos then v else if pos < k ∧ k ≤ n + 1 then view st (k - 1) else view st k :=
  C19Tab.insert_view hL st n pos v hn hn' hp hp'

/-- insert without a position appends at `n + 1` -/
theorem insert_appends {σ : Type} {S : Store σ} {view : σ → Int → Val} (hL : LawfulView S view)
    (st : σ) (n : Int) (v : Val) (hn : 0 ≤ n) (hn' : n < maxInt) :
    ∃ st', TabLib.insert S st n none v = .ok st' ∧ ∀ k, view st' k = if k = n + 1 then v else view st k :=
  C19Tab.insert_append_view hL st n v hn hn'

/-- the same as lists: `t[1..n+1]` afterwards is the old `t[1..n]` with `v` inserted at index `pos − 1` -/
theorem insert_shifts_list {σ : Type} {S : Store σ} {view : σ → Int → Val} (hL : LawfulView S view)
    (st : σ) (n pos : Nat) (v : Val) (hn' : (n : Int) < maxInt) (hp : 1 ≤ pos) (hp' : pos ≤ n + 1) :
    ∃ st', TabLib.insert S st n (some pos) v = .ok st' ∧
      viewRange (view st') 1 (n + 1) = (viewRange (view st) 1 n).insertIdx (pos - 1) v :=
  C19Tab.insert_list hL st n pos v hn' hp hp'

/-- remove as lists: `t[1..n−1]` afterwards is the old `t[1..n]` without index `pos − 1`, and `t[n]` is nil -/
theorem remove_shifts_list {σ : Type} {S : Store σ} {view : σ → Int → Val} (hL : LawfulView S view)
    (st : σ) (n pos : Nat) (hn' : (n : Int) ≤ maxInt) (hp : 1 ≤ pos) (hp' : pos ≤ n) :
    ∃ st', remove S st n (some pos) = .ok (view st pos, st') ∧
      viewRange (view st') 1 (n - 1) = (viewRange (view st) 1 n).eraseIdx (pos - 1) ∧ view st' n = .nil :=
  C19Tab.remove_list hL st n pos hn' hp hp'

/-- a position outside `[1, n+1]` is an error and nothing is touched (no state is returned) -/
theorem insert_out_of_bounds {σ : Type} (S : Store σ) (st : σ) (n pos : Int) (v : Val)
    (hn : 0 ≤ n) (hn' : n < maxInt) (hpos : minInt ≤ pos ∧ pos ≤ maxInt) (hp : pos < 1 ∨ n + 1 < pos) :
    TabLib.insert S st n (some pos) v = .error .arg := by
  have hw : wrap64 (n + 1) = n + 1 := C19Tab.wrap64_id _ (by unfold minInt; omega) (by omega)
  have hu2 : toU (n + 1) = n + 1 := C19Tab.toU_id _ (by omega) (by omega)
  unfold TabLib.insert
  simp only [hw, hu2]
  have : ¬ (toU (pos - 1) < n + 1) := by
    unfold toU; unfold minInt maxInt at *
    simp at *
    omega
  simp only [this, if_false]
  rfl

/-- remove at `pos` returns the element and shifts `pos+1..n` down, erasing `n` -/
theorem remove_shifts {σ : Type} {S : Store σ} {view : σ → Int → Val} (hL : LawfulView S view)
    (st : σ) (n pos : Int) (hn' : n ≤ maxInt) (hp : 1 ≤ pos) (hp' : pos ≤ n) :
    ∃ st', remove S st n (some pos) = .ok (view st pos, st') ∧
      ∀ k, view st' k = if pos ≤ k ∧ k < n then view st (k + 1) else if k = n then .nil else view st k :=
  C19Tab.remove_view hL st n pos hn' hp hp'

/-- `table.remove(t, pos)` after `table.insert(t, pos, v)` returns `v` and restores the table -/
theorem remove_insert {σ : Type} {S : Store σ} {view : σ → Int → Val} (hL : LawfulView S view)
    (st : σ) (n pos : Int) (v : Val) (hn : 0 ≤ n) (hn' : n < maxInt) (hp : 1 ≤ pos) (hp' : pos ≤ n + 1) :
    ∃ st1 st2, TabLib.insert S st n (some pos) v = .ok st1 ∧ remove S st1 (n + 1) (some pos) = .ok (v, st2) ∧
      ∀ k, view st2 k = if k = n + 1 then .nil else view st k := by
  obtain ⟨st1, h1, v1⟩ := C19Tab.insert_view hL st n pos v hn hn' hp hp'
  obtain ⟨st2, h2, v2⟩ := C19Tab.remove_view hL st1 (n + 1) pos (by omega) hp hp'
  have hv : view st1 pos = v := by rw [v1 pos]; simp
  refine ⟨st1, st2, h1, hv ▸ h2, ?_⟩
  intro k
  rw [v2 k]
  split <;> rename_i c1
  · rw [v1 (k + 1)]
    split <;> rename_i c2
    · exfalso; omega
    · split <;> rename_i c3
      · split <;> rename_i c4
        · exfalso; omega
        · congr 1; omega
      · exfalso; omega
  · split <;> rename_i c2
    · rfl
    · rw [v1 k]
      split <;> rename_i c3
      · exfalso; omega
      · split <;> rename_i c4
        · exfalso; omega
        · rfl

/-- `table.move(a, f, e, t)` within one table is the simultaneous assignment `a[t..] = a[f..e]` of the ORIGINAL
    values — for overlapping ranges in both directions (`t < f` and `f < t ≤ e`) and disjoint ones alike -/
theorem move_overlap {σ : Type} {S : Store σ} {view : σ → Int → Val} (hL : LawfulView S view)
    (st : σ) (f e t : Int) (hfe : f ≤ e) (h1 : f > 0 ∨ e < maxInt + f) (h2 : t ≤ maxInt - (e - f + 1) + 1) :
    ∃ st', move S st f e t = .ok st' ∧
      ∀ k, view st' k = if t ≤ k ∧ k ≤ t + (e - f) then view st (k - t + f) else view st k :=
  C19Tab.move_view hL st f e t hfe h1 h2

/-- the same into another table -/
theorem move_other_table {σ₁ σ₂ : Type} {S1 : Store σ₁} {S2 : Store σ₂} {v1 : σ₁ → Int → Val} {v2 : σ₂ → Int → Val}
    (hA : LawfulView S1 v1) (hB : LawfulView S2 v2) (src : σ₁) (dst : σ₂) (f e t : Int)
    (hfe : f ≤ e) (h1 : f > 0 ∨ e < maxInt + f) (h2 : t ≤ maxInt - (e - f + 1) + 1) :
    ∃ dst', move2 S1 S2 src dst f e t = .ok dst' ∧
      ∀ k, v2 dst' k = if t ≤ k ∧ k ≤ t + (e - f) then v1 src (k - t + f) else v2 dst k :=
  C19Tab.move2_view hA hB src dst f e t hfe h1 h2

/-- an empty range moves nothing, whatever the other arguments -/
theorem move_empty_range {σ : Type} (S : Store σ) (st : σ) (f e t : Int) (h : e < f) : move S st f e t = .ok st :=
  C19Tab.move_nothing S st f e t h

/-! the hypotheses are satisfiable: the plain function store and the executable table model without
    metamethods behave like tables; overlapping moves in both directions on a concrete table -/
example : LawfulView fstore (fun st k => st k) :=
  ⟨fun _ _ => rfl, fun _ _ _ => ⟨_, rfl, fun _ => rfl⟩⟩

example := C19Tab.mstore_raw_lawful

example : (move mstore ⟨[(1, .int 10), (2, .int 20), (3, .int 30)], [], .none, .none⟩ 1 3 2).toOption.map
    (fun t => [t.own.get 1, t.own.get 2, t.own.get 3, t.own.get 4]) = some [.int 10, .int 10, .int 20, .int 30] := by decide
example : (move mstore ⟨[(1, .int 10), (2, .int 20), (3, .int 30)], [], .none, .none⟩ 2 3 1).toOption.map
    (fun t => [t.own.get 1, t.own.get 2, t.own.get 3]) = some [.int 20, .int 30, .int 30] := by decide

/-! ## tables: concat / unpack / pack -/

/-- `table.concat(t, sep, i, j)` over valid fields is the fields `i..j` joined by `sep`; empty for `i > j` -/
theorem concat_range {σ : Type} {S : Store σ} {view : σ → Int → Val} (hL : LawfulView S view)
    (st : σ) (sep : Bytes) (i j : Int) :
    (i > j → concat S st sep i j = .ok []) ∧
    (i ≤ j → ∀ bs, (viewRange (view st) i ((j - i).toNat + 1)).mapM fieldBytes = some bs →
      concat S st sep i j = .ok (joinSep sep bs)) ∧
    (i ≤ j → (viewRange (view st) i ((j - i).toNat + 1)).mapM fieldBytes = none →
      concat S st sep i j = .error .arg) := by
  refine ⟨?_, ?_, ?_⟩
  · intro h; unfold concat; simp only [h, if_true]; rfl
  · intro h bs hbs
    unfold concat
    have : ¬ (i > j) := by omega
    simp only [this, if_false]
    exact C19Tab.concatFrom_view hL st sep _ i bs hbs
  · intro h hbs
    unfold concat
    have : ¬ (i > j) := by omega
    simp only [this, if_false]
    exact C19Tab.concatFrom_invalid hL st sep _ i hbs

example : (concat mstore ⟨[(1, .str [49]), (2, .str [120]), (3, .str [51])], [], .none, .none⟩ [44] 1 3).toOption
    = some [49, 44, 120, 44, 51] := by decide
example : (match concat mstore ⟨[(1, .str [49]), (2, .bool true)], [], .none, .none⟩ [44] 1 2 with
    | .error .arg => true | _ => false) = true := by decide

/-- `table.unpack(t, i, j)` returns exactly `j − i + 1` values, the k-th being `t[i + k]`; none for `i > j`;
    an error (never a wrap-around or a huge allocation) when `j − i ≥ INT_MAX` -/
theorem unpack_count {σ : Type} {S : Store σ} {view : σ → Int → Val} (hL : LawfulView S view)
    (st : σ) (i e : Int) :
    (i > e → unpack S st i e = .ok []) ∧
    (i ≤ e → e - i < intMaxC → ∃ vs, unpack S st i e = .ok vs ∧ vs.length = (e - i + 1).toNat ∧
      ∀ k : Nat, k < vs.length → vs[k]? = some (view st (i + k))) ∧
    (i ≤ e → e - i ≥ intMaxC → unpack S st i e = .error .limit) := by
  refine ⟨C19Tab.unpack_empty S st i e, ?_, C19Tab.unpack_too_many S st i e⟩
  intro h1 h2
  refine ⟨_, C19Tab.unpack_view hL st i e h1 h2, C19Tab.viewRange_length _ _ _, ?_⟩
  intro k hk
  rw [C19Tab.viewRange_length] at hk
  exact C19Tab.viewRange_getElem? _ _ _ _ hk

/-- `table.pack(...)`: `n` is the number of arguments (nils included), field k is the k-th argument -/
theorem pack_n (vs : List Val) :
    (pack vs).n = vs.length ∧
    (∀ k : Nat, k < vs.length → (pack vs).get (k + 1) = vs[k]?.getD .nil) ∧
    (∀ k : Int, k < 1 ∨ k > vs.length → (pack vs).get k = .nil) := by
  refine ⟨rfl, ?_, ?_⟩
  · intro k hk
    unfold Packed.get pack
    have : (1 : Int) ≤ (k : Int) + 1 := by omega
    simp only [this, if_true]
    have e : ((k : Int) + 1 - 1).toNat = k := by omega
    rw [e]
    simp [List.getD]
  · intro k hk
    unfold Packed.get pack
    split
    · rename_i h1
      have : vs.length ≤ k.toNat - 1 := by omega
      simp [List.getD, List.getElem?_eq_none this]
    · rfl

example : (pack [.nil, .int 1, .nil]).n = 3 := by decide

/-! ## sort -/

/-- the permutation checker the oracle uses decides `List.Perm` -/
theorem perm_checker_sound_complete (a b : List Val) : isPerm a b = true ↔ a.Perm b :=
  C19Sort.isPerm_iff a b

/-- the adjacent-pairs ordered-ness checker is sound (and complete) w.r.t. `Sorted` whenever the comparison is
    a strict weak order on the elements -/
theorem sorted_checker_sound {α : Type} (lt : α → α → Bool) (l : List α) (h : SWOOn lt l) :
    isSortedAdj lt l = true ↔ Sorted lt l :=
  ⟨C19Sort.isSortedAdj_sound lt l h.negtrans, C19Sort.isSortedAdj_complete lt l⟩

/-- the brute-force strict-weak-order checker decides `SWOOn` -/
theorem swo_checker_sound_complete {α : Type} (lt : α → α → Bool) (l : List α) : isSWOOn lt l = true ↔ SWOOn lt l :=
  C19Sort.isSWOOn_iff lt l

/-- what the oracle checks (`isPerm ∧ (isSWOOn → isSortedAdj)`) is the specification of `table.sort` -/
theorem sort_checker_decides_spec (lt : Val → Val → Bool) (before after : List Val) :
    (isPerm after before = true ∧ (isSWOOn lt before = true → isSortedAdj lt after = true))
      ↔ SortSpec lt before after := by
  unfold SortSpec
  rw [perm_checker_sound_complete, swo_checker_sound_complete]
  constructor
  · intro ⟨hp, hs⟩
    refine ⟨hp, fun hswo => ?_⟩
    have hswo' : SWOOn lt after :=
      ⟨fun a ha => hswo.irrefl a (hp.mem_iff.mp ha),
       fun a ha b hb c hc => hswo.trans a (hp.mem_iff.mp ha) b (hp.mem_iff.mp hb) c (hp.mem_iff.mp hc),
       fun a ha b hb c hc => hswo.negtrans a (hp.mem_iff.mp ha) b (hp.mem_iff.mp hb) c (hp.mem_iff.mp hc)⟩
    exact (sorted_checker_sound lt after hswo').mp (hs hswo)
  · intro ⟨hp, hs⟩
    exact ⟨hp, fun hswo => C19Sort.isSortedAdj_complete lt after (hs hswo)⟩

/-- for ANY sequence of comparison outcomes (inconsistent, random, raising = `none`) a sorter that touches the
    data only by swapping positions ends with a permutation of what it started with: no element is lost or
    duplicated -/
theorem sort_never_loses (s : Sorter) (answers : Nat → Option Bool) (l : List Val) :
    (s.run answers 0 l).Perm l :=
  C19Sort.sorter_run_perm s answers 0 l

/-- golua's `Swap(i, j)` — two reads and two writes through `__index` / `__newindex` — is such a swap on any
    store that behaves like a table -/
theorem swap_through_getset {σ : Type} {S : Store σ} {view : σ → Int → Val} (hL : LawfulView S view) (st : σ) (i j : Int) :
    ∃ st', storeSwap S st i j = .ok st' ∧
      ∀ k, view st' k = if k = j + 1 then view st (i + 1) else if k = i + 1 then view st (j + 1) else view st k :=
  C19Sort.storeSwap_view hL st i j

/-- `sort_never_loses` on a table: a sorter that names only valid positions, run through get/set against ANY
    sequence of comparison outcomes, always finishes (no handler is asked anything that could fail), leaves
    `t[1..n]` a permutation of what it was — exactly the list-level run — and touches nothing outside `1..n` -/
theorem sort_never_loses_table {σ : Type} {S : Store σ} {view : σ → Int → Val} (hL : LawfulView S view)
    (n : Nat) (s : Sorter) (answers : Nat → Option Bool) (st : σ) (hs : s.InRange n) :
    ∃ st', s.runStore S answers 0 st = .ok st' ∧
      (viewRange (view st') 1 n).Perm (viewRange (view st) 1 n) ∧
      ∀ k : Int, k < 1 ∨ k > n → view st' k = view st k := by
  obtain ⟨st', h1, h2, h3⟩ := C19Sort.runStore_refines hL n s answers 0 st hs
  exact ⟨st', h1, h2 ▸ C19Sort.sorter_run_perm s answers 0 _, h3⟩

example : (Sorter.swap 0 2 (.less 0 1 fun b => if b then .swap 0 1 .done else .done)).InRange 3 :=
  ⟨by decide, by decide, by decide, by decide, fun b => by cases b <;> simp [Sorter.InRange]⟩

/-- the comparisons `lt, gt, mod3, abs, false` of the harness are strict weak orders on every list of integers
    (so their results must be ordered); the oracle relies on this for long lists -/
theorem named_comparisons_swo (name : String) (lt : Int → Int → Bool) (h : namedLt name = some lt)
    (hp : provedSWO name = true) (l : List Int) : SWOOn lt l :=
  C19Sort.named_swo name lt h hp l

/-- Lua's own `<` (the default comparison of `table.sort`, and the harness comparator `lt`) is a strict weak
    order on any list of numbers without NaN — integers and floats compared by exact mathematical value, so
    `maxinteger − 1 < maxinteger` and `2^53 < 2^53 + 1` — and on any list of strings (bytewise); so the result of
    sorting such a list must be ordered -/
theorem lua_order_swo (l : List Val) :
    ((∀ v ∈ l, ∃ x, v.num? = some x ∧ x.isNaN = false) → SWOOn ltD l) ∧
    ((∀ v ∈ l, ∃ s, v = .str s) → SWOOn ltD l) :=
  ⟨C19Sort.lua_lt_swo_numbers l, C19Sort.lua_lt_swo_strings l⟩

example : ltD (.str [49, 48]) (.str [57]) = true ∧ ltD (.str [90]) (.str [97]) = true ∧
    luaLt (.int 1) (.str [49]) = none := by decide

example : namedLt "mod3" = some (fun a b => decide (a % 3 < b % 3)) ∧ provedSWO "mod3" = true := ⟨rfl, by decide⟩
example : isSWOOn (fun a b : Int => decide (a ≤ b)) [1, 2] = false := by decide
example : isSWOOn (fun a b : Int => decide (a % 3 < b % 3)) [1, 4, 2, 3] = true := by decide

end GoluaVerif.Props.C19
