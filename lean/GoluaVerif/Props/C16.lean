/-
  Props.C16 — numeric for.  Theorems about Model.For (the mirror of prepfor/advfor in
  runtime/luacont.go, built on the REGENERATED comparisons of runtime/comp.go) and
  Spec.For (manual §3.3.5: forlimit, precomputed iteration count, no wrap-around).
  `numWF l` (every float is a genuine double) holds for everything `F64.decode` produces
  (Props.C02.decode_wf).  As of /repo 5163798 (limit tests `not (v <= limit)`) the value theorems hold
  for every numeric triple, NaN included.
-/
import GoluaVerif.Model.For
import GoluaVerif.Spec.For
import GoluaVerif.Proofs.ForLoop
import GoluaVerif.Proofs.ForFloat
import GoluaVerif.Props.C02_F64
namespace GoluaVerif.Props.C16
open GoluaVerif GoluaVerif.Spec GoluaVerif.Spec.For GoluaVerif.Proofs GoluaVerif.Proofs.ForLoop

/-- INTEGER LOOP, VALUES.  For every int64 start, every int64 step ≠ 0 and EVERY numeric limit — integers,
    finite floats, floats beyond the int64 range, ±∞ and NaN — the compiled loop (prepfor, then advfor
    after each iteration) lets the body see exactly the manual's sequence, whatever the number `cap` of
    iterations observed.  The only hypothesis, `numWF l`, is not a restriction of the statement: it says
    that a float limit is a genuine double, which holds for every value `F64.decode` produces
    (Props.C02.decode_wf). -/
theorem int_loop_values (cap : Nat) (s d : I64) (l : Num) (hd : d ≠ 0#64) (hwf : numWF l = true) :
    Model.For.run cap (.num (.int s)) (.num l) (.num (.int d)) =
      Spec.For.run false cap (.num (.int s)) (.num l) (.num (.int d)) := by
  have h1 : Model.For.run cap (.num (.int s)) (.num l) (.num (.int d)) = .values (intValues cap s l d) := by
    unfold Model.For.run
    rw [prepfor_int s d l hd hwf]
    simp only
    rw [loop_int s d l hd hwf]
  rw [h1]
  simp only [Spec.For.run, Val.toNum?, hd, if_false]

example : numWF (.flt .nan) = true ∧ numWF (.flt (.inf false)) = true ∧ (5#64 : I64) ≠ 0#64 := by decide

/-- regression (fixed in /repo 5163798): with a NaN limit neither the code nor the manual's loop runs,
    in either direction.  Before the fix `for i = 1, 0/0 do … end` iterated until overflow. -/
example :
    Model.For.run 3 (.num (.int 1#64)) (.num (.flt .nan)) (.num (.int 1#64)) = .values [] ∧
    Model.For.run 3 (.num (.int 1#64)) (.num (.flt .nan)) (.num (.int (BitVec.ofInt 64 (-1)))) = .values [] ∧
    Spec.For.run false 3 (.num (.int 1#64)) (.num (.flt .nan)) (.num (.int 1#64)) = .values [] := by
  decide +kernel

/-- INTEGER LOOP, TERMINATION with the explicit count (no fuel in the statement): after prepfor the
    start register holds the k-th value of the progression after k executions of advfor for every
    k below `count s l d`, and it is nil (the loop has ended) after exactly `count s l d` of them.
    `count` is the manual's precomputed iteration count; it is < 2^64. -/
theorem int_loop_terminates (s d : I64) (l : Num) (hd : d ≠ 0#64) (hwf : numWF l = true) :
    ∃ r0, Model.For.prepfor (.num (.int s)) (.num l) (.num (.int d)) = .ok r0 l (.int d) ∧
      (∀ k, k < count s l d → Model.For.iter k r0 l (.int d) = some (.int (value s d k))) ∧
      Model.For.iter (count s l d) r0 l (.int d) = none := by
  refine ⟨_, prepfor_int s d l hd hwf, ?_, ?_⟩
  · intro k hk
    rw [iter_int s d l hd hwf, if_pos hk]
  · rw [iter_int s d l hd hwf, if_neg (Nat.lt_irrefl _)]

/-- the iteration count is at most 2^64 (reached by `for i = math.mininteger, math.maxinteger`) -/
theorem count_le_two64 (s d : I64) (l : Num) (hd : d ≠ 0#64) : count s l d ≤ 2 ^ 64 := by
  have hdz := toInt_ne_zero hd
  have hs := toInt_range s
  have hdr := toInt_range d
  unfold count
  simp only
  split
  · omega
  · rename_i lim hlim
    have hb := forlimit_bounds hlim
    split
    · split
      · omega
      · have h3 : (lim - s.toInt) / d.toInt ≤ lim - s.toInt := Int.ediv_le_self _ (by omega)
        omega
    · split
      · omega
      · have h3 : (s.toInt - lim) / (-d.toInt) ≤ s.toInt - lim := Int.ediv_le_self _ (by omega)
        omega

/-- NO WRAP-AROUND: every value the loop produces is the mathematical `s + i·d` (computed without
    overflow) and it does not pass the limit. -/
theorem no_wraparound (s d : I64) (l : Num) (hd : d ≠ 0#64)
    (i : Nat) (hi : i < count s l d) :
    (value s d i).toInt = s.toInt + (i : Int) * d.toInt ∧
    (0 < d.toInt → Num.le (.int (value s d i)) l = true) ∧
    (d.toInt < 0 → Num.le l (.int (value s d i)) = true) := by
  have hn : l.isNaN = false := by
    cases hh : l.isNaN with
    | false => rfl
    | true => rw [count_nan s d l hh] at hi; omega
  have hdz := toInt_ne_zero hd
  have hs := toInt_range s
  have hS := scale_pos_int
  have key_le : ∀ (x : I64), Num.le (.int x) l = decide (x.toInt * (F64.scale : Int) ≤ l.key) := by
    intro x
    have : Num.le (.int x) l = (!(Num.int x).isNaN && !l.isNaN && decide ((Num.int x).key ≤ l.key)) := rfl
    rw [this, hn]; rfl
  have key_ge : ∀ (x : I64), Num.le l (.int x) = decide (l.key ≤ x.toInt * (F64.scale : Int)) := by
    intro x
    have : Num.le l (.int x) = (!l.isNaN && !(Num.int x).isNaN && decide (l.key ≤ (Num.int x).key)) := rfl
    rw [this, hn]; rfl
  unfold count at hi
  simp only at hi
  by_cases hpos : 0 < d.toInt
  · simp only [hpos, decide_true, if_true] at hi
    cases hlim : forlimit l true with
    | none => rw [hlim] at hi; simp at hi
    | some lim =>
      rw [hlim] at hi
      simp only at hi
      have hl := forlimit_pos hn hlim
      by_cases h2 : lim < s.toInt
      · simp [h2] at hi
      · simp only [h2, if_false] at hi
        have hq : (i : Int) ≤ (lim - s.toInt) / d.toInt := by
          have : 0 ≤ (lim - s.toInt) / d.toInt := Int.ediv_nonneg (by omega) (by omega)
          omega
        have h3 : (i : Int) * d.toInt ≤ (lim - s.toInt) / d.toInt * d.toInt :=
          Int.mul_le_mul_of_nonneg_right hq (by omega)
        have h4 := Int.ediv_mul_le (lim - s.toInt) hdz
        have h5 : 0 ≤ (i : Int) * d.toInt := Int.mul_nonneg (by omega) (by omega)
        have hv : (value s d i).toInt = s.toInt + (i : Int) * d.toInt := by
          unfold value
          rw [BitVec.toInt_ofInt, bmod64]; split <;> omega
        refine ⟨hv, ?_, by omega⟩
        intro _
        rw [key_le, hv, decide_eq_true_eq]
        have h6 : s.toInt + (i : Int) * d.toInt ≤ floorZ l := by omega
        have h7 := Int.ediv_mul_le l.key (Int.ne_of_gt hS)
        have h8 := Int.mul_le_mul_of_nonneg_right h6 (Int.le_of_lt hS)
        unfold floorZ at h8
        omega
  · have hneg : d.toInt < 0 := by omega
    simp only [hpos, decide_false, Bool.false_eq_true, if_false] at hi
    cases hlim : forlimit l false with
    | none => rw [hlim] at hi; simp at hi
    | some lim =>
      rw [hlim] at hi
      simp only at hi
      have hl := forlimit_neg hn hlim
      by_cases h2 : s.toInt < lim
      · simp [h2] at hi
      · simp only [h2, if_false] at hi
        have hq : (i : Int) ≤ (s.toInt - lim) / (-d.toInt) := by
          have : 0 ≤ (s.toInt - lim) / (-d.toInt) := Int.ediv_nonneg (by omega) (by omega)
          omega
        have h3 : (i : Int) * (-d.toInt) ≤ (s.toInt - lim) / (-d.toInt) * (-d.toInt) :=
          Int.mul_le_mul_of_nonneg_right hq (by omega)
        have h4 := Int.ediv_mul_le (s.toInt - lim) (b := -d.toInt) (by omega)
        have h5 : 0 ≤ (i : Int) * (-d.toInt) := Int.mul_nonneg (by omega) (by omega)
        have h5' : (i : Int) * (-d.toInt) = -((i : Int) * d.toInt) := Int.mul_neg _ _
        have hv : (value s d i).toInt = s.toInt + (i : Int) * d.toInt := by
          unfold value
          rw [BitVec.toInt_ofInt, bmod64]; split <;> omega
        refine ⟨hv, by omega, ?_⟩
        intro _
        rw [key_ge, hv, decide_eq_true_eq]
        have h6 : ceilZ l ≤ s.toInt + (i : Int) * d.toInt := by omega
        have h7 := Int.ediv_mul_le (-l.key) (Int.ne_of_gt hS)
        have h8 := Int.mul_le_mul_of_nonneg_right h6 (Int.le_of_lt hS)
        unfold ceilZ at h8
        rw [Int.neg_mul] at h8
        omega

/-- nothing is `<=` NaN: a NaN limit gives no iteration -/
theorem count_nan_limit (s d : I64) (l : Num) (hn : l.isNaN = true) : count s l d = 0 :=
  count_nan s d l hn

/-- THE COUNT IS NOT TOO SMALL (for a limit that is a number; for NaN see `count_nan_limit`): the term after the last one passes the limit (exact comparison of the
    mathematical values, in units of 2^-1074) or leaves the int64 range ("the loop ends in case of an
    overflow").  Together with `no_wraparound` this pins `count` to the manual's sequence. -/
theorem count_maximal (s d : I64) (l : Num) (hd : d ≠ 0#64) (hn : l.isNaN = false) :
    (0 < d.toInt → maxI < s.toInt + (count s l d : Int) * d.toInt ∨
        l.key < (s.toInt + (count s l d : Int) * d.toInt) * (F64.scale : Int)) ∧
    (d.toInt < 0 → s.toInt + (count s l d : Int) * d.toInt < minI ∨
        (s.toInt + (count s l d : Int) * d.toInt) * (F64.scale : Int) < l.key) := by
  have hdz := toInt_ne_zero hd
  have hs := toInt_range s
  have hS := scale_pos_int
  have hmin : minI = -9223372036854775808 := by decide
  have hmax : maxI = 9223372036854775807 := by decide
  have fl : ∀ x : Int, floorZ l < x → l.key < x * (F64.scale : Int) :=
    fun x h => (Int.ediv_lt_iff_lt_mul hS).mp h
  have cl : ∀ x : Int, x < ceilZ l → x * (F64.scale : Int) < l.key := by
    intro x h
    unfold ceilZ at h
    have h2 : -l.key / (F64.scale : Int) < -x := by omega
    have := (Int.ediv_lt_iff_lt_mul hS).mp h2
    rw [Int.neg_mul] at this; omega
  constructor
  · intro hpos
    unfold count
    simp only [hpos, decide_true, if_true]
    cases hlim : forlimit l true with
    | none =>
      have := forlimit_pos_none hn hlim
      right; simp only [Int.natCast_zero, Int.zero_mul, Int.add_zero]
      exact fl _ (by omega)
    | some lim =>
      have hl := forlimit_pos hn hlim
      simp only
      by_cases h2 : lim < s.toInt
      · simp only [h2, if_true, Int.natCast_zero, Int.zero_mul, Int.add_zero]
        right; exact fl _ (by omega)
      · simp only [h2, if_false]
        have hq : 0 ≤ (lim - s.toInt) / d.toInt := Int.ediv_nonneg (by omega) (by omega)
        have hc : ((((lim - s.toInt) / d.toInt).toNat + 1 : Nat) : Int) = (lim - s.toInt) / d.toInt + 1 := by omega
        rw [hc]
        have h4 := Int.lt_ediv_add_one_mul_self (lim - s.toInt) hpos
        rcases hl.2.2.2 with h5 | h5
        · left; omega
        · right; exact fl _ (by omega)
  · intro hneg
    have hpos : ¬ 0 < d.toInt := by omega
    unfold count
    simp only [hpos, decide_false, Bool.false_eq_true, if_false]
    cases hlim : forlimit l false with
    | none =>
      have := forlimit_neg_none hn hlim
      right; simp only [Int.natCast_zero, Int.zero_mul, Int.add_zero]
      exact cl _ (by omega)
    | some lim =>
      have hl := forlimit_neg hn hlim
      simp only
      by_cases h2 : s.toInt < lim
      · simp only [h2, if_true, Int.natCast_zero, Int.zero_mul, Int.add_zero]
        right; exact cl _ (by omega)
      · simp only [h2, if_false]
        have hq : 0 ≤ (s.toInt - lim) / (-d.toInt) := Int.ediv_nonneg (by omega) (by omega)
        have hc : ((((s.toInt - lim) / (-d.toInt)).toNat + 1 : Nat) : Int) = (s.toInt - lim) / (-d.toInt) + 1 := by omega
        rw [hc]
        have h4 := Int.lt_ediv_add_one_mul_self (s.toInt - lim) (b := -d.toInt) (by omega)
        have h6 : ((s.toInt - lim) / (-d.toInt) + 1) * (-d.toInt) = -(((s.toInt - lim) / (-d.toInt) + 1) * d.toInt) :=
          Int.mul_neg _ _
        rcases hl.2.2.2 with h5 | h5
        · left; omega
        · right; exact cl _ (by omega)

example : (3 : Nat) < count 1#64 (.int 10#64) 2#64 := by decide +kernel

/-- FLOAT LOOP, VALUES.  When the initial value or the step is a float (the other one, if an integer, is
    converted), the compiled loop produces exactly the manual's sequence for EVERY triple of numbers,
    NaN and ±∞ included: repeated float addition, continuing while `v <= limit` (`limit <= v` for a
    non-positive step), compared exactly with the limit; a zero step is an error.  The overflow test of
    advfor (`next < start`) never fires because float addition is monotone (`fadd_mono_pos/neg`, from the
    exact rounding model).  Hypotheses `numWF`: the floats are genuine doubles (see `int_loop_values`).
    The limit is compared exactly (reading `convLimit = false`; see `float_limit_readings_agree` for when
    the manual's "converted to floats" reading coincides — the manual is open there). -/
theorem float_loop_values (cap : Nat) (a l d : Num)
    (hfloat : ∀ s t, ¬ (a = .int s ∧ d = .int t))
    (hwa : numWF a = true) (hwl : numWF l = true) (hwd : numWF d = true) :
    Model.For.run cap (.num a) (.num l) (.num d) = Spec.For.run false cap (.num a) (.num l) (.num d) := by
  cases a with
  | int s =>
    cases d with
    | int t => exact absurd ⟨rfl, rfl⟩ (hfloat s t)
    | flt fd =>
      rw [ForFloat.model_run_unified cap _ l _ (F64.ofI64 s) fd rfl,
        ForFloat.run_float cap (F64.ofI64 s) fd l (Props.C02.ofI64_wf s) hwd hwl]
      rfl
  | flt fs =>
    cases d with
    | int t =>
      rw [ForFloat.model_run_unified cap _ l _ fs (F64.ofI64 t) rfl,
        ForFloat.run_float cap fs (F64.ofI64 t) l hwa (Props.C02.ofI64_wf t) hwl]
      rfl
    | flt fd =>
      rw [ForFloat.model_run_unified cap _ l _ fs fd rfl,
        ForFloat.run_float cap fs fd l hwa hwd hwl]
      rfl

/-- ALL NUMERIC TRIPLES: integer loop, float loop and zero step together -/
theorem for_loop_values (cap : Nat) (a l d : Num)
    (hwa : numWF a = true) (hwl : numWF l = true) (hwd : numWF d = true) :
    Model.For.run cap (.num a) (.num l) (.num d) = Spec.For.run false cap (.num a) (.num l) (.num d) := by
  by_cases hint : ∃ s t, a = .int s ∧ d = .int t
  · obtain ⟨s, t, rfl, rfl⟩ := hint
    by_cases ht : t = 0#64
    · subst ht; rfl
    · exact int_loop_values cap s t l ht hwl
  · exact float_loop_values cap a l d (fun s t h => hint ⟨s, t, h⟩) hwa hwl hwd

example : (∀ s t, ¬ ((Num.flt .nan) = .int s ∧ (Num.int 3#64) = .int t)) ∧ numWF (.flt .nan) = true :=
  ⟨fun s t h => Num.noConfusion h.1, rfl⟩

/-- The two readings of the limit of a float loop (the manual: "the three values are converted to
    floats"; the property statement: the progression "does not pass e2", compared exactly) give the same
    loop whenever the limit is a float, or an integer that a double represents exactly (|l| < 2^53).
    They differ only for integer limits beyond 2^53, where golua compares exactly and lvm.c with the
    rounded limit; the check tolerates both there. -/
theorem float_limit_readings_agree (cap : Nat) (a d : Val) (l : Num)
    (hl : (∃ f, l = .flt f) ∨ (∃ n : I64, l = .int n ∧ n.toInt.natAbs < 2 ^ 53)) :
    Spec.For.run true cap a (.num l) d = Spec.For.run false cap a (.num l) d := by
  have hfc : ∀ (p : Bool) (v : F64), fcont p v (.flt (toFlt l)) = fcont p v l := by
    intro p v
    rcases hl with ⟨f, rfl⟩ | ⟨n, rfl, hn⟩
    · rfl
    · have hk : (Num.flt (toFlt (.int n))).key = (Num.int n).key := by
        show (F64.ofInt n.toInt).key = F64.intKey n.toInt
        rw [ofInt_key_of_small hn]; rfl
      have hle1 : Num.le (.flt v) (.flt (toFlt (.int n))) = Num.le (.flt v) (.int n) := by
        show (!(Num.flt v).isNaN && !(Num.flt (toFlt (.int n))).isNaN && decide ((Num.flt v).key ≤ (Num.flt (toFlt (.int n))).key))
          = (!(Num.flt v).isNaN && !(Num.int n).isNaN && decide ((Num.flt v).key ≤ (Num.int n).key))
        rw [hk]; rfl
      have hle2 : Num.le (.flt (toFlt (.int n))) (.flt v) = Num.le (.int n) (.flt v) := by
        show (!(Num.flt (toFlt (.int n))).isNaN && !(Num.flt v).isNaN && decide ((Num.flt (toFlt (.int n))).key ≤ (Num.flt v).key))
          = (!(Num.int n).isNaN && !(Num.flt v).isNaN && decide ((Num.int n).key ≤ (Num.flt v).key))
        rw [hk]; rfl
      cases p
      · exact hle2
      · exact hle1
  have hfv : ∀ (cap : Nat) (v dd : F64), floatValues cap v (.flt (toFlt l)) dd = floatValues cap v l dd := by
    intro cap
    induction cap with
    | zero => intros; rfl
    | succ cap ih => intro v dd; simp only [floatValues, hfc, ih]
  unfold Spec.For.run
  generalize a.toNum? = oa
  generalize d.toNum? = od
  have hl' : (Val.num l).toNum? = some l := rfl
  rw [hl']
  cases oa with
  | none => rfl
  | some a' =>
    cases od with
    | none => rfl
    | some d' =>
      cases a' <;> cases d' <;> simp only [hfv, if_true, Bool.false_eq_true, if_false]

/-- regression (fixed in /repo 5163798): a NaN limit, a NaN initial value or ∞ + (−∞) end the float loop
    at once / after the first value, for the code as for the manual.  Before the fix these loops never ended. -/
example :
    Model.For.run 3 (.num (.flt (F64.ofI64 1#64))) (.num (.flt .nan)) (.num (.int 1#64)) = .values [] ∧
    Model.For.run 3 (.num (.flt .nan)) (.num (.int 3#64)) (.num (.int 1#64)) = .values [] ∧
    Model.For.run 3 (.num (.flt (.inf true))) (.num (.int 0#64)) (.num (.flt (.inf false))) =
      .values [.flt (.inf true)] := by
  decide +kernel

/-- a zero step is an error whatever the other two values are, in an integer loop and in a float loop
    (`±0.0`) alike, for the code and for the manual -/
theorem zero_step_error (cap : Nat) (a l : Num) :
    Model.For.run cap (.num a) (.num l) (.num (.int 0#64)) = .error ∧
    Spec.For.run false cap (.num a) (.num l) (.num (.int 0#64)) = .error ∧
    ∀ neg, Model.For.run cap (.num a) (.num l) (.num (.flt (.fin neg 0))) = .error ∧
      Spec.For.run false cap (.num a) (.num l) (.num (.flt (.fin neg 0))) = .error := by
  have hz : F64.isZero (F64.ofI64 0#64) = true := by decide +kernel
  have hz' : ∀ neg, F64.isZero (.fin neg 0) = true := by intro neg; cases neg <;> decide
  refine ⟨?_, ?_, ?_⟩
  · cases a with
    | int s => rfl
    | flt f => simp only [Model.For.run, Model.For.prepfor, Val.toNum?, Model.For.unify, Model.For.isZero, hz, if_true]
  · cases a with
    | int s => rfl
    | flt f => simp only [Spec.For.run, Val.toNum?, toFlt, hz, if_true]
  · intro neg
    constructor
    · cases a <;>
        simp only [Model.For.run, Model.For.prepfor, Val.toNum?, Model.For.unify, Model.For.isZero, hz' neg, if_true]
    · cases a <;> simp only [Spec.For.run, Val.toNum?, toFlt, hz' neg, if_true]

/-- the zero test is on the VALUE: `isZero` (runtime/comp.go, `x.AsFloat() == 0`) holds exactly for the
    integer 0 and for the two signed float zeros +0.0 and -0.0 — not for a bit pattern -/
theorem isZero_iff (n : Num) :
    Model.For.isZero n = true ↔ (n = .int 0#64 ∨ ∃ neg, n = .flt (.fin neg 0)) := by
  cases n with
  | int x =>
    simp only [Model.For.isZero, beq_iff_eq]
    constructor
    · intro h; exact Or.inl (by rw [h])
    · intro h
      rcases h with h | ⟨neg, h⟩
      · injection h
      · cases h
  | flt f =>
    have hh : ((2 : Nat) ^ 2100 : Int) ≠ 0 := by
      have : (0 : Int) < ((2 : Nat) ^ 2100 : Int) := Int.natCast_pos.mpr (Nat.two_pow_pos 2100)
      omega
    cases f with
    | nan => simp [Model.For.isZero, F64.isZero, F64.beq, F64.isNaN]
    | inf s =>
      have hk : (F64.inf s).key ≠ 0 := by
        cases s
        · show ((2 ^ 2100 : Nat) : Int) ≠ 0; exact hh
        · show -((2 ^ 2100 : Nat) : Int) ≠ 0; omega
      have hz : F64.isZero (.inf s) = false := by
        show (!(F64.inf s).isNaN && !F64.zero.isNaN && decide ((F64.inf s).key = F64.zero.key)) = false
        have : F64.zero.key = 0 := rfl
        rw [this]
        simp [hk, F64.isNaN]
      simp [Model.For.isZero, hz]
    | fin neg m =>
      cases neg <;>
        simp [Model.For.isZero, F64.isZero, F64.beq, F64.isNaN, F64.key, F64.zero]

/-- in particular a step of -0.0 (however it is spelled: `-0.0`, `0*-1.0`, `-1/math.huge`, the string
    '-0.0') is the error "'for' step is zero", exactly like +0.0 and 0, for the code and for the manual -/
theorem negative_zero_step_error (cap : Nat) (a l : Num) :
    Model.For.run cap (.num a) (.num l) (.num (.flt (.fin true 0))) = .error ∧
    Spec.For.run false cap (.num a) (.num l) (.num (.flt (.fin true 0))) = .error ∧
    Model.For.run cap (.num a) (.num l) (.str (some (.flt (.fin true 0)))) = .error ∧
    Spec.For.run false cap (.num a) (.num l) (.str (some (.flt (.fin true 0)))) = .error := by
  have h := (zero_step_error cap a l).2.2 true
  exact ⟨h.1, h.2, h.1, h.2⟩

/-- a control value that is not a number (and not a string denoting one) is an error -/
theorem non_number_error (cap : Nat) (a l d : Val)
    (h : a.toNum? = none ∨ l.toNum? = none ∨ d.toNum? = none) :
    Model.For.run cap a l d = .error ∧ Spec.For.run false cap a l d = .error := by
  unfold Model.For.run Model.For.prepfor Spec.For.run
  rcases h with h | h | h
  · rw [h]; exact ⟨rfl, rfl⟩
  · rw [h]; cases a.toNum? <;> exact ⟨rfl, rfl⟩
  · rw [h]; cases a.toNum? <;> cases l.toNum? <;> exact ⟨rfl, rfl⟩

example : (Val.str none).toNum? = none ∧ Val.other.toNum? = none := ⟨rfl, rfl⟩

/-- assigning to the loop variable inside the body does not disturb the iteration: the body works on
    a copy (`r4 <- r1`), advfor reads the hidden register -/
theorem body_assignment_irrelevant (body : Num → Num) (cap : Nat) (r : Option Num) (stop step : Num) :
    Model.For.loopWithBody body cap r stop step = Model.For.loopFrom cap r stop step := by
  induction cap generalizing r with
  | zero => rfl
  | succ cap ih =>
    cases r with
    | none => rfl
    | some cur => simp only [Model.For.loopWithBody, Model.For.loopFrom, ih]

end GoluaVerif.Props.C16
