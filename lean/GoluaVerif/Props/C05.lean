/-
  Props.C05 — a CPU limit is a hard, exact and uninterceptable bound.

  Stated over `Model.Ctx` / `Model.CallCtx` (mirrors of runtimecontextmanager.go and
  Thread.CallContext, compared with the real code on every run) on top of the REGENERATED
  `Generated.Resources.atLimit`.  A program is represented by the sequence of CPU amounts it asks
  for (`cpuOps ns`); that this sequence does not depend on the limit up to the kill point is the
  determinism of the VM, checked by the Lua-level sweep, not proved here.
-/
import GoluaVerif.Proofs.Ctx
import GoluaVerif.Proofs.CallCtx
namespace GoluaVerif.Props.C05
open GoluaVerif.Generated.Resources GoluaVerif.Model.Ctx GoluaVerif.Spec.Quota GoluaVerif.Proofs.Ctx
open GoluaVerif.Model.CallCtx GoluaVerif.Proofs.CallCtx

/-- a fresh context with hard CPU limit `L` on top of an unlimited runtime -/
def limited (L : BitVec 64) : Frame := Frame.root.child ⟨⟨L, 0#64, 0#64⟩, Res.zero, 0#16⟩

theorem limited_metered {L : BitVec 64} (hL : L ≠ 0#64) :
    Metered (limited L) ∧ (limited L).hard.Cpu = L ∧ (limited L).used.Cpu = 0#64 := by
  have hh : (limited L).hard.Cpu = L := by
    show ((Res.zero.Remove Res.zero).Merge ⟨L, 0#64, 0#64⟩).Cpu = L
    rw [Merge_Cpu]
    have : smallerLimit L (Res.zero.Remove Res.zero).Cpu = true := by
      rw [smallerLimit_iff]; exact ⟨hL, Or.inl (BitVec.eq_of_toNat_eq (by rw [Remove_Cpu]; rfl))⟩
    rw [this]; rfl
  refine ⟨⟨rfl, (show (0#8 &&& HardStop != 0#8) = false by decide), ?_, (by rw [hh]; exact hL), ?_⟩, hh, rfl⟩
  · show (BitVec.ult 0#64 (limited L).hard.Cpu || _ || _) = true
    rw [hh, (ult_zero_iff _).mpr hL]; rfl
  · rw [hh]; exact (ne_zero_iff L).mp hL

/-- a single request is refused exactly when the counter would reach the limit (the counter is
compared *before* it is advanced, so it never reaches `L`) -/
theorem kill_step_exact (f : Frame) (n : BitVec 64) (h : Metered f) (hn : n.toNat + f.hard.Cpu.toNat ≤ 2 ^ 64) :
    (f.requireCPU n).2 = .terminated ↔ f.hard.Cpu.toNat ≤ f.used.Cpu.toNat + n.toNat := by
  rcases metered_step n h hn with ⟨hk, e⟩ | ⟨hlt, hok, _⟩
  · rw [e]; exact ⟨fun _ => hk, fun _ => rfl⟩
  · rw [hok]; exact ⟨(fun h => nomatch h), (fun h => by omega)⟩

/-- **exact**: a computation whose CPU requests are `ns` (total `usage ns`) run under limit `L > 0`
is killed iff `L ≤ usage ns` -/
theorem kill_exact (L : BitVec 64) (ns : List (BitVec 64)) (hL : L ≠ 0#64) (hf : Fits L ns) :
    Outcome.terminated ∈ outcomes ⟨limited L, []⟩ (cpuOps ns) ↔ L.toNat ≤ usage ns := by
  obtain ⟨hm, hh, hu⟩ := limited_metered hL
  have := kill_exact_aux ns hm (by rw [hh]; exact hf)
  rw [hh, hu] at this
  simpa using this

/-- **monotone**: killed under `L` ⇒ killed under every smaller limit -/
theorem kill_monotone (L L' : BitVec 64) (ns : List (BitVec 64)) (hL' : L' ≠ 0#64) (hle : L'.toNat ≤ L.toNat)
    (hf : Fits L ns) (hk : Outcome.terminated ∈ outcomes ⟨limited L, []⟩ (cpuOps ns)) :
    Outcome.terminated ∈ outcomes ⟨limited L', []⟩ (cpuOps ns) := by
  have hL : L ≠ 0#64 := by rw [ne_zero_iff] at *; omega
  have hf' : Fits L' ns := fun n hn => by have := hf n hn; omega
  rw [kill_exact L' ns hL' hf']
  have := (kill_exact L ns hL hf).mp hk
  omega

/-- when not killed, every request is granted in order (same execution as without a limit), the
counter ends at exactly the usage, and the context is still live -/
theorem results_identical_when_not_killed (L : BitVec 64) (ns : List (BitVec 64)) (hL : L ≠ 0#64)
    (hf : Fits L ns) (hlt : usage ns < L.toNat) :
    outcomes ⟨limited L, []⟩ (cpuOps ns) = ns.map (fun _ => Outcome.ok) ∧
    (run ⟨limited L, []⟩ (cpuOps ns)).cur.used.Cpu.toNat = usage ns ∧
    (run ⟨limited L, []⟩ (cpuOps ns)).cur.live = true := by
  obtain ⟨hm, hh, hu⟩ := limited_metered hL
  have := not_killed_runs_all ns hm (by rw [hh]; exact hf) (by rw [hh, hu]; simpa using hlt)
  rw [hu] at this
  simpa using this

/-- the counter of a context and of all its ancestors stays strictly below the limit in every
reachable state: the computation is stopped *before* the counter reaches `L` -/
theorem cpu_never_reaches_limit {s : St} (hr : Reachable St.init s) :
    ∀ f ∈ s.frames, below f.used.Cpu f.hard.Cpu := by
  have hinv := Proofs.Ctx.inv_reachable inv_init hr
  obtain ⟨c, ps⟩ := s
  obtain ⟨hc, hch⟩ := hinv
  have aux : ∀ (c : Frame) (ps : List Frame), ChainInv c ps → ∀ f ∈ ps, below f.used.Cpu f.hard.Cpu := by
    intro c ps
    induction ps generalizing c with
    | nil => intro _ f hf; cases hf
    | cons p ps ih =>
      intro h f hf
      rcases List.mem_cons.mp hf with rfl | hf
      · exact h.2.1.cpu
      · exact ih p h.2.2.2 f hf
  intro f hf
  rcases List.mem_cons.mp hf with rfl | hf
  · exact hc.cpu
  · exact aux c ps hch f hf

/-- a killed context stays killed and TerminateContext fires once: in a legal history nothing but
PopContext follows a termination -/
theorem kill_is_final (f : Frame) (n : BitVec 64) (hl : f.live = true) (hk : (f.requireCPU n).2 = .terminated) :
    (f.requireCPU n).1.status = StatusKilled ∧ (f.requireCPU n).1.used = f.used ∧
    ∀ op, legalOp ⟨(f.requireCPU n).1, []⟩ op = true → op = .pop ∨ op = .due := by
  rcases requireCPU_live f n hl with ⟨_, e⟩ | ⟨_, _, e⟩ | ⟨_, _, _, e⟩
  · rw [e] at hk; cases hk
  · rw [e]
    refine ⟨rfl, rfl, fun op h => ?_⟩
    cases op <;> first | exact Or.inl rfl | exact Or.inr rfl | (simp [legalOp, kill_live] at h)
  · rw [e] at hk; cases hk

/-- **no step after the kill** (bracketed model): when an item of a body ends in a termination the
rest of that body is not executed — the state, the host-visible events and the results are those
right after the kill; the enclosing CallContext then only pops. -/
theorem no_step_after_kill (a a1 : Acc) (it : Item) (rest : List Item) (h : runItem a it = (a1, .killed)) :
    runBody a (it :: rest) = (a1, .killed) := by
  unfold runBody; rw [h]

/-- a kill inside a context ends that context with status `killed` and hands control back to a
live, aligned parent which has been charged — for every well-formed body, from every state
satisfying the invariant -/
theorem kill_returns_to_parent (a : Acc) (d : CtxDef) (body : List Item) (hw : wfBody body = true)
    (hi : Inv a.st) (hl : a.st.cur.live = true) :
    let r := runItem a (.call d body)
    r.2 ≠ .killed ∧ r.1.st.parents = a.st.parents ∧ r.1.st.cur.live = true ∧ Inv r.1.st := by
  have g := good_item a (.call d body) (by unfold Item.wf; exact hw) hi hl
  have hne : (runItem a (.call d body)).2 ≠ .killed := by
    intro hk
    have h1 := g.killed hk
    -- the frame current after a call is the charged parent, which is live: impossible
    unfold runItem at hk h1
    simp only at hk h1
    revert hk h1
    cases hr : runBody { a with st := push a.st d } body with
    | mk a1 ex =>
      have gb := good_body { a with st := push a.st d } body hw (inv_step (.push d) hi hl) rfl
      rw [hr] at gb
      have hpar : a1.st.parents = a.st.cur :: a.st.parents := gb.parents
      have hi2 : Inv (if ex = Exit.error then setError a1.st else a1.st) := by
        split
        · exact inv_setError gb.inv
        · exact gb.inv
      have hpar2 : (if ex = Exit.error then setError a1.st else a1.st).parents = a.st.cur :: a.st.parents := by
        split <;> exact hpar
      obtain ⟨hc2, hch2⟩ := hi2
      rw [hpar2] at hch2
      obtain ⟨hcp, hp, hpl, _⟩ := hch2
      have hpop := pop_ok (ps := a.st.parents) hc2 hp hpl hcp
      rw [← hpar2] at hpop
      simp only [hpop]
      cases ex <;> intro hk <;> cases hk
  exact ⟨hne, g.parents, g.live hne, g.inv⟩

def interceptDef : CtxDef := ⟨⟨10#64, 0#64, 0#64⟩, Res.zero, 0#16⟩
/-- `callcontext{kill={cpu=10}}( pcall(big) ; 9 more ticks )` -/
def interceptProg : Item :=
  .call interceptDef [.call CtxDef.none [.op (.reqCpu 20#64)], .op (.reqCpu 1#64), .op (.reqCpu 8#64)]

/-- **uninterceptable is FALSE of the current code** for requests larger than the remaining budget:
the request of 20 under a limit of 10 kills only the pcall child (which has used 0), nothing is
charged, and the parent goes on to do 9 more ticks of work and ends `done`.  Replayed on the real
interpreter by the probes of checks/c05.py (`pcall(string.find, s, 'b', 1, true)`). -/
theorem uninterceptable_counterexample :
    (exec St.init interceptProg).1.events.reverse.map (fun e => (e.depth, e.out)) =
      [(2, .terminated), (1, .ok), (1, .ok)] ∧
    (exec St.init interceptProg).1.results.reverse.map (fun r => (r.depth, r.status, r.exit)) =
      [(2, StatusKilled, .killed), (1, StatusDone, .done)] := by decide

/-- unit requests cannot be intercepted: if a request of one tick is refused in a pcall child that
inherited all of its parent's remaining budget, then after the child is popped the parent has
exactly one tick less than its limit, so its next request of any size `n ≥ 1` is refused too.
(The general statement is the counterexample above; the missing part is requests larger than 1.) -/
theorem uninterceptable_unit_partial (p c : Frame) (hp : Metered p) (hpo : FrameOk p) (hc : FrameOk c)
    (hch : Chain c p) (hinherit : c.hard.Cpu = (p.hard.Remove p.used).Cpu) (hcm : Metered c)
    (hkill : (c.requireCPU 1#64).2 = .terminated)
    (n : BitVec 64) (hn : n ≠ 0#64) (hfit : n.toNat + p.hard.Cpu.toNat ≤ 2 ^ 64) :
    ((pop ⟨(c.requireCPU 1#64).1, [p]⟩).1.cur.requireCPU n).2 = .terminated := by
  have hc1 : c.hard.Cpu.toNat + p.hard.Cpu.toNat ≤ 2 ^ 64 → True := fun _ => trivial
  have hrem := Remove_Cpu p.hard p.used
  have hpb := hp.below
  have hcb := hcm.below
  have hcl : c.hard.Cpu.toNat = p.hard.Cpu.toNat - p.used.Cpu.toNat := by rw [hinherit, hrem]
  -- the refused unit request: used + 1 ≥ hard, used unchanged
  have hfit1 : (1#64 : BitVec 64).toNat + c.hard.Cpu.toNat ≤ 2 ^ 64 := by
    have := p.hard.Cpu.isLt; simp; omega
  have hk := (kill_step_exact c 1#64 hcm hfit1).mp hkill
  have hk1 : (1#64 : BitVec 64).toNat = 1 := by simp
  rw [hk1] at hk
  have ec : c.requireCPU 1#64 = (c.kill, .terminated) := by
    rcases metered_step 1#64 hcm hfit1 with ⟨_, e⟩ | ⟨hlt, _⟩
    · exact e
    · rw [hk1] at hlt; omega
  rw [ec]
  have hck : FrameOk c.kill := frameOk_kill hc
  have hchk : Chain c.kill p := ⟨hch.hard, hch.flags⟩
  rw [pop_ok (ps := []) hck hpo hp.live hchk]
  -- the parent after the pop
  have hs := charged_same p c.kill
  have hms := chargeMem_same (chargeCpu p c.kill.used.Cpu) c.kill.used.Memory
  have hu : (charged p c.kill).used.Cpu.toNat = p.used.Cpu.toNat + c.used.Cpu.toNat := by
    unfold charged; rw [hms.2.2.2.2.2.1]; unfold chargeCpu; rw [hp.track]
    exact (charge_cpu_below hck hpo hchk).2 hp.lim
  have hm' : Metered (charged p c.kill) :=
    ⟨by unfold Frame.live; rw [hs.2.2.2.1]; exact hp.live,
     by unfold Frame.hardStopped; rw [hs.2.2.2.2.1]; exact hp.nostop,
     by rw [hs.2.2.2.2.2.1]; exact hp.track, by rw [hs.1]; exact hp.lim, by rw [hs.1, hu]; omega⟩
  rw [kill_step_exact _ n hm' (by rw [hs.1]; exact hfit), hs.1, hu]
  have := (ne_zero_iff n).mp hn
  omega

/-! ## non-vacuity -/

/-- limit 10, requests 3+3+3 = 9: not killed; one more tick: killed at exactly L ≤ usage -/
example : Outcome.terminated ∉ outcomes ⟨limited 10#64, []⟩ (cpuOps [3#64, 3#64, 3#64]) ∧
    Outcome.terminated ∈ outcomes ⟨limited 10#64, []⟩ (cpuOps [3#64, 3#64, 3#64, 1#64]) ∧
    Fits 10#64 [3#64, 3#64, 3#64, 1#64] ∧ usage [3#64, 3#64, 3#64, 1#64] = 10 := by
  refine ⟨by decide, by decide, ?_, rfl⟩
  intro n hn
  simp only [List.mem_cons, List.not_mem_nil, or_false] at hn
  rcases hn with rfl | rfl | rfl | rfl <;> decide

/-- the hypotheses of `uninterceptable_unit_partial` are met by a pcall child under a limit of 10
after 9 unit ticks -/
example : let p := (run ⟨limited 10#64, []⟩ (cpuOps [4#64])).cur
    let c := (run ⟨p.child CtxDef.none, [p]⟩ (cpuOps [1#64, 1#64, 1#64, 1#64, 1#64])).cur
    c.hard.Cpu = 6#64 ∧ c.used.Cpu = 5#64 ∧ (c.requireCPU 1#64).2 = .terminated ∧
    ((pop ⟨(c.requireCPU 1#64).1, [p]⟩).1.cur.requireCPU 1#64).2 = .terminated := by decide

example : wfBody [.call CtxDef.none [.op (.reqCpu 20#64)], .op (.reqCpu 1#64)] = true := by decide

end GoluaVerif.Props.C05
