/-
  Props.C05 — a CPU limit is a hard, exact and uninterceptable bound.

  Stated over `Model.Ctx` / `Model.CallCtx` (mirrors of runtimecontextmanager.go and
  Thread.CallContext, compared with the real code on every run) on top of the REGENERATED
  `Generated.Resources.atLimit`.  A program is represented by the sequence of CPU amounts it asks
  for (`cpuOps ns`); that this sequence does not depend on the limit up to the kill point is the
  determinism of the VM, checked by the Lua-level sweep, not proved here.
-/
import GoluaVerif.Proofs.Ctx
import GoluaVerif.Proofs.Propagate
import GoluaVerif.Model.RecoverExpect
namespace GoluaVerif.Props.C05
open GoluaVerif.Generated.Resources GoluaVerif.Model.Ctx GoluaVerif.Spec.Quota GoluaVerif.Proofs.Ctx
open GoluaVerif.Model.CallCtx GoluaVerif.Proofs.CallCtx GoluaVerif.Proofs.Propagate

/-- a fresh context with hard CPU limit `L` on top of an unlimited runtime -/
def limited (L : BitVec 64) : Frame := Frame.root.child ⟨⟨L, 0#64, 0#64⟩, Res.zero, 0#16⟩

theorem limited_metered {L : BitVec 64} (hL : L ≠ 0#64) :
    Metered (limited L) ∧ (limited L).hard.Cpu = L ∧ (limited L).used.Cpu = 0#64 := by
  have hh : (limited L).hard.Cpu = L := by
    show ((Res.zero.Remove Res.zero).Merge ⟨L, 0#64, 0#64⟩).Cpu = L
    rw [Merge_Cpu]
    have : smallerLimit L (Res.zero.Remove Res.zero).Cpu = true := by
      rw [smallerLimit_iff]; exact ⟨hL, Or.inl (BitVec.eq_of_toNat_eq (by rw [Remove_Cpu]; rfl))⟩
    rw [this]; rfl
  refine ⟨⟨rfl, (show (0#8 &&& HardStop != 0#8) = false by decide), ?_, (by rw [hh]; exact hL), ?_⟩, hh, rfl⟩
  · show (BitVec.ult 0#64 (limited L).hard.Cpu || _ || _) = true
    rw [hh, (ult_zero_iff _).mpr hL]; rfl
  · rw [hh]; exact (ne_zero_iff L).mp hL

/-- a single request is refused exactly when the counter would reach the limit (the counter is
compared *before* it is advanced, so it never reaches `L`) -/
theorem kill_step_exact (f : Frame) (n : BitVec 64) (h : Metered f) (hn : n.toNat + f.hard.Cpu.toNat ≤ 2 ^ 64) :
    (f.requireCPU n).2 = .terminated ↔ f.hard.Cpu.toNat ≤ f.used.Cpu.toNat + n.toNat := by
  rcases metered_step n h hn with ⟨hk, e⟩ | ⟨hlt, hok, _⟩
  · rw [e]; exact ⟨fun _ => hk, fun _ => rfl⟩
  · rw [hok]; exact ⟨(fun h => nomatch h), (fun h => by omega)⟩

/-- **exact**: a computation whose CPU requests are `ns` (total `usage ns`) run under limit `L > 0`
is killed iff `L ≤ usage ns` -/
theorem kill_exact (L : BitVec 64) (ns : List (BitVec 64)) (hL : L ≠ 0#64) (hf : Fits L ns) :
    Outcome.terminated ∈ outcomes ⟨limited L, []⟩ (cpuOps ns) ↔ L.toNat ≤ usage ns := by
  obtain ⟨hm, hh, hu⟩ := limited_metered hL
  have := kill_exact_aux ns hm (by rw [hh]; exact hf)
  rw [hh, hu] at this
  simpa using this

/-- **monotone**: killed under `L` ⇒ killed under every smaller limit -/
theorem kill_monotone (L L' : BitVec 64) (ns : List (BitVec 64)) (hL' : L' ≠ 0#64) (hle : L'.toNat ≤ L.toNat)
    (hf : Fits L ns) (hk : Outcome.terminated ∈ outcomes ⟨limited L, []⟩ (cpuOps ns)) :
    Outcome.terminated ∈ outcomes ⟨limited L', []⟩ (cpuOps ns) := by
  have hL : L ≠ 0#64 := by rw [ne_zero_iff] at *; omega
  have hf' : Fits L' ns := fun n hn => by have := hf n hn; omega
  rw [kill_exact L' ns hL' hf']
  have := (kill_exact L ns hL hf).mp hk
  omega

/-- when not killed, every request is granted in order (same execution as without a limit), the
counter ends at exactly the usage, and the context is still live -/
theorem results_identical_when_not_killed (L : BitVec 64) (ns : List (BitVec 64)) (hL : L ≠ 0#64)
    (hf : Fits L ns) (hlt : usage ns < L.toNat) :
    outcomes ⟨limited L, []⟩ (cpuOps ns) = ns.map (fun _ => Outcome.ok) ∧
    (run ⟨limited L, []⟩ (cpuOps ns)).cur.used.Cpu.toNat = usage ns ∧
    (run ⟨limited L, []⟩ (cpuOps ns)).cur.live = true := by
  obtain ⟨hm, hh, hu⟩ := limited_metered hL
  have := not_killed_runs_all ns hm (by rw [hh]; exact hf) (by rw [hh, hu]; simpa using hlt)
  rw [hu] at this
  simpa using this

/-- the counter of a context and of all its ancestors stays strictly below the limit in every
reachable state: the computation is stopped *before* the counter reaches `L` -/
theorem cpu_never_reaches_limit {s : St} (hr : Reachable St.init s) :
    ∀ f ∈ s.frames, below f.used.Cpu f.hard.Cpu := by
  have hinv := Proofs.Ctx.inv_reachable inv_init hr
  obtain ⟨c, ps⟩ := s
  obtain ⟨hc, hch⟩ := hinv
  have aux : ∀ (c : Frame) (ps : List Frame), ChainInv c ps → ∀ f ∈ ps, below f.used.Cpu f.hard.Cpu := by
    intro c ps
    induction ps generalizing c with
    | nil => intro _ f hf; cases hf
    | cons p ps ih =>
      intro h f hf
      rcases List.mem_cons.mp hf with rfl | hf
      · exact h.2.1.cpu
      · exact ih p h.2.2.2 f hf
  intro f hf
  rcases List.mem_cons.mp hf with rfl | hf
  · exact hc.cpu
  · exact aux c ps hch f hf

/-- a killed context stays killed and TerminateContext fires once: in a legal history nothing but
PopContext follows a termination -/
theorem kill_is_final (f : Frame) (n : BitVec 64) (hl : f.live = true) (hk : (f.requireCPU n).2 = .terminated) :
    (f.requireCPU n).1.status = StatusKilled ∧ (f.requireCPU n).1.used = f.used ∧
    ∀ op, legalOp ⟨(f.requireCPU n).1, []⟩ op = true → op = .pop ∨ op = .due := by
  rcases requireCPU_live f n hl with ⟨_, e⟩ | ⟨_, _, e⟩ | ⟨_, _, _, e⟩
  · rw [e] at hk; cases hk
  · rw [e]
    refine ⟨rfl, rfl, fun op h => ?_⟩
    cases op <;> first | exact Or.inl rfl | exact Or.inr rfl | (simp [legalOp, kill_live] at h)
  · rw [e] at hk; cases hk

/-- **no step after the kill** (bracketed model): when an item of a body ends in a termination the
rest of that body is not executed — the state, the host-visible events and the results are those
right after the kill; the enclosing CallContext then only pops (and, since commit 0426709,
propagates). -/
theorem no_step_after_kill (a a1 : Acc) (it : Item) (rest : List Item) (res : TermRes)
    (h : runItem a it = (a1, .killed res)) : runBody a (it :: rest) = (a1, .killed res) := by
  unfold runBody; rw [h]

/-- **A bracket without a CPU limit of its own (pcall, xpcall, callcontext{}) cannot absorb a CPU
termination**: for EVERY well-formed body, from every state satisfying the invariant, if the body
is terminated for CPU and the enclosing context is CPU-limited, the call does not return: the
enclosing context is terminated as well (`killed`), the stack stays aligned, and nothing — no
operation, no result handed back — happens between the refused request and that termination. -/
theorem limitless_bracket_cannot_absorb (a : Acc) (d : CtxDef) (body hs : List Item) (hw : wfBody body = true)
    (hwh : wfBody hs = true)
    (hi : Inv a.st) (hl : a.st.cur.live = true) (hd : d.hard.Cpu = 0#64) (hL : a.st.cur.hard.Cpu ≠ 0#64)
    (hk : (runCall a d body hs).2 = .killed .cpu) :
    (runItem a (.call d body hs)).2 = .killed .cpu ∧
    (runItem a (.call d body hs)).1.st.cur.status = StatusKilled ∧
    LowerL (runItem a (.call d body hs)).1.st.parents a.st.parents ∧
    (runItem a (.call d body hs)).1.events = (runCall a d body hs).1.events ∧
    (runItem a (.call d body hs)).1.results = (runCall a d body hs).1.results :=
  limitless_bracket_propagates_cpu a d body hs hw hwh hi hl hd hL hk

/-- **uninterceptable**: in a CPU-limited context, for every program made of requests and any
nesting of limit-less brackets, if the program asks for at least what the context has left
(`hard ≤ used + cost`, wherever in the nesting the request that crosses the line sits), the run ends
with that context terminated (`killed`), the stack aligned, and the refused request is the LAST
operation executed: no operation of the context or of any descendant runs after it
(`EvKill`: the new events are granted requests followed by exactly one refused one). -/
theorem uninterceptable (a : Acc) (body : List Item) (hw : bodyPcallCpu body = true) (hi : Inv a.st)
    (hm : Metered a.st.cur) (hf : bodyFits a.st.cur.hard.Cpu.toNat body)
    (hge : a.st.cur.hard.Cpu.toNat ≤ a.st.cur.used.Cpu.toNat + bodyCost body) :
    (runBody a body).2 = .killed .cpu ∧ (runBody a body).1.st.cur.status = StatusKilled ∧
    LowerL (runBody a body).1.st.parents a.st.parents ∧ EvKill a (runBody a body).1 :=
  (exact_body a body hw hi hm hf).die hge

/-- **exact, through any nesting**: the same program is killed iff `L ≤ used + cost`; when it is
not, every request is granted, the counter ends at exactly `used + cost`, and the context is still
metered — C05's "exact" and "uninterceptable" together. -/
theorem kill_exact_nested (a : Acc) (body : List Item) (hw : bodyPcallCpu body = true) (hi : Inv a.st)
    (hm : Metered a.st.cur) (hf : bodyFits a.st.cur.hard.Cpu.toNat body) :
    ((runBody a body).2 = .killed .cpu ↔ a.st.cur.hard.Cpu.toNat ≤ a.st.cur.used.Cpu.toNat + bodyCost body) ∧
    (a.st.cur.used.Cpu.toNat + bodyCost body < a.st.cur.hard.Cpu.toNat →
      (runBody a body).2 = .done ∧ Metered (runBody a body).1.st.cur ∧
      (runBody a body).1.st.cur.used.Cpu.toNat = a.st.cur.used.Cpu.toNat + bodyCost body ∧
      LowerL (runBody a body).1.st.parents a.st.parents ∧ EvOk a (runBody a body).1) := by
  have e := exact_body a body hw hi hm hf
  refine ⟨⟨fun hk => ?_, fun h => (e.die h).1⟩, fun h => ?_⟩
  · apply Classical.byContradiction
    intro hn
    have := (e.survive (by omega)).1
    rw [this] at hk; cases hk
  · obtain ⟨h1, h2, h3, _, h5, _, h7⟩ := e.survive h
    exact ⟨h1, h2, h3, h5, h7⟩

/-- the same from a fresh runtime: `callcontext{kill={cpu=L}}` around such a program reports
`killed` iff `L ≤ cost` -/
theorem kill_exact_nested_from_root (L : BitVec 64) (body : List Item) (hL : L ≠ 0#64)
    (hw : bodyPcallCpu body = true) (hf : bodyFits L.toNat body) :
    (runBody (Acc.start ⟨limited L, [Frame.root]⟩) body).2 = .killed .cpu ↔ L.toNat ≤ bodyCost body := by
  obtain ⟨hm, hh, hu⟩ := limited_metered hL
  have hi : Inv ⟨limited L, [Frame.root]⟩ := inv_step (s := St.init) (.push _) inv_init rfl
  have := (kill_exact_nested (Acc.start ⟨limited L, [Frame.root]⟩) body hw hi hm
    (by show bodyFits (limited L).hard.Cpu.toNat body; rw [hh]; exact hf)).1
  rw [this]
  show (limited L).hard.Cpu.toNat ≤ (limited L).used.Cpu.toNat + bodyCost body ↔ _
  rw [hh, hu]; simp

/-- **monotone through any nesting** -/
theorem kill_monotone_nested (L L' : BitVec 64) (body : List Item) (hL' : L' ≠ 0#64) (hle : L'.toNat ≤ L.toNat)
    (hw : bodyPcallCpu body = true) (hf : bodyFits L.toNat body)
    (hk : (runBody (Acc.start ⟨limited L, [Frame.root]⟩) body).2 = .killed .cpu) :
    (runBody (Acc.start ⟨limited L', [Frame.root]⟩) body).2 = .killed .cpu := by
  have hL : L ≠ 0#64 := by rw [ne_zero_iff] at *; omega
  rw [kill_exact_nested_from_root L' body hL' hw (fits_mono_body hle body hf)]
  have := (kill_exact_nested_from_root L body hL hw hf).mp hk
  omega

/-- **a child with a tighter limit of its own dies alone**: if the bracket's own CPU limit is strictly
below what the parent has left (or the parent is unlimited) and its body is terminated for CPU, the
call returns normally with a context whose status is `killed`, and the parent stays live. -/
theorem child_with_own_limit_dies_alone (a : Acc) (d : CtxDef) (body hs : List Item) (hw : wfBody body = true)
    (hwh : wfBody hs = true)
    (hi : Inv a.st) (hl : a.st.cur.live = true) (hd : d.hard.Cpu ≠ 0#64)
    (htight : a.st.cur.hard.Cpu = 0#64 ∨ d.hard.Cpu.toNat < a.st.cur.hard.Cpu.toNat - a.st.cur.used.Cpu.toNat)
    (hk : (runCall a d body hs).2 = .killed .cpu) :
    (runItem a (.call d body hs)).2 = .done ∧ (runItem a (.call d body hs)).1.st.cur.live = true ∧
    LowerL (runItem a (.call d body hs)).1.st.parents a.st.parents ∧
    ∃ r, (runItem a (.call d body hs)).1.results = r :: (runCall a d body hs).1.results ∧
      r.status = StatusKilled ∧ r.exit = .killed .cpu :=
  own_limit_dies_alone a d body hs hw hwh hi hl hd htight hk

/-- **no unclassified recover site** (regenerated instance): every `recover()` in runtime/ and lib/ of
the current tree — listed by extract/recoversites into `Generated.RecoverSites` on this run — is one
of the sites read and classified in `Model.RecoverExpect` (same file, function and source hash), the
classification agrees with the syntactic facts (the sites that must let a termination through do
re-panic), and the only site that converts every panic into a Lua error is the host-function call of
lib/golib.  A new or edited recover site makes this `decide` fail until it is classified. -/
theorem recover_sites_classified :
    Model.RecoverExpect.allClassified = true ∧ Model.RecoverExpect.consistent = true ∧
    Model.RecoverExpect.noneCatchableFromLua = true := by decide

/-! ## non-vacuity -/

/-- limit 10, requests 3+3+3 = 9: not killed; one more tick: killed at exactly L ≤ usage -/
example : Outcome.terminated ∉ outcomes ⟨limited 10#64, []⟩ (cpuOps [3#64, 3#64, 3#64]) ∧
    Outcome.terminated ∈ outcomes ⟨limited 10#64, []⟩ (cpuOps [3#64, 3#64, 3#64, 1#64]) ∧
    Fits 10#64 [3#64, 3#64, 3#64, 1#64] ∧ usage [3#64, 3#64, 3#64, 1#64] = 10 := by
  refine ⟨by decide, by decide, ?_, rfl⟩
  intro n hn
  simp only [List.mem_cons, List.not_mem_nil, or_false] at hn
  rcases hn with rfl | rfl | rfl | rfl <;> decide

def interceptDef : CtxDef := ⟨⟨10#64, 0#64, 0#64⟩, Res.zero, 0#16⟩
/-- `callcontext{kill={cpu=10}}( pcall(pcall(big)) ; 9 more ticks )`: the witness of the former
`uninterceptable_counterexample` — the request of 20 now terminates the limited context itself -/
def interceptProg : Item :=
  .call interceptDef [.call CtxDef.none [.call CtxDef.none [.op (.reqCpu 20#64)] []] [], .op (.reqCpu 1#64), .op (.reqCpu 8#64)] []

example : (exec St.init interceptProg).1.events.reverse.map (fun e => (e.depth, e.out)) = [(3, .terminated)] ∧
    (exec St.init interceptProg).1.results.reverse.map (fun r => (r.depth, r.status, r.exit)) =
      [(1, StatusKilled, .killed .cpu)] ∧ (exec St.init interceptProg).1.st = St.init := by decide +kernel

/-- hypotheses of `uninterceptable` / `kill_exact_nested_from_root`: a two-deep pcall nest whose cost is 12 ≥ 10 -/
example : bodyPcallCpu [.op (.reqCpu 4#64), .call CtxDef.none [.op (.reqCpu 3#64), .call CtxDef.none [.op (.reqCpu 5#64)] []] []] = true ∧
    bodyCost [.op (.reqCpu 4#64), .call CtxDef.none [.op (.reqCpu 3#64), .call CtxDef.none [.op (.reqCpu 5#64)] []] []] = 12 := by
  decide

/-- own tighter limit: the inner `callcontext{kill={cpu=3}}` is killed alone, the outer goes on and ends `done` -/
example : (exec St.init (.call interceptDef [.call ⟨⟨3#64, 0#64, 0#64⟩, Res.zero, 0#16⟩ [.op (.reqCpu 5#64)] [], .op (.reqCpu 2#64)] [])).1.results.reverse.map
      (fun r => (r.depth, r.status, r.exit)) = [(2, StatusKilled, .killed .cpu), (1, StatusDone, .done)] := by decide +kernel

example : wfBody [.call CtxDef.none [.op (.reqCpu 20#64)] [], .op (.reqCpu 1#64)] = true := by decide

/-! ## monotonicity of the regenerated limit test -/

/-- the regenerated limit test is monotone in the counter: once a counter is at its limit it stays
there however much more is charged (no wrap-around *inside the test*; the counter itself is kept from
wrapping by `kill_exact`) -/
theorem atLimit_monotone (v v' l : BitVec 64) (h : atLimit v l = true) (hv : v.toNat ≤ v'.toNat) :
    atLimit v' l = true := by
  rw [atLimit_iff] at *; exact ⟨h.1, Nat.le_trans h.2 hv⟩

/-- and antitone in the limit: a tighter (non-zero) limit is reached no later -/
theorem atLimit_antitone_limit (v l l' : BitVec 64) (h : atLimit v l = true) (hl : l' ≠ 0#64)
    (hll : l'.toNat ≤ l.toNat) : atLimit v l' = true := by
  rw [atLimit_iff] at *; exact ⟨hl, Nat.le_trans hll h.2⟩

/-- limit 0 means unlimited: never reached, by any counter value including 2^64 − 1 -/
theorem atLimit_unlimited (v : BitVec 64) : atLimit v 0#64 = false := by
  rw [atLimit_false_iff]; exact Or.inl rfl

/-- `Dominates` is antitone in the counters: if the larger counter vector is still within the limits,
so is every smaller one (determinism + monotonicity of the kill decision) -/
theorem dominates_antitone (r v v' : RuntimeResources) (h : r.Dominates v' = true) (hv : cntLe v v') :
    r.Dominates v = true := by
  rw [Dominates_iff] at *
  unfold resBelow below at *
  unfold cntLe at hv
  obtain ⟨h1, h2, h3⟩ := h
  obtain ⟨g1, g2, g3⟩ := hv
  refine ⟨?_, ?_, ?_⟩
  · rcases h1 with h1 | h1
    · exact Or.inl h1
    · exact Or.inr (by omega)
  · rcases h2 with h2 | h2
    · exact Or.inl h2
    · exact Or.inr (by omega)
  · rcases h3 with h3 | h3
    · exact Or.inl h3
    · exact Or.inr (by omega)

example : atLimit 10#64 10#64 = true ∧ atLimit 9#64 10#64 = false ∧ atLimit (BitVec.ofNat 64 (2^64-1)) 0#64 = false := by decide

end GoluaVerif.Props.C05
