/-
  Props.C06 — a memory limit bounds accounted allocation.

  Over `Model.Ctx` (mirror of RequireMem / ReleaseMem / PushContext / PopContext, compared with the
  real runtime on every run) on top of the regenerated `atLimit`.  What is NOT claimed here: that
  every allocation site charges before it allocates and that the Go heap stays within c·M — those
  are sampled by the amplification leg of checks/c06.py.
-/
import GoluaVerif.Proofs.Ctx
import GoluaVerif.Proofs.Propagate
namespace GoluaVerif.Props.C06
open GoluaVerif.Generated.Resources GoluaVerif.Model.Ctx GoluaVerif.Spec.Quota GoluaVerif.Proofs.Ctx
open GoluaVerif.Model.CallCtx GoluaVerif.Proofs.CallCtx GoluaVerif.Proofs.Propagate

/-- In every state reachable by a legal history the accounted memory of the active context and of
every ancestor is strictly below its limit: the computation is terminated *before* the allocation
that would reach `M`. -/
theorem mem_never_reaches_limit {s : St} (hr : Reachable St.init s) :
    ∀ f ∈ s.frames, below f.used.Memory f.hard.Memory := by
  have hinv := Proofs.Ctx.inv_reachable inv_init hr
  obtain ⟨c, ps⟩ := s
  obtain ⟨hc, hch⟩ := hinv
  have aux : ∀ (c : Frame) (ps : List Frame), ChainInv c ps → ∀ f ∈ ps, below f.used.Memory f.hard.Memory := by
    intro c ps
    induction ps generalizing c with
    | nil => intro _ f hf; cases hf
    | cons p ps ih =>
      intro h f hf
      rcases List.mem_cons.mp hf with rfl | hf
      · exact h.2.1.mem
      · exact ih p h.2.2.2 f hf
  intro f hf
  rcases List.mem_cons.mp hf with rfl | hf
  · exact hc.mem
  · exact aux c ps hch f hf

/-- a memory request is refused exactly when the counter would reach the limit, and a refused
request is not charged -/
theorem mem_kill_step_exact (f : Frame) (n : BitVec 64) (hl : f.live = true) (hs : f.hardStopped = false)
    (ht : f.trackMem = true) (h0 : f.hard.Memory ≠ 0#64) (hn : f.used.Memory.toNat + n.toNat < 2 ^ 64) :
    ((f.requireMem n).2 = .terminated ↔ f.hard.Memory.toNat ≤ f.used.Memory.toNat + n.toNat) ∧
    ((f.requireMem n).2 = .terminated → (f.requireMem n).1.used = f.used) := by
  have hsum : (f.used.Memory + n).toNat = f.used.Memory.toNat + n.toNat := by
    rw [BitVec.toNat_add]; exact Nat.mod_eq_of_lt hn
  rcases requireMem_live f n hl with ⟨ht', _⟩ | ⟨_, hk, e⟩ | ⟨_, _, ha, e⟩
  · rw [ht] at ht'; cases ht'
  · rw [e]
    rcases hk with hk | hk
    · rw [hs] at hk; cases hk
    · have := ((atLimit_iff _ _).mp hk).2
      rw [hsum] at this
      exact ⟨⟨fun _ => this, fun _ => rfl⟩, fun _ => rfl⟩
  · rw [e]
    rcases (atLimit_false_iff _ _).mp ha with hb | hb
    · exact absurd hb h0
    · rw [hsum] at hb
      exact ⟨⟨(fun h => nomatch h), (fun h => by omega)⟩, (fun h => nomatch h)⟩

/-- **monotone in M**: a sequence of memory requests and releases that survives under a limit
`M'` survives under every larger limit `M` (and under no limit); equivalently killed under `M` ⇒
killed under every `M' ≤ M`. -/
theorem mem_kill_monotone (f : Frame) (ms : List MemOp) (M M' : BitVec 64) (hl : f.live = true)
    (hs : f.hardStopped = false) (ht : f.trackMem = true) (hM' : M' ≠ 0#64) (hle : limLe M' M)
    (hk : Outcome.terminated ∈ outcomes ⟨withMemLimit f M, []⟩ (memOps ms)) :
    Outcome.terminated ∈ outcomes ⟨withMemLimit f M', []⟩ (memOps ms) := by
  apply Classical.byContradiction
  intro hnk
  by_cases hM : M = 0#64
  · subst hM
    exact unlimited_mem_never_killed (f := withMemLimit f 0#64) ms hl hs rfl hk
  · exact mem_monotone_aux ms M M' hl hs ht hM' hM (limLe_le hle hM) hnk hk

/-- **A bracket without a memory limit of its own cannot absorb a memory termination**: for every
well-formed body, if the body is terminated for memory and the enclosing context is memory-limited,
the enclosing context is terminated as well and nothing runs in between (commit 0426709; before it
`pcall(string.rep, 'x', 1e6)` returned false and the program went on). -/
theorem limitless_bracket_cannot_absorb_mem (a : Acc) (d : CtxDef) (body : List Item) (hw : wfBody body = true)
    (hi : Inv a.st) (hl : a.st.cur.live = true) (hd : d.hard.Memory = 0#64) (hL : a.st.cur.hard.Memory ≠ 0#64)
    (hk : (runBody { a with st := push a.st d } body).2 = .killed .mem) :
    (runItem a (.call d body)).2 = .killed .mem ∧
    (runItem a (.call d body)).1.st.cur.status = StatusKilled ∧
    (runItem a (.call d body)).1.st.parents = a.st.parents ∧
    (runItem a (.call d body)).1.events = (runBody { a with st := push a.st d } body).1.events ∧
    (runItem a (.call d body)).1.results = (runBody { a with st := push a.st d } body).1.results :=
  limitless_bracket_propagates_mem a d body hw hi hl hd hL hk

/-- **monotone in M through any nesting of limit-less brackets**: take any program made of memory
requests, releases and pcall-like brackets, and run it in two stacks whose active contexts differ
only in their hard memory limit (`RelS δ`: the first has `δ` bytes more).  If the run under the
smaller limit is not terminated, the run under the larger limit ends in exactly the same way (same
exit: done or the same foreign panic) and the two contexts are again related — so a program killed
under `M` is killed under every `M' ≤ M`.  (False before 0426709: done at 512, killed at 768.) -/
theorem mem_kill_monotone_nested (δ : Nat) (a a' : Acc) (body : List Item) (hw : bodyPcallMem body = true)
    (hr : RelS δ a.st a'.st) (hi : Inv a.st) (hi' : Inv a'.st) (hl' : a'.st.cur.live = true)
    (hs' : a'.st.cur.hardStopped = false)
    (hk : ∃ res, (runBody a body).2 = .killed res) : ∃ res, (runBody a' body).2 = .killed res := by
  apply Classical.byContradiction
  intro hn
  have hnk : NotKilled (runBody a' body).2 := fun res h => hn ⟨res, h⟩
  obtain ⟨he, _⟩ := sim_body δ a a' body hw hr hi hi' hl' hs' hnk
  obtain ⟨res, hres⟩ := hk
  rw [he] at hres
  exact hnk res hres

/-- in a memory program every termination is a memory termination, at any depth -/
theorem mem_program_killed_by_memory (a : Acc) (body : List Item) (hw : bodyPcallMem body = true) (hi : Inv a.st)
    (hl : a.st.cur.live = true) (hs : a.st.cur.hardStopped = false) (h0 : a.st.cur.hard.Memory ≠ 0#64) :
    ∀ res, (runBody a body).2 = .killed res → res = .mem :=
  (memrun_body a body hw hi hl hs h0).cause

/-- **no underflow inside a frame**: a context that releases only what it has itself required
(running balance never negative), with amounts that cannot wrap the counter, never raises
"Too much mem released" -/
theorem release_no_underflow_in_frame (f : Frame) (ms : List MemOp) (hl : f.live = true)
    (hs : f.hardStopped = false) (ht : f.trackMem = true) (h0 : f.hard.Memory ≠ 0#64)
    (hu : f.used.Memory.toNat < f.hard.Memory.toNat) (hbal : Balanced 0 ms)
    (hfit : FitsMem f.hard.Memory ms) (hleg : Legal ⟨f, []⟩ (memOps ms)) :
    Outcome.crash ∉ outcomes ⟨f, []⟩ (memOps ms) :=
  balanced_no_crash ms 0 hl hs ht h0 hu (Nat.zero_le _) hbal hfit hleg

/-- a release in a context without hard memory limit is ignored, whatever the amount -/
theorem release_unlimited_is_noop (f : Frame) (n : BitVec 64) (h0 : f.hard.Memory = 0#64) :
    f.releaseMem n = (f, .ok) := by
  rcases releaseMem_cases f n with ⟨_, e⟩ | ⟨hne, _⟩ | ⟨hne, _⟩
  · exact e
  · exact absurd h0 hne
  · exact absurd h0 hne

def crossDef : CtxDef := ⟨⟨0#64, 1000000#64, 0#64⟩, Res.zero, 0#16⟩
/-- memory required in the outer context, released in an inner one: what a coroutine created
outside and finished inside a limited context (or inside a pcall under a limit) does with its
2048-byte stack charge -/
def crossOps : List Op := [.push crossDef, .reqMem 2048#64, .push CtxDef.none, .reqMem 100#64, .relMem 2048#64]

/-- **across frames the pairing is FALSE of the current code**: every byte released was required
earlier in the same history, the history is legal, yet ReleaseMem panics, because the child
context starts with `used = 0` and the release is applied to it.  Replayed on the real interpreter
by the probes of checks/c06.py (whole process dies). -/
theorem release_across_frames_counterexample :
    Legal St.init crossOps ∧ outcomes St.init crossOps = [.ok, .ok, .ok, .ok, .crash] ∧
    (run St.init crossOps).cur.used.Memory = 100#64 := by decide

/-- the same through CallContext: the foreign panic is re-raised by every enclosing CallContext
(each pops its context first), so it escapes to the host -/
theorem release_across_frames_escapes_counterexample :
    (exec St.init (.call crossDef [.op (.reqMem 2048#64), .call CtxDef.none [.op (.relMem 2048#64)]])).2 = .crashed ∧
    (exec St.init (.call crossDef [.op (.reqMem 2048#64), .call CtxDef.none [.op (.relMem 2048#64)]])).1.st = St.init := by
  decide +kernel

/-! ### the compile pipeline of runtime/lib.go (hand model of its accounting) -/

/-- memory operations of `ParseLuaChunk` + `compileLuaStat` for a source of `S` bytes, by exit path,
in the order the Go code executes them (deferred calls last) -/
inductive CompilePath | parseError | compileError | codegenError | success
  deriving DecidableEq, Repr

def compileMemOps (S : BitVec 64) : CompilePath → List MemOp
  | .parseError => [.req S, .rel S]
  -- ParseLuaChunk: req S.  compileLuaStat: req S (consts); CompileLuaChunk fails; rel S (AST);
  -- return err with statSize still S → deferred: rel S (consts), rel S (AST again)
  | .compileError => [.req S, .req S, .rel S, .rel S, .rel S]
  -- … AST released, statSize := 0; req S (unit); CompileQueue fails → deferred: rel S (consts), rel 0
  | .codegenError => [.req S, .req S, .rel S, .req S, .rel S, .rel 0#64]
  | .success => [.req S, .req S, .rel S, .req S, .rel S, .rel 0#64]

def net : List MemOp → Int
  | [] => 0
  | .req n :: r => n.toNat + net r
  | .rel n :: r => net r - n.toNat

/-- parse errors release exactly what was required; successful compilation releases AST and IR
constants and hands the unit's charge (`S`) to the caller, which releases it (`defer
r.ReleaseMem(unitSize)` in CompileAndLoadLuaChunk); a code-generation error leaves the unit's
charge behind (over-accounting, harmless for the host) -/
theorem require_release_paired (S : BitVec 64) :
    net (compileMemOps S .parseError) = 0 ∧ Balanced 0 (compileMemOps S .parseError) ∧
    net (compileMemOps S .success) = S.toNat ∧ Balanced 0 (compileMemOps S .success) ∧
    net (compileMemOps S .codegenError) = S.toNat ∧ Balanced 0 (compileMemOps S .codegenError) := by
  have h1 : net (compileMemOps S .parseError) = 0 := by
    simp only [compileMemOps, net]; omega
  have h2 : net (compileMemOps S .success) = S.toNat := by
    simp only [compileMemOps, net, BitVec.toNat_ofNat]; omega
  have h3 : net (compileMemOps S .codegenError) = S.toNat := by
    simp only [compileMemOps, net, BitVec.toNat_ofNat]; omega
  refine ⟨h1, ?_, h2, ?_, h3, ?_⟩ <;> simp [compileMemOps, Balanced]

/-- the compile-error path releases the AST twice: net −S, and the running balance goes negative
on the last release (`load("goto nowhere")` under a memory limit) -/
theorem require_release_paired_counterexample :
    net (compileMemOps 2012#64 .compileError) = -2012 ∧ ¬ Balanced 0 (compileMemOps 2012#64 .compileError) := by
  refine ⟨by decide, ?_⟩
  simp [compileMemOps, Balanced]

/-! ## non-vacuity -/

example : Balanced 0 [.req 2048#64, .req 10#64, .rel 2048#64, .rel 10#64] := by simp [Balanced]

example : let f := (run St.init [.push crossDef]).cur
    f.live = true ∧ f.hardStopped = false ∧ f.trackMem = true ∧ f.hard.Memory = 1000000#64 ∧
    Legal ⟨f, []⟩ (memOps [.req 2048#64, .req 10#64, .rel 2048#64, .rel 10#64]) ∧
    outcomes ⟨f, []⟩ (memOps [.req 2048#64, .req 10#64, .rel 2048#64, .rel 10#64]) = [.ok, .ok, .ok, .ok] := by
  decide

/-- killed under 1000, not under 4000 — and then (monotone) killed under every M' ≤ 1000 -/
example : let f := (run St.init [.push crossDef]).cur
    Outcome.terminated ∈ outcomes ⟨withMemLimit f 1000#64, []⟩ (memOps [.req 600#64, .rel 100#64, .req 600#64]) ∧
    Outcome.terminated ∉ outcomes ⟨withMemLimit f 4000#64, []⟩ (memOps [.req 600#64, .rel 100#64, .req 600#64]) := by
  decide

def memLimited (M : BitVec 64) : St := push St.init ⟨⟨0#64, M, 0#64⟩, Res.zero, 0#16⟩
def memProg : List Item :=
  [.op (.reqMem 600#64), .call CtxDef.none [.op (.reqMem 300#64), .call CtxDef.none [.op (.reqMem 200#64)], .op (.relMem 300#64)],
   .op (.relMem 100#64)]

/-- hypotheses of `mem_kill_monotone_nested` with M = 4000, M' = 1000 (δ = 3000): related fresh contexts, a
two-deep pcall nest; it survives under 4000 and is killed (at depth 3, propagated to the top) under 1000 -/
example : RelS 3000 (memLimited 4000#64) (memLimited 1000#64) :=
  ⟨by decide, by decide, by decide, by decide, by decide, by decide, by decide, by decide, by decide, by decide,
   by decide, by decide⟩

example : bodyPcallMem memProg = true ∧
    (runBody (Acc.start (memLimited 4000#64)) memProg).2 = .done ∧
    (runBody (Acc.start (memLimited 1000#64)) memProg).2 = .killed .mem ∧
    (runBody (Acc.start (memLimited 1000#64)) memProg).1.st.cur.status = StatusKilled := by decide +kernel

end GoluaVerif.Props.C06
