/-
  Props.C06 — a memory limit bounds accounted allocation.

  Over `Model.Ctx` (mirror of RequireMem / ReleaseMem / PushContext / PopContext, compared with the
  real runtime on every run) on top of the regenerated `atLimit`.  What is NOT claimed here: that
  every allocation site charges before it allocates and that the Go heap stays within c·M — those
  are sampled by the amplification leg of checks/c06.py.
-/
import GoluaVerif.Proofs.Ctx
import GoluaVerif.Proofs.Propagate
import GoluaVerif.Model.RecoverExpect
namespace GoluaVerif.Props.C06
open GoluaVerif.Generated.Resources GoluaVerif.Model.Ctx GoluaVerif.Spec.Quota GoluaVerif.Proofs.Ctx
open GoluaVerif.Model.CallCtx GoluaVerif.Proofs.CallCtx GoluaVerif.Proofs.Propagate

/-- In every state reachable by a legal history the accounted memory of the active context and of
every ancestor is strictly below its limit: the computation is terminated *before* the allocation
that would reach `M`. -/
theorem mem_never_reaches_limit {s : St} (hr : Reachable St.init s) :
    ∀ f ∈ s.frames, below f.used.Memory f.hard.Memory := by
  have hinv := Proofs.Ctx.inv_reachable inv_init hr
  obtain ⟨c, ps⟩ := s
  obtain ⟨hc, hch⟩ := hinv
  have aux : ∀ (c : Frame) (ps : List Frame), ChainInv c ps → ∀ f ∈ ps, below f.used.Memory f.hard.Memory := by
    intro c ps
    induction ps generalizing c with
    | nil => intro _ f hf; cases hf
    | cons p ps ih =>
      intro h f hf
      rcases List.mem_cons.mp hf with rfl | hf
      · exact h.2.1.mem
      · exact ih p h.2.2.2 f hf
  intro f hf
  rcases List.mem_cons.mp hf with rfl | hf
  · exact hc.mem
  · exact aux c ps hch f hf

/-- a memory request is refused exactly when the counter would reach the limit, and a refused
request is not charged -/
theorem mem_kill_step_exact (f : Frame) (n : BitVec 64) (hl : f.live = true) (hs : f.hardStopped = false)
    (ht : f.trackMem = true) (h0 : f.hard.Memory ≠ 0#64) (hn : f.used.Memory.toNat + n.toNat < 2 ^ 64) :
    ((f.requireMem n).2 = .terminated ↔ f.hard.Memory.toNat ≤ f.used.Memory.toNat + n.toNat) ∧
    ((f.requireMem n).2 = .terminated → (f.requireMem n).1.used = f.used) := by
  have hsum : (f.used.Memory + n).toNat = f.used.Memory.toNat + n.toNat := by
    rw [BitVec.toNat_add]; exact Nat.mod_eq_of_lt hn
  rcases requireMem_live f n hl with ⟨ht', _⟩ | ⟨_, hk, e⟩ | ⟨_, _, ha, e⟩
  · rw [ht] at ht'; cases ht'
  · rw [e]
    rcases hk with hk | hk
    · rw [hs] at hk; cases hk
    · have := ((atLimit_iff _ _).mp hk).2
      rw [hsum] at this
      exact ⟨⟨fun _ => this, fun _ => rfl⟩, fun _ => rfl⟩
  · rw [e]
    rcases (atLimit_false_iff _ _).mp ha with hb | hb
    · exact absurd hb h0
    · rw [hsum] at hb
      exact ⟨⟨(fun h => nomatch h), (fun h => by omega)⟩, (fun h => nomatch h)⟩

/-- **monotone in M**: a sequence of memory requests and releases that survives under a limit
`M'` survives under every larger limit `M` (and under no limit); equivalently killed under `M` ⇒
killed under every `M' ≤ M`. -/
theorem mem_kill_monotone (f : Frame) (ms : List MemOp) (M M' : BitVec 64) (hl : f.live = true)
    (hs : f.hardStopped = false) (ht : f.trackMem = true) (hM' : M' ≠ 0#64) (hle : limLe M' M)
    (hk : Outcome.terminated ∈ outcomes ⟨withMemLimit f M, []⟩ (memOps ms)) :
    Outcome.terminated ∈ outcomes ⟨withMemLimit f M', []⟩ (memOps ms) := by
  apply Classical.byContradiction
  intro hnk
  by_cases hM : M = 0#64
  · subst hM
    exact unlimited_mem_never_killed (f := withMemLimit f 0#64) ms hl hs rfl hk
  · exact mem_monotone_aux ms M M' hl hs ht hM' hM (limLe_le hle hM) hnk hk

/-- **A bracket without a memory limit of its own cannot absorb a memory termination**: for every
well-formed body — including bodies that release memory of the enclosing contexts (8007e69) — if
the body is terminated for memory and the enclosing context is memory-limited, the enclosing
context is terminated as well and nothing runs in between (52f8e49: the bracket is flagged as
inheriting when it is pushed, and the flag never changes). -/
theorem limitless_bracket_cannot_absorb_mem (a : Acc) (d : CtxDef) (body hs : List Item) (hw : wfBody body = true)
    (hwh : wfBody hs = true)
    (hi : Inv a.st) (hl : a.st.cur.live = true) (hd : d.hard.Memory = 0#64) (hL : a.st.cur.hard.Memory ≠ 0#64)
    (hk : (runCall a d body hs).2 = .killed .mem) :
    (runItem a (.call d body hs)).2 = .killed .mem ∧
    (runItem a (.call d body hs)).1.st.cur.status = StatusKilled ∧
    LowerL (runItem a (.call d body hs)).1.st.parents a.st.parents ∧
    (runItem a (.call d body hs)).1.events = (runCall a d body hs).1.events ∧
    (runItem a (.call d body hs)).1.results = (runCall a d body hs).1.results :=
  limitless_bracket_propagates_mem a d body hs hw hwh hi hl hd hL hk

/-- **monotone in M through any nesting of limit-less brackets**: take ANY program made of memory
requests, releases (also releases of memory required further out, which cascade) and pcall-like
brackets, and run it in two stacks that differ only in their hard memory limits (`RelS δ`: every
memory-limited context of the first has `δ` bytes more, down to the first context without memory
limit, from where the stacks are identical).  If the run under the smaller limits is not terminated,
the run under the larger limits ends in exactly the same way (same exit: done, error or the same
foreign panic) and the stacks are again related — so a program killed under `M` is killed under
every `M' ≤ M`. -/
theorem mem_kill_monotone_nested (δ : Nat) (a a' : Acc) (body : List Item) (hw : bodyPcallMem body = true)
    (hr : RelS δ a.st a'.st) (hi : Inv a.st) (hi' : Inv a'.st) (hl' : a'.st.cur.live = true)
    (hs' : a'.st.cur.hardStopped = false)
    (hk : ∃ res, (runBody a body).2 = .killed res) : ∃ res, (runBody a' body).2 = .killed res := by
  apply Classical.byContradiction
  intro hn
  have hnk : NotKilled (runBody a' body).2 := fun res h => hn ⟨res, h⟩
  obtain ⟨he, _⟩ := sim_body δ a a' body hw hr hi hi' hl' hs' hnk
  obtain ⟨res, hres⟩ := hk
  rw [he] at hres
  exact hnk res hres

/-- in a memory program every termination is a memory termination, at any depth -/
theorem mem_program_killed_by_memory (a : Acc) (body : List Item) (hw : bodyPcallMem body = true) (hi : Inv a.st)
    (hl : a.st.cur.live = true) (hs : a.st.cur.hardStopped = false) (h0 : a.st.cur.hard.Memory ≠ 0#64) :
    ∀ res, (runBody a body).2 = .killed res → res = .mem :=
  (memrun_body a body hw hi hl hs h0).cause

/-- **no underflow inside a frame**: a context that releases only what it has itself required
(running balance never negative), with amounts that cannot wrap the counter, never raises
"Too much mem released" -/
theorem release_no_underflow_in_frame (f : Frame) (ms : List MemOp) (hl : f.live = true)
    (hs : f.hardStopped = false) (ht : f.trackMem = true) (h0 : f.hard.Memory ≠ 0#64)
    (hu : f.used.Memory.toNat < f.hard.Memory.toNat) (hbal : Balanced 0 ms)
    (hfit : FitsMem f.hard.Memory ms) (hleg : Legal ⟨f, []⟩ (memOps ms)) :
    Outcome.crash ∉ outcomes ⟨f, []⟩ (memOps ms) :=
  balanced_no_crash ms 0 hl hs ht h0 hu (Nat.zero_le _) hbal hfit hleg

/-- a release in a context without hard memory limit is ignored, whatever the amount -/
theorem release_unlimited_is_noop (f : Frame) (n : BitVec 64) (h0 : f.hard.Memory = 0#64) :
    f.releaseMem n = (f, .ok) := by
  rcases releaseMem_cases f n with ⟨_, e⟩ | ⟨hne, _⟩ | ⟨hne, _⟩
  · exact e
  · exact absurd h0 hne
  · exact absurd h0 hne

/-! ### releasing across contexts (commit 8007e69: ReleaseMem cascades to the enclosing context) -/

/-- **release cascades exactly**: whenever the amount is covered by what the reachable contexts
account for (the active context and its ancestors down to, excluding, the first context without a
hard memory limit), the release succeeds, the memory accounted on the whole stack — and on the
reachable contexts — decreases by exactly the amount, no frame's counter increases (so none goes
below zero), and the innermost frames are drained first: a parent is touched only once the
active context holds nothing. -/
theorem release_cascades_exactly (s : St) (n : BitVec 64)
    (hcov : n.toNat ≤ memOf (limitedPrefix s.frames)) :
    (step s (.relMem n)).2 = .ok ∧
    memOf (step s (.relMem n)).1.frames + n.toNat = memOf s.frames ∧
    memOf (limitedPrefix (step s (.relMem n)).1.frames) + n.toNat = memOf (limitedPrefix s.frames) ∧
    LowerL (step s (.relMem n)).1.frames s.frames ∧
    ((step s (.relMem n)).1.parents ≠ s.parents → (step s (.relMem n)).1.cur.used.Memory = 0#64) := by
  have sp := releaseStack_spec s.cur s.parents n
  have hl := releaseStack_lower s.cur s.parents n
  obtain ⟨h1, h2, h3⟩ := sp.1 hcov
  exact ⟨h1, h2, h3, LowerL.cons hl.1 hl.2, sp.2.2.2⟩

/-- **a release crashes only when nothing can cover or absorb it**: the panic "Too much mem
released" happens iff every context of the stack, down to the outermost, is memory-limited and all
of them together account for less than the amount (the genuine double release, detected at the
outermost limited context). -/
theorem release_never_crashes_when_covered (s : St) (n : BitVec 64) :
    (step s (.relMem n)).2 = .crash ↔ (limitedPrefix s.frames = s.frames ∧ memOf s.frames < n.toNat) :=
  (releaseStack_spec s.cur s.parents n).2.1

/-- an uncovered release above a context without memory limit: the reachable contexts are drained
to zero and the rest of the amount is dropped — no crash, and the double release goes unnoticed -/
theorem release_uncovered_is_absorbed (s : St) (n : BitVec 64)
    (hun : memOf (limitedPrefix s.frames) < n.toNat) (hroot : limitedPrefix s.frames ≠ s.frames) :
    (step s (.relMem n)).2 = .ok ∧ memOf (limitedPrefix (step s (.relMem n)).1.frames) = 0 :=
  (releaseStack_spec s.cur s.parents n).2.2.1 hun hroot

/-- the outermost context of a runtime made by `rt.New` has no memory limit and nothing ever gives
it one; so **in every state reachable by any history — legal or not — releasing memory never
crashes**, whatever the amount -/
theorem release_never_crashes_from_fresh_runtime (ops : List Op) (n : BitVec 64) :
    (step (run St.init ops) (.relMem n)).2 ≠ .crash := by
  have hroot : ∀ (s : St) (ops : List Op), rootHardMem s.cur s.parents = 0#64 →
      rootHardMem (run s ops).cur (run s ops).parents = 0#64 := by
    intro s ops
    induction ops generalizing s with
    | nil => exact id
    | cons op ops ih => intro h; exact ih (step s op).1 (by rw [rootHardMem_step]; exact h)
  have h0 := hroot St.init ops rfl
  intro hc
  have := (release_never_crashes_when_covered (run St.init ops) n).mp hc
  exact all_limited_root _ _ this.1 h0

def crossDef : CtxDef := ⟨⟨0#64, 1000000#64, 0#64⟩, Res.zero, 0#16⟩
/-- memory required in the outer context, released two brackets further in: what a coroutine
created outside and finished inside nested pcalls does with its 2048-byte stack charge -/
def crossOps : List Op :=
  [.push crossDef, .reqMem 2048#64, .push CtxDef.none, .reqMem 100#64, .push CtxDef.none, .reqMem 7#64, .relMem 2148#64]

/-- the former crash (`release_across_frames_counterexample`), now exact: 2148 bytes released at
depth 3 take 7 from the innermost context, 100 from the middle one and 2041 from the context that
had required them; then the pops charge each parent with what its child still holds -/
example : outcomes St.init crossOps = [.ok, .ok, .ok, .ok, .ok, .ok, .ok] ∧
    (run St.init crossOps).frames.map (fun f => f.used.Memory) = [0#64, 0#64, 7#64, 0#64] ∧
    (run St.init (crossOps ++ [.pop, .pop])).cur.used.Memory = 7#64 := by decide +kernel

def limitedRoot : Frame := { (run St.init [.push crossDef]).cur with used := ⟨0#64, 10#64, 0#64⟩ }
/-- non-vacuity of the one remaining `crash`: a stack whose outermost context is itself
memory-limited (not what `rt.New` builds) and a release of more than the whole stack accounts for;
the context above has already been drained when the outermost one panics -/
example : (step ⟨limitedRoot.child CtxDef.none, [limitedRoot]⟩ (.relMem 11#64)).2 = .crash ∧
    (step ⟨limitedRoot.child CtxDef.none, [limitedRoot]⟩ (.relMem 10#64)).2 = .ok ∧
    (step ⟨limitedRoot.child CtxDef.none, [limitedRoot]⟩ (.relMem 10#64)).1.parents.map (fun f => f.used.Memory) = [0#64] := by
  decide +kernel

/-- parent requires 600; the pcall bracket releases 500 of them (cascade) and then asks for 150 -/
def staleProg (M : BitVec 64) : Item :=
  .call ⟨⟨0#64, M, 0#64⟩, Res.zero, 0#16⟩
    [.op (.reqMem 600#64), .call CtxDef.none [.op (.relMem 500#64), .op (.reqMem 150#64)] [], .op (.reqMem 520#64)] []

/-- the witness of the former `stale_limit_absorbs_counterexample` (finding C06-STALE-INHERITED-LIMIT,
repaired by 52f8e49): under M = 700 the bracket's request is refused by its inherited limit and the
termination now reaches the limited context although the bracket had released memory of it; under
760 the program is killed later — killed under both, as monotonicity demands -/
example :
    (exec St.init (staleProg 700#64)).1.results.reverse.map (fun r => (r.depth, r.status, r.exit)) =
      [(1, StatusKilled, .killed .mem)] ∧
    (exec St.init (staleProg 760#64)).1.results.reverse.map (fun r => (r.depth, r.status, r.exit)) =
      [(2, StatusDone, .done), (1, StatusKilled, .killed .mem)] := by decide +kernel

/-! ### the compile pipeline of runtime/lib.go (hand model of its accounting) -/

/-- memory operations of `ParseLuaChunk` + `compileLuaStat` for a source of `S` bytes, by exit path,
in the order the Go code executes them (deferred calls last) -/
inductive CompilePath | parseError | compileError | codegenError | success
  deriving DecidableEq, Repr

def compileMemOps (S : BitVec 64) : CompilePath → List MemOp
  | .parseError => [.req S, .rel S]
  -- ParseLuaChunk: req S.  compileLuaStat: req S (consts); CompileLuaChunk fails; rel S (AST) and
  -- statSize := 0 (fcd5799: before the error test) → deferred: rel S (consts), rel 0
  | .compileError => [.req S, .req S, .rel S, .rel S, .rel 0#64]
  -- … req S (unit); CompileQueue fails → deferred: rel S (consts), rel 0
  | .codegenError => [.req S, .req S, .rel S, .req S, .rel S, .rel 0#64]
  | .success => [.req S, .req S, .rel S, .req S, .rel S, .rel 0#64]

def net : List MemOp → Int
  | [] => 0
  | .req n :: r => n.toNat + net r
  | .rel n :: r => net r - n.toNat

/-- every exit path of the compile pipeline releases only what it required (`Balanced`), and exactly:
parse and compile errors net 0; successful compilation hands the unit's charge (`S`) to the caller,
which releases it (`defer r.ReleaseMem(unitSize)` in CompileAndLoadLuaChunk); a code-generation
error leaves the unit's charge behind (over-accounting, harmless for the host) -/
theorem require_release_paired (S : BitVec 64) :
    net (compileMemOps S .parseError) = 0 ∧ Balanced 0 (compileMemOps S .parseError) ∧
    net (compileMemOps S .compileError) = 0 ∧ Balanced 0 (compileMemOps S .compileError) ∧
    net (compileMemOps S .success) = S.toNat ∧ Balanced 0 (compileMemOps S .success) ∧
    net (compileMemOps S .codegenError) = S.toNat ∧ Balanced 0 (compileMemOps S .codegenError) := by
  have h1 : net (compileMemOps S .parseError) = 0 := by
    simp only [compileMemOps, net]; omega
  have h1' : net (compileMemOps S .compileError) = 0 := by
    simp only [compileMemOps, net, BitVec.toNat_ofNat]; omega
  have h2 : net (compileMemOps S .success) = S.toNat := by
    simp only [compileMemOps, net, BitVec.toNat_ofNat]; omega
  have h3 : net (compileMemOps S .codegenError) = S.toNat := by
    simp only [compileMemOps, net, BitVec.toNat_ofNat]; omega
  refine ⟨h1, ?_, h1', ?_, h2, ?_, h3, ?_⟩ <;> simp [compileMemOps, Balanced]

/-- **no unclassified recover site** (regenerated instance, shared with C05): every `recover()` of the
current tree is one of the classified sites of `Model.RecoverExpect`; in particular table.sort's
recover re-panics what is not its own `sortError`, so a memory termination raised in a comparator
cannot come back as a catchable Lua error. -/
theorem recover_sites_classified :
    Model.RecoverExpect.allClassified = true ∧ Model.RecoverExpect.consistent = true ∧
    Model.RecoverExpect.noneCatchableFromLua = true := by decide

/-- the relation checked at level A on every allocating library call (`checks/quotaprobes.py`,
RESULT_SIZE): what the call returns is still live afterwards, so the accounted memory must have grown
by at least its size; and a load never lowers the accounted memory -/
theorem chargeCovers_iff (before after size : Nat) : ChargeCovers before after size ↔ before + size ≤ after := Iff.rfl

/-! ## non-vacuity -/

example : Balanced 0 [.req 2048#64, .req 10#64, .rel 2048#64, .rel 10#64] := by simp [Balanced]

example : let f := (run St.init [.push crossDef]).cur
    f.live = true ∧ f.hardStopped = false ∧ f.trackMem = true ∧ f.hard.Memory = 1000000#64 ∧
    Legal ⟨f, []⟩ (memOps [.req 2048#64, .req 10#64, .rel 2048#64, .rel 10#64]) ∧
    outcomes ⟨f, []⟩ (memOps [.req 2048#64, .req 10#64, .rel 2048#64, .rel 10#64]) = [.ok, .ok, .ok, .ok] := by
  decide

/-- killed under 1000, not under 4000 — and then (monotone) killed under every M' ≤ 1000 -/
example : let f := (run St.init [.push crossDef]).cur
    Outcome.terminated ∈ outcomes ⟨withMemLimit f 1000#64, []⟩ (memOps [.req 600#64, .rel 100#64, .req 600#64]) ∧
    Outcome.terminated ∉ outcomes ⟨withMemLimit f 4000#64, []⟩ (memOps [.req 600#64, .rel 100#64, .req 600#64]) := by
  decide

def memLimited (M : BitVec 64) : St := push St.init ⟨⟨0#64, M, 0#64⟩, Res.zero, 0#16⟩
def memProg : List Item :=
  [.op (.reqMem 600#64), .call CtxDef.none [.op (.reqMem 300#64), .call CtxDef.none [.op (.reqMem 200#64)] [], .op (.relMem 300#64)] [],
   .op (.relMem 100#64)]

/-- hypotheses of `mem_kill_monotone_nested` with M = 4000, M' = 1000 (δ = 3000): related fresh contexts, a
two-deep pcall nest whose brackets release only their own memory; it survives under 4000 and is killed (at
depth 3, propagated to the top) under 1000 -/
example : RelS 3000 (memLimited 4000#64) (memLimited 1000#64) :=
  ⟨⟨by decide, by decide, by decide, by decide, by decide, by decide, by decide, by decide, by decide, by decide,
    by decide, by decide⟩, .absorb _ _ rfl⟩

/-- a program that releases across brackets: the inner bracket gives back 250 of the 600 bytes its
grandparent required -/
def memProg2 : List Item :=
  [.op (.reqMem 600#64), .call CtxDef.none [.op (.reqMem 300#64), .call CtxDef.none [.op (.relMem 550#64), .op (.reqMem 200#64)] []] [],
   .op (.reqMem 100#64)]

example : bodyPcallMem memProg = true ∧ bodyPcallMem memProg2 = true ∧
    (runBody (Acc.start (memLimited 4000#64)) memProg).2 = .done ∧
    (runBody (Acc.start (memLimited 1000#64)) memProg).2 = .killed .mem ∧
    (runBody (Acc.start (memLimited 1000#64)) memProg).1.st.cur.status = StatusKilled ∧
    (runBody (Acc.start (memLimited 4000#64)) memProg2).2 = .done ∧
    (runBody (Acc.start (memLimited 4000#64)) memProg2).1.st.cur.used.Memory = 650#64 ∧
    (runBody (Acc.start (memLimited 500#64)) memProg2).2 = .killed .mem := by decide +kernel

end GoluaVerif.Props.C06
