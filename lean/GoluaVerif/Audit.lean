/-
  `#audit_module M` prints, for every theorem declared in module `M`, one line
     AUDIT <name> [<axioms it depends on, comma separated>]
  which ./check parses.  (Same information as `#print axioms`, for all theorems at once.)
-/
import Lean
open Lean Elab Command

elab "#audit_module " m:ident : command => do
  let env ← getEnv
  let some idx := env.getModuleIdx? m.getId
    | throwError "module {m.getId} is not imported"
  let names := env.header.moduleData[idx.toNat]!.constNames
  for n in names do
    if n.isInternal then continue
    match env.find? n with
    | some (.thmInfo _) =>
      let ax ← liftCoreM <| Lean.collectAxioms n
      let axs := ", ".intercalate (ax.toList.map toString)
      logInfo m!"AUDIT {n} [{axs}]"
    | _ => pure ()
