import GoluaVerif.Audit
import GoluaVerif.Props.C15
import GoluaVerif.Props.C15_Table
#audit_module GoluaVerif.Props.C15
#audit_module GoluaVerif.Props.C15_Table
