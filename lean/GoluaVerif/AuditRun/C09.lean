import GoluaVerif.Audit
import GoluaVerif.Props.C09
#audit_module GoluaVerif.Props.C09
