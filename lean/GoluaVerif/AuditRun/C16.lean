import GoluaVerif.Audit
import GoluaVerif.Props.C16
#audit_module GoluaVerif.Props.C16
