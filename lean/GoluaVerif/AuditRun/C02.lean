import GoluaVerif.Audit
import GoluaVerif.Props.C02
import GoluaVerif.Props.C02_Bits
import GoluaVerif.Props.C02_Comp
#audit_module GoluaVerif.Props.C02
#audit_module GoluaVerif.Props.C02_Bits
#audit_module GoluaVerif.Props.C02_Comp
