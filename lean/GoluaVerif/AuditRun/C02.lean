import GoluaVerif.Audit
import GoluaVerif.Props.C02
#audit_module GoluaVerif.Props.C02
