import GoluaVerif.Audit
import GoluaVerif.Props.C12
#audit_module GoluaVerif.Props.C12
