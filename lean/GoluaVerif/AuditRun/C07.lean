import GoluaVerif.Audit
import GoluaVerif.Props.C07
#audit_module GoluaVerif.Props.C07
