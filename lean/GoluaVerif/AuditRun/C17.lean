import GoluaVerif.Audit
import GoluaVerif.Props.C17
#audit_module GoluaVerif.Props.C17
