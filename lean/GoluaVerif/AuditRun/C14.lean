import GoluaVerif.Audit
import GoluaVerif.Props.C14
#audit_module GoluaVerif.Props.C14
