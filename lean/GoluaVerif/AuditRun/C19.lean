import GoluaVerif.Audit
import GoluaVerif.Props.C19
#audit_module GoluaVerif.Props.C19
