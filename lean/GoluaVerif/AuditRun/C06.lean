import GoluaVerif.Audit
import GoluaVerif.Props.C06
#audit_module GoluaVerif.Props.C06
