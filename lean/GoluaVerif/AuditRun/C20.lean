import GoluaVerif.Audit
import GoluaVerif.Props.C20
#audit_module GoluaVerif.Props.C20
