import GoluaVerif.Audit
import GoluaVerif.Props.C05
#audit_module GoluaVerif.Props.C05
