import GoluaVerif.Audit
import GoluaVerif.Props.C13
#audit_module GoluaVerif.Props.C13
