import GoluaVerif.Audit
import GoluaVerif.Props.C18
#audit_module GoluaVerif.Props.C18
