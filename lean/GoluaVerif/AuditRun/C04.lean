import GoluaVerif.Audit
import GoluaVerif.Props.C04
#audit_module GoluaVerif.Props.C04
