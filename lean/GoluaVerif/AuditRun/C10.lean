import GoluaVerif.Audit
import GoluaVerif.Props.C10
#audit_module GoluaVerif.Props.C10
