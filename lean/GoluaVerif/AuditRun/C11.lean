import GoluaVerif.Audit
import GoluaVerif.Props.C11
#audit_module GoluaVerif.Props.C11
