import GoluaVerif.Audit
import GoluaVerif.Props.C08
#audit_module GoluaVerif.Props.C08
