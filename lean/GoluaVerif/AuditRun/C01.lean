import GoluaVerif.Audit
import GoluaVerif.Props.C01
#audit_module GoluaVerif.Props.C01
