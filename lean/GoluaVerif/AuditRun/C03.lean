import GoluaVerif.Audit
import GoluaVerif.Props.C03
import GoluaVerif.Props.C03_Examples
#audit_module GoluaVerif.Props.C03
#audit_module GoluaVerif.Props.C03_Examples
