import GoluaVerif.Generated.Arith
import GoluaVerif.Generated.Comp
import GoluaVerif.Generated.Resources
import GoluaVerif.Generated.StrPos
