/- REGENERATED on every check run by extract/threadevents from runtime/thread.go — do not edit.
   source hash (the extracted functions): c82a74de58bc68f9 -/
import GoluaVerif.Model.CoProto
namespace GoluaVerif.Generated.ThreadEvents
open GoluaVerif.Model.CoProto

/-- runtime/thread.go:197 -/
def p_Resume : Proc := ⟨"Resume", [
  [.lock .self, .unlock .self],
  [.lock .self, .lock .peer, .set .self, .unlock .self, .unlock .peer, .send .self, .recv .peer]]⟩

/-- runtime/thread.go:225 -/
def p_Close : Proc := ⟨"Close", [
  [.lock .self, .unlock .self],
  [.lock .self, .lock .peer, .set .self, .unlock .self, .unlock .peer, .send .self, .recv .peer]]⟩

/-- runtime/thread.go:253 -/
def p_Yield : Proc := ⟨"Yield", [
  [.lock .self, .unlock .self],
  [.lock .self, .lock .peer, .set .self, .unlock .self, .unlock .peer, .send .peer, .recv .self]]⟩

/-- runtime/thread.go:277 -/
def p_end : Proc := ⟨"end", [
  [.run, .lock .self, .lock .peer, .closeCh .self, .set .self, .touch, .send .peer, .unlock .peer, .unlock .self]]⟩

/-- runtime/thread.go:158 -/
def p_Start : Proc := ⟨"Start", [
  [.touch, .spawn]]⟩

def p_Start_go : Proc := ⟨"Start.go", [
  [.recv .self, .touch, .run, .touch, .callEnd]]⟩

/-- runtime/thread.go:337 -/
def p_getResumeValues : Proc := ⟨"getResumeValues", [
  [.recv .self]]⟩

/-- runtime/thread.go:345 -/
def p_sendResumeValues : Proc := ⟨"sendResumeValues", [
  [.send .self]]⟩

def table : List Proc := [p_Resume, p_Close, p_Yield, p_end, p_Start, p_Start_go, p_getResumeValues, p_sendResumeValues]

/-- constructs the extractor could not classify (each was over-approximated as `touch`) -/
def problems : List String := []

end GoluaVerif.Generated.ThreadEvents
