/-
  Model.CoSys — thread.go as a whole: the DATA of Model.CoSeq (status, caller per thread) together
  with the EVENT ORDER of Model.CoProto (mutexes, rendezvous channels, one goroutine per thread),
  driven by arbitrary scripts (what the Lua code of each thread will do next).

  State: `d` thread.go's data; `p` the goroutines (remaining events of the procedure each one is
  executing, mutex holders, baton flag); `script g` the operations thread g's Lua code will still
  perform.  Goroutine g belongs to thread g; goroutine 0 is the main thread's; every other
  goroutine starts parked in Start's `getResumeValues` (a thread that is never `create`d is never
  resumed, so this is the same as not existing).

  Steps: `fire` (one event of some goroutine, exactly as in CoProto), and `expand g`: the baton
  holder g, having finished the procedure it was executing, starts the next operation of its
  script.  The branch a procedure takes (its `if t.status != ThreadSuspended`, `if caller == nil`)
  and its writes to status/caller are decided/applied at that moment by `CoSeq.step`: this is
  faithful because only the baton holder reads or writes thread data (`baton_unique`; the other
  goroutines only unlock), so the data cannot change between the procedure's entry and its reads
  and writes under the mutexes.  The event lists loaded are the paths of thread.go (tied to the
  regenerated table by Props.C09.threadEvents_paths).
  `Close` of a suspended thread = `Resume` whose message makes the woken thread end at once: the
  closer performs Resume's events and data update, and the target's remaining script is replaced
  by what its pending `__close` handlers do (`handlers`, arbitrary).
  Core Lean only.
-/
import GoluaVerif.Model.CoSeq
import GoluaVerif.Model.CoProto
namespace GoluaVerif.Model.CoSys
open GoluaVerif.Spec.Co (Id Val Op upd)
open GoluaVerif.Model.CoProto (Ev)

structure St where
  d : CoSeq.State
  p : CoProto.St
  script : Nat → List Op
  handlers : Nat → List Op     -- what thread g's pending `__close` handlers do when g is closed

/-- Resume(t) / Close(t) executed by thread g's goroutine, hand-off path -/
def resumePath (t g : Nat) : List Ev :=
  [.lock t, .lock g, .set t, .unlock t, .unlock g, .send t, .recv g]
/-- Resume / Close / Yield early return: `t.mux.Lock(); …; t.mux.Unlock(); return` -/
def refusedPath (t : Nat) : List Ev := [.lock t, .unlock t]
/-- Yield by thread g resumed by c -/
def yieldPath (g c : Nat) : List Ev :=
  [.lock g, .lock c, .set g, .unlock g, .unlock c, .send c, .recv g]
/-- end of thread g resumed by c -/
def endPath (g c : Nat) : List Ev :=
  [.run, .lock g, .lock c, .closeCh g, .set g, .touch, .send c, .unlock c, .unlock g]
/-- Start's goroutine up to the call of the body -/
def startPath (g : Nat) : List Ev := [.recv g, .touch, .run, .touch]
/-- Start, creator side -/
def createPath : List Ev := [.touch, .spawn]

def load (s : St) (g : Nat) (d' : CoSeq.State) (path : List Ev) (rest : List Op) : St :=
  { s with d := d', p := { s.p with prog := upd s.p.prog g path }, script := upd s.script g rest }

/-- thread g's body is over (returns, raises, is killed, is closed): `end` -/
def finish (s : St) (g : Nat) (op : Op) : Option St :=
  match (s.d.th g).caller, CoSeq.step s.d op with
  | some c, some (d', _) => some (load s g d' (endPath g c) [])
  | _, _ => none

/-- the baton holder g starts the next operation of its script -/
def expand (s : St) (g : Nat) : Option St :=
  if s.p.act g = true ∧ s.p.prog g = [] then
    match s.script g with
    | [] => if g = 0 then none else finish s g (.ret [])
    | op :: rest =>
      match op with
      | .resume t vs =>
        if t < s.d.n ∧ (s.d.th t).status = .suspended then
          match CoSeq.step s.d (.resume t vs) with
          | some (d', _) => some (load s g d' (resumePath t g) rest)
          | none => none
        else some (load s g s.d (refusedPath t) rest)
      | .close t =>
        if t < s.d.n ∧ (s.d.th t).status = .suspended then
          match CoSeq.step s.d (.resume t []) with
          | some (d', _) =>
            -- the woken thread will find a threadClose exception: nothing of its body runs any more, only
            -- its pending `__close` handlers (in `end`, before the mutexes are taken), which are Lua code too
            let s1 := load s g d' (resumePath t g) rest
            some { s1 with p := { s1.p with prog := upd s1.p.prog t [.recv t] }, script := upd s1.script t (s.handlers t) }
          | none => none
        else some (load s g s.d (refusedPath t) rest)
      | .yield vs =>
        match (s.d.th g).caller with
        | none => some (load s g s.d (refusedPath g) rest)
        | some c =>
          match CoSeq.step s.d (.yield vs) with
          | some (d', _) => some (load s g d' (yieldPath g c) rest)
          | none => none
      | .ret vs => if g = 0 then some (load s g s.d [] rest) else finish s g (.ret vs)
      | .err v => if g = 0 then some (load s g s.d [] rest) else finish s g (.err v)
      | .exc => if g = 0 then some (load s g s.d [] rest) else finish s g .exc
      | .create =>
        match CoSeq.step s.d .create with
        | some (d', _) => some (load s g d' createPath rest)
        | none => none
      | .mark =>
        match CoSeq.step s.d .mark with
        | some (d', _) => some (load s g d' [] rest)
        | none => none
      | .unmark e =>
        match CoSeq.step s.d (.unmark e) with
        | some (d', _) => some (load s g d' [.run] rest)   -- the variable's __close handler: Lua code
        | none => none
  else none

inductive Step : St → St → Prop
  | fire {s : St} (a : CoProto.Act) {p' : CoProto.St} : CoProto.fire s.p a = some p' → Step s { s with p := p' }
  | expand {s s' : St} (g : Nat) : expand s g = some s' → Step s s'

/-- initial state for a family of scripts -/
def initSt (scripts : Nat → List Op) (handlers : Nat → List Op) : St :=
  { d := CoSeq.init,
    p := { prog := fun g => if g = 0 then [] else startPath g, holder := fun _ => none, act := fun g => g == 0 },
    script := scripts, handlers := handlers }

inductive Reach (scripts : Nat → List Op) (handlers : Nat → List Op) : St → Prop
  | init : Reach scripts handlers (initSt scripts handlers)
  | step {s s' : St} : Reach scripts handlers s → Step s s' → Reach scripts handlers s'

/-- a schedule: which goroutine fires / starts its next operation -/
inductive Cmd | fire (a : CoProto.Act) | expand (g : Nat)

def exec (s : St) : List Cmd → Option St
  | [] => some s
  | .fire a :: cs => (CoProto.fire s.p a).bind (fun p' => exec { s with p := p' } cs)
  | .expand g :: cs => (expand s g).bind (exec · cs)

/-- the main thread's Lua code has run to its end -/
def MainDone (s : St) : Prop := s.p.act 0 = true ∧ s.p.prog 0 = [] ∧ s.script 0 = []

end GoluaVerif.Model.CoSys
