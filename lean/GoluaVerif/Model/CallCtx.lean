/-
  Model.CallCtx — the bracketed use of the context stack: Thread.CallContext (runtime/thread.go)

      func (t *Thread) CallContext(def, f) (ctx, err) {
          t.PushContext(def)
          defer func() {
              ctx = t.PopContext()                    // may itself panic: then nothing below runs
              if r := recover(); r != nil {
                  termErr, ok := r.(ContextTerminationError)
                  if !ok { panic(r) }                 // foreign panic ("Too much mem released") goes on
                  err = termErr                       // a kill becomes an ordinary return value …
                  t.propagateTermination(ctx, termErr) // … unless the limit was inherited (flag set at push): then the
              }                                       //   parent is terminated too (panics again)
          }()
          err = t.cleanupCloseStack(c, h, f())   // pending __close handlers run HERE, in the context
                                                 // being left, while it is still live and metered
          if err != nil { t.setStatus(StatusError) }
          return
      }

  `pcall f` is `CallContext{}`; `runtime.callcontext` is `CallContext{kill, stop, flags}`.
  `call d body handlers`: `handlers` are the pending to-be-closed handlers of the body, one item each, in
  the order they run; they run after a body that ended normally or with an error (never after a
  termination: the close stack is truncated), each in the same context; a handler that raises replaces
  the error and the next handler still runs; only then is the status set.
  A body is a list of items: a raw operation in the active context, a nested call, or `err`
  (f returns a Lua error: the rest of the body is skipped).  After a nested call returns — done,
  error or killed — the enclosing body goes on: that is what pcall / callcontext do.
-/
import GoluaVerif.Model.Ctx
namespace GoluaVerif.Model.CallCtx
open GoluaVerif.Generated.Resources GoluaVerif.Model.Ctx

inductive Item where
  | op (o : Op)
  | call (d : CtxDef) (body : List Item) (handlers : List Item)
  | err
  deriving Repr, Inhabited

/-- how a body stopped -/
inductive Exit where
  | done        -- ran to its end
  | error       -- returned a Lua error
  | killed (r : TermRes)   -- a ContextTerminationError panic (recording resource `r`) is unwinding
  | crashed     -- a foreign Go panic is unwinding
  deriving DecidableEq, Repr, Inhabited

/-- what a completed CallContext handed back: the popped context copy -/
structure CallResult where
  depth : Nat            -- number of parents of the context while it ran
  status : BitVec 16
  used : Res
  exit : Exit            -- how its body stopped
  deriving DecidableEq, Repr, Inhabited

/-- an executed step, for statements about what runs after a kill -/
structure Event where
  depth : Nat
  op : Op
  out : Outcome
  deriving DecidableEq, Repr, Inhabited

structure Acc where
  st : St
  results : List CallResult    -- in completion order (reversed)
  events : List Event          -- reversed
  deriving Repr, Inhabited

def setError (s : St) : St := { s with cur := { s.cur with status := StatusError } }

/-- the state the deferred PopContext sees: `t.setStatus(StatusError)` was executed iff f returned an error -/
def afterBody (ex : Exit) (s : St) : St := if ex = .error then setError s else s

def mkResult (ex : Exit) (s2 : St) : CallResult := ⟨s2.depth, s2.cur.popped.status, s2.cur.used, ex⟩

/-- what CallContext does once its deferred PopContext has restored the parent `p` (stack `p :: ps`):
a foreign panic is re-raised; a termination is recovered and, if the limit was inherited,
propagated to `p` (then the caller never sees `ctx`); otherwise `ctx` is handed back -/
def afterPop (a1 : Acc) (ex : Exit) (s2 : St) (p : Frame) (ps : List Frame) : Acc × Exit :=
  match ex with
  | .crashed => ({ a1 with st := ⟨p, ps⟩ }, .crashed)
  | .killed res =>
    match p.propagate s2.cur.popped res with
    | (q, .ok) => ({ a1 with st := ⟨q, ps⟩, results := mkResult ex s2 :: a1.results }, .done)
    | (q, _) => ({ a1 with st := ⟨q, ps⟩ }, .killed res)
  | _ => ({ a1 with st := ⟨p, ps⟩, results := mkResult ex s2 :: a1.results }, .done)

mutual
  /-- run a body in the active context -/
  def runBody (a : Acc) : List Item → Acc × Exit
    | [] => (a, .done)
    | it :: rest =>
      match runItem a it with
      | (a1, .done) => runBody a1 rest
      | (a1, e) => (a1, e)

  /-- `.done` = the item finished and the body goes on -/
  def runItem (a : Acc) : Item → Acc × Exit
    | .err => (a, .error)
    | .op o =>
      let (s1, out) := step a.st o
      let a1 := { a with st := s1, events := ⟨a.st.depth, o, out⟩ :: a.events }
      match out with
      | .ok => (a1, .done)
      | .terminated => (a1, .killed (killCause a.st.cur o))
      | .crash => (a1, .crashed)
    | .call d body hs =>
      let (a1, ex) :=
        match runBody { a with st := push a.st d } body with
        | (a1, .done) => runHandlers a1 .done hs
        | (a1, .error) => runHandlers a1 .error hs
        | (a1, e) => (a1, e)
      let s2 := afterBody ex a1.st
      let (s3, po) := pop s2
      match po with
      | .ok => afterPop a1 ex s2 s3.cur s3.parents
      | .terminated => ({ a1 with st := s3 }, .killed (popCause s2.parents.head! s2.cur))  -- the deferred pop itself panicked
      | .crash => ({ a1 with st := s3 }, .crashed)

  /-- the pending handlers, one item each: a handler that raises replaces the error (`ex` becomes
  `.error`) and the remaining handlers still run; a termination or foreign panic unwinds -/
  def runHandlers (a : Acc) (ex : Exit) : List Item → Acc × Exit
    | [] => (a, ex)
    | h :: hs =>
      match runItem a h with
      | (a1, .done) => runHandlers a1 ex hs
      | (a1, .error) => runHandlers a1 .error hs
      | (a1, e) => (a1, e)
end

/-- `cleanupCloseStack(c, h, f())` in the pushed context: the body, then — unless a panic is
unwinding — the pending handlers -/
def runCall (a : Acc) (d : CtxDef) (body hs : List Item) : Acc × Exit :=
  match runBody { a with st := push a.st d } body with
  | (a1, .done) => runHandlers a1 .done hs
  | (a1, .error) => runHandlers a1 .error hs
  | (a1, e) => (a1, e)

def Acc.start (s : St) : Acc := ⟨s, [], []⟩

/-- operations a body may issue directly: everything except push/pop (those only through `call`) -/
def localOp : Op → Bool
  | .push _ => false
  | .pop => false
  | _ => true

mutual
  def Item.wf : Item → Bool
    | .op o => localOp o
    | .err => true
    | .call _ body hs => wfBody body && wfBody hs
  def wfBody : List Item → Bool
    | [] => true
    | it :: rest => it.wf && wfBody rest
end

/-- the status a context reports is the way its body really ended -/
def Truthful (r : CallResult) : Prop :=
  (r.exit = .done → r.status = StatusDone) ∧ (r.exit = .error → r.status = StatusError) ∧
  ((∃ res, r.exit = .killed res) → r.status = StatusKilled) ∧ r.exit ≠ .crashed

/-- run one top-level item from a state -/
def exec (s : St) (it : Item) : Acc × Exit := runItem (Acc.start s) it

/-! ### programs made of requests and limit-less brackets (pcall / xpcall / callcontext{}) -/

mutual
  /-- only CPU requests and brackets without any limit, soft limit or flag of their own -/
  def Item.pcallCpu : Item → Bool
    | .op (.reqCpu _) => true
    | .op _ => false
    | .err => false
    | .call d body hs => decide (d = CtxDef.none) && decide (hs = []) && bodyPcallCpu body
  def bodyPcallCpu : List Item → Bool
    | [] => true
    | it :: rest => it.pcallCpu && bodyPcallCpu rest
end

mutual
  /-- only memory requests / releases and limit-less brackets -/
  def Item.pcallMem : Item → Bool
    | .op (.reqMem _) => true
    | .op (.relMem _) => true
    | .op _ => false
    | .err => false
    | .call d body hs => decide (d = CtxDef.none) && decide (hs = []) && bodyPcallMem body
  def bodyPcallMem : List Item → Bool
    | [] => true
    | it :: rest => it.pcallMem && bodyPcallMem rest
end

mutual
  /-- CPU the program asks for when nothing stops it -/
  def Item.cost : Item → Nat
    | .op (.reqCpu n) => n.toNat
    | .op _ => 0
    | .err => 0
    | .call _ body _ => bodyCost body
  def bodyCost : List Item → Nat
    | [] => 0
    | it :: rest => it.cost + bodyCost rest
end

mutual
  /-- every CPU amount can be added to a counter below `B` without wrapping -/
  def Item.fits (B : Nat) : Item → Prop
    | .op (.reqCpu n) => n.toNat + B ≤ 2 ^ 64
    | .op _ => True
    | .err => True
    | .call _ body _ => bodyFits B body
  def bodyFits (B : Nat) : List Item → Prop
    | [] => True
    | it :: rest => it.fits B ∧ bodyFits B rest
end

end GoluaVerif.Model.CallCtx
