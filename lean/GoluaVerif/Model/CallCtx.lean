/-
  Model.CallCtx — the bracketed use of the context stack: Thread.CallContext (runtime/thread.go)

      func (t *Thread) CallContext(def, f) (ctx, err) {
          t.PushContext(def)
          defer func() {
              ctx = t.PopContext()                    // may itself panic: then nothing below runs
              if r := recover(); r != nil {
                  termErr, ok := r.(ContextTerminationError)
                  if !ok { panic(r) }                 // foreign panic ("Too much mem released") goes on
                  err = termErr                       // a kill becomes an ordinary return value
              }
          }()
          err = f()
          if err != nil { t.setStatus(StatusError) }
          return
      }

  `pcall f` is `CallContext{}`; `runtime.callcontext` is `CallContext{kill, stop, flags}`.
  A body is a list of items: a raw operation in the active context, a nested call, or `err`
  (f returns a Lua error: the rest of the body is skipped).  After a nested call returns — done,
  error or killed — the enclosing body goes on: that is what pcall / callcontext do.
-/
import GoluaVerif.Model.Ctx
namespace GoluaVerif.Model.CallCtx
open GoluaVerif.Generated.Resources GoluaVerif.Model.Ctx

inductive Item where
  | op (o : Op)
  | call (d : CtxDef) (body : List Item)
  | err
  deriving Repr, Inhabited

/-- how a body stopped -/
inductive Exit where
  | done        -- ran to its end
  | error       -- returned a Lua error
  | killed      -- a ContextTerminationError panic is unwinding
  | crashed     -- a foreign Go panic is unwinding
  deriving DecidableEq, Repr, Inhabited

/-- what a completed CallContext handed back: the popped context copy -/
structure CallResult where
  depth : Nat            -- number of parents of the context while it ran
  status : BitVec 16
  used : Res
  exit : Exit            -- how its body stopped
  deriving DecidableEq, Repr, Inhabited

/-- an executed step, for statements about what runs after a kill -/
structure Event where
  depth : Nat
  op : Op
  out : Outcome
  deriving DecidableEq, Repr, Inhabited

structure Acc where
  st : St
  results : List CallResult    -- in completion order (reversed)
  events : List Event          -- reversed
  deriving Repr, Inhabited

def setError (s : St) : St := { s with cur := { s.cur with status := StatusError } }

mutual
  /-- run a body in the active context -/
  def runBody (a : Acc) : List Item → Acc × Exit
    | [] => (a, .done)
    | it :: rest =>
      match runItem a it with
      | (a1, .done) => runBody a1 rest
      | (a1, e) => (a1, e)

  /-- `.done` = the item finished and the body goes on -/
  def runItem (a : Acc) : Item → Acc × Exit
    | .err => (a, .error)
    | .op o =>
      let (s1, out) := step a.st o
      let a1 := { a with st := s1, events := ⟨a.st.depth, o, out⟩ :: a.events }
      match out with
      | .ok => (a1, .done)
      | .terminated => (a1, .killed)
      | .crash => (a1, .crashed)
    | .call d body =>
      let (a1, ex) := runBody { a with st := push a.st d } body
      let s2 := if ex = .error then setError a1.st else a1.st
      let (s3, po) := pop s2
      match po with
      | .ok =>
        let r : CallResult := ⟨s2.depth, s2.cur.popped.status, s2.cur.used, ex⟩
        match ex with
        | .crashed => ({ a1 with st := s3 }, .crashed)       -- re-panicked: the caller never sees `ctx`
        | _ => ({ a1 with st := s3, results := r :: a1.results }, .done)
      | .terminated => ({ a1 with st := s3 }, .killed)      -- the deferred pop itself panicked
      | .crash => ({ a1 with st := s3 }, .crashed)
end

def Acc.start (s : St) : Acc := ⟨s, [], []⟩

/-- operations a body may issue directly: everything except push/pop (those only through `call`) -/
def localOp : Op → Bool
  | .push _ => false
  | .pop => false
  | _ => true

mutual
  def Item.wf : Item → Bool
    | .op o => localOp o
    | .err => true
    | .call _ body => wfBody body
  def wfBody : List Item → Bool
    | [] => true
    | it :: rest => it.wf && wfBody rest
end

/-- the status a context reports is the way its body really ended -/
def Truthful (r : CallResult) : Prop :=
  (r.exit = .done → r.status = StatusDone) ∧ (r.exit = .error → r.status = StatusError) ∧
  (r.exit = .killed → r.status = StatusKilled) ∧ r.exit ≠ .crashed

/-- run one top-level item from a state -/
def exec (s : St) (it : Item) : Acc × Exit := runItem (Acc.start s) it

end GoluaVerif.Model.CallCtx
