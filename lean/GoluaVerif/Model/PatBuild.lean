/-
  Model.PatBuild — hand-written mirror of /repo/lib/stringlib/pattern/builder.go
  (`patternBuilder`: pattern string → `[]patternItem` with 256-bit byte sets).

  Every Go slice/string index is a *checked* access here: an out-of-range index
  yields `.error (.goPanic …)`, so "the builder never panics" is the theorem
  `Props.C15.build_total`, not a convention.  Loops carry fuel; running out of
  fuel is the distinct error `.fuel` and `build_total` also shows it never occurs.
-/
import GoluaVerif.Model.ByteSet
namespace GoluaVerif.Model

/-- `patternItemType` (pattern.go) -/
inductive ItemType where
  | once | greedyRepeat | greedyRepeatOnce | repeat_ | optional
  | capture | balanced | frontier | startCapture | endCapture
  deriving DecidableEq, Repr, Inhabited

/-- `patternItem` -/
structure PItem where
  bytes : ByteSet
  ptnType : ItemType
  deriving DecidableEq, Repr, Inhabited

/-- `Pattern` -/
structure Pattern where
  items : Array PItem
  captureCount : Nat
  startAnchor : Bool
  endAnchor : Bool
  deriving DecidableEq, Repr, Inhabited

/-- where a Go index / slice expression would be out of range -/
inductive PanicSite where
  | ptnIndex        -- `pb.ptn[pb.i]`
  | ptnBack         -- `pb.i--` below 0 (would fault at the next `pb.ptn[pb.i]`)
  | cStackIndex     -- `pb.cStack[i]`
  | subjIndex       -- `m.s[i]`
  | subjSlice       -- `m.s[a:b]` / `s[start:end]`
  | capIndex        -- `m.captures[n]`
  | capSlice        -- `m.captures[:captureCount+1]`
  deriving DecidableEq, Repr, Inhabited

/-- the builder's error values, plus the two outcomes the theorems exclude -/
inductive BErr where
  | malformed               -- errInvalidPattern
  | unfinishedCapture       -- errUnfinishedCapture
  | invalidPatternCapture   -- errInvalidPatternCapture
  | tooComplex              -- errPatternTooComplex
  | invalidCaptureIdx (n : Nat)
  | invalidPct              -- ErrInvalidPct
  | goPanic (site : PanicSite) -- an index out of range in the Go code
  | fuel                    -- model artefact: loop fuel exhausted
  deriving DecidableEq, Repr, Inhabited

namespace PatBuild

/-- `patternBuilder` (the pattern string is a parameter of the functions) -/
structure PB where
  items : Array PItem := #[]
  ciMax : Nat := 0
  cStack : Array Nat := #[]
  i : Nat := 0
  anchorLeft : Bool := false
  anchorRight : Bool := false
  deriving Repr, Inhabited

abbrev B := Except BErr

/-- `func (pb *patternBuilder) next() (byte, error)` -/
def next (ptn : Array UInt8) (pb : PB) : B (UInt8 × PB) :=
  if pb.i ≥ ptn.size then .error .malformed
  else match ptn[pb.i]? with
    | some b => .ok (b, { pb with i := pb.i + 1 })
    | none => .error (.goPanic .ptnIndex)

/-- `func (pb *patternBuilder) back()`: `pb.i--`; a negative index would panic at the next access,
    which the model reports here -/
def back (pb : PB) : B PB :=
  if pb.i = 0 then .error (.goPanic .ptnBack) else .ok { pb with i := pb.i - 1 }

/-- `emit` -/
def emit (pb : PB) (it : PItem) : PB := { pb with items := pb.items.push it }

def isDigit19 (c : UInt8) : Bool := c ≥ 49 && c ≤ 57
def isAZaz (c : UInt8) : Bool := (c ≥ 65 && c ≤ 90) || (c ≥ 97 && c ≤ 122)

/-- `func getCharRange(c byte) (byteSet, error)` -/
def getCharRange (c : UInt8) : B ByteSet :=
  match ByteSet.named? c with
  | some s => .ok s
  | none =>
    if c == 48 then .error (.invalidCaptureIdx 0)
    else if isDigit19 c || isAZaz c then .error .invalidPct
    else .ok (ByteSet.empty.add c)

/-- the `for err == nil` loop of `getUnion`; `b` is the current byte -/
def unionLoop (ptn : Array UInt8) (neg : Bool) : Nat → UInt8 → ByteSet → PB → B (ByteSet × PB)
  | 0, _, _, _ => .error .fuel
  | fuel + 1, b, s, pb =>
    if b == 93 then .ok (if neg then s.complement else s, pb)           -- case b == ']'
    else if b == 37 then do                                             -- case b == '%'
      let (b, pb) ← next ptn pb
      let r ← getCharRange b
      let s := s.merge r
      let (b, pb) ← next ptn pb
      unionLoop ptn neg fuel b s pb
    else do                                                             -- default
      let c := b
      let (b, pb) ← next ptn pb
      if b == 45 then                                                   -- '-'
        let (b, pb) ← next ptn pb
        if b == 93 then unionLoop ptn neg fuel b ((s.add c).add 45) pb  -- continue Loop
        else
          let s := s.merge (ByteSet.byteRange c b)
          let (b, pb) ← next ptn pb
          unionLoop ptn neg fuel b s pb
      else unionLoop ptn neg fuel b (s.add c) pb                        -- continue Loop

/-- `func (pb *patternBuilder) getUnion() (s byteSet, err error)` -/
def getUnion (ptn : Array UInt8) (pb : PB) : B (ByteSet × PB) := do
  let (b, pb) ← next ptn pb
  let (neg, b, pb) ← (if b == 94 then do
      let (b, pb) ← next ptn pb
      pure (true, b, pb)
    else pure (false, b, pb) : B (Bool × UInt8 × PB))
  let (s, b, pb) ← (if b == 93 then do
      let (b', pb) ← next ptn pb
      pure (ByteSet.empty.add b, b', pb)
    else pure (ByteSet.empty, b, pb) : B (ByteSet × UInt8 × PB))
  unionLoop ptn neg (ptn.size + 2) b s pb

/-- `func (pb *patternBuilder) getCharClass() (byteSet, error)` -/
def getCharClass (ptn : Array UInt8) (pb : PB) : B (ByteSet × PB) := do
  let (b, pb) ← next ptn pb
  if b == 46 then pure (ByteSet.fullSet, pb)              -- '.'
  else if b == 37 then do                                 -- '%'
    let (b, pb) ← next ptn pb
    let s ← getCharRange b
    pure (s, pb)
  else if b == 91 then getUnion ptn pb                    -- '['
  else pure (ByteSet.empty.add b, pb)

/-- `func (pb *patternBuilder) checkCapture(ci uint64) bool` -/
def checkCapture (pb : PB) (ci : Nat) : Bool :=
  if ci > pb.ciMax then false else !pb.cStack.contains ci

/-- the tail of `getPatternItem`: read the optional `* + - ?` and emit the single-char item -/
def finishSingle (ptn : Array UInt8) (s : ByteSet) (pb : PB) : B PB :=
  match next ptn pb with
  | .error _ => .ok (emit pb ⟨s, .once⟩)                  -- `err != nil`: end of pattern, ptnOnce
  | .ok (b, pb') =>
    if b == 42 then .ok (emit pb' ⟨s, .greedyRepeat⟩)
    else if b == 43 then .ok (emit pb' ⟨s, .greedyRepeatOnce⟩)
    else if b == 45 then .ok (emit pb' ⟨s, .repeat_⟩)
    else if b == 63 then .ok (emit pb' ⟨s, .optional⟩)
    else do
      let pb'' ← back pb'
      pure (emit pb'' ⟨s, .once⟩)

/-- `byteSet{x}` / `[4]uint64{x, y}` used to carry capture indices and `%b` delimiters -/
def wordsSet (x y : Nat) : ByteSet := ⟨BitVec.ofNat 64 x, BitVec.ofNat 64 y, 0#64, 0#64⟩

/-- `func (pb *patternBuilder) getPatternItem() error` -/
def getPatternItem (ptn : Array UInt8) (pb : PB) : B PB := do
  let (b, pb) ← next ptn pb
  if b == 94 then                                         -- '^'
    if pb.i = 1 then pure { pb with anchorLeft := true }
    else do
      let pb ← back pb
      let (s, pb) ← getCharClass ptn pb
      finishSingle ptn s pb
  else if b == 36 then                                    -- '$'
    if pb.i = ptn.size then pure { pb with anchorRight := true }
    else do
      let pb ← back pb
      let (s, pb) ← getCharClass ptn pb
      finishSingle ptn s pb
  else if b == 40 then do                                 -- '('
    let pb := { pb with ciMax := pb.ciMax + 1 }
    if pb.ciMax ≥ 10 then throw .malformed
    let (b, pb) ← next ptn pb
    let pb ← (if b != 41 then do
        let pb ← back pb
        pure { pb with cStack := pb.cStack.push pb.ciMax }
      else pure pb : B PB)
    pure (emit pb ⟨wordsSet pb.ciMax 0, .startCapture⟩)
  else if b == 41 then                                    -- ')'
    if pb.cStack.size = 0 then throw .invalidPatternCapture
    else
      let i := pb.cStack.size - 1
      match pb.cStack[i]? with
      | none => throw (.goPanic .cStackIndex)
      | some ci => pure { (emit pb ⟨wordsSet ci 0, .endCapture⟩) with cStack := pb.cStack.extract 0 i }
  else if b == 37 then do                                 -- '%'
    let (c, pb) ← next ptn pb
    if c == 102 then do                                   -- 'f'
      -- `if pb.i >= len(pb.ptn) || pb.ptn[pb.i] != '['` (the index is guarded by the length test)
      if ptn[pb.i]? != some 91 then throw .malformed
      let (s, pb) ← getCharClass ptn pb
      pure (emit pb ⟨s, .frontier⟩)
    else if c == 98 then do                               -- 'b'
      let (op, pb) ← next ptn pb
      let (cl, pb) ← next ptn pb
      pure (emit pb ⟨wordsSet op.toNat cl.toNat, .balanced⟩)
    else if isDigit19 c then
      let ci := (c - 48).toNat
      if !checkCapture pb ci then throw (.invalidCaptureIdx ci)
      else pure (emit pb ⟨wordsSet ci 0, .capture⟩)
    else do
      let s ← getCharRange c
      finishSingle ptn s pb
  else do                                                 -- default
    let pb ← back pb
    let (s, pb) ← getCharClass ptn pb
    finishSingle ptn s pb

/-- the main loop of `getPattern` -/
def buildLoop (ptn : Array UInt8) (maxSize : Nat) : Nat → Nat → PB → B PB
  | 0, _, _ => .error .fuel
  | fuel + 1, sz, pb =>
    if pb.i < ptn.size then do
      let pb ← getPatternItem ptn pb
      let sz := sz + 1
      if sz > maxSize then throw .tooComplex
      buildLoop ptn maxSize fuel sz pb
    else .ok pb

/-- `func (pb *patternBuilder) getPattern() (*Pattern, error)` = `pattern.New` -/
def build (ptn : Array UInt8) : B Pattern := do
  let pb ← buildLoop ptn Generated.ByteSetTable.maxPatternSize (ptn.size + 1) 0 {}
  if pb.cStack.size ≠ 0 then throw .unfinishedCapture
  pure { items := pb.items, captureCount := pb.ciMax, startAnchor := pb.anchorLeft, endAnchor := pb.anchorRight }

end PatBuild
end GoluaVerif.Model
