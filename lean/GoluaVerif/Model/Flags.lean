/-
  Model.Flags — compliance flags (runtime/runtimecontext.go, runtimecontextmanager.go,
  gocont.go, gofunction.go).

  * `ComplianceFlags` is a `uint16` bit set: memsafe = 1, cpusafe = 2, iosafe = 4, timesafe = 8.
  * `CheckRequiredFlags declared` = `required &^ declared ≠ 0 → error "missing flags: …"`.
  * `GoCont.RunInThread` performs that check FIRST, before `RequireCPU`, before the Go function
    body runs; on failure it returns the error and nothing else has happened.
  * `PushContext` ORs the new context's flags (and the flags implied by hard limits) into the
    required set; `PopContext` restores the parent's record.

  The state of the world (`σ`) on which Go function bodies act is a parameter: the theorems
  hold for every body.
-/
namespace GoluaVerif.Model.Flags

abbrev Flags := Nat

def memSafe : Flags := 1
def cpuSafe : Flags := 2
def ioSafe : Flags := 4
def timeSafe : Flags := 8
def allFlags : Flags := 15

/-- `required &^ declared` (Go's AND NOT) on the 16-bit flag word -/
def missing (required declared : Flags) : Flags :=
  required &&& (declared ^^^ 0xFFFF)

inductive Status where
  | live | done | error | killed
  deriving DecidableEq, Repr

/-- the part of `runtimeContextManager` that matters here -/
structure Ctx where
  required : Flags
  status : Status
  deriving DecidableEq, Repr

/-- what a `RuntimeContextDef` contributes: explicit flags and which hard limits are set -/
structure CtxDef where
  flags : Flags
  cpuLimit : Bool := false
  memLimit : Bool := false
  timeLimit : Bool := false
  deriving DecidableEq, Repr

/-- flags implied by hard limits (PushContext) -/
def implied (d : CtxDef) : Flags :=
  (if d.cpuLimit then cpuSafe else 0) ||| (if d.memLimit then memSafe else 0) |||
  (if d.timeLimit then timeSafe else 0)

/-- `PushContext`: `m.requiredFlags |= ctx.RequiredFlags` then the implied flags; status live -/
def push (parent : Ctx) (d : CtxDef) : Ctx :=
  { required := parent.required ||| d.flags ||| implied d, status := .live }

/-- push a whole chain of nested `callcontext`s, outermost first -/
def pushAll (c : Ctx) : List CtxDef → Ctx
  | [] => c
  | d :: ds => pushAll (push c d) ds

def root : Ctx := { required := 0, status := .live }

inductive Outcome (ρ : Type) where
  | ok (r : ρ)
  | err (missingFlags : Flags)   -- the ordinary Lua error "missing flags: …"
  | bodyErr                      -- an error raised by the body itself
  deriving Repr

/-- a registered Go function: its declared flags and its body acting on the world `σ` -/
structure GoFn (σ ρ : Type) where
  declared : Flags
  body : Ctx → σ → Outcome ρ × σ × Ctx

/-- `GoCont.RunInThread`: the flag check comes first; only if it passes does the body run -/
def run {σ ρ : Type} (f : GoFn σ ρ) (c : Ctx) (s : σ) : Outcome ρ × σ × Ctx :=
  if missing c.required f.declared ≠ 0 then (.err (missing c.required f.declared), s, c)
  else f.body c s

/-- the check alone, as the oracle evaluates it: `true` = the call is refused -/
def refused (required declared : Flags) : Bool :=
  missing required declared != 0

end GoluaVerif.Model.Flags
