/-
  Model.TbcVM — the close-stack machine of /repo/runtime: `Thread.closeStack`,
  `LuaCont.closeStackBase`, `OpClStack` (push / truncate) and the three unwinding
  paths that call `cleanupCloseStack`:
    * `cltrunc h`            → cleanupCloseStack(c, closeStackBase + h, nil)   (luacont.go OpClStack)
    * return (`isTail`)      → cleanupCloseStack(c, closeStackBase, nil)       (luacont.go OpCall)
    * error reaching a pcall → cleanupCloseStack(c, h, err) with h = size of the close stack when the
                               protected call started                          (thread.go CallContext)
  An error does NOT unwind the close stack on its way up: the values stay on the stack until the
  CallContext that catches the error cleans up.  Structured exits (`brk`, `jump`) close nothing.
    * coroutine.close of a suspended coroutine: the pending yield panics with `threadClose`; every
      CallContext on the way (pcall) recovers and re-panics, leaving the close stack alone (it is
      truncated only for a ContextTerminationError, /repo 3e9e50b); Thread.Start's deferred function
      calls Thread.end → cleanupCloseStack(nil, 0, nil)                         (thread.go)
-/
import GoluaVerif.Model.TbcCompile
namespace GoluaVerif.Model.Tbc
open GoluaVerif.Spec.Tbc

/-- Thread.cleanupCloseStack(c, h, err): pop and call handlers until the stack has at most `h` entries.
    The stack is a list with the top first.  Returns the final error, the stack, the calls made. -/
def cleanup (hd : Handlers) : List TV → Nat → Option Err → Option Err × List TV × List Ev
  | [], _, e => (e, [], [])
  | v :: st, h, e =>
    if (v :: st).length ≤ h then (e, v :: st, [])
    else
      match v with
      | .obj id =>
        let e' := match hd id e with
          | some x => some x
          | none => e
        let r := cleanup hd st h e'
        (r.1, r.2.1, Ev.close id e :: r.2.2)
      | _ => cleanup hd st h e     -- `if Truth(v)`: nil/false are popped without a call

/-- result of running code: how it exits, the close stack, the events -/
structure VRes where
  exit : Exit
  stack : List TV
  log : List Ev
  deriving Repr

/-- `n` iterations of a loop body given as a state transformer -/
def vloop (body : List TV → VRes) : Nat → List TV → VRes
  | 0, st => ⟨.normal, st, []⟩
  | n + 1, st =>
    let r := body st
    match r.exit with
    | .normal =>
      let r2 := vloop body n r.stack
      ⟨r2.exit, r2.stack, r.log ++ r2.log⟩
    | .brk => ⟨.normal, r.stack, r.log⟩
    | x => ⟨x.leaveBlock, r.stack, r.log⟩

/-- run `c` in a frame whose closeStackBase is `base`, on close stack `st` -/
def vexec (hd : Handlers) (kill : Bool) : Code → (base : Nat) → List TV → VRes
  | .skip, _, st => ⟨.normal, st, []⟩
  | .seq a b, base, st =>
    let ra := vexec hd kill a base st
    match ra.exit with
    | .normal =>
      let rb := vexec hd kill b base ra.stack
      ⟨rb.exit, rb.stack, ra.log ++ rb.log⟩
    | _ => ra
  | .push .bad, _, st => ⟨.err .notClosable, st, []⟩    -- "to be closed value missing a __close metamethod"
  | .push v, _, st => ⟨.normal, v :: st, []⟩
  | .trunc h, base, st =>
    let r := cleanup hd st (base + h) none
    ⟨Exit.normal.withErr r.1, r.2.1, r.2.2⟩
  | .mark n, _, st => ⟨.normal, st, [.mark n]⟩
  | .block c, base, st =>
    let r := vexec hd kill c base st
    ⟨r.exit.leaveBlock, r.stack, r.log⟩
  | .loop n c, base, st => vloop (vexec hd kill c base) n st
  | .brk, _, st => ⟨.brk, st, []⟩
  | .jump k, _, st => ⟨.goto k, st, []⟩
  | .ret, base, st =>
    let r := cleanup hd st base none
    ⟨Exit.ret.withErr r.1, r.2.1, r.2.2⟩
  | .err e, _, st => ⟨.err (.user e), st, []⟩
  | .pcall c, _, st =>
    -- CallContext: h = closeStack.size(); run the function in a new LuaCont (closeStackBase = size);
    -- then cleanupCloseStack(c, h, err)
    let r := vexec hd kill c st.length st
    match r.exit with
    | .kill e =>
      -- the deferred function of CallContext: not a ContextTerminationError → panic(r), stack untouched
      ⟨.kill e, r.stack, r.log⟩
    | x =>
      let cl := cleanup hd r.stack st.length x.errArg
      ⟨.normal, cl.2.1, r.log ++ cl.2.2 ++ [.caught cl.1]⟩
  | .call c, _, st =>
    let r := vexec hd kill c st.length st
    ⟨r.exit.leaveFunction, r.stack, r.log⟩
  | .tailcall c, base, st =>
    -- OpCall with isTail: "As we're leaving this continuation for good, perform all the pending close
    -- actions" FIRST (cleanupCloseStack(c, closeStackBase, nil)), then run the called function, whose
    -- continuation was created before (closeStackBase = the stack size then); its return is ours
    let cl := cleanup hd st base none
    match cl.1 with
    | some e => ⟨.err e, cl.2.1, cl.2.2⟩
    | none =>
      let r := vexec hd kill c st.length cl.2.1
      ⟨r.exit.leaveFunction.thenReturn, r.stack, cl.2.2 ++ r.log⟩
  | .yield, _, st => ⟨if kill then .kill none else .normal, st, []⟩

/-- the events of running the compiled chunk under pcall on an empty close stack -/
def runVM (hd : Handlers) (c : Code) : List Ev := (vexec hd false (.pcall c) 0 []).log

/-- the compiled chunk as the body of a coroutine that is resumed once and closed if it yields:
    an error ends the thread through Thread.end → cleanupCloseStack(nil, 0, err); so does closing it -/
def runVMCo (hd : Handlers) (c : Code) : List Ev :=
  let r := vexec hd true c 0 []
  let cl := cleanup hd r.stack 0 r.exit.errArg
  match r.exit with
  | .kill _ => r.log ++ cl.2.2 ++ [.closed cl.1]
  | _ => r.log ++ cl.2.2 ++ [.caught cl.1]

end GoluaVerif.Model.Tbc
