/-
  Model.Marshal — the byte format of runtime/marshal.go (`MarshalConst`,
  `UnmarshalConst`) as used by `string.dump` and `load`.

  header 06 00 04, then one constant:
    01 <int64 LE>            integer
    02 <float64 bits LE>     float
    04 <len int64 LE> bytes  string
    05 <source string> <name string>
       <n int64> n × uint32 LE      opcodes
       <n int64> n × int32 LE       line table
       <n int64> n × constant       constants (nested code included)
       <int16 UpvalueCount> <int16 RegCount> <int16 CellCount>
       <n int64> n × string         upvalue names
  Reads are checked the way `binary.Read` / `io.ReadFull` check them; every
  size field goes through `checkCount` (not negative, not more items than the
  rest of the input can hold) before anything is allocated.  Budgets are not
  modelled (unlimited runtime).
  Core Lean only.
-/
import GoluaVerif.Model.PackFmt
namespace GoluaVerif.Model.Marshal
open GoluaVerif.Model.Pack (leBytes ofLE)

abbrev Bytes := List UInt8

/-- a constant of a function prototype; `code` is `runtime.Code` -/
inductive Const where
  | int (n : BitVec 64)
  | float (bits : BitVec 64)
  | str (s : Bytes)
  | code (source name : Bytes) (ops : List (BitVec 32)) (lines : List (BitVec 32)) (consts : List Const)
      (upvalueCount regCount cellCount : BitVec 16) (upNames : List Bytes)
  deriving Repr, Inhabited

def tagInt : UInt8 := 1
def tagFloat : UInt8 := 2
def tagString : UInt8 := 4
def tagCode : UInt8 := 5
def prefix3 : Bytes := [6, 0, 4]

/-! ### writing -/

def putStr (s : Bytes) : Bytes := leBytes 8 s.length ++ s

def putWords : List (BitVec 32) → Bytes
  | [] => []
  | w :: ws => leBytes 4 w.toNat ++ putWords ws

def putStrs : List Bytes → Bytes
  | [] => []
  | s :: ss => putStr s ++ putStrs ss

mutual
/-- `writeConst` / `writeCode` -/
def putConst : Const → Bytes
  | .int n => tagInt :: leBytes 8 n.toNat
  | .float b => tagFloat :: leBytes 8 b.toNat
  | .str s => tagString :: putStr s
  | .code src name ops lines ks uv rc cc ups =>
    tagCode :: (putStr src ++ (putStr name ++ (leBytes 8 ops.length ++ (putWords ops ++
      (leBytes 8 lines.length ++ (putWords lines ++ (leBytes 8 ks.length ++ (putConsts ks ++
      (leBytes 2 uv.toNat ++ (leBytes 2 rc.toNat ++ (leBytes 2 cc.toNat ++
      (leBytes 8 ups.length ++ putStrs ups))))))))))))
def putConsts : List Const → Bytes
  | [] => []
  | k :: ks => putConst k ++ putConsts ks
end

/-- `MarshalConst(w, c)`: what `string.dump` returns for the (refactored) prototype `c` -/
def marshal (c : Const) : Bytes := prefix3 ++ putConst c

/-! ### reading -/

inductive Err where
  | eof              -- io.EOF / io.ErrUnexpectedEOF (also: a count the rest of the input cannot hold)
  | badType          -- Invalid value type
  | badPrefix        -- not a dump (load treats the chunk as text)
  | badSize          -- Invalid size: a negative size or count
  | notFunction      -- "Expected function to load"
  | fuel             -- (never: the fuel supplied is sufficient)
  deriving DecidableEq, Repr, Inhabited

/-- exactly `n` bytes, `io.ReadFull` -/
def takeN (n : Nat) (bs : Bytes) : Except Err (Bytes × Bytes) :=
  if bs.length < n then .error .eof else .ok (bs.take n, bs.drop n)

/-- the same test without walking the whole rest of the input (what the compiled oracle runs) -/
def takeNFast (n : Nat) (bs : Bytes) : Except Err (Bytes × Bytes) :=
  let w := bs.take n
  if w.length < n then .error .eof else .ok (w, bs.drop n)

@[csimp] theorem takeN_eq_fast : @takeN = @takeNFast := by
  funext n bs
  simp only [takeN, takeNFast, List.length_take]
  by_cases h : bs.length < n
  · have : min n bs.length < n := by omega
    simp [h, this]
  · have : ¬ min n bs.length < n := by omega
    simp [h, this]

/-- a `k`-byte little-endian unsigned number -/
def getU (k : Nat) (bs : Bytes) : Except Err (Nat × Bytes) :=
  match takeN k bs with
  | .error e => .error e
  | .ok (w, r) => .ok (ofLE w, r)

/-- an `int64` count of items that take at least `item` bytes each, accepted by `checkCount`:
    not negative, and not more than the rest of the input can hold.  Only a count that passed this test is
    ever handed to `make`. -/
def atLeast (k : Nat) (l : Bytes) : Bool :=
  match k with
  | 0 => true
  | k + 1 => !(l.drop k).isEmpty

theorem atLeast_iff (k : Nat) (l : Bytes) : atLeast k l = true ↔ k ≤ l.length := by
  cases k with
  | zero => simp [atLeast]
  | succ k =>
    simp only [atLeast, Bool.not_eq_true', List.isEmpty_eq_false_iff, ne_eq, List.drop_eq_nil_iff, Nat.not_le]
    omega

def getSize (item : Nat) (bs : Bytes) : Except Err (Nat × Bytes) :=
  match getU 8 bs with
  | .error e => .error e
  | .ok (u, r) =>
    if u ≥ 2 ^ 63 then .error .badSize                    -- negative int64
    else if u > r.length / item then .error .eof
    else .ok (u, r)

/-- `getSize` without computing the length of the rest of the input (what the compiled oracle runs) -/
def getSizeFast (item : Nat) (bs : Bytes) : Except Err (Nat × Bytes) :=
  match getU 8 bs with
  | .error e => .error e
  | .ok (u, r) =>
    if u ≥ 2 ^ 63 then .error .badSize
    else if item = 0 then (if u > 0 then .error .eof else .ok (u, r))
    else if !atLeast (u * item) r then .error .eof
    else .ok (u, r)

@[csimp] theorem getSize_eq_fast : @getSize = @getSizeFast := by
  funext item bs
  simp only [getSize, getSizeFast]
  cases getU 8 bs with
  | error e => rfl
  | ok p =>
    obtain ⟨u, r⟩ := p
    simp only
    by_cases h1 : u ≥ 2 ^ 63
    · simp [h1]
    · simp only [h1, if_false]
      by_cases h0 : item = 0
      · subst h0; simp
      · simp only [h0, if_false]
        have hpos : 0 < item := by omega
        have hiff : (u > r.length / item) ↔ ¬ (u * item ≤ r.length) := by
          rw [Nat.not_le, gt_iff_lt, Nat.div_lt_iff_lt_mul hpos]
        by_cases h2 : u * item ≤ r.length
        · have : atLeast (u * item) r = true := (atLeast_iff _ _).mpr h2
          have h3 : ¬ (u > r.length / item) := by rw [hiff]; simpa using h2
          simp [this, h3]
        · have : atLeast (u * item) r = false := by
            cases hh : atLeast (u * item) r with
            | false => rfl
            | true => exact absurd ((atLeast_iff _ _).mp hh) h2
          have h3 : u > r.length / item := by rw [hiff]; exact h2
          simp [this, h3]

/-- `readString`: the length (checked against the rest of the input), then exactly that many bytes -/
def getStr (bs : Bytes) : Except Err (Bytes × Bytes) :=
  match getSize 1 bs with
  | .error e => .error e
  | .ok (n, r) => takeN n r

def getWords : Nat → Bytes → Except Err (List (BitVec 32) × Bytes)
  | 0, bs => .ok ([], bs)
  | n + 1, bs =>
    match getU 4 bs with
    | .error e => .error e
    | .ok (w, r) =>
      match getWords n r with
      | .error e => .error e
      | .ok (ws, r') => .ok (BitVec.ofNat 32 w :: ws, r')

def getStrs : Nat → Bytes → Except Err (List Bytes × Bytes)
  | 0, bs => .ok ([], bs)
  | n + 1, bs =>
    match getStr bs with
    | .error e => .error e
    | .ok (s, r) =>
      match getStrs n r with
      | .error e => .error e
      | .ok (ss, r') => .ok (s :: ss, r')

mutual
/-- `readConst` / `readCode`; every call consumes one unit of fuel -/
def getConst : Nat → Bytes → Except Err (Const × Bytes)
  | 0, _ => .error .fuel
  | _ + 1, [] => .error .eof
  | fuel + 1, tag :: bs =>
    if tag = tagInt then
      match getU 8 bs with
      | .error e => .error e
      | .ok (u, r) => .ok (.int (BitVec.ofNat 64 u), r)
    else if tag = tagFloat then
      match getU 8 bs with
      | .error e => .error e
      | .ok (u, r) => .ok (.float (BitVec.ofNat 64 u), r)
    else if tag = tagString then
      match getStr bs with
      | .error e => .error e
      | .ok (s, r) => .ok (.str s, r)
    else if tag = tagCode then
      match getStr bs with
      | .error e => .error e
      | .ok (src, r1) =>
      match getStr r1 with
      | .error e => .error e
      | .ok (name, r2) =>
      match getSize 4 r2 with
      | .error e => .error e
      | .ok (nops, r3) =>
      match getWords nops r3 with
      | .error e => .error e
      | .ok (ops, r4) =>
      match getSize 4 r4 with
      | .error e => .error e
      | .ok (nlines, r5) =>
      match getWords nlines r5 with
      | .error e => .error e
      | .ok (lines, r6) =>
      match getSize 1 r6 with
      | .error e => .error e
      | .ok (nks, r7) =>
      match getConsts fuel nks r7 with
      | .error e => .error e
      | .ok (ks, r8) =>
      match getU 2 r8 with
      | .error e => .error e
      | .ok (uv, r9) =>
      match getU 2 r9 with
      | .error e => .error e
      | .ok (rc, r10) =>
      match getU 2 r10 with
      | .error e => .error e
      | .ok (cc, r11) =>
      if uv ≥ 2 ^ 15 ∨ rc ≥ 2 ^ 15 ∨ cc ≥ 2 ^ 15 then .error .badSize      -- a negative int16 count
      else
      match getSize 8 r11 with
      | .error e => .error e
      | .ok (nups, r12) =>
      match getStrs nups r12 with
      | .error e => .error e
      | .ok (ups, r13) =>
        .ok (.code src name ops lines ks (BitVec.ofNat 16 uv) (BitVec.ofNat 16 rc) (BitVec.ofNat 16 cc) ups, r13)
    else .error .badType
def getConsts : Nat → Nat → Bytes → Except Err (List Const × Bytes)
  | 0, _, _ => .error .fuel
  | _ + 1, 0, bs => .ok ([], bs)
  | fuel + 1, n + 1, bs =>
    match getConst fuel bs with
    | .error e => .error e
    | .ok (k, r) =>
      match getConsts fuel n r with
      | .error e => .error e
      | .ok (ks, r') => .ok (k :: ks, r')
end

/-- `UnmarshalConst` on a byte string that has the marshal prefix: the constant and the unread rest -/
def unmarshal (bs : Bytes) : Except Err (Const × Bytes) :=
  match bs with
  | 6 :: 0 :: 4 :: body => getConst (2 * body.length + 2) body
  | _ => .error .badPrefix

/-- the binary branch of `LoadFromSourceOrCode`: the constant must be a function prototype -/
def load (bs : Bytes) : Except Err Const :=
  match unmarshal bs with
  | .error e => .error e
  | .ok (.code src name ops lines ks uv rc cc ups, _) => .ok (.code src name ops lines ks uv rc cc ups)
  | .ok (_, _) => .error .notFunction

end GoluaVerif.Model.Marshal
