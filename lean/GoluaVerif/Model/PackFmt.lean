/-
  Model.PackFmt — the format-string reader shared by string.pack / unpack /
  packsize (lib/stringlib/packformatreader.go and the `switch c := nextOption()`
  heads of packer.go, unpacker.go, packsize.go).

  The Go code reads one option character, possibly a decimal size, and then acts
  on the output/input.  Here the *reading* half is `readOpt`, which returns an
  `Opt` describing what is to be done (alignment wanted, whether the option was
  preceded by `X`, and the body), plus the new reader state.  The three Go
  loops read the format alike (`X` is checked by the shared `alignNext()`),
  except that packsize rejects `s` and `z`; `Mode` selects the loop.

  Native endianness is little endian, `defaultMaxAlignement = 1`, native sizes:
  short 2, int (the default of `i`/`I`) 8, long 8, size_t 8 — the values
  compiled into golua on amd64.  Memory budgets are not modelled (unlimited runtime).
  Core Lean only.
-/
namespace GoluaVerif.Model.Pack

abbrev Bytes := List UInt8

inductive Endian where
  | little | big
  deriving DecidableEq, Repr, Inhabited

/-- error classes (one per `err…` variable of packing.go) -/
inductive Err where
  | badOptionArg      -- arg out of limits [1,16]
  | missingSize
  | badType
  | outOfBounds       -- "overflow"
  | expectedOption    -- invalid next option after 'X'
  | badAlignment      -- alignment not power of 2
  | short             -- packed string too short / EOF
  | doesNotFit        -- does not fit into Lua integer
  | strLonger         -- string longer than format spec
  | strDoesNotFit
  | variableLength    -- packsize only
  | sizeOverflow      -- invalid format: option size overflow
  | resultTooLarge    -- format result too large (packsize)
  | strZeros
  | badOption         -- invalid format option %q
  | notEnoughValues
  | badInit           -- #3 out of string
  | goPanic           -- a Go run-time panic (makeslice: len out of range)
  | unmodelled        -- a string<->number coercion of the value that this model does not describe
  deriving DecidableEq, Repr, Inhabited

def Err.name : Err → String
  | .badOptionArg => "badarg" | .missingSize => "missingsize" | .badType => "badtype"
  | .outOfBounds => "overflow" | .expectedOption => "expectedoption" | .badAlignment => "badalign"
  | .short => "short" | .doesNotFit => "doesnotfit" | .strLonger => "strlonger"
  | .strDoesNotFit => "strdoesnotfit" | .variableLength => "variablelength"
  | .sizeOverflow => "sizeoverflow" | .resultTooLarge => "toolarge" | .strZeros => "strzeros" | .badOption => "badoption"
  | .notEnoughValues => "notenough" | .badInit => "badinit" | .goPanic => "panic" | .unmodelled => "unmodelled"

/-- which of the three Go loops is mirrored -/
inductive Mode where
  | pack | unpack | size
  deriving DecidableEq, Repr, Inhabited

/-- reader state: `byteOrder`, `maxAlignment`, `alignOnly` of `packFormatReader` -/
structure Rd where
  endian : Endian := .little
  maxAlign : Nat := 1
  alignOnly : Bool := false
  deriving DecidableEq, Repr, Inhabited

/-- what an option does once its text has been read -/
inductive Body where
  | int (signed : Bool) (n : Nat)   -- b B h H l L j J T i[n] I[n]
  | f32                             -- f
  | f64                             -- d n
  | fixstr (n : Nat)                -- c<n>
  | zstr                            -- z
  | lstr (n : Nat)                  -- s[n]
  | padByte                         -- x
  deriving DecidableEq, Repr, Inhabited

inductive Opt where
  /-- only the reader state changed (`<` `>` `=` `!` ` ` `X`) -/
  | nop
  /-- `align`: the argument passed to `align()`; `ao`: the align-only flag was set (option after `X`) -/
  | item (align : Nat) (ao : Bool) (body : Body)
  deriving DecidableEq, Repr, Inhabited

def maxDecuplable : Nat := (2 ^ 64 - 1) / 10

def isDigit (c : UInt8) : Bool := 48 ≤ c.toNat && c.toNat ≤ 57

/-- `getOptSize`: the digit loop, on Go's 64-bit `uint` with its two overflow tests.
    Returns (value, saw a digit, rest). -/
def getOptSize : Bytes → Nat → Bool → Except Err (Nat × Bool × Bytes)
  | [], n, ok => .ok (n, ok, [])
  | c :: cs, n, ok =>
    if isDigit c then
      if n > maxDecuplable then .error .sizeOverflow
      else if n * 10 + (c.toNat - 48) ≥ 2 ^ 64 then .error .sizeOverflow
      else getOptSize cs (n * 10 + (c.toNat - 48)) true
    else .ok (n, ok, c :: cs)

/-- `smallOptSize(defaultSize)` -/
def smallOptSize (s : Bytes) (dflt : Nat) : Except Err (Nat × Bytes) :=
  match getOptSize s 0 false with
  | .error e => .error e
  | .ok (n, true, rest) => if 1 ≤ n ∧ n ≤ 16 then .ok (n, rest) else .error .badOptionArg
  | .ok (_, false, rest) => if dflt ≠ 0 then .ok (dflt, rest) else .error .missingSize

/-- `mustGetOptSize()` -/
def mustGetOptSize (s : Bytes) : Except Err (Nat × Bytes) :=
  match getOptSize s 0 false with
  | .error e => .error e
  | .ok (n, true, rest) => .ok (n, rest)
  | .ok (_, false, _) => .error .missingSize

/-- the `case` labels of the option switch -/
inductive Kind where
  | le | be | native | bang
  | fixedInt (signed : Bool) (n : Nat) (align : Nat)   -- b B h H l j L J T
  | varInt (signed : Bool)                             -- i I
  | f32 | f64
  | fixstr | zstr | lstr
  | pad | alignNext | space
  | bad
  deriving DecidableEq, Repr, Inhabited

/-- which `case` an option character selects -/
def optKind (c : UInt8) : Kind :=
  let ch := Char.ofNat c.toNat
  if ch = '<' then .le
  else if ch = '>' then .be
  else if ch = '=' then .native
  else if ch = '!' then .bang
  else if ch = 'b' then .fixedInt true 1 0
  else if ch = 'B' then .fixedInt false 1 0
  else if ch = 'h' then .fixedInt true 2 2
  else if ch = 'H' then .fixedInt false 2 2
  else if ch = 'l' ∨ ch = 'j' then .fixedInt true 8 8
  else if ch = 'L' ∨ ch = 'J' ∨ ch = 'T' then .fixedInt false 8 8
  else if ch = 'i' then .varInt true
  else if ch = 'I' then .varInt false
  else if ch = 'f' then .f32
  else if ch = 'd' ∨ ch = 'n' then .f64
  else if ch = 'c' then .fixstr
  else if ch = 'z' then .zstr
  else if ch = 's' then .lstr
  else if ch = 'x' then .pad
  else if ch = 'X' then .alignNext
  else if ch = ' ' then .space
  else .bad

/-- options that have a size (`bBhHlLjJTiIfdnsx`): the only ones that may follow `X` -/
def alignable (c : UInt8) : Bool :=
  match optKind c with
  | .fixedInt _ _ _ | .varInt _ | .f32 | .f64 | .lstr | .pad => true
  | _ => false

/-- an aligned option: the flag is consumed by `align()` -/
@[inline] def mkItem (rd : Rd) (align : Nat) (b : Body) (rest : Bytes) : Except Err (Opt × Rd × Bytes) :=
  .ok (.item align rd.alignOnly b, { rd with alignOnly := false }, rest)

/-- Read one option (character `c` already taken, `rest` follows it). -/
def readOpt (mode : Mode) (rd : Rd) (c : UInt8) (rest : Bytes) : Except Err (Opt × Rd × Bytes) :=
  match optKind c with
  | .le => .ok (.nop, { rd with endian := .little }, rest)
  | .be => .ok (.nop, { rd with endian := .big }, rest)
  | .native => .ok (.nop, { rd with endian := .little }, rest)
  | .bang =>
    match smallOptSize rest 1 with
    | .error e => .error e
    | .ok (n, rest') => .ok (.nop, { rd with maxAlign := n }, rest')
  | .fixedInt signed n al => mkItem rd al (.int signed n) rest
  | .varInt signed =>
    match smallOptSize rest 8 with
    | .error e => .error e
    | .ok (n, rest') => mkItem rd n (.int signed n) rest'
  | .f32 => mkItem rd 4 .f32 rest
  | .f64 => mkItem rd 8 .f64 rest
  | .fixstr =>
    -- `align(0) && mustGetOptSize() && …`: after `X` the size is not even read
    if rd.alignOnly then mkItem rd 0 .padByte rest
    else match mustGetOptSize rest with
      | .error e => .error e
      | .ok (n, rest') => mkItem rd 0 (.fixstr n) rest'
  | .zstr =>
    match mode with
    | .size => .error .variableLength
    | _ => mkItem rd 0 .zstr rest
  | .lstr =>
    match mode with
    | .size => .error .variableLength
    | _ =>
      match smallOptSize rest 8 with
      | .error e => .error e
      | .ok (n, rest') => mkItem rd n (.lstr n) rest'
  | .pad => mkItem rd 0 .padByte rest
  | .alignNext =>
    -- `alignNext()`: the option after `X` must exist and have a size
    match rest with
    | d :: _ => if alignable d then .ok (.nop, { rd with alignOnly := true }, rest) else .error .expectedOption
    | [] => .error .expectedOption
  | .space => .ok (.nop, rd, rest)
  | .bad => .error .badOption

/-- `(n-1)&n == 0` -/
def isPow2 (n : Nat) : Bool := (n - 1) &&& n == 0

/-- the padding `align(n)` inserts at offset `off`; `checkPow2` is false for the unpacker, which has no such test -/
def alignPad (rd : Rd) (checkPow2 : Bool) (align off : Nat) : Except Err Nat :=
  if align = 0 then .ok 0
  else
    let n := if align > rd.maxAlign then rd.maxAlign else align
    if checkPow2 && !isPow2 n then .error .badAlignment
    else
      let r := off % n
      .ok (if r ≠ 0 then n - r else 0)

/-! ### byte-level integers -/

/-- the `n` low-order bytes of `x`, least significant first -/
def leBytes : Nat → Nat → Bytes
  | 0, _ => []
  | n + 1, x => UInt8.ofNat (x % 256) :: leBytes n (x / 256)

/-- value of a little-endian byte string -/
def ofLE : Bytes → Nat
  | [] => 0
  | b :: bs => b.toNat + 256 * ofLE bs

/-- bytes in the current byte order -/
def ord (e : Endian) (le : Bytes) : Bytes :=
  match e with
  | .little => le
  | .big => le.reverse

end GoluaVerif.Model.Pack
