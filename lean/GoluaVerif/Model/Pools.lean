/-
  Model.Pools — mirror of runtime/regpool.go (valuePool / cellPool: the two are the
  same algorithm over different element types) and runtime/luacontpool.go /
  gocontpool.go (bounded stacks of continuations).

  Register sets are modelled as heap objects with an identity (`id`) and contents
  (`vals`, `0` = the zero Value / Cell).  Identities exist only in the model: the
  correspondence maps Go slice addresses to small integers in order of first
  appearance.  Core Lean only.
-/
namespace GoluaVerif.Model.Pools

/-- a register set: identity + contents (0 = zero value) -/
structure RegSet where
  id : Nat
  vals : List Nat
  deriving DecidableEq, Repr, Inhabited

/-- `valuePool` / `cellPool`.  `slots[i] = none` is Go's nil slice (length 0). -/
structure VPool where
  slots : List (Option RegSet)
  exps : List Nat
  gen : Nat
  maxAge : Nat
  nextId : Nat          -- the Go allocator: ids of sets allocated by `make`
  deriving Repr, Inhabited

def VPool.new (size maxAge : Nat) : VPool :=
  { slots := List.replicate size none, exps := List.replicate size 0, gen := 0, maxAge := maxAge, nextId := 1 }

def slotLen : Option RegSet → Nat
  | none => 0
  | some c => c.vals.length

/-- index of the first slot whose set has length `sz` -/
def findLen (sz : Nat) : List (Option RegSet) → Nat → Option Nat
  | [], _ => none
  | s :: rest, i => if slotLen s = sz then some i else findLen sz rest (i + 1)

/-- `get(sz)`: bump the generation; reuse the first pooled set of exactly that length
(clearing its slot and expiry) or allocate a fresh zeroed one. -/
def VPool.get (p : VPool) (sz : Nat) : VPool × RegSet :=
  let p := { p with gen := p.gen + 1 }
  match findLen sz p.slots 0 with
  | some i =>
    let c := match p.slots.getD i none with
      | some c => c
      | none => { id := 0, vals := [] }   -- a nil slot matches only sz = 0: Go returns the nil slice
    ({ p with slots := p.slots.set i none, exps := p.exps.set i 0 }, c)
  | none =>
    -- `make([]Value, sz)`: an empty set has no storage, hence no identity
    if sz = 0 then (p, { id := 0, vals := [] })
    else ({ p with nextId := p.nextId + 1 }, { id := p.nextId, vals := List.replicate sz 0 })

/-- index of the first slot whose expiry generation is in the past -/
def findExpired (gen : Nat) : List Nat → Nat → Option Nat
  | [], _ => none
  | e :: rest, i => if e < gen then some i else findExpired gen rest (i + 1)

/-- `release(c)`: zero the set and put it in the first expired slot (evicting what was there);
if no slot is expired the set is simply dropped. -/
def VPool.release (p : VPool) (c : RegSet) : VPool :=
  match findExpired p.gen p.exps 0 with
  | some i =>
    { p with slots := p.slots.set i (some { c with vals := List.replicate c.vals.length 0 }),
             exps := p.exps.set i (p.gen + p.maxAge) }
  | none => p

/-! ### continuation pools (luaContPool, goContPool): a bounded stack -/

structure CPool where
  conts : List Nat      -- ids, TOP OF STACK FIRST; length = `next`
  cap : Nat
  nextId : Nat
  deriving Repr, Inhabited

def CPool.new (cap : Nat) : CPool := { conts := [], cap := cap, nextId := 1 }

/-- `get`: pop, or `new(LuaCont)` when empty -/
def CPool.get (p : CPool) : CPool × Nat :=
  match p.conts with
  | [] => ({ p with nextId := p.nextId + 1 }, p.nextId)
  | c :: rest => ({ p with conts := rest }, c)

/-- `release`: push unless full (the continuation is zeroed first — contents are not modelled) -/
def CPool.release (p : CPool) (c : Nat) : CPool :=
  if p.conts.length = p.cap then p else { p with conts := c :: p.conts }

/-- the VM as a client of a continuation pool: `live` = continuations handed out and not yet
released.  Releasing something that is not live (a double release) is the client error the
discipline excludes; here it is a no-op. -/
structure CSys where
  pool : CPool
  live : List Nat
  deriving Repr, Inhabited

inductive COp where
  | get
  | release (c : Nat)
  deriving Repr, DecidableEq

def CSys.init (cap : Nat) : CSys := { pool := CPool.new cap, live := [] }

def CSys.step (s : CSys) : COp → CSys
  | .get => let (p, c) := s.pool.get; { pool := p, live := c :: s.live }
  | .release c => if c ∈ s.live then { pool := s.pool.release c, live := s.live.erase c } else s

/-! ### a client using the pool, and the same client on the trivial allocator -/

/-- what the VM does with register sets: obtain one, write into one it holds, read from one it
holds, give one back.  Sets are named by *handles* = the order in which they were obtained, so
the same program can run against the pool and against plain allocation. -/
inductive Op where
  | get (sz : Nat)
  | write (h idx v : Nat)
  | read (h idx : Nat)
  | release (h : Nat)
  deriving Repr, DecidableEq

/-- client view: handle ↦ (held?, set) -/
structure Sys where
  pool : VPool
  held : List (Bool × RegSet)      -- index = handle
  deriving Repr, Inhabited

def Sys.init (size maxAge : Nat) : Sys := { pool := VPool.new size maxAge, held := [] }

/-- contents of a handle as the client sees it (only for held handles) -/
def Sys.view (s : Sys) (h : Nat) : Option (List Nat) :=
  match s.held[h]? with
  | some (true, c) => some c.vals
  | _ => none

/-- one step with the pool; output = what a `read` returns (`none` for non-reads and for the
undisciplined accesses — reading/writing/releasing a handle not held — which are no-ops here and
are excluded by the discipline in the theorems) -/
def Sys.step (s : Sys) : Op → Sys × Option Nat
  | .get sz =>
    let (p, c) := s.pool.get sz
    ({ pool := p, held := s.held ++ [(true, c)] }, none)
  | .write h idx v =>
    match s.held[h]? with
    | some (true, c) => ({ s with held := s.held.set h (true, { c with vals := c.vals.set idx v }) }, none)
    | _ => (s, none)
  | .read h idx =>
    match s.held[h]? with
    | some (true, c) => (s, c.vals[idx]?)
    | _ => (s, none)
  | .release h =>
    match s.held[h]? with
    | some (true, c) => ({ pool := s.pool.release c, held := s.held.set h (false, c) }, none)
    | _ => (s, none)

/-- the reference: plain allocation (`noregpool`): no reuse at all -/
structure Ref where
  held : List (Bool × List Nat)
  deriving Repr, Inhabited

def Ref.step (s : Ref) : Op → Ref × Option Nat
  | .get sz => ({ held := s.held ++ [(true, List.replicate sz 0)] }, none)
  | .write h idx v =>
    match s.held[h]? with
    | some (true, c) => ({ held := s.held.set h (true, c.set idx v) }, none)
    | _ => (s, none)
  | .read h idx =>
    match s.held[h]? with
    | some (true, c) => (s, c[idx]?)
    | _ => (s, none)
  | .release h =>
    match s.held[h]? with
    | some (true, c) => ({ held := s.held.set h (false, c) }, none)
    | _ => (s, none)

def Sys.run (s : Sys) : List Op → Sys × List (Option Nat)
  | [] => (s, [])
  | op :: ops =>
    let (s', o) := s.step op
    let (s'', os) := s'.run ops
    (s'', o :: os)

def Ref.run (s : Ref) : List Op → Ref × List (Option Nat)
  | [] => (s, [])
  | op :: ops =>
    let (s', o) := s.step op
    let (s'', os) := s'.run ops
    (s'', o :: os)

end GoluaVerif.Model.Pools
