/-
  Model.StrLib — mirror of the position handling in /repo/lib/stringlib/stringlib.go
  (`sub`, `bytef`) and matching.go (`find`, plain branch), written over the leaf
  functions REGENERATED from the Go source on every run:
  `Generated.StrNorm.StringNormPos`, `Generated.StrPos.maxpos/minpos`.
  Go `int` is `BitVec 64`; a Go string is its byte list, `len(s)` its length as int64.
  Core Lean only.
-/
import GoluaVerif.Base.I64
import GoluaVerif.Generated.StrPos
import GoluaVerif.Generated.StrNorm
import GoluaVerif.Spec.StrLib
namespace GoluaVerif.Model.StrLib
open GoluaVerif GoluaVerif.Generated.StrPos GoluaVerif.Generated.StrNorm
open GoluaVerif.Spec.StrLib (Bytes search)

def lenOf (s : Bytes) : I64 := BitVec.ofNat 64 s.length

/-- stringlib.go `sub`: `some (a, b)` = the Go slice expression `s[a:b]`, `none` = "" -/
def goSubRange (len i j : I64) : Option (I64 × I64) :=
  let i := StringNormPos len i
  let j := StringNormPos len j
  let i := maxpos 1#64 i
  let j := minpos len j
  if BitVec.sle i len && BitVec.sle i j then some (i - 1#64, j) else none

def goSub (s : Bytes) (i j : I64) : Bytes :=
  match goSubRange (lenOf s) i j with
  | some (a, b) => (s.drop a.toNat).take (b.toNat - a.toNat)
  | none => []

/-- stringlib.go `bytef`: the loop `for i <= j` runs over `[a, b]` -/
def goByteRange (len i : I64) (j : Option I64) : I64 × I64 :=
  let i := StringNormPos len i
  let j := match j with
    | none => i
    | some j => StringNormPos len j
  (maxpos 1#64 i, minpos len j)

def goByte (s : Bytes) (i : I64) (j : Option I64) : List Nat :=
  let (a, b) := goByteRange (lenOf s) i j
  if BitVec.sle a b then ((s.drop (a.toNat - 1)).take (b.toNat - a.toNat + 1)).map UInt8.toNat else []

/-- matching.go `find`: the 0-based start index, `none` = the `si > len(s)` branch (nil) -/
def goFindStart (len init : I64) : Option I64 :=
  let si := StringNormPos len init - 1#64
  let si := if BitVec.slt si 0#64 then 0#64 else si
  if BitVec.slt si 0#64 || BitVec.slt len si then none else some si

/-- matching.go `find`, plain branch: `i := strings.Index(s[si:], ptn)` and the results
    `int64(si+i+1), int64(si+i+len(ptn))`, computed in Go `int` (= `BitVec 64`) arithmetic. -/
def goFindPlain (s p : Bytes) (init : I64) : Option (Int × Int) :=
  match goFindStart (lenOf s) init with
  | none => none
  | some si => (search p (s.drop si.toNat) 0).map fun i =>
      ((si + BitVec.ofNat 64 i + 1#64).toInt, (si + BitVec.ofNat 64 i + BitVec.ofNat 64 p.length).toInt)

end GoluaVerif.Model.StrLib
