/-
  Model.Refactor — `(*Runtime).RefactorCodeConsts` (runtime/loadunit.go), which
  string.dump applies to a function before marshalling it: the constants of a
  compiled function are a vector shared by all the functions of the chunk
  (`unit`); refactoring keeps, in order of first use, only the constants the
  function's own opcodes load, rewrites the K-operand of those opcodes
  (`GetKIndex` / `SetKIndex`, regenerated from code/opcodes.go) and does the same
  recursively for the closures it creates (`OpClosureK`).
  Memory/CPU accounting is not modelled.  Core Lean only.
-/
import GoluaVerif.Generated.Opcode
import GoluaVerif.Model.Marshal
namespace GoluaVerif.Model.Refactor
open GoluaVerif GoluaVerif.Generated.Opcode
open GoluaVerif.Model.Marshal (Const Bytes)

/-- a compiled function prototype: `runtime.Code` without its (shared) constant vector -/
structure Proto where
  source : Bytes
  name : Bytes
  ops : List (BitVec 32)
  lines : List (BitVec 32)
  uv : BitVec 16
  rc : BitVec 16
  cc : BitVec 16
  ups : List Bytes
  deriving Repr, Inhabited

/-- an entry of the chunk's constant vector -/
inductive UConst where
  | int (n : BitVec 64)
  | float (b : BitVec 64)
  | str (s : Bytes)
  | code (p : Proto)
  deriving Repr, Inhabited

inductive Err where
  | badIndex     -- c.consts[n] out of range (Go: index panic)
  | tooMany      -- KIndexFromInt: more than 65535 kept constants (Go: panic)
  | notCode      -- OpClosureK on a constant that is not code, or OpK on a code constant (not produced by the compiler)
  | fuel
  deriving DecidableEq, Repr, Inhabited

/-- the opcode loads a constant: `op.TypePfx() == Type3Pfx && op.GetY().LoadsK()` -/
def loadsK (op : BitVec 32) : Bool :=
  Opcode.TypePfx op == Type3Pfx && UnOpK16.LoadsK (Opcode.GetY op)

def isClosureK (op : BitVec 32) : Bool := Opcode.GetY op == OpClosureK

def UConst.isCode : UConst → Bool
  | .code _ => true
  | _ => false

/-- the refactored form of a constant; `rec` refactors a nested prototype -/
def conv (rec : Proto → Except Err Const) : UConst → Except Err Const
  | .int n => .ok (.int n)
  | .float b => .ok (.float b)
  | .str s => .ok (.str s)
  | .code p => rec p

abbrev KMap := List (BitVec 16 × BitVec 16)

/-- the loop of `RefactorCodeConsts`: `map` is `constMap`, `acc` the constants kept so far -/
def refactorOps (rec : Proto → Except Err Const) (unit : List UConst) :
    List (BitVec 32) → KMap → List Const → Except Err (List (BitVec 32) × List Const)
  | [], _, acc => .ok ([], acc)
  | op :: ops, map, acc =>
    if loadsK op then
      let n := Opcode.GetKIndex op
      match map.lookup n with
      | some m =>
        match refactorOps rec unit ops map acc with
        | .error e => .error e
        | .ok (ops', acc') => .ok (Opcode.SetKIndex op m :: ops', acc')
      | none =>
        if acc.length > 65535 then .error .tooMany
        else
          match unit[n.toNat]? with
          | none => .error .badIndex
          | some k =>
            if isClosureK op != k.isCode then .error .notCode
            else
              match conv rec k with
              | .error e => .error e
              | .ok v =>
                let m := BitVec.ofNat 16 acc.length
                match refactorOps rec unit ops ((n, m) :: map) (acc ++ [v]) with
                | .error e => .error e
                | .ok (ops', acc') => .ok (Opcode.SetKIndex op m :: ops', acc')
    else
      match refactorOps rec unit ops map acc with
      | .error e => .error e
      | .ok (ops', acc') => .ok (op :: ops', acc')

/-- `RefactorCodeConsts(c)` for a function of a compiled chunk; `fuel` bounds the nesting of closures -/
def refactor : Nat → List UConst → Proto → Except Err Const
  | 0, _, _ => .error .fuel
  | fuel + 1, unit, p =>
    match refactorOps (refactor fuel unit) unit p.ops [] [] with
    | .error e => .error e
    | .ok (ops', ks) => .ok (.code p.source p.name ops' p.lines ks p.uv p.rc p.cc p.ups)

end GoluaVerif.Model.Refactor
