/-
  Model.CoProto — the interleaving model of runtime/thread.go's hand-off protocol.

  Any number of goroutines (indexed by Nat; 0 is the goroutine of the main thread), each
  with a program counter over atomic events: lock/unlock of a thread's mutex, send/receive
  on a thread's unbuffered `resumeCh` (a rendezvous: one joint step of sender and
  receiver), close of a channel, write of a thread's status/caller, `touch` (an access to
  runtime state shared by all threads: the context manager's accounting, pools, …) and
  `run` (run Lua code in the thread: touches the runtime *and* may re-enter
  Resume/Yield/Close, i.e. lock mutexes).  A schedule is any list of actions; `fire`
  executes one action if it is enabled.

  The ghost flag `act g` records "goroutine g is between its last receive and its next
  send" (the main goroutine: from the start).  It is written by the semantics only, never
  read: `baton_unique` (Props.C09) is a theorem about it, not a construction.

  `Generated/ThreadEvents.lean` (regenerated from thread.go on every run by
  extract/threadevents) instantiates `Proc`/`SEv`; `discTable` is the decidable discipline
  on that table, `disc` the discipline on concrete event programs.  Core Lean only.
-/
import GoluaVerif.Spec.Co
namespace GoluaVerif.Model.CoProto
open GoluaVerif.Spec.Co (upd)

inductive Ev
  | lock (m : Nat) | unlock (m : Nat)
  | send (c : Nat) | recv (c : Nat)
  | closeCh (c : Nat)
  | set (t : Nat)
  | touch
  | run
  | spawn
  deriving DecidableEq, Repr, Inhabited

structure St where
  prog : Nat → List Ev            -- remaining program of each goroutine
  holder : Nat → Option Nat       -- mutex ↦ goroutine holding it
  act : Nat → Bool                -- ghost: between its last recv and its next send

inductive Act | one (g : Nat) | sync (g h : Nat)
  deriving DecidableEq, Repr, Inhabited

/-- one atomic step; `none` = not enabled -/
def fire (s : St) : Act → Option St
  | .one g =>
    match s.prog g with
    | [] => none
    | .lock m :: r =>
      if s.holder m = none then some { s with prog := upd s.prog g r, holder := upd s.holder m (some g) }
      else none
    | .unlock m :: r => some { s with prog := upd s.prog g r, holder := upd s.holder m none }
    | .send _ :: _ => none
    | .recv _ :: _ => none
    | _ :: r => some { s with prog := upd s.prog g r }
  | .sync g h =>
    if g = h then none else
    match s.prog g with
    | .send c :: rg =>
      match s.prog h with
      | .recv c' :: rh =>
        if c = c' then
          some { s with prog := upd (upd s.prog g rg) h rh, act := upd (upd s.act g false) h true }
        else none
      | _ => none
    | _ => none

def runSched (s : St) : List Act → Option St
  | [] => some s
  | a :: as => (fire s a).bind (runSched · as)

/-- the initial state of a family of event programs -/
def initSt (fam : Nat → List Ev) : St := ⟨fam, fun _ => none, fun g => g == 0⟩

/-- reachable by some schedule -/
inductive Reach (fam : Nat → List Ev) : St → Prop
  | init : Reach fam (initSt fam)
  | step {s s' : St} (a : Act) : Reach fam s → fire s a = some s' → Reach fam s'

/-- g's next event accesses shared runtime state -/
def atTouch (s : St) (g : Nat) : Bool :=
  match s.prog g with
  | .touch :: _ => true
  | .run :: _ => true
  | _ => false

/-- g is "in the runtime": holds the baton or is about to touch shared state -/
def busy (s : St) (g : Nat) : Bool := s.act g || atTouch s g

def Stuck (s : St) : Prop := ∀ a, fire s a = none

/-! ### the discipline on concrete event programs -/

/-- phase of a goroutine: (holds the baton, mutexes it holds) -/
abbrev Ph := Bool × List Nat

def segStep : Ph → Ev → Option Ph
  | (a, h), .lock m => if a = true ∧ m ∉ h then some (a, m :: h) else none
  | (a, h), .unlock m => if m ∈ h then some (a, h.erase m) else none
  | (a, h), .send _ => if a = true then some (false, h) else none
  | (a, h), .recv _ => if a = false ∧ h = [] then some (true, []) else none
  | (a, h), .run => if a = true ∧ h = [] then some (a, h) else none
  | (a, h), .closeCh _ => if a = true then some (a, h) else none
  | (a, h), .set _ => if a = true then some (a, h) else none
  | (a, h), .touch => if a = true then some (a, h) else none
  | (a, h), .spawn => if a = true then some (a, h) else none

def seg : Ph → List Ev → Option Ph
  | p, [] => some p
  | p, e :: r => (segStep p e).bind (seg · r)

/-- The discipline `Disc` on one goroutine's program:
    * mutexes are taken only while holding the baton, never twice, and all are released
      before the goroutine blocks in a receive or terminates;
    * status writes, channel closes, runtime accesses and sends happen only while holding the baton;
    * Lua code is run only with no mutex held;
    * after a send, until the next receive, the goroutine only unlocks;
    * the main goroutine starts with the baton and ends with it, every other goroutine starts
      by receiving and ends after a send. -/
def disc (isMain : Bool) (p : List Ev) : Bool := seg (isMain, []) p == some (isMain, [])

/-- `Disc` for a family: every goroutine's program obeys the discipline -/
def Disc (fam : Nat → List Ev) : Prop := ∀ g, disc (g == 0) (fam g) = true

/-- every goroutine receives on its own channel only (a thread's `resumeCh` is read by that thread's
    goroutine alone: `getResumeValues` is called on the executing thread) -/
def ownRecvProg (g : Nat) (p : List Ev) : Bool :=
  p.all (fun e => match e with
    | .recv c => c == g
    | _ => true)

def OwnRecv (fam : Nat → List Ev) : Prop := ∀ g, ownRecvProg g (fam g) = true

theorem seg_append (p : Ph) (l1 l2 : List Ev) : seg p (l1 ++ l2) = (seg p l1).bind (seg · l2) := by
  induction l1 generalizing p with
  | nil => simp [seg]
  | cons e r ih =>
    simp only [List.cons_append, seg]
    cases segStep p e with
    | none => simp
    | some q => simp [ih]

/-! ### the symbolic event table extracted from thread.go -/

inductive Role | self | peer
  deriving DecidableEq, Repr, Inhabited

inductive SEv
  | lock (r : Role) | unlock (r : Role)
  | send (r : Role) | recv (r : Role)
  | closeCh (r : Role) | set (r : Role)
  | touch | run | spawn
  | callEnd                      -- `t.end(...)` (in Start's goroutine: the deferred call)
  deriving DecidableEq, Repr, Inhabited

structure Proc where
  name : String
  paths : List (List SEv)         -- the main path and one path per early `return`
  deriving DecidableEq, Repr, Inhabited

def Role.inst (self peer : Nat) : Role → Nat
  | .self => self
  | .peer => peer

/-- instantiate a symbolic event with the receiver thread `self` (= `t`) and `peer` (= `caller`);
    a thread's mutex and channel are named by the thread's id.  `callEnd` is expanded by the caller. -/
def SEv.inst (self peer : Nat) : SEv → List Ev
  | .lock r => [.lock (r.inst self peer)]
  | .unlock r => [.unlock (r.inst self peer)]
  | .send r => [.send (r.inst self peer)]
  | .recv r => [.recv (r.inst self peer)]
  | .closeCh r => [.closeCh (r.inst self peer)]
  | .set r => [.set (r.inst self peer)]
  | .touch => [.touch]
  | .run => [.run]
  | .spawn => [.spawn]
  | .callEnd => []

def instPath (self peer : Nat) (p : List SEv) : List Ev := p.flatMap (SEv.inst self peer)

/-- symbolic phase: (holds the baton, roles whose mutex is held) -/
abbrev SPh := Bool × List Role

/-- the discipline on symbolic events (the same automaton as `segStep`, over roles) -/
def segStepS : SPh → SEv → Option SPh
  | (a, h), .lock r => if a = true ∧ r ∉ h then some (a, r :: h) else none
  | (a, h), .unlock r => if r ∈ h then some (a, h.erase r) else none
  | (a, h), .send _ => if a = true then some (false, h) else none
  | (a, h), .recv _ => if a = false ∧ h = [] then some (true, []) else none
  | (a, h), .run => if a = true ∧ h = [] then some (a, h) else none
  | (a, h), .closeCh _ => if a = true then some (a, h) else none
  | (a, h), .set _ => if a = true then some (a, h) else none
  | (a, h), .touch => if a = true then some (a, h) else none
  | (a, h), .spawn => if a = true then some (a, h) else none
  | (a, h), .callEnd => some (a, h)

def segS : SPh → List SEv → Option SPh
  | p, [] => some p
  | p, e :: r => (segStepS p e).bind (segS · r)

/-- why the discipline refuses event `e` in phase `(a, h)` -/
def refusal : SPh → SEv → String
  | (a, h), .lock r => if a = false then "without-baton" else if r ∈ h then "relock-held-mutex" else "?"
  | (_, _), .unlock _ => "unlock-not-held"
  | (a, _), .recv _ => if a = true then "recv-with-baton" else "recv-with-mutex-held"
  | (a, _), .run => if a = false then "without-baton" else "with-mutex-held"
  | (_, _), _ => "without-baton"

structure Violation where
  proc : String
  path : Nat
  idx : Nat              -- position in the path (0-based); = path length for a bad exit
  ev : String            -- the refused event ("exit" for a bad exit phase)
  reason : String
  deriving DecidableEq, Repr, Inhabited

def SEv.name : SEv → String
  | .lock _ => "lock" | .unlock _ => "unlock" | .send _ => "send" | .recv _ => "recv"
  | .closeCh _ => "closeCh" | .set _ => "set" | .touch => "touch" | .run => "run"
  | .spawn => "spawn" | .callEnd => "callEnd"

/-- run the discipline over a symbolic path; a refused event is recorded and skipped (so that every
    violation of a path is reported, not only the first) -/
def pathViolations (name : String) (pi : Nat) : SPh → Nat → List SEv → List Violation × SPh
  | p, _, [] => ([], p)
  | p, i, e :: r =>
    match segStepS p e with
    | some q => pathViolations name pi q (i + 1) r
    | none =>
      let (vs, q) := pathViolations name pi p (i + 1) r
      (⟨name, pi, i, e.name, refusal p e⟩ :: vs, q)

/-- entry and exit phase required of each procedure of thread.go -/
def phases (name : String) : Option (Bool × Bool) :=
  if name = "Resume" ∨ name = "Close" ∨ name = "Yield" ∨ name = "Start" then some (true, true)
  else if name = "end" then some (true, false)
  else if name = "Start.go" then some (false, true)
  else if name = "getResumeValues" then some (false, true)
  else if name = "sendResumeValues" then some (true, false)
  else none

def checkPath (name : String) (en ex : Bool) (i : Nat) (p : List SEv) : List Violation :=
  let (vs, q) := pathViolations name i (en, []) 0 p
  if q = (ex, []) then vs else vs ++ [⟨name, i, p.length, "exit", if q.2 = [] then "wrong-phase" else "mutex-held"⟩]

def checkPaths (name : String) (en ex : Bool) : Nat → List (List SEv) → List Violation
  | _, [] => []
  | i, p :: ps => checkPath name en ex i p ++ checkPaths name en ex (i + 1) ps

def checkProc (pr : Proc) : List Violation :=
  match phases pr.name with
  | none => []
  | some (en, ex) =>
    if pr.paths = [] then [⟨pr.name, 0, 0, "exit", "no-path"⟩] else checkPaths pr.name en ex 0 pr.paths

def required : List String := ["Resume", "Close", "Yield", "end", "Start", "Start.go", "getResumeValues", "sendResumeValues"]

/-- every violation of the discipline in an event table (empty = the table obeys it) -/
def discViolations (tbl : List Proc) : List Violation :=
  (required.filter (fun n => !(tbl.any (fun p => p.name == n)))).map (fun n => ⟨n, 0, 0, "proc", "missing"⟩)
    ++ tbl.flatMap checkProc

def discTable (tbl : List Proc) : Bool := discViolations tbl == []

def findProc (tbl : List Proc) (name : String) : Proc :=
  (tbl.find? (fun p => p.name == name)).getD ⟨name, []⟩

/-- which role's goroutine executes a procedure: Resume/Close run on the caller's goroutine, the
    others on the thread's own -/
def executor (name : String) : Role :=
  if name = "Resume" ∨ name = "Close" then .peer else .self

/-- table-level form of `OwnRecv`: every receive in a procedure is on the executing thread's channel -/
def ownRecvTable (tbl : List Proc) : Bool :=
  tbl.all (fun pr => pr.paths.all (fun p => p.all (fun e =>
    match e with
    | .recv r => r == executor pr.name
    | _ => true)))

/-- the `i`-th path of procedure `name` -/
def pathOf (tbl : List Proc) (name : String) (i : Nat) : List SEv := ((findProc tbl name).paths)[i]?.getD []

/-- what a goroutine does between its receives: calls of thread.go's procedures (any path through
    them, any two distinct threads as `t` and `caller`), Lua code, runtime accesses -/
inductive Item
  | call (name : String) (path : Nat) (self peer : Nat)
  | run
  | touch
  deriving DecidableEq, Repr, Inhabited

def Item.expand (tbl : List Proc) : Item → List Ev
  | .call name i self peer => instPath self peer (pathOf tbl name i)
  | .run => [.run]
  | .touch => [.touch]

/-- an item a goroutine may execute while holding the baton -/
def Item.wf (tbl : List Proc) : Item → Prop
  | .call name i self peer =>
    self ≠ peer ∧ (name = "Resume" ∨ name = "Close" ∨ name = "Yield" ∨ name = "Start") ∧
      i < (findProc tbl name).paths.length
  | _ => True

/-- the program of the main goroutine: any sequence of items -/
def mainProg (tbl : List Proc) (items : List Item) : List Ev := items.flatMap (Item.expand tbl)

/-- the program of coroutine `t`'s goroutine (`Start`'s `go func`): the `iGo`-th path of Start.go,
    any sequence of items, then the `iEnd`-th path of `end` with `caller = c` -/
def coProg (tbl : List Proc) (t c : Nat) (iGo iEnd : Nat) (items : List Item) : List Ev :=
  instPath t c (pathOf tbl "Start.go" iGo) ++ items.flatMap (Item.expand tbl) ++ instPath t c (pathOf tbl "end" iEnd)

/-- the last (= fall-through, main) path of a procedure -/
def mainPath (tbl : List Proc) (name : String) : List SEv := ((findProc tbl name).paths.getLast?).getD []

/-! ### the event order of `Thread.end` before and after its repair -/

/-- HISTORICAL: thread.go `end` before commits 1103ae4 / f712ee8: lock t, lock caller, close(resumeCh),
    status/caller writes, cleanupCloseStack (runs `__close` handlers: Lua code) **with both mutexes held**,
    send to the caller, and only then `ReleaseBytes` on the shared context manager, then the deferred
    unlocks.  Kept only for the two labelled examples in Props.C09 that show what the discipline rules out. -/
def preFixEnd : List SEv :=
  [.lock .self, .lock .peer, .closeCh .self, .set .self, .run, .set .self, .send .peer, .touch,
   .unlock .peer, .unlock .self]

/-- the repaired order: run the close stack before taking the mutexes, release the accounted stack
    before handing control back -/
def fixedEnd : List SEv :=
  [.run, .lock .self, .lock .peer, .closeCh .self, .set .self, .touch, .send .peer,
   .unlock .peer, .unlock .self]

def replaceEnd (tbl : List Proc) (p : List SEv) : List Proc :=
  tbl.map (fun pr => if pr.name = "end" then { pr with paths := [p] } else pr)

/-- the main paths of Resume / Start's goroutine / Yield written out (used by the example families only) -/
def exResume : List SEv :=
  [.lock .self, .lock .peer, .set .self, .unlock .self, .unlock .peer, .send .self, .recv .peer]
def exStartGo : List SEv := [.recv .self, .touch, .run, .touch, .callEnd]

def exYield : List SEv :=
  [.lock .self, .lock .peer, .set .self, .unlock .self, .unlock .peer, .send .peer, .recv .self]

def famOfList (l : List (List Ev)) : Nat → List Ev := fun g => l.getD g []

/-- a family obeying `Disc` (three goroutines): main resumes coroutine 1, which yields back, then
    resumes coroutine 2, which runs to completion, then coroutine 1 again, which finishes -/
def famOK : Nat → List Ev := famOfList
  [instPath 1 0 exResume ++ [.touch] ++ instPath 2 0 exResume ++ [.touch]
     ++ instPath 1 0 exResume ++ [.touch],
   instPath 1 0 [.recv .self, .run] ++ instPath 1 0 exYield ++ [.run] ++ instPath 1 0 fixedEnd,
   instPath 2 0 [.recv .self, .run] ++ instPath 2 0 fixedEnd]

def Violation.kind (v : Violation) : String × String × String := (v.proc, v.ev, v.reason)

/-- HISTORICAL race witness (pre-repair `end`): main resumes coroutine 1 (Resume t=1 caller=0) and then allocates (`touch`);
    coroutine 1's goroutine runs its body and ends (pre-repair `end`). -/
def famRace : Nat → List Ev := famOfList
  [instPath 1 0 exResume ++ [.touch],
   instPath 1 0 exStartGo ++ instPath 1 0 preFixEnd]

def raceSched : List Act :=
  [.one 0, .one 0, .one 0, .one 0, .one 0, .sync 0 1,
   .one 1, .one 1, .one 1,
   .one 1, .one 1, .one 1, .one 1, .one 1, .one 1, .sync 1 0]

/-- HISTORICAL deadlock witness (pre-repair `end`): coroutine 1 is ended (error or close) with a pending to-be-closed variable whose
    `__close` handler resumes coroutine 2: the handler runs inside `end` (the `run` event, both mutexes
    held) and is `Resume(t = 2, caller = 1)`, whose second event locks mutex 1 again. -/
def famCloseResumes : Nat → List Ev := famOfList
  [instPath 1 0 exResume ++ [.touch],
   instPath 1 0 [.recv .self, .touch, .run, .touch]
     ++ instPath 1 0 (preFixEnd.take 4) ++ instPath 2 1 exResume ++ instPath 1 0 (preFixEnd.drop 5),
   instPath 2 1 exStartGo ++ instPath 2 1 preFixEnd]

def deadlockSched : List Act :=
  [.one 0, .one 0, .one 0, .one 0, .one 0, .sync 0 1,
   .one 1, .one 1, .one 1,
   .one 1, .one 1, .one 1, .one 1, .one 1]

/-- nothing among goroutines 0..n-1 can move -/
def stuckBelow (n : Nat) (s : St) : Bool :=
  (List.range n).all (fun g => (fire s (.one g)).isNone && (List.range n).all (fun h => (fire s (.sync g h)).isNone))

end GoluaVerif.Model.CoProto
