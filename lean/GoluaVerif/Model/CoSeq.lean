/-
  Model.CoSeq — the sequential semantics of runtime/thread.go's Resume / Yield / Close /
  end over the Go-level data: a map  thread ↦ {status, caller, closeErr, closeStack size}
  and the thread currently holding control (`cur`).

  golua has three Go-level statuses: ThreadOK (running *or* normal), ThreadSuspended,
  ThreadDead; `caller` is who resumed the thread.  Every `panic("…")` of thread.go
  ("Caller of thread to resume is not running", "Thread to yield is not running",
  "Called Thread.end on a non-running thread", …, and the nil dereference of `caller`
  in `end`) is the result `none`.  Core Lean only.
-/
import GoluaVerif.Spec.Co
namespace GoluaVerif.Model.CoSeq
open GoluaVerif.Spec.Co (Id Val Msg Event Op upd tbcEvents)

inductive GoStatus | ok | suspended | dead
  deriving DecidableEq, Repr, Inhabited

structure Thread where
  status : GoStatus
  caller : Option Id
  closeErr : Option Val
  tbc : Nat
  deriving DecidableEq, Repr, Inhabited

def Thread.fresh : Thread := ⟨.suspended, none, none, 0⟩

structure State where
  n : Nat
  th : Id → Thread
  cur : Id

/-- rt.New: the main thread is created with status ThreadOK and no caller -/
def init : State := ⟨1, upd (fun _ => Thread.fresh) 0 ⟨.ok, none, none, 0⟩, 0⟩

/-- `Thread.end(args, err, exception)` run by `cur`: lock t, lock caller, status checks,
    close(resumeCh), status := dead, caller := nil, cleanupCloseStack, closeErr := err,
    send to caller. -/
def endThread (s : State) (e : Option Val) (m : Msg) : Option (State × List Event) :=
  let t := s.cur
  match (s.th t).caller with
  | none => none                                  -- `caller.mux.Lock()` on a nil caller
  | some c =>
    if (s.th t).status ≠ .ok then none            -- "Called Thread.end on a non-running thread"
    else if (s.th c).status ≠ .ok then none       -- "Caller thread of ending thread is not OK"
    else
      some ({ s with th := upd s.th t ⟨.dead, none, e, 0⟩, cur := c },
            tbcEvents t (s.th t).tbc e ++ [.deliver c m])

def step (s : State) : Op → Option (State × List Event)
  | .create => some ({ s with n := s.n + 1, th := upd s.th s.n Thread.fresh }, [])
  | .resume t vs =>
    -- Resume(caller = cur, args = vs)
    if t < s.n ∧ (s.th t).status = .suspended then
      if (s.th s.cur).status ≠ .ok then none      -- "Caller of thread to resume is not running"
      else some ({ s with th := upd s.th t { s.th t with caller := some s.cur, status := .ok }, cur := t },
                 [.deliver t (.args vs)])
    else some (s, [.deliver s.cur .illegal])       -- "cannot resume dead/running thread"
  | .yield vs =>
    if (s.th s.cur).status ≠ .ok then none        -- "Thread to yield is not running"
    else match (s.th s.cur).caller with
      | none => some (s, [.deliver s.cur .illegal])  -- "cannot yield from main thread"
      | some c =>
        if (s.th c).status ≠ .ok then none        -- "Caller of thread to yield is not OK"
        else some ({ s with th := upd s.th s.cur { s.th s.cur with status := .suspended, caller := none }, cur := c },
                   [.deliver c (.ok vs)])
  | .ret vs => endThread s none (.ok vs)
  | .err v => endThread s (some v) (.fail v)
  | .exc => endThread s none .exc
  | .close t =>
    -- Close(caller = cur)
    if t < s.n ∧ (s.th t).status = .suspended then
      if (s.th s.cur).status ≠ .ok then none      -- "Caller of thread to close is not running"
      else
        -- the thread goes back to running to empty its close stack (threadClose exception in its
        -- goroutine → Start's deferred `end(nil, nil, nil)`), then becomes dead
        endThread { s with th := upd s.th t { s.th t with caller := some s.cur, status := .ok }, cur := t }
          none (.closed none)
    else if t < s.n ∧ (s.th t).status = .dead then some (s, [.deliver s.cur (.closed (s.th t).closeErr)])
    else some (s, [.deliver s.cur .illegal])
  | .mark => some ({ s with th := upd s.th s.cur { s.th s.cur with tbc := (s.th s.cur).tbc + 1 } }, [])
  | .unmark e =>
    -- cleanupCloseStack down to the enclosing height: pop the innermost value, call its __close with e
    if (s.th s.cur).tbc = 0 then some (s, [])
    else some ({ s with th := upd s.th s.cur { s.th s.cur with tbc := (s.th s.cur).tbc - 1 } }, [.tbc s.cur e])

def run (s : State) : List Op → Option (State × List Event)
  | [] => some (s, [])
  | op :: ops =>
    match step s op with
    | none => none
    | some (s1, e1) =>
      match run s1 ops with
      | none => none
      | some (s2, e2) => some (s2, e1 ++ e2)

/-- Lua-visible status as computed by lib/coroutine `statusString(running, co)` -/
def luaStatus (s : State) (t : Id) : GoluaVerif.Spec.Co.Status :=
  if t = s.cur then .running
  else match (s.th t).status with
    | .dead => .dead
    | .suspended => .suspended
    | .ok => .normal

end GoluaVerif.Model.CoSeq
