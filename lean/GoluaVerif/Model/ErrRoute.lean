/-
  Model.ErrRoute — how golua decorates and routes error values: a mirror of
    runtime/error.go      (Error{message, handled, lineno, source}, AddContext)
    lib/base/error.go     (errorF: level handling)
    runtime/thread.go     (RunContinuation: AddContext(c, -1), message handler, handled flag;
                           messageHandlerCont: first push wins)
  Continuations are abstracted to what AddContext looks at: a chain of frames (the continuation and its
  Parent()s), each being a Lua function or not and possibly carrying debug info (source, current line).
  Core Lean only.
-/
namespace GoluaVerif.Model.ErrRoute

/-- message of an error: a string, or any other Lua value (opaque here) -/
inductive Msg (V : Type) where
  | str (s : String)
  | other (v : V)
  deriving DecidableEq, Repr

structure DebugInfo where
  source : String
  /-- `CurrentLine`; golua uses 0 / -1 for "no line" -/
  currentLine : Int
  deriving DecidableEq, Repr

/-- one continuation of the chain `c, c.Parent(), c.Parent().Parent(), …` -/
structure Frame where
  isLua : Bool
  info : Option DebugInfo
  deriving DecidableEq, Repr

structure Error (V : Type) where
  message : Msg V
  handled : Bool := false
  lineno : Int := 0
  source : String := ""
  deriving DecidableEq, Repr

/-- `for depth > 1 && c != nil { c = c.Parent(); depth-- }` -/
def walkUp : List Frame → Nat → List Frame
  | c, 0 => c
  | [], _ => []
  | _ :: ps, n + 1 => walkUp ps n

/-- `for c != nil { if _, ok := c.(*LuaCont); ok { break }; c = c.Parent() }` -/
def nearestLua : List Frame → List Frame
  | [] => []
  | f :: ps => if f.isLua then f :: ps else nearestLua ps

/-- `func (e *Error) AddContext(c Cont, depth int) *Error` -/
def addContext {V} (e : Error V) (chain : List Frame) (depth : Int) : Error V :=
  if e.lineno ≠ 0 ∨ e.handled then e else
  let e1 : Error V := { message := e.message, handled := false, lineno := -1, source := "?" }
  if depth = 0 then e1 else
  let c := if depth > 0 then walkUp chain (depth.toNat - 1) else nearestLua chain
  match c with
  | [] => e1
  | f :: _ =>
    match f.info with
    | none => e1
    | some info =>
      let lineno := if info.currentLine ≠ 0 then info.currentLine else e1.lineno
      let e2 : Error V := { e1 with lineno := lineno, source := info.source }
      match e2.message with
      | .str s =>
        if lineno > 0 then { e2 with message := .str (info.source ++ ":" ++ toString lineno ++ ": " ++ s) } else e2
      | .other _ => e2

/-- `errorF` of lib/base/error.go: `error(v, level)` called with continuation chain `next :: …`
    (`c.Next()` and its parents) -/
def errorF {V} (v : Msg V) (level : Int) (next : List Frame) : Error V :=
  let err : Error V := { message := v }
  if level ≠ 1 then addContext err next level else err

/-- what `RunContinuation` does with an error coming out of continuation `c` (chain `c :: parents`)
    when no message handler is installed: handled errors pass, others get context from the nearest
    Lua continuation and become handled (messageHandlerCont) -/
def route {V} (e : Error V) (chain : List Frame) : Error V :=
  if e.handled then e else { addContext e chain (-1) with handled := true }

/-- `messageHandlerCont.Push`: the first pushed value wins -/
structure HandlerCont (V : Type) where
  err : Option V := none

def HandlerCont.push {V} (c : HandlerCont V) (v : V) : HandlerCont V :=
  match c.err with
  | none => { err := some v }
  | some _ => c

end GoluaVerif.Model.ErrRoute
