/-
  Model.Table — a line-by-line mirror of /repo/runtime/hashtable.go (`mixedTable`,
  `hashTable`, `array`).  Keys are `Spec.Key` values as the caller supplies them (not
  nil, not NaN, floats not yet normalised); `toInt` is `ToIntNoString` and the
  `k = IntValue(i)` normalisation is written out where — and only where — the Go code does it.

  * Go's hash is seeded per process, so everything is parameterised by
    `hash : Key → Nat`; `k.Hash() & mask` is `hash k &&& mask`.
  * A slot's `next` word (`index<<2 | flags`) is kept as the triple
    `(next, hasNext, chained)`; indices stay below 2^62, so the packing is injective.
  * `noNextFree` (= 2^64−1, also what `0 − 1` wraps to) is `none`.
  * nil pointers (`*hashTable`, `*array`) are `Option`.
  * Every function returns `Option _`: `none` means "the Go code would panic here (index
    out of range) or the loop did not stop within the fuel supplied".  The theorems in
    Props/C03 show that under the invariant no operation returns `none`.

  Core Lean only.
-/
import GoluaVerif.Spec.Map
namespace GoluaVerif.Model.Table
open GoluaVerif.Spec (Key Val NextRes)

/-- `hashTableSlot` -/
structure Slot where
  /-- `none`: `key.IsNil()` — the slot is empty -/
  key : Option Key
  /-- `none`: `value.IsNil()` (a tombstone when `key` is not nil) -/
  val : Option Val
  /-- `nextIndex()` -/
  next : Nat
  /-- `hasNextFlag` -/
  hasNext : Bool
  /-- `chainedFlag` -/
  chained : Bool
  deriving DecidableEq, Repr, Inhabited

/-- the zero value of `hashTableSlot` -/
def Slot.zero : Slot := ⟨none, none, 0, false, false⟩

/-- `hashTable` -/
structure HashTable where
  slots : List Slot
  /-- `none` = `noNextFree` -/
  nextFree : Option Nat
  base : Nat
  deriving DecidableEq, Repr

/-- `array` -/
structure Arr where
  values : List (Option Val)
  len : Nat
  deriving DecidableEq, Repr

/-- `mixedTable` -/
structure Mixed where
  hash : Option HashTable
  arr : Option Arr
  deriving DecidableEq, Repr

/-- `NewTable()`: `&mixedTable{}` -/
def Mixed.init : Mixed := ⟨none, none⟩

def smallHashTableSize : Nat := 8

/-- `ToIntNoString` (for floats: `FloatToInt`, i.e. `Spec.Num.floatToInt?`; the oracle compares
    that with the regenerated `Generated.Comp.FloatToInt` on every float key it sees) -/
abbrev toInt : Key → Option Int := Key.toInt?

/-- `xs[i] = x` with Go's bounds check -/
def setAt {α} (xs : List α) (i : Nat) (x : α) : Option (List α) :=
  if i < xs.length then some (xs.set i x) else none

/-! ## array -/

/-- `a != nil && 1 <= i && i <= int64(len(a.values))` -/
def Arr.has (a : Arr) (i : Int) : Bool := decide (1 ≤ i) && decide (i ≤ (a.values.length : Int))

/-- `array.get`: `(v, ok)` -/
def arrGet (a : Option Arr) (i : Int) : Option (Option Val × Bool) :=
  match a with
  | none => some (none, false)
  | some a =>
    if a.has i then do
      let v ← a.values[(i.toNat - 1)]?
      pure (v, true)
    else some (none, false)

/-- `array.setValue`: new array and `ok` -/
def arrSetValue (a : Option Arr) (i : Int) (v : Option Val) : Option (Option Arr × Bool) :=
  match a with
  | none => some (none, false)
  | some a =>
    if a.has i then do
      let vs ← setAt a.values (i.toNat - 1) v
      pure (some ⟨vs, if a.len < i.toNat then i.toNat else a.len⟩, true)
    else some (some a, false)

/-- `array.resetValue`: new array, `ok`, `wasSet` -/
def arrResetValue (a : Option Arr) (i : Int) (v : Option Val) : Option (Option Arr × Bool × Bool) :=
  match a with
  | none => some (none, false, false)
  | some a =>
    if a.has i then do
      let old ← a.values[(i.toNat - 1)]?
      if old.isSome then do
        let vs ← setAt a.values (i.toNat - 1) v
        pure (some ⟨vs, a.len⟩, true, true)
      else pure (some a, true, false)
    else some (some a, false, false)

/-- `for l >= 1 && a.values[l-1].IsNil() { l-- }` -/
def shrinkLen (values : List (Option Val)) : Nat → Option Nat
  | 0 => some 0
  | l + 1 => do
    let v ← values[l]?
    if v.isNone then shrinkLen values l else pure (l + 1)

/-- `array.remove`: new array, `ok`, `wasSet` -/
def arrRemove (a : Option Arr) (i : Int) : Option (Option Arr × Bool × Bool) :=
  match a with
  | none => some (none, false, false)
  | some a =>
    if a.has i then do
      let old ← a.values[(i.toNat - 1)]?
      let wasSet := decide ((a.len : Int) ≥ i) && old.isSome
      if !wasSet then pure (some a, true, false)
      else do
        let vs ← setAt a.values (i.toNat - 1) none
        let l := i.toNat
        if a.len = l then do
          let l' ← shrinkLen vs l
          pure (some ⟨vs, l'⟩, true, true)
        else pure (some ⟨vs, a.len⟩, true, true)
    else some (some a, false, false)

/-- `array.size` -/
def arrSize : Option Arr → Nat
  | none => 0
  | some a => a.values.length

/-- `array.getLen` -/
def arrLen : Option Arr → Nat
  | none => 0
  | some a => a.len

/-- the loop of `array.next`, `fuel` iterations: `(next, v)`, `next = 0` when the array is exhausted -/
def arrNextLoop (values : List (Option Val)) (len : Nat) : Nat → Nat → Option (Nat × Option Val)
  | 0, _ => none
  | fuel + 1, i =>
    if i ≥ len then some (0, none)   -- `if i >= int64(a.len) { return }`
    else do
      let v ← values[i]?
      if v.isSome then pure (i + 1, v) else arrNextLoop values len fuel (i + 1)

/-- `array.next`: `(next, v, ok)` -/
def arrNext (a : Option Arr) (i : Int) : Option (Nat × Option Val × Bool) :=
  match a with
  | none => some (0, none, false)
  | some a =>
    -- "i may be above a.len if items were removed during the iteration"
    if decide (0 ≤ i) && decide (i ≤ (a.values.length : Int)) then do
      let (j, v) ← arrNextLoop a.values a.len (a.len - i.toNat + 1) i.toNat
      pure (j, v, true)
    else some (0, none, false)

/-- `array.grow(sz)`: `copy` into a longer zeroed slice; `len` is kept -/
def arrGrow (a : Option Arr) (sz : Nat) : Arr :=
  match a with
  | none => ⟨List.replicate sz none, 0⟩
  | some a => ⟨a.values.take sz ++ List.replicate (sz - a.values.length) none, a.len⟩

/-- `bits.Len(uint(x))` -/
def bitsLen (x : Nat) : Nat := if x = 0 then 0 else Nat.log2 x + 1

/-- `idxCountByLen[l]++` -/
def bump (counts : List Nat) (l : Nat) : List Nat := counts.modify l (· + 1)

/-- `array.classifyIndices`: over `a.values[:a.len]` -/
def arrClassify (a : Option Arr) (counts : List Nat) : List Nat :=
  match a with
  | none => counts
  | some a =>
    let rec go (vs : List (Option Val)) (i : Nat) (counts : List Nat) : List Nat :=
      match vs with
      | [] => counts
      | v :: rest => go rest (i + 1) (if v.isSome then bump counts (bitsLen i) else counts)
    go (a.values.take a.len) 0 counts

/-- `calculateArraySize`: `(base, idxCount)` threaded through `for l, c := range idxCountByLen` -/
def calcLoop : List Nat → Nat → Option Nat → Nat → Option Nat
  | [], _, base, _ => base
  | c :: rest, l, base, idxCount =>
    let idxCount := idxCount + c
    let base := if c ≠ 0 ∧ (l = 0 ∨ idxCount ≥ 2 ^ (l - 1)) then some l else base
    calcLoop rest (l + 1) base idxCount

def calculateArraySize (counts : List Nat) : Nat :=
  match calcLoop counts 0 none 0 with
  | some b => 2 ^ b
  | none => 0

/-! ## hash table -/

section
variable (hash : Key → Nat)

/-- `findSlot`, small table: `for j := int(mask); j >= 0; j--` -/
def findSmall (slots : List Slot) (k : Key) : Nat → Option (Option Nat)
  | 0 => do
    let it ← slots[0]?
    pure (if it.key = some k then some 0 else none)
  | j + 1 => do
    let it ← slots[j + 1]?
    if it.key = some k then pure (some (j + 1)) else findSmall slots k j

/-- `findSlot`, the chain walk `for !it.key.Equals(k) { if !it.hasNext() {return nil}; i = it.nextIndex(); it = &slots[i] }` -/
def findChain (slots : List Slot) (k : Key) : Nat → Nat → Option (Option Nat)
  | 0, _ => none
  | fuel + 1, i => do
    let it ← slots[i]?
    if it.key = some k then pure (some i)
    else if !it.hasNext then pure none
    else findChain slots k fuel it.next

/-- `findSlot`: `some none` = not found, `some (some i)` = found in slot `i` -/
def findSlot (slots : List Slot) (mask : Nat) (k : Key) : Option (Option Nat) :=
  if mask < smallHashTableSize then findSmall slots k mask
  else do
    let i := hash k &&& mask
    let it ← slots[i]?
    if it.chained then pure none
    else findChain slots k slots.length i

/-- the predecessor walk in case 2 of `insertNewKeyValue`:
    `for nidx := pit.nextIndex(); nidx != i; nidx = pit.nextIndex() { pidx = nidx; pit = &items[pidx] }` -/
def findPred (slots : List Slot) (i : Nat) : Nat → Nat → Option Nat
  | 0, _ => none
  | fuel + 1, pidx => do
    let pit ← slots[pidx]?
    if pit.next = i then pure pidx else findPred slots i fuel pit.next

/-- which branch `insertNewKeyValue` took (reported by the oracle as branch coverage) -/
inductive InsCase where
  | small | emptyPrimary | occupantChained | occupantPrimary
  deriving DecidableEq, Repr

def insCase (slots : List Slot) (mask : Nat) (k : Key) : Option InsCase :=
  if mask < smallHashTableSize then some .small
  else do
    let cit ← slots[hash k &&& mask]?
    pure (if cit.key.isNone then .emptyPrimary else if cit.chained then .occupantChained else .occupantPrimary)

/-- `insertNewKeyValue`: new slots and "nextFree must be updated" -/
def insertNew (slots : List Slot) (mask : Nat) (k : Key) (v : Val) (nextFree : Option Nat) :
    Option (List Slot × Bool) :=
  let it : Slot := ⟨some k, some v, 0, false, false⟩
  if mask < smallHashTableSize then do
    let nf ← nextFree
    let s ← setAt slots nf it
    pure (s, true)
  else do
    let i := hash k &&& mask
    let cit ← slots[i]?
    match cit.key with
    | none => do
      -- the simple case
      let s ← setAt slots i it
      pure (s, nextFree = some i)
    | some ck =>
      if cit.chained then do
        -- move new item into primary position, move colliding item into free position
        let pidx ← findPred slots i slots.length (hash ck &&& mask)
        let nf ← nextFree
        let s1 ← setAt slots nf cit
        let s2 ← setAt s1 i it
        let pit ← s2[pidx]?
        let s3 ← setAt s2 pidx { pit with next := nf, hasNext := true }
        pure (s3, true)
      else do
        -- colliding item is in primary position, put new item into free position
        let nf ← nextFree
        let s1 ← setAt slots nf { cit with chained := true }
        let s2 ← setAt s1 i { it with next := nf, hasNext := true }
        pure (s2, true)

/-- `for nextFree != noNextFree && !slots[nextFree].isEmpty() { nextFree-- }` from a valid index -/
def updateNextFreeFrom (slots : List Slot) : Nat → Option (Option Nat)
  | 0 => do
    let it ← slots[0]?
    pure (if it.key.isNone then some 0 else none)
  | n + 1 => do
    let it ← slots[n + 1]?
    if it.key.isNone then pure (some (n + 1)) else updateNextFreeFrom slots n

/-- `updateNextFree` -/
def updateNextFree (slots : List Slot) : Option Nat → Option (Option Nat)
  | none => some none
  | some n => updateNextFreeFrom slots n

/-- `setKeyValue` -/
def setKeyValue (slots : List Slot) (mask : Nat) (k : Key) (v : Val) (nextFree : Option Nat) :
    Option (List Slot × Bool) := do
  match ← findSlot hash slots mask k with
  | some i =>
    let it ← slots[i]?
    let s ← setAt slots i { it with val := some v }
    pure (s, false)
  | none => insertNew hash slots mask k v nextFree

/-- `resetKeyValue`: new slots and `wasSet` -/
def resetKeyValue (slots : List Slot) (mask : Nat) (k : Key) (v : Val) : Option (List Slot × Bool) := do
  match ← findSlot hash slots mask k with
  | some i =>
    let it ← slots[i]?
    if it.val.isSome then do
      let s ← setAt slots i { it with val := some v }
      pure (s, true)
    else pure (slots, false)
  | none => pure (slots, false)

/-- `removeKey` (package-level): the key stays, the value becomes nil -/
def removeKeySlots (slots : List Slot) (mask : Nat) (k : Key) : Option (List Slot × Bool) := do
  match ← findSlot hash slots mask k with
  | some i =>
    let it ← slots[i]?
    let s ← setAt slots i { it with val := none }
    pure (s, it.val.isSome)
  | none => pure (slots, false)

/-- `(1<<t.base)-1` -/
def HashTable.mask (t : HashTable) : Nat := 2 ^ t.base - 1

/-- `hashTable.set` -/
def hSet (t : HashTable) (k : Key) (v : Val) : Option HashTable := do
  let (s, upd) ← setKeyValue hash t.slots t.mask k v t.nextFree
  if upd then do
    let nf ← updateNextFree s t.nextFree
    pure { t with slots := s, nextFree := nf }
  else pure { t with slots := s }

/-- `hashTable.reset` -/
def hReset (t : Option HashTable) (k : Key) (v : Val) : Option (Option HashTable × Bool) :=
  match t with
  | none => some (none, false)
  | some t => do
    let (s, w) ← resetKeyValue hash t.slots t.mask k v
    pure (some { t with slots := s }, w)

/-- `hashTable.find` -/
def hFind (t : Option HashTable) (k : Key) : Option (Option Val) :=
  match t with
  | none => some none
  | some t => do
    match ← findSlot hash t.slots t.mask k with
    | some i =>
      let it ← t.slots[i]?
      pure it.val
    | none => pure none

/-- `hashTable.removeKey` -/
def hRemoveKey (t : Option HashTable) (k : Key) : Option (Option HashTable × Bool) :=
  match t with
  | none => some (none, false)
  | some t => do
    let (s, w) ← removeKeySlots hash t.slots t.mask k
    pure (some { t with slots := s }, w)

/-- `hashTable.full` -/
def hFull : Option HashTable → Bool
  | none => true
  | some t => t.nextFree.isNone

/-- `copyItems` -/
def copyItems (items : List Slot) (src : List Slot) (mask : Nat) (nextFree : Option Nat) :
    Option (List Slot × Option Nat) :=
  match src with
  | [] => some (items, nextFree)
  | it :: rest =>
    match it.val with
    | none => copyItems items rest mask nextFree
    | some v => do
      let k ← it.key
      let (items', upd) ← insertNew hash items mask k v nextFree
      let nf ← if upd then updateNextFree items' nextFree else pure nextFree
      copyItems items' rest mask nf

/-- `hashTable.grow` -/
def hGrow (t : Option HashTable) : Option HashTable :=
  match t with
  | none => some ⟨[Slot.zero], some 0, 0⟩
  | some t => do
    let base := t.base + 1
    let sz := 2 ^ base
    let mask := sz - 1
    let (items, nf) ← copyItems hash (List.replicate sz Slot.zero) t.slots mask (some mask)
    pure ⟨items, nf, base⟩

/-- `hashTable.cleanup` -/
def hCleanup (t : Option HashTable) : Option (Option HashTable) :=
  match t with
  | none => some none
  | some t => do
    let mask := t.slots.length - 1
    let (items, nf) ← copyItems hash (List.replicate t.slots.length Slot.zero) t.slots mask (some mask)
    pure (some { t with slots := items, nextFree := nf })

/-- the scan of `hashTable.next` from slot `i` on -/
def hashScan : List Slot → NextRes
  | [] => .done
  | it :: rest =>
    match it.val with
    | none => hashScan rest
    | some v =>
      match it.key with
      | some k => .item k v
      | none => .done   -- Go returns a nil key here, which `next` reports as the end

/-- `hashTable.next` -/
def hNext (t : Option HashTable) (k : Option Key) : Option NextRes :=
  match t with
  | none => some (if k.isNone then .done else .invalid)
  | some t =>
    match k with
    | none => some (hashScan t.slots)
    | some k => do
      match ← findSlot hash t.slots t.mask k with
      | none => pure .invalid
      | some i => pure (hashScan (t.slots.drop (i + 1)))

/-- `hashTable.classifyIndices`: `(counts, idxCount)` -/
def hClassify (t : Option HashTable) (counts : List Nat) : List Nat × Nat :=
  match t with
  | none => (counts, 0)
  | some t =>
    t.slots.foldl (fun (acc : List Nat × Nat) it =>
      match it.val, it.key with
      | some _, some (.int i) => if i > 0 then (bump acc.1 (bitsLen (i.toNat - 1)), acc.2 + 1) else acc
      | _, _ => acc) (counts, 0)

/-! ## mixed table -/

/-- `mixedTable.get` -/
def get (t : Mixed) (k : Key) : Option (Option Val) :=
  match toInt k with
  | some i => do
    let (v, ok) ← arrGet t.arr i
    if ok then pure v else hFind hash t.hash (.int i)   -- k = IntValue(i)
  | none => hFind hash t.hash k

/-- the migration loop of `mixedTable.grow`: live integer keys that fit go to the new array -/
def migrate (slots : List Slot) (arr : Arr) : Option (List Slot × Arr) :=
  match slots with
  | [] => some ([], arr)
  | it :: rest =>
    match it.val, it.key with
    | some v, some (.int j) => do
      let (a', ok) ← arrSetValue (some arr) j (some v)
      let arr' ← a'
      let (rest', arr'') ← migrate rest arr'
      pure ((if ok then { it with val := none } else it) :: rest', arr'')
    | _, _ => do
      let (rest', arr') ← migrate rest arr
      pure (it :: rest', arr')

/-- what `mixedTable.grow` decided (branch coverage) -/
inductive GrowCase where
  | hashNoIdx | hashArrNoGrow | array
  deriving DecidableEq, Repr

def growCase (t : Mixed) : GrowCase :=
  let (counts, idxCount) := hClassify t.hash (List.replicate 64 0)
  if idxCount = 0 then .hashNoIdx
  else
    let counts := arrClassify t.arr counts
    if calculateArraySize counts ≤ arrSize t.arr then .hashArrNoGrow else .array

/-- `mixedTable.grow` -/
def grow (t : Mixed) : Option Mixed :=
  let (counts, idxCount) := hClassify t.hash (List.replicate 64 0)
  if idxCount = 0 then do
    let h ← hGrow hash t.hash
    pure { t with hash := some h }
  else
    let counts := arrClassify t.arr counts
    let arrSz := calculateArraySize counts
    if arrSz ≤ arrSize t.arr then do
      let h ← hGrow hash t.hash
      pure { t with hash := some h }
    else do
      let array := arrGrow t.arr arrSz
      let h ← t.hash   -- idxCount ≠ 0, so the hash table is not nil
      let (slots, array) ← migrate h.slots array
      let h' ← hCleanup hash (some { h with slots := slots })
      pure ⟨h', some array⟩

/-- the tail of `mixedTable.insert`: `t.hashTable.set(k, v)` -/
def insertHash (t : Mixed) (k : Key) (v : Val) : Option Mixed := do
  let h ← t.hash
  let h' ← hSet hash h k v
  pure { t with hash := some h' }

/-- `mixedTable.insert` (`v` is not nil: `Table.Set` sends nil to `remove`).  After the array
    attempt the key is normalised and `t.hashTable.reset(k, v)` is tried first: "assigning to an
    existing field must not rehash the table" -/
def insert (t : Mixed) (k : Key) (v : Val) : Option Mixed :=
  match toInt k with
  | some i => do
    let (a1, ok1) ← arrSetValue t.arr i (some v)
    if ok1 then pure { t with arr := a1 }
    else do
      let (h, w) ← hReset hash t.hash (.int i) v   -- k = IntValue(i)
      if w then pure { t with hash := h }
      else if hFull t.hash then do
        let t' ← grow hash t
        let (a2, ok2) ← arrSetValue t'.arr i (some v)
        if ok2 then pure { t' with arr := a2 } else insertHash hash t' (.int i) v
      else insertHash hash t (.int i) v
  | none => do
    let (h, w) ← hReset hash t.hash k v
    if w then pure { t with hash := h }
    else if hFull t.hash then do
      let t' ← grow hash t
      insertHash hash t' k v
    else insertHash hash t k v

/-- `mixedTable.reset` (`v` not nil) -/
def reset (t : Mixed) (k : Key) (v : Val) : Option (Mixed × Bool) :=
  match toInt k with
  | some i => do
    let (a, inArray, wasSet) ← arrResetValue t.arr i (some v)
    if inArray then pure ({ t with arr := a }, wasSet)
    else do
      let (h, w) ← hReset hash t.hash (.int i) v   -- k = IntValue(i)
      pure ({ t with hash := h }, w)
  | none => do
    let (h, w) ← hReset hash t.hash k v
    pure ({ t with hash := h }, w)

/-- `mixedTable.remove` -/
def remove (t : Mixed) (k : Key) : Option (Mixed × Bool) :=
  match toInt k with
  | some i => do
    let (a, ok, wasSet) ← arrRemove t.arr i
    if ok then pure ({ t with arr := a }, wasSet)
    else do
      let (h, w) ← hRemoveKey hash t.hash (.int i)   -- k = IntValue(i)
      pure ({ t with hash := h }, w)
  | none => do
    let (h, w) ← hRemoveKey hash t.hash k
    pure ({ t with hash := h }, w)

/-- the loop of `mixedTable.len`: `for !t.hashTable.find(IntValue(int64(l + 1))).IsNil() { l++ }` -/
def lenLoop (h : Option HashTable) : Nat → Nat → Option Nat
  | 0, _ => none
  | fuel + 1, l => do
    let v ← hFind hash h (.int ((l : Int) + 1))
    if v.isNone then pure l else lenLoop h fuel (l + 1)

def hSlotCount : Option HashTable → Nat
  | none => 0
  | some t => t.slots.length

/-- `mixedTable.len` -/
def len (t : Mixed) : Option Nat :=
  let l := arrLen t.arr
  if l < arrSize t.arr then some l
  else lenLoop hash t.hash (hSlotCount t.hash + 1) l

/-- the integer-key branch of `mixedTable.next`: `t.array.next(i)`, falling back to the hash part
    (with `k = IntValue(i)`) when the array refuses -/
def nextViaArray (t : Mixed) (i : Int) : Option NextRes := do
  let (j, v, ok) ← arrNext t.arr i
  if ok then
    if j > 0 then
      match v with
      | some v => pure (.item (.int j) v)
      | none => none
    else hNext hash t.hash none
  else hNext hash t.hash (some (.int i))

/-- `mixedTable.next`; `k = none` is the nil key -/
def next (t : Mixed) (k : Option Key) : Option NextRes :=
  match k with
  | none => if t.arr.isNone then hNext hash t.hash none else nextViaArray hash t 0   -- "pretend that k == 0"
  | some key =>
    match toInt key with
    | some i =>
      if i = 0 then hNext hash t.hash (some (.int 0))   -- "0 is not the start position: it is a key of the hash table"
      else nextViaArray hash t i
    | none => hNext hash t.hash k

/-- `Table.Set`: nil goes to `remove` -/
def tset (t : Mixed) (k : Key) (v : Option Val) : Option Mixed :=
  match v with
  | none => (remove hash t k).map (·.1)
  | some v => insert hash t k v

/-- `Table.Reset`: nil goes to `remove` -/
def treset (t : Mixed) (k : Key) (v : Option Val) : Option (Mixed × Bool) :=
  match v with
  | none => remove hash t k
  | some v => reset hash t k v

end

end GoluaVerif.Model.Table
