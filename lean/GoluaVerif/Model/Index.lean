/-
  Model.Index — the part of `runtime.Index` / `runtime.SetIndex` (runtime/lib.go) that decides
  whether a metamethod is consulted.  One iteration of their loop, for a table operand:

      SetIndex:  if tbl.Reset(idx, val) { return nil }          -- raw assignment, done
                 metaNewIndex := metaGetS(coll, "__newindex")   -- consulted only now
      Index:     if val := RawGet(tbl, k); !val.IsNil() { return val }
                 metaIdx := metaGetS(coll, "__index")

  and the loop over a chain of tables (`maxIndexChainLength` = 100 iterations) when the
  handlers are tables.  Core Lean only.
-/
import GoluaVerif.Model.Table
namespace GoluaVerif.Model.Index
open GoluaVerif.Spec (Key Val)
open GoluaVerif.Model.Table

inductive SetStep where
  /-- `Table.Reset` succeeded: the raw key was present and has been assigned -/
  | done (t : Mixed)
  /-- the raw key is absent: `__newindex` is looked up -/
  | consult
  deriving Repr, DecidableEq

inductive GetStep where
  | done (v : Val)
  | consult
  deriving Repr, DecidableEq

variable (hash : Key → Nat)

/-- one iteration of `SetIndex` on a table -/
def setIndexStep (t : Mixed) (k : Key) (v : Option Val) : Option SetStep := do
  let (t', wasSet) ← treset hash t k v
  pure (if wasSet then .done t' else .consult)

/-- one iteration of `Index` on a table -/
def indexStep (t : Mixed) (k : Key) : Option GetStep := do
  match ← get hash t k with
  | some v => pure (.done v)
  | none => pure .consult

/-- events of a `SetIndex` run over a chain of tables whose `__newindex` handlers are the next table
    of the list (the last one has no handler: plain `SetTable`) -/
inductive Ev where
  | consulted (depth : Nat)
  | rawAssigned (depth : Nat)
  | chainTooLong
  deriving DecidableEq, Repr

/-- `SetIndex` over the chain `ts` (fuel = `maxIndexChainLength`): the list of events -/
def setIndexChain (ts : List Mixed) (k : Key) (v : Option Val) : Nat → Nat → Option (List Ev)
  | 0, _ => some [.chainTooLong]
  | fuel + 1, depth =>
    match ts with
    | [] => some []
    | t :: rest => do
      match ← setIndexStep hash t k v with
      | .done _ => pure [.rawAssigned depth]
      | .consult =>
        match rest with
        | [] => pure [.consulted depth, .rawAssigned depth]   -- no handler: t.SetTable(tbl, idx, val)
        | _ => do
          let evs ← setIndexChain rest k v fuel (depth + 1)
          pure (.consulted depth :: evs)

end GoluaVerif.Model.Index
