/-
  Model.ClonePool — state machine of runtime/internal/luagc/clonepool.go (the default
  build's pool), with Go's runtime.SetFinalizer table made explicit.

  * An `Obj` is one Go object.  `key` is `Value.Key()` (shared by a value and its clones),
    `clone = true` for objects made by `Value.Clone()` inside `Mark`; the id of a clone is
    the markOrder of the `Mark` call that made it (one Clone call per non-zero Mark).
  * `goReg` is the set of objects that currently carry a Go finaliser registered by this
    pool (`setFinalizer(v, p.goFinalizer)`): `Mark` registers the marked object on first
    marking of its key only, `goFinalizer` consumes the registration,
    `ExtractPendingFinalize` registers the clones it hands out.
  * The Go finaliser is an ENVIRONMENT event `fire o`; Go would only run it for an object
    that carries a registration and that nothing references any more (`World`, below).
  * `tr` is the pool's trace: markings (with their markOrder = marking epoch) and the
    values handed out for finalisation / release / skipped.  All theorems of Props.C18
    are statements about `tr`.
-/
import GoluaVerif.Spec.Gc
namespace GoluaVerif.Model.ClonePool
open GoluaVerif.Spec.Gc

/-- `cloneEntry`: the clone, markOrder, wrFinalized, wrReleased -/
structure Entry where
  val : Obj
  order : Nat
  fin : Bool
  rel : Bool
deriving DecidableEq, Repr, Inhabited

structure Pool where
  /-- which pool this is (only used to tell the clones of different pools apart) -/
  pid : Nat := 0
  /-- `cloneRegister`, at most one entry per key, kept in ascending markOrder;
      `none` = the nil map left by `ExtractAllMarkedRelease` -/
  reg : Option (List Entry) := some []
  last : Nat := 0
  pf : List Entry := []
  pr : List Entry := []
  goReg : List Obj := []
  tr : List TEv := []
  /-- number of `Mark` calls that hit the nil register (`assignment to entry in nil map`) -/
  panics : Nat := 0
  /-- a finaliser was set on an object that already had one: runtime.SetFinalizer throws
      (`fatal error: runtime.SetFinalizer: finalizer already set`), the process is gone -/
  fatal : Bool := false
deriving Repr

def regLookup (rg : List Entry) (k : Nat) : Option Entry := rg.find? (fun e => e.val.key == k)
def regErase (rg : List Entry) (k : Nat) : List Entry := rg.filter (fun e => e.val.key != k)
def setFin (rg : List Entry) (k : Nat) : List Entry :=
  rg.map (fun e => if e.val.key == k then { e with fin := true } else e)
def setFinAll (rg : List Entry) : List Entry := rg.map (fun e => { e with fin := true })

/-- `sort.Sort(sortablePendingClones)`: `Less i j = order i > order j`, i.e. descending
    markOrder (markOrders are pairwise distinct, so stability does not matter) -/
def insertDesc (e : Entry) : List Entry → List Entry
  | [] => [e]
  | x :: xs => if x.order ≤ e.order then e :: x :: xs else x :: insertDesc e xs

def sortDesc (l : List Entry) : List Entry := l.foldr insertDesc []

/-- `runtime.SetFinalizer(o, p.goFinalizer)`: the Go runtime THROWS (`fatal`) if `o` already has a finaliser -/
def register (p : Pool) (o : Obj) : Pool :=
  if p.goReg.contains o then { p with fatal := true } else { p with goReg := o :: p.goReg }

/-- `runtime.SetFinalizer(o, nil)`: always allowed -/
def clearFinalizer (p : Pool) (o : Obj) : Pool :=
  { p with goReg := p.goReg.filter (fun x => x != o) }

/-- a NEW registration in `Mark` (`!ok`): "a pool that no longer exists may have left its finalizer on v":
    clear, then set -/
def registerNew (p : Pool) (o : Obj) : Pool := register (clearFinalizer p o) o

/-- `(*ClonePool).Marked`: is the key in the register? (false for the nil register of a released pool) -/
def marked (p : Pool) (k : Nat) : Bool :=
  match p.reg with
  | none => false
  | some rg => (regLookup rg k).isSome

/-- `(*ClonePool).Mark`; `f = r = false` is `flags == 0` (unmark) -/
def mark (p : Pool) (o : Obj) (f r : Bool) : Pool :=
  if f = false ∧ r = false then
    match p.reg with
    | none => p
    | some rg =>
      match regLookup rg o.key with
      | none => p
      | some _ =>
        { p with goReg := p.goReg.erase o, reg := some (regErase rg o.key),
                 tr := p.tr ++ [.unmark o.key] }
  else
    match p.reg with
    | none =>
      -- ok = false: setFinalizer, Clone, lastMarkOrder++ all happen, then the map assignment panics
      let p1 := registerNew p o
      { p1 with last := p.last + 1, panics := p.panics + 1 }
    | some rg =>
      let p1 := if (regLookup rg o.key).isNone then registerNew p o else p
      let n := p.last + 1
      let e : Entry := { val := { key := o.key, id := n, clone := true, pool := p.pid }, order := n, fin := !f, rel := !r }
      { p1 with last := n, reg := some (regErase rg o.key ++ [e]), tr := p1.tr ++ [.mark o.key n f r] }

/-- `(*ClonePool).goFinalizer`, run by the environment; a no-op unless `o` carries a registration -/
def fire (p : Pool) (o : Obj) : Pool :=
  if p.goReg.contains o = false then p else
  let p1 := { p with goReg := p.goReg.erase o, tr := p.tr ++ [.fired o] }
  match p.reg with
  | none => p1
  | some rg =>
    match regLookup rg o.key with
    | none => p1
    | some e =>
      if e.fin = false then { p1 with pf := p.pf ++ [e], reg := some (setFin rg o.key) }
      else { p1 with pr := if e.rel = false then p.pr ++ [e] else p.pr, reg := some (regErase rg o.key) }

def finEvs (k : Kind) (l : List Entry) : List TEv := l.map (fun e => .fin k e.val e.order)
def relEvs (k : Kind) (l : List Entry) : List TEv := l.map (fun e => .rel k e.val e.order)
def skipEvs (l : List Entry) : List TEv := l.map (fun e => .skip e.val e.order)

/-- `ExtractPendingFinalize` -/
def xPF (p : Pool) : Pool :=
  let out := sortDesc p.pf
  let p1 := p.pf.foldl (fun q e => register q e.val) { p with pf := [] }
  { p1 with tr := p1.tr ++ finEvs .pf out }

/-- `ExtractPendingRelease` -/
def xPR (p : Pool) : Pool :=
  { p with pr := [], tr := p.tr ++ relEvs .pr (sortDesc p.pr) }

/-- what `ExtractAllMarkedFinalize` returns: the values whose Go finaliser has already run and that
    still await their `__gc` (`pendingFinalize`; they are flagged in the register, so the filter skips
    them) plus every register entry not yet flagged -/
def afOut (p : Pool) : List Entry :=
  sortDesc (p.pf ++ (p.reg.getD []).filter (fun e => e.fin = false))

/-- state after `ExtractAllMarkedFinalize` -/
def afState (p : Pool) : Pool :=
  { p with pf := [], reg := p.reg.map setFinAll }

/-- `ExtractAllMarkedFinalize`, results handed to the finalisers -/
def xAF (p : Pool) : Pool :=
  let q := afState p
  { q with tr := q.tr ++ finEvs .af (afOut p) }

/-- `ExtractAllMarkedFinalize`, results thrown away (`PopContext`) -/
def skipAF (p : Pool) : Pool :=
  let q := afState p
  { q with tr := q.tr ++ skipEvs (afOut p) }

/-- what `ExtractAllMarkedRelease` returns -/
def arOut (p : Pool) : List Entry :=
  sortDesc (p.pr ++ ((p.reg.getD []).filter (fun e => e.rel = false)))

/-- `ExtractAllMarkedRelease` -/
def xAR (p : Pool) : Pool :=
  { p with pr := [], reg := none, tr := p.tr ++ relEvs .ar (arOut p) }

/-- How a pool is driven.  `xPF … xAR` are the raw `Extract*` methods; `step`, `finAll`,
    `popRel` are the three ways runtime.go / thread.go / runtimecontextmanager.go use them. -/
inductive Use where
  | mark (o : Obj) (f r : Bool)
  | fire (o : Obj)
  | xPF | xPR | xAF | xAR
  /-- `runPendingFinalizers`: ExtractPendingFinalize → run `__gc` → ExtractPendingRelease → release -/
  | step
  /-- `runFinalizers(ExtractAllMarkedFinalize())` (end of an isolating CallContext, Close) -/
  | finAll
  /-- `PopContext` / last step of `Close`: ExtractAllMarkedFinalize discarded, then release everything -/
  | popRel
deriving DecidableEq, Repr

def use (p : Pool) (u : Use) : Pool :=
  if p.fatal then p else
  match u with
  | .mark o f r => mark p o f r
  | .fire o => fire p o
  | .xPF => xPF p
  | .xPR => xPR p
  | .xAF => xAF p
  | .xAR => xAR p
  | .step => xPR (xPF p)
  | .finAll => xAF p
  | .popRel => xAR (skipAF p)

def run (us : List Use) : Pool := us.foldl use {}

/-! ### The environment: which objects the program still references -/

/-- A pool together with the set of objects the program (Lua code, the Go host) references.
    `refs` never influences the pool; it only says when `fire` is a legitimate move of Go's collector. -/
structure World where
  pool : Pool := {}
  refs : List Obj := []
deriving Repr

inductive WEv where
  /-- a pool operation; `mark o` implies the program holds `o`; values handed to a
      finaliser (`fin` events) are given to Lua code, hence referenced until dropped -/
  | use (u : Use)
  /-- the program drops every reference to `o` -/
  | drop (o : Obj)
deriving DecidableEq, Repr

def handedOut : List TEv → List Obj
  | [] => []
  | .fin _ v _ :: t => v :: handedOut t
  | _ :: t => handedOut t

def World.step (w : World) : WEv → World
  | .drop o => { w with refs := w.refs.filter (fun x => x != o) }
  | .use u =>
    let p' := use w.pool u
    let refs1 := match u with
      | .mark o _ _ => if w.refs.contains o then w.refs else o :: w.refs
      | _ => w.refs
    { pool := p', refs := handedOut (p'.tr.drop w.pool.tr.length) ++ refs1 }

def World.run (es : List WEv) : World := es.foldl World.step {}

/-- the environment assumption: Go runs a finaliser only for an object nothing references -/
def envOKFrom (w : World) : List WEv → Bool
  | [] => true
  | e :: es =>
    (match e with
     | .use (.fire o) => !(w.refs.contains o)
     | _ => true) && envOKFrom (w.step e) es

def EnvOK (es : List WEv) : Bool := envOKFrom {} es

/-- no object with key `k` is referenced, registered with Go, or queued: `k` is a new value's key -/
def keyFresh (w : World) (k : Nat) : Bool :=
  w.refs.all (fun x => x.key != k) && w.pool.goReg.all (fun x => x.key != k) &&
  w.pool.pf.all (fun e => e.val.key != k)

/-- The environment and usage assumptions under which "never finalised while reachable" is claimed:
    * Go runs a finaliser only for an object the program no longer references (`EnvOK`);
    * the program marks only objects it holds, or brand-new values (whose key is new: distinct
      values have distinct keys, as the `luagc.Value` contract demands);
    * the close-time `ExtractAllMarkedFinalize` has not been used yet (at close every value is
      finalised, reachable or not, as in Lua). -/
def discEv (w : World) : WEv → Bool
  | .use (.fire o) => !(w.refs.contains o)
  | .use (.mark o _ _) => w.refs.contains o || (!o.clone && keyFresh w o.key)
  | .use .xAF => false
  | .use .finAll => false
  | _ => true

def discFrom (w : World) : List WEv → Bool
  | [] => true
  | e :: es => discEv w e && discFrom (w.step e) es

def Disciplined (es : List WEv) : Bool := discFrom {} es

end GoluaVerif.Model.ClonePool
