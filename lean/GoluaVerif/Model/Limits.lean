/-
  Model.Limits — the implementation-limit checks on golua's compile path (C04).

  Mirrors, function by function:
    ircomp/compinstr.go  allocReg                  (register allocation, limit 255 → *CompilationPanic)
    ircomp/compinstr.go  ProcessFillTableInstr     (index guard 0..255 → *CompilationPanic)
    ircomp/compinstr.go  instrCompiler.kindex      (constant index guard ≤ 65535 → *CompilationPanic)
    ircomp/ircomp.go     ProcessCode               (function length guard ≤ 32767 → *CompilationPanic)
    ircomp/compinstr.go  ProcessEtcLookupInstr     (index guard 0..255 → raw panic)
    ircomp/compinstr.go  ProcessTruncateCloseStackInstr (height guard 0..65535 → raw panic)
    code/opcodes.go      KIndexFromInt, Index8FromInt   — the REGENERATED definitions are used directly
    ircomp/ircomp.go     CompileQueue's recover    (only *CompilationPanic becomes an error value)
    code/unit_builder.go EmitJump / EmitLabel      (Offset(int) conversion = truncation to int16; harmless
                                                    once ProcessCode bounds the function length)
    runtime/luacont.go   LuaCont.pc int16          (pc++ and pc += offset wrap at 2^15)
  Which panic sites are "designated" (newPanic) comes from the regenerated table
  Generated.PanicSites; the predictions below are compared with the real compiler by
  `./check C04` (oracle mode c04, harness mode limits).
-/
import GoluaVerif.Generated.Opcode
import GoluaVerif.Generated.PanicSites
namespace GoluaVerif.Model.Limits
open GoluaVerif.Generated

/-- what the host observes from compile (+ run) -/
inductive Outcome where
  | ok
  | compileError (msg : String)   -- an `error` value returned by the compile functions
  | goPanic (msg : String)        -- a Go panic escaping the compile functions
  | wrongCode                     -- compiles, then misbehaves at run time (panic or wrong result)
  deriving DecidableEq, Repr

/-- a Go panic value as far as CompileQueue's recover distinguishes them -/
inductive PanicValue where
  | compilationPanic (msg : String)   -- *ircomp.CompilationPanic (newPanic)
  | other (msg : String)              -- anything else (string, runtime.Error, …)
  deriving DecidableEq, Repr

/-- ircomp.CompileQueue: `cp, ok := r.(*CompilationPanic); if !ok { panic(r) }; err = cp` -/
def compileQueueRecover : PanicValue → Outcome
  | .compilationPanic m => .compileError m
  | .other m => if PanicSites.compileQueueRepanicsOthers then .goPanic m else .compileError m

/-- is the panic site `fn` of package `pkg` a designated one (per the regenerated table)? -/
def designated (pkg fn : String) : Option Bool :=
  (PanicSites.sites.find? (fun s => s.1 == pkg && s.2.1 == fn)).map (fun s => s.2.2.1)

def siteMsg (pkg fn : String) : String :=
  ((PanicSites.sites.find? (fun s => s.1 == pkg && s.2.1 == fn)).map (fun s => s.2.2.2)).getD ""

/-- the panic value raised at a site, according to the regenerated table -/
def panicAt (pkg fn : String) : PanicValue :=
  match designated pkg fn with
  | some true => .compilationPanic (siteMsg pkg fn)
  | _ => .other (siteMsg pkg fn)

/-! ### register allocation (ircomp.allocReg) -/

/-- `allocReg(regs []int) ([]int, uint8)`: first register whose use count is 0, else a new one unless
there are already 255; `regs` is the list of use counts. -/
def firstFree : List Nat → Option Nat
  | [] => none
  | c :: rest => if c = 0 then some 0 else (firstFree rest).map (· + 1)

def allocReg (regs : List Nat) : Except PanicValue (List Nat × Nat) :=
  match firstFree regs with
  | some i => .ok (regs, i)
  | none =>
    if regs.length = 255 then .error (panicAt "ircomp" "allocReg")
    else .ok (regs ++ [0], regs.length)

/-- take the register: `*ref++` -/
def take (regs : List Nat) (i : Nat) : List Nat := regs.set i (regs.getD i 0 + 1)

/-- allocate and take `n` registers that all stay live (what `local a1, …, an` needs) -/
def allocLive : Nat → List Nat → Except PanicValue (List Nat)
  | 0, regs => .ok regs
  | n + 1, regs =>
    match allocReg regs with
    | .error p => .error p
    | .ok (regs', i) => allocLive n (take regs' i)

def liveRegsOutcome (n : Nat) : Outcome :=
  match allocLive n [] with
  | .ok _ => .ok
  | .error p => compileQueueRecover p

/-! ### index guards (compinstr.go) followed by the opcode constructors -/

/-- ProcessFillTableInstr: `if f.Idx < 0 || f.Idx >= 256 { panic("Fill table index out of range") }`,
then code.FillTable → Index8FromInt (regenerated) -/
def fillTable (idx : Int) : Except PanicValue (BitVec 32) :=
  if idx < 0 ∨ idx ≥ 256 then .error (panicAt "ircomp" "instrCompiler.ProcessFillTableInstr")
  else match Opcode.FillTable ⟨0#8, 0#8⟩ ⟨0#8, 0#8⟩ (BitVec.ofInt 64 idx) with
    | .ok op => .ok op
    | .error _ => .error (panicAt "code" "Index8FromInt")

def etcLookup (idx : Int) : Except PanicValue (BitVec 32) :=
  if idx < 0 ∨ idx ≥ 256 then .error (panicAt "ircomp" "instrCompiler.ProcessEtcLookupInstr")
  else match Opcode.LoadEtcLookup ⟨0#8, 0#8⟩ ⟨0#8, 0#8⟩ (BitVec.ofInt 64 idx) with
    | .ok op => .ok op
    | .error _ => .error (panicAt "code" "Index8FromInt")

def truncateCloseStack (height : Int) : Except PanicValue (BitVec 32) :=
  if height < 0 ∨ height ≥ 65536 then .error (panicAt "ircomp" "instrCompiler.ProcessTruncateCloseStackInstr")
  else .ok (Opcode.ClTrunc (BitVec.ofInt 16 height))

/-- instrCompiler.kindex: `if ckidx > math.MaxUint16 { panic(newPanic("too many constants")) }`, then
code.KIndexFromInt (regenerated) -/
def kindex (ckidx : Int) : Except PanicValue (BitVec 16) :=
  if ckidx > 65535 then .error (panicAt "ircomp" "instrCompiler.kindex")
  else match Opcode.KIndexFromInt (BitVec.ofInt 64 ckidx) with
    | .ok k => .ok k
    | .error _ => .error (panicAt "code" "KIndexFromInt")

/-- ProcessLoadConstInstr / ProcessMkClosureInstr: `code.LoadConst(dst, ic.kindex(ckidx))` -/
def loadConst (ckidx : Int) : Except PanicValue (BitVec 32) :=
  match kindex ckidx with
  | .ok k => .ok (Opcode.LoadConst ⟨0#8, 0#8⟩ k)
  | .error p => .error p

/-- ConstantCompiler.ProcessCode: `if end-start > math.MaxInt16 { panic(newPanic("function too large")) }` -/
def processCode (len : Nat) : Except PanicValue Unit :=
  if len > 32767 then .error (panicAt "ircomp" "ConstantCompiler.ProcessCode") else .ok ()

def outcomeOf {α} : Except PanicValue α → Outcome
  | .ok _ => .ok
  | .error p => compileQueueRecover p

/-- a table constructor with `positional` positional items followed by a multi-value expression:
the FillTable index is the next implicit key -/
def tableCtorWithTail (positional : Nat) : Outcome := outcomeOf (fillTable (positional + 1))

/-- a unit whose constant table has `total` entries: the last one is referenced with index total-1 -/
def constantsOutcome (total : Nat) : Outcome :=
  if total = 0 then .ok else outcomeOf (loadConst (total - 1))

/-! ### jump offsets and the program counter -/

/-- Builder.EmitJump / EmitLabel: `opcode.SetOffset(Offset(to - from))` — the Go conversion int→int16
truncates; then the VM does `pc += int16(opcode.GetOffset())` -/
def emitJump (op : BitVec 32) (fromAddr toAddr : Int) : BitVec 32 :=
  Opcode.Opcode.SetOffset op (BitVec.ofInt 16 (toAddr - fromAddr))

/-- where the VM lands when it executes the jump at `fromAddr` (LuaCont.pc is an int16) -/
def jumpTarget (op : BitVec 32) (fromAddr : Int) : Int :=
  (BitVec.ofInt 16 fromAddr + Opcode.Opcode.GetOffset op).toInt

/-- `pc++` on an int16 -/
def pcNext (pc : BitVec 16) : BitVec 16 := pc + 1#16

/-- a function of `len` opcodes passes ProcessCode's guard -/
def fnLenOk (len : Nat) : Bool := len ≤ 32767

/-- outcome of compiling a function with `len` opcodes -/
def fnLenOutcome (len : Nat) : Outcome := outcomeOf (processCode len)

/-- `n` simultaneously live locals in the main chunk; the chunk itself needs a few registers more
(continuation, _ENV), how many is not modelled: a band of 4 is left undetermined -/
def liveLocalsOutcome (n : Nat) : Option Outcome :=
  if n + 4 ≤ 255 then some (liveRegsOutcome n)
  else if n ≤ 255 then none
  else some (liveRegsOutcome n)

/-- prediction for the oracle: kind, size → outcome class -/
def predict (kind : String) (size : Nat) : Option Outcome :=
  match kind with
  | "live-locals" => liveLocalsOutcome size
  | "ctor-tail" => some (tableCtorWithTail size)
  | "constants" => some (constantsOutcome size)
  | "straight-line" => some (fnLenOutcome size)
  | "skipped-body" => some (fnLenOutcome size)
  | _ => none

/-- Raw (non-designated) panic sites of ircomp/ and code/ that are accounted for.
`guarded`: a caller's designated guard or the register bound makes them unreachable (proved in Props/C04);
`invariant`: internal consistency checks of the compiler that do not depend on any size (label emitted
twice, unresolved jump at a function boundary, constant queue order, an operator missing from the opcode
maps) — not modelled, looked for by the crash search only. -/
def rawSitesGuarded : List (String × String) := [
  ("code", "Index8FromInt"),                                    -- ProcessFillTableInstr / ProcessEtcLookupInstr guards
  ("code", "KIndexFromInt"),                                    -- instrCompiler.kindex guard, indices are ≥ 0
  ("ircomp", "instrCompiler.ProcessEtcLookupInstr"),            -- index < number of live registers ≤ 255
  ("ircomp", "instrCompiler.ProcessTruncateCloseStackInstr")]   -- height ≤ number of live registers ≤ 255

def rawSitesInvariant : List (String × String) := [
  ("code", "Builder.EmitLabel"), ("code", "Builder.Offset"),
  ("ircomp", "ConstantCompiler.CompileQueue"),
  ("ircomp", "instrCompiler.ProcessCombineInstr"), ("ircomp", "instrCompiler.ProcessTransformInstr")]

/-- every panic site of the compile back end is designated, guarded or a size-independent invariant -/
def sitesAccounted : Bool :=
  PanicSites.sites.all (fun s => s.2.2.1 || (rawSitesGuarded ++ rawSitesInvariant).contains (s.1, s.2.1))

def Outcome.cls : Outcome → String
  | .ok => "ok"
  | .compileError _ => "compile-error"
  | .goPanic _ => "panic"
  | .wrongCode => "wrong"

end GoluaVerif.Model.Limits
