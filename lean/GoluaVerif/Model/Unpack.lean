/-
  Model.Unpack — `UnpackString` (lib/stringlib/unpacker.go) on byte lists.
  The unpacker state is `(j, rest)`: the absolute index `u.j` (alignment is
  computed from it) and the bytes from `j` on (`u.pack[u.j:]`).
  Core Lean only.
-/
import GoluaVerif.Model.Pack
namespace GoluaVerif.Model.Pack
open GoluaVerif

/-- read exactly `n` bytes (`binary.Read` / `Read` + length test) -/
def takeN (n : Nat) (rest : Bytes) : Except Err (Bytes × Bytes) :=
  if rest.length < n then .error .short else .ok (rest.take n, rest.drop n)

/-- two's-complement reading of an `n`-byte unsigned value `u` (n ≤ 8) -/
def signExtend (n : Nat) (u : Nat) : Int :=
  if 2 ^ (8 * n - 1) ≤ u then (u : Int) - (2 ^ (8 * n) : Int) else (u : Int)

/-- `skip0(n)`: n bytes that must all be zero -/
def skip0 (n : Nat) (rest : Bytes) : Except Err Bytes :=
  match takeN n rest with
  | .error e => .error e
  | .ok (z, rest') => if z.all (· == 0) then .ok rest' else .error .doesNotFit

/-- `readSignExt(n, &sign)`: n > 0 bytes, all 0x00 or all 0xff; returns the sign byte -/
def readSignExt (n : Nat) (rest : Bytes) : Except Err (UInt8 × Bytes) :=
  if n = 0 then .error .short
  else match takeN n rest with
    | .error e => .error e
    | .ok (z, rest') =>
      match z with
      | [] => .error .short
      | s :: tl => if (s == 0 || s == 255) && tl.all (· == s) then .ok (s, rest') else .error .doesNotFit

/-- `readVarInt` / `readVarUint` and the fixed-width integer options -/
def unpackInt (e : Endian) (signed : Bool) (n : Nat) (rest : Bytes) : Except Err (I64 × Bytes) :=
  if n ≤ 8 then
    match takeN n rest with
    | .error err => .error err
    | .ok (bs, rest') =>
      let u := ofLE (ord e bs)
      .ok (if signed then BitVec.ofInt 64 (signExtend n u) else BitVec.ofNat 64 u, rest')
  else if signed then
    let fin (sign : UInt8) (x : Nat) (rest' : Bytes) : Except Err (I64 × Bytes) :=
      if sign = 0 then (if x < 2 ^ 63 then .ok (BitVec.ofNat 64 x, rest') else .error .doesNotFit)
      else (if x ≥ 2 ^ 63 then .ok (BitVec.ofNat 64 x, rest') else .error .doesNotFit)
    match e with
    | .big =>
      match readSignExt (n - 8) rest with
      | .error err => .error err
      | .ok (sign, r1) =>
        match takeN 8 r1 with
        | .error err => .error err
        | .ok (bs, r2) => fin sign (ofLE bs.reverse) r2
    | .little =>
      match takeN 8 rest with
      | .error err => .error err
      | .ok (bs, r1) =>
        match readSignExt (n - 8) r1 with
        | .error err => .error err
        | .ok (sign, r2) => fin sign (ofLE bs) r2
  else
    match e with
    | .big =>
      match skip0 (n - 8) rest with
      | .error err => .error err
      | .ok r1 =>
        match takeN 8 r1 with
        | .error err => .error err
        | .ok (bs, r2) => .ok (BitVec.ofNat 64 (ofLE bs.reverse), r2)
    | .little =>
      match takeN 8 rest with
      | .error err => .error err
      | .ok (bs, r1) =>
        match skip0 (n - 8) r1 with
        | .error err => .error err
        | .ok r2 => .ok (BitVec.ofNat 64 (ofLE bs), r2)

/-- split at the first zero byte: (before, after the zero) -/
def splitZero : Bytes → Option (Bytes × Bytes)
  | [] => none
  | b :: bs => if b = 0 then some ([], bs) else
    match splitZero bs with
    | none => none
    | some (s, r) => some (b :: s, r)

/-- the body of one option: value read (none for `x`), bytes consumed count is
    `rest.length - rest'.length` -/
def unpackBody (e : Endian) (b : Body) (rest : Bytes) : Except Err (Option Val × Bytes) :=
  match b with
  | .int signed n =>
    match unpackInt e signed n rest with
    | .error err => .error err
    | .ok (v, rest') => .ok (some (.int v), rest')
  | .f32 =>
    match takeN 4 rest with
    | .error err => .error err
    | .ok (bs, rest') => .ok (some (.flt (f32ToF64 (ofLE (ord e bs)))), rest')
  | .f64 =>
    match takeN 8 rest with
    | .error err => .error err
    | .ok (bs, rest') => .ok (some (.flt (BitVec.ofNat 64 (ofLE (ord e bs)))), rest')
  | .fixstr n =>
    match takeN n rest with
    | .error err => .error err
    | .ok (bs, rest') => .ok (some (.str bs), rest')
  | .zstr =>
    match splitZero rest with
    | none => .error .short
    | some (s, rest') => .ok (some (.str s), rest')
  | .lstr n =>
    match unpackInt e false n rest with
    | .error err => .error err
    | .ok (len, r1) =>
      -- `readStr(int(u.intVal))`: the length is checked against the rest of the data before `make`
      if len.toInt < 0 then .error .short
      else match takeN len.toNat r1 with
        | .error err => .error err
        | .ok (bs, r2) => .ok (some (.str bs), r2)
  | .padByte =>
    match takeN 1 rest with
    | .error err => .error err
    | .ok (_, rest') => .ok (none, rest')

/-- the main loop of `UnpackString`; returns the values in order, the final index and the unread bytes -/
def unpackLoop : Nat → Rd → Bytes → Nat → Bytes → Except Err (List Val × Nat × Bytes)
  | 0, _, _, _, _ => .error .badOption
  | _ + 1, rd, [], j, data => if rd.alignOnly then .error .expectedOption else .ok ([], j, data)
  | fuel + 1, rd, c :: rest, j, data =>
    match readOpt .unpack rd c rest with
    | .error e => .error e
    | .ok (.nop, rd', rest') => unpackLoop fuel rd' rest' j data
    | .ok (.item al ao body, rd', rest') =>
      match alignPad rd true al j with
      | .error e => .error e
      | .ok pad =>
        match takeN pad data with
        | .error e => .error e
        | .ok (_, d1) =>
          if ao then unpackLoop fuel rd' rest' (j + pad) d1
          else
            match unpackBody rd.endian body d1 with
            | .error e => .error e
            | .ok (ov, d2) =>
              match unpackLoop fuel rd' rest' (j + pad + (d1.length - d2.length)) d2 with
              | .error e => .error e
              | .ok (vs, j', d') => .ok ((match ov with | some v => v :: vs | none => vs), j', d')

/-- `UnpackString(format, pack, i)`, `i` 0-based with `i ≤ len`: values and the 0-based next index -/
def unpack (fmt : Bytes) (data : Bytes) (i : Nat) : Except Err (List Val × Nat) :=
  if i > data.length then .error .badInit
  else match unpackLoop (fmt.length + 1) {} fmt i (data.drop i) with
    | .error e => .error e
    | .ok (vs, j, _) => .ok (vs, j)

/-- the `init` argument of `string.unpack` (`StringNormPos(pack, n) - 1` and its range test) -/
def normInit (len : Nat) (n : Int) : Except Err Nat :=
  let p : Int := if n < 0 then (len : Int) + 1 + n else n
  let i := p - 1
  if i < 0 ∨ i > (len : Int) then .error .badInit else .ok i.toNat


/-! ### the hypothesis of the round-trip law, as a decidable predicate

`noDanglingX`: every `X` is directly followed by an option that `align()`s with a size
(`b B h H l L j J T i I f d n s`); for these the three Go loops read the format alike.
`exactLoop`: each value is of the kind its option stores and is stored without loss
(a `c<n>` string has exactly `n` bytes, an `f` float is a float32 value), and the
format consumes every value. -/

def noDanglingX : Bytes → Bool
  | [] => true
  | c :: rest =>
    (if optKind c = .alignNext then (match rest with | d :: _ => alignable d | [] => false) else true) &&
      noDanglingX rest

def exactVal (b : Body) (v : Val) : Bool :=
  match b, v with
  | .int _ n, .int _ => decide (1 ≤ n)                 -- (the reader only produces sizes 1..16)
  | .f32, .flt x => f32ToF64 (f64ToF32 x % 2 ^ 32) == x
  | .f64, .flt _ => true
  | .fixstr n, .str s => s.length == n
  | .zstr, .str _ => true
  | .lstr n, .str s => decide (1 ≤ n ∧ s.length < 2 ^ 63)   -- (a Go string is shorter than 2^63 bytes)
  | _, _ => false

def exactLoop : Nat → Rd → Bytes → List Val → Bool
  | 0, _, _, _ => false
  | _ + 1, _, [], vs => vs.isEmpty
  | fuel + 1, rd, c :: rest, vs =>
    match readOpt .pack rd c rest with
    | .error _ => false
    | .ok (.nop, rd', rest') => exactLoop fuel rd' rest' vs
    | .ok (.item _ ao body, rd', rest') =>
      if ao || body == .padByte then exactLoop fuel rd' rest' vs
      else match vs with
        | [] => false
        | v :: vs' => exactVal body v && exactLoop fuel rd' rest' vs'

/-- a value the option stores exactly, so that `pack` must accept it (NaN counts as exact for `f`) -/
def representable (b : Body) (v : Val) : Bool :=
  match b, v with
  | .int true n, .int x => n ≥ 8 || intInBounds true n x.toInt
  | .int false n, .int x => decide (0 ≤ x.toInt) && (n ≥ 8 || intInBounds false n x.toInt)
  | .f32, .flt x => f32ToF64 (f64ToF32 x) == x || F64.decode x == .nan
  | .f64, .flt _ => true
  | .fixstr n, .str s => s.length == n
  | .zstr, .str s => !s.contains 0
  | .lstr n, .str s => n ≥ 8 || decide (s.length < 2 ^ (8 * n))
  | _, _ => false

def acceptLoop : Nat → Rd → Bytes → List Val → Bool
  | 0, _, _, _ => false
  | _ + 1, _, [], vs => vs.isEmpty
  | fuel + 1, rd, c :: rest, vs =>
    match readOpt .pack rd c rest with
    | .error _ => false
    | .ok (.nop, rd', rest') => acceptLoop fuel rd' rest' vs
    | .ok (.item _ ao body, rd', rest') =>
      if ao || body == .padByte then acceptLoop fuel rd' rest' vs
      else match vs with
        | [] => false
        | v :: vs' => representable body v && acceptLoop fuel rd' rest' vs'

/-- a value the option cannot represent, so that `pack` must raise an error -/
def unrepresentable (b : Body) (v : Val) : Bool :=
  match b, v with
  | .int signed n, .int x => n < 8 && !intInBounds signed n x.toInt
  | .fixstr n, .str s => decide (s.length > n)
  | .zstr, .str s => s.contains 0
  | .lstr n, .str s => n < 8 && decide (s.length ≥ 2 ^ (8 * n))
  | _, .bad => true
  | _, _ => false

/-- some value is unrepresentable and everything before it is stored exactly -/
def rejectLoop : Nat → Rd → Bytes → List Val → Bool
  | 0, _, _, _ => false
  | _ + 1, _, [], _ => false
  | fuel + 1, rd, c :: rest, vs =>
    match readOpt .pack rd c rest with
    | .error _ => false
    | .ok (.nop, rd', rest') => rejectLoop fuel rd' rest' vs
    | .ok (.item _ ao body, rd', rest') =>
      if ao || body == .padByte then rejectLoop fuel rd' rest' vs
      else match vs with
        | [] => false
        | v :: vs' => unrepresentable body v || (exactVal body v && rejectLoop fuel rd' rest' vs')

def mustReject (fmt : Bytes) (vs : List Val) : Bool := rejectLoop (fmt.length + 1) {} fmt vs

/-- the values are stored by `fmt` without loss and all of them are consumed -/
def exact (fmt : Bytes) (vs : List Val) : Bool := exactLoop (fmt.length + 1) {} fmt vs

/-! ### malformed formats (what the manual's option table excludes), independent of the reader above -/

def optionLetter (c : UInt8) : Bool := optKind c != .bad

/-- `i I s ! c` may be followed by a size -/
def takesSize (c : UInt8) : Bool :=
  match optKind c with
  | .varInt _ | .lstr | .bang | .fixstr => true
  | _ => false

/-- value of the digits at the head of `s`, none if there is no digit -/
def headNumber (s : Bytes) : Option Nat :=
  let ds := s.takeWhile isDigit
  if ds.isEmpty then none else some (ds.foldl (fun a c => a * 10 + (c.toNat - 48)) 0)

/-- `malformedFrom takes fmt`: scanning left to right; `takes` = the previous option accepts a size -/
def malformedFrom : Bool → Bytes → Bool
  | _, [] => false
  | takes, c :: rest =>
    if isDigit c then (!takes) || malformedFrom takes rest      -- a digit that no option owns is an invalid option
    else if !optionLetter c then true
    else
      let badSize :=
        if optKind c = .fixstr then (headNumber rest).isNone
        else if takesSize c then (match headNumber rest with | some n => n < 1 || n > 16 | none => false)
        else false
      let badX := decide (optKind c = .alignNext) && (match rest with | d :: _ => !alignable d | [] => true)
      badSize || badX || malformedFrom (takesSize c) rest

/-- a format string the manual does not admit: unknown option, size outside [1,16], `c` without a size, `X` not
    followed by an option that has a size -/
def malformed (fmt : Bytes) : Bool := malformedFrom false fmt

/-- some option asks for an alignment that is not a power of 2 (`min(size, maxalign)`), which the manual forbids -/
def alignBadLoop : Nat → Rd → Bytes → Bool
  | 0, _, _ => false
  | _ + 1, _, [] => false
  | fuel + 1, rd, c :: rest =>
    match readOpt .pack rd c rest with
    | .error _ => false
    | .ok (.nop, rd', rest') => alignBadLoop fuel rd' rest'
    | .ok (.item al _ _, rd', rest') =>
      (match alignPad rd true al 0 with | .error _ => true | .ok _ => false) || alignBadLoop fuel rd' rest'

def alignBad (fmt : Bytes) : Bool := alignBadLoop (fmt.length + 1) {} fmt

/-- well-formed format and every value representable: `pack` must succeed -/
def mustAccept (fmt : Bytes) (vs : List Val) : Bool :=
  !malformed fmt && !alignBad fmt && acceptLoop (fmt.length + 1) {} fmt vs

end GoluaVerif.Model.Pack
