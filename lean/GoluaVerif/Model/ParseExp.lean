/-
  Model.ParseExp — mirror of parsing/parser.go `Parser.Exp` / `Parser.ShortExp` (and the
  parenthesis case of `PrefixExp`) over a token list.

  Go                                              here
  ----------------------------------------------  ------------------------------------------
  Exp: ShortExp, then `for t.Type.IsBinOp()`      `exp`, `expLoop`
    inner `for len(stack) > 0 { pdiff … break }`  `reduce`   (recursion on the stack: the index
    `stack, last = mergepop(stack, last)`                     `stack[len-1]` always exists)
    final `for len(stack) > 0 { mergepop }`       `finish`
  ShortExp: atom | unary ShortExp | PrefixExp     `shortExp`
    `if t.Type == SgHat { pow = ShortExp … }`     `powTail`  (applied after EVERY case, as in Go)
  item{exp, op}; first item has the zero Op       `Item`; zero value of ops.Op is OpOr

  Recursion through parentheses is bounded by a fuel argument; `parse` supplies
  2·length+2, which Props.C12 shows sufficient for every rendering.  Core Lean only.
-/
import GoluaVerif.Spec.Grammar
namespace GoluaVerif.Model.ParseExp
open GoluaVerif.Spec.Grammar

/-- parser.go `binopMap` (token.IsBinOp: everything between beforeBinOp and afterBinOp) -/
def binop? : Sym → Option BinOp
  | .or => some .or | .and => some .and | .lt => some .lt | .le => some .le | .gt => some .gt | .ge => some .ge
  | .eq => some .eq | .ne => some .ne | .pipe => some .bor | .tilde => some .bxor | .amp => some .band
  | .shl => some .shl | .shr => some .shr | .concat => some .concat | .plus => some .add | .minus => some .sub
  | .star => some .mul | .slash => some .div | .slashslash => some .idiv | .pct => some .mod | .hat => some .pow
  | .not => none | .hash => none

/-- parser.go `unopMap` -/
def unop? : Sym → Option UnOp
  | .minus => some .neg | .not => some .not | .hash => some .len | .tilde => some .bnot
  | _ => none

structure Item where
  exp : Exp
  op : BinOp
  deriving Repr

/-- `pdiff > 0 || (pdiff == 0 && op == ops.OpConcat)`: the incoming operator binds tighter than
    the pending one, so the pending operand stays on the stack -/
def breaks (op pending : BinOp) : Bool :=
  pending.prec < op.prec || (op.prec == pending.prec && op == .concat)

/-- mergepop: `top.exp = NewBinOp(top.exp, it.op, it.exp)` -/
def merge (top it : Item) : Item := { top with exp := .bin it.op top.exp it.exp }

/-- the inner loop of Exp (stack head = top of the Go slice) -/
def reduce (op : BinOp) : List Item → Item → List Item × Item
  | [], last => ([], last)
  | top :: rest, last =>
    if breaks op last.op then (top :: rest, last) else reduce op rest (merge top last)

/-- the final loop of Exp -/
def finish : List Item → Item → Exp
  | [], last => last.exp
  | top :: rest, last => finish rest (merge top last)

mutual
  def shortExp : Nat → List Token → Option (Exp × List Token)
    | 0, _ => none
    | f + 1, ts =>
      match ts with
      | .atom n :: r => powTail f (.atom n) r
      | .lp :: r =>
        match exp f r with
        | some (e, .rp :: r') => powTail f e r'
        | _ => none
      | .sym s :: r =>
        match unop? s with
        | some u =>
          match shortExp f r with
          | some (e, r') => powTail f (.un u e) r'
          | none => none
        | none => none
      | _ => none
  def powTail : Nat → Exp → List Token → Option (Exp × List Token)
    | f, e, .sym .hat :: r =>
      match shortExp f r with
      | some (p, r') => some (.bin .pow e p, r')
      | none => none
    | _, e, r => some (e, r)
  def exp : Nat → List Token → Option (Exp × List Token)
    | 0, _ => none
    | f + 1, ts =>
      match shortExp f ts with
      | some (e, r) => expLoop f [] { exp := e, op := .or } r
      | none => none
  def expLoop : Nat → List Item → Item → List Token → Option (Exp × List Token)
    | 0, _, _, _ => none
    | f + 1, stack, last, ts =>
      match ts with
      | .sym s :: r =>
        match binop? s with
        | some op =>
          match shortExp f r with
          | some (e, r') =>
            let sl := reduce op stack last
            expLoop f (sl.2 :: sl.1) { exp := e, op := op } r'
          | none => none
        | none => some (finish stack last, ts)
      | _ => some (finish stack last, ts)
end

/-- ParseExp: the whole token list must be one expression -/
def parse (ts : List Token) : Option Exp :=
  match exp (2 * ts.length + 2) ts with
  | some (e, []) => some e
  | _ => none

end GoluaVerif.Model.ParseExp
