/-
  Model.Product — two state machines (two golua runtimes running programs) over their private
  states and ONE shared component (the package-level variables of the Go process, and process-wide
  state such as the math/rand source).

  A machine takes a step from (shared g, private p) to (g', p').  A schedule says which machine moves
  next.  `runSolo` is the run of one machine alone; `runBoth` the interleaving.
-/
namespace GoluaVerif.Model.Product

structure Machine (G P : Type) where
  step : G → P → G × P

/-- n steps of one machine on its own -/
def runSolo {G P : Type} (m : Machine G P) : Nat → G → P → G × P
  | 0, g, p => (g, p)
  | n + 1, g, p => let r := m.step g p; runSolo m n r.1 r.2

/-- an interleaving: `true` = machine 1 moves, `false` = machine 2 moves -/
def runBoth {G P1 P2 : Type} (m1 : Machine G P1) (m2 : Machine G P2) :
    List Bool → G → P1 → P2 → G × P1 × P2
  | [], g, p1, p2 => (g, p1, p2)
  | true :: s, g, p1, p2 => let r := m1.step g p1; runBoth m1 m2 s r.1 r.2 p2
  | false :: s, g, p1, p2 => let r := m2.step g p2; runBoth m1 m2 s r.1 p1 r.2

def count (b : Bool) (s : List Bool) : Nat := (s.filter (· == b)).length

/-- the machine never changes the shared component -/
def Frame {G P : Type} (m : Machine G P) : Prop := ∀ g p, (m.step g p).1 = g

/-- the machine may write the shared component, but only in ways no machine can observe through
    `obs` (a write-once-same-value initialisation, an idempotent flag OR, a cache): steps preserve
    `obs`, and the private successor depends on the shared component only through `obs` -/
structure FrameUpTo {G P O : Type} (obs : G → O) (m : Machine G P) : Prop where
  preserves : ∀ g p, obs (m.step g p).1 = obs g
  reads_only_obs : ∀ g g' p, obs g = obs g' → (m.step g p).2 = (m.step g' p).2

end GoluaVerif.Model.Product
