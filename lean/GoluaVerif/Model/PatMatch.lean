/-
  Model.PatMatch — hand-written mirror of /repo/lib/stringlib/pattern/matcher.go
  (`patternMatcher`: the iterative machine with a trackback stack) and of the
  entry points `Pattern.Match` / `Pattern.MatchFromStart` in pattern.go, including
  their `recover()` (which re-raises every panic except the budget sentinel).

  * Go `int` positions are `Int` (the machine uses `si = -1` as "failed", and
    `end := m.si + c.end - c.start` can be negative).
  * Every slice / string / array index is CHECKED: out of range → `.error (.goPanic …)`.
  * `panic(budgetConsumed)` → `.error .budgetConsumed`.
  * The machine is a step function (`step`) iterated with fuel (`run`); the fuel is
    a parameter of the model, `.error .outOfFuel` is a model artefact the theorems exclude.
  * `m.ci` is written but never read in the Go code and is omitted.
  * `consumed`, `backtracks`, `steps`, `compared` are ghost counters.
-/
import GoluaVerif.Model.PatBuild
namespace GoluaVerif.Model

/-- `Capture{start, end}`; `end = -1` marks a position capture / an open capture -/
structure Capture where
  start : Int
  stop : Int
  deriving DecidableEq, Repr, Inhabited

/-- `trackback{si, ci, pi, siMin}` (without `ci`) -/
structure Trackback where
  si : Int
  pi : Nat
  siMin : Int
  deriving DecidableEq, Repr, Inhabited

inductive Stop where
  | goPanic (site : PanicSite)
  | budgetConsumed
  | outOfFuel
  deriving DecidableEq, Repr, Inhabited

namespace PatMatch

abbrev Subject := Array UInt8

/-- `patternMatcher` (the `Pattern` and the subject are parameters of the functions) -/
structure M where
  caps : Array Capture          -- `captures [10]Capture`
  si : Int
  pi : Nat
  tbs : List Trackback          -- top of the Go slice = head
  budget : Nat
  consumed : Nat := 0           -- ghost: bytes consumed by matchNext/getNext
  backtracks : Nat := 0         -- ghost: trackback() calls that popped/resumed an alternative
  steps : Nat := 0              -- ghost: iterations of the match()/matchToEnd loops
  compared : Nat := 0           -- ghost: bytes compared by back-references
  deriving DecidableEq, Repr, Inhabited

abbrev R := Except Stop

/-- `m.s[i]`, checked -/
def byteAt (s : Subject) (i : Int) : R UInt8 :=
  if 0 ≤ i then
    match s[i.toNat]? with
    | some b => .ok b
    | none => .error (.goPanic .subjIndex)
  else .error (.goPanic .subjIndex)

/-- `m.s[a:b]`, checked (`0 ≤ a ≤ b ≤ len`) -/
def sliceChecked (s : Subject) (a b : Int) : R (List UInt8) :=
  if 0 ≤ a ∧ a ≤ b ∧ b ≤ s.size then .ok ((s.toList.drop a.toNat).take (b.toNat - a.toNat))
  else .error (.goPanic .subjSlice)

/-- `m.captures[n]`, checked -/
def capAt (caps : Array Capture) (n : Nat) : R Capture :=
  match caps[n]? with
  | some c => .ok c
  | none => .error (.goPanic .capIndex)

def capSet (caps : Array Capture) (n : Nat) (c : Capture) : R (Array Capture) :=
  if n < caps.size then .ok (caps.setIfInBounds n c) else .error (.goPanic .capIndex)

/-- `func (m *patternMatcher) consumeBudget()` -/
def consumeBudget (m : M) : R M :=
  if m.budget = 0 then .ok m
  else if m.budget - 1 = 0 then .error .budgetConsumed
  else .ok { m with budget := m.budget - 1 }

/-- `func (m *patternMatcher) consumeBudgetN(n int)`: `n` units at once (back-reference comparison) -/
def consumeBudgetN (m : M) (n : Nat) : R M :=
  if m.budget = 0 then .ok m
  else if n ≥ m.budget then .error .budgetConsumed
  else .ok { m with budget := m.budget - n }

/-- `func (m *patternMatcher) matchNext(s byteSet) bool` -/
def matchNext (s : Subject) (set : ByteSet) (m : M) : R (Bool × M) :=
  if m.si < s.size then do
    let b ← byteAt s m.si
    if set.contains b then do
      let m ← consumeBudget { m with si := m.si + 1, consumed := m.consumed + 1 }
      pure (true, m)
    else pure (false, m)
  else pure (false, m)

/-- `func (m *patternMatcher) getNext() (b byte, ok bool)` -/
def getNext (s : Subject) (m : M) : R (Option UInt8 × M) :=
  if m.si < s.size then do
    let b ← byteAt s m.si
    let m ← consumeBudget { m with si := m.si + 1, consumed := m.consumed + 1 }
    pure (some b, m)
  else pure (none, m)

/-- `for m.matchNext(item.bytes) {}` (fuel: bytes left + 1) -/
def greedyLoop (s : Subject) (set : ByteSet) : Nat → M → R M
  | 0, _ => .error .outOfFuel
  | fuel + 1, m => do
    let (ok, m) ← matchNext s set m
    if ok then greedyLoop s set fuel m else pure m

/-- `func (m *patternMatcher) trackback()` -/
def trackback (nitems : Nat) (m : M) : M :=
  match m.tbs with
  | [] => { m with pi := nitems, si := -1 }
  | t :: rest =>
    let m := { m with si := t.si, pi := t.pi, backtracks := m.backtracks + 1 }
    if t.si > t.siMin then { m with tbs := { t with si := t.si - 1 } :: rest }
    else { m with tbs := rest }

/-- `func (m *patternMatcher) addTrackback(siMin int)` -/
def addTrackback (m : M) (siMin : Int) : M :=
  { m with tbs := { si := m.si, pi := m.pi, siMin := siMin } :: m.tbs }

/-- the `BLoop` of `ptnBalanced` (after the opening byte) -/
def balLoop (nitems : Nat) (s : Subject) (op cl : UInt8) : Nat → Nat → M → R M
  | 0, _, _ => .error .outOfFuel
  | fuel + 1, depth, m => do
    let (b?, m) ← getNext s m
    match b? with
    | none => pure (trackback nitems m)
    | some b =>
      if b == cl then
        if depth - 1 = 0 then pure { m with pi := m.pi + 1 }
        else balLoop nitems s op cl fuel (depth - 1) m
      else if b == op then balLoop nitems s op cl fuel (depth + 1) m
      else balLoop nitems s op cl fuel depth m

/-- `byte(item.bytes[k])` -/
def lowByte (w : BitVec 64) : UInt8 := UInt8.ofNat (w.toNat % 256)

/-- one iteration of the `for m.pi < len(m.items)` loop of `match()` for the item at `m.pi` -/
def matchStep (nitems : Nat) (s : Subject) (item : PItem) (m : M) : R M :=
  let loopFuel := s.size + 2
  match item.ptnType with
  | .once => do
    let (ok, m) ← matchNext s item.bytes m
    if !ok then pure (trackback nitems m) else pure { m with pi := m.pi + 1 }
  | .greedyRepeat => do
    let si := m.si
    let m ← greedyLoop s item.bytes loopFuel m
    let m := { m with pi := m.pi + 1 }
    if si < m.si then pure (addTrackback m si) else pure m
  | .greedyRepeatOnce => do
    let (ok, m) ← matchNext s item.bytes m
    if !ok then pure (trackback nitems m)
    else do
      let si := m.si
      let m ← greedyLoop s item.bytes loopFuel m
      let m := { m with pi := m.pi + 1 }
      if si < m.si then pure (addTrackback m si) else pure m
  | .repeat_ => do
    let (ok, m) ← matchNext s item.bytes m
    let m := if ok then { (addTrackback m m.si) with si := m.si - 1 } else m
    pure { m with pi := m.pi + 1 }
  | .optional => do
    let si := m.si
    let m := { m with pi := m.pi + 1 }
    let (ok, m) ← matchNext s item.bytes m
    if ok then pure (addTrackback m si) else pure m
  | .capture => do
    let c ← capAt m.caps item.bytes.w0.toNat
    let stop := m.si + c.stop - c.start
    -- a position capture (`c.end == -1`) holds no string: it never matches
    if c.stop ≥ 0 ∧ stop ≤ s.size then do
      -- comparing costs one unit per byte of the capture
      let m ← consumeBudgetN m (c.stop - c.start).toNat
      let a ← sliceChecked s c.start c.stop
      let b ← sliceChecked s m.si stop
      if a == b then pure { m with si := stop, pi := m.pi + 1, compared := m.compared + (c.stop - c.start).toNat }
      else pure (trackback nitems { m with compared := m.compared + (c.stop - c.start).toNat })
    else pure (trackback nitems m)
  | .balanced => do
    let op := lowByte item.bytes.w0
    let (b?, m) ← getNext s m
    if b? != some op then pure (trackback nitems m)
    else balLoop nitems s op (lowByte item.bytes.w1) loopFuel 1 m
  | .frontier => do
    let p ← (if m.si > 0 then byteAt s (m.si - 1) else pure 0 : R UInt8)
    let n ← (if m.si < s.size then byteAt s m.si else pure 0 : R UInt8)
    if item.bytes.contains p || !item.bytes.contains n then pure (trackback nitems m)
    else pure { m with pi := m.pi + 1 }
  | .startCapture => do
    let caps ← capSet m.caps item.bytes.w0.toNat ⟨m.si, -1⟩
    pure { m with caps := caps, pi := m.pi + 1 }
  | .endCapture => do
    let c ← capAt m.caps item.bytes.w0.toNat
    let caps ← capSet m.caps item.bytes.w0.toNat { c with stop := m.si }
    pure { m with caps := caps, pi := m.pi + 1 }

inductive Status where
  | running | matched | failed
  deriving DecidableEq, Repr, Inhabited

/-- one step of `matchToEnd` (the loop of `match()` flattened into it; the unit charged at the top is the
    `m.consumeBudget()` at the head of the `match()` loop, resp. the one after `m.match()` in `matchToEnd`) -/
def step (P : Pattern) (s : Subject) (m : M) : R (Status × M) := do
  -- every iteration of the `match()` loop, and every attempt of `matchToEnd`, costs one unit
  let m ← consumeBudget { m with steps := m.steps + 1 }
  if h : m.pi < P.items.size then do
    let m ← matchStep P.items.size s P.items[m.pi] m
    pure (.running, m)
  else if m.si = -1 then pure (.failed, m)
  else if !P.endAnchor || m.si = s.size then do
    let c ← capAt m.caps 0
    let caps ← capSet m.caps 0 { c with stop := m.si }
    pure (.matched, { m with caps := caps })
  else pure (.running, trackback P.items.size m)

/-- iterate `step`; `some m` = matched with final machine `m`, `none` = failed -/
def run (P : Pattern) (s : Subject) : Nat → M → R (Bool × M)
  | 0, _ => .error .outOfFuel
  | fuel + 1, m => do
    let (st, m) ← step P s m
    match st with
    | .running => run P s fuel m
    | .matched => pure (true, m)
    | .failed => pure (false, m)

/-- `func (m *patternMatcher) matchToEnd() []Capture` -/
def matchToEnd (P : Pattern) (s : Subject) (fuel : Nat) (m : M) : R (Option (List Capture) × M) := do
  let c ← capAt m.caps 0
  let caps ← capSet m.caps 0 { c with start := m.si }
  let (ok, m) ← run P s fuel { m with caps := caps }
  if ok then
    -- `m.captures[:m.captureCount+1]`
    if P.captureCount + 1 ≤ m.caps.size then pure (some (m.caps.toList.take (P.captureCount + 1)), m)
    else throw (.goPanic .capSlice)
  else pure (none, m)

/-- `reset(si)` -/
def reset (m : M) (si : Int) : M := { m with tbs := [], si := si, pi := 0 }

/-- `func (m *patternMatcher) find() []Capture`: `for si := m.si; si <= len(m.s); si++` -/
def findLoop (P : Pattern) (s : Subject) (fuel : Nat) : Nat → Int → M → R (Option (List Capture) × M)
  | 0, _, m => pure (none, m)
  | n + 1, si, m =>
    if si ≤ s.size then do
      let (r, m) ← matchToEnd P s fuel (reset m si)
      match r with
      | some caps => pure (some caps, m)
      | none => findLoop P s fuel n (si + 1) m
    else pure (none, m)

def find (P : Pattern) (s : Subject) (fuel : Nat) (m : M) : R (Option (List Capture) × M) :=
  findLoop P s fuel (((s.size : Int) + 2 - m.si).toNat) m.si m

/-- `func (m *patternMatcher) findFromStart() []Capture` -/
def findFromStart (P : Pattern) (s : Subject) (fuel : Nat) (m : M) : R (Option (List Capture) × M) :=
  if P.startAnchor then matchToEnd P s fuel m else find P s fuel m

def initM (init : Int) (budget : Nat) : M :=
  { caps := Array.replicate 10 ⟨0, 0⟩, si := init, pi := 0, tbs := [], budget := budget }

/-- what the caller of `Match` / `MatchFromStart` observes -/
structure GoResult where
  captures : Option (List Capture)
  used : Nat
  /-- set when the machine raised a panic other than `budgetConsumed`: it is re-raised by the entry point -/
  escapedPanic : Option PanicSite := none
  outOfFuel : Bool := false
  /-- ghost counters of the final machine (0 when a panic was recovered) -/
  consumed : Nat := 0
  backtracks : Nat := 0
  steps : Nat := 0
  compared : Nat := 0
  deriving DecidableEq, Repr, Inhabited

/-- the `defer func() { if r := recover(); r == budgetConsumed {…} else if r != nil { panic(r) } }()` of both entry
    points: the budget sentinel becomes `(nil, budget+1)`; any other panic is re-raised (`escapedPanic`). -/
def recoverWrap (budget : Nat) (r : R (Option (List Capture) × M)) : GoResult :=
  match r with
  | .ok (caps, m) => { captures := caps, used := budget - m.budget, consumed := m.consumed, backtracks := m.backtracks,
                       steps := m.steps, compared := m.compared }
  | .error .budgetConsumed => { captures := none, used := budget + 1 }
  | .error (.goPanic w) => { captures := none, used := 0, escapedPanic := some w }
  | .error .outOfFuel => { captures := none, used := 0, outOfFuel := true }

/-- `func (p *Pattern) MatchFromStart(s string, init int, budget uint64)` -/
def matchFromStart (P : Pattern) (s : Subject) (fuel : Nat) (init : Int) (budget : Nat) : GoResult :=
  recoverWrap budget (findFromStart P s fuel (initM init budget))

/-- `func (p *Pattern) Match(s string, init int, budget uint64)` -/
def matchGo (P : Pattern) (s : Subject) (fuel : Nat) (init : Int) (budget : Nat) : GoResult :=
  recoverWrap budget (find P s fuel (initM init budget))

end PatMatch
end GoluaVerif.Model
