/-
  Model.NumOps — hand-written mirror of the integer paths of runtime/bitwise.go
  (`shl`, `shr` after ToIntNoString succeeded on both operands).  Tied to the code by
  the C02 lattice correspondence (ops shl/shr).
-/
import GoluaVerif.Base.I64
namespace GoluaVerif.Model.NumOps
open GoluaVerif

/-- `if iy < 0 { int64(uint64(ix) >> uint64(-iy)) } else { int64(uint64(ix) << uint64(iy)) }` -/
def shl (ix iy : I64) : I64 :=
  if BitVec.slt iy 0#64 then I64.shrU ix (-iy) else I64.shlU ix iy

/-- `if iy < 0 { int64(uint64(ix) << uint64(-iy)) } else { int64(uint64(ix) >> uint64(iy)) }` -/
def shr (ix iy : I64) : I64 :=
  if BitVec.slt iy 0#64 then I64.shlU ix (-iy) else I64.shrU ix iy

end GoluaVerif.Model.NumOps
