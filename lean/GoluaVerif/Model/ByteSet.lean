/-
  Model.ByteSet — hand-written mirror of /repo/lib/stringlib/pattern/byteset.go
  (`type byteSet [4]uint64` and its leaf functions).  The translator subset has no
  arrays, so these few lines are mirrored by hand; the *constants* (`namedByteSet`,
  `fullSet`) are NOT copied: they are regenerated from the Go source on every run
  (Generated.ByteSetTable) and looked up here.
-/
import GoluaVerif.Generated.ByteSetTable
namespace GoluaVerif.Model

/-- `type byteSet [4]uint64` -/
structure ByteSet where
  w0 : BitVec 64
  w1 : BitVec 64
  w2 : BitVec 64
  w3 : BitVec 64
  deriving DecidableEq, Repr, Inhabited

namespace ByteSet

/-- `byteSet{}` -/
def empty : ByteSet := ⟨0#64, 0#64, 0#64, 0#64⟩

/-- `s[i]` for `i = b>>6` (a byte shifted right by 6 is 0..3, so the Go index cannot be out of range) -/
def word (s : ByteSet) (i : UInt8) : BitVec 64 :=
  if i == 0 then s.w0 else if i == 1 then s.w1 else if i == 2 then s.w2 else s.w3

def setWord (s : ByteSet) (i : UInt8) (v : BitVec 64) : ByteSet :=
  if i == 0 then { s with w0 := v } else if i == 1 then { s with w1 := v }
  else if i == 2 then { s with w2 := v } else { s with w3 := v }

/-- `func (s *byteSet) merge(t byteSet)` -/
def merge (s t : ByteSet) : ByteSet := ⟨s.w0 ||| t.w0, s.w1 ||| t.w1, s.w2 ||| t.w2, s.w3 ||| t.w3⟩

/-- `func (s *byteSet) add(b byte)`: `s[b>>6] |= uint64(1) << (b & 0x3F)` -/
def add (s : ByteSet) (b : UInt8) : ByteSet :=
  s.setWord (b >>> 6) (s.word (b >>> 6) ||| (1#64 <<< (b &&& 0x3F).toNat))

/-- `const full64 uint64 = ^uint64(0)` -/
def full64 : BitVec 64 := ~~~0#64

/-- `func (s *byteSet) complement()` -/
def complement (s : ByteSet) : ByteSet := ⟨s.w0 ^^^ full64, s.w1 ^^^ full64, s.w2 ^^^ full64, s.w3 ^^^ full64⟩

/-- `func (s byteSet) contains(b byte) bool`: `s[b>>6]>>(b&0x3F)&1 != 0` -/
def contains (s : ByteSet) (b : UInt8) : Bool :=
  ((s.word (b >>> 6) >>> (b &&& 0x3F).toNat) &&& 1#64) != 0#64

/-- the loop of `byteRange`: `for i := a; i < b; i++ { s.add(i) }` (fuel 256 ≥ number of bytes) -/
def rangeLoop (b : UInt8) : Nat → UInt8 → ByteSet → ByteSet
  | 0, _, s => s
  | fuel + 1, i, s => if i < b then rangeLoop b fuel (i + 1) (s.add i) else s

/-- `func byteRange(a, b byte) (s byteSet)`: a descending range (`a > b`) is empty -/
def byteRange (a b : UInt8) : ByteSet :=
  if a > b then empty else (rangeLoop b 256 a empty).add b

def ofWords (w : Nat × Nat × Nat × Nat) : ByteSet :=
  ⟨BitVec.ofNat 64 w.1, BitVec.ofNat 64 w.2.1, BitVec.ofNat 64 w.2.2.1, BitVec.ofNat 64 w.2.2.2⟩

/-- `fullSet` (regenerated constant) -/
def fullSet : ByteSet := ofWords Generated.ByteSetTable.fullSet

/-- `namedByteSet[c]` (regenerated table): `some` = the Go map has the key -/
def named? (c : UInt8) : Option ByteSet :=
  match Generated.ByteSetTable.named.find? (fun e => e.1 == c.toNat) with
  | some e => some (ofWords e.2)
  | none => none

end ByteSet
end GoluaVerif.Model
