/-
  Model.FrontNames — the Go identifiers that the model's operators and operator tokens stand for
  (ops.OpXxx, token.SgXxx / token.KwXxx).  Used only to state that the model's tables are the
  tables extracted from /repo (Generated.FrontTables).  Core Lean only.
-/
import GoluaVerif.Model.ParseExp
namespace GoluaVerif.Model.FrontNames
open GoluaVerif.Spec.Grammar

def binName : BinOp → String
  | .or => "OpOr" | .and => "OpAnd" | .lt => "OpLt" | .le => "OpLeq" | .gt => "OpGt" | .ge => "OpGeq"
  | .eq => "OpEq" | .ne => "OpNeq" | .bor => "OpBitOr" | .bxor => "OpBitXor" | .band => "OpBitAnd"
  | .shl => "OpShiftL" | .shr => "OpShiftR" | .concat => "OpConcat" | .add => "OpAdd" | .sub => "OpSub"
  | .mul => "OpMul" | .div => "OpDiv" | .idiv => "OpFloorDiv" | .mod => "OpMod" | .pow => "OpPow"

def unName : UnOp → String
  | .neg => "OpNeg" | .not => "OpNot" | .len => "OpLen" | .bnot => "OpBitNot"

def symName : Sym → String
  | .or => "KwOr" | .and => "KwAnd" | .lt => "SgLess" | .le => "SgLessEqual" | .gt => "SgGreater"
  | .ge => "SgGreaterEqual" | .eq => "SgEqual" | .ne => "SgNotEqual" | .pipe => "SgPipe" | .tilde => "SgTilde"
  | .amp => "SgAmpersand" | .shl => "SgShiftLeft" | .shr => "SgShiftRight" | .concat => "SgConcat"
  | .plus => "SgPlus" | .minus => "SgMinus" | .star => "SgStar" | .slash => "SgSlash"
  | .slashslash => "SgSlashSlash" | .pct => "SgPct" | .hat => "SgHat" | .not => "KwNot" | .hash => "SgHash"

def allSyms : List Sym :=
  [.or, .and, .lt, .le, .gt, .ge, .eq, .ne, .pipe, .tilde, .amp, .shl, .shr, .concat, .plus, .minus, .star,
   .slash, .slashslash, .pct, .hat, .not, .hash]

def allBinOps : List BinOp :=
  [.or, .and, .lt, .le, .gt, .ge, .eq, .ne, .bor, .bxor, .band, .shl, .shr, .concat, .add, .sub, .mul, .div,
   .idiv, .mod, .pow]

def allUnOps : List UnOp := [.neg, .not, .len, .bnot]

/-- does the model agree with the extracted tables? (evaluated by `decide` in Props.C12) -/
def tablesAgree (opPrec : List (String × Nat)) (binopMap unopMap : List (String × String))
    (isBinOpTokens : List String) : Bool :=
  -- every operator token: same entry (or absence) in binopMap / unopMap
  allSyms.all (fun s =>
    binopMap.lookup (symName s) == (GoluaVerif.Model.ParseExp.binop? s).map binName &&
    unopMap.lookup (symName s) == (GoluaVerif.Model.ParseExp.unop? s).map unName) &&
  -- no entries for token types the model does not know
  binopMap.all (fun e => allSyms.any (fun s => symName s == e.1)) &&
  unopMap.all (fun e => allSyms.any (fun s => symName s == e.1)) &&
  -- precedences
  allBinOps.all (fun o => opPrec.lookup (binName o) == some o.prec) &&
  allUnOps.all (fun u => opPrec.lookup (unName u) == some 10) &&
  -- IsBinOp() holds exactly for the keys of binopMap (a token passing IsBinOp without an entry
  -- would silently become OpOr, the zero value)
  isBinOpTokens.all (fun t => (binopMap.lookup t).isSome) &&
  binopMap.all (fun e => isBinOpTokens.contains e.1)

end GoluaVerif.Model.FrontNames
