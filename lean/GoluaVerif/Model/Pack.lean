/-
  Model.Pack — `PackValues` (lib/stringlib/packer.go) and `PackSize`
  (packsize.go) on byte lists.  Values are already Lua values of the three kinds
  the packer accepts; `ToInt`/`ToFloat` coercions of numbers are modelled
  (float with an exact integer value → integer, integer → float), coercions
  from/to strings are not (the harness never feeds them).
  Core Lean only.
-/
import GoluaVerif.Base.F64
import GoluaVerif.Model.PackFmt
namespace GoluaVerif.Model.Pack
open GoluaVerif

inductive Val where
  | int (n : I64)
  | flt (bits : BitVec 64)
  | str (s : Bytes)
  | bad                      -- any value no option accepts (boolean, nil, table…)
  deriving DecidableEq, Repr, Inhabited

/-! ### float32 ↔ float64 on bit patterns (exact, round to nearest even) -/

def roundDivEven (a k : Nat) : Nat :=
  let q := a / 2 ^ k
  let r := a % 2 ^ k
  if k = 0 then q
  else
    let half := 2 ^ (k - 1)
    if half < r ∨ (r = half ∧ q % 2 = 1) then q + 1 else q

/-- Go `float32(f)` on the bit pattern of `f`, result as the 32-bit pattern (as Nat) -/
def f64ToF32 (b : BitVec 64) : Nat :=
  match F64.decode b with
  | .nan =>
    -- CVTSD2SS: sign kept, the 23 high payload bits kept, quiet bit set
    (if b.msb then 2 ^ 31 else 0) + 0x7FC00000 + (b.toNat % 2 ^ 51) / 2 ^ 29
  | .inf neg => (if neg then 2 ^ 31 else 0) + 0x7F800000
  | .fin neg mag =>
    let s := if neg then 2 ^ 31 else 0
    if mag = 0 then s
    else
      -- float32 values are multiples of 2^-149 = 2^925 units of 2^-1074
      let k := max 925 (Nat.log2 mag - 23)
      let q := roundDivEven mag k            -- ≤ 2^24
      let u := q * 2 ^ (k - 925)             -- in units of 2^-149
      if u < 2 ^ 23 then s + u
      else
        let e := Nat.log2 u - 23
        if e + 1 ≥ 255 then s + 0x7F800000
        else s + (e + 1) * 2 ^ 23 + (u / 2 ^ e - 2 ^ 23)

/-- Go `float64(x)` for a float32 bit pattern -/
def f32ToF64 (w : Nat) : BitVec 64 :=
  let neg := decide (w / 2 ^ 31 % 2 = 1)
  let e := w / 2 ^ 23 % 256
  let m := w % 2 ^ 23
  if e = 255 then
    if m = 0 then F64.encode (.inf neg)
    else BitVec.ofNat 64 ((if neg then 2 ^ 63 else 0) + 2047 * 2 ^ 52 + m * 2 ^ 29)
  else if e = 0 then F64.encode (.fin neg (m * 2 ^ 925))
  else F64.encode (.fin neg ((2 ^ 23 + m) * 2 ^ (e - 1) * 2 ^ 925))

/-- `math.MaxFloat32` in units of 2^-1074 -/
def maxF32Mag : Nat := (2 ^ 24 - 1) * 2 ^ 104 * 2 ^ 1074

/-- `checkFloatSize(math.MaxFloat32)`: finite and |f| ≤ MaxFloat32, or infinite, or NaN -/
def checkFloatSize (b : BitVec 64) : Bool :=
  match F64.decode b with
  | .nan => true
  | .inf _ => true
  | .fin _ mag => mag ≤ maxF32Mag

/-! ### value coercions -/

/-- exact float → int64 (`FloatToInt` returning `IsInt`) -/
def floatToInt? (b : BitVec 64) : Option I64 :=
  match F64.decode b with
  | .fin neg mag =>
    if mag % F64.scale = 0 then
      let t : Int := (mag / F64.scale : Nat)
      let v : Int := if neg then -t else t
      if -(2 ^ 63 : Int) ≤ v ∧ v < (2 ^ 63 : Int) then some (BitVec.ofInt 64 v) else none
    else none
  | _ => none

/-- `strconv.FormatInt(n, 10)` -/
def decimal (n : I64) : Bytes :=
  let rec digits : Nat → Nat → Bytes
    | 0, _ => []
    | f + 1, k => if k < 10 then [UInt8.ofNat (48 + k)] else digits f (k / 10) ++ [UInt8.ofNat (48 + k % 10)]
  if n.toInt < 0 then 45 :: digits 20 n.toInt.natAbs else digits 20 n.toNat

/-- `nextIntValue` -/
def nextInt : List Val → Except Err (I64 × List Val)
  | [] => .error .notEnoughValues
  | .int n :: vs => .ok (n, vs)
  | .flt b :: vs => match floatToInt? b with
    | some n => .ok (n, vs)
    | none => .error .badType
  | .str s :: _ => if s.any isDigit then .error .unmodelled else .error .badType
  | _ :: _ => .error .badType

/-- `nextFloatValue` -/
def nextFloat : List Val → Except Err (BitVec 64 × List Val)
  | [] => .error .notEnoughValues
  | .flt b :: vs => .ok (b, vs)
  | .int n :: vs => .ok (F64.encode (F64.ofI64 n), vs)
  | .str s :: _ => if s.any isDigit then .error .unmodelled else .error .badType
  | _ :: _ => .error .badType

/-- `nextStringValue` -/
def nextStr : List Val → Except Err (Bytes × List Val)
  | [] => .error .notEnoughValues
  | .str s :: vs => .ok (s, vs)
  | .int n :: vs => .ok (decimal n, vs)          -- `Value.ToString`: `strconv.FormatInt`
  | .flt _ :: _ => .error .unmodelled             -- `strconv.FormatFloat(…, 'g', -1, 64)`
  | _ :: _ => .error .badType

/-! ### integers -/

/-- the bounds tests of `packInt` / `packUint` and of the fixed-width options -/
def intInBounds (signed : Bool) (n : Nat) (v : Int) : Bool :=
  if signed then
    if n ≥ 8 then true
    else decide (-(2 ^ (8 * n - 1) : Int) ≤ v ∧ v < (2 ^ (8 * n - 1) : Int))
  else
    if n > 8 then true
    else if n = 8 then decide (0 ≤ v)
    else decide (0 ≤ v ∧ v < (2 ^ (8 * n) : Int))

/-- the bytes `packInt` / `packUint` write for an in-bounds value -/
def intBytes (e : Endian) (signed : Bool) (n : Nat) (v : I64) : Bytes :=
  if n ≤ 8 then ord e (leBytes n v.toNat)
  else
    let fill : UInt8 := if signed && decide (v.toInt < 0) then 255 else 0
    match e with
    | .big => List.replicate (n - 8) fill ++ (leBytes 8 v.toNat).reverse
    | .little => leBytes 8 v.toNat ++ List.replicate (n - 8) fill

def packInt (e : Endian) (signed : Bool) (n : Nat) (v : I64) : Except Err Bytes :=
  if intInBounds signed n v.toInt then .ok (intBytes e signed n v) else .error .outOfBounds

/-! ### one option -/

def zeros (n : Nat) : Bytes := List.replicate n 0

/-- the body of one option: bytes written and the values left -/
def packBody (e : Endian) (b : Body) (vs : List Val) : Except Err (Bytes × List Val) :=
  match b with
  | .int signed n =>
    match nextInt vs with
    | .error err => .error err
    | .ok (v, vs') =>
      match packInt e signed n v with
      | .error err => .error err
      | .ok w => .ok (w, vs')
  | .f32 =>
    match nextFloat vs with
    | .error err => .error err
    | .ok (f, vs') =>
      if checkFloatSize f then .ok (ord e (leBytes 4 (f64ToF32 f)), vs') else .error .outOfBounds
  | .f64 =>
    match nextFloat vs with
    | .error err => .error err
    | .ok (f, vs') => .ok (ord e (leBytes 8 f.toNat), vs')
  | .fixstr n =>
    match nextStr vs with
    | .error err => .error err
    | .ok (s, vs') =>
      -- `writeFixedStr(n)`
      if s.length > n then .error .strLonger
      else .ok (s ++ zeros (n - s.length), vs')
  | .zstr =>
    match nextStr vs with
    | .error err => .error err
    | .ok (s, vs') => if s.contains 0 then .error .strZeros else .ok (s ++ [0], vs')
  | .lstr n =>
    match nextStr vs with
    | .error err => .error err
    | .ok (s, vs') =>
      match packInt e false n (BitVec.ofNat 64 s.length) with
      | .error .outOfBounds => .error .strDoesNotFit
      | .error err => .error err
      | .ok w => .ok (w ++ s, vs')
  | .padByte => .ok ([0], vs)

/-- prepend bytes to the result of the rest of the loop -/
def consOut (w : Bytes) : Except Err (Bytes × List Val) → Except Err (Bytes × List Val)
  | .error e => .error e
  | .ok (bs, vs) => .ok (w ++ bs, vs)

/-- the main loop of `PackValues`; `len` = bytes written so far; returns the bytes written
    from here on and the values not consumed.  `fuel` > length of the format. -/
def packLoop : Nat → Rd → Bytes → Nat → List Val → Except Err (Bytes × List Val)
  | 0, _, _, _, _ => .error .badOption
  | _ + 1, rd, [], _, vs => if rd.alignOnly then .error .expectedOption else .ok ([], vs)
  | fuel + 1, rd, c :: rest, len, vs =>
    match readOpt .pack rd c rest with
    | .error e => .error e
    | .ok (.nop, rd', rest') => packLoop fuel rd' rest' len vs
    | .ok (.item al ao body, rd', rest') =>
      match alignPad rd true al len with
      | .error e => .error e
      | .ok pad =>
        if ao then consOut (zeros pad) (packLoop fuel rd' rest' (len + pad) vs)
        else
          match packBody rd.endian body vs with
          | .error e => .error e
          | .ok (w, vs') => consOut (zeros pad ++ w) (packLoop fuel rd' rest' (len + pad + w.length) vs')

/-- `string.pack(fmt, vs…)`: the packed bytes (extra values are ignored, as in Go) -/
def pack (fmt : Bytes) (vs : List Val) : Except Err Bytes :=
  match packLoop (fmt.length + 1) {} fmt 0 vs with
  | .error e => .error e
  | .ok (bs, _) => .ok bs

/-! ### packsize -/

def bodySize : Body → Nat
  | .int _ n => n
  | .f32 => 4
  | .f64 => 8
  | .fixstr n => n
  | .zstr => 0
  | .lstr _ => 0
  | .padByte => 1

/-- `inc(n)`: the running size must stay a Lua integer -/
def sizeInc (size n : Nat) : Except Err Nat :=
  if n > 2 ^ 63 - 1 ∨ size > 2 ^ 63 - 1 - n then .error .resultTooLarge else .ok (size + n)

/-- `PackSize` -/
def sizeLoop : Nat → Rd → Bytes → Nat → Except Err Nat
  | 0, _, _, _ => .error .badOption
  | _ + 1, _, [], size => .ok size
  | fuel + 1, rd, c :: rest, size =>
    match readOpt .size rd c rest with
    | .error e => .error e
    | .ok (.nop, rd', rest') => sizeLoop fuel rd' rest' size
    | .ok (.item al ao body, rd', rest') =>
      match alignPad rd true al size with
      | .error e => .error e
      | .ok pad =>
        match sizeInc size pad with
        | .error e => .error e
        | .ok size1 =>
          if ao then sizeLoop fuel rd' rest' size1
          else match sizeInc size1 (bodySize body) with
            | .error e => .error e
            | .ok size2 => sizeLoop fuel rd' rest' size2

def packsize (fmt : Bytes) : Except Err Nat := sizeLoop (fmt.length + 1) {} fmt 0

end GoluaVerif.Model.Pack
