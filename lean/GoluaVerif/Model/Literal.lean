/-
  Model.Literal — decoding of Lua 5.4 string literals (llex.c `read_string`,
  `read_long_string`, `luaO_utf8esc`), as total functions on the full literal text.

  * `decodeShort lit`: `lit` = opening quote … closing quote.  One pass, one byte at a time
    (a state machine, so the recursion is structural and every index is checked):
    \a \b \f \n \r \t \v \\ \" \'  \<newline> (LF, CR, CRLF, LFCR → one LF)  \z (skips white space)
    \xXX  \ddd (1–3 digits, ≤ 255)  \u{XXX} (value < 2^31, UTF-8 in up to 6 bytes).
    `none` = not a well-formed literal (bad escape, raw newline, unterminated, trailing bytes).
  * `decodeLong lit`: `[`=ⁿ`[` … `]`=ⁿ`]`, closed by the FIRST closing bracket of the same
    level; the first newline of the contents is dropped and every newline sequence becomes LF.
    The empty contents `[[]]` is the empty string.

  golua does this differently (scanner states, then `NormalizeNewLines` and a regexp
  replacement in ast/string.go; `NewLongString` indexes `contents[0]`): it is compared with
  these functions by correspondence (level A).  Core Lean only.
-/
import GoluaVerif.Spec.Numeral
namespace GoluaVerif.Model.Literal
open GoluaVerif.Spec.Numeral (Bytes isSpace isDigit isXDigit hexVal)

/-! ### newline handling shared by both literal kinds -/

/-- every newline sequence (LF, CR, CRLF, LFCR) becomes one LF -/
def normaliseNL : Bytes → Bytes
  | 10 :: 13 :: r => 10 :: normaliseNL r
  | 13 :: 10 :: r => 10 :: normaliseNL r
  | 10 :: r => 10 :: normaliseNL r
  | 13 :: r => 10 :: normaliseNL r
  | c :: r => c :: normaliseNL r
  | [] => []

/-- a long string drops a newline sequence that immediately follows the opening bracket -/
def dropFirstNL : Bytes → Bytes
  | 10 :: 13 :: r => r
  | 13 :: 10 :: r => r
  | 10 :: r => r
  | 13 :: r => r
  | s => s

/-! ### long brackets -/

/-- `]`=ⁿ`]` -/
def closer (lvl : Nat) : Bytes := 93 :: (List.replicate lvl 61 ++ [93])

def closerAt (lvl : Nat) (t : Bytes) : Bool := (closer lvl).isPrefixOf t

/-- contents up to the first closer of level `lvl`, and what follows that closer -/
def findCloser (lvl : Nat) : Bytes → Option (Bytes × Bytes)
  | [] => none
  | c :: r =>
    if closerAt lvl (c :: r) then some ([], (c :: r).drop (lvl + 2))
    else match findCloser lvl r with
      | some (content, rest) => some (c :: content, rest)
      | none => none

/-- after the first `[`: count `=`, expect `[`; returns level and the rest -/
def openLevel : Bytes → Option (Nat × Bytes)
  | 61 :: r => match openLevel r with
    | some (n, body) => some (n + 1, body)
    | none => none
  | 91 :: r => some (0, r)
  | _ => none

def decodeLong (lit : Bytes) : Option Bytes :=
  match lit with
  | 91 :: r =>
    match openLevel r with
    | some (lvl, body) =>
      match findCloser lvl body with
      | some (content, []) => some (normaliseNL (dropFirstNL content))
      | _ => none
    | none => none
  | _ => none

/-! ### short strings -/

/-- `luaO_utf8esc`: UTF-8 (extended to 6 bytes) of a value below 2^31 -/
def utf8enc (x : Nat) : Bytes :=
  let b (n : Nat) : UInt8 := UInt8.ofNat n
  let cont (sh : Nat) : UInt8 := b (0x80 + (x >>> sh) % 64)
  if x < 0x80 then [b x]
  else if x < 0x800 then [b (0xC0 + x >>> 6), cont 0]
  else if x < 0x10000 then [b (0xE0 + x >>> 12), cont 6, cont 0]
  else if x < 0x200000 then [b (0xF0 + x >>> 18), cont 12, cont 6, cont 0]
  else if x < 0x4000000 then [b (0xF8 + x >>> 24), cont 18, cont 12, cont 6, cont 0]
  else [b (0xFC + x >>> 30), cont 24, cont 18, cont 12, cont 6, cont 0]

inductive St where
  | norm
  | esc                      -- after `\`
  | hex1 | hex2 (v : Nat)    -- `\x`, `\xH`
  | dec (c v : Nat)          -- `\d` … : c digits read, value v
  | uopen                    -- `\u`
  | udig (n v : Nat)         -- `\u{` + n hex digits, value v
  | zskip                    -- `\z` + white space
  | nlpair (c : UInt8)       -- `\` + newline byte c: a following *different* newline byte belongs to it
  | done | fail
  deriving DecidableEq, Repr

abbrev MS := St × Bytes

/-- a byte in the normal state -/
def stepNorm (q : UInt8) (out : Bytes) (c : UInt8) : MS :=
  if c == q then (.done, out)
  else if c == 92 then (.esc, out)
  else if c == 10 || c == 13 then (.fail, out)
  else (.norm, out ++ [c])

def step (q : UInt8) : MS → UInt8 → MS
  | (.norm, out), c => stepNorm q out c
  | (.esc, out), c =>
    if c == 97 then (.norm, out ++ [7]) else if c == 98 then (.norm, out ++ [8])
    else if c == 102 then (.norm, out ++ [12]) else if c == 110 then (.norm, out ++ [10])
    else if c == 114 then (.norm, out ++ [13]) else if c == 116 then (.norm, out ++ [9])
    else if c == 118 then (.norm, out ++ [11])
    else if c == 92 || c == 34 || c == 39 then (.norm, out ++ [c])
    else if c == 10 || c == 13 then (.nlpair c, out ++ [10])
    else if c == 120 then (.hex1, out)
    else if c == 122 then (.zskip, out)
    else if c == 117 then (.uopen, out)
    else if isDigit c then (.dec 1 (hexVal c), out)
    else (.fail, out)
  | (.hex1, out), c => if isXDigit c then (.hex2 (hexVal c), out) else (.fail, out)
  | (.hex2 v, out), c => if isXDigit c then (.norm, out ++ [UInt8.ofNat (16 * v + hexVal c)]) else (.fail, out)
  | (.dec n v, out), c =>
    if isDigit c then
      let v' := 10 * v + hexVal c
      if n + 1 < 3 then (.dec (n + 1) v', out)
      else if v' ≤ 255 then (.norm, out ++ [UInt8.ofNat v']) else (.fail, out)
    else stepNorm q (out ++ [UInt8.ofNat v]) c
  | (.uopen, out), c => if c == 123 then (.udig 0 0, out) else (.fail, out)
  | (.udig n v, out), c =>
    if isXDigit c then
      let v' := 16 * v + hexVal c
      if v' < 2 ^ 31 then (.udig (n + 1) v', out) else (.fail, out)
    else if c == 125 && 0 < n then (.norm, out ++ utf8enc v)
    else (.fail, out)
  | (.zskip, out), c => if isSpace c then (.zskip, out) else stepNorm q out c
  | (.nlpair d, out), c =>
    if (c == 10 || c == 13) && c != d then (.norm, out) else stepNorm q out c
  | (.done, out), _ => (.fail, out)
  | (.fail, out), _ => (.fail, out)

def run (q : UInt8) (s : Bytes) (m : MS) : MS := s.foldl (step q) m

def decodeShort (lit : Bytes) : Option Bytes :=
  match lit with
  | q :: body =>
    if q == 34 || q == 39 then
      match run q body (.norm, []) with
      | (.done, out) => some out
      | _ => none
    else none
  | [] => none

end GoluaVerif.Model.Literal
