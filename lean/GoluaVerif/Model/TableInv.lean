/-
  Model.TableInv — the representation invariant of `Model.Table.Mixed` and the
  abstraction function to `Spec.Map`.  `Inv` is decidable: the oracle evaluates it on
  the dump of the real table after every operation, and the theorems in Props/C03
  (inv_init, inv_step, refines_map, len_is_border, …) are about this very definition.

  Core Lean only.
-/
import GoluaVerif.Model.Table
namespace GoluaVerif.Model.Table
open GoluaVerif.Spec (Key Val Map)

/-! ## array part -/

/-- `values[j]` is a non-nil value -/
def live (vs : List (Option Val)) (j : Nat) : Bool :=
  match vs[j]? with
  | some (some _) => true
  | _ => false

/-- `len` is 0 or the index of a non-nil element, and nothing non-nil lies above it -/
structure ArrInv (a : Arr) : Prop where
  len_le : a.len ≤ a.values.length
  len_live : a.len = 0 ∨ live a.values (a.len - 1) = true
  above_nil : ∀ j, j < a.values.length → a.len ≤ j → live a.values j = false

instance (a : Arr) : Decidable (ArrInv a) :=
  decidable_of_iff (a.len ≤ a.values.length ∧ (a.len = 0 ∨ live a.values (a.len - 1) = true) ∧
      ∀ j, j < a.values.length → a.len ≤ j → live a.values j = false)
    ⟨fun ⟨a, b, c⟩ => ⟨a, b, c⟩, fun ⟨a, b, c⟩ => ⟨a, b, c⟩⟩

/-! ## hash part -/

/-- the chain that starts in slot `i`, following `next` while `hasNext`; `none` if it does not end
    within `fuel` slots (or leaves the table) -/
def chain (slots : List Slot) : Nat → Nat → Option (List Nat)
  | 0, _ => none
  | fuel + 1, i =>
    match slots[i]? with
    | none => none
    | some s => if s.hasNext then (chain slots fuel s.next).map (i :: ·) else some [i]

/-- number of non-empty slots -/
def cnt (slots : List Slot) : Nat := slots.countP (·.key.isSome)

section
variable (hash : Key → Nat)

/-- the primary slot of a key -/
def prim (mask : Nat) (k : Key) : Nat := hash k &&& mask

/-- slot `i` (holding key `k`) lies on the chain that starts in the primary slot of `k`,
    that chain ends, and its head is not flagged chained  (I1 + I3) -/
def onChain (slots : List Slot) (mask : Nat) (i : Nat) (k : Key) : Bool :=
  match chain slots (cnt slots) (prim hash mask k), slots[prim hash mask k]? with
  | some l, some hd => l.contains i && !hd.chained
  | _, _ => false

/-- the chain discipline of the hashed mode (`mask ≥ smallHashTableSize`) -/
structure ChainInv (slots : List Slot) (mask : Nat) : Prop where
  /-- an unchained item sits in its primary slot (I3) -/
  unchained_primary : ∀ i (h : i < slots.length) k, slots[i].key = some k →
    slots[i].chained = false → prim hash mask k = i
  /-- every item is on the chain of its primary slot (I1, I3) -/
  on_chain : ∀ i (h : i < slots.length) k, slots[i].key = some k → onChain hash slots mask i k = true
  /-- `next` leads to a chained item with the same primary slot (I2) -/
  next_ok : ∀ j (h : j < slots.length), slots[j].hasNext = true →
    ∃ (h' : slots[j].next < slots.length), slots[slots[j].next].chained = true ∧
      ∃ k k', slots[j].key = some k ∧ slots[slots[j].next].key = some k' ∧
        prim hash mask k' = prim hash mask k

def nextOkB (slots : List Slot) (mask : Nat) (j : Nat) (h : j < slots.length) : Bool :=
  if h' : slots[j].next < slots.length then
    slots[slots[j].next].chained &&
      match slots[j].key, slots[slots[j].next].key with
      | some k, some k' => prim hash mask k' == prim hash mask k
      | _, _ => false
  else false

/-- `ChainInv` in a form instance resolution can decide -/
def ChainInvD (slots : List Slot) (mask : Nat) : Prop :=
  (∀ i (h : i < slots.length), ∀ k ∈ slots[i].key, slots[i].chained = false → prim hash mask k = i) ∧
  (∀ i (h : i < slots.length), ∀ k ∈ slots[i].key, onChain hash slots mask i k = true) ∧
  (∀ j (h : j < slots.length), slots[j].hasNext = true → nextOkB hash slots mask j h = true)

instance (slots : List Slot) (mask : Nat) : Decidable (ChainInvD hash slots mask) := by
  unfold ChainInvD; exact inferInstance

theorem chainInvD_iff (slots : List Slot) (mask : Nat) :
    ChainInvD hash slots mask ↔ ChainInv hash slots mask := by
  constructor
  · rintro ⟨a, b, c⟩
    refine ⟨fun i h k hk => a i h k (by simp [hk]), fun i h k hk => b i h k (by simp [hk]), ?_⟩
    intro j h hn
    have := c j h hn
    unfold nextOkB at this
    split at this
    · rename_i h'
      refine ⟨h', ?_⟩
      simp only [Bool.and_eq_true] at this
      refine ⟨this.1, ?_⟩
      have h2 := this.2
      split at h2
      · rename_i k k' e1 e2
        exact ⟨k, k', e1, e2, by simpa using h2⟩
      · simp at h2
    · simp at this
  · rintro ⟨a, b, c⟩
    refine ⟨fun i h k hk => a i h k (by simpa using hk), fun i h k hk => b i h k (by simpa using hk), ?_⟩
    intro j h hn
    obtain ⟨h', hc, k, k', e1, e2, e3⟩ := c j h hn
    unfold nextOkB
    simp [h', hc, e1, e2, e3]

instance (slots : List Slot) (mask : Nat) : Decidable (ChainInv hash slots mask) :=
  decidable_of_iff _ (chainInvD_iff hash slots mask)

/-- `nextFree` is the highest empty slot, or `noNextFree` when there is none -/
def NextFreeOk (slots : List Slot) : Option Nat → Prop
  | none => ∀ j (h : j < slots.length), slots[j].key ≠ none
  | some f => ∃ (h : f < slots.length), slots[f].key = none ∧
      ∀ j (h : j < slots.length), f < j → slots[j].key ≠ none

instance (slots : List Slot) (nf : Option Nat) : Decidable (NextFreeOk slots nf) := by
  cases nf <;> unfold NextFreeOk <;> exact inferInstance

/-- the invariant of the hash part; `asize` is the size of the array part -/
structure HashInv (t : HashTable) (asize : Nat) : Prop where
  size : t.slots.length = 2 ^ t.base
  /-- `nextFree` is the highest empty slot, or `noNextFree` when there is none -/
  next_free : NextFreeOk t.slots t.nextFree
  /-- empty slots are zero -/
  empty_zero : ∀ j (h : j < t.slots.length), t.slots[j].key = none → t.slots[j] = Slot.zero
  /-- no key occurs twice -/
  nodup : ∀ i (hi : i < t.slots.length) j (hj : j < t.slots.length),
    t.slots[i].key ≠ none → t.slots[i].key = t.slots[j].key → i = j
  /-- integer keys in the array range live only in the array -/
  disjoint : ∀ j (h : j < t.slots.length) (z : Int), t.slots[j].key = some (.int z) →
    ¬ (1 ≤ z ∧ z ≤ (asize : Int))
  /-- keys are stored in normal form (no float with an integer value) -/
  normal : ∀ j (h : j < t.slots.length) k, t.slots[j].key = some k → k.norm = k
  /-- chains, in hashed mode -/
  chains : smallHashTableSize ≤ t.mask → ChainInv hash t.slots t.mask

def disjointB (k : Option Key) (asize : Nat) : Bool :=
  match k with
  | some (.int z) => !(decide (1 ≤ z) && decide (z ≤ (asize : Int)))
  | _ => true

def HashInvD (t : HashTable) (asize : Nat) : Prop :=
  t.slots.length = 2 ^ t.base ∧
  NextFreeOk t.slots t.nextFree ∧
  (∀ j (h : j < t.slots.length), t.slots[j].key = none → t.slots[j] = Slot.zero) ∧
  (∀ i (hi : i < t.slots.length) j (hj : j < t.slots.length),
     t.slots[i].key ≠ none → t.slots[i].key = t.slots[j].key → i = j) ∧
  (∀ j (h : j < t.slots.length), disjointB t.slots[j].key asize = true) ∧
  (∀ j (h : j < t.slots.length), ∀ k ∈ t.slots[j].key, k.norm = k) ∧
  (smallHashTableSize ≤ t.mask → ChainInv hash t.slots t.mask)

instance (t : HashTable) (asize : Nat) : Decidable (HashInvD hash t asize) := by
  unfold HashInvD; exact inferInstance

theorem disjointB_iff (k : Option Key) (asize : Nat) :
    disjointB k asize = true ↔ ∀ z : Int, k = some (.int z) → ¬ (1 ≤ z ∧ z ≤ (asize : Int)) := by
  unfold disjointB
  split
  · rename_i z
    simp only [Bool.not_eq_eq_eq_not, Bool.not_true, Bool.and_eq_false_imp, decide_eq_true_eq,
      decide_eq_false_iff_not, Option.some.injEq, Key.int.injEq, forall_eq', not_and]
  · rename_i h
    simp only [true_iff]
    intro z hz
    exact absurd hz (h z)

theorem hashInvD_iff (t : HashTable) (asize : Nat) : HashInvD hash t asize ↔ HashInv hash t asize := by
  constructor
  · rintro ⟨a, b, c, d, e, g, f⟩
    exact ⟨a, b, c, d, fun j h z hz => (disjointB_iff _ _).1 (e j h) z hz,
      fun j h k hk => g j h k (by simp [hk]), f⟩
  · rintro ⟨a, b, c, d, e, g, f⟩
    exact ⟨a, b, c, d, fun j h => (disjointB_iff _ _).2 (fun z hz => e j h z hz),
      fun j h k hk => g j h k (by simpa using hk), f⟩

instance (t : HashTable) (asize : Nat) : Decidable (HashInv hash t asize) :=
  decidable_of_iff _ (hashInvD_iff hash t asize)

/-! ## the whole table -/

/-- the representation invariant -/
structure Inv (t : Mixed) : Prop where
  arr : ∀ a, t.arr = some a → ArrInv a
  hash : ∀ h, t.hash = some h → HashInv hash h (arrSize t.arr)
  /-- the size of the array part is a power of two (it only ever comes from `calculateArraySize`) -/
  pow2 : ∀ a, t.arr = some a → a.values.length = 2 ^ Nat.log2 a.values.length

def InvD (t : Mixed) : Prop :=
  (∀ a ∈ t.arr, ArrInv a) ∧ (∀ h ∈ t.hash, HashInv hash h (arrSize t.arr)) ∧
  (∀ a ∈ t.arr, a.values.length = 2 ^ Nat.log2 a.values.length)

instance (t : Mixed) : Decidable (InvD hash t) := by
  unfold InvD; exact inferInstance

theorem invD_iff (t : Mixed) : InvD hash t ↔ Inv hash t :=
  ⟨fun ⟨a, b, c⟩ => ⟨fun x hx => a x (by simp [hx]), fun x hx => b x (by simp [hx]), fun x hx => c x (by simp [hx])⟩,
   fun ⟨a, b, c⟩ => ⟨fun x hx => a x (by simpa using hx), fun x hx => b x (by simpa using hx),
     fun x hx => c x (by simpa using hx)⟩⟩

instance (t : Mixed) : Decidable (Inv hash t) := decidable_of_iff _ (invD_iff hash t)

end

/-! ## abstraction -/

/-- the value the hash part holds for `k`: the value of the slot whose key is `k` -/
def hashLookup (slots : List Slot) (k : Key) : Option Val :=
  match slots.find? (·.key = some k) with
  | some s => s.val
  | none => none

/-- the abstract map a table denotes (a function of normalised keys) -/
def abs (t : Mixed) : Map := fun k =>
  let inHash := match t.hash with
    | none => none
    | some h => hashLookup h.slots k
  match k with
  | .int z =>
    if 1 ≤ z ∧ z ≤ (arrSize t.arr : Int) then
      match t.arr with
      | none => none
      | some a => (a.values[(z.toNat - 1)]?).join
    else inHash
  | _ => inHash

end GoluaVerif.Model.Table
