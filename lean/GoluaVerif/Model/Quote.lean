/-
  Model.Quote — what golua's `string.format("%q", v)` produces today
  (`quote()` in lib/stringlib/format.go): `strconv.Quote` for strings,
  `strconv.Itoa` for integers, `1e9999` / `-1e9999` / `(0/0)` and
  `strconv.FormatFloat(x, 'g', -1, 64)` for floats.

  `strconv.Quote` is mirrored from the Go 1.23 source (`appendQuotedWith`,
  `appendEscapedRune`, `utf8.DecodeRuneInString`).  `unicode.IsPrint` for
  code points ≥ 0x80 is a parameter (a table of the Go library); below 0x80
  it is `0x20..0x7e`.  `FormatFloat` is a parameter as well.
  Core Lean only.
-/
import GoluaVerif.Spec.Quote
namespace GoluaVerif.Model.Quote
open GoluaVerif GoluaVerif.Spec.Quote

/-- `utf8.DecodeRuneInString`: (rune, width); invalid input gives (0xFFFD, 1) -/
def decodeRune (s : Bytes) : Nat × Nat :=
  let cont (b : UInt8) : Bool := 0x80 ≤ b.toNat && b.toNat ≤ 0xBF
  match s with
  | [] => (0xFFFD, 0)
  | b0 :: t =>
    let n0 := b0.toNat
    if n0 < 0x80 then (n0, 1)
    else if 0xC2 ≤ n0 ∧ n0 ≤ 0xDF then
      match t with
      | b1 :: _ => if cont b1 then ((n0 - 0xC0) * 64 + (b1.toNat - 0x80), 2) else (0xFFFD, 1)
      | _ => (0xFFFD, 1)
    else if 0xE0 ≤ n0 ∧ n0 ≤ 0xEF then
      match t with
      | b1 :: b2 :: _ =>
        let lo := if n0 = 0xE0 then 0xA0 else 0x80
        let hi := if n0 = 0xED then 0x9F else 0xBF
        if lo ≤ b1.toNat ∧ b1.toNat ≤ hi ∧ cont b2 then
          ((n0 - 0xE0) * 4096 + (b1.toNat - 0x80) * 64 + (b2.toNat - 0x80), 3)
        else (0xFFFD, 1)
      | _ => (0xFFFD, 1)
    else if 0xF0 ≤ n0 ∧ n0 ≤ 0xF4 then
      match t with
      | b1 :: b2 :: b3 :: _ =>
        let lo := if n0 = 0xF0 then 0x90 else 0x80
        let hi := if n0 = 0xF4 then 0x8F else 0xBF
        if lo ≤ b1.toNat ∧ b1.toNat ≤ hi ∧ cont b2 ∧ cont b3 then
          ((n0 - 0xF0) * 262144 + (b1.toNat - 0x80) * 4096 + (b2.toNat - 0x80) * 64 + (b3.toNat - 0x80), 4)
        else (0xFFFD, 1)
      | _ => (0xFFFD, 1)
    else (0xFFFD, 1)

def lowerhex (n : Nat) : UInt8 := hexDigit n

/-- `appendEscapedRune` for a rune that `IsPrint` rejected (or `"` / `\`) -/
def escapeRune (r : Nat) : Bytes :=
  if r = 34 ∨ r = 92 then [92, UInt8.ofNat r]
  else if r = 7 then [92, 97] else if r = 8 then [92, 98] else if r = 12 then [92, 102]
  else if r = 10 then [92, 110] else if r = 13 then [92, 114] else if r = 9 then [92, 116]
  else if r = 11 then [92, 118]
  else if r < 32 ∨ r = 127 then [92, 120, lowerhex (r / 16), lowerhex r]
  else if r < 0x10000 then [92, 117] ++ toHexF 4 r
  else [92, 85] ++ toHexF 8 r

/-- is the rune printed as itself?  ASCII: 0x20..0x7e except `"` and `\`; above: the parameter -/
def printsRaw (isPrint : Nat → Bool) (r : Nat) : Bool :=
  if r = 34 ∨ r = 92 then false
  else if r < 0x80 then decide (32 ≤ r ∧ r ≤ 126)
  else isPrint r

/-- body of `strconv.Quote`; `fuel` ≥ length of the input -/
def quoteGoBody (isPrint : Nat → Bool) : Nat → Bytes → Bytes
  | 0, _ => []
  | _, [] => []
  | fuel + 1, b0 :: t =>
    let (r, w) := decodeRune (b0 :: t)
    if w = 1 ∧ r = 0xFFFD then
      [92, 120, lowerhex (b0.toNat / 16), lowerhex b0.toNat] ++ quoteGoBody isPrint fuel t
    else if printsRaw isPrint r then
      (b0 :: t).take w ++ quoteGoBody isPrint fuel ((b0 :: t).drop w)
    else escapeRune r ++ quoteGoBody isPrint fuel ((b0 :: t).drop w)

/-- `strconv.Quote(s)` -/
def quoteGo (isPrint : Nat → Bool) (s : Bytes) : Bytes :=
  34 :: (quoteGoBody isPrint s.length s ++ [34])

/-- `%q` of an integer in golua: `strconv.Itoa` -/
def quoteInt (v : I64) : Bytes := showInt v

/-- `%q` of a float in golua; `fmtG` stands for `strconv.FormatFloat(x, 'g', -1, 64)` -/
def quoteFloat (fmtG : F64 → Bytes) (f : F64) : Bytes :=
  match f with
  | .nan => [40, 48, 47, 48, 41]
  | .inf false => [49, 101, 57, 57, 57, 57]
  | .inf true => [45, 49, 101, 57, 57, 57, 57]
  | f => fmtG f

end GoluaVerif.Model.Quote
