/-
  Model.Quote — what golua's `string.format("%q", v)` produces (`quote()` and
  `quoteString()` in lib/stringlib/format.go):

  * strings, byte by byte: `"` and `\` backslash-escaped; the control characters
    that have a name as `\a \b \f \n \r \t \v`; the other control characters
    (and DEL) as decimal escapes, with three digits when a digit follows; every
    other byte (any byte ≥ 0x80 included) copied;
  * integers in decimal, `0x8000000000000000` for mininteger;
  * floats: `1e9999`, `-1e9999`, `(0/0)`, otherwise the shortest decimal text
    `strconv.FormatFloat(x, 'g', -1, 64)` (a parameter here), with `.0` appended
    when that text has neither `.` nor `e`.
  Core Lean only.
-/
import GoluaVerif.Spec.Quote
namespace GoluaVerif.Model.Quote
open GoluaVerif GoluaVerif.Spec.Quote

/-- the name of a control character that has one -/
def escName (c : UInt8) : Option UInt8 :=
  if c = 7 then some 97 else if c = 8 then some 98 else if c = 12 then some 102 else if c = 10 then some 110
  else if c = 13 then some 114 else if c = 9 then some 116 else if c = 11 then some 118 else none

/-- body of `quoteString` -/
def quoteStrBody : Bytes → Bytes
  | [] => []
  | c :: rest =>
    (if c = 34 ∨ c = 92 then [92, c]
     else match escName c with
       | some e => [92, e]
       | none =>
         if 32 ≤ c.toNat ∧ c.toNat ≠ 127 then [c]
         else match rest with
           | d :: _ => if isDigit d then 92 :: dec3 c else 92 :: dec c
           | [] => 92 :: dec c) ++ quoteStrBody rest

/-- `quoteString(s)` -/
def quoteStr (s : Bytes) : Bytes := 34 :: (quoteStrBody s ++ [34])

/-- `%q` of an integer -/
def quoteInt (v : I64) : Bytes :=
  if v = I64.minInt then [48, 120] ++ toHexF 16 (2 ^ 63) else showInt v

/-- `.0` is appended to a decimal text that looks like an integer -/
def floatMark (t : Bytes) : Bytes := if t.any (fun c => c = 46 || c = 101) then t else t ++ [46, 48]

/-- `%q` of a float; `fmtG` stands for `strconv.FormatFloat(x, 'g', -1, 64)` -/
def quoteFloat (fmtG : F64 → Bytes) (f : F64) : Bytes :=
  match f with
  | .nan => [40, 48, 47, 48, 41]
  | .inf false => [49, 101, 57, 57, 57, 57]
  | .inf true => [45, 49, 101, 57, 57, 57, 57]
  | f => floatMark (fmtG f)

end GoluaVerif.Model.Quote
