/-
  Model.TbcCompile — the close-stack height bookkeeping of /repo/ir/builder.go and
  /repo/astcomp/compstat.go, on the mini-language of Spec.Tbc.

  Go side                                         here
  -------                                         ----
  lexicalScope.height                             Scope.height
  PushContext (pushNew copies top().height)       pushScope
  compileBlockNoPop: every `local` statement      `tbc v`: push a `loc` scope, then
    opens a scope; PushCloseAction = addHeight(1)    height + 1 and `push v`
    + clpush
  PopContext → emitTruncate(parent): `cltrunc h`  popScope: `trunc h` iff parent.height < top.height
    iff parent.height < top.height
  the closure returned by compileBlockNoPop       popLocals (pops the `loc` scopes of the block)
  ProcessBlockStat: PushContext; block; PopContext  `block p`
  ProcessWhileStat/ForStat: PushContext; declare   `loop n p`: a `loop` scope around the body block
    break label; …; PopContext
  EmitJump(label): walk outwards to the scope      `brk`: to the nearest `loop` scope;
    holding the label, emitTruncate(that scope)     `gotoOut k`: to the scope under the (k+1)-th
                                                    enclosing `block` scope (the label stands right
                                                    after that block, so it was declared there)
  return: Call{Tail:true}; the VM cleans up to     `ret`
    closeStackBase
  compileFunctionBody: fresh CodeBuilder context,  `fn p` = compile p in [root 0], then `ret`, then the
    body.Return forced, then the pops (dead code)    pops
  getTailCall: `return f()` is a tail call unless   `retCall p`: `tailcall` iff the top height is 0,
    HasPendingCloseActions() (getHeight() > 0)        else `call` followed by `ret`

  The target code keeps the control structure (blocks, loops, structured exits) but all closing
  is explicit: `push`, `trunc h`, `ret`; a structured exit (`brk`, `jump k`) closes nothing itself.
-/
import GoluaVerif.Spec.Tbc
namespace GoluaVerif.Model.Tbc
open GoluaVerif.Spec.Tbc

inductive Code where
  | skip
  | seq (a b : Code)
  | push (v : TV)            -- clpush
  | trunc (h : Nat)          -- cltrunc h
  | mark (n : Nat)
  | block (c : Code)         -- structured control only
  | loop (n : Nat) (c : Code)
  | brk                      -- jump to the break label of the nearest loop
  | jump (k : Nat)           -- jump to the label after the (k+1)-th enclosing block
  | ret                      -- return (Call with Tail=true through the caller register)
  | err (e : Nat)
  | pcall (c : Code)
  | call (c : Code)
  | tailcall (c : Code)      -- Call with Tail=true through the continuation of the called function
  | yield
  deriving DecidableEq, Repr, Inhabited

inductive Kind where
  | root | block | loc | loop
  deriving DecidableEq, Repr, Inhabited

structure Scope where
  kind : Kind
  height : Nat
  deriving DecidableEq, Repr, Inhabited

/-- the lexical context, innermost scope first -/
abbrev Ctx := List Scope

def topHeight : Ctx → Nat
  | [] => 0
  | s :: _ => s.height

/-- lexicalContext.pushNew -/
def pushScope (k : Kind) (ctx : Ctx) : Ctx := ⟨k, topHeight ctx⟩ :: ctx

/-- CodeBuilder.emitTruncate(m) with the current top height `cur` -/
def emitTruncate (target cur : Nat) : Code :=
  if target < cur then .trunc target else .skip

/-- CodeBuilder.PopContext: the code it emits and the new context -/
def popScope : Ctx → Code × Ctx
  | [] => (.skip, [])
  | s :: rest => (emitTruncate (topHeight rest) s.height, rest)

/-- the closure returned by compileBlockNoPop: one PopContext per `local` of the block -/
def popLocals : Ctx → Code × Ctx
  | ⟨.loc, h⟩ :: rest =>
    let r := popLocals rest
    (.seq (emitTruncate (topHeight rest) h) r.1, r.2)
  | ctx => (.skip, ctx)

/-- EmitJump for `break`: the scope holding the break label is the nearest `loop` scope -/
def breakTarget : Ctx → Option Nat
  | [] => none
  | ⟨.loop, h⟩ :: _ => some h
  | _ :: rest => breakTarget rest

/-- EmitJump for `goto L` with ::L:: right after the (k+1)-th enclosing block: L was declared in the
    scope that was on top when that block statement was compiled, i.e. the scope under the (k+1)-th
    `block` scope (skipping the `loop` scope if that block is a loop body) -/
def gotoTarget : Ctx → Nat → Option Nat
  | [], _ => none
  | ⟨.block, _⟩ :: rest, 0 =>
    match rest with
    | ⟨.loop, _⟩ :: rest' => some (topHeight rest')
    | _ => some (topHeight rest)
  | ⟨.block, _⟩ :: rest, k + 1 => gotoTarget rest k
  | ⟨.root, _⟩ :: _, _ => none
  | _ :: rest, k => gotoTarget rest k

/-- compileFunctionBody: the body was compiled in a fresh context `[root 0]` giving `cp` and the final
    context `ctx1`; a return is forced at the end, then come the (dead) pops of the body's locals -/
def fnCode (cp : Code) (ctx1 : Ctx) : Code := .seq cp (.seq .ret (popLocals ctx1).1)

/-- compile a statement in context `ctx`; returns the code and the context after it
    (`none` = compile-time error: no visible label) -/
def compile : Prog → Ctx → Option (Code × Ctx)
  | .skip, ctx => some (.skip, ctx)
  | .seq a b, ctx =>
    match compile a ctx with
    | none => none
    | some (ca, ctx1) =>
      match compile b ctx1 with
      | none => none
      | some (cb, ctx2) => some (.seq ca cb, ctx2)
  | .tbc v, ctx =>
    -- PushContext for the local statement, PushCloseAction: addHeight(1), clpush
    some (.push v, ⟨.loc, topHeight ctx + 1⟩ :: ctx)
  | .mark n, ctx => some (.mark n, ctx)
  | .block p, ctx =>
    match compile p (pushScope .block ctx) with
    | none => none
    | some (cp, ctx1) =>
      let pl := popLocals ctx1
      let pb := popScope pl.2
      some (.block (.seq cp (.seq pl.1 pb.1)), ctx)
  | .loop n p, ctx =>
    match compile p (pushScope .block (pushScope .loop ctx)) with
    | none => none
    | some (cp, ctx1) =>
      let pl := popLocals ctx1
      let pb := popScope pl.2
      let po := popScope pb.2
      some (.seq (.loop n (.seq cp (.seq pl.1 pb.1))) po.1, ctx)
  | .brk, ctx =>
    match breakTarget ctx with
    | none => none
    | some h => some (.seq (emitTruncate h (topHeight ctx)) .brk, ctx)
  | .gotoOut k, ctx =>
    match gotoTarget ctx k with
    | none => none
    | some h => some (.seq (emitTruncate h (topHeight ctx)) (.jump k), ctx)
  | .ret, ctx => some (.ret, ctx)
  | .err e, ctx => some (.err e, ctx)
  | .retCall p, ctx =>
    -- astcomp getTailCall: `return f()` is a tail call unless HasPendingCloseActions (getHeight() > 0);
    -- otherwise it is compiled as an ordinary call followed by a return
    match compile p [⟨.root, 0⟩] with
    | none => none
    | some (cp, ctx1) =>
      some (if 0 < topHeight ctx then .seq (.call (fnCode cp ctx1)) .ret else .tailcall (fnCode cp ctx1), ctx)
  | .yield, ctx => some (.yield, ctx)
  | .pcall p, ctx =>
    match compile p [⟨.root, 0⟩] with
    | none => none
    | some (cp, ctx1) => some (.pcall (fnCode cp ctx1), ctx)
  | .call p, ctx =>
    match compile p [⟨.root, 0⟩] with
    | none => none
    | some (cp, ctx1) => some (.call (fnCode cp ctx1), ctx)

/-- the chunk `p` run under pcall -/
def compileChunk (p : Prog) : Option Code :=
  match compile p [⟨.root, 0⟩] with
  | none => none
  | some (cp, ctx1) => some (fnCode cp ctx1)

end GoluaVerif.Model.Tbc
