/-
  Model.RecoverExpect — hand classification of every `recover()` site of the runtime and the
  libraries (the regenerated list is `Generated.RecoverSites.sites`, written by
  extract/recoversites on every run of ./check C05 / C06).

  A quota kill is the Go panic ContextTerminationError.  It may be recovered only by
  Thread.CallContext (which ends the context being terminated and, if the limit was inherited,
  terminates the parent) and passed between goroutines by Thread.Start; every other recover site
  must let it through.  An entry is identified by file, enclosing function and the hash of the
  source of the function (literal) containing the `recover()`: editing such a function, or adding a
  new recover site, leaves `allClassified` false until the site is re-read and classified here.
-/
import GoluaVerif.Generated.RecoverSites
namespace GoluaVerif.Model.RecoverExpect
open GoluaVerif.Generated.RecoverSites

inductive Verdict where
  | designated      -- the place a termination is meant to be recovered / forwarded
  | passes          -- recovers only its own sentinel or error type and re-panics everything else
  | blind           -- no RequireCPU / RequireMem can run below it: it can never see a termination
  | atClose         -- Runtime.Close: the runtime is being torn down, the termination is reported to the host
  | swallowsHostOnly -- converts every panic into a Lua error; only reachable through Go values the HOST hands to Lua
  deriving DecidableEq, Repr

structure Expect where
  file : String
  fn : String
  hash : String
  verdict : Verdict
  why : String

def expected : List Expect := [
  ⟨"runtime/thread.go", "Thread.CallContext", "dc5542aeef33", .designated,
   "recovers ContextTerminationError only (`panic(r)` otherwise), pops, truncates the close stack, propagates"⟩,
  ⟨"runtime/thread.go", "Thread.Start", "fe996844c4f0", .designated,
   "coroutine goroutine: ContextTerminationError / threadClose are handed to Thread.end, which sends them to the resumer; anything else re-panics"⟩,
  ⟨"runtime/thread.go", "Thread.closePendingAtEnd", "a94a8f24e885", .designated,
   "close handlers of an ending coroutine run outside Thread.Start's recover: a ContextTerminationError is handed to Thread.end's caller hand-off exactly as Start does; anything else re-panics"⟩,
  ⟨"lib/tablelib/tablelib.go", "sortf", "e104ddcb7ea6", .passes,
   "recovers its own sortError, `panic(r)` for everything else"⟩,
  ⟨"lib/stringlib/pattern/pattern.go", "Pattern.Match", "576a33bc837e", .passes,
   "recovers the budgetConsumed sentinel, re-panics everything else"⟩,
  ⟨"lib/stringlib/pattern/pattern.go", "Pattern.MatchFromStart", "576a33bc837e", .passes,
   "recovers the budgetConsumed sentinel, re-panics everything else"⟩,
  ⟨"runtime/marshal.go", "MarshalConst", "6a6a33371055", .blind,
   "marshalling works on its own budget (budgetConsumed); no Require* is called below it"⟩,
  ⟨"runtime/marshal.go", "UnmarshalConst", "9a829f8f6d6d", .blind,
   "unmarshalling works on its own budget; no Require* is called below it"⟩,
  ⟨"runtime/runtime.go", "Runtime.Close", "637a97393b79", .atClose,
   "stores a ContextTerminationError in *err, re-panics everything else"⟩,
  ⟨"runtime/runtime.go", "Runtime.Close", "99596be012f9", .atClose,
   "stores a ContextTerminationError in *err, re-panics everything else"⟩,
  ⟨"lib/golib/govalue.go", "goCall", "edc7b6c03d7f", .swallowsHostOnly,
   "reflect call of a host Go function: `err = fmt.Errorf(\"panic in go call: %v\", r)` for ANY panic; a host function that calls back into Lua would make a kill catchable — no such value exists unless the host provides one"⟩
]

def sameSite (e : Expect) (s : Site) : Bool := e.file == s.file && e.fn == s.fn && e.hash == s.hash

def classified (s : Site) : Bool := expected.any (fun e => sameSite e s)

/-- every recover site of the current tree is one that was read and classified -/
def allClassified : Bool := sites.all classified

/-- the syntactic facts agree with the classification: `designated`, `passes` and `atClose` sites do
re-panic what is not theirs -/
def consistent : Bool :=
  sites.all fun s => expected.all fun e =>
    !(sameSite e s) || (match e.verdict with
      | .designated | .passes | .atClose => s.repanics
      | _ => true)

/-- no site reachable from Lua code alone turns a termination into something Lua can catch -/
def noneCatchableFromLua : Bool :=
  sites.all fun s => expected.all fun e => !(sameSite e s) || e.verdict != .swallowsHostOnly ||
    s.file == "lib/golib/govalue.go"

end GoluaVerif.Model.RecoverExpect
