/-
  Model.Graph — reachability in a call graph while avoiding "gate" nodes, and the decidable
  certificate check used by the per-run instances of C08.  Core Lean only.

  Node sets of the finite instances are bitmask `Nat`s (bit i = node i); the graph is a list of
  chunks of edges (chunked because long list literals exceed the elaborator's recursion depth).
-/
namespace GoluaVerif.Model.Graph

/-- there is a call path `a → … → b` none of whose nodes after the first is a gate -/
inductive ReachableAvoiding {α : Type} (gate : α → Prop) (E : α → α → Prop) : α → α → Prop
  | refl (a : α) : ReachableAvoiding gate E a a
  | step {a b c : α} : ReachableAvoiding gate E a b → E b c → ¬ gate c → ReachableAvoiding gate E a c

/-- plain reflexive-transitive closure -/
inductive Reach {α : Type} (R : α → α → Prop) : α → α → Prop
  | refl (a : α) : Reach R a a
  | step {a b c : α} : Reach R a b → R b c → Reach R a c

/-- The steps that can actually be taken in a context requiring a flag: an edge out of a gate is
    taken only towards `open_` targets (what the gate runs before / besides its guarded part, and —
    for the dispatching gate `GoCont.RunInThread` — functions that declared the flag). -/
def Feasible {α : Type} (gate open_ : α → Prop) (E : α → α → Prop) (u v : α) : Prop :=
  E u v ∧ (gate u → open_ v)

abbrev EdgeList := List (List (Nat × Nat))

/-- unpack a chunk written by extract/gofacts: entries of 33 bits, `2^32 + u·2^16 + v`, least
    significant first; stops at 0 (or when the fuel runs out — `Generated.CallGraph.nEdges` and the
    instance `graph_complete` make sure it does not) -/
def decodeChunk : Nat → Nat → List (Nat × Nat)
  | 0, _ => []
  | _, 0 => []
  | fuel + 1, x + 1 =>
    -- matching on `x + 1` makes the kernel evaluate the packed number to a literal at every step
    ((((x + 1) % 2 ^ 33) / 2 ^ 16) % 2 ^ 16, ((x + 1) % 2 ^ 33) % 2 ^ 16) :: decodeChunk fuel ((x + 1) / 2 ^ 33)

/-- nothing is left undecoded -/
def chunkExhausted : Nat → Nat → Bool
  | _, 0 => true
  | 0, _ + 1 => false
  | fuel + 1, x + 1 => chunkExhausted fuel ((x + 1) / 2 ^ 33)

def edgeRel (g : EdgeList) (u v : Nat) : Prop := ∃ c ∈ g, (u, v) ∈ c

def inSet (s : Nat) (v : Nat) : Prop := s.testBit v = true

def edgeOk (S gates : Nat) (e : Nat × Nat) : Bool :=
  !S.testBit e.1 || gates.testBit e.2 || S.testBit e.2

/-- the certificate check: sources are in S, S is closed under non-gate successors, S has no sink -/
def checkCert (g : EdgeList) (srcs : List Nat) (S sinks gates : Nat) : Bool :=
  srcs.all (fun s => S.testBit s) && g.all (fun c => c.all (edgeOk S gates)) && (S &&& sinks == 0)

/-- a list of nodes is a call path that avoids gates after its first node; `idx` says where each
    step's edge sits in the graph (chunk, offset), so that checking a path does not scan the graph -/
def validPath (g : EdgeList) (gates : Nat) : List Nat → List (Nat × Nat) → Bool
  | [_], [] => true
  | a :: b :: rest, (ci, k) :: idx =>
    (match g[ci]? with
     | some c => (match c[k]? with | some e => e == (a, b) | none => false)
     | none => false) && !gates.testBit b && validPath g gates (b :: rest) idx
  | _, _ => false

def pathOk (g : EdgeList) (gates sinks : Nat) (srcs : List Nat) (p : List Nat × List (Nat × Nat)) : Bool :=
  validPath g gates p.1 p.2 && (match p.1.head? with | some a => srcs.contains a | none => false) &&
  (match p.1.getLast? with | some b => sinks.testBit b | none => false)

end GoluaVerif.Model.Graph
