/-
  Model.GcRuntime — how runtime.go / thread.go / runtimecontextmanager.go drive the pools.

  * One pool per ISOLATING runtime context (`PushContext` with IsolateGCPolicy or any hard
    limit); a non-isolating context shares its parent's pool and is invisible here.
  * `step`    = `runPendingFinalizers` on the current pool (before every continuation step).
  * `callDone`   = end of an isolating `CallContext` whose body returned or raised a Lua error:
                   `runFinalizers(ExtractAllMarkedFinalize())`, then `PopContext`.
  * `callKilled` = the body was killed: finalisers skipped, `PopContext` still releases.
  * `close`   = `Runtime.Close`: for every context from the innermost to the root,
                finalise all, then release all.
  * Go's finaliser table is per object and process wide: marking, in pool B, an object that
    still carries pool A's finaliser makes runtime.SetFinalizer throw (`fatal`).
  `log` is the ordered list of finalisations and releases actually performed.
-/
import GoluaVerif.Model.ClonePool
namespace GoluaVerif.Model.GcRuntime
open GoluaVerif.Spec.Gc GoluaVerif.Model.ClonePool

structure Rt where
  /-- pools of the isolating contexts, innermost first; the last one is the root's and is never removed -/
  live : List Pool := [{}]
  /-- pools of popped contexts (their Go finalisers may still be registered) -/
  dead : List Pool := []
  /-- finalisations (`fin`) and releases (`rel`) performed, in order -/
  log : List TEv := []
  fatal : Bool := false
deriving Repr

def isLogEv : TEv → Bool
  | .fin _ _ _ => true
  | .rel _ _ _ => true
  | _ => false

/-- what a pool operation added to the pool's trace -/
def delta (p p' : Pool) : List TEv := p'.tr.drop p.tr.length

/-- apply a pool operation to the current (innermost) pool -/
def onCurrent (s : Rt) (u : Use) : Rt :=
  match s.live with
  | [] => s
  | p :: rest =>
    let p' := use p u
    { s with live := p' :: rest, log := s.log ++ (delta p p').filter isLogEv, fatal := s.fatal || p'.fatal }

def wouldRegister (p : Pool) (o : Obj) : Bool :=
  match p.reg with
  | none => true
  | some rg => (regLookup rg o.key).isNone

/-- the primitive moves -/
inductive Prim where
  /-- `SetRawMetatable` / `NewUserDataValue` → `addFinalizer` (which ignores flags = 0) -/
  | mark (o : Obj) (f r : Bool)
  | fire (o : Obj)
  | step
  | push
  | finAll
  | popRel
deriving DecidableEq, Repr

def prim (s : Rt) (e : Prim) : Rt :=
  if s.fatal then s else
  match e with
  | .mark o f r =>
    if f = false ∧ r = false then s else
    match s.live with
    | [] => s
    | p :: rest =>
      if wouldRegister p o && (rest ++ s.dead).any (fun q => q.goReg.contains o) then
        { s with fatal := true }
      else onCurrent s (.mark o f r)
  | .fire o =>
    { s with live := s.live.map (fun p => use p (.fire o)), dead := s.dead.map (fun p => use p (.fire o)) }
  | .step => onCurrent s .step
  | .push => { s with live := { pid := s.live.length + s.dead.length } :: s.live }
  | .finAll => onCurrent s .finAll
  | .popRel =>
    let s1 := onCurrent s .popRel
    match s1.live with
    | p :: q :: rest => { s1 with live := q :: rest, dead := p :: s1.dead }
    | _ => s1

/-- `Runtime.Close` with `n` contexts still to close -/
def closeN : Nat → Rt → Rt
  | 0, s => s
  | n + 1, s => closeN n (prim (prim s .finAll) .popRel)

inductive REv where
  | prim (e : Prim)
  | callDone
  | callKilled
  | close
deriving DecidableEq, Repr

def rstep (s : Rt) : REv → Rt
  | .prim e => prim s e
  | .callDone => prim (prim s .finAll) .popRel
  | .callKilled => prim s .popRel
  | .close => closeN s.live.length s

def run (es : List REv) : Rt := es.foldl rstep {}

/-- every pool the runtime ever made -/
def Rt.pools (s : Rt) : List Pool := s.live ++ s.dead

end GoluaVerif.Model.GcRuntime
