/-
  Model.GcRuntime — how runtime.go / thread.go / runtimecontextmanager.go drive the pools.

  * One pool per ISOLATING runtime context (`PushContext` with IsolateGCPolicy or any hard
    limit); a non-isolating context shares its parent's pool and is invisible here.
  * `step`    = `runPendingFinalizers` on the current pool (before every continuation step).
  * `callDone`   = end of an isolating `CallContext` whose body returned or raised a Lua error:
                   `runFinalizers(ExtractAllMarkedFinalize())`, then `PopContext`.
  * `callKilled` = the body was killed: finalisers skipped, `PopContext` still releases.
  * `close`   = `Runtime.Close`: for every context from the innermost to the root,
                finalise all, then release all.
  * Go's finaliser table is per object and process wide: marking, in pool B, an object that
    still carries pool A's finaliser makes runtime.SetFinalizer throw (`fatal`).
  `log` is the ordered list of finalisations and releases actually performed.
-/
import GoluaVerif.Model.ClonePool
namespace GoluaVerif.Model.GcRuntime
open GoluaVerif.Spec.Gc GoluaVerif.Model.ClonePool

/-- `GCPolicy` of a `RuntimeContextDef` -/
inductive GCPolicy where
  | default | share | isolate
deriving DecidableEq, Repr

/-- the part of a `RuntimeContextDef` that decides about the pool: which hard limits are set, whether any
    compliance flag is required (`RequiredFlags != 0`), and the GC policy -/
structure CtxDef where
  cpu : Bool := false
  mem : Bool := false
  millis : Bool := false
  policy : GCPolicy := .default
  flags : Bool := false
deriving DecidableEq, Repr

/-- mirror of the condition in `runtimeContextManager.PushContext`: the new context gets its OWN pool
    (`IsolateGCPolicy`) iff the policy asks for it, or ANY hard limit (cpu, memory, time) is set, or it
    REQUIRES COMPLIANCE FLAGS ("a context with limits or with required flags runs the finalizers of its own
    values itself, so that they are subject to its restrictions"); otherwise it shares its parent's pool -/
def isolates (d : CtxDef) : Bool :=
  d.policy == .isolate || d.millis || d.cpu || d.mem || d.flags

/-- mirror of `(*UserData).MarkFlags` (runtime/userdata.go): (Finalize, Release).  Release iff the wrapped Go
    value implements `UserDataResourceReleaser` — whatever the metatable, even none; Finalize iff the
    metatable (if any) has a non-nil `__gc` -/
def userDataMarkFlags (releasable hasMeta hasGc : Bool) : Bool × Bool :=
  (hasMeta && hasGc, releasable)

/-- mirror of `SetRawMetatable` for tables: marked for finalisation iff the metatable has `__gc` -/
def tableMarkFlags (hasGc : Bool) : Bool × Bool := (hasGc, false)

structure Rt where
  /-- pools of the isolating contexts, innermost first; the last one is the root's and is never removed -/
  live : List Pool := [{}]
  /-- pools of popped contexts (their Go finalisers may still be registered) -/
  dead : List Pool := []
  /-- finalisations (`fin`) and releases (`rel`) performed, in order -/
  log : List TEv := []
  fatal : Bool := false
  /-- all contexts pushed on the root, innermost first: does the context own a pool? -/
  frames : List Bool := []
  /-- for each event of `log`: the number of contexts that were open when it ran (WHERE it ran) -/
  ran : List Nat := []
  /-- marking epochs (pool id, markOrder) whose `__gc` raises an error: the clone kept by the pool has the
      metatable the value had when it was marked -/
  raising : List (Nat × Nat) := []
  /-- for each event of `log`: did that finaliser raise? -/
  raised : List Bool := []
  /-- `error in finalizer` warnings issued, in order (keys) -/
  warned : List Nat := []
deriving Repr

def isLogEv : TEv → Bool
  | .fin _ _ _ => true
  | .rel _ _ _ => true
  | _ => false

/-- what a pool operation added to the pool's trace -/
def delta (p p' : Pool) : List TEv := p'.tr.drop p.tr.length

/-- mirror of the loop of `(*Runtime).runFinalizers`: EVERY value of the batch has its `__gc` called;
    when one raises, a warning is issued and the loop goes on.  Returns what was run and the warnings.
    (Releases, which are not run by this loop, are passed through.) -/
def runFinalizers (raises : Nat → Bool) : List TEv → List TEv × List Nat
  | [] => ([], [])
  | e :: t =>
    let r := runFinalizers raises t
    match e with
    | .fin _ v n => (e :: r.1, if raises n then v.key :: r.2 else r.2)
    | _ => (e :: r.1, r.2)

/-- apply a pool operation to the current (innermost) pool; what it hands out runs at `depth` -/
def onCurrent (s : Rt) (u : Use) (depth : Nat := s.frames.length) : Rt :=
  match s.live with
  | [] => s
  | p :: rest =>
    let p' := use p u
    let raises := fun n => s.raising.contains (p.pid, n)
    let out := runFinalizers raises ((delta p p').filter isLogEv)
    { s with live := p' :: rest, log := s.log ++ out.1, ran := s.ran ++ out.1.map (fun _ => depth),
             raised := s.raised ++ out.1.map (fun e => match e with | .fin _ _ n => raises n | _ => false),
             warned := s.warned ++ out.2, fatal := s.fatal || p'.fatal }

def wouldRegister (p : Pool) (o : Obj) : Bool :=
  match p.reg with
  | none => true
  | some rg => (regLookup rg o.key).isNone

/-- mirror of `(*Runtime).markingPool`: which pool of `cur :: enclosing` gets the mark of a value with key `k`.
    Only the pools of ENCLOSING contexts are asked (`Marked`), innermost first (every element of the list is a
    different pool: contexts that share a pool contribute one element); the first that has the value is re-marked
    (index i + 1); otherwise the current context's pool (index 0).  "A value belongs to the context in which it
    was first marked." -/
def markingIdx : List Pool → Nat → Nat
  | [], _ => 0
  | q :: enclosing, k =>
    if marked q k then 1
    else match markingIdx enclosing k with
      | 0 => 0
      | i + 1 => i + 2

/-- apply `f` to the `i`-th element -/
def applyAt (f : Pool → Pool) : Nat → List Pool → List Pool
  | _, [] => []
  | 0, p :: t => f p :: t
  | i + 1, p :: t => p :: applyAt f i t

/-- `addFinalizer` with non-zero flags: `markingPool(ref).Mark(ref, flags)` -/
def markRt (s : Rt) (o : Obj) (f r : Bool) : Rt :=
  match s.live with
  | [] => s
  | p :: rest =>
    let i := markingIdx rest o.key
    let target := ((p :: rest)[i]?).getD p
    -- a NEW registration first does `SetFinalizer(o, nil)`: Go keeps one finaliser per object, so whichever
    -- pool (live or not) had left its finaliser on `o` loses it
    let clr := fun (q : Pool) => if wouldRegister target o then clearFinalizer q o else q
    let live1 := (p :: rest).map clr
    let dead1 := s.dead.map clr
    -- the model of runtime.SetFinalizer still throws on a double set; after the clearing it cannot happen
    if wouldRegister target o && (live1 ++ dead1).any (fun q => q.goReg.contains o) then
      { s with fatal := true }
    else
      let live2 := applyAt (fun q => use q (.mark o f r)) i live1
      { s with live := live2, dead := dead1, fatal := s.fatal || live2.any (fun q => q.fatal) }

/-- the primitive moves -/
inductive Prim where
  /-- `SetRawMetatable` / `NewUserDataValue` → `addFinalizer` (which ignores flags = 0) -/
  | mark (o : Obj) (f r : Bool)
  | fire (o : Obj)
  | step
  /-- `PushContext` with a definition that isolates: a fresh pool -/
  | push
  | finAll
  /-- `PopContext` of the context that owns the current pool (any pool-sharing contexts above it go first) -/
  | popRel
  /-- `PushContext` with a definition that does not isolate: the parent's pool is shared -/
  | pushShare
  /-- `PopContext` of a pool-sharing context: nothing happens to any pool -/
  | popShare
  /-- the metatable with which value `k` has just been marked (in the pool that looks after it) has a `__gc` that raises -/
  | setRaise (k : Nat)
deriving DecidableEq, Repr

def prim (s : Rt) (e : Prim) : Rt :=
  if s.fatal then s else
  match e with
  | .mark o f r => if f = false ∧ r = false then s else markRt s o f r
  | .fire o =>
    { s with live := s.live.map (fun p => use p (.fire o)), dead := s.dead.map (fun p => use p (.fire o)) }
  | .step => onCurrent s .step
  | .push => { s with live := { pid := s.live.length + s.dead.length } :: s.live, frames := true :: s.frames }
  | .finAll => onCurrent s .finAll
  | .popRel =>
    -- the owner of the current pool is the innermost isolating frame; its releases run inside it
    let fr := s.frames.dropWhile (fun b => b == false)
    let s1 := onCurrent s .popRel fr.length
    let s2 := { s1 with frames := fr.drop 1 }
    match s2.live with
    | p :: q :: rest => { s2 with live := q :: rest, dead := p :: s2.dead }
    | _ => s2
  | .pushShare => { s with frames := false :: s.frames }
  | .popShare =>
    match s.frames with
    | false :: fs => { s with frames := fs }
    | _ => s
  | .setRaise k =>
    match s.live.find? (fun p => marked p k) with
    | some p =>
      match (p.reg.getD []).find? (fun e => e.val.key == k) with
      | some e => { s with raising := (p.pid, e.order) :: s.raising }
      | none => s
    | none => s

/-- `Runtime.Close` with `n` contexts still to close -/
def closeN : Nat → Rt → Rt
  | 0, s => s
  | n + 1, s => closeN n (prim (prim s .finAll) .popRel)

inductive REv where
  | prim (e : Prim)
  /-- `PushContext(def)` / the beginning of `CallContext(def, …)` -/
  | pushCtx (d : CtxDef)
  | callDone
  | callKilled
  | close
deriving DecidableEq, Repr

def rstep (s : Rt) : REv → Rt
  | .prim e => prim s e
  | .pushCtx d => prim s (if isolates d then .push else .pushShare)
  | .callDone => prim (prim s .finAll) .popRel
  | .callKilled => prim s .popRel
  | .close => closeN s.live.length s

def run (es : List REv) : Rt := es.foldl rstep {}

/-- every pool the runtime ever made -/
def Rt.pools (s : Rt) : List Pool := s.live ++ s.dead

end GoluaVerif.Model.GcRuntime
