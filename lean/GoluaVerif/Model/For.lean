/-
  Model.For — mirror of the numeric-for opcodes of /repo/runtime/luacont.go
  (`case code.Type7Pfx`: prepfor when F is off, advfor when F is on) and of the
  loop skeleton emitted by astcomp/compstat.go ProcessForStat:

       prepfor r1, r2, r3
       if not r1 jump END
  LOOP: r4 <- r1 ; body(r4) ; advfor r1, r2, r3 ; if r1 jump LOOP
  END:

  Comparisons go through the REGENERATED `Generated.Comp.ltIntAndFloat` / `ltFloatAndInt` /
  `leIntAndFloat` / `leFloatAndInt` (runtime/comp.go numIsLessThan / numIsLessOrEqual).
  As of /repo 5163798 the limit tests are `not (v <= limit)` so that a NaN ends the loop.
-/
import GoluaVerif.Generated.Comp
import GoluaVerif.Spec.For
namespace GoluaVerif.Model.For
open GoluaVerif GoluaVerif.Spec
open GoluaVerif.Spec.For (Val Outcome)

/-- runtime/comp.go `numIsLessThan` (= `isLessThan` on two numbers) -/
def isLessThan : Num → Num → Bool
  | .int x, .int y => BitVec.slt x y
  | .int x, .flt y => Generated.Comp.ltIntAndFloat x y
  | .flt x, .int y => Generated.Comp.ltFloatAndInt x y
  | .flt x, .flt y => F64.blt x y

/-- runtime/comp.go `numIsLessOrEqual` (false if either side is NaN) -/
def isLessOrEqual : Num → Num → Bool
  | .int x, .int y => BitVec.sle x y
  | .int x, .flt y => Generated.Comp.leIntAndFloat x y
  | .flt x, .int y => Generated.Comp.leFloatAndInt x y
  | .flt x, .flt y => F64.ble x y

/-- runtime/comp.go `isZero` -/
def isZero : Num → Bool
  | .int x => x == 0#64
  | .flt x => F64.isZero x

/-- runtime/comp.go `isPositive` -/
def isPositive : Num → Bool
  | .int x => BitVec.slt 0#64 x
  | .flt x => F64.isPos x

/-- runtime/arith.go `Add` on two numbers -/
def add : Num → Num → Num
  | .int x, .int y => .int (x + y)
  | .int x, .flt y => .flt (F64.fadd (F64.ofI64 x) y)
  | .flt x, .int y => .flt (F64.fadd x (F64.ofI64 y))
  | .flt x, .flt y => .flt (F64.fadd x y)

inductive Prep where
  | errNotNumber (role : Nat)   -- 0 initial value, 1 limit, 2 step
  | errZeroStep
  | ok (start : Option Num) (stop step : Num)
  deriving DecidableEq, Repr, Inhabited

/-- "Make sure start and step have the same numeric type" -/
def unify : Num → Num → Num × Num
  | .int s, .flt d => (.flt (F64.ofI64 s), .flt d)
  | .flt s, .int d => (.flt s, .flt (F64.ofI64 d))
  | s, d => (s, d)

/-- the F-off branch of `case code.Type7Pfx` -/
def prepfor (start stop step : Val) : Prep :=
  match start.toNum?, stop.toNum?, step.toNum? with
  | none, _, _ => .errNotNumber 0
  | some _, none, _ => .errNotNumber 1
  | some _, some _, none => .errNotNumber 2
  | some a, some l, some d =>
    let (a, d) := unify a d
    if isZero d then .errZeroStep
    else
      -- "the loop continues while the value is <= the limit": a NaN on either side ends it
      let done := if isPositive d then !isLessOrEqual a l else !isLessOrEqual l a
      .ok (if done then none else some a) l d

/-- the F-on branch: the new content of the start register (`none` = nil = loop finished) -/
def advfor (start stop step : Num) : Option Num :=
  let next := add start step
  let done :=
    if isPositive step then !isLessOrEqual next stop || isLessThan next start
    else !isLessOrEqual stop next || isLessThan start next
  if done then none else some next

/-- content of the start register after `k` executions of advfor -/
def iter : Nat → Option Num → Num → Num → Option Num
  | 0, r, _, _ => r
  | _ + 1, none, _, _ => none
  | k + 1, some cur, stop, step => iter k (advfor cur stop step) stop step

/-- the values the loop variable takes, at most `cap` of them (the harness stops the loop there) -/
def loopFrom : Nat → Option Num → Num → Num → List Num
  | 0, _, _, _ => []
  | _ + 1, none, _, _ => []
  | cap + 1, some cur, stop, step => cur :: loopFrom cap (advfor cur stop step) stop step

def run (cap : Nat) (a l d : Val) : Outcome :=
  match prepfor a l d with
  | .ok r stop step => .values (loopFrom cap r stop step)
  | _ => .error

/-- The loop with a body that may assign to the visible loop variable: the body receives the
    copy `r4` and returns whatever it left there; the hidden register is what advfor sees.
    Returns the values the body was entered with. -/
def loopWithBody (body : Num → Num) : Nat → Option Num → Num → Num → List Num
  | 0, _, _, _ => []
  | _ + 1, none, _, _ => []
  | cap + 1, some cur, stop, step =>
    let r4 := cur            -- iter <- start
    let _r4' := body r4      -- the body may overwrite r4
    r4 :: loopWithBody body cap (advfor cur stop step) stop step

end GoluaVerif.Model.For
