/-
  Model.Gsub — hand-written mirror of /repo/lib/stringlib/matching.go:
  `find`, `match`, `gmatch` (iterator), `gsub` with a string replacement
  (position stepping incl. empty matches, `%0–%9` expansion through the
  regexp `%.`), on top of `Model.PatBuild.build` and `Model.PatMatch`.

  The stepping loops are written over an abstract `matcher : Int → Option (List Capture)`
  (`pat.Match(s, si, …)`) so that `Props.C15.gsub_progress` holds for every matcher.
  Slices of the subject are checked (`.panic`), as in PatMatch.
-/
import GoluaVerif.Model.PatMatch
import GoluaVerif.Spec.LuaPattern
namespace GoluaVerif.Model.Gsub
open GoluaVerif.Model GoluaVerif.Model.PatMatch
open GoluaVerif.Spec.LuaPattern (LVal)

/-- outcome of a Lua-level call in the model -/
inductive LRes where
  | error (e : BErr)          -- a Lua error (pattern errors carry the builder's error value)
  | replError                 -- error raised by the replacement expansion
  | panic (site : PanicSite)     -- a Go panic that is NOT recovered inside the pattern package
  | vals (vs : List LVal)
  | outOfFuel
  deriving Repr, DecidableEq, Inhabited

abbrev Subject := Array UInt8

/-- `luastrings.StringNormPos(s, p)` followed by `- 1` and the clamp `if si < 0 { si = 0 }` -/
def startIndex (len : Nat) (init : Int) : Int :=
  let p := if init < 0 then (len : Int) + 1 + init else init
  let si := p - 1
  if si < 0 then 0 else si

/-- `s[a:b]`, checked -/
def sliceE (s : Subject) (a b : Int) : Except PanicSite (List UInt8) :=
  if 0 ≤ a ∧ a ≤ b ∧ b ≤ s.size then .ok ((s.toList.drop a.toNat).take (b.toNat - a.toNat))
  else .error .subjSlice

/-- `captureValue` -/
def captureValue (s : Subject) (c : Capture) : Except PanicSite LVal :=
  if c.stop = -1 then .ok (.int (c.start + 1))
  else (sliceE s c.start c.stop).map .str

/-- `pushExtraCaptures` -/
def extraCaptures (s : Subject) (caps : List Capture) : Except PanicSite (List LVal) :=
  (caps.drop 1).mapM (captureValue s)

/-- `pushCaptures` -/
def pushCaptures (s : Subject) (caps : Option (List Capture)) : Except PanicSite (List LVal) :=
  match caps with
  | none => .ok [.nil]
  | some [] => .ok [.nil]
  | some [c] => (sliceE s c.start c.stop).map fun b => [.str b]
  | some cs => extraCaptures s cs

def ofExcept (r : Except PanicSite (List LVal)) : LRes :=
  match r with
  | .ok vs => .vals vs
  | .error w => .panic w

/-- `strings.Index(hay, needle)` (first occurrence; -1 → none) -/
def indexOf (hay needle : List UInt8) : Nat → Nat → Option Nat
  | 0, k => if needle.isPrefixOf (hay.drop k) then some k else none
  | n + 1, k => if needle.isPrefixOf (hay.drop k) then some k else indexOf hay needle n (k + 1)

/-- `find` of matching.go -/
def luaFind (fuel : Nat) (s : Subject) (ptn : Array UInt8) (init : Int) (plain : Bool) : LRes :=
  let si := startIndex s.size init
  if si > s.size then .vals [.nil]
  else if plain || ptn.size = 0 then
    let hay := s.toList.drop si.toNat
    match indexOf hay ptn.toList hay.length 0 with
    | none => .vals [.nil]
    | some i => .vals [.int (si + i + 1), .int (si + i + ptn.size)]   -- `i` is relative to `s[si:]`
  else
    match PatBuild.build ptn with
    | .error e => .error e
    | .ok P =>
      let r := matchFromStart P s fuel si 0
      if r.outOfFuel then .outOfFuel else
      if let some w := r.escapedPanic then .panic w else
      match r.captures with
      | none => .vals [.nil]
      | some [] => .vals [.nil]
      | some (first :: rest) =>
        match extraCaptures s (first :: rest) with
        | .error w => .panic w
        | .ok extra => .vals ([.int (first.start + 1), .int first.stop] ++ extra)

/-- `match` of matching.go (with the same `si > len(s)` guard as `find`, before the pattern is compiled) -/
def luaMatch (fuel : Nat) (s : Subject) (ptn : Array UInt8) (init : Int) : LRes :=
  let si := startIndex s.size init
  if si > s.size then .vals [.nil] else
  match PatBuild.build ptn with
  | .error e => .error e
  | .ok P =>
    let r := matchFromStart P s fuel si 0
    if r.outOfFuel then .outOfFuel else
    if let some w := r.escapedPanic then .panic w else
    ofExcept (pushCaptures s r.captures)

/-! ### the stepping loops over an abstract matcher -/

/-- `pat.Match(s, si, budget)` seen from the stepping loops -/
abbrev Matcher := Int → Option (List Capture)

structure GmState where
  si : Int
  allowEmpty : Bool
  deriving Repr, DecidableEq, Inhabited

/-- one call of the gmatch iterator closure (its `for` loop; fuel = subject length + 2) -/
def gmatchIter (matcher : Matcher) : Nat → GmState → Option (List Capture) × GmState
  | 0, st => (none, st)
  | fuel + 1, st =>
    match matcher st.si with
    | none => (none, st)
    | some [] => (none, st)
    | some (gc :: rest) =>
      let start := gc.start
      let stop := gc.stop
      if st.allowEmpty || start != st.si || stop != st.si then
        let allowEmpty := decide (start ≥ stop)
        (some (gc :: rest), { si := if allowEmpty then start + 1 else stop, allowEmpty := allowEmpty })
      else gmatchIter matcher fuel { si := st.si + 1, allowEmpty := true }

/-- the accepted matches of successive iterator calls, until it returns nil -/
def gmatchAll (matcher : Matcher) (len : Nat) : Nat → GmState → List (List Capture)
  | 0, _ => []
  | fuel + 1, st =>
    match gmatchIter matcher (len + 2) st with
    | (none, _) => []
    | (some caps, st') => caps :: gmatchAll matcher len fuel st'

/-- `gmatch` of matching.go, iterated to exhaustion -/
def luaGmatch (fuel : Nat) (s : Subject) (ptn : Array UInt8) (init : Int) : LRes :=
  match PatBuild.build ptn with
  | .error e => .error e
  | .ok P =>
    let si := startIndex s.size init
    let matcher : Matcher := fun si => (matchGo P s fuel si 0).captures
    let ms := gmatchAll matcher s.size (s.size + 3) { si := si, allowEmpty := true }
    match ms.mapM (fun caps => pushCaptures s (some caps)) with
    | .error w => .panic w
    | .ok vss => .vals vss.flatten

/-- decimal rendering of `strconv.Itoa` -/
def itoa (n : Int) : List UInt8 := (toString n).toUTF8.toList

/-- the string-replacement closure `replF` (expansion of `replString` via `gsubPtn = regexp "%."`;
    `.` does not match `\n`, and a trailing `%` is not matched at all: both stay literal) -/
def expandRepl (cStrings : List (List UInt8)) (maxIndex : Nat) : List UInt8 → Except Unit (List UInt8)
  | [] => .ok []
  | 37 :: [] => .ok [37]
  | 37 :: x :: rest =>
    if x == 10 then (expandRepl cStrings maxIndex (x :: rest)).map (37 :: ·)
    else if 48 ≤ x && x ≤ 57 then
      let idx := (x - 48).toNat
      if idx > maxIndex then .error ()
      else (expandRepl cStrings maxIndex rest).map ((cStrings.getD idx []) ++ ·)
    else if x == 37 then (expandRepl cStrings maxIndex rest).map (37 :: ·)
    else .error ()
  | c :: rest => (expandRepl cStrings maxIndex rest).map (c :: ·)

inductive ReplOut where
  | ok (b : List UInt8)
  | err
  | panic (w : PanicSite)

/-- `cStrings[i]`: a captured string as is, a position through `strconv.Itoa` -/
def valStr : LVal → List UInt8
  | .str b => b
  | .int n => itoa n
  | .nil => []

def replString (s : Subject) (repl : List UInt8) (caps : List Capture) : ReplOut :=
  match caps.mapM (captureValue s) with
  | .error w => .panic w
  | .ok vals =>
    let strs : List (List UInt8) := vals.map valStr
    let (strs, maxIndex) := if caps.length = 1 then ([strs.getD 0 [], strs.getD 0 []], 1) else (strs, caps.length - 1)
    match expandRepl strs maxIndex repl with
    | .ok b => .ok b
    | .error _ => .err

structure GsubState where
  si : Int := 0
  sj : Int := 0
  out : List UInt8 := []
  wrote : Bool := false
  matchCount : Nat := 0
  allowEmpty : Bool := true
  /-- ghost: the (start, stop) of every match that was accepted and substituted -/
  accepted : List (Int × Int) := []
  /-- ghost: every value `si` took at the head of the loop -/
  visited : List Int := []
  deriving Repr, Inhabited

inductive GsubOut where
  | done (st : GsubState)
  | replErr
  | panic (w : PanicSite)
  | outOfFuel

/-- the end of one loop iteration: `allowEmpty = start >= end`, the new `si`, `matchCount++` -/
def advance (st : GsubState) (start stop : Int) : GsubState :=
  { st with allowEmpty := decide (start ≥ stop), si := if start ≥ stop then start + 1 else stop,
            matchCount := st.matchCount + 1 }

/-- the main `for ; matchCount != n; matchCount++` loop of `gsub` (`n = none` for a negative limit).
    `anchored`: the pattern starts with `^`; then the loop body runs once (`matchCount++; break`). -/
def gsubLoop (s : Subject) (matcher : Matcher) (repl : List Capture → ReplOut) (n : Option Nat) (anchored : Bool) :
    Nat → GsubState → GsubOut
  | 0, _ => .outOfFuel
  | fuel + 1, st =>
    if some st.matchCount = n then .done st else
    let st := { st with visited := st.si :: st.visited }
    match matcher st.si with
    | none => .done st
    | some [] => .done st
    | some (gc :: rest) =>
      if st.allowEmpty || gc.start != st.si || gc.stop != st.si then
        match repl (gc :: rest) with
        | .err => .replErr
        | .panic w => .panic w
        | .ok sub =>
          match sliceE s st.sj gc.start with
          | .error w => .panic w
          | .ok pre =>
            let st' := advance { st with out := st.out ++ pre ++ sub, sj := gc.stop, wrote := true,
                                         accepted := (gc.start, gc.stop) :: st.accepted } gc.start gc.stop
            if anchored then .done st' else gsubLoop s matcher repl n anchored fuel st'
      else
        let st' := advance st gc.start gc.stop
        if anchored then .done st' else gsubLoop s matcher repl n anchored fuel st'

/-- the loop of `gsub` run on the real matcher (`pat.MatchFromStart`, which honours `^`) -/
def gsubRun (fuel : Nat) (s : Subject) (P : Pattern) (repl : List UInt8) (n : Option Nat) : GsubOut :=
  let matcher : Matcher := fun si => (matchFromStart P s fuel si 0).captures
  gsubLoop s matcher (replString s repl) n P.startAnchor (s.size + 3) {}

/-- `gsub` of matching.go for a string replacement -/
def luaGsub (fuel : Nat) (s : Subject) (ptn : Array UInt8) (repl : List UInt8) (n : Option Nat) : LRes :=
  match PatBuild.build ptn with
  | .error e => .error e
  | .ok P =>
    match gsubRun fuel s P repl n with
    | .outOfFuel => .outOfFuel
    | .replErr => .replError
    | .panic w => .panic w
    | .done st =>
      -- `!subst` → the input string; `sj < len(s)` → append the tail
      if !st.wrote then .vals [.str s.toList, .int st.matchCount]
      else if st.sj < s.size then
        match sliceE s st.sj s.size with
        | .error w => .panic w
        | .ok tail => .vals [.str (st.out ++ tail), .int st.matchCount]
      else .vals [.str st.out, .int st.matchCount]

end GoluaVerif.Model.Gsub
