/-
  Model.Ctx — the runtime-context stack of runtime/runtimecontextmanager.go,
  mirrored operation by operation on top of the REGENERATED leaf functions
  (`Generated.Resources`: Remove, Merge, Dominates, atLimit, smallerLimit and the
  flag / status / stop-level constants).

  Go                                   model
  -----------------------------------  ------------------------------------------
  runtimeContextManager (value)        Frame
  m.parent chain                       St.parents (head = direct parent)
  PushContext(def)                     push
  PopContext()                         pop        (charges the parent BEFORE restoring it;
                                                   a kill of the parent inside pop leaves the
                                                   child current, as the Go panic does)
  RequireCPU / requireCPU              Frame.requireCPU   (uint64 wrap-around in used + n)
  RequireMem / requireMem              Frame.requireMem
  ReleaseMem                           releaseStack       (guard hard.Memory > 0; cascades to the parent,
                                                          panics only at the outermost context; 8007e69)
  SetStopLevel                         Frame.setStop
  Due                                  Frame.due
  TerminateContext                     no-op unless status = live; else status := killed + panic
  panic(ContextTerminationError)       Outcome.terminated
  panic("Too much mem released")       Outcome.crash

  The clock is frozen: `updateTimeUsed` never advances `used.Millis` (time limits
  are outside the model, DESIGN §6 "Partial"); `trackTime` is kept because it
  switches CPU tracking on.
-/
import GoluaVerif.Generated.Resources
import GoluaVerif.Spec.Quota
namespace GoluaVerif.Model.Ctx
open GoluaVerif.Generated.Resources GoluaVerif.Spec.Quota

abbrev Res := RuntimeResources

def Res.zero : Res := ⟨0#64, 0#64, 0#64⟩

/-- RuntimeContextDef (limits and flags; message handler and GC policy do not affect budgets) -/
structure CtxDef where
  hard : Res
  soft : Res
  flags : BitVec 16
  deriving DecidableEq, Repr, Inhabited

def CtxDef.none : CtxDef := ⟨Res.zero, Res.zero, 0#16⟩

structure Frame where
  hard : Res
  soft : Res
  used : Res
  flags : BitVec 16
  status : BitVec 16
  stop : BitVec 8
  trackCpu : Bool
  trackMem : Bool
  trackTime : Bool
  /-- `inheritedCpu` / `inheritedMem` (commit 52f8e49): the hard limit is merely what the parent had left
  when this context was pushed; part of the state, not observable through the public API -/
  inhCpu : Bool
  inhMem : Bool
  deriving DecidableEq, Repr, Inhabited

/-- the zero value of runtimeContextManager: what `rt.New` starts with -/
def Frame.root : Frame :=
  { hard := Res.zero, soft := Res.zero, used := Res.zero, flags := 0#16, status := StatusLive,
    stop := 0#8, trackCpu := false, trackMem := false, trackTime := false, inhCpu := false, inhMem := false }

/-- non-empty stack: the active context and its parents, nearest first -/
structure St where
  cur : Frame
  parents : List Frame
  deriving DecidableEq, Repr, Inhabited

def St.init : St := ⟨Frame.root, []⟩

def St.depth (s : St) : Nat := s.parents.length

inductive Op where
  | push (d : CtxDef)
  | pop
  | reqCpu (n : BitVec 64)
  | reqMem (n : BitVec 64)
  | relMem (n : BitVec 64)
  | stop (lvl : BitVec 8)
  | due
  deriving DecidableEq, Repr, Inhabited

inductive Outcome where
  | ok
  | terminated          -- panic(ContextTerminationError)
  | crash               -- panic("Too much mem released")
  deriving DecidableEq, Repr, Inhabited

def Frame.live (f : Frame) : Bool := f.status == StatusLive
def Frame.hardStopped (f : Frame) : Bool := f.stop &&& HardStop != 0#8

/-- TerminateContext: no-op unless live -/
def Frame.kill (f : Frame) : Frame := { f with status := StatusKilled }

/-- requireCPU (behind the `trackCpu` guard of RequireCPU) -/
def Frame.requireCPU (f : Frame) (n : BitVec 64) : Frame × Outcome :=
  if f.trackCpu then
    if f.hardStopped && f.live then (f.kill, .terminated)
    else
      let cpuUsed := f.used.Cpu + n
      if atLimit cpuUsed f.hard.Cpu && f.live then (f.kill, .terminated)
      else ({ f with used := { f.used with Cpu := cpuUsed } }, .ok)
  else (f, .ok)

def Frame.requireMem (f : Frame) (n : BitVec 64) : Frame × Outcome :=
  if f.trackMem then
    if f.hardStopped && f.live then (f.kill, .terminated)
    else
      let memUsed := f.used.Memory + n
      if atLimit memUsed f.hard.Memory && f.live then (f.kill, .terminated)
      else ({ f with used := { f.used with Memory := memUsed } }, .ok)
  else (f, .ok)

def Frame.releaseMem (f : Frame) (n : BitVec 64) : Frame × Outcome :=
  if BitVec.ult 0#64 f.hard.Memory then
    if BitVec.ule n f.used.Memory then
      ({ f with used := { f.used with Memory := f.used.Memory - n } }, .ok)
    else (f, .crash)
  else (f, .ok)

def Frame.setStop (f : Frame) (lvl : BitVec 8) : Frame × Outcome :=
  let f1 := { f with stop := f.stop ||| lvl }
  if lvl &&& HardStop != 0#8 && f1.live then (f1.kill, .terminated) else (f1, .ok)

def Frame.due (f : Frame) : Bool :=
  f.stop &&& SoftStop != 0#8 || !(f.soft.Dominates f.used)

def impliedFlags (h : Res) : BitVec 16 :=
  (if BitVec.ult 0#64 h.Cpu then ComplyCpuSafe else 0#16) |||
  (if BitVec.ult 0#64 h.Memory then ComplyMemSafe else 0#16) |||
  (if BitVec.ult 0#64 h.Millis then ComplyTimeSafe else 0#16)

/-- the child frame PushContext installs on top of `f` -/
def Frame.child (f : Frame) (d : CtxDef) : Frame :=
  let hard := (f.hard.Remove f.used).Merge d.hard
  let soft := (hard.Merge f.soft).Merge d.soft
  let trackTime := BitVec.ult 0#64 hard.Millis || BitVec.ult 0#64 soft.Millis
  { hard := hard, soft := soft, used := Res.zero,
    flags := f.flags ||| d.flags ||| impliedFlags d.hard,
    status := StatusLive,
    stop := f.stop,
    trackTime := trackTime,
    trackCpu := BitVec.ult 0#64 hard.Cpu || BitVec.ult 0#64 soft.Cpu || trackTime,
    trackMem := BitVec.ult 0#64 hard.Memory || BitVec.ult 0#64 soft.Memory,
    inhCpu := BitVec.ult 0#64 f.hard.Cpu && !(smallerLimit d.hard.Cpu (f.hard.Remove f.used).Cpu),
    inhMem := BitVec.ult 0#64 f.hard.Memory && !(smallerLimit d.hard.Memory (f.hard.Remove f.used).Memory) }

def push (s : St) (d : CtxDef) : St := ⟨s.cur.child d, s.cur :: s.parents⟩

/-- what PopContext returns (`mCopy`): the child with live → done -/
def Frame.popped (f : Frame) : Frame :=
  if f.live then { f with status := StatusDone } else f

/-- PopContext.  At the root (`parent == nil`) nothing happens.  The parent is charged with the
child's CPU then memory; if either charge terminates the parent, the Go panic leaves `*m`
(the child) in place with the parent object already marked killed. -/
def pop (s : St) : St × Outcome :=
  match s.parents with
  | [] => (s, .ok)
  | p :: ps =>
    match p.requireCPU s.cur.used.Cpu with
    | (p1, .ok) =>
      match p1.requireMem s.cur.used.Memory with
      | (p2, .ok) => (⟨p2, ps⟩, .ok)
      | (p2, o) => (⟨s.cur, p2 :: ps⟩, o)
    | (p1, o) => (⟨s.cur, p1 :: ps⟩, o)

/-- ReleaseMem on the stack `f :: rest` since commit 8007e69: a context that is asked to release more
than it holds gives back what it has (its counter drops to 0) and passes the rest to its parent
(`m.parent.ReleaseMem`), which does the same; a context without hard memory limit ignores the
release (and thereby ends the cascade); only the outermost context (`parent == nil`), if it is
memory-limited and still cannot cover the amount, panics — with the contexts above it already drained. -/
def releaseStack (f : Frame) : List Frame → BitVec 64 → (Frame × List Frame) × Outcome
  | [], n => (((f.releaseMem n).1, []), (f.releaseMem n).2)
  | p :: ps, n =>
    if BitVec.ult 0#64 f.hard.Memory then
      if BitVec.ule n f.used.Memory then
        (({ f with used := { f.used with Memory := f.used.Memory - n } }, p :: ps), .ok)
      else
        let r := releaseStack p ps (n - f.used.Memory)
        (({ f with used := { f.used with Memory := 0#64 } }, r.1.1 :: r.1.2), r.2)
    else ((f, p :: ps), .ok)

def onCur (s : St) (r : Frame × Outcome) : St × Outcome := (⟨r.1, s.parents⟩, r.2)

/-- `terminationResource` recorded in a ContextTerminationError (commit 0426709): which hard limit
was reached, if any -/
inductive TermRes where
  | none      -- KillContext / SetStopLevel(HardStop): no limit involved
  | cpu
  | mem
  deriving DecidableEq, Repr, Inhabited

/-- the resource recorded when operation `o` terminates frame `f`: requireCPU / requireMem first
test the hard-stop flag (KillContext, no resource), then the limit -/
def killCause (f : Frame) : Op → TermRes
  | .reqCpu _ => if f.hardStopped then .none else .cpu
  | .reqMem _ => if f.hardStopped then .none else .mem
  | _ => .none

/-- the resource recorded when the charge made by PopContext terminates the parent `p` -/
def popCause (p c : Frame) : TermRes :=
  match p.requireCPU c.used.Cpu with
  | (_, .ok) => killCause (p.requireCPU c.used.Cpu).1 (.reqMem c.used.Memory)
  | _ => killCause p (.reqCpu c.used.Cpu)

/-- `propagateTermination(child, e)` called in the parent `m` after the child was popped and
charged (commit 52f8e49): if the limit the child ran into was inherited from `m` (flag recorded
when the child was pushed), `m` is terminated too (no-op unless `m` is live). -/
def Frame.propagate (m child : Frame) : TermRes → Frame × Outcome
  | .none => (m, .ok)
  | .cpu => if child.inhCpu && m.live then (m.kill, .terminated) else (m, .ok)
  | .mem => if child.inhMem && m.live then (m.kill, .terminated) else (m, .ok)

def step (s : St) : Op → St × Outcome
  | .push d => (push s d, .ok)
  | .pop => pop s
  | .reqCpu n => onCur s (s.cur.requireCPU n)
  | .reqMem n => onCur s (s.cur.requireMem n)
  | .relMem n => ((⟨(releaseStack s.cur s.parents n).1.1, (releaseStack s.cur s.parents n).1.2⟩ : St),
                  (releaseStack s.cur s.parents n).2)
  | .stop l => onCur s (s.cur.setStop l)
  | .due => (s, .ok)

/-- final state after a history (outcomes ignored: the raw API lets the caller continue after
recovering a panic) -/
def run (s : St) : List Op → St
  | [] => s
  | op :: ops => run (step s op).1 ops

/-- the outcomes, op by op -/
def outcomes (s : St) : List Op → List Outcome
  | [] => []
  | op :: ops => (step s op).2 :: outcomes (step s op).1 ops

/-- How the real code uses the API: after a context is no longer live only `pop` (the deferred
PopContext of CallContext) and read-only queries happen in it. -/
def legalOp (s : St) : Op → Bool
  | .pop => true
  | .due => true
  | _ => s.cur.live

def Legal (s : St) : List Op → Prop
  | [] => True
  | op :: ops => legalOp s op = true ∧ Legal (step s op).1 ops

def Legal.dec : (s : St) → (ops : List Op) → Decidable (Legal s ops)
  | _, [] => isTrue trivial
  | s, op :: ops =>
    match hd : legalOp s op with
    | false => isFalse (fun h => by have := h.1; rw [hd] at this; exact Bool.noConfusion this)
    | true =>
      match Legal.dec (step s op).1 ops with
      | isTrue h => isTrue ⟨hd, h⟩
      | isFalse h => isFalse (fun h' => h h'.2)

instance (s : St) (ops : List Op) : Decidable (Legal s ops) := Legal.dec s ops

/-- CPU work granted by a history: the sum of the amounts of the `reqCpu` operations that returned
normally (as natural numbers: the quantity the limit is meant to bound). -/
def granted (s : St) : List Op → Nat
  | [] => 0
  | op :: ops =>
    (match op, (step s op).2 with
     | .reqCpu n, .ok => n.toNat
     | _, _ => 0) + granted (step s op).1 ops

/-- number of operations that ended in a termination panic -/
def kills (s : St) : List Op → Nat
  | [] => 0
  | op :: ops => (if (step s op).2 = .terminated then 1 else 0) + kills (step s op).1 ops

/-! ### The invariant of the context stack (what C07 claims of every reachable state) -/

/-- per frame: no counter has reached its hard limit, soft limits are within hard limits, a live
context has not been asked to hard-stop, limits imply tracking, the (frozen) clock reads 0 -/
structure FrameOk (f : Frame) : Prop where
  cpu : below f.used.Cpu f.hard.Cpu
  mem : below f.used.Memory f.hard.Memory
  millis : f.used.Millis = 0#64
  soft : resLe f.soft f.hard
  nostop : f.live = true → f.hardStopped = false
  tcpu : f.hard.Cpu ≠ 0#64 → f.trackCpu = true
  tmem : f.hard.Memory ≠ 0#64 → f.trackMem = true

/-- child against its direct parent: hard budget within what the parent has left, flags inherited -/
structure Chain (c p : Frame) : Prop where
  hard : resLe c.hard (p.hard.Remove p.used)
  flags : flagsSuperset c.flags p.flags

/-- every parent is live, well-formed and dominates its child -/
def ChainInv : Frame → List Frame → Prop
  | _, [] => True
  | c, p :: ps => Chain c p ∧ FrameOk p ∧ p.live = true ∧ ChainInv p ps

def Inv (s : St) : Prop := FrameOk s.cur ∧ ChainInv s.cur s.parents

/-- states reachable from `s0` by legal histories -/
inductive Reachable (s0 : St) : St → Prop where
  | refl : Reachable s0 s0
  | step {s : St} (op : Op) : Reachable s0 s → legalOp s op = true → Reachable s0 (step s op).1

/-- total CPU recorded on the whole stack -/
def sumCpu : List Frame → Nat
  | [] => 0
  | f :: fs => f.used.Cpu.toNat + sumCpu fs

def St.frames (s : St) : List Frame := s.cur :: s.parents

/-- no request of the history can wrap a counter that is below `L`:  n + L ≤ 2^64 -/
def NoOverflow (L : BitVec 64) : List Op → Prop
  | [] => True
  | .reqCpu n :: ops => n.toNat + L.toNat ≤ 2 ^ 64 ∧ NoOverflow L ops
  | _ :: ops => NoOverflow L ops

def NoOverflow.dec (L : BitVec 64) : (ops : List Op) → Decidable (NoOverflow L ops)
  | [] => isTrue trivial
  | .reqCpu n :: ops =>
    match NoOverflow.dec L ops with
    | isTrue h => if hn : n.toNat + L.toNat ≤ 2 ^ 64 then isTrue ⟨hn, h⟩ else isFalse (fun c => hn c.1)
    | isFalse h => isFalse (fun c => h c.2)
  | .push _ :: ops => NoOverflow.dec L ops
  | .pop :: ops => NoOverflow.dec L ops
  | .reqMem _ :: ops => NoOverflow.dec L ops
  | .relMem _ :: ops => NoOverflow.dec L ops
  | .stop _ :: ops => NoOverflow.dec L ops
  | .due :: ops => NoOverflow.dec L ops

instance (L : BitVec 64) (ops : List Op) : Decidable (NoOverflow L ops) := NoOverflow.dec L ops

end GoluaVerif.Model.Ctx
