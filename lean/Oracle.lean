import Oracle.Proto
import Oracle.C02
