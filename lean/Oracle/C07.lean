/-
  Oracle.C07 — runs `Model.Ctx` (the definitions the C05–C07 theorems are about) on the op lines of
  the c07 harness and prints what the model says, in the harness's own format:

      H <id>                                   → H <id>
      <op> <args…> [= <anything>]              → <op> <args…> = <outcome> | <frame> | <frame> …
      frame = hc hm ht sc sm st uc um ut status due flags          (active context first)

  mode `flat` (default): one model state per history, reset at every `H` line.
-/
import Oracle.Proto
import GoluaVerif.Model.Ctx
import GoluaVerif.Model.CallCtx
namespace Oracle.C07
open GoluaVerif GoluaVerif.Model.Ctx GoluaVerif.Generated.Resources

def canonMs (v : BitVec 64) : Nat := ((v.toNat + 2 ^ 20) >>> 21) <<< 21

def frameStr (f : Frame) : String :=
  s!"{f.hard.Cpu.toNat} {f.hard.Memory.toNat} {canonMs f.hard.Millis} {f.soft.Cpu.toNat} {f.soft.Memory.toNat} {canonMs f.soft.Millis} {f.used.Cpu.toNat} {f.used.Memory.toNat} {canonMs f.used.Millis} {f.status.toNat} {if f.due then 1 else 0} {f.flags.toNat}"

def stackStr (s : St) : String :=
  (s.cur :: s.parents).foldl (fun acc f => acc ++ " | " ++ frameStr f) ""

def outcomeStr : Outcome → String
  | .ok => "ok"
  | .terminated => "terminated"
  | .crash => "crash"

def nat64? (s : String) : Option (BitVec 64) := s.toNat?.map (BitVec.ofNat 64)

def parseOp (ws : List String) : Option Op :=
  match ws with
  | ["push", a, b, c, d, e, f, g] => do
    let hc ← nat64? a; let hm ← nat64? b; let ht ← nat64? c
    let sc ← nat64? d; let sm ← nat64? e; let st ← nat64? f
    let fl ← g.toNat?
    some (.push ⟨⟨hc, hm, ht⟩, ⟨sc, sm, st⟩, BitVec.ofNat 16 fl⟩)
  | ["pop"] => some .pop
  | ["cpu", n] => (nat64? n).map .reqCpu
  | ["mem", n] => (nat64? n).map .reqMem
  | ["rel", n] => (nat64? n).map .relMem
  | ["stop", n] => n.toNat?.map fun l => .stop (BitVec.ofNat 8 l)
  | _ => none

def opPart (line : String) : String :=
  match line.splitOn " = " with
  | a :: _ => a
  | [] => line

/-! ### bracketed form -/
open GoluaVerif.Model.CallCtx in
partial def parseItem (tok : Array String) (pos : Nat) : Option (Item × Nat) :=
  match tok[pos]? with
  | some "err" => some (.err, pos + 1)
  | some "(" =>
    match tok[pos + 1]? with
    | some "call" => do
      let nums ← (List.range 7).mapM fun i => (tok[pos + 2 + i]?).bind String.toNat?
      match nums with
      | [a, b, c, d, e, f, g] =>
        let d0 : CtxDef := ⟨⟨.ofNat 64 a, .ofNat 64 b, .ofNat 64 c⟩, ⟨.ofNat 64 d, .ofNat 64 e, .ofNat 64 f⟩, .ofNat 16 g⟩
        let rec loop (p : Nat) (acc : Array Item) : Option (Array Item × Nat) :=
          match tok[p]? with
          | some ")" => some (acc, p + 1)
          | some _ => match parseItem tok p with
            | some (it, p') => loop p' (acc.push it)
            | none => none
          | none => none
        let (body, p) ← loop (pos + 9) #[]
        some (.call d0 body.toList [], p)
      | _ => none
    | some k => do
      let n ← (tok[pos + 2]?).bind String.toNat?
      if tok[pos + 3]? ≠ some ")" then none else
      let o ← parseOp [k, toString n]
      some (.op o, pos + 4)
    | none => none
  | _ => none

open GoluaVerif.Model.CallCtx in
def exitStr : Exit → String
  | .done => "done" | .error => "error" | .killed _ => "killed" | .crashed => "crashed"

open GoluaVerif.Model.CallCtx in
def treeLine (line : String) : String :=
  let o := opPart line
  let tok := ((o.drop 2).toString.splitOn " " |>.filter (· ≠ "")).toArray
  match parseItem tok 0 with
  | none => "bad-line"
  | some (it, _) =>
    let (a, ex) := exec St.init it
    let rs := a.results.reverse.foldl (fun acc (r : CallResult) =>
      acc ++ s!" {r.depth}:{r.status.toNat}:{r.used.Cpu.toNat}:{r.used.Memory.toNat}:{exitStr r.exit}") ""
    o ++ " = " ++ exitStr ex ++ " ;" ++ rs ++ " ;" ++ stackStr a.st

def flat : IO UInt32 := do
  let stdin ← IO.getStdin
  let stdout ← IO.getStdout
  let st ← IO.mkRef St.init
  Oracle.forEachLine stdin fun line => do
    if line.startsWith "T " then
      stdout.putStrLn (treeLine line)
    else if line.startsWith "H" then
      st.set St.init
      stdout.putStrLn line
    else
      let o := opPart line
      match parseOp (o.splitOn " " |>.filter (· ≠ "")) with
      | none => stdout.putStrLn "bad-line"
      | some op =>
        let (s', out) := step (← st.get) op
        st.set s'
        stdout.putStrLn (o ++ " = " ++ outcomeStr out ++ stackStr s')
  stdout.flush
  return 0

def main (args : List String) : IO UInt32 := do
  match args with
  | [] => flat
  | ["flat"] => flat
  | _ => do
    IO.eprintln "oracle c07 [flat]"
    return 2

end Oracle.C07
