import Oracle.Proto
namespace Oracle.C07

/-- placeholder: the oracle driver for C07 is not built yet -/
def main (_args : List String) : IO UInt32 := do
  IO.eprintln "oracle mode c07: not built"
  return 2

end Oracle.C07
