/-
  Oracle.C01 — runs the reference semantics `Spec.Lua.run` on the programs of the C01/C11 harness.
  Input lines:
      P <id> <S-expression of the chunk>
      R <id> <tag> <arg> <arg> …        (arg values in the line-protocol encoding)
  Output: one line per R line:  `<id> <tag> <outcome>`  with outcome
      T[<events>] ok[<values>] | T[<events>] err[<value>] | oof | unsup <what>
-/
import Oracle.LuaSexp
import Std.Data.HashMap
namespace Oracle.C01
open GoluaVerif GoluaVerif.Spec GoluaVerif.Spec.Lua Oracle Oracle.LuaSexp

def defaultFuel : Nat := 6000

def main (args : List String) : IO UInt32 := do
  let fuel := match args with
    | f :: _ => f.toNat?.getD defaultFuel
    | [] => defaultFuel
  let stdin ← IO.getStdin
  let stdout ← IO.getStdout
  let progs ← IO.mkRef (∅ : Std.HashMap String Block)
  forEachLine stdin fun line => do
    if line.startsWith "P " then
      let rest := (line.drop 2).toString
      let id := (rest.takeWhile (· != ' ')).toString
      let body := (rest.drop (id.length + 1)).toString
      match parseSexp body >>= toBlock with
      | .ok b => progs.modify (·.insert id b)
      | .error e => stdout.putStrLn s!"{id} parse-error {e}"
    else if line.startsWith "R " then
      match line.splitOn " " with
      | _ :: id :: tag :: argStrs =>
        let input := argStrs.filterMap (fun a => (V.parse a).map valOfV)
        match (← progs.get).get? id with
        | some b =>
          let out := run nativeFloatOps fuel b input
          stdout.putStrLn s!"{id} {tag} {showOutcome out}"
        | none => stdout.putStrLn s!"{id} {tag} no-such-program"
      | _ => stdout.putStrLn "bad-line"
    else pure ()
  return 0

end Oracle.C01
