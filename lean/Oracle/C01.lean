import Oracle.Proto
namespace Oracle.C01

/-- placeholder: the oracle driver for C01 is not built yet -/
def main (_args : List String) : IO UInt32 := do
  IO.eprintln "oracle mode c01: not built"
  return 2

end Oracle.C01
