/-
  Oracle.C02 — expected results for the C02 harness lines
      <op> <x> [<y>] = <impl result>
  Output: one line per input line with the result the Lua manual prescribes
  (`?` = not checked by this oracle).  Integer, comparison and conversion
  semantics come from `Spec.Num` (the definitions the theorems are about);
  float + − × ÷ floor come from the hardware through Lean's `Float`.
-/
import Oracle.Proto
import GoluaVerif.Spec.Num
import GoluaVerif.Spec.Numeral
namespace Oracle.C02
open GoluaVerif GoluaVerif.Spec Oracle

def toNum? : V → Option Num
  | .int n => some (.int n)
  | .flt b => some (.flt (F64.ofBits b))
  | _ => none

/-- number → hardware float (exact model for int → float rounding) -/
def toFloat : Num → Float
  | .int n => Float.ofBits (F64.toBits (F64.ofI64 n))
  | .flt f => Float.ofBits (F64.toBits f)

def fltV (f : Float) : V := .flt f.toBits
def numV : Num → V
  | .int n => .int n
  | .flt f => .flt (F64.toBits f)

def modFloat (a b : Num) : V :=
  -- manual §3.4.1: a % b = a − ⌊a/b⌋·b, computed as in lvm.c: m = fmod(a,b); if m and b have opposite signs, m += b
  let fa := match a with | .int n => F64.ofI64 n | .flt f => f
  let fb := match b with | .int n => F64.ofI64 n | .flt f => f
  let m := F64.fmod fa fb
  let zero := F64.fin false 0
  let adj := if F64.blt zero m then F64.blt fb zero else (F64.blt m zero && F64.blt zero fb)
  if adj then fltV (Float.ofBits (F64.toBits m) + Float.ofBits (F64.toBits fb)) else .flt (F64.toBits m)

def floorToV (f : Float) : V :=
  let fl := f.floor
  match Num.floatToInt? (F64.ofBits fl.toBits) with
  | some n => .int n
  | none => fltV fl
def ceilToV (f : Float) : V :=
  let fl := f.ceil
  match Num.floatToInt? (F64.ofBits fl.toBits) with
  | some n => .int n
  | none => fltV fl

def bin (op : String) (x y : V) : String :=
  match toNum? x, toNum? y with
  | some a, some b =>
    let bothInt : Option (I64 × I64) := match a, b with
      | .int m, .int n => some (m, n)
      | _, _ => none
    let conv : Option (I64 × I64) := match a.toInt?, b.toInt? with
      | some m, some n => some (m, n)
      | _, _ => none
    let b2s (v : Bool) : String := if v then "t" else "F"
    match op with
    | "add" => match bothInt with
      | some (m, n) => (V.int (m + n)).show
      | none => (fltV (toFloat a + toFloat b)).show
    | "sub" => match bothInt with
      | some (m, n) => (V.int (m - n)).show
      | none => (fltV (toFloat a - toFloat b)).show
    | "mul" => match bothInt with
      | some (m, n) => (V.int (m * n)).show
      | none => (fltV (toFloat a * toFloat b)).show
    | "div" => (fltV (toFloat a / toFloat b)).show
    | "idiv" => match bothInt with
      | some (m, n) => if n == 0#64 then "E" else (V.int (Num.idivInt m n)).show
      | none => (fltV (toFloat a / toFloat b).floor).show
    | "mod" => match bothInt with
      | some (m, n) => if n == 0#64 then "E" else (V.int (Num.modInt m n)).show
      | none => (modFloat a b).show
    | "pow" => "?"
    | "band" => match conv with | some (m, n) => (V.int (m &&& n)).show | none => "E"
    | "bor" => match conv with | some (m, n) => (V.int (m ||| n)).show | none => "E"
    | "bxor" => match conv with | some (m, n) => (V.int (m ^^^ n)).show | none => "E"
    | "shl" => match conv with | some (m, n) => (V.int (Num.shl m n)).show | none => "E"
    | "shr" => match conv with | some (m, n) => (V.int (Num.shr m n)).show | none => "E"
    | "lt" => b2s (Num.lt a b)
    | "le" => b2s (Num.le a b)
    | "gt" => b2s (Num.lt b a)
    | "ge" => b2s (Num.le b a)
    | "eq" => b2s (Num.eq a b)
    | "ne" => b2s (!Num.eq a b)
    | "rawequal" => b2s (Num.eq a b)
    | "keyeq" => if a.isNaN then "E" else b2s (Num.eq a b)
    | "fmod" => match bothInt with
      | some (m, n) =>
        if n == 0#64 then "E" else if n == BitVec.ofInt 64 (-1) then "i0" else (V.int (Num.fmodInt m n)).show
      | none =>
        let fa := match a with | .int n => F64.ofI64 n | .flt f => f
        let fb := match b with | .int n => F64.ofI64 n | .flt f => f
        (V.flt (F64.toBits (F64.fmod fa fb))).show
    | "ult" => match conv with
      | some (m, n) => b2s (decide (m.toNat < n.toNat))
      | none => "E"
    | "max" => if Num.lt a b then (numV b).show else (numV a).show
    | "min" => if Num.lt b a then (numV b).show else (numV a).show
    | _ => "?"
  | _, _ => "?"

def un (op : String) (x : V) : String :=
  match toNum? x with
  | some a =>
    match op with
    | "unm" => match a with
      | .int n => (V.int (-n)).show
      | .flt f => (V.flt (F64.toBits (F64.neg f))).show
    | "bnot" => match a.toInt? with | some n => (V.int (~~~n)).show | none => "E"
    | "tointeger" => match a.toInt? with | some n => (V.int n).show | none => "n"
    | "tonumber" => (numV a).show
    | "abs" => match a with
      | .int n => (V.int (if BitVec.slt n 0#64 then -n else n)).show
      | .flt f => (V.flt (F64.toBits (match f with | .fin _ m => .fin false m | .inf _ => .inf false | .nan => .nan))).show
    | "floor" => match a with
      | .int n => (V.int n).show
      | .flt _ => (floorToV (toFloat a)).show
    | "ceil" => match a with
      | .int n => (V.int n).show
      | .flt _ => (ceilToV (toFloat a)).show
    | "mtype" => match a with
      | .int _ => (V.str "integer".toUTF8).show
      | .flt _ => (V.str "float".toUTF8).show
    | "tofloat" => (fltV (toFloat a + 0.0)).show
    | "strarith" => match a with
      | .int n => (V.int n).show
      | .flt _ => (fltV (toFloat a + 0.0)).show
    | "strbit" => match a.toInt? with | some n => (V.int n).show | none => "E"
    | "fidx" => if a.isNaN then "E" else (numV a.normKey).show
    | _ => "?"
  | none => "?"

def hasDotDot : List UInt8 → Bool
  | 46 :: 46 :: _ => true
  | _ :: r => hasDotDot r
  | [] => false

/-- numeral strings (Spec.Numeral): `tonumberS s<hex>` = tonumber(s); `literal s<hex>` = value of the
    chunk `return <s>` when s is exactly one numeral token (`E` when the token is malformed, `?` when
    s is not a single numeral token); `strarithS s<hex>` = `s + 0` -/
def strOp (op : String) (s : ByteArray) : String :=
  let bs := s.toList
  match op with
  | "tonumberS" => match Numeral.str2number bs with
    | some n => (numV n).show
    | none => "n"
  | "literal" => match Numeral.literal bs with
    | .value n => (numV n).show
    | .malformed =>
      -- llex.c swallows `..` into a malformed numeral (`0...0`, `.9..0`); the manual does not say how far a
      -- malformed numeral extends, and read as `0.` `..` `0` the chunk is valid: not decided here
      if hasDotDot bs then "?" else "E"
    | .notOneToken => "?"
  | "strarithS" => match Numeral.str2number bs with
    | some (.int n) => (V.int n).show
    | some (.flt f) => (fltV (toFloat (.flt f) + 0.0)).show
    | none => "E"
  | _ => "?"

def handle (line : String) : String :=
  match line.splitOn " " with
  | [op, x, y, "=", _] => match V.parse x, V.parse y with
    | some a, some b => bin op a b
    | _, _ => "bad-line"
  | [op, x, "=", _] => match V.parse x with
    | some (.str s) => strOp op s
    | some a => un op a
    | none => "bad-line"
  | _ => "bad-line"

def main (_args : List String) : IO UInt32 := do
  let stdin ← IO.getStdin
  let stdout ← IO.getStdout
  forEachLine stdin fun line => stdout.putStrLn (handle line)
  return 0

end Oracle.C02
