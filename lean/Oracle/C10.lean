/-
  Oracle.C10 — to-be-closed variables.  Input lines (from harness/cmd/c10):
      <variant> <prog> <handlers> = <impl log>
  prog:      T<id> | N | Z | M<n> | B(seq) | L<n>(seq) | K | G<k> | R | E<n> | P(seq) | C(seq) | V(seq) | Y
             (V = return (function() seq end)());  F<n>(T<id>|N|Z,seq) = generic for with closing value
             seq = prog,prog,…  (possibly empty)
  handlers:  `-` or id:e[n|s],…  — the handler of value id raises user error e
             (always / only when its 2nd argument is nil (n) / only when it is an error (s))
  Output:    <Spec.Tbc.run log>;<runVM (compile p) log>;<clpush/cltrunc skeleton of compile p>
  events:    c<id>:<err>  m<n>  p:<err>  k:<err> (coroutine.close result)     err = n | u<k> | x
  variant `coclose`: Spec.Tbc.runCo / runVMCo (the body is a coroutine closed at its first Y)
-/
import Oracle.Proto
import GoluaVerif.Spec.Tbc
import GoluaVerif.Model.TbcVM
namespace Oracle.C10
open GoluaVerif.Spec.Tbc GoluaVerif.Model.Tbc


def parseNat (cs : List Char) : Option (Nat × List Char) :=
  let ds := cs.takeWhile Char.isDigit
  if ds.isEmpty then none else some (ds.foldl (fun a c => a * 10 + (c.toNat - '0'.toNat)) 0, cs.drop ds.length)

/-- `_<k>` after a loop count names the Lua rendering (expression-list shape of a generic for,
    repeat-until for a loop); it does not change the program -/
def skipShape : List Char → List Char
  | '_' :: cs => cs.dropWhile Char.isDigit
  | cs => cs

def seqOf : List Prog → Prog
  | [] => .skip
  | [p] => p
  | p :: ps => .seq p (seqOf ps)

mutual
partial def parseProg : List Char → Option (Prog × List Char)
  | 'T' :: cs => (parseNat cs).map fun (n, r) => (.tbc (.obj n), r)
  | 'N' :: cs => some (.tbc .nilv, cs)
  | 'Z' :: cs => some (.tbc .bad, cs)
  | 'M' :: cs => (parseNat cs).map fun (n, r) => (.mark n, r)
  | 'K' :: cs => some (.brk, cs)
  | 'G' :: cs => (parseNat cs).map fun (n, r) => (.gotoOut n, r)
  | 'R' :: cs => some (.ret, cs)
  | 'Y' :: cs => some (.yield, cs)
  | 'E' :: cs => (parseNat cs).map fun (n, r) => (.err n, r)
  | 'B' :: '(' :: cs => (parseSeq cs []).map fun (ps, r) => (.block (seqOf ps), r)
  | 'P' :: cs => match skipShape cs with
    | '(' :: r0 => (parseSeq r0 []).map fun (ps, r) => (.pcall (seqOf ps), r)
    | _ => none
  | 'C' :: '(' :: cs => (parseSeq cs []).map fun (ps, r) => (.call (seqOf ps), r)
  | 'V' :: '(' :: cs => (parseSeq cs []).map fun (ps, r) => (.retCall (seqOf ps), r)
  | 'F' :: cs => match parseNat cs with
    | some (n, r0) => match skipShape r0 with
      | '(' :: r => match parseSeq r [] with
        | some (.tbc v :: ps, r2) => some (Prog.forin v n (seqOf ps), r2)
        | _ => none
      | _ => none
    | _ => none
  | 'L' :: cs => match parseNat cs with
    | some (n, r0) => match skipShape r0 with
      | '(' :: r => (parseSeq r []).map fun (ps, r2) => (.loop n (seqOf ps), r2)
      | _ => none
    | _ => none
  | _ => none
partial def parseSeq (cs : List Char) (acc : List Prog) : Option (List Prog × List Char) :=
  match cs with
  | ')' :: r => some (acc.reverse, r)
  | ',' :: r => parseSeq r acc
  | _ => match parseProg cs with
    | some (p, r) => parseSeq r (p :: acc)
    | none => none
end

def parseTop (s : String) : Option Prog :=
  match parseSeq (s.toList ++ [')']) [] with
  | some (ps, []) => some (seqOf ps)
  | _ => none

/-- handler table entries: (id, error, mode) with mode 0 always, 1 only if errArg = nil, 2 only if errArg ≠ nil -/
def parseHandlers (s : String) : Option (List (Nat × Nat × Nat)) :=
  if s == "-" then some [] else
  (s.splitOn ",").mapM fun item =>
    match item.splitOn ":" with
    | [a, b] =>
      let (num, mode) :=
        if b.endsWith "n" then (b.dropEnd 1 |>.toString, 1)
        else if b.endsWith "s" then (b.dropEnd 1 |>.toString, 2)
        else (b, 0)
      match a.toNat?, num.toNat? with
      | some i, some e => some (i, e, mode)
      | _, _ => none
    | _ => none

def mkHandlers (tab : List (Nat × Nat × Nat)) : Handlers := fun id arg =>
  match tab.find? (fun t => t.1 == id) with
  | some (_, e, mode) =>
    if mode == 0 || (mode == 1 && arg.isNone) || (mode == 2 && arg.isSome) then some (.user e) else none
  | none => none

def showErr : Option Err → String
  | none => "n"
  | some (.user k) => "u" ++ toString k
  | some .notClosable => "x"

def showEv : Ev → String
  | .close id e => "c" ++ toString id ++ ":" ++ showErr e
  | .mark n => "m" ++ toString n
  | .caught r => "p:" ++ showErr r
  | .closed r => "k:" ++ showErr r

def showLog (l : List Ev) : String := if l.isEmpty then "-" else ",".intercalate (l.map showEv)

/-- the clpush / cltrunc skeleton of a code unit in program order; nested functions are listed after
    the unit that contains them, in order of appearance (the order of the constant table) -/
partial def skeleton (c : Code) : List String :=
  let rec go (c : Code) (acc : List String × List Code) : List String × List Code :=
    match c with
    | .skip | .mark _ | .err _ | .yield => acc
    | .brk | .jump _ => (acc.1 ++ ["jump"], acc.2)
    | .ret => (acc.1 ++ ["ret"], acc.2)
    | .seq a b => go b (go a acc)
    | .push _ => (acc.1 ++ ["push"], acc.2)
    | .trunc h => (acc.1 ++ ["trunc" ++ toString h], acc.2)
    | .block c => go c acc
    | .loop _ c => go c acc
    | .pcall c => (acc.1, acc.2 ++ [c])
    | .call c => (acc.1, acc.2 ++ [c])
    | .tailcall c => (acc.1 ++ ["tcall"], acc.2 ++ [c])
  let (own, subs) := go c ([], [])
  ["["] ++ own ++ (subs.map skeleton).flatten ++ ["]"]

def handle (line : String) : String :=
  match line.splitOn " " with
  | variant :: prog :: hs :: _ =>
    match parseTop prog, parseHandlers hs with
    | some p, some tab =>
      let h := mkHandlers tab
      let co := variant == "coclose"
      let spec := showLog (if co then runCo h p else run h p)
      match compileChunk p with
      | some c => spec ++ ";" ++ showLog (if co then runVMCo h c else runVM h c) ++ ";" ++ ",".intercalate (["[", "ret"] ++ skeleton c ++ ["]"])
      | none => spec ++ ";compile-error;-"
    | _, _ => "bad-line"
  | _ => "bad-line"

def main (_args : List String) : IO UInt32 := do
  let stdin ← IO.getStdin
  let stdout ← IO.getStdout
  forEachLine stdin fun line => stdout.putStrLn (handle line)
  return 0

end Oracle.C10
