import Oracle.Proto
namespace Oracle.C10

/-- placeholder: the oracle driver for C10 is not built yet -/
def main (_args : List String) : IO UInt32 := do
  IO.eprintln "oracle mode c10: not built"
  return 2

end Oracle.C10
