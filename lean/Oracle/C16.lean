import Oracle.Proto
namespace Oracle.C16

/-- placeholder: the oracle driver for C16 is not built yet -/
def main (_args : List String) : IO UInt32 := do
  IO.eprintln "oracle mode c16: not built"
  return 2

end Oracle.C16
