/-
  Oracle.C16 — numeric for.  Input lines (from harness/cmd/c16):
      <mode> <a> <b> <c> = <status> <values>
  where a b c are protocol values (`s<hex>~<enc>` = a string and the number golua's
  tonumber gives for it, `-` = step omitted).  Output, one line per input line:
      <model outcome>;<spec outcome>|<tolerated alternative>|…;<kind>:<flags>
  outcome = `E` | `ok v,v,…` | `cap v,v,…` (cap = still running after CAP iterations).
  Model outcome = Model.For.run (level B), spec = Spec.For.run (level A).
  Also: `fadd <x> <y>` → the model's float sum (self-test against the hardware).
-/
import Oracle.Proto
import GoluaVerif.Spec.For
import GoluaVerif.Model.For
namespace Oracle.C16
open GoluaVerif GoluaVerif.Spec Oracle
open GoluaVerif.Spec.For (Val Outcome)

def cap : Nat := 40

def numOfV : V → Option Num
  | .int n => some (.int n)
  | .flt b => some (.flt (F64.ofBits b))
  | _ => none

def parseVal (s : String) : Option Val :=
  if s == "-" then some (.num (.int 1#64)) else
  match s.splitOn "~" with
  | [x] => match V.parse x with
    | some (.str _) => none            -- a string must carry its conversion
    | some v => match numOfV v with
      | some n => some (.num n)
      | none => some .other
    | none => none
  | [x, c] => match V.parse x, V.parse c with
    | some (.str _), some cv => some (.str (numOfV cv))
    | _, _ => none
  | _ => none

def showNum : Num → String
  | .int n => (V.int n).show
  | .flt f => (V.flt (F64.toBits f)).show

def showOutcome : Outcome → String
  | .error => "E"
  | .values vs =>
    let shown := vs.take cap
    let body := if shown.isEmpty then "-" else ",".intercalate (shown.map showNum)
    (if vs.length > cap then "cap " else "ok ") ++ body

def dedup (xs : List String) : List String :=
  xs.foldl (fun acc x => if acc.contains x then acc else acc ++ [x]) []

/-- the float-loop alternative after lvm.c (skip test, then continue test), with the limit converted or not -/
def runRef (convLimit : Bool) (a l d : Val) : Outcome :=
  match a.toNum?, l.toNum?, d.toNum? with
  | some a, some l, some d =>
    match a, d with
    | .int _, .int _ => For.run false (cap + 1) (.num a) (.num l) (.num d)
    | _, _ =>
      let fs := For.toFlt a
      let fd := For.toFlt d
      if fd.isZero then .error
      else .values (For.floatValuesRef (cap + 1) fs (if convLimit then .flt (For.toFlt l) else l) fd)
  | _, _, _ => .error

/-- lvm.c treats a string initial value / step as a float loop ("1" is not an integer value);
    golua converts by syntax.  The manual does not say: both are tolerated. -/
def stringsAsFloat : Val → Val
  | .str (some (.int n)) => .num (.flt (F64.ofI64 n))
  | v => v

def isNaNVal : Val → Bool
  | v => match v.toNum? with
    | some n => n.isNaN
    | none => false

def isInfVal (neg : Bool) : Val → Bool
  | v => match v.toNum? with
    | some (.flt (.inf s)) => s == neg
    | _ => false

def handle (line : String) : String :=
  match line.splitOn " " with
  | "fadd" :: x :: y :: _ =>
    match V.parse x, V.parse y with
    | some (.flt a), some (.flt b) => (V.flt (F64.toBits (F64.fadd (F64.ofBits a) (F64.ofBits b)))).show
    | _, _ => "bad-line"
  | _mode :: sa :: sl :: sd :: "=" :: _ =>
    match parseVal sa, parseVal sl, parseVal sd with
    | some a, some l, some d =>
      let model := showOutcome (Model.For.run (cap + 1) a l d)
      let hasStr := match a, d with
        | .str _, _ => true
        | _, .str _ => true
        | _, _ => false
      let a' := stringsAsFloat a
      let d' := stringsAsFloat d
      let alts := [showOutcome (For.run false (cap + 1) a l d), showOutcome (For.run true (cap + 1) a l d),
                   showOutcome (runRef false a l d), showOutcome (runRef true a l d)]
        ++ (if hasStr then [showOutcome (For.run false (cap + 1) a' l d'), showOutcome (For.run true (cap + 1) a' l d'),
                            showOutcome (runRef true a' l d')] else [])
      let kind := match a.toNum?, l.toNum?, d.toNum? with
        | some (.int _), some _, some (.int _) => "int"
        | some _, some _, some _ => "float"
        | _, _, _ => "err"
      let flags :=
        (if isNaNVal l then ["nan:limit"] else []) ++
        (if isNaNVal a then ["nan:start"] else []) ++
        (if isNaNVal d then ["nan:step"] else []) ++
        (if kind == "float" && ((isInfVal true a && isInfVal false d) || (isInfVal false a && isInfVal true d))
         then ["nan:arise"] else [])
      model ++ ";" ++ "|".intercalate (dedup alts) ++ ";" ++ kind ++ ":" ++ ",".intercalate flags
    | _, _, _ => "bad-line"
  | _ => "bad-line"

def main (_args : List String) : IO UInt32 := do
  let stdin ← IO.getStdin
  let stdout ← IO.getStdout
  forEachLine stdin fun line => stdout.putStrLn (handle line)
  return 0

end Oracle.C16
