import Oracle.Proto
namespace Oracle.C04

/-- placeholder: the oracle driver for C04 is not built yet -/
def main (_args : List String) : IO UInt32 := do
  IO.eprintln "oracle mode c04: not built"
  return 2

end Oracle.C04
