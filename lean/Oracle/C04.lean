import Oracle.Proto
import GoluaVerif.Model.Limits
namespace Oracle.C04
open GoluaVerif.Model

/-- oracle mode c04.  Input lines (from harness mode `limits`):
      limit <kind> <size> <observed> <measure>
    Output, one line per input line: the outcome class Model.Limits predicts for the measured quantity
    (`ok` | `compile-error` | `panic` | `wrong`), or `?` where the model leaves it undetermined. -/
def answer (line : String) : String :=
  match line.splitOn " " with
  | ["limit", kind, _size, _obs, measure] =>
    match measure.toNat? with
    | some m =>
      match Limits.predict kind m with
      | some o => o.cls
      | none => "?"
    | none => "bad-line"
  | _ => "bad-line"

partial def loop (h : IO.FS.Stream) (out : IO.FS.Stream) : IO Unit := do
  let line ← h.getLine
  if line.isEmpty then return ()
  let l := line.trimRight
  if l.isEmpty then loop h out else
  out.putStrLn (answer l)
  loop h out

def main (_args : List String) : IO UInt32 := do
  let stdin ← IO.getStdin
  let stdout ← IO.getStdout
  loop stdin stdout
  return 0

end Oracle.C04
